import Toq.Proofs.NpaSeesaw
/-!
# Mixed-state strategies (C07)

A general finite-dimensional strategy shares a **density matrix** `ρ` on `ℂ^dA ⊗ ℂ^dB` and measures POVMs `E x a`,
`F y b`; the behaviour is `p(a,b|x,y) = tr((E x a ⊗ F y b) ρ)`.  Tracing out Alice turns it into a feasible point of the
see-saw programs on Bob's space: `σ x a = tr_A[(E x a ⊗ 1) ρ]`, `τ = tr_A ρ`, with `tr(F y b σ x a) = p(a,b|x,y)`.  With
`Toq/Proofs/NpaSeesaw.lean` (purification of `τ`) and `Toq/Proofs/NpaPovm.lean` (Naimark) such a strategy is a commuting
projective strategy on a larger space with the same behaviour, hence inside every NPA level.
-/

namespace Toq.Npa
open Matrix
open scoped ComplexOrder Kronecker

section PTr
variable {A B : Type} [Fintype A] [Fintype B] [DecidableEq A] [DecidableEq B]

/-- partial trace over the first tensor factor -/
def ptrA (X : Matrix (A × B) (A × B) ℂ) : Matrix B B ℂ := Matrix.of fun j j' => ∑ i, X (i, j) (i, j')

theorem ptrA_add (X Y : Matrix (A × B) (A × B) ℂ) : ptrA (X + Y) = ptrA X + ptrA Y := by
  ext j j'
  simp [ptrA, Finset.sum_add_distrib]

theorem ptrA_zero : ptrA (0 : Matrix (A × B) (A × B) ℂ) = 0 := by
  ext j j'
  simp [ptrA]

theorem ptrA_sumN (F : Nat → Matrix (A × B) (A × B) ℂ) : ∀ n, ptrA (sumN n F) = sumN n (fun k => ptrA (F k))
  | 0 => by simpa [sumN] using ptrA_zero
  | n + 1 => by
    show ptrA (sumN n F + F n) = sumN n (fun k => ptrA (F k)) + ptrA (F n)
    rw [ptrA_add, ptrA_sumN F n]

theorem ptrA_psd {X : Matrix (A × B) (A × B) ℂ} (h : X.PosSemidef) : (ptrA X).PosSemidef := by
  have e : ptrA X = ∑ i : A, X.submatrix (fun j : B => (i, j)) (fun j : B => (i, j)) := by
    ext j j'
    simp [ptrA, Matrix.sum_apply]
  rw [e]
  exact Matrix.posSemidef_sum _ (fun i _ => h.submatrix _)

theorem ptrA_trace (X : Matrix (A × B) (A × B) ℂ) : (ptrA X).trace = X.trace := by
  simp only [Matrix.trace, Matrix.diag_apply, ptrA, Matrix.of_apply, Fintype.sum_prod_type]
  exact Finset.sum_comm

/-- cyclicity of the partial trace in operators on the traced factor -/
theorem ptrA_cyclic (M : Matrix A A ℂ) (X : Matrix (A × B) (A × B) ℂ) :
    ptrA ((M ⊗ₖ (1 : Matrix B B ℂ)) * X) = ptrA (X * (M ⊗ₖ (1 : Matrix B B ℂ))) := by
  ext j j'
  simp only [ptrA, Matrix.of_apply, Matrix.mul_apply, Fintype.sum_prod_type, Matrix.kronecker_apply,
    Matrix.one_apply, mul_ite, mul_one, mul_zero, ite_mul, zero_mul, Finset.sum_ite_eq, Finset.sum_ite_eq',
    Finset.mem_univ, if_true]
  rw [Finset.sum_comm]
  refine Finset.sum_congr rfl fun i _ => Finset.sum_congr rfl fun i' _ => ?_
  ring

theorem trace_mul_ptrA (N : Matrix B B ℂ) (Y : Matrix (A × B) (A × B) ℂ) :
    (N * ptrA Y).trace = (((1 : Matrix A A ℂ) ⊗ₖ N) * Y).trace := by
  simp only [Matrix.trace, Matrix.diag_apply, ptrA, Matrix.of_apply, Matrix.mul_apply, Fintype.sum_prod_type,
    Matrix.kronecker_apply, Matrix.one_apply, ite_mul, one_mul, zero_mul, Finset.mul_sum]
  have h : ∀ (x : A) (x1 : B), (∑ x2 : A, ∑ x3 : B, if x = x2 then N x1 x3 * Y (x2, x3) (x, x1) else 0)
      = ∑ x3 : B, N x1 x3 * Y (x, x3) (x, x1) := by
    intro x x1
    rw [Finset.sum_comm]
    refine Finset.sum_congr rfl fun x3 _ => ?_
    simp
  simp_rw [h]
  symm
  rw [Finset.sum_comm]
  refine Finset.sum_congr rfl fun x1 _ => ?_
  rw [Finset.sum_comm]

end PTr

section Mixed

/-- A **general finite-dimensional quantum strategy**: a density matrix `rho` on `ℂ^dA ⊗ ℂ^dB` and POVMs for every
    question of the game. -/
structure MixedStrategy (dA dB ao bo ai bi : Nat) where
  E : Nat → Nat → Matrix (Fin dA) (Fin dA) ℂ
  F : Nat → Nat → Matrix (Fin dB) (Fin dB) ℂ
  rho : Matrix (Fin dA × Fin dB) (Fin dA × Fin dB) ℂ
  E_povm : ∀ x, x < ai → IsPovmN ao (E x)
  F_povm : ∀ y, y < bi → IsPovmN bo (F y)
  rho_psd : rho.PosSemidef
  rho_tr : rho.trace = 1

variable {dA dB ao bo ai bi : Nat} (T : MixedStrategy dA dB ao bo ai bi)

/-- the behaviour `p(a, b | x, y) = tr((E x a ⊗ F y b) ρ)` (zero outside the alphabets) -/
def MixedStrategy.K : Nat → Nat → Nat → Nat → ℂ := fun a b x y =>
  if a < ao ∧ b < bo ∧ x < ai ∧ y < bi then ((T.E x a ⊗ₖ T.F y b) * T.rho).trace else 0

/-- the assemblage Alice's measurements prepare on Bob's side -/
def MixedStrategy.sigma (x a : Nat) : Matrix (Fin dB) (Fin dB) ℂ :=
  ptrA ((T.E x a ⊗ₖ (1 : Matrix (Fin dB) (Fin dB) ℂ)) * T.rho)

theorem MixedStrategy.sigma_psd (x a : Nat) (hx : x < ai) (ha : a < ao) : (T.sigma x a).PosSemidef := by
  obtain ⟨C, hC⟩ := psd_factor ((T.E_povm x hx).1 a ha)
  unfold MixedStrategy.sigma
  have e : (T.E x a ⊗ₖ (1 : Matrix (Fin dB) (Fin dB) ℂ)) * T.rho
      = (Cᴴ ⊗ₖ (1 : Matrix (Fin dB) (Fin dB) ℂ)) * ((C ⊗ₖ (1 : Matrix (Fin dB) (Fin dB) ℂ)) * T.rho) := by
    rw [← Matrix.mul_assoc, ← Matrix.mul_kronecker_mul, Matrix.one_mul, ← hC]
  rw [e, ptrA_cyclic]
  have e2 : (C ⊗ₖ (1 : Matrix (Fin dB) (Fin dB) ℂ)) * T.rho * (Cᴴ ⊗ₖ (1 : Matrix (Fin dB) (Fin dB) ℂ))
      = (C ⊗ₖ (1 : Matrix (Fin dB) (Fin dB) ℂ)) * T.rho * (C ⊗ₖ (1 : Matrix (Fin dB) (Fin dB) ℂ))ᴴ := by
    rw [Matrix.conjTranspose_kronecker, Matrix.conjTranspose_one]
  rw [e2]
  exact ptrA_psd (T.rho_psd.mul_mul_conjTranspose_same _)

theorem sumN_kronecker_one_mul {κ κ' : Type} [Fintype κ] [Fintype κ'] [DecidableEq κ']
    (F : Nat → Matrix κ κ ℂ) (X : Matrix (κ × κ') (κ × κ') ℂ) (n : Nat) :
    sumN n (fun a => (F a ⊗ₖ (1 : Matrix κ' κ' ℂ)) * X) = (sumN n F ⊗ₖ (1 : Matrix κ' κ' ℂ)) * X := by
  rw [← sumN_kronecker_one, sumN_mul_right]

/-- the feasible point of the see-saw programs obtained by tracing out Alice -/
def MixedStrategy.toSeesaw : SeesawPoint dB ao bo ai bi where
  sigma := T.sigma
  tau := ptrA T.rho
  B := T.F
  sigma_psd := fun x a hx ha => T.sigma_psd x a hx ha
  sigma_sum := fun x hx => by
    unfold MixedStrategy.sigma
    rw [← ptrA_sumN, sumN_kronecker_one_mul, (T.E_povm x hx).2, Matrix.one_kronecker_one, Matrix.one_mul]
  tau_tr := by rw [ptrA_trace, T.rho_tr]
  tau_psd := ptrA_psd T.rho_psd
  B_povm := T.F_povm

theorem MixedStrategy.toSeesaw_K : T.toSeesaw.K = T.K := by
  funext a b x y
  unfold SeesawPoint.K MixedStrategy.K
  by_cases h : a < ao ∧ b < bo ∧ x < ai ∧ y < bi
  · rw [if_pos h, if_pos h]
    obtain ⟨ha, hb, hx, hy⟩ := h
    show ((T.F y b)ᴴ * T.sigma x a).trace = _
    unfold MixedStrategy.sigma
    rw [((T.F_povm y hy).1 b hb).1.eq, trace_mul_ptrA, ← Matrix.mul_assoc, ← Matrix.mul_kronecker_mul, Matrix.one_mul,
      Matrix.mul_one]
  · rw [if_neg h, if_neg h]

/-- **Every mixed-state POVM strategy is a commuting projective strategy with the same behaviour.** -/
theorem MixedStrategy.exists_strategy (hao : 0 < ao) (hbo : 0 < bo) :
    ∃ (D : Nat) (S : QStrategy D ao bo ai bi), S.K = T.K := by
  obtain ⟨D, S, hS⟩ := T.toSeesaw.exists_strategy hao hbo
  exact ⟨D, S, by rw [hS, T.toSeesaw_K]⟩

theorem MixedStrategy.objRe_eq (prob : Nat → Nat → ℝ) (pred : Nat → Nat → Nat → Nat → ℝ) :
    objRe ao bo ai bi prob pred T.K
      = sumN ai fun x => sumN bi fun y => sumN ao fun a => sumN bo fun b =>
          prob x y * pred a b x y * ((T.E x a ⊗ₖ T.F y b) * T.rho).trace.re := by
  unfold objRe
  refine sumN_congr _ _ _ fun x hx => sumN_congr _ _ _ fun y hy => sumN_congr _ _ _ fun a ha =>
    sumN_congr _ _ _ fun b hb => ?_
  unfold MixedStrategy.K
  rw [if_pos ⟨ha, hb, hx, hy⟩]

end Mixed

end Toq.Npa
