import Toq.Proofs.MatrixOpsDet
import Toq.Proofs.MatrixOpsDiagDom
import Toq.Proofs.MatrixOpsSpectral
import Toq.Proofs.MatrixOpsInv
/-!
# The definiteness deciders are sound for all sizes

`psdV`, `pdV` (hence `densityV`, `ensembleV`, `pureV`, `mixedV`, `doublyNonnegativeV`) answer `yes` / `no` only after a proved
certificate checker has accepted a certificate that the model computes itself (`isPSDCertified`: `A = L·diag(D)·Lᴴ`, `D ≥ 0`;
`notPSDShift`: a direction `x` with `xᴴ(A + μI)x < 0`).  So their verdicts mean what they say about the complex matrix the exact
input denotes, with Mathlib's `Matrix.PosSemidef` / `Matrix.PosDef` and eigenvalues.
-/

namespace Toq.MatrixPreds
open Toq.MatrixOps Toq.Rank Matrix
open scoped ComplexOrder MatrixOrder

theorem toEMat_toM (A : Mat QI) (n m : Nat) : (toEMat A n m).toM = fnToM n m A.f := toM_ofFn_val n m A.f

theorem fnToM_addScalarDiag (n : Nat) (A : Mat QI) (t : Rat) :
    fnToM n n (addScalarDiag A t).f = fnToM n n A.f + (((t : Rat) : ℝ) : ℂ) • (1 : Matrix (Fin n) (Fin n) ℂ) := by
  ext i j
  simp only [fnToM, addScalarDiag, Matrix.add_apply, Matrix.smul_apply, Matrix.one_apply, Fin.ext_iff]
  by_cases h : i.val = j.val
  · simp only [h, ↓reduceIte, QI.toC_add, smul_eq_mul, mul_one]
    congr 1
    apply Complex.ext <;> simp
  · simp [h]

theorem fnToM_force_sq (A : Mat QI) (h : A.r = A.c) : fnToM A.r A.r (force A).f = fnToM A.r A.r A.f := by
  ext i j
  simp only [fnToM, force_f A i.val j.val i.isLt (h ▸ j.isLt)]

/-- an accepted `LDLᴴ` certificate: the denoted matrix is positive semidefinite -/
theorem isPSDCertified_sound (A : Mat QI) (h : isPSDCertified A = true) : (fnToM A.r A.r A.f).PosSemidef := by
  unfold isPSDCertified at h
  simp only [Bool.and_eq_true] at h
  have := psdCertLDL_sound _ _ _ h.2
  rwa [toEMat_toM] at this

/-- an accepted negative direction: `A + μ·1` is not positive semidefinite -/
theorem notPSDShift_sound (A : Mat QI) (μ : Rat) (h : notPSDShift A μ = true) :
    ¬ (fnToM A.r A.r A.f + (((μ : Rat) : ℝ) : ℂ) • (1 : Matrix (Fin A.r) (Fin A.r) ℂ)).PosSemidef := by
  unfold notPSDShift at h
  simp only [] at h
  split at h
  · cases h
  · have := npsdCert_sound _ _ _ h
    rwa [toEMat_toM] at this

/-- **`is_positive_semidefinite`, verdict `yes`**: the matrix is square, Hermitian and positive semidefinite -/
theorem psdV_yes_sound (A : Mat QI) (m : Rat) (h : psdV A m = .yes) :
    A.r = A.c ∧ (fnToM A.r A.r A.f).PosSemidef := by
  unfold psdV at h
  split at h
  · cases h
  · cases h
  · rename_i hh
    have hsq : A.r = A.c := ((hermitianV_yes_iff A m).mp hh).1
    simp only [] at h
    split at h
    · rename_i hc
      have := isPSDCertified_sound (force A) hc
      exact ⟨hsq, by rwa [show (force A).r = A.r from rfl, fnToM_force_sq A hsq] at this⟩
    · split at h <;> cases h

/-- **`is_positive_semidefinite`, verdict `no`**: the matrix is not Hermitian by the margin, or `A + μ·1` is not positive
    semidefinite, i.e. some eigenvalue is below `-μ`, for `μ = margin·(1 + scale) > 0` -/
theorem psdV_no_sound (A : Mat QI) (m : Rat) (hm : 0 < m) (h : psdV A m = .no) :
    hermitianV A m = .no ∨ (∃ hA : (fnToM A.r A.r A.f).IsHermitian, ∃ μ : Rat, 0 < μ ∧
      ∃ i, hA.eigenvalues i < -((μ : Rat) : ℝ)) := by
  unfold psdV at h
  split at h
  · rename_i hh; exact Or.inl hh
  · cases h
  · rename_i hh
    right
    have hherm := (hermitianV_yes_iff_isHermitian A m).mp hh
    have hsq : A.r = A.c := hherm.1.symm
    simp only [] at h
    split at h
    · cases h
    · split at h
      · rename_i hn
        have := notPSDShift_sound (force A) _ hn
        rw [show (force A).r = A.r from rfl, fnToM_force_sq A hsq] at this
        refine ⟨hherm.2, m * (1 + maxAbs1 (force A)), mul_pos hm (by linarith [maxAbs1_nonneg (force A)]), ?_⟩
        exact (Toq.MatrixSpectral.not_posSemidef_shift_iff _ hherm.2 _).mp this
      · cases h

theorem eqExact_ctranspose_isHermitian (A : Mat QI) (hsq : A.r = A.c) (h : eqExact A (ctranspose A) = true) :
    (fnToM A.r A.r A.f).IsHermitian := by
  rw [eqExact_iff] at h
  ext i j
  simp only [Matrix.conjTranspose_apply, fnToM]
  have := h j.val i.val j.isLt (hsq ▸ i.isLt)
  rw [this]
  show star ((A.f i.val j.val).conj).toC = _
  rw [QI.toC_conj]
  simp

/-- **`is_positive_definite`, verdict `yes`**: square, exactly Hermitian and positive definite (indeed `A − μ·1` is still positive
    semidefinite) -/
theorem pdV_yes_sound (A : Mat QI) (m : Rat) (hm : 0 < m) (h : pdV A m = .yes) :
    A.r = A.c ∧ (fnToM A.r A.r A.f).PosDef := by
  unfold pdV at h
  by_cases hsq : isSquare A = true
  · have hAA := (isSquare_iff' A).mp hsq
    simp only [hsq, Bool.not_true, Bool.false_eq_true, ↓reduceIte] at h
    split at h
    · cases h
    · split at h
      · rename_i hc
        refine ⟨hAA, ?_⟩
        have hμ : 0 < m * (1 + maxAbs1 (force A)) := mul_pos hm (by linarith [maxAbs1_nonneg (force A)])
        have h1 := isPSDCertified_sound _ hc
        have hsq2 : (addScalarDiag (force A) (-(m * (1 + maxAbs1 (force A))))).r = (addScalarDiag (force A) (-(m * (1 + maxAbs1 (force A))))).c := hAA
        rw [show (force (addScalarDiag (force A) (-(m * (1 + maxAbs1 (force A)))))).r = A.r from rfl] at h1
        have e1 : fnToM A.r A.r (force (addScalarDiag (force A) (-(m * (1 + maxAbs1 (force A)))))).f
            = fnToM A.r A.r (addScalarDiag (force A) (-(m * (1 + maxAbs1 (force A))))).f :=
          fnToM_force_sq (addScalarDiag (force A) (-(m * (1 + maxAbs1 (force A))))) hsq2
        rw [e1, fnToM_addScalarDiag, fnToM_force_sq A hAA] at h1
        have hpd : ((((m * (1 + maxAbs1 (force A)) : Rat) : ℝ) : ℂ) • (1 : Matrix (Fin A.r) (Fin A.r) ℂ)).PosDef := by
          apply Toq.MatrixInv.pd_smul_complex _ _ _ Matrix.PosDef.one
          exact_mod_cast hμ
        have := Matrix.PosDef.posSemidef_add h1 hpd
        convert this using 1
        push_cast
        ext i j
        simp
      · split at h <;> cases h
  · simp [hsq] at h

/-- **`is_positive_definite`, verdict `no`**: not square, not exactly Hermitian, or `A + μ·1` is not positive semidefinite (an
    eigenvalue below `-μ < 0`) -/
theorem pdV_no_sound (A : Mat QI) (m : Rat) (hm : 0 < m) (h : pdV A m = .no) :
    A.r ≠ A.c ∨ (∃ i j, i < A.r ∧ j < A.c ∧ A.f i j ≠ (A.f j i).conj) ∨
      (∃ hA : (fnToM A.r A.r A.f).IsHermitian, ∃ μ : Rat, 0 < μ ∧ ∃ i, hA.eigenvalues i < -((μ : Rat) : ℝ)) := by
  unfold pdV at h
  by_cases hsq : isSquare A = true
  · have hAA := (isSquare_iff' A).mp hsq
    simp only [hsq, Bool.not_true, Bool.false_eq_true, ↓reduceIte] at h
    split at h
    · rename_i hne
      right; left
      by_contra hcon
      apply Bool.eq_false_iff.mp (by simpa using hne)
      rw [eqExact_iff]
      intro i j hi hj
      have hi' : i < A.r := hi
      have hj' : j < A.c := hj
      rw [force_f A i j hi' hj']
      show A.f i j = ((force A).f j i).conj
      rw [force_f A j i (by omega) (by omega)]
      by_contra hne2
      exact hcon ⟨i, j, hi', hj', hne2⟩
    · rename_i heq
      have heq' : eqExact (force A) (ctranspose (force A)) = true := by simpa using heq
      split at h
      · cases h
      · split at h
        · rename_i hn
          right; right
          have hherm := eqExact_ctranspose_isHermitian (force A) hAA heq'
          rw [show (force A).r = A.r from rfl, fnToM_force_sq A hAA] at hherm
          have := notPSDShift_sound (force A) _ hn
          rw [show (force A).r = A.r from rfl, fnToM_force_sq A hAA] at this
          refine ⟨hherm, m * (1 + maxAbs1 (force A)), mul_pos hm (by linarith [maxAbs1_nonneg (force A)]), ?_⟩
          exact (Toq.MatrixSpectral.not_posSemidef_shift_iff _ hherm _).mp this
        · cases h
  · left
    intro heq; exact hsq ((isSquare_iff' A).mpr heq)

/-! ## density, pure -/

theorem traceQ_toC (A : Mat QI) : (traceQ A).toC = (fnToM A.r A.r A.f).trace := by
  unfold traceQ
  rw [sumN_toC]
  rfl

/-- **`is_density`, verdict `yes`**: positive semidefinite with trace one -/
theorem densityV_yes_sound (A : Mat QI) (m : Rat) (h : densityV A m = .yes) :
    A.r = A.c ∧ (fnToM A.r A.r A.f).PosSemidef ∧ (fnToM A.r A.r A.f).trace = 1 := by
  obtain ⟨hsq, hpsd, htr⟩ := (densityV_yes_iff A m).mp h
  refine ⟨hsq, (psdV_yes_sound A m hpsd).2, ?_⟩
  rw [← traceQ_toC, htr, QI.toC_one]

theorem traceQ_mul_toC (A : Mat QI) (hsq : A.r = A.c) :
    (traceQ (mul (force A) (force A))).toC = (fnToM A.r A.r A.f * fnToM A.r A.r A.f).trace := by
  rw [traceQ_toC]
  show (fnToM A.r A.r (mul (force A) (force A)).f).trace = _
  rw [fnToM_mul A.r A.r A.r (force A) (force A) hsq.symm, fnToM_force_sq A hsq]

/-- **`is_pure`, verdict `yes`**: a density matrix with `Tr ρ² = 1`; equivalently its largest eigenvalue is `1`, equivalently it has
    rank one -/
theorem pureV_yes_sound (ρ : Mat QI) (m : Rat) (h : pureV ρ m = .yes) :
    ∃ hρ : (fnToM ρ.r ρ.r ρ.f).PosSemidef, (fnToM ρ.r ρ.r ρ.f).trace = 1 ∧
      (fnToM ρ.r ρ.r ρ.f * fnToM ρ.r ρ.r ρ.f).trace = 1 ∧
      IsGreatest (Set.range hρ.1.eigenvalues) 1 ∧ (fnToM ρ.r ρ.r ρ.f).rank = 1 := by
  obtain ⟨hd, hp⟩ := (pureV_yes_iff ρ m).mp h
  obtain ⟨hsq, hpsd, htr⟩ := densityV_yes_sound ρ m hd
  have htr2 : (fnToM ρ.r ρ.r ρ.f * fnToM ρ.r ρ.r ρ.f).trace = 1 := by
    have e := traceQ_mul_toC ρ hsq
    have hre : ((fnToM ρ.r ρ.r ρ.f * fnToM ρ.r ρ.r ρ.f).trace).re = 1 := by
      rw [← e]; simp [hp]
    rw [Toq.MatrixSpectral.trace_sq_eq_sum_sq _ hpsd.1] at hre ⊢
    have hreal : (∑ i, ((hpsd.1.eigenvalues i : ℝ) : ℂ) ^ 2) = ((∑ i, (hpsd.1.eigenvalues i) ^ 2 : ℝ) : ℂ) := by
      push_cast; rfl
    rw [hreal] at hre ⊢
    rw [Complex.ofReal_re] at hre
    rw [hre]; simp
  exact ⟨hpsd, htr, htr2, (Toq.MatrixSpectral.purity_iff_isGreatest hpsd htr).mp htr2,
    (Toq.MatrixSpectral.purity_iff_rank_one hpsd htr).mp htr2⟩

/-- **`is_pure`, verdict `no`** (and `is_mixed`, verdict `yes`): a density matrix all of whose eigenvalues are `≤ 1 − margin` -/
theorem pureV_no_sound (ρ : Mat QI) (m : Rat) (hm : 0 < m) (h : pureV ρ m = .no) :
    ∃ hρ : (fnToM ρ.r ρ.r ρ.f).PosSemidef, (fnToM ρ.r ρ.r ρ.f).trace = 1 ∧
      ∀ i, hρ.1.eigenvalues i ≤ 1 - ((m : Rat) : ℝ) := by
  obtain ⟨hd, hp⟩ := (pureV_no_iff ρ m hm).mp h
  obtain ⟨hsq, hpsd, htr⟩ := densityV_yes_sound ρ m hd
  refine ⟨hpsd, htr, fun i => ?_⟩
  apply Toq.MatrixSpectral.eigenvalue_le_of_purity_le hpsd (by exact_mod_cast hm.le)
  rw [← traceQ_mul_toC ρ hsq]
  simp only [QI.toC_re]
  exact_mod_cast hp

end Toq.MatrixPreds
