import Toq.Proofs.Discrim
/-!
# Helper lemmas for C10: two pure states with arbitrary priors in the Gram-form unambiguous program (Jaeger–Shimony)

Explicit `2 × 2` primal slacks and dual points, all written as congruences / rank-one matrices so that positive
semidefiniteness is immediate.
-/

open Matrix
open scoped ComplexOrder MatrixOrder

namespace Toq.Discrim

/-- `[[1, s], [s̄, |s|²]] = w wᴴ` with `w = (1, s̄)` -/
theorem ua_two_rank_one_a (s : ℂ) :
    (!![1, s; (starRingEnd ℂ) s, ((‖s‖ ^ 2 : ℝ) : ℂ)] : Matrix (Fin 2) (Fin 2) ℂ).PosSemidef := by
  have e : (!![1, s; (starRingEnd ℂ) s, ((‖s‖ ^ 2 : ℝ) : ℂ)] : Matrix (Fin 2) (Fin 2) ℂ)
      = vecMulVec ![1, (starRingEnd ℂ) s] (star ![1, (starRingEnd ℂ) s]) := by
    ext i j
    fin_cases i <;> fin_cases j <;> simp [vecMulVec_apply, Complex.conj_mul']
  rw [e]
  exact Matrix.posSemidef_vecMulVec_self_star _

/-- `[[|s|², s], [s̄, 1]] = w wᴴ` with `w = (s, 1)` -/
theorem ua_two_rank_one_b (s : ℂ) :
    (!![((‖s‖ ^ 2 : ℝ) : ℂ), s; (starRingEnd ℂ) s, 1] : Matrix (Fin 2) (Fin 2) ℂ).PosSemidef := by
  have e : (!![((‖s‖ ^ 2 : ℝ) : ℂ), s; (starRingEnd ℂ) s, 1] : Matrix (Fin 2) (Fin 2) ℂ)
      = vecMulVec ![s, 1] (star ![s, 1]) := by
    ext i j
    fin_cases i <;> fin_cases j <;> simp [vecMulVec_apply, Complex.mul_conj']
  rw [e]
  exact Matrix.posSemidef_vecMulVec_self_star _

/-- `[[x, w], [w̄, y]]` scaled by a non-negative real -/
theorem ua_two_smul_psd {M : Matrix (Fin 2) (Fin 2) ℂ} (hM : M.PosSemidef) (c : ℝ) (hc : 0 ≤ c) :
    ((c : ℂ) • M).PosSemidef := me_psd_smul hM hc

/-- congruence by a real diagonal matrix: `diag(α, β) [[x, w], [w̄, y]] diag(α, β) = [[α²x, αβw], [αβw̄, β²y]]` -/
theorem ua_two_congr (x y w : ℂ) (α β : ℝ)
    (hM : (!![x, w; (starRingEnd ℂ) w, y] : Matrix (Fin 2) (Fin 2) ℂ).PosSemidef) :
    (!![(α : ℂ) * α * x, (α : ℂ) * β * w; (starRingEnd ℂ) ((α : ℂ) * β * w), (β : ℂ) * β * y] :
      Matrix (Fin 2) (Fin 2) ℂ).PosSemidef := by
  have h := hM.mul_mul_conjTranspose_same (Matrix.diagonal ![(α : ℂ), (β : ℂ)])
  have e : Matrix.diagonal ![(α : ℂ), (β : ℂ)] * !![x, w; (starRingEnd ℂ) w, y]
        * (Matrix.diagonal ![(α : ℂ), (β : ℂ)])ᴴ
      = !![(α : ℂ) * α * x, (α : ℂ) * β * w; (starRingEnd ℂ) ((α : ℂ) * β * w), (β : ℂ) * β * y] := by
    ext i j
    fin_cases i <;> fin_cases j <;>
      simp [Matrix.mul_apply, Matrix.diagonal_apply] <;> ring
  rwa [e] at h

/-- trace of the product of two Hermitian-patterned `2 × 2` matrices -/
theorem ua_two_trace (s w x y : ℂ) :
    ((!![1, s; (starRingEnd ℂ) s, 1] : Matrix (Fin 2) (Fin 2) ℂ) * !![x, w; (starRingEnd ℂ) w, y]).trace
      = x + y + (s * (starRingEnd ℂ) w + (starRingEnd ℂ) s * w) := by
  simp [Matrix.trace_fin_two]
  ring

/-- `s · conj(s) = |s|²` as a complex number -/
theorem ua_two_mul_conj (s : ℂ) : s * (starRingEnd ℂ) s = ((‖s‖ ^ 2 : ℝ) : ℂ) := by
  rw [Complex.mul_conj']
  push_cast
  rfl

end Toq.Discrim
