import Toq.Proofs.XorRepLower
/-!
# Parallel repetition of XOR games, upper bound for general (POVM) strategies (C08)

The bound `((1 + √(Σa·Σb))/2)^r` of `Toq.Proofs.XorRep` holds for strategies with arbitrary POVMs: the sign observables
`A_S = Σ_a χ_S(a) E_a` are Hermitian contractions (`1 − A² = ½((1+A)(1−A)(1+A) + (1−A)(1+A)(1−A)) ⪰ 0`), their moment matrix is
positive semidefinite with diagonal at most 1, and weak duality holds for such matrices because dual-feasible `(a, b)` are
non-negative.  No dilation argument is needed.
-/

open Matrix
open scoped ComplexOrder MatrixOrder Kronecker

namespace Toq.Xor


section SubMoment
variable {ι : Type*} [Fintype ι] [DecidableEq ι]

/-- weak duality for PSD matrices whose diagonal is at most 1 (moment matrices of contractions) -/
theorem submoment_weak_duality (W : ι → ι → ℝ) (lam : ι → ℝ) (Γ : Matrix ι ι ℂ) (hΓ : Γ.PosSemidef)
    (hd : ∀ i, (Γ i i).re ≤ 1) (hlam : ∀ i, 0 ≤ lam i) (hZ : (dualMatrix W lam).PosSemidef) :
    ∑ i, ∑ j, W i j * (Γ i j).re ≤ ∑ i, lam i := by
  have h := psd_trace_mul_nonneg hZ hΓ
  have e : (dualMatrix W lam * Γ).trace.re
      = ∑ i, ∑ j, ((if i = j then lam i else 0) - W i j) * (Γ i j).re := by
    simp only [Matrix.trace, Matrix.diag_apply, Matrix.mul_apply, Complex.re_sum, dualMatrix,
      Complex.re_ofReal_mul]
    refine Finset.sum_congr rfl fun i _ => Finset.sum_congr rfl fun j _ => ?_
    rw [re_apply_symm hΓ.isHermitian]
  rw [e] at h
  simp only [sub_mul, Finset.sum_sub_distrib, ite_mul, zero_mul, Finset.sum_ite_eq, Finset.mem_univ,
    if_true] at h
  have h2 : ∑ i, lam i * (Γ i i).re ≤ ∑ i, lam i :=
    Finset.sum_le_sum fun i _ => by
      have := mul_le_mul_of_nonneg_left (hd i) (hlam i)
      linarith
  linarith

end SubMoment

section SubSum
variable {X Y : Type*} [Fintype X] [Fintype Y] [DecidableEq X] [DecidableEq Y]

theorem tsirelson_weak_duality_sub (D : X → Y → ℝ) (a : X → ℝ) (b : Y → ℝ)
    (Γ : Matrix (X ⊕ Y) (X ⊕ Y) ℂ) (hΓ : Γ.PosSemidef) (hd : ∀ i, (Γ i i).re ≤ 1)
    (hZ : (tsirelsonDual D a b).PosSemidef) :
    ∑ x, ∑ y, D x y * (Γ (.inl x) (.inr y)).re ≤ (∑ x, a x + ∑ y, b y) / 2 := by
  obtain ⟨ha, hb⟩ := tsirelsonDual_diag_nonneg hZ
  have hZ' : (dualMatrix (xorWeights D) (Sum.elim (fun x => a x / 2) (fun y => b y / 2))).PosSemidef := by
    rw [dualMatrix_xorWeights]
    exact hZ.smul (by simp : (0 : ℂ) ≤ ((1 / 2 : ℝ) : ℂ))
  have h := submoment_weak_duality _ _ Γ hΓ hd
    (by rintro (x | y) <;> simp <;> [exact div_nonneg (ha x) (by norm_num); exact div_nonneg (hb y) (by norm_num)]) hZ'
  simp only [Fintype.sum_sum_type, xorWeights, zero_mul, Finset.sum_const_zero, zero_add, add_zero,
    Sum.elim_inl, Sum.elim_inr] at h
  have e : ∑ y, ∑ x, D x y / 2 * (Γ (.inr y) (.inl x)).re = ∑ x, ∑ y, D x y / 2 * (Γ (.inl x) (.inr y)).re := by
    rw [Finset.sum_comm]
    refine Finset.sum_congr rfl fun x _ => Finset.sum_congr rfl fun y _ => ?_
    rw [re_apply_symm hΓ.isHermitian]
  rw [e] at h
  have e2 : ∑ x, ∑ y, D x y * (Γ (.inl x) (.inr y)).re
      = ∑ x, ∑ y, D x y / 2 * (Γ (.inl x) (.inr y)).re + ∑ x, ∑ y, D x y / 2 * (Γ (.inl x) (.inr y)).re := by
    rw [← Finset.sum_add_distrib]
    refine Finset.sum_congr rfl fun x _ => ?_
    rw [← Finset.sum_add_distrib]
    refine Finset.sum_congr rfl fun y _ => by ring
  rw [e2, add_div, Finset.sum_div, Finset.sum_div]
  exact h

theorem tsirelson_weak_duality_sub_geo (D : X → Y → ℝ) (a : X → ℝ) (b : Y → ℝ) (Γ : Matrix (X ⊕ Y) (X ⊕ Y) ℂ)
    (hΓ : Γ.PosSemidef) (hd : ∀ i, (Γ i i).re ≤ 1) (hZ : (tsirelsonDual D a b).PosSemidef) :
    ∑ x, ∑ y, D x y * (Γ (.inl x) (.inr y)).re ≤ Real.sqrt ((∑ x, a x) * ∑ y, b y) := by
  obtain ⟨ha, hb⟩ := tsirelsonDual_diag_nonneg hZ
  refine le_sqrt_of_forall_balance _ _ _ (Finset.sum_nonneg fun x _ => ha x) (Finset.sum_nonneg fun y _ => hb y)
    fun ν hν => ?_
  have := tsirelson_weak_duality_sub D _ _ Γ hΓ hd (tsirelsonDual_rebalance hZ ν hν)
  rw [← Finset.mul_sum, ← Finset.mul_sum] at this
  exact this

end SubSum


section Contraction
variable {d : Type*} [Fintype d] [DecidableEq d]

/-- `1 − A² ⪰ 0` for a Hermitian `A` with `−1 ⪯ A ⪯ 1` -/
theorem one_sub_sq_psd {A : Matrix d d ℂ} (hA : A.IsHermitian) (h1 : (1 - A).PosSemidef) (h2 : (1 + A).PosSemidef) :
    (1 - A * A).PosSemidef := by
  have e : 1 - A * A = ((1 / 2 : ℝ) : ℂ) • ((1 + A) * (1 - A) * (1 + A)ᴴ + (1 - A) * (1 + A) * (1 - A)ᴴ) := by
    rw [conjTranspose_add, conjTranspose_sub, conjTranspose_one, hA.eq]
    have : (1 + A) * (1 - A) * (1 + A) + (1 - A) * (1 + A) * (1 - A) = (2 : ℂ) • (1 - A * A) := by
      simp only [Matrix.add_mul, Matrix.mul_add, Matrix.sub_mul, Matrix.mul_sub, Matrix.one_mul, Matrix.mul_one, two_smul]
      abel
    rw [this, smul_smul]
    norm_num
  rw [e]
  exact ((h1.mul_mul_conjTranspose_same _).add (h2.mul_mul_conjTranspose_same _)).smul (by simp : (0 : ℂ) ≤ ((1 / 2 : ℝ) : ℂ))

variable {An : Type*} [Fintype An]

omit [Fintype d] in
/-- `1 ∓ Σ_a χ(a) E_a = Σ_a (1 ∓ χ(a)) E_a ⪰ 0` for a POVM and signs `χ` -/
theorem one_sub_signObs_psd (χ : An → ℝ) (hχ : ∀ a, χ a = 1 ∨ χ a = -1) (E : An → Matrix d d ℂ)
    (hE : ∀ a, (E a).PosSemidef) (hsum : ∑ a, E a = 1) :
    (1 - signObs χ E).PosSemidef ∧ (1 + signObs χ E).PosSemidef := by
  have e1 : 1 - signObs χ E = ∑ a, ((1 - χ a : ℝ) : ℂ) • E a := by
    rw [← hsum]; unfold signObs
    rw [← Finset.sum_sub_distrib]
    refine Finset.sum_congr rfl fun a _ => ?_
    push_cast; rw [sub_smul, one_smul]
  have e2 : 1 + signObs χ E = ∑ a, ((1 + χ a : ℝ) : ℂ) • E a := by
    rw [← hsum]; unfold signObs
    rw [← Finset.sum_add_distrib]
    refine Finset.sum_congr rfl fun a _ => ?_
    push_cast; rw [add_smul, one_smul]
  rw [e1, e2]
  constructor
  · refine Matrix.posSemidef_sum _ fun a _ => (hE a).smul ?_
    rcases hχ a with h | h <;> rw [h] <;> norm_num
  · refine Matrix.posSemidef_sum _ fun a _ => (hE a).smul ?_
    rcases hχ a with h | h <;> rw [h] <;> norm_num

end Contraction


section ContrStrategy
variable {X Y : Type*} [Fintype X] [Fintype Y] [DecidableEq X] [DecidableEq Y] {d : Type*} [Fintype d] [DecidableEq d]

/-- a state with Hermitian contractions as observables (`Re tr(ρ A²) ≤ 1`) -/
structure IsContrStrategy (ρ : Matrix d d ℂ) (A : X → Matrix d d ℂ) (B : Y → Matrix d d ℂ) : Prop where
  psd : ρ.PosSemidef
  tr_one : ρ.trace = 1
  A_herm : ∀ x, (A x).IsHermitian
  A_contr : ∀ x, (ρ * (A x * A x)).trace.re ≤ 1
  B_herm : ∀ y, (B y).IsHermitian
  B_contr : ∀ y, (ρ * (B y * B y)).trace.re ≤ 1

/-- contraction strategies obey weak duality in the geometric-mean form -/
theorem contr_xor_le_geo (D : X → Y → ℝ) (a : X → ℝ) (b : Y → ℝ) (ρ : Matrix d d ℂ)
    (A : X → Matrix d d ℂ) (B : Y → Matrix d d ℂ) (h : IsContrStrategy ρ A B) (hZ : (tsirelsonDual D a b).PosSemidef) :
    ∑ x, ∑ y, D x y * corrQ ρ A B x y ≤ Real.sqrt ((∑ x, a x) * ∑ y, b y) := by
  have hΓ := momentMatrix_psd ρ h.psd (Sum.elim A B)
  have hd : ∀ i, (momentMatrix ρ (Sum.elim A B) i i).re ≤ 1 := by
    rintro (x | y)
    · simp only [momentMatrix, Sum.elim_inl, (h.A_herm x).eq, Matrix.mul_assoc]; exact h.A_contr x
    · simp only [momentMatrix, Sum.elim_inr, (h.B_herm y).eq, Matrix.mul_assoc]; exact h.B_contr y
  have := tsirelson_weak_duality_sub_geo D a b _ hΓ hd hZ
  simpa [momentMatrix, corrQ, (h.A_herm _).eq] using this

end ContrStrategy

section Povm
variable {Q R : Type*} {An : Type*} [Fintype An] {d : Type*} [Fintype d] [DecidableEq d]

/-- a quantum strategy with general measurements (POVMs): `E q a ⪰ 0`, `Σ_a E q a = 1`, likewise for Bob -/
structure IsPovmStrategy (ρ : Matrix d d ℂ) (E : Q → An → Matrix d d ℂ) (F : R → An → Matrix d d ℂ) : Prop where
  psd : ρ.PosSemidef
  tr_one : ρ.trace = 1
  E_psd : ∀ q a, (E q a).PosSemidef
  E_sum : ∀ q, ∑ a, E q a = 1
  F_psd : ∀ s b, (F s b).PosSemidef
  F_sum : ∀ s, ∑ b, F s b = 1
  comm : ∀ q a s b, E q a * F s b = F s b * E q a

omit [Fintype d] [DecidableEq d] in
theorem signObs_herm' (χ : An → ℝ) (E : An → Matrix d d ℂ) (h : ∀ a, (E a).PosSemidef) : (signObs χ E).IsHermitian := by
  unfold signObs Matrix.IsHermitian
  rw [conjTranspose_sum]
  refine Finset.sum_congr rfl fun a _ => ?_
  rw [conjTranspose_smul, (h a).isHermitian.eq]; simp

theorem signObs_contr (ρ : Matrix d d ℂ) (hρ : ρ.PosSemidef) (htr : ρ.trace = 1) (χ : An → ℝ)
    (hχ : ∀ a, χ a = 1 ∨ χ a = -1) (E : An → Matrix d d ℂ) (hE : ∀ a, (E a).PosSemidef) (hsum : ∑ a, E a = 1) :
    (ρ * (signObs χ E * signObs χ E)).trace.re ≤ 1 := by
  obtain ⟨h1, h2⟩ := one_sub_signObs_psd χ hχ E hE hsum
  have hp := one_sub_sq_psd (signObs_herm' χ E hE) h1 h2
  have := psd_trace_mul_nonneg hρ hp
  rw [Matrix.mul_sub, Matrix.mul_one, trace_sub, htr, Complex.sub_re, Complex.one_re] at this
  linarith

/-- the sign observables of a POVM strategy are a contraction strategy -/
theorem isContrStrategy_signObs {ρ : Matrix d d ℂ} {E : Q → An → Matrix d d ℂ} {F : R → An → Matrix d d ℂ}
    (h : IsPovmStrategy ρ E F) (χ χ' : An → ℝ) (hχ : ∀ a, χ a = 1 ∨ χ a = -1) (hχ' : ∀ a, χ' a = 1 ∨ χ' a = -1) :
    IsContrStrategy ρ (fun q => signObs χ (E q)) (fun s => signObs χ' (F s)) where
  psd := h.psd
  tr_one := h.tr_one
  A_herm := fun q => signObs_herm' χ _ (h.E_psd q)
  A_contr := fun q => signObs_contr ρ h.psd h.tr_one χ hχ _ (h.E_psd q) (h.E_sum q)
  B_herm := fun s => signObs_herm' χ' _ (h.F_psd s)
  B_contr := fun s => signObs_contr ρ h.psd h.tr_one χ' hχ' _ (h.F_psd s) (h.F_sum s)

/-- projective strategies are POVM strategies -/
theorem isPovmStrategy_of_proj [DecidableEq An] {ρ : Matrix d d ℂ} {P : Q → An → Matrix d d ℂ} {Qm : R → An → Matrix d d ℂ}
    (h : IsProjStrategy ρ P Qm) : IsPovmStrategy ρ P Qm where
  psd := h.psd
  tr_one := h.tr_one
  E_psd := fun q a => by
    have : P q a = (P q a)ᴴ * P q a := by rw [(h.P_herm q a).eq, h.P_orth, if_pos rfl]
    rw [this]; exact posSemidef_conjTranspose_mul_self _
  E_sum := h.P_sum
  F_psd := fun s b => by
    have : Qm s b = (Qm s b)ᴴ * Qm s b := by rw [(h.Q_herm s b).eq, h.Q_orth, if_pos rfl]
    rw [this]; exact posSemidef_conjTranspose_mul_self _
  F_sum := h.Q_sum
  comm := h.comm

end Povm

section RepetitionPovm
variable {X Y : Type*} [Fintype X] [Fintype Y] [DecidableEq X] [DecidableEq Y] {d : Type*} [Fintype d] [DecidableEq d]
  {r : Nat}

theorem chi_sign (S : Finset (Fin r)) (a : Fin r → Bool) : chi S a = 1 ∨ chi S a = -1 := by
  have h := chi_sq S a
  have : (chi S a - 1) * (chi S a + 1) = 0 := by ring_nf; linarith
  rcases mul_eq_zero.mp this with h1 | h1
  · left; linarith
  · right; linarith

/-- every Fourier term is bounded by `√(Σa·Σb)^{|S|}`, for contraction strategies -/
theorem fourier_term_le_contr (π : X → Y → ℝ) (f : X → Y → Bool) (hπ0 : ∀ x y, 0 ≤ π x y) (hπ1 : ∑ x, ∑ y, π x y = 1)
    (a : X → ℝ) (b : Y → ℝ) (hZ : (tsirelsonDual (costB π f) a b).PosSemidef) (S : Finset (Fin r))
    (ρ : Matrix d d ℂ) (A : (Fin r → X) → Matrix d d ℂ) (B : (Fin r → Y) → Matrix d d ℂ) (h : IsContrStrategy ρ A B) :
    ∑ x, ∑ y, piCost (roundCost π f S) x y * corrQ ρ A B x y ≤ Real.sqrt ((∑ x, a x) * ∑ y, b y) ^ S.card := by
  obtain ⟨ha, hb⟩ := tsirelsonDual_diag_nonneg hZ
  have hA : 0 ≤ ∑ x, a x := Finset.sum_nonneg fun x _ => ha x
  have hB : 0 ≤ ∑ y, b y := Finset.sum_nonneg fun y _ => hb y
  have hk : ∀ k, (tsirelsonDual (roundCost π f S k) (roundA π a S k) (roundB π b S k)).PosSemidef := by
    intro k
    unfold roundCost roundA roundB
    split
    · exact hZ
    · exact tsirelsonDual_marginals_psd π hπ0
  have hbound := contr_xor_le_geo _ _ _ ρ A B h (tsirelsonDual_pi_psd _ _ _ hk)
  have hπ1' : ∑ y, ∑ x, π x y = 1 := by rw [Finset.sum_comm]; exact hπ1
  have eA : ∑ x, piVec (roundA π a S) x = (∑ x, a x) ^ S.card := by
    rw [piVec_sum, ← Finset.prod_const, ← Finset.prod_ite_mem_eq S]
    refine Finset.prod_congr rfl fun k _ => ?_
    unfold roundA
    split
    · rfl
    · exact hπ1
  have eB : ∑ y, piVec (roundB π b S) y = (∑ y, b y) ^ S.card := by
    rw [piVec_sum, ← Finset.prod_const, ← Finset.prod_ite_mem_eq S]
    refine Finset.prod_congr rfl fun k _ => ?_
    unfold roundB
    split
    · rfl
    · exact hπ1'
  rw [eA, eB] at hbound
  refine le_trans hbound ?_
  rw [Real.sqrt_le_iff]
  refine ⟨pow_nonneg (Real.sqrt_nonneg _) _, ?_⟩
  rw [← pow_mul, mul_comm S.card 2, pow_mul, Real.sq_sqrt (mul_nonneg hA hB), mul_pow]

/-- **Upper bound for the `r`-fold repetition, general measurements.** -/
theorem andWin_le_povm (π : X → Y → ℝ) (f : X → Y → Bool) (hπ0 : ∀ x y, 0 ≤ π x y) (hπ1 : ∑ x, ∑ y, π x y = 1)
    (a : X → ℝ) (b : Y → ℝ) (hZ : (tsirelsonDual (costB π f) a b).PosSemidef)
    (ρ : Matrix d d ℂ) (E : (Fin r → X) → (Fin r → Bool) → Matrix d d ℂ) (F : (Fin r → Y) → (Fin r → Bool) → Matrix d d ℂ)
    (h : IsPovmStrategy ρ E F) :
    andWin π f ρ E F ≤ ((1 + Real.sqrt ((∑ x, a x) * ∑ y, b y)) / 2) ^ r := by
  set g := Real.sqrt ((∑ x, a x) * ∑ y, b y) with hg
  rw [andWin_fourier]
  have hterm : ∀ S ∈ (Finset.univ : Finset (Fin r)).powerset,
      ∑ x, ∑ y, piCost (roundCost π f S) x y *
        corrQ ρ (fun x => signObs (chi S) (E x)) (fun y => signObs (chi S) (F y)) x y ≤ g ^ S.card * 1 ^ (r - S.card) := by
    intro S _
    rw [one_pow, mul_one]
    exact fourier_term_le_contr π f hπ0 hπ1 a b hZ S ρ _ _
      (isContrStrategy_signObs h (chi S) (chi S) (chi_sign S) (chi_sign S))
  have hsum := Finset.sum_le_sum hterm
  have hbin := Finset.sum_pow_mul_eq_add_pow g 1 (Finset.univ : Finset (Fin r))
  rw [Finset.card_univ, Fintype.card_fin] at hbin
  rw [hbin] at hsum
  calc (1 / 2) ^ r * _ ≤ (1 / 2) ^ r * (g + 1) ^ r := mul_le_mul_of_nonneg_left hsum (by positivity)
    _ = ((1 + g) / 2) ^ r := by rw [← mul_pow]; congr 1; ring

end RepetitionPovm

section CheckerRepPovm
open EMat
variable {m n k : Nat} {d : Type*} [Fintype d] [DecidableEq d]

/-- an accepted dual certificate of the single game bounds the winning probability of every strategy (general measurements, any
    dimension) in the `r`-fold repetition by the value `quantum_value` reports for `reps = r` at that certificate -/
theorem checkXorDual_repetition_povm (prob : Nat → Nat → Rat) (pred : Nat → Nat → Nat)
    (hp0 : ∀ x y, x < m → y < n → 0 ≤ prob x y) (hp1 : totalProb m n prob = 1)
    (a b : Nat → Rat) (L : EMat (m + n) k) (hi : Rat) (h : checkXorDual m n (dMat prob pred) a b L = some hi)
    (r : Nat) (ρ : Matrix d d ℂ) (E : (Fin r → Fin m) → (Fin r → Bool) → Matrix d d ℂ)
    (F : (Fin r → Fin n) → (Fin r → Bool) → Matrix d d ℂ) (hs : IsPovmStrategy ρ E F) :
    andWin (castD prob) (predBit pred) ρ E F ≤ ((xorValue (2 * hi) r : Rat) : ℝ) := by
  obtain ⟨hZ, hv⟩ := checkXorDual_sound' (dMat prob pred) a b L hi h
  rw [castD_dMat] at hZ
  have hπ0 : ∀ (x : Fin m) (y : Fin n), 0 ≤ (castD prob : Fin m → Fin n → ℝ) x y := fun x y => by
    simp only [castD]; exact_mod_cast hp0 x.val y.val x.isLt y.isLt
  have hπ1 : ∑ x : Fin m, ∑ y : Fin n, (castD prob : Fin m → Fin n → ℝ) x y = 1 := by
    rw [← totalProb_cast, hp1]; simp
  obtain ⟨ha, hb⟩ := tsirelsonDual_diag_nonneg hZ
  have h1 := andWin_le_povm (castD prob) (predBit pred) hπ0 hπ1 _ _ hZ ρ E F hs
  have h2 : ((1 + Real.sqrt ((∑ x, castV (m := m) a x) * ∑ y, castV (m := n) b y)) / 2) ^ r
      ≤ (1 / 2 + (∑ x, castV (m := m) a x + ∑ y, castV (m := n) b y) / 2 / 2) ^ r := by
    apply pow_le_pow_left₀ (by have := Real.sqrt_nonneg ((∑ x, castV (m := m) a x) * ∑ y, castV (m := n) b y); linarith)
    have := sqrt_mul_le_half_add (∑ x, castV (m := m) a x) (∑ y, castV (m := n) b y)
      (Finset.sum_nonneg fun x _ => ha x) (Finset.sum_nonneg fun y _ => hb y)
    linarith
  refine le_trans h1 (le_trans h2 (le_of_eq ?_))
  rw [hv]
  simp only [xorValue, powN_eq_pow]
  push_cast
  congr 1
  ring

end CheckerRepPovm
end Toq.Xor
