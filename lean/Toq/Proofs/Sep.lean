import Toq.Model.Sep
import Toq.Proofs.Cert
import Mathlib.LinearAlgebra.Matrix.Kronecker
/-!
# Helper lemmas for C15 (PPT and separability verdicts)

* `ptBM`, `ptAM`, `swapM`, `IsSepMix`: the mathematical vocabulary on matrices indexed by pairs
  `(a, b)`; Peres' criterion, closure of the separable mixtures under local maps and exchange;
* `unflat`: the bridge from the flat index `a * dB + b` of the executable model to the pair index;
* soundness of the smallest-eigenvalue certificates;
* algebra of the Gurvits–Barnum ball test over `ℚ`;
* the necessary criteria evaluated after the PPT test, as statements about `IsSepMix` for all local index types:
  `nsq`, Cauchy–Schwarz (`re_dot_sq_le`, `normSq_dot_le`), rectangular contractions `IsContr`, the rank-one bound
  `IsContr.re_trace_vecMulVec_sq_le`, `realignM` and the realignment criterion `IsSepMix.re_trace_realign_le`;
  partial traces `ptrB`/`ptrA`, the covariance identities and the Zhang et al. bound (`zhang_general`,
  `IsSepMix.zhang`); `applyB`/`applyA`, `IsPosOnPure`, `choiMap` and the positive-map criterion
  (`IsSepMix.applyB_posSemidef`, `IsSepMix.applyA_posSemidef`); singular value decompositions and the dual form of
  the trace norm (`nucNorm`, `nucNorm_eq_sum_of_svd`); positivity of the transposition, reduction and Breuer–Hall
  maps; bridges for the executable `realignE`, `ptrBE`, `ptrAE`, `choiApplyB`, `choiApplyA`; the Ha–Kye Choi matrices.
-/

open Matrix
open scoped ComplexOrder MatrixOrder Kronecker

namespace Toq.Sep

/-! ## Vocabulary on pair-indexed matrices -/

section Spec
variable {m n : Type*}

/-- partial transpose of the second party: `(T_B X)((a,b),(a',b')) = X((a,b'),(a',b))` -/
def ptBM (X : Matrix (m × n) (m × n) ℂ) : Matrix (m × n) (m × n) ℂ :=
  fun i j => X (i.1, j.2) (j.1, i.2)

/-- partial transpose of the first party: `(T_A X)((a,b),(a',b')) = X((a',b),(a,b'))` -/
def ptAM (X : Matrix (m × n) (m × n) ℂ) : Matrix (m × n) (m × n) ℂ :=
  fun i j => X (j.1, i.2) (i.1, j.2)

/-- exchange of the parties: `(swap X)((b,a),(b',a')) = X((a,b),(a',b'))` -/
def swapM (X : Matrix (m × n) (m × n) ℂ) : Matrix (n × m) (n × m) ℂ :=
  fun i j => X (i.2, i.1) (j.2, j.1)

/-- `a aᴴ` -/
def proj {ι : Type*} (a : ι → ℂ) : Matrix ι ι ℂ := vecMulVec a (star a)

/-- `ρ` is a finite mixture `Σ_k w_k (a_k a_kᴴ) ⊗ (b_k b_kᴴ)` with non-negative weights
(vectors need not be normalised, weights need not sum to one: the cone of separable operators) -/
def IsSepMix (ρ : Matrix (m × n) (m × n) ℂ) : Prop :=
  ∃ (K : ℕ) (w : Fin K → ℝ) (a : Fin K → m → ℂ) (b : Fin K → n → ℂ),
    (∀ k, 0 ≤ w k) ∧ ρ = ∑ k, (w k : ℂ) • (proj (a k) ⊗ₖ proj (b k))

theorem ptAM_eq_transpose (X : Matrix (m × n) (m × n) ℂ) : ptAM X = (ptBM X)ᵀ := rfl

theorem ptBM_kron (A : Matrix m m ℂ) (B : Matrix n n ℂ) : ptBM (A ⊗ₖ B) = A ⊗ₖ Bᵀ := by
  ext ⟨a, b⟩ ⟨a', b'⟩
  simp [ptBM, kroneckerMap_apply]

theorem ptBM_smul (c : ℂ) (X : Matrix (m × n) (m × n) ℂ) : ptBM (c • X) = c • ptBM X := by
  ext i j; simp [ptBM]

theorem ptBM_sum {K : Type*} (s : Finset K) (f : K → Matrix (m × n) (m × n) ℂ) :
    ptBM (∑ k ∈ s, f k) = ∑ k ∈ s, ptBM (f k) := by
  ext i j; simp [ptBM, Matrix.sum_apply]

theorem ptBM_involutive (X : Matrix (m × n) (m × n) ℂ) : ptBM (ptBM X) = X := rfl

theorem swapM_kron (A : Matrix m m ℂ) (B : Matrix n n ℂ) : swapM (A ⊗ₖ B) = B ⊗ₖ A := by
  ext ⟨b, a⟩ ⟨b', a'⟩
  simp [swapM, kroneckerMap_apply, mul_comm]

theorem swapM_smul (c : ℂ) (X : Matrix (m × n) (m × n) ℂ) : swapM (c • X) = c • swapM X := by
  ext i j; simp [swapM]

theorem swapM_sum {K : Type*} (s : Finset K) (f : K → Matrix (m × n) (m × n) ℂ) :
    swapM (∑ k ∈ s, f k) = ∑ k ∈ s, swapM (f k) := by
  ext i j; simp [swapM, Matrix.sum_apply]

theorem transpose_proj {ι : Type*} (a : ι → ℂ) : (proj a)ᵀ = proj (star a) := by
  ext i j
  simp [proj, vecMulVec_apply, mul_comm]

variable [Finite m] [Finite n]

theorem proj_posSemidef {ι : Type*} [Finite ι] (a : ι → ℂ) : (proj a).PosSemidef :=
  posSemidef_vecMulVec_self_star a

/-- a weighted sum of Kronecker products of PSD matrices with non-negative weights is PSD -/
theorem posSemidef_sum_smul_kron {K : ℕ} (w : Fin K → ℝ) (A : Fin K → Matrix m m ℂ)
    (B : Fin K → Matrix n n ℂ) (hw : ∀ k, 0 ≤ w k) (hA : ∀ k, (A k).PosSemidef)
    (hB : ∀ k, (B k).PosSemidef) : (∑ k, (w k : ℂ) • (A k ⊗ₖ B k)).PosSemidef := by
  refine posSemidef_sum _ fun k _ => ?_
  have h := ((hA k).kronecker (hB k)).smul (hw k)
  have e : (w k : ℂ) • (A k ⊗ₖ B k) = w k • (A k ⊗ₖ B k) := by
    ext i j; simp
  rw [e]; exact h

/-- partial transpose (second party) of a mixture of products of PSD matrices is PSD -/
theorem ptBM_posSemidef_of_products {K : ℕ} (w : Fin K → ℝ) (A : Fin K → Matrix m m ℂ)
    (B : Fin K → Matrix n n ℂ) (hw : ∀ k, 0 ≤ w k) (hA : ∀ k, (A k).PosSemidef)
    (hB : ∀ k, (B k).PosSemidef) : (ptBM (∑ k, (w k : ℂ) • (A k ⊗ₖ B k))).PosSemidef := by
  rw [ptBM_sum]
  simp only [ptBM_smul, ptBM_kron]
  exact posSemidef_sum_smul_kron w A (fun k => (B k)ᵀ) hw hA fun k => (hB k).transpose

theorem IsSepMix.posSemidef {ρ : Matrix (m × n) (m × n) ℂ} (h : IsSepMix ρ) : ρ.PosSemidef := by
  obtain ⟨K, w, a, b, hw, rfl⟩ := h
  exact posSemidef_sum_smul_kron w _ _ hw (fun k => proj_posSemidef _) fun k => proj_posSemidef _

theorem IsSepMix.ptBM_posSemidef {ρ : Matrix (m × n) (m × n) ℂ} (h : IsSepMix ρ) :
    (ptBM ρ).PosSemidef := by
  obtain ⟨K, w, a, b, hw, rfl⟩ := h
  exact ptBM_posSemidef_of_products w _ _ hw (fun k => proj_posSemidef _) fun k => proj_posSemidef _

theorem IsSepMix.ptAM_posSemidef {ρ : Matrix (m × n) (m × n) ℂ} (h : IsSepMix ρ) :
    (ptAM ρ).PosSemidef := by
  rw [ptAM_eq_transpose]; exact h.ptBM_posSemidef.transpose

omit [Finite m] [Finite n] in
theorem IsSepMix.swap {ρ : Matrix (m × n) (m × n) ℂ} (h : IsSepMix ρ) : IsSepMix (swapM ρ) := by
  obtain ⟨K, w, a, b, hw, rfl⟩ := h
  refine ⟨K, w, b, a, hw, ?_⟩
  rw [swapM_sum]
  simp only [swapM_smul, swapM_kron]

end Spec

section Local
variable {m n : Type*} [Fintype m] [Fintype n]

theorem conj_proj (U : Matrix m m ℂ) (a : m → ℂ) : U * proj a * Uᴴ = proj (U *ᵥ a) := by
  unfold proj
  rw [mul_vecMulVec, vecMulVec_mul, star_mulVec]

theorem IsSepMix.localConj {ρ : Matrix (m × n) (m × n) ℂ} (h : IsSepMix ρ) (U : Matrix m m ℂ)
    (V : Matrix n n ℂ) : IsSepMix ((U ⊗ₖ V) * ρ * (U ⊗ₖ V)ᴴ) := by
  obtain ⟨K, w, a, b, hw, rfl⟩ := h
  refine ⟨K, w, fun k => U *ᵥ a k, fun k => V *ᵥ b k, hw, ?_⟩
  rw [Matrix.mul_sum, Matrix.sum_mul]
  refine Finset.sum_congr rfl fun k _ => ?_
  rw [Matrix.mul_smul, Matrix.smul_mul, conjTranspose_kronecker, ← mul_kronecker_mul,
    ← mul_kronecker_mul, conj_proj, conj_proj]

end Local

/-! ## Bridge: flat index `a * dB + b` ↔ pair index `(a, b)` -/

section Bridge
variable {dA dB : Nat}

@[simp] theorem fstI_pair (a : Fin dA) (b : Fin dB) : fstI (pair a b) = a := by
  apply Fin.ext
  simp only [fstI, pair]
  rw [Nat.add_comm, Nat.add_mul_div_right _ _ (by have := b.isLt; omega), Nat.div_eq_of_lt b.isLt,
    Nat.zero_add]

@[simp] theorem sndI_pair (a : Fin dA) (b : Fin dB) : sndI (pair a b) = b := by
  apply Fin.ext
  simp only [sndI, pair]
  rw [Nat.add_comm, Nat.add_mul_mod_self_right, Nat.mod_eq_of_lt b.isLt]

@[simp] theorem pair_fst_snd (i : Fin (dA * dB)) : pair (fstI i) (sndI i) = i := by
  apply Fin.ext
  simp only [fstI, sndI, pair]
  exact Nat.div_add_mod' _ _

/-- the bijection `(a, b) ↦ a * dB + b` -/
def pairEquiv (dA dB : Nat) : Fin dA × Fin dB ≃ Fin (dA * dB) where
  toFun p := pair p.1 p.2
  invFun i := (fstI i, sndI i)
  left_inv p := by simp
  right_inv i := by simp

@[simp] theorem pairEquiv_apply (a : Fin dA) (b : Fin dB) : pairEquiv dA dB (a, b) = pair a b := rfl

/-- read a matrix on the flat index as a matrix on pairs -/
def unflat (M : Matrix (Fin (dA * dB)) (Fin (dA * dB)) ℂ) :
    Matrix (Fin dA × Fin dB) (Fin dA × Fin dB) ℂ :=
  M.submatrix (pairEquiv dA dB) (pairEquiv dA dB)

@[simp] theorem unflat_apply (M : Matrix (Fin (dA * dB)) (Fin (dA * dB)) ℂ) (a a' : Fin dA)
    (b b' : Fin dB) : unflat M (a, b) (a', b') = M (pair a b) (pair a' b') := rfl

theorem unflat_posSemidef_iff (M : Matrix (Fin (dA * dB)) (Fin (dA * dB)) ℂ) :
    (unflat M).PosSemidef ↔ M.PosSemidef :=
  posSemidef_submatrix_equiv (pairEquiv dA dB)

theorem unflat_mul (M N : Matrix (Fin (dA * dB)) (Fin (dA * dB)) ℂ) :
    unflat (M * N) = unflat M * unflat N :=
  (Matrix.submatrix_mul_equiv M N _ (pairEquiv dA dB) _).symm

theorem unflat_conjTranspose (M : Matrix (Fin (dA * dB)) (Fin (dA * dB)) ℂ) :
    unflat Mᴴ = (unflat M)ᴴ := rfl

theorem unflat_add (M N : Matrix (Fin (dA * dB)) (Fin (dA * dB)) ℂ) :
    unflat (M + N) = unflat M + unflat N := rfl

theorem unflat_smul (c : ℂ) (M : Matrix (Fin (dA * dB)) (Fin (dA * dB)) ℂ) :
    unflat (c • M) = c • unflat M := rfl

theorem unflat_ptB (X : EMat (dA * dB) (dA * dB)) : unflat (ptB X).toM = ptBM (unflat X.toM) := by
  ext ⟨a, b⟩ ⟨a', b'⟩
  simp [ptB, ptBM]

theorem unflat_ptA (X : EMat (dA * dB) (dA * dB)) : unflat (ptA X).toM = ptAM (unflat X.toM) := by
  ext ⟨a, b⟩ ⟨a', b'⟩
  simp [ptA, ptAM]

theorem unflat_swapAB (X : EMat (dA * dB) (dA * dB)) :
    unflat (swapAB X).toM = swapM (unflat X.toM) := by
  ext ⟨b, a⟩ ⟨b', a'⟩
  simp [swapAB, swapM]

theorem unflat_kron (U : EMat dA dA) (V : EMat dB dB) : unflat (kron U V).toM = U.toM ⊗ₖ V.toM := by
  ext ⟨a, b⟩ ⟨a', b'⟩
  simp [kron, kroneckerMap_apply, QI.toC_mul]

theorem unflat_localConj (U : EMat dA dA) (V : EMat dB dB) (X : EMat (dA * dB) (dA * dB)) :
    unflat (localConj U V X).toM = (U.toM ⊗ₖ V.toM) * unflat X.toM * (U.toM ⊗ₖ V.toM)ᴴ := by
  simp only [localConj, EMat.toM_mul, EMat.toM_ct, unflat_mul, unflat_conjTranspose, unflat_kron]

/-- the column of an exact `n × 1` matrix as a complex vector -/
def colV {n : Nat} (v : EMat n 1) : Fin n → ℂ := fun i => (v.get i 0).toC

theorem outer_toM {n : Nat} (v : EMat n 1) : (outer v).toM = proj (colV v) := by
  ext i j
  simp [outer, proj, colV, vecMulVec_apply, EMat.sumFin_toC, QI.toC_mul, QI.toC_conj]

theorem isSepMix_zero : IsSepMix (0 : Matrix (Fin dA × Fin dB) (Fin dA × Fin dB) ℂ) :=
  ⟨0, fun _ => 0, fun _ _ => 0, fun _ _ => 0, fun k => k.elim0, by simp⟩

theorem IsSepMix.add_term {ρ : Matrix (Fin dA × Fin dB) (Fin dA × Fin dB) ℂ} (h : IsSepMix ρ)
    (w : ℝ) (hw : 0 ≤ w) (a : Fin dA → ℂ) (b : Fin dB → ℂ) :
    IsSepMix ((w : ℂ) • (proj a ⊗ₖ proj b) + ρ) := by
  obtain ⟨K, ws, as, bs, hws, rfl⟩ := h
  refine ⟨K + 1, Fin.cons w ws, Fin.cons a as, Fin.cons b bs, ?_, ?_⟩
  · intro k; refine Fin.cases ?_ (fun i => ?_) k
    · simpa using hw
    · simpa using hws i
  · rw [Fin.sum_univ_succ]; simp

/-- the exact mixture built by `sepMix` from non-negative weights is a separable mixture -/
theorem sepMix_isSepMix : ∀ (ws : List Rat) (as : List (EMat dA 1)) (bs : List (EMat dB 1)),
    (∀ w ∈ ws, 0 ≤ w) → IsSepMix (unflat (sepMix ws as bs).toM)
  | [], _, _, _ => by simpa [sepMix, EMat.toM_zero, unflat] using isSepMix_zero
  | _ :: _, [], _, _ => by simpa [sepMix, EMat.toM_zero, unflat] using isSepMix_zero
  | _ :: _, _ :: _, [], _ => by simpa [sepMix, EMat.toM_zero, unflat] using isSepMix_zero
  | w :: ws, a :: as, b :: bs, h => by
    have ih := sepMix_isSepMix ws as bs fun x hx => h x (List.mem_cons_of_mem _ hx)
    have hw : (0 : ℝ) ≤ (w : ℝ) := by exact_mod_cast h w List.mem_cons_self
    have := ih.add_term (w : ℝ) hw (colV a) (colV b)
    simpa [sepMix, EMat.toM_add, EMat.toM_smul, unflat_add, unflat_smul, unflat_kron, outer_toM]
      using this

end Bridge

/-! ## Smallest-eigenvalue certificates -/

section LamMin
variable {n k : Nat}

theorem toM_scalar_sub (A : EMat n n) (c : Rat) :
    (A - EMat.scalar c).toM = A.toM - (((c : ℝ) : ℂ)) • (1 : Matrix (Fin n) (Fin n) ℂ) := by
  rw [EMat.toM_sub, EMat.toM_scalar]

theorem checkLamMinLower_eq {A : EMat n n} {c : Rat} {L : EMat n k} {lo : Rat}
    (h : checkLamMinLower A c L = some lo) : lo = c ∧ EMat.psdCert (A - EMat.scalar c) L = true := by
  unfold checkLamMinLower at h
  split at h
  · next hc => exact ⟨(Option.some.inj h).symm, hc⟩
  · exact absurd h (by simp)

theorem checkLamMinLower_psd {A : EMat n n} {c : Rat} {L : EMat n k} {lo : Rat}
    (h : checkLamMinLower A c L = some lo) :
    (A.toM - (((lo : ℝ) : ℂ)) • (1 : Matrix (Fin n) (Fin n) ℂ)).PosSemidef := by
  obtain ⟨rfl, hc⟩ := checkLamMinLower_eq h
  rw [← toM_scalar_sub]
  exact psdCert_sound _ _ hc

/-- `Re (xᴴ x) = Σ |x_i|²` as the cast of the exact norm -/
theorem normSqV_cast (v : EMat n 1) : ((normSqV v : Rat) : ℝ) = (star (colV v) ⬝ᵥ colV v).re := by
  have : ((normSqV v : Rat) : ℝ) = ((v.ct.mul v).toM 0 0).re := rfl
  rw [this, EMat.toM_mul, EMat.toM_ct, Matrix.mul_apply]
  simp [dotProduct, colV, Matrix.conjTranspose_apply]

theorem quadForm_cast (A : EMat n n) (v : EMat n 1) :
    ((quadForm A v : Rat) : ℝ) = (star (colV v) ⬝ᵥ (A.toM *ᵥ colV v)).re := by
  have : ((quadForm A v : Rat) : ℝ) = ((v.ct.mul (A.mul v)).toM 0 0).re := rfl
  rw [this, EMat.toM_mul, EMat.toM_mul, EMat.toM_ct, Matrix.mul_apply]
  simp [dotProduct, colV, Matrix.conjTranspose_apply, Matrix.mulVec, Matrix.mul_apply]

theorem checkLamMinUpper_eq {A : EMat n n} {v : EMat n 1} {hi : Rat}
    (h : checkLamMinUpper A v = some hi) : 0 < normSqV v ∧ hi = quadForm A v / normSqV v := by
  unfold checkLamMinUpper at h
  split at h
  · next hc => exact ⟨hc, (Option.some.inj h).symm⟩
  · exact absurd h (by simp)

/-- the Rayleigh quotient of any non-zero vector bounds from above every `c` with `A − c·1 ⪰ 0` -/
theorem checkLamMinUpper_bound {A : EMat n n} {v : EMat n 1} {hi : Rat}
    (h : checkLamMinUpper A v = some hi) (c : ℝ)
    (hc : (A.toM - (c : ℂ) • (1 : Matrix (Fin n) (Fin n) ℂ)).PosSemidef) : c ≤ (hi : ℝ) := by
  obtain ⟨hpos, rfl⟩ := checkLamMinUpper_eq h
  have h1 := hc.dotProduct_mulVec_nonneg (colV v)
  rw [Matrix.sub_mulVec, dotProduct_sub, Matrix.smul_mulVec, Matrix.one_mulVec, dotProduct_smul,
    smul_eq_mul] at h1
  have h2 := (Complex.nonneg_iff.mp h1).1
  rw [Complex.sub_re, Complex.re_ofReal_mul, ← quadForm_cast, ← normSqV_cast] at h2
  have hN : (0 : ℝ) < ((normSqV v : Rat) : ℝ) := by exact_mod_cast hpos
  rw [Rat.cast_div, le_div_iff₀ hN]
  linarith

theorem lamMinVerdict_true {A : EMat n n} {tol c : Rat} {L : EMat n k} {v : EMat n 1}
    (h : lamMinVerdict A tol c L v = some true) :
    ∃ lo, checkLamMinLower A c L = some lo ∧ -tol ≤ lo := by
  unfold lamMinVerdict at h
  split at h
  · next lo hlo =>
    split at h
    · next hle => exact ⟨lo, hlo, hle⟩
    · split at h
      · split at h <;> simp at h
      · simp at h
  · split at h
    · split at h <;> simp at h
    · simp at h

theorem lamMinVerdict_false {A : EMat n n} {tol c : Rat} {L : EMat n k} {v : EMat n 1}
    (h : lamMinVerdict A tol c L v = some false) :
    ∃ hi, checkLamMinUpper A v = some hi ∧ hi < -tol := by
  unfold lamMinVerdict at h
  split at h
  · split at h
    · simp at h
    · split at h
      · next hi hhi =>
        split at h
        · next hlt => exact ⟨hi, hhi, hlt⟩
        · simp at h
      · simp at h
  · split at h
    · next hi hhi =>
      split at h
      · next hlt => exact ⟨hi, hhi, hlt⟩
      · simp at h
    · simp at h

end LamMin

/-! ## The Gurvits–Barnum ball: algebra -/

section Ball
variable {n : Nat}

/-- squared Frobenius norm `Σ_ij |x_ij|²` of a complex matrix -/
noncomputable def frobSq {ι κ : Type*} [Fintype ι] [Fintype κ] (X : Matrix ι κ ℂ) : ℝ :=
  ∑ i, ∑ j, Complex.normSq (X i j)

theorem frobSq_nonneg {ι κ : Type*} [Fintype ι] [Fintype κ] (X : Matrix ι κ ℂ) : 0 ≤ frobSq X :=
  Finset.sum_nonneg fun _ _ => Finset.sum_nonneg fun _ _ => Complex.normSq_nonneg _

theorem frob2_cast {r c : Nat} (M : EMat r c) : ((frob2 M : Rat) : ℝ) = frobSq M.toM := by
  unfold frob2 frobSq
  rw [EMat.sumFinQ_cast]
  refine Finset.sum_congr rfl fun i _ => ?_
  rw [EMat.sumFinQ_cast]
  refine Finset.sum_congr rfl fun j _ => ?_
  simp [Complex.normSq_apply]

theorem trRe_cast (M : EMat n n) : ((trRe M : Rat) : ℝ) = (Matrix.trace M.toM).re := EMat.re_trace M

/-- `‖q X − r 1‖_F² = q² ‖X‖_F² − 2 q r Re tr X + n r²` -/
theorem frobSq_affine (q r : ℝ) (X : Matrix (Fin n) (Fin n) ℂ) :
    frobSq ((q : ℂ) • X - (r : ℂ) • (1 : Matrix (Fin n) (Fin n) ℂ))
      = q ^ 2 * frobSq X - 2 * q * r * (Matrix.trace X).re + n * r ^ 2 := by
  unfold frobSq
  have h : ∀ i j, Complex.normSq (((q : ℂ) • X - (r : ℂ) • (1 : Matrix (Fin n) (Fin n) ℂ)) i j)
      = q ^ 2 * Complex.normSq (X i j) - 2 * q * r * (if i = j then (X i j).re else 0)
        + (if i = j then r ^ 2 else 0) := by
    intro i j
    by_cases hij : i = j
    · subst hij
      simp [Complex.normSq_apply]
      ring
    · simp [hij, Complex.normSq_apply]
      ring
  simp_rw [h]
  simp only [Finset.sum_add_distrib, Finset.sum_sub_distrib, ← Finset.mul_sum, Finset.sum_ite_eq,
    Finset.mem_univ, if_true, Matrix.trace, Matrix.diag_apply, Complex.re_sum, Finset.sum_const,
    Finset.card_univ, Fintype.card_fin, nsmul_eq_mul]

theorem frobSq_smul (q : ℝ) (X : Matrix (Fin n) (Fin n) ℂ) :
    frobSq ((q : ℂ) • X) = q ^ 2 * frobSq X := by
  have := frobSq_affine q 0 X
  simpa using this

theorem frobSq_pos_of_trace {X : Matrix (Fin n) (Fin n) ℂ} (h : 0 < (Matrix.trace X).re) :
    0 < frobSq X := by
  rcases (frobSq_nonneg X).lt_or_eq with h0 | h0
  · exact h0
  · exfalso
    have hz : ∀ i, X i i = 0 := by
      intro i
      have h1 := (Finset.sum_eq_zero_iff_of_nonneg
        (fun i _ => Finset.sum_nonneg fun j _ => Complex.normSq_nonneg (X i j))).mp h0.symm i
        (Finset.mem_univ i)
      have h2 := (Finset.sum_eq_zero_iff_of_nonneg
        (fun j _ => Complex.normSq_nonneg (X i j))).mp h1 i (Finset.mem_univ i)
      exact Complex.normSq_eq_zero.mp h2
    have : Matrix.trace X = 0 := by simp [Matrix.trace, hz]
    rw [this] at h
    simp at h

/-- the comparison made by `in_separable_ball` after its two normalisations -/
theorem mirror_alg (X : Matrix (Fin n) (Fin n) ℂ) (ht : 0 < (Matrix.trace X).re) :
    let t := (Matrix.trace X).re
    let ρ := ((1 / t : ℝ) : ℂ) • X
    let s := frobSq ρ
    frobSq (((1 / s : ℝ) : ℂ) • ρ - ((1 : ℝ) : ℂ) • (1 : Matrix (Fin n) (Fin n) ℂ)) ≤ 1
      ↔ ((n : ℝ) - 1) * frobSq X ≤ t * t := by
  intro t ρ s
  have hF := frobSq_pos_of_trace ht
  have hs : s = frobSq X / (t * t) := by
    simp only [s, ρ, frobSq_smul]; field_simp
  have hs0 : 0 < s := by rw [hs]; positivity
  have ht0 : t ≠ 0 := ne_of_gt ht
  have htr : (Matrix.trace ρ).re = 1 := by
    simp only [ρ, Matrix.trace_smul, smul_eq_mul, Complex.re_ofReal_mul]
    exact one_div_mul_cancel ht0
  rw [frobSq_affine, htr]
  have e : (1 / s) ^ 2 * s - 2 * (1 / s) * 1 * 1 + n * 1 ^ 2 = n - 1 / s := by
    field_simp; ring
  rw [e, hs]
  rw [one_div_div, sub_le_comm, le_div_iff₀ hF]

/-- the ball inequality `‖X/t − 1/n‖_F² ≤ 1/(n(n−1))` as a polynomial inequality -/
theorem ball_alg (X : Matrix (Fin n) (Fin n) ℂ) (ht : 0 < (Matrix.trace X).re) (hn : 2 ≤ n) :
    let t := (Matrix.trace X).re
    frobSq (((1 / t : ℝ) : ℂ) • X - ((1 / (n : ℝ) : ℝ) : ℂ) • (1 : Matrix (Fin n) (Fin n) ℂ))
        ≤ 1 / ((n : ℝ) * ((n : ℝ) - 1))
      ↔ ((n : ℝ) - 1) * frobSq X ≤ t * t := by
  intro t
  have hn' : (2 : ℝ) ≤ (n : ℝ) := by exact_mod_cast hn
  have hn0 : (0 : ℝ) < n := by linarith
  have hn1 : (0 : ℝ) < (n : ℝ) - 1 := by linarith
  have ht0 : t ≠ 0 := ne_of_gt ht
  rw [frobSq_affine]
  have e : (1 / t) ^ 2 * frobSq X - 2 * (1 / t) * (1 / (n : ℝ)) * (Matrix.trace X).re
        + n * (1 / (n : ℝ)) ^ 2 = frobSq X / (t * t) - 1 / n := by
    change (1 / t) ^ 2 * frobSq X - 2 * (1 / t) * (1 / (n : ℝ)) * t + n * (1 / (n : ℝ)) ^ 2 = _
    field_simp; ring
  rw [e]
  have htt : 0 < t * t := by positivity
  have e2 : (1 : ℝ) / (n * (n - 1)) + 1 / n = 1 / (n - 1) := by
    field_simp; ring
  rw [sub_le_iff_le_add, e2, div_le_div_iff₀ htt hn1]
  constructor <;> intro h <;> nlinarith

end Ball

/-! ## Necessary criteria beyond PPT: realignment (CCNR)

The trace (nuclear) norm of a rectangular matrix `M` is used in its dual form
`‖M‖₁ = sup { Re tr(Wᴴ M) : 1 − WᴴW ⪰ 0 }`; every statement `‖M‖₁ ≤ c` is stated as
`∀ W, IsContr W → Re tr(Wᴴ M) ≤ c` (no attainment needed). -/

section Nsq
variable {ι κ : Type*} [Fintype ι] [Fintype κ]

/-- squared Euclidean norm `Σ_i |x_i|²` of a complex vector -/
noncomputable def nsq (x : ι → ℂ) : ℝ := ∑ i, Complex.normSq (x i)

theorem nsq_nonneg (x : ι → ℂ) : 0 ≤ nsq x :=
  Finset.sum_nonneg fun _ _ => Complex.normSq_nonneg _

theorem nsq_eq_re (x : ι → ℂ) : nsq x = (star x ⬝ᵥ x).re := by
  unfold nsq dotProduct
  rw [Complex.re_sum]
  refine Finset.sum_congr rfl fun i _ => ?_
  simp [Complex.normSq_apply]

theorem star_dotProduct_self (x : ι → ℂ) : star x ⬝ᵥ x = ((nsq x : ℝ) : ℂ) := by
  unfold nsq dotProduct
  rw [Complex.ofReal_sum]
  refine Finset.sum_congr rfl fun i _ => ?_
  rw [Pi.star_apply, Complex.star_def, mul_comm, Complex.mul_conj]

theorem nsq_star (x : ι → ℂ) : nsq (star x) = nsq x := by
  unfold nsq
  refine Finset.sum_congr rfl fun i _ => ?_
  simp [Complex.normSq_conj]

theorem nsq_smul (c : ℂ) (x : ι → ℂ) : nsq (c • x) = Complex.normSq c * nsq x := by
  unfold nsq
  rw [Finset.mul_sum]
  refine Finset.sum_congr rfl fun i _ => ?_
  simp [Complex.normSq_mul]

/-- Cauchy–Schwarz, real-part form: `(Re ⟨u, y⟩)² ≤ ‖u‖² ‖y‖²` -/
theorem re_dot_sq_le (u y : ι → ℂ) : ((star u ⬝ᵥ y).re) ^ 2 ≤ nsq u * nsq y := by
  have h := Finset.sum_mul_sq_le_sq_mul_sq (Finset.univ : Finset (ι ⊕ ι))
    (Sum.elim (fun i => (u i).re) (fun i => (u i).im)) (Sum.elim (fun i => (y i).re) (fun i => (y i).im))
  rw [Fintype.sum_sum_type, Fintype.sum_sum_type, Fintype.sum_sum_type] at h
  simp only [Sum.elim_inl, Sum.elim_inr] at h
  have e1 : (star u ⬝ᵥ y).re = ∑ i, (u i).re * (y i).re + ∑ i, (u i).im * (y i).im := by
    unfold dotProduct
    rw [Complex.re_sum, ← Finset.sum_add_distrib]
    refine Finset.sum_congr rfl fun i _ => ?_
    simp
  have e2 : ∀ x : ι → ℂ, nsq x = ∑ i, (x i).re ^ 2 + ∑ i, (x i).im ^ 2 := by
    intro x
    unfold nsq
    rw [← Finset.sum_add_distrib]
    refine Finset.sum_congr rfl fun i _ => ?_
    rw [Complex.normSq_apply]; ring
  rw [e1, e2 u, e2 y]
  exact h

/-- Cauchy–Schwarz, modulus form: `|⟨u, y⟩|² ≤ ‖u‖² ‖y‖²` -/
theorem normSq_dot_le (u y : ι → ℂ) : Complex.normSq (star u ⬝ᵥ y) ≤ nsq u * nsq y := by
  set z := star u ⬝ᵥ y with hz
  have h := re_dot_sq_le u ((starRingEnd ℂ z) • y)
  rw [dotProduct_smul, smul_eq_mul, ← hz, nsq_smul, Complex.normSq_conj] at h
  have e : ((starRingEnd ℂ) z * z).re = Complex.normSq z := by
    rw [mul_comm, Complex.mul_conj]; simp
  rw [e] at h
  rcases (Complex.normSq_nonneg z).lt_or_eq with hpos | h0
  · have : Complex.normSq z * Complex.normSq z ≤ Complex.normSq z * (nsq u * nsq y) := by
      calc Complex.normSq z * Complex.normSq z = Complex.normSq z ^ 2 := by ring
        _ ≤ nsq u * (Complex.normSq z * nsq y) := h
        _ = Complex.normSq z * (nsq u * nsq y) := by ring
    exact le_of_mul_le_mul_left this hpos
  · rw [← h0]; exact mul_nonneg (nsq_nonneg _) (nsq_nonneg _)

end Nsq

section Contr
variable {ι κ : Type*} [Fintype ι] [Fintype κ] [DecidableEq κ]

/-- `W` (rectangular) has operator norm at most one: `1 − WᴴW ⪰ 0` -/
def IsContr (W : Matrix ι κ ℂ) : Prop := (1 - Wᴴ * W).PosSemidef

theorem IsContr.nsq_mulVec_le {W : Matrix ι κ ℂ} (h : IsContr W) (x : κ → ℂ) :
    nsq (W *ᵥ x) ≤ nsq x := by
  have h1 := h.dotProduct_mulVec_nonneg x
  rw [Matrix.sub_mulVec, dotProduct_sub, Matrix.one_mulVec, ← Matrix.mulVec_mulVec,
    dotProduct_mulVec, ← star_mulVec, star_dotProduct_self, star_dotProduct_self] at h1
  have h2 := (Complex.nonneg_iff.mp h1).1
  simp only [Complex.sub_re, Complex.ofReal_re] at h2
  linarith

omit [Fintype κ] in
theorem IsContr.zero : IsContr (0 : Matrix ι κ ℂ) := by
  unfold IsContr; simpa using PosSemidef.one

omit [DecidableEq κ] in
/-- `tr(Wᴴ u vᵀ) = ⟨W v̄, u⟩` -/
theorem trace_ct_mul_vecMulVec (W : Matrix ι κ ℂ) (u : ι → ℂ) (v : κ → ℂ) :
    (Wᴴ * vecMulVec u v).trace = star (W *ᵥ star v) ⬝ᵥ u := by
  simp only [Matrix.trace, Matrix.diag_apply, Matrix.mul_apply, vecMulVec_apply, dotProduct,
    Matrix.mulVec, Pi.star_apply, conjTranspose_apply, star_sum, star_mul', star_star]
  rw [Finset.sum_comm]
  refine Finset.sum_congr rfl fun i _ => ?_
  rw [Finset.sum_mul]
  refine Finset.sum_congr rfl fun j _ => ?_
  ring

/-- **rank one**: `(Re tr(Wᴴ u vᵀ))² ≤ ‖u‖² ‖v‖²` for every contraction `W` -/
theorem IsContr.re_trace_vecMulVec_sq_le {W : Matrix ι κ ℂ} (h : IsContr W) (u : ι → ℂ) (v : κ → ℂ) :
    ((Wᴴ * vecMulVec u v).trace.re) ^ 2 ≤ nsq u * nsq v := by
  rw [trace_ct_mul_vecMulVec]
  refine (re_dot_sq_le _ _).trans ?_
  have := h.nsq_mulVec_le (star v)
  rw [nsq_star] at this
  rw [mul_comm]
  exact mul_le_mul_of_nonneg_left this (nsq_nonneg _)

end Contr

section Realign
variable {m n : Type*}

/-- realignment on pair indices: `R(X)((a,a'),(b,b')) = X((a,b),(a',b'))`; a `(m×m) × (n×n)` matrix -/
def realignM (X : Matrix (m × n) (m × n) ℂ) : Matrix (m × m) (n × n) ℂ :=
  fun i j => X (i.1, j.1) (i.2, j.2)

/-- row-major vectorisation of a square matrix -/
def vecr {ι : Type*} (A : Matrix ι ι ℂ) : ι × ι → ℂ := fun p => A p.1 p.2

theorem realignM_kron (A : Matrix m m ℂ) (B : Matrix n n ℂ) :
    realignM (A ⊗ₖ B) = vecMulVec (vecr A) (vecr B) := by
  ext ⟨a, a'⟩ ⟨b, b'⟩
  simp [realignM, vecr, vecMulVec_apply, kroneckerMap_apply]

theorem realignM_smul (c : ℂ) (X : Matrix (m × n) (m × n) ℂ) : realignM (c • X) = c • realignM X := by
  ext i j; simp [realignM]

theorem realignM_add (X Y : Matrix (m × n) (m × n) ℂ) : realignM (X + Y) = realignM X + realignM Y := by
  ext i j; simp [realignM]

theorem realignM_sub (X Y : Matrix (m × n) (m × n) ℂ) : realignM (X - Y) = realignM X - realignM Y := by
  ext i j; simp [realignM]

theorem realignM_sum {K : Type*} (s : Finset K) (f : K → Matrix (m × n) (m × n) ℂ) :
    realignM (∑ k ∈ s, f k) = ∑ k ∈ s, realignM (f k) := by
  ext i j; simp [realignM, Matrix.sum_apply]

variable [Fintype m] [Fintype n]

theorem nsq_vecr {ι : Type*} [Fintype ι] (A : Matrix ι ι ℂ) : nsq (vecr A) = frobSq A := by
  unfold nsq frobSq vecr
  rw [Fintype.sum_prod_type]

theorem frobSq_proj {ι : Type*} [Fintype ι] (a : ι → ℂ) : frobSq (proj a) = nsq a ^ 2 := by
  unfold frobSq nsq proj
  rw [pow_two, Finset.sum_mul_sum]
  refine Finset.sum_congr rfl fun i _ => Finset.sum_congr rfl fun j _ => ?_
  simp [vecMulVec_apply, Complex.normSq_mul, Complex.normSq_conj]

theorem trace_proj {ι : Type*} [Fintype ι] (a : ι → ℂ) : (proj a).trace = ((nsq a : ℝ) : ℂ) := by
  rw [← star_dotProduct_self]
  simp [proj, Matrix.trace, vecMulVec_apply, dotProduct, mul_comm]

theorem trace_proj_kron (a : m → ℂ) (b : n → ℂ) :
    (proj a ⊗ₖ proj b).trace = ((nsq a * nsq b : ℝ) : ℂ) := by
  rw [trace_kronecker, trace_proj, trace_proj]; push_cast; rfl

variable [DecidableEq n]

/-- realignment criterion for one product term -/
theorem IsContr.re_trace_realign_proj_le {W : Matrix (m × m) (n × n) ℂ} (h : IsContr W)
    (a : m → ℂ) (b : n → ℂ) :
    (Wᴴ * realignM (proj a ⊗ₖ proj b)).trace.re ≤ nsq a * nsq b := by
  rw [realignM_kron]
  have h1 := h.re_trace_vecMulVec_sq_le (vecr (proj a)) (vecr (proj b))
  rw [nsq_vecr, nsq_vecr, frobSq_proj, frobSq_proj, ← mul_pow] at h1
  exact (le_abs_self _).trans (abs_le_of_sq_le_sq h1 (mul_nonneg (nsq_nonneg _) (nsq_nonneg _)))

/-- **Realignment (CCNR) criterion**: `Re tr(Wᴴ R(ρ)) ≤ tr ρ` for every separable mixture `ρ` and every
contraction `W`, i.e. `‖R(ρ)‖₁ ≤ tr ρ`. -/
theorem IsSepMix.re_trace_realign_le {ρ : Matrix (m × n) (m × n) ℂ} (hρ : IsSepMix ρ)
    {W : Matrix (m × m) (n × n) ℂ} (h : IsContr W) :
    (Wᴴ * realignM ρ).trace.re ≤ ρ.trace.re := by
  obtain ⟨K, w, a, b, hw, rfl⟩ := hρ
  rw [realignM_sum, Matrix.mul_sum, Matrix.trace_sum, Matrix.trace_sum, Complex.re_sum, Complex.re_sum]
  refine Finset.sum_le_sum fun k _ => ?_
  rw [realignM_smul, Matrix.mul_smul, Matrix.trace_smul, Matrix.trace_smul, smul_eq_mul, smul_eq_mul,
    Complex.re_ofReal_mul, Complex.re_ofReal_mul, trace_proj_kron, Complex.ofReal_re]
  exact mul_le_mul_of_nonneg_left (h.re_trace_realign_proj_le _ _) (hw k)

end Realign

/-! ## The Zhang–Zhang–Zhang–Guo bound ("beyond realignment")

Covariance form: for `ρ = Σ_k p_k α_k ⊗ β_k` one has `ρ − ρ_A ⊗ ρ_B = Σ_k p_k (α_k − ρ_A) ⊗ (β_k − ρ_B)`, each term realigns to
a rank-one matrix, and Cauchy–Schwarz over `k` bounds the trace norm by the product of the standard deviations
`√(Σ_k p_k ‖α_k − ρ_A‖_F²) = √(Σ_k p_k ‖α_k‖_F² − ‖ρ_A‖_F²) ≤ √(1 − tr ρ_A²)`. -/

section Cov
/-- covariance identity: `Σ p_k (x_k − X)(y_k − Y) = Σ p_k x_k y_k − X Y` for `X = Σ p x`, `Y = Σ p y`, `Σ p = 1` -/
theorem cov_identity {F K : Type*} [CommRing F] (s : Finset K) (p x y : K → F) (hp : ∑ k ∈ s, p k = 1) :
    ∑ k ∈ s, p k * ((x k - ∑ l ∈ s, p l * x l) * (y k - ∑ l ∈ s, p l * y l))
      = ∑ k ∈ s, p k * (x k * y k) - (∑ l ∈ s, p l * x l) * (∑ l ∈ s, p l * y l) := by
  set X := ∑ l ∈ s, p l * x l with hX
  set Y := ∑ l ∈ s, p l * y l with hY
  have e : ∀ k, p k * ((x k - X) * (y k - Y))
      = p k * (x k * y k) - (p k * x k) * Y - X * (p k * y k) + p k * (X * Y) := by
    intro k; ring
  simp_rw [e]
  rw [Finset.sum_add_distrib, Finset.sum_sub_distrib, Finset.sum_sub_distrib, ← Finset.sum_mul,
    ← Finset.mul_sum, ← Finset.sum_mul, hp, ← hX, ← hY]
  ring

/-- variance identity for real weights and complex values -/
theorem var_identity {K : Type*} (s : Finset K) (p : K → ℝ) (x : K → ℂ) (hp : ∑ k ∈ s, p k = 1) :
    ∑ k ∈ s, p k * Complex.normSq (x k - ∑ l ∈ s, (p l : ℂ) * x l)
      = ∑ k ∈ s, p k * Complex.normSq (x k) - Complex.normSq (∑ l ∈ s, (p l : ℂ) * x l) := by
  have hre : (∑ l ∈ s, (p l : ℂ) * x l).re = ∑ l ∈ s, p l * (x l).re := by
    rw [Complex.re_sum]; simp
  have him : (∑ l ∈ s, (p l : ℂ) * x l).im = ∑ l ∈ s, p l * (x l).im := by
    rw [Complex.im_sum]; simp
  have h1 := cov_identity s p (fun k => (x k).re) (fun k => (x k).re) hp
  have h2 := cov_identity s p (fun k => (x k).im) (fun k => (x k).im) hp
  simp only [Complex.normSq_apply, Complex.sub_re, Complex.sub_im, hre, him, mul_add,
    Finset.sum_add_distrib]
  linarith

end Cov

section Zhang
variable {m n : Type*} [Fintype m] [Fintype n]

/-- partial trace over the second party: `ρ_A(a,a') = Σ_b X((a,b),(a',b))` -/
def ptrB (X : Matrix (m × n) (m × n) ℂ) : Matrix m m ℂ := fun a a' => ∑ b, X (a, b) (a', b)

/-- partial trace over the first party: `ρ_B(b,b') = Σ_a X((a,b),(a,b'))` -/
def ptrA (X : Matrix (m × n) (m × n) ℂ) : Matrix n n ℂ := fun b b' => ∑ a, X (a, b) (a, b')

omit [Fintype m] in
theorem ptrB_kron (A : Matrix m m ℂ) (B : Matrix n n ℂ) : ptrB (A ⊗ₖ B) = B.trace • A := by
  ext a a'
  simp [ptrB, kroneckerMap_apply, Matrix.trace, ← Finset.mul_sum, mul_comm]

omit [Fintype n] in
theorem ptrA_kron (A : Matrix m m ℂ) (B : Matrix n n ℂ) : ptrA (A ⊗ₖ B) = A.trace • B := by
  ext b b'
  simp [ptrA, kroneckerMap_apply, Matrix.trace, ← Finset.sum_mul]

omit [Fintype m] in
theorem ptrB_smul (c : ℂ) (X : Matrix (m × n) (m × n) ℂ) : ptrB (c • X) = c • ptrB X := by
  ext a a'; simp [ptrB, Finset.mul_sum]

omit [Fintype n] in
theorem ptrA_smul (c : ℂ) (X : Matrix (m × n) (m × n) ℂ) : ptrA (c • X) = c • ptrA X := by
  ext a a'; simp [ptrA, Finset.mul_sum]

omit [Fintype m] in
theorem ptrB_sum {K : Type*} (s : Finset K) (f : K → Matrix (m × n) (m × n) ℂ) :
    ptrB (∑ k ∈ s, f k) = ∑ k ∈ s, ptrB (f k) := by
  ext a a'; simp only [ptrB, Matrix.sum_apply]; rw [Finset.sum_comm]

omit [Fintype n] in
theorem ptrA_sum {K : Type*} (s : Finset K) (f : K → Matrix (m × n) (m × n) ℂ) :
    ptrA (∑ k ∈ s, f k) = ∑ k ∈ s, ptrA (f k) := by
  ext a a'; simp only [ptrA, Matrix.sum_apply]; rw [Finset.sum_comm]

theorem trace_ptrB (X : Matrix (m × n) (m × n) ℂ) : (ptrB X).trace = X.trace := by
  simp [ptrB, Matrix.trace, Fintype.sum_prod_type]

theorem trace_ptrA (X : Matrix (m × n) (m × n) ℂ) : (ptrA X).trace = X.trace := by
  simp only [ptrA, Matrix.trace, Matrix.diag_apply, Fintype.sum_prod_type]; rw [Finset.sum_comm]

/-- `Σ_k p_k ‖α_k − ᾱ‖_F² = Σ_k p_k ‖α_k‖_F² − ‖ᾱ‖_F²` for `ᾱ = Σ_k p_k α_k`, `Σ p = 1` -/
theorem frobSq_var {ι K : Type*} [Fintype ι] (s : Finset K) (p : K → ℝ) (α : K → Matrix ι ι ℂ)
    (hp : ∑ k ∈ s, p k = 1) :
    ∑ k ∈ s, p k * frobSq (α k - ∑ l ∈ s, (p l : ℂ) • α l)
      = ∑ k ∈ s, p k * frobSq (α k) - frobSq (∑ l ∈ s, (p l : ℂ) • α l) := by
  unfold frobSq
  simp_rw [Finset.mul_sum]
  rw [Finset.sum_comm, Finset.sum_comm (s := s) (t := Finset.univ), ← Finset.sum_sub_distrib]
  refine Finset.sum_congr rfl fun i _ => ?_
  rw [Finset.sum_comm, Finset.sum_comm (s := s) (t := Finset.univ), ← Finset.sum_sub_distrib]
  refine Finset.sum_congr rfl fun j _ => ?_
  have := var_identity s p (fun k => α k i j) hp
  simpa [Matrix.sub_apply, Matrix.sum_apply, Matrix.smul_apply] using this

omit [Fintype m] [Fintype n] in
/-- `Σ_k p_k (α_k − ᾱ) ⊗ (β_k − β̄) = Σ_k p_k α_k ⊗ β_k − ᾱ ⊗ β̄` -/
theorem kron_cov {K : Type*} (s : Finset K) (p : K → ℝ) (α : K → Matrix m m ℂ) (β : K → Matrix n n ℂ)
    (hp : ∑ k ∈ s, p k = 1) :
    ∑ k ∈ s, (p k : ℂ) • ((α k - ∑ l ∈ s, (p l : ℂ) • α l) ⊗ₖ (β k - ∑ l ∈ s, (p l : ℂ) • β l))
      = ∑ k ∈ s, (p k : ℂ) • (α k ⊗ₖ β k)
        - (∑ l ∈ s, (p l : ℂ) • α l) ⊗ₖ (∑ l ∈ s, (p l : ℂ) • β l) := by
  ext ⟨a, b⟩ ⟨a', b'⟩
  have hp' : ∑ k ∈ s, (p k : ℂ) = 1 := by rw [← Complex.ofReal_sum, hp]; simp
  have := cov_identity s (fun k => (p k : ℂ)) (fun k => α k a a') (fun k => β k b b') hp'
  simpa [Matrix.sub_apply, Matrix.sum_apply, Matrix.smul_apply, kroneckerMap_apply] using this

end Zhang

section ZhangMain
variable {m n : Type*} [Fintype m] [Fintype n] [DecidableEq n]

/-- one weighted product term: `p · Re tr(Wᴴ R(A ⊗ B)) ≤ √(p‖A‖_F²) √(p‖B‖_F²)` -/
theorem IsContr.weighted_term_le {W : Matrix (m × m) (n × n) ℂ} (h : IsContr W) (p : ℝ) (hp : 0 ≤ p)
    (A : Matrix m m ℂ) (B : Matrix n n ℂ) :
    p * (Wᴴ * realignM (A ⊗ₖ B)).trace.re ≤ √(p * frobSq A) * √(p * frobSq B) := by
  rw [realignM_kron]
  have h1 := h.re_trace_vecMulVec_sq_le (vecr A) (vecr B)
  rw [nsq_vecr, nsq_vecr] at h1
  rw [← Real.sqrt_mul (mul_nonneg hp (frobSq_nonneg A))]
  refine (le_abs_self _).trans (Real.abs_le_sqrt ?_)
  calc (p * (Wᴴ * vecMulVec (vecr A) (vecr B)).trace.re) ^ 2
      = p ^ 2 * (Wᴴ * vecMulVec (vecr A) (vecr B)).trace.re ^ 2 := by ring
    _ ≤ p ^ 2 * (frobSq A * frobSq B) := mul_le_mul_of_nonneg_left h1 (sq_nonneg p)
    _ = p * frobSq A * (p * frobSq B) := by ring

/-- **Zhang–Zhang–Zhang–Guo bound, general form.**  For `ρ = Σ_k p_k α_k ⊗ β_k` with a probability vector `p`
and local operators of trace one with `‖α_k‖_F, ‖β_k‖_F ≤ 1` (density operators), the marginals are
`ρ_A = Σ p_k α_k`, `ρ_B = Σ p_k β_k`, both `1 − ‖ρ_A‖_F²`, `1 − ‖ρ_B‖_F²` are non-negative and
`Re tr(Wᴴ R(ρ − ρ_A ⊗ ρ_B)) ≤ √((1 − ‖ρ_A‖_F²)(1 − ‖ρ_B‖_F²))` for every contraction `W`. -/
theorem zhang_general {K : Type*} (s : Finset K) (p : K → ℝ) (α : K → Matrix m m ℂ)
    (β : K → Matrix n n ℂ) (hp : ∀ k ∈ s, 0 ≤ p k) (hsum : ∑ k ∈ s, p k = 1)
    (htα : ∀ k ∈ s, (α k).trace = 1) (htβ : ∀ k ∈ s, (β k).trace = 1)
    (hfα : ∀ k ∈ s, frobSq (α k) ≤ 1) (hfβ : ∀ k ∈ s, frobSq (β k) ≤ 1)
    {W : Matrix (m × m) (n × n) ℂ} (hW : IsContr W) (ρ : Matrix (m × n) (m × n) ℂ)
    (hρ : ρ = ∑ k ∈ s, (p k : ℂ) • (α k ⊗ₖ β k)) :
    ptrB ρ = ∑ k ∈ s, (p k : ℂ) • α k ∧ ptrA ρ = ∑ k ∈ s, (p k : ℂ) • β k ∧
    0 ≤ 1 - frobSq (ptrB ρ) ∧ 0 ≤ 1 - frobSq (ptrA ρ) ∧
    (Wᴴ * realignM (ρ - ptrB ρ ⊗ₖ ptrA ρ)).trace.re
      ≤ √((1 - frobSq (ptrB ρ)) * (1 - frobSq (ptrA ρ))) := by
  have hA : ptrB ρ = ∑ k ∈ s, (p k : ℂ) • α k := by
    rw [hρ, ptrB_sum]
    refine Finset.sum_congr rfl fun k hk => ?_
    rw [ptrB_smul, ptrB_kron, htβ k hk, one_smul]
  have hB : ptrA ρ = ∑ k ∈ s, (p k : ℂ) • β k := by
    rw [hρ, ptrA_sum]
    refine Finset.sum_congr rfl fun k hk => ?_
    rw [ptrA_smul, ptrA_kron, htα k hk, one_smul]
  -- variances
  have vA := frobSq_var s p α hsum
  have vB := frobSq_var s p β hsum
  rw [← hA] at vA
  rw [← hB] at vB
  have sA : ∑ k ∈ s, p k * frobSq (α k) ≤ 1 := by
    rw [← hsum]
    exact Finset.sum_le_sum fun k hk => by
      simpa using mul_le_mul_of_nonneg_left (hfα k hk) (hp k hk)
  have sB : ∑ k ∈ s, p k * frobSq (β k) ≤ 1 := by
    rw [← hsum]
    exact Finset.sum_le_sum fun k hk => by
      simpa using mul_le_mul_of_nonneg_left (hfβ k hk) (hp k hk)
  have nA : 0 ≤ ∑ k ∈ s, p k * frobSq (α k - ptrB ρ) :=
    Finset.sum_nonneg fun k hk => mul_nonneg (hp k hk) (frobSq_nonneg _)
  have nB : 0 ≤ ∑ k ∈ s, p k * frobSq (β k - ptrA ρ) :=
    Finset.sum_nonneg fun k hk => mul_nonneg (hp k hk) (frobSq_nonneg _)
  have uA : ∑ k ∈ s, p k * frobSq (α k - ptrB ρ) ≤ 1 - frobSq (ptrB ρ) := by linarith
  have uB : ∑ k ∈ s, p k * frobSq (β k - ptrA ρ) ≤ 1 - frobSq (ptrA ρ) := by linarith
  refine ⟨hA, hB, by linarith, by linarith, ?_⟩
  have hcov := kron_cov s p α β hsum
  rw [← hA, ← hB, ← hρ] at hcov
  rw [← hcov, realignM_sum, Matrix.mul_sum, Matrix.trace_sum, Complex.re_sum]
  calc ∑ k ∈ s, (Wᴴ * realignM ((p k : ℂ) • ((α k - ptrB ρ) ⊗ₖ (β k - ptrA ρ)))).trace.re
      = ∑ k ∈ s, p k * (Wᴴ * realignM ((α k - ptrB ρ) ⊗ₖ (β k - ptrA ρ))).trace.re := by
        refine Finset.sum_congr rfl fun k _ => ?_
        rw [realignM_smul, Matrix.mul_smul, Matrix.trace_smul, smul_eq_mul, Complex.re_ofReal_mul]
    _ ≤ ∑ k ∈ s, √(p k * frobSq (α k - ptrB ρ)) * √(p k * frobSq (β k - ptrA ρ)) :=
        Finset.sum_le_sum fun k hk => hW.weighted_term_le (p k) (hp k hk) _ _
    _ ≤ √(∑ k ∈ s, p k * frobSq (α k - ptrB ρ)) * √(∑ k ∈ s, p k * frobSq (β k - ptrA ρ)) := by
        refine (Real.sum_mul_le_sqrt_mul_sqrt s _ _).trans_eq ?_
        congr 2
        · exact Finset.sum_congr rfl fun k hk => Real.sq_sqrt (mul_nonneg (hp k hk) (frobSq_nonneg _))
        · exact Finset.sum_congr rfl fun k hk => Real.sq_sqrt (mul_nonneg (hp k hk) (frobSq_nonneg _))
    _ ≤ √(1 - frobSq (ptrB ρ)) * √(1 - frobSq (ptrA ρ)) :=
        mul_le_mul (Real.sqrt_le_sqrt uA) (Real.sqrt_le_sqrt uB) (Real.sqrt_nonneg _) (Real.sqrt_nonneg _)
    _ = √((1 - frobSq (ptrB ρ)) * (1 - frobSq (ptrA ρ))) := by
        rw [Real.sqrt_mul (by linarith)]

end ZhangMain

section ZhangSep
variable {m n : Type*} [Fintype m] [Fintype n]

theorem frobSq_smul_gen {ι κ : Type*} [Fintype ι] [Fintype κ] (q : ℝ) (X : Matrix ι κ ℂ) :
    frobSq ((q : ℂ) • X) = q ^ 2 * frobSq X := by
  unfold frobSq
  simp_rw [Finset.mul_sum]
  refine Finset.sum_congr rfl fun i _ => Finset.sum_congr rfl fun j _ => ?_
  simp [Complex.normSq_mul, pow_two]

theorem eq_zero_of_nsq_eq_zero {ι : Type*} [Fintype ι] {a : ι → ℂ} (h : nsq a = 0) : a = 0 := by
  funext i
  have := (Finset.sum_eq_zero_iff_of_nonneg (fun i _ => Complex.normSq_nonneg (a i))).mp h i
    (Finset.mem_univ i)
  exact Complex.normSq_eq_zero.mp this

theorem proj_zero {ι : Type*} : proj (0 : ι → ℂ) = 0 := by
  ext i j; simp [proj, vecMulVec_apply]

/-- the normalised projector `a aᴴ / ‖a‖²` has trace one and Frobenius norm one -/
theorem normalised_proj {ι : Type*} [Fintype ι] (a : ι → ℂ) (h : nsq a ≠ 0) :
    ((((1 / nsq a : ℝ)) : ℂ) • proj a).trace = 1 ∧ frobSq ((((1 / nsq a : ℝ)) : ℂ) • proj a) = 1 := by
  constructor
  · rw [Matrix.trace_smul, trace_proj, smul_eq_mul, ← Complex.ofReal_mul, one_div_mul_cancel h]
    simp
  · rw [frobSq_smul_gen, frobSq_proj]
    field_simp

variable [DecidableEq n]

/-- **Zhang et al. bound for separable states of trace one.** -/
theorem IsSepMix.zhang {ρ : Matrix (m × n) (m × n) ℂ} (hρ : IsSepMix ρ) (ht : ρ.trace = 1)
    {W : Matrix (m × m) (n × n) ℂ} (hW : IsContr W) :
    0 ≤ 1 - frobSq (ptrB ρ) ∧ 0 ≤ 1 - frobSq (ptrA ρ) ∧
    (Wᴴ * realignM (ρ - ptrB ρ ⊗ₖ ptrA ρ)).trace.re
      ≤ √((1 - frobSq (ptrB ρ)) * (1 - frobSq (ptrA ρ))) := by
  classical
  obtain ⟨K, w, a, b, hw, rfl⟩ := hρ
  set c : Fin K → ℝ := fun k => nsq (a k) * nsq (b k) with hc
  set s : Finset (Fin K) := Finset.univ.filter fun k => c k ≠ 0 with hs
  have hterm : ∀ k, c k = 0 → (w k : ℂ) • (proj (a k) ⊗ₖ proj (b k)) = 0 := by
    intro k hk
    rcases mul_eq_zero.mp hk with h0 | h0
    · rw [eq_zero_of_nsq_eq_zero h0, proj_zero, zero_kronecker, smul_zero]
    · rw [eq_zero_of_nsq_eq_zero h0, proj_zero, kronecker_zero, smul_zero]
  have hmem : ∀ k ∈ s, nsq (a k) ≠ 0 ∧ nsq (b k) ≠ 0 := by
    intro k hk
    have : c k ≠ 0 := (Finset.mem_filter.mp hk).2
    exact ⟨left_ne_zero_of_mul this, right_ne_zero_of_mul this⟩
  have hρs : ∑ k, (w k : ℂ) • (proj (a k) ⊗ₖ proj (b k))
      = ∑ k ∈ s, ((w k * c k : ℝ) : ℂ) •
          (((((1 / nsq (a k) : ℝ)) : ℂ) • proj (a k)) ⊗ₖ ((((1 / nsq (b k) : ℝ)) : ℂ) • proj (b k))) := by
    rw [← Finset.sum_filter_of_ne (p := fun k => c k ≠ 0)
      (fun k _ hne hck => hne (hterm k hck))]
    refine Finset.sum_congr rfl fun k hk => ?_
    obtain ⟨ha, hb⟩ := hmem k hk
    rw [smul_kronecker, kronecker_smul, smul_smul, smul_smul]
    congr 1
    rw [← Complex.ofReal_mul, ← Complex.ofReal_mul, hc]
    congr 1
    field_simp
  have hsum : ∑ k ∈ s, w k * c k = 1 := by
    have h1 : ∑ k ∈ s, w k * c k = ∑ k, w k * c k := by
      refine Finset.sum_filter_of_ne fun k _ hne hck => hne ?_
      rw [hck, mul_zero]
    rw [h1]
    have h2 : (∑ k, (w k : ℂ) • (proj (a k) ⊗ₖ proj (b k))).trace = ((∑ k, w k * c k : ℝ) : ℂ) := by
      rw [Matrix.trace_sum, Complex.ofReal_sum]
      refine Finset.sum_congr rfl fun k _ => ?_
      rw [Matrix.trace_smul, trace_proj_kron, smul_eq_mul, ← Complex.ofReal_mul]
    rw [h2] at ht
    exact_mod_cast ht
  obtain ⟨-, -, h1, h2, h3⟩ := zhang_general s (fun k => w k * c k)
    (fun k => (((1 / nsq (a k) : ℝ)) : ℂ) • proj (a k)) (fun k => (((1 / nsq (b k) : ℝ)) : ℂ) • proj (b k))
    (fun k _ => mul_nonneg (hw k) (mul_nonneg (nsq_nonneg _) (nsq_nonneg _))) hsum
    (fun k hk => (normalised_proj (a k) (hmem k hk).1).1) (fun k hk => (normalised_proj (b k) (hmem k hk).2).1)
    (fun k hk => (normalised_proj (a k) (hmem k hk).1).2.le) (fun k hk => (normalised_proj (b k) (hmem k hk).2).2.le)
    hW _ hρs
  exact ⟨h1, h2, h3⟩

end ZhangSep

/-! ## Positive-map criterion -/

section PosMap
variable {m n n' : Type*}

/-- the block `X((a,·),(a',·))` of the second party -/
def blockB (X : Matrix (m × n) (m × n) ℂ) (a a' : m) : Matrix n n ℂ := fun b b' => X (a, b) (a', b')

/-- the block `X((·,b),(·,b'))` of the first party -/
def blockA (X : Matrix (m × n) (m × n) ℂ) (b b' : n) : Matrix m m ℂ := fun a a' => X (a, b) (a', b')

/-- `(id ⊗ Λ)(X)`: apply `Λ` to every block `X((a,·),(a',·))` of the second party -/
def applyB (Λ : Matrix n n ℂ →ₗ[ℂ] Matrix n' n' ℂ) (X : Matrix (m × n) (m × n) ℂ) :
    Matrix (m × n') (m × n') ℂ :=
  fun i j => Λ (blockB X i.1 j.1) i.2 j.2

/-- `(Λ ⊗ id)(X)`: apply `Λ` to every block `X((·,b),(·,b'))` of the first party -/
def applyA (Λ : Matrix m m ℂ →ₗ[ℂ] Matrix n' n' ℂ) (X : Matrix (m × n) (m × n) ℂ) :
    Matrix (n' × n) (n' × n) ℂ :=
  fun i j => Λ (blockA X i.2 j.2) i.1 j.1

/-- `Λ` maps every (unnormalised) pure state `b bᴴ` to a positive semidefinite operator.  Every positive map
has this property (for linear maps it is equivalent to positivity, by the spectral theorem), and it is the
only property the criterion needs. -/
def IsPosOnPure {ι κ : Type*} (Λ : Matrix ι ι ℂ →ₗ[ℂ] Matrix κ κ ℂ) : Prop :=
  ∀ b : ι → ℂ, (Λ (proj b)).PosSemidef

theorem blockB_kron (A : Matrix m m ℂ) (B : Matrix n n ℂ) (a a' : m) :
    blockB (A ⊗ₖ B) a a' = A a a' • B := by
  ext c c'; simp [blockB, kroneckerMap_apply]

theorem blockA_kron (A : Matrix m m ℂ) (B : Matrix n n ℂ) (b b' : n) :
    blockA (A ⊗ₖ B) b b' = B b b' • A := by
  ext c c'; simp [blockA, kroneckerMap_apply, mul_comm]

theorem blockB_smul (c : ℂ) (X : Matrix (m × n) (m × n) ℂ) (a a' : m) :
    blockB (c • X) a a' = c • blockB X a a' := by
  ext b b'; simp [blockB]

theorem blockA_smul (c : ℂ) (X : Matrix (m × n) (m × n) ℂ) (b b' : n) :
    blockA (c • X) b b' = c • blockA X b b' := by
  ext a a'; simp [blockA]

theorem blockB_sum {K : Type*} (s : Finset K) (f : K → Matrix (m × n) (m × n) ℂ) (a a' : m) :
    blockB (∑ k ∈ s, f k) a a' = ∑ k ∈ s, blockB (f k) a a' := by
  ext b b'; simp [blockB, Matrix.sum_apply]

theorem blockA_sum {K : Type*} (s : Finset K) (f : K → Matrix (m × n) (m × n) ℂ) (b b' : n) :
    blockA (∑ k ∈ s, f k) b b' = ∑ k ∈ s, blockA (f k) b b' := by
  ext a a'; simp [blockA, Matrix.sum_apply]

theorem applyB_kron (Λ : Matrix n n ℂ →ₗ[ℂ] Matrix n' n' ℂ) (A : Matrix m m ℂ) (B : Matrix n n ℂ) :
    applyB Λ (A ⊗ₖ B) = A ⊗ₖ Λ B := by
  ext ⟨a, b⟩ ⟨a', b'⟩
  simp only [applyB, blockB_kron, map_smul, kroneckerMap_apply, Matrix.smul_apply, smul_eq_mul]

theorem applyA_kron (Λ : Matrix m m ℂ →ₗ[ℂ] Matrix n' n' ℂ) (A : Matrix m m ℂ) (B : Matrix n n ℂ) :
    applyA Λ (A ⊗ₖ B) = Λ A ⊗ₖ B := by
  ext ⟨a, b⟩ ⟨a', b'⟩
  simp only [applyA, blockA_kron, map_smul, kroneckerMap_apply, Matrix.smul_apply, smul_eq_mul, mul_comm]

theorem applyB_smul (Λ : Matrix n n ℂ →ₗ[ℂ] Matrix n' n' ℂ) (c : ℂ) (X : Matrix (m × n) (m × n) ℂ) :
    applyB Λ (c • X) = c • applyB Λ X := by
  ext i j
  simp only [applyB, blockB_smul, map_smul, Matrix.smul_apply]

theorem applyA_smul (Λ : Matrix m m ℂ →ₗ[ℂ] Matrix n' n' ℂ) (c : ℂ) (X : Matrix (m × n) (m × n) ℂ) :
    applyA Λ (c • X) = c • applyA Λ X := by
  ext i j
  simp only [applyA, blockA_smul, map_smul, Matrix.smul_apply]

theorem applyB_sum (Λ : Matrix n n ℂ →ₗ[ℂ] Matrix n' n' ℂ) {K : Type*} (s : Finset K)
    (f : K → Matrix (m × n) (m × n) ℂ) : applyB Λ (∑ k ∈ s, f k) = ∑ k ∈ s, applyB Λ (f k) := by
  ext i j
  simp only [applyB, blockB_sum, map_sum, Matrix.sum_apply]

theorem applyA_sum (Λ : Matrix m m ℂ →ₗ[ℂ] Matrix n' n' ℂ) {K : Type*} (s : Finset K)
    (f : K → Matrix (m × n) (m × n) ℂ) : applyA Λ (∑ k ∈ s, f k) = ∑ k ∈ s, applyA Λ (f k) := by
  ext i j
  simp only [applyA, blockA_sum, map_sum, Matrix.sum_apply]

/-- **Positive-map criterion**: `(id ⊗ Λ)(ρ) ⪰ 0` for every separable mixture `ρ` and every `Λ` that is positive
on pure states -/
theorem IsSepMix.applyB_posSemidef [Finite m] [Finite n'] {ρ : Matrix (m × n) (m × n) ℂ} (h : IsSepMix ρ)
    {Λ : Matrix n n ℂ →ₗ[ℂ] Matrix n' n' ℂ} (hΛ : IsPosOnPure Λ) : (applyB Λ ρ).PosSemidef := by
  obtain ⟨K, w, a, b, hw, rfl⟩ := h
  rw [applyB_sum]
  simp only [applyB_smul, applyB_kron]
  exact posSemidef_sum_smul_kron w _ _ hw (fun k => proj_posSemidef _) fun k => hΛ _

theorem IsSepMix.applyA_posSemidef [Finite n] [Finite n'] {ρ : Matrix (m × n) (m × n) ℂ} (h : IsSepMix ρ)
    {Λ : Matrix m m ℂ →ₗ[ℂ] Matrix n' n' ℂ} (hΛ : IsPosOnPure Λ) : (applyA Λ ρ).PosSemidef := by
  obtain ⟨K, w, a, b, hw, rfl⟩ := h
  rw [applyA_sum]
  simp only [applyA_smul, applyA_kron]
  exact posSemidef_sum_smul_kron w _ _ hw (fun k => hΛ _) fun k => proj_posSemidef _

end PosMap

section Choi
variable {n n' : Type*} [Fintype n]

/-- the linear map with Choi matrix `J = Σ_ij E_ij ⊗ Φ(E_ij)` (toqito's convention): `Φ(X) = Σ_ij X_ij J((i,·),(j,·))` -/
def choiMap (J : Matrix (n × n') (n × n') ℂ) : Matrix n n ℂ →ₗ[ℂ] Matrix n' n' ℂ where
  toFun X := fun b b' => ∑ i, ∑ j, X i j * J (i, b) (j, b')
  map_add' X Y := by
    ext b b'
    change ∑ i, ∑ j, (X + Y) i j * J (i, b) (j, b')
      = (∑ i, ∑ j, X i j * J (i, b) (j, b')) + ∑ i, ∑ j, Y i j * J (i, b) (j, b')
    simp only [Matrix.add_apply, add_mul, Finset.sum_add_distrib]
  map_smul' c X := by
    ext b b'
    change ∑ i, ∑ j, (c • X) i j * J (i, b) (j, b') = c * ∑ i, ∑ j, X i j * J (i, b) (j, b')
    simp only [Matrix.smul_apply, smul_eq_mul, Finset.mul_sum, mul_assoc]

theorem choiMap_apply (J : Matrix (n × n') (n × n') ℂ) (X : Matrix n n ℂ) (b b' : n') :
    choiMap J X b b' = ∑ i, ∑ j, X i j * J (i, b) (j, b') := rfl

end Choi

/-! ## Singular value decompositions attain the dual form of the trace norm; purities -/

section SVD
variable {ι κ r : Type*} [Fintype ι] [Fintype κ] [Fintype r] [DecidableEq κ] [DecidableEq r]

/-- `U Vᴴ` is a contraction when `U`, `V` have orthonormal columns -/
theorem isContr_mul_conjTranspose (U : Matrix ι r ℂ) (V : Matrix κ r ℂ) (hU : Uᴴ * U = 1)
    (hV : Vᴴ * V = 1) : IsContr (U * Vᴴ) := by
  unfold IsContr
  have e : (U * Vᴴ)ᴴ * (U * Vᴴ) = V * Vᴴ := by
    rw [conjTranspose_mul, conjTranspose_conjTranspose, Matrix.mul_assoc, ← Matrix.mul_assoc Uᴴ, hU,
      Matrix.one_mul]
  have hP : (V * Vᴴ) * (V * Vᴴ) = V * Vᴴ := by
    rw [Matrix.mul_assoc, ← Matrix.mul_assoc Vᴴ, hV, Matrix.one_mul]
  have hH : (V * Vᴴ)ᴴ = V * Vᴴ := by
    rw [conjTranspose_mul, conjTranspose_conjTranspose]
  have : 1 - V * Vᴴ = (1 - V * Vᴴ)ᴴ * (1 - V * Vᴴ) := by
    rw [conjTranspose_sub, conjTranspose_one, hH, Matrix.mul_sub, Matrix.sub_mul, Matrix.sub_mul,
      Matrix.one_mul, Matrix.mul_one, Matrix.one_mul, hP]
    abel
  rw [e, this]
  exact posSemidef_conjTranspose_mul_self _

omit [DecidableEq κ] in
/-- pairing a singular value decomposition with its polar factor gives the sum of the singular values -/
theorem trace_polar_mul_svd (U : Matrix ι r ℂ) (V : Matrix κ r ℂ) (σ : r → ℝ) (hU : Uᴴ * U = 1)
    (hV : Vᴴ * V = 1) :
    ((U * Vᴴ)ᴴ * (U * diagonal (fun i => (σ i : ℂ)) * Vᴴ)).trace = ((∑ i, σ i : ℝ) : ℂ) := by
  rw [conjTranspose_mul, conjTranspose_conjTranspose]
  have : V * Uᴴ * (U * diagonal (fun i => (σ i : ℂ)) * Vᴴ)
      = V * (diagonal (fun i => (σ i : ℂ)) * Vᴴ) := by
    rw [Matrix.mul_assoc V, Matrix.mul_assoc U, ← Matrix.mul_assoc Uᴴ, hU, Matrix.one_mul]
  rw [this, Matrix.trace_mul_comm, Matrix.mul_assoc, hV, Matrix.mul_one, Matrix.trace_diagonal,
    Complex.ofReal_sum]

end SVD

section Herm
/-- for Hermitian `A`: `Re tr(A A) = ‖A‖_F²` (the "purity" the code computes) -/
theorem re_trace_mul_self_of_isHermitian {ι : Type*} [Fintype ι] {A : Matrix ι ι ℂ} (h : A.IsHermitian) :
    (A * A).trace.re = frobSq A := by
  unfold frobSq
  simp only [Matrix.trace, Matrix.diag_apply, Matrix.mul_apply, Complex.re_sum]
  refine Finset.sum_congr rfl fun i _ => Finset.sum_congr rfl fun j _ => ?_
  have : A j i = star (A i j) := by rw [← h.apply j i]
  rw [this, Complex.star_def, Complex.mul_conj]
  simp

theorem ptrB_isHermitian {m n : Type*} [Fintype n] {X : Matrix (m × n) (m × n) ℂ} (h : X.IsHermitian) :
    (ptrB X).IsHermitian := by
  ext a a'
  simp only [ptrB, conjTranspose_apply, star_sum]
  exact Finset.sum_congr rfl fun b _ => h.apply _ _

theorem ptrA_isHermitian {m n : Type*} [Fintype m] {X : Matrix (m × n) (m × n) ℂ} (h : X.IsHermitian) :
    (ptrA X).IsHermitian := by
  ext b b'
  simp only [ptrA, conjTranspose_apply, star_sum]
  exact Finset.sum_congr rfl fun a _ => h.apply _ _
end Herm

/-! ## Positive maps used by the cascade: transposition, reduction, Breuer–Hall -/

section Instances
variable {n : Type*}

/-- the transposition map -/
def transposeL : Matrix n n ℂ →ₗ[ℂ] Matrix n n ℂ := (Matrix.transposeLinearEquiv n n ℂ ℂ).toLinearMap

@[simp] theorem transposeL_apply (X : Matrix n n ℂ) : transposeL X = Xᵀ := rfl

theorem transposeL_pos [Finite n] : IsPosOnPure (transposeL (n := n)) := fun b => by
  rw [transposeL_apply, transpose_proj]; exact proj_posSemidef _

theorem applyB_transposeL {m : Type*} (X : Matrix (m × n) (m × n) ℂ) :
    applyB transposeL X = ptBM X := rfl

variable [Fintype n]

theorem star_dot_comm (x b : n → ℂ) : star x ⬝ᵥ b = (starRingEnd ℂ) (star b ⬝ᵥ x) := by
  simp [dotProduct, mul_comm]

/-- `xᴴ (b bᴴ) x = |⟨b, x⟩|²` -/
theorem quad_proj (b x : n → ℂ) :
    star x ⬝ᵥ (proj b *ᵥ x) = ((Complex.normSq (star b ⬝ᵥ x) : ℝ) : ℂ) := by
  have h1 : star x ⬝ᵥ (proj b *ᵥ x) = (star x ⬝ᵥ b) * (star b ⬝ᵥ x) := by
    simp only [dotProduct, mulVec, proj, vecMulVec_apply, Pi.star_apply, Finset.sum_mul_sum]
    refine Finset.sum_congr rfl fun i _ => ?_
    rw [Finset.mul_sum]
    refine Finset.sum_congr rfl fun j _ => ?_
    ring
  rw [h1, star_dot_comm, mul_comm, Complex.mul_conj]

variable [DecidableEq n]

/-- the reduction map `X ↦ tr(X)·1 − X` -/
def reductionL : Matrix n n ℂ →ₗ[ℂ] Matrix n n ℂ :=
  (LinearMap.smulRight (Matrix.traceLinearMap n ℂ ℂ) (1 : Matrix n n ℂ)) - LinearMap.id

@[simp] theorem reductionL_apply (X : Matrix n n ℂ) : reductionL X = X.trace • (1 : Matrix n n ℂ) - X := rfl

omit [DecidableEq n] in
theorem proj_isHermitian (b : n → ℂ) : (proj b).IsHermitian := (proj_posSemidef b).1

/-- the reduction map is positive on pure states: `‖b‖²·1 − b bᴴ ⪰ 0` (Cauchy–Schwarz) -/
theorem reductionL_pos : IsPosOnPure (reductionL (n := n)) := fun b => by
  rw [reductionL_apply, trace_proj]
  refine PosSemidef.of_dotProduct_mulVec_nonneg ?_ fun x => ?_
  · refine IsHermitian.sub ?_ (proj_isHermitian b)
    ext i j
    by_cases h : i = j <;> simp [conjTranspose_apply, h, eq_comm]
  · rw [Matrix.sub_mulVec, dotProduct_sub, Matrix.smul_mulVec, Matrix.one_mulVec, dotProduct_smul,
      star_dotProduct_self, quad_proj, smul_eq_mul, ← Complex.ofReal_mul, ← Complex.ofReal_sub]
    exact Complex.zero_le_real.mpr (sub_nonneg.mpr (normSq_dot_le b x))

end Instances

section BreuerHall
variable {n : Type*} [Fintype n]

theorem nsq_add (u v : n → ℂ) : nsq (u + v) = nsq u + nsq v + 2 * (star u ⬝ᵥ v).re := by
  unfold nsq dotProduct
  rw [Complex.re_sum, Finset.mul_sum, ← Finset.sum_add_distrib, ← Finset.sum_add_distrib]
  refine Finset.sum_congr rfl fun i _ => ?_
  simp [Complex.normSq_apply]
  ring

/-- Bessel for two orthogonal vectors of squared norm at most `c`:
`|⟨b,x⟩|² + |⟨φ,x⟩|² ≤ c ‖x‖²` -/
theorem bessel_two (b φ x : n → ℂ) (c : ℝ) (hb : nsq b ≤ c) (hφ : nsq φ ≤ c) (horth : star b ⬝ᵥ φ = 0) :
    Complex.normSq (star b ⬝ᵥ x) + Complex.normSq (star φ ⬝ᵥ x) ≤ c * nsq x := by
  set β := star b ⬝ᵥ x with hβ
  set γ := star φ ⬝ᵥ x with hγ
  set T := Complex.normSq β + Complex.normSq γ with hT
  have hT0 : 0 ≤ T := add_nonneg (Complex.normSq_nonneg _) (Complex.normSq_nonneg _)
  set v : n → ℂ := β • b + γ • φ with hv
  have h1 : star v ⬝ᵥ x = ((T : ℝ) : ℂ) := by
    rw [hv, star_add, add_dotProduct, star_smul, star_smul, smul_dotProduct, smul_dotProduct, ← hβ, ← hγ,
      smul_eq_mul, smul_eq_mul]
    change (starRingEnd ℂ) β * β + (starRingEnd ℂ) γ * γ = _
    rw [mul_comm, Complex.mul_conj, mul_comm ((starRingEnd ℂ) γ), Complex.mul_conj, hT]
    push_cast; rfl
  have h2 : nsq v ≤ c * T := by
    have e : star (β • b) ⬝ᵥ (γ • φ) = 0 := by
      rw [star_smul, smul_dotProduct, dotProduct_smul, horth]; simp
    rw [hv, nsq_add, e, nsq_smul, nsq_smul]
    simp only [Complex.zero_re, mul_zero, add_zero]
    have := mul_le_mul_of_nonneg_left hb (Complex.normSq_nonneg β)
    have := mul_le_mul_of_nonneg_left hφ (Complex.normSq_nonneg γ)
    rw [hT]; nlinarith
  have h3 := normSq_dot_le v x
  rw [h1, Complex.normSq_ofReal] at h3
  rcases hT0.lt_or_eq with hpos | h0
  · have : T * T ≤ T * (c * nsq x) := by
      calc T * T ≤ nsq v * nsq x := h3
        _ ≤ c * T * nsq x := mul_le_mul_of_nonneg_right h2 (nsq_nonneg x)
        _ = T * (c * nsq x) := by ring
    exact le_of_mul_le_mul_left this hpos
  · rw [← h0]
    have hc : 0 ≤ c := (nsq_nonneg b).trans hb
    exact mul_nonneg hc (nsq_nonneg x)

/-- `cᵀ U c = 0` for antisymmetric `U` -/
theorem antisymm_quad_zero {U : Matrix n n ℂ} (hU : Uᵀ = -U) (c : n → ℂ) : c ⬝ᵥ (U *ᵥ c) = 0 := by
  have h : c ⬝ᵥ (U *ᵥ c) = - (c ⬝ᵥ (U *ᵥ c)) := by
    conv_lhs => rw [dotProduct_mulVec, ← mulVec_transpose, hU, dotProduct_comm, Matrix.neg_mulVec,
      dotProduct_neg]
  have : (2 : ℂ) * (c ⬝ᵥ (U *ᵥ c)) = 0 := by linear_combination h
  simpa using this

variable [DecidableEq n]

/-- the Breuer–Hall map `X ↦ tr(X)·1 − X − U Xᵀ Uᴴ` -/
def breuerHallL (U : Matrix n n ℂ) : Matrix n n ℂ →ₗ[ℂ] Matrix n n ℂ :=
  reductionL - (LinearMap.mulLeft ℂ U ∘ₗ LinearMap.mulRight ℂ Uᴴ) ∘ₗ transposeL

theorem breuerHallL_apply (U X : Matrix n n ℂ) :
    breuerHallL U X = X.trace • (1 : Matrix n n ℂ) - X - U * (Xᵀ * Uᴴ) := rfl

/-- **The Breuer–Hall map is positive** (on pure states) for every antisymmetric contraction `U`, in particular
for every antisymmetric unitary: `‖b‖²·1 − b bᴴ − φ φᴴ ⪰ 0` with `φ = U b̄ ⟂ b`, `‖φ‖ ≤ ‖b‖`. -/
theorem breuerHallL_pos {U : Matrix n n ℂ} (hanti : Uᵀ = -U) (hU : IsContr U) :
    IsPosOnPure (breuerHallL U) := fun b => by
  set φ := U *ᵥ star b with hφ
  have e : breuerHallL U (proj b) = ((nsq b : ℝ) : ℂ) • (1 : Matrix n n ℂ) - proj b - proj φ := by
    rw [breuerHallL_apply, trace_proj, transpose_proj, ← Matrix.mul_assoc, conj_proj]
  rw [e]
  refine PosSemidef.of_dotProduct_mulVec_nonneg ?_ fun x => ?_
  · refine IsHermitian.sub (IsHermitian.sub ?_ (proj_isHermitian b)) (proj_isHermitian φ)
    ext i j
    by_cases h : i = j <;> simp [conjTranspose_apply, h, eq_comm]
  · rw [Matrix.sub_mulVec, Matrix.sub_mulVec, dotProduct_sub, dotProduct_sub, Matrix.smul_mulVec,
      Matrix.one_mulVec, dotProduct_smul, star_dotProduct_self, quad_proj, quad_proj, smul_eq_mul,
      ← Complex.ofReal_mul, ← Complex.ofReal_sub, ← Complex.ofReal_sub]
    refine Complex.zero_le_real.mpr ?_
    have horth : star b ⬝ᵥ φ = 0 := antisymm_quad_zero hanti (star b)
    have hn : nsq φ ≤ nsq b := by
      have := hU.nsq_mulVec_le (star b)
      rwa [nsq_star] at this
    have := bessel_two b φ x (nsq b) le_rfl hn horth
    linarith

end BreuerHall

/-! ## Bridge: the executable evaluators on flat indices compute `realignM`, `ptrB`, `ptrA`, `applyB`, `applyA` -/

section Bridge2
variable {dA dB dO : Nat}

/-- the executable realignment, read on pair indices, is `realignM` -/
theorem realignE_toM (X : EMat (dA * dB) (dA * dB)) :
    (realignE X).toM.submatrix (pairEquiv dA dA) (pairEquiv dB dB) = realignM (unflat X.toM) := by
  ext ⟨a, a'⟩ ⟨b, b'⟩
  simp [realignE, realignM]

theorem ptrBE_toM (X : EMat (dA * dB) (dA * dB)) : (ptrBE X).toM = ptrB (unflat X.toM) := by
  ext a a'
  simp [ptrBE, ptrB, EMat.sumFin_toC]

theorem ptrAE_toM (X : EMat (dA * dB) (dA * dB)) : (ptrAE X).toM = ptrA (unflat X.toM) := by
  ext b b'
  simp [ptrAE, ptrA, EMat.sumFin_toC]

theorem choiApplyB_toM (J : EMat (dB * dO) (dB * dO)) (X : EMat (dA * dB) (dA * dB)) :
    unflat (choiApplyB J X).toM = applyB (choiMap (unflat J.toM)) (unflat X.toM) := by
  ext ⟨a, o⟩ ⟨a', o'⟩
  simp [choiApplyB, applyB, blockB, choiMap_apply, EMat.sumFin_toC, QI.toC_mul]

theorem choiApplyA_toM (J : EMat (dA * dO) (dA * dO)) (X : EMat (dA * dB) (dA * dB)) :
    unflat (choiApplyA J X).toM = applyA (choiMap (unflat J.toM)) (unflat X.toM) := by
  ext ⟨o, b⟩ ⟨o', b'⟩
  simp [choiApplyA, applyA, blockA, choiMap_apply, EMat.sumFin_toC, QI.toC_mul]

end Bridge2

/-! ## Closed forms: the Ha–Kye Choi matrices of the cascade, the reduction criterion -/

section Ha
/-- the Choi matrix built by `is_separable` for the qutrit maps of Ha and Kye:
`diag(a+1, c, b, b, a+1, c, c, b, a+1) − |Ω⟩⟨Ω|`, `Ω = Σ_i |ii⟩` -/
def haChoi (a b c : ℝ) : Matrix (Fin 3 × Fin 3) (Fin 3 × Fin 3) ℂ := fun p q =>
  (if p = q then (if p.2 = p.1 then (a : ℂ) + 1 else if p.2 = p.1 + 1 then (c : ℂ) else (b : ℂ)) else 0)
    - (if p.1 = p.2 ∧ q.1 = q.2 then 1 else 0)

/-- the map with that Choi matrix is the generalised Choi map `Φ[a,b,c]`:
diagonal `a x_kk + b x_{k+1,k+1} + c x_{k+2,k+2}`, off-diagonal `−x_kl` -/
theorem choiMap_haChoi (a b c : ℝ) (X : Matrix (Fin 3) (Fin 3) ℂ) (k l : Fin 3) :
    choiMap (haChoi a b c) X k l
      = (if k = l then (a : ℂ) * X k k + b * X (k + 1) (k + 1) + c * X (k + 2) (k + 2) else 0)
        - (if k = l then 0 else X k l) := by
  rw [choiMap_apply]
  fin_cases k <;> fin_cases l <;>
    simp [haChoi, Fin.sum_univ_three, Prod.ext_iff] <;> ring

end Ha

section Red
variable {m n : Type*} [Fintype n] [DecidableEq n]

/-- `(id ⊗ R)(ρ) = ρ_A ⊗ 1 − ρ` for the reduction map `R` -/
theorem applyB_reductionL (X : Matrix (m × n) (m × n) ℂ) :
    applyB reductionL X = ptrB X ⊗ₖ (1 : Matrix n n ℂ) - X := by
  ext ⟨a, b⟩ ⟨a', b'⟩
  simp [applyB, blockB, ptrB, Matrix.trace, kroneckerMap_apply, Matrix.one_apply]

end Red

section Red2
variable {m n : Type*} [Fintype m] [DecidableEq m]

/-- `(R ⊗ id)(ρ) = 1 ⊗ ρ_B − ρ` -/
theorem applyA_reductionL (X : Matrix (m × n) (m × n) ℂ) :
    applyA reductionL X = (1 : Matrix m m ℂ) ⊗ₖ ptrA X - X := by
  ext ⟨a, b⟩ ⟨a', b'⟩
  simp [applyA, blockA, ptrA, Matrix.trace, kroneckerMap_apply, Matrix.one_apply]
end Red2

/-! ## The trace norm in dual form, and its value on any singular value decomposition -/

section Nuc
variable {ι κ r : Type*} [Fintype ι] [Fintype κ] [DecidableEq κ]

/-- the values `Re tr(Wᴴ M)` over all contractions `W` -/
def nucSet (M : Matrix ι κ ℂ) : Set ℝ := {x | ∃ W : Matrix ι κ ℂ, IsContr W ∧ (Wᴴ * M).trace.re = x}

/-- trace (nuclear) norm in dual form: `‖M‖₁ = sup { Re tr(Wᴴ M) : 1 − WᴴW ⪰ 0 }` -/
noncomputable def nucNorm (M : Matrix ι κ ℂ) : ℝ := sSup (nucSet M)

theorem nucSet_nonempty (M : Matrix ι κ ℂ) : (nucSet M).Nonempty :=
  ⟨0, 0, IsContr.zero, by simp⟩

/-- `‖M‖₁ ≤ c` as soon as every contraction pairs to at most `c` -/
theorem nucNorm_le {M : Matrix ι κ ℂ} {c : ℝ} (h : ∀ W : Matrix ι κ ℂ, IsContr W → (Wᴴ * M).trace.re ≤ c) :
    nucNorm M ≤ c :=
  csSup_le (nucSet_nonempty M) fun _ ⟨W, hW, hx⟩ => hx ▸ h W hW

theorem le_nucNorm {M : Matrix ι κ ℂ} {c : ℝ} (h : ∀ W : Matrix ι κ ℂ, IsContr W → (Wᴴ * M).trace.re ≤ c)
    {W : Matrix ι κ ℂ} (hW : IsContr W) : (Wᴴ * M).trace.re ≤ nucNorm M :=
  le_csSup ⟨c, fun _ ⟨W', hW', hx⟩ => hx ▸ h W' hW'⟩ ⟨W, hW, rfl⟩

variable [Fintype r] [DecidableEq r]

omit [DecidableEq κ] [Fintype κ] [Fintype r] in
theorem nsq_col_of_orthonormal (U : Matrix ι r ℂ) (hU : Uᴴ * U = 1) (i : r) : nsq (fun a => U a i) = 1 := by
  have h := congrFun (congrFun hU i) i
  rw [Matrix.mul_apply, Matrix.one_apply_eq] at h
  have h2 : ((nsq (fun a => U a i) : ℝ) : ℂ) = 1 := by
    rw [← h, ← star_dotProduct_self]
    simp [dotProduct, conjTranspose_apply]
  exact_mod_cast h2

omit [DecidableEq κ] [Fintype ι] [Fintype κ] in
theorem svd_as_sum (U : Matrix ι r ℂ) (V : Matrix κ r ℂ) (σ : r → ℝ) :
    U * diagonal (fun i => (σ i : ℂ)) * Vᴴ
      = ∑ i, (σ i : ℂ) • vecMulVec (fun a => U a i) (fun b => star (V b i)) := by
  ext a b
  simp only [Matrix.mul_apply, Matrix.diagonal_apply, Matrix.sum_apply, Matrix.smul_apply, vecMulVec_apply,
    conjTranspose_apply, smul_eq_mul, mul_ite, mul_zero, Finset.sum_ite_eq', Finset.mem_univ, if_true]
  refine Finset.sum_congr rfl fun i _ => ?_
  ring

/-- every contraction pairs with `U diag(σ) Vᴴ` (`σ ≥ 0`, orthonormal columns) to at most `Σ σ_i` -/
theorem re_trace_svd_le (U : Matrix ι r ℂ) (V : Matrix κ r ℂ) (σ : r → ℝ) (hU : Uᴴ * U = 1)
    (hV : Vᴴ * V = 1) (hσ : ∀ i, 0 ≤ σ i) {W : Matrix ι κ ℂ} (hW : IsContr W) :
    (Wᴴ * (U * diagonal (fun i => (σ i : ℂ)) * Vᴴ)).trace.re ≤ ∑ i, σ i := by
  rw [svd_as_sum, Matrix.mul_sum, Matrix.trace_sum, Complex.re_sum]
  refine Finset.sum_le_sum fun i _ => ?_
  rw [Matrix.mul_smul, Matrix.trace_smul, smul_eq_mul, Complex.re_ofReal_mul]
  have h1 := hW.re_trace_vecMulVec_sq_le (fun a => U a i) (fun b => star (V b i))
  have e : nsq (fun b => star (V b i)) = nsq (fun b => V b i) := nsq_star (fun b => V b i)
  rw [e, nsq_col_of_orthonormal U hU, nsq_col_of_orthonormal V hV, mul_one] at h1
  have h2 : (Wᴴ * vecMulVec (fun a => U a i) fun b => star (V b i)).trace.re ≤ 1 := by
    have := abs_le_of_sq_le_sq (b := (1 : ℝ)) (by simpa using h1) zero_le_one
    exact (le_abs_self _).trans this
  calc σ i * _ ≤ σ i * 1 := mul_le_mul_of_nonneg_left h2 (hσ i)
    _ = σ i := mul_one _

/-- **the dual form is the sum of the singular values**: for every singular value decomposition
`M = U diag(σ) Vᴴ` (`UᴴU = 1`, `VᴴV = 1`, `σ ≥ 0`), `‖M‖₁ = Σ_i σ_i` -/
theorem nucNorm_eq_sum_of_svd (U : Matrix ι r ℂ) (V : Matrix κ r ℂ) (σ : r → ℝ) (hU : Uᴴ * U = 1)
    (hV : Vᴴ * V = 1) (hσ : ∀ i, 0 ≤ σ i) :
    nucNorm (U * diagonal (fun i => (σ i : ℂ)) * Vᴴ) = ∑ i, σ i := by
  refine le_antisymm (nucNorm_le fun W hW => re_trace_svd_le U V σ hU hV hσ hW) ?_
  have h := le_nucNorm (fun W hW => re_trace_svd_le U V σ hU hV hσ hW)
    (isContr_mul_conjTranspose U V hU hV)
  rwa [trace_polar_mul_svd U V σ hU hV, Complex.ofReal_re] at h

end Nuc

end Toq.Sep
