import Toq.Model.Sep
import Toq.Proofs.Cert
import Mathlib.LinearAlgebra.Matrix.Kronecker
/-!
# Helper lemmas for C15 (PPT and separability verdicts)

* `ptBM`, `ptAM`, `swapM`, `IsSepMix`: the mathematical vocabulary on matrices indexed by pairs
  `(a, b)`; Peres' criterion, closure of the separable mixtures under local maps and exchange;
* `unflat`: the bridge from the flat index `a * dB + b` of the executable model to the pair index;
* soundness of the smallest-eigenvalue certificates;
* algebra of the Gurvits–Barnum ball test over `ℚ`.
-/

open Matrix
open scoped ComplexOrder MatrixOrder Kronecker

namespace Toq.Sep

/-! ## Vocabulary on pair-indexed matrices -/

section Spec
variable {m n : Type*}

/-- partial transpose of the second party: `(T_B X)((a,b),(a',b')) = X((a,b'),(a',b))` -/
def ptBM (X : Matrix (m × n) (m × n) ℂ) : Matrix (m × n) (m × n) ℂ :=
  fun i j => X (i.1, j.2) (j.1, i.2)

/-- partial transpose of the first party: `(T_A X)((a,b),(a',b')) = X((a',b),(a,b'))` -/
def ptAM (X : Matrix (m × n) (m × n) ℂ) : Matrix (m × n) (m × n) ℂ :=
  fun i j => X (j.1, i.2) (i.1, j.2)

/-- exchange of the parties: `(swap X)((b,a),(b',a')) = X((a,b),(a',b'))` -/
def swapM (X : Matrix (m × n) (m × n) ℂ) : Matrix (n × m) (n × m) ℂ :=
  fun i j => X (i.2, i.1) (j.2, j.1)

/-- `a aᴴ` -/
def proj {ι : Type*} (a : ι → ℂ) : Matrix ι ι ℂ := vecMulVec a (star a)

/-- `ρ` is a finite mixture `Σ_k w_k (a_k a_kᴴ) ⊗ (b_k b_kᴴ)` with non-negative weights
(vectors need not be normalised, weights need not sum to one: the cone of separable operators) -/
def IsSepMix (ρ : Matrix (m × n) (m × n) ℂ) : Prop :=
  ∃ (K : ℕ) (w : Fin K → ℝ) (a : Fin K → m → ℂ) (b : Fin K → n → ℂ),
    (∀ k, 0 ≤ w k) ∧ ρ = ∑ k, (w k : ℂ) • (proj (a k) ⊗ₖ proj (b k))

theorem ptAM_eq_transpose (X : Matrix (m × n) (m × n) ℂ) : ptAM X = (ptBM X)ᵀ := rfl

theorem ptBM_kron (A : Matrix m m ℂ) (B : Matrix n n ℂ) : ptBM (A ⊗ₖ B) = A ⊗ₖ Bᵀ := by
  ext ⟨a, b⟩ ⟨a', b'⟩
  simp [ptBM, kroneckerMap_apply]

theorem ptBM_smul (c : ℂ) (X : Matrix (m × n) (m × n) ℂ) : ptBM (c • X) = c • ptBM X := by
  ext i j; simp [ptBM]

theorem ptBM_sum {K : Type*} (s : Finset K) (f : K → Matrix (m × n) (m × n) ℂ) :
    ptBM (∑ k ∈ s, f k) = ∑ k ∈ s, ptBM (f k) := by
  ext i j; simp [ptBM, Matrix.sum_apply]

theorem ptBM_involutive (X : Matrix (m × n) (m × n) ℂ) : ptBM (ptBM X) = X := rfl

theorem swapM_kron (A : Matrix m m ℂ) (B : Matrix n n ℂ) : swapM (A ⊗ₖ B) = B ⊗ₖ A := by
  ext ⟨b, a⟩ ⟨b', a'⟩
  simp [swapM, kroneckerMap_apply, mul_comm]

theorem swapM_smul (c : ℂ) (X : Matrix (m × n) (m × n) ℂ) : swapM (c • X) = c • swapM X := by
  ext i j; simp [swapM]

theorem swapM_sum {K : Type*} (s : Finset K) (f : K → Matrix (m × n) (m × n) ℂ) :
    swapM (∑ k ∈ s, f k) = ∑ k ∈ s, swapM (f k) := by
  ext i j; simp [swapM, Matrix.sum_apply]

theorem transpose_proj {ι : Type*} (a : ι → ℂ) : (proj a)ᵀ = proj (star a) := by
  ext i j
  simp [proj, vecMulVec_apply, mul_comm]

variable [Finite m] [Finite n]

theorem proj_posSemidef {ι : Type*} [Finite ι] (a : ι → ℂ) : (proj a).PosSemidef :=
  posSemidef_vecMulVec_self_star a

/-- a weighted sum of Kronecker products of PSD matrices with non-negative weights is PSD -/
theorem posSemidef_sum_smul_kron {K : ℕ} (w : Fin K → ℝ) (A : Fin K → Matrix m m ℂ)
    (B : Fin K → Matrix n n ℂ) (hw : ∀ k, 0 ≤ w k) (hA : ∀ k, (A k).PosSemidef)
    (hB : ∀ k, (B k).PosSemidef) : (∑ k, (w k : ℂ) • (A k ⊗ₖ B k)).PosSemidef := by
  refine posSemidef_sum _ fun k _ => ?_
  have h := ((hA k).kronecker (hB k)).smul (hw k)
  have e : (w k : ℂ) • (A k ⊗ₖ B k) = w k • (A k ⊗ₖ B k) := by
    ext i j; simp
  rw [e]; exact h

/-- partial transpose (second party) of a mixture of products of PSD matrices is PSD -/
theorem ptBM_posSemidef_of_products {K : ℕ} (w : Fin K → ℝ) (A : Fin K → Matrix m m ℂ)
    (B : Fin K → Matrix n n ℂ) (hw : ∀ k, 0 ≤ w k) (hA : ∀ k, (A k).PosSemidef)
    (hB : ∀ k, (B k).PosSemidef) : (ptBM (∑ k, (w k : ℂ) • (A k ⊗ₖ B k))).PosSemidef := by
  rw [ptBM_sum]
  simp only [ptBM_smul, ptBM_kron]
  exact posSemidef_sum_smul_kron w A (fun k => (B k)ᵀ) hw hA fun k => (hB k).transpose

theorem IsSepMix.posSemidef {ρ : Matrix (m × n) (m × n) ℂ} (h : IsSepMix ρ) : ρ.PosSemidef := by
  obtain ⟨K, w, a, b, hw, rfl⟩ := h
  exact posSemidef_sum_smul_kron w _ _ hw (fun k => proj_posSemidef _) fun k => proj_posSemidef _

theorem IsSepMix.ptBM_posSemidef {ρ : Matrix (m × n) (m × n) ℂ} (h : IsSepMix ρ) :
    (ptBM ρ).PosSemidef := by
  obtain ⟨K, w, a, b, hw, rfl⟩ := h
  exact ptBM_posSemidef_of_products w _ _ hw (fun k => proj_posSemidef _) fun k => proj_posSemidef _

theorem IsSepMix.ptAM_posSemidef {ρ : Matrix (m × n) (m × n) ℂ} (h : IsSepMix ρ) :
    (ptAM ρ).PosSemidef := by
  rw [ptAM_eq_transpose]; exact h.ptBM_posSemidef.transpose

omit [Finite m] [Finite n] in
theorem IsSepMix.swap {ρ : Matrix (m × n) (m × n) ℂ} (h : IsSepMix ρ) : IsSepMix (swapM ρ) := by
  obtain ⟨K, w, a, b, hw, rfl⟩ := h
  refine ⟨K, w, b, a, hw, ?_⟩
  rw [swapM_sum]
  simp only [swapM_smul, swapM_kron]

end Spec

section Local
variable {m n : Type*} [Fintype m] [Fintype n]

theorem conj_proj (U : Matrix m m ℂ) (a : m → ℂ) : U * proj a * Uᴴ = proj (U *ᵥ a) := by
  unfold proj
  rw [mul_vecMulVec, vecMulVec_mul, star_mulVec]

theorem IsSepMix.localConj {ρ : Matrix (m × n) (m × n) ℂ} (h : IsSepMix ρ) (U : Matrix m m ℂ)
    (V : Matrix n n ℂ) : IsSepMix ((U ⊗ₖ V) * ρ * (U ⊗ₖ V)ᴴ) := by
  obtain ⟨K, w, a, b, hw, rfl⟩ := h
  refine ⟨K, w, fun k => U *ᵥ a k, fun k => V *ᵥ b k, hw, ?_⟩
  rw [Matrix.mul_sum, Matrix.sum_mul]
  refine Finset.sum_congr rfl fun k _ => ?_
  rw [Matrix.mul_smul, Matrix.smul_mul, conjTranspose_kronecker, ← mul_kronecker_mul,
    ← mul_kronecker_mul, conj_proj, conj_proj]

end Local

/-! ## Bridge: flat index `a * dB + b` ↔ pair index `(a, b)` -/

section Bridge
variable {dA dB : Nat}

@[simp] theorem fstI_pair (a : Fin dA) (b : Fin dB) : fstI (pair a b) = a := by
  apply Fin.ext
  simp only [fstI, pair]
  rw [Nat.add_comm, Nat.add_mul_div_right _ _ (by have := b.isLt; omega), Nat.div_eq_of_lt b.isLt,
    Nat.zero_add]

@[simp] theorem sndI_pair (a : Fin dA) (b : Fin dB) : sndI (pair a b) = b := by
  apply Fin.ext
  simp only [sndI, pair]
  rw [Nat.add_comm, Nat.add_mul_mod_self_right, Nat.mod_eq_of_lt b.isLt]

@[simp] theorem pair_fst_snd (i : Fin (dA * dB)) : pair (fstI i) (sndI i) = i := by
  apply Fin.ext
  simp only [fstI, sndI, pair]
  exact Nat.div_add_mod' _ _

/-- the bijection `(a, b) ↦ a * dB + b` -/
def pairEquiv (dA dB : Nat) : Fin dA × Fin dB ≃ Fin (dA * dB) where
  toFun p := pair p.1 p.2
  invFun i := (fstI i, sndI i)
  left_inv p := by simp
  right_inv i := by simp

@[simp] theorem pairEquiv_apply (a : Fin dA) (b : Fin dB) : pairEquiv dA dB (a, b) = pair a b := rfl

/-- read a matrix on the flat index as a matrix on pairs -/
def unflat (M : Matrix (Fin (dA * dB)) (Fin (dA * dB)) ℂ) :
    Matrix (Fin dA × Fin dB) (Fin dA × Fin dB) ℂ :=
  M.submatrix (pairEquiv dA dB) (pairEquiv dA dB)

@[simp] theorem unflat_apply (M : Matrix (Fin (dA * dB)) (Fin (dA * dB)) ℂ) (a a' : Fin dA)
    (b b' : Fin dB) : unflat M (a, b) (a', b') = M (pair a b) (pair a' b') := rfl

theorem unflat_posSemidef_iff (M : Matrix (Fin (dA * dB)) (Fin (dA * dB)) ℂ) :
    (unflat M).PosSemidef ↔ M.PosSemidef :=
  posSemidef_submatrix_equiv (pairEquiv dA dB)

theorem unflat_mul (M N : Matrix (Fin (dA * dB)) (Fin (dA * dB)) ℂ) :
    unflat (M * N) = unflat M * unflat N :=
  (Matrix.submatrix_mul_equiv M N _ (pairEquiv dA dB) _).symm

theorem unflat_conjTranspose (M : Matrix (Fin (dA * dB)) (Fin (dA * dB)) ℂ) :
    unflat Mᴴ = (unflat M)ᴴ := rfl

theorem unflat_add (M N : Matrix (Fin (dA * dB)) (Fin (dA * dB)) ℂ) :
    unflat (M + N) = unflat M + unflat N := rfl

theorem unflat_smul (c : ℂ) (M : Matrix (Fin (dA * dB)) (Fin (dA * dB)) ℂ) :
    unflat (c • M) = c • unflat M := rfl

theorem unflat_ptB (X : EMat (dA * dB) (dA * dB)) : unflat (ptB X).toM = ptBM (unflat X.toM) := by
  ext ⟨a, b⟩ ⟨a', b'⟩
  simp [ptB, ptBM]

theorem unflat_ptA (X : EMat (dA * dB) (dA * dB)) : unflat (ptA X).toM = ptAM (unflat X.toM) := by
  ext ⟨a, b⟩ ⟨a', b'⟩
  simp [ptA, ptAM]

theorem unflat_swapAB (X : EMat (dA * dB) (dA * dB)) :
    unflat (swapAB X).toM = swapM (unflat X.toM) := by
  ext ⟨b, a⟩ ⟨b', a'⟩
  simp [swapAB, swapM]

theorem unflat_kron (U : EMat dA dA) (V : EMat dB dB) : unflat (kron U V).toM = U.toM ⊗ₖ V.toM := by
  ext ⟨a, b⟩ ⟨a', b'⟩
  simp [kron, kroneckerMap_apply, QI.toC_mul]

theorem unflat_localConj (U : EMat dA dA) (V : EMat dB dB) (X : EMat (dA * dB) (dA * dB)) :
    unflat (localConj U V X).toM = (U.toM ⊗ₖ V.toM) * unflat X.toM * (U.toM ⊗ₖ V.toM)ᴴ := by
  simp only [localConj, EMat.toM_mul, EMat.toM_ct, unflat_mul, unflat_conjTranspose, unflat_kron]

/-- the column of an exact `n × 1` matrix as a complex vector -/
def colV {n : Nat} (v : EMat n 1) : Fin n → ℂ := fun i => (v.get i 0).toC

theorem outer_toM {n : Nat} (v : EMat n 1) : (outer v).toM = proj (colV v) := by
  ext i j
  simp [outer, proj, colV, vecMulVec_apply, EMat.sumFin_toC, QI.toC_mul, QI.toC_conj]

theorem isSepMix_zero : IsSepMix (0 : Matrix (Fin dA × Fin dB) (Fin dA × Fin dB) ℂ) :=
  ⟨0, fun _ => 0, fun _ _ => 0, fun _ _ => 0, fun k => k.elim0, by simp⟩

theorem IsSepMix.add_term {ρ : Matrix (Fin dA × Fin dB) (Fin dA × Fin dB) ℂ} (h : IsSepMix ρ)
    (w : ℝ) (hw : 0 ≤ w) (a : Fin dA → ℂ) (b : Fin dB → ℂ) :
    IsSepMix ((w : ℂ) • (proj a ⊗ₖ proj b) + ρ) := by
  obtain ⟨K, ws, as, bs, hws, rfl⟩ := h
  refine ⟨K + 1, Fin.cons w ws, Fin.cons a as, Fin.cons b bs, ?_, ?_⟩
  · intro k; refine Fin.cases ?_ (fun i => ?_) k
    · simpa using hw
    · simpa using hws i
  · rw [Fin.sum_univ_succ]; simp

/-- the exact mixture built by `sepMix` from non-negative weights is a separable mixture -/
theorem sepMix_isSepMix : ∀ (ws : List Rat) (as : List (EMat dA 1)) (bs : List (EMat dB 1)),
    (∀ w ∈ ws, 0 ≤ w) → IsSepMix (unflat (sepMix ws as bs).toM)
  | [], _, _, _ => by simpa [sepMix, EMat.toM_zero, unflat] using isSepMix_zero
  | _ :: _, [], _, _ => by simpa [sepMix, EMat.toM_zero, unflat] using isSepMix_zero
  | _ :: _, _ :: _, [], _ => by simpa [sepMix, EMat.toM_zero, unflat] using isSepMix_zero
  | w :: ws, a :: as, b :: bs, h => by
    have ih := sepMix_isSepMix ws as bs fun x hx => h x (List.mem_cons_of_mem _ hx)
    have hw : (0 : ℝ) ≤ (w : ℝ) := by exact_mod_cast h w List.mem_cons_self
    have := ih.add_term (w : ℝ) hw (colV a) (colV b)
    simpa [sepMix, EMat.toM_add, EMat.toM_smul, unflat_add, unflat_smul, unflat_kron, outer_toM]
      using this

end Bridge

/-! ## Smallest-eigenvalue certificates -/

section LamMin
variable {n k : Nat}

theorem toM_scalar_sub (A : EMat n n) (c : Rat) :
    (A - EMat.scalar c).toM = A.toM - (((c : ℝ) : ℂ)) • (1 : Matrix (Fin n) (Fin n) ℂ) := by
  rw [EMat.toM_sub, EMat.toM_scalar]

theorem checkLamMinLower_eq {A : EMat n n} {c : Rat} {L : EMat n k} {lo : Rat}
    (h : checkLamMinLower A c L = some lo) : lo = c ∧ EMat.psdCert (A - EMat.scalar c) L = true := by
  unfold checkLamMinLower at h
  split at h
  · next hc => exact ⟨(Option.some.inj h).symm, hc⟩
  · exact absurd h (by simp)

theorem checkLamMinLower_psd {A : EMat n n} {c : Rat} {L : EMat n k} {lo : Rat}
    (h : checkLamMinLower A c L = some lo) :
    (A.toM - (((lo : ℝ) : ℂ)) • (1 : Matrix (Fin n) (Fin n) ℂ)).PosSemidef := by
  obtain ⟨rfl, hc⟩ := checkLamMinLower_eq h
  rw [← toM_scalar_sub]
  exact psdCert_sound _ _ hc

/-- `Re (xᴴ x) = Σ |x_i|²` as the cast of the exact norm -/
theorem normSqV_cast (v : EMat n 1) : ((normSqV v : Rat) : ℝ) = (star (colV v) ⬝ᵥ colV v).re := by
  have : ((normSqV v : Rat) : ℝ) = ((v.ct.mul v).toM 0 0).re := rfl
  rw [this, EMat.toM_mul, EMat.toM_ct, Matrix.mul_apply]
  simp [dotProduct, colV, Matrix.conjTranspose_apply]

theorem quadForm_cast (A : EMat n n) (v : EMat n 1) :
    ((quadForm A v : Rat) : ℝ) = (star (colV v) ⬝ᵥ (A.toM *ᵥ colV v)).re := by
  have : ((quadForm A v : Rat) : ℝ) = ((v.ct.mul (A.mul v)).toM 0 0).re := rfl
  rw [this, EMat.toM_mul, EMat.toM_mul, EMat.toM_ct, Matrix.mul_apply]
  simp [dotProduct, colV, Matrix.conjTranspose_apply, Matrix.mulVec, Matrix.mul_apply]

theorem checkLamMinUpper_eq {A : EMat n n} {v : EMat n 1} {hi : Rat}
    (h : checkLamMinUpper A v = some hi) : 0 < normSqV v ∧ hi = quadForm A v / normSqV v := by
  unfold checkLamMinUpper at h
  split at h
  · next hc => exact ⟨hc, (Option.some.inj h).symm⟩
  · exact absurd h (by simp)

/-- the Rayleigh quotient of any non-zero vector bounds from above every `c` with `A − c·1 ⪰ 0` -/
theorem checkLamMinUpper_bound {A : EMat n n} {v : EMat n 1} {hi : Rat}
    (h : checkLamMinUpper A v = some hi) (c : ℝ)
    (hc : (A.toM - (c : ℂ) • (1 : Matrix (Fin n) (Fin n) ℂ)).PosSemidef) : c ≤ (hi : ℝ) := by
  obtain ⟨hpos, rfl⟩ := checkLamMinUpper_eq h
  have h1 := hc.dotProduct_mulVec_nonneg (colV v)
  rw [Matrix.sub_mulVec, dotProduct_sub, Matrix.smul_mulVec, Matrix.one_mulVec, dotProduct_smul,
    smul_eq_mul] at h1
  have h2 := (Complex.nonneg_iff.mp h1).1
  rw [Complex.sub_re, Complex.re_ofReal_mul, ← quadForm_cast, ← normSqV_cast] at h2
  have hN : (0 : ℝ) < ((normSqV v : Rat) : ℝ) := by exact_mod_cast hpos
  rw [Rat.cast_div, le_div_iff₀ hN]
  linarith

theorem lamMinVerdict_true {A : EMat n n} {tol c : Rat} {L : EMat n k} {v : EMat n 1}
    (h : lamMinVerdict A tol c L v = some true) :
    ∃ lo, checkLamMinLower A c L = some lo ∧ -tol ≤ lo := by
  unfold lamMinVerdict at h
  split at h
  · next lo hlo =>
    split at h
    · next hle => exact ⟨lo, hlo, hle⟩
    · split at h
      · split at h <;> simp at h
      · simp at h
  · split at h
    · split at h <;> simp at h
    · simp at h

theorem lamMinVerdict_false {A : EMat n n} {tol c : Rat} {L : EMat n k} {v : EMat n 1}
    (h : lamMinVerdict A tol c L v = some false) :
    ∃ hi, checkLamMinUpper A v = some hi ∧ hi < -tol := by
  unfold lamMinVerdict at h
  split at h
  · split at h
    · simp at h
    · split at h
      · next hi hhi =>
        split at h
        · next hlt => exact ⟨hi, hhi, hlt⟩
        · simp at h
      · simp at h
  · split at h
    · next hi hhi =>
      split at h
      · next hlt => exact ⟨hi, hhi, hlt⟩
      · simp at h
    · simp at h

end LamMin

/-! ## The Gurvits–Barnum ball: algebra -/

section Ball
variable {n : Nat}

/-- squared Frobenius norm `Σ_ij |x_ij|²` of a complex matrix -/
noncomputable def frobSq {ι κ : Type*} [Fintype ι] [Fintype κ] (X : Matrix ι κ ℂ) : ℝ :=
  ∑ i, ∑ j, Complex.normSq (X i j)

theorem frobSq_nonneg {ι κ : Type*} [Fintype ι] [Fintype κ] (X : Matrix ι κ ℂ) : 0 ≤ frobSq X :=
  Finset.sum_nonneg fun _ _ => Finset.sum_nonneg fun _ _ => Complex.normSq_nonneg _

theorem frob2_cast {r c : Nat} (M : EMat r c) : ((frob2 M : Rat) : ℝ) = frobSq M.toM := by
  unfold frob2 frobSq
  rw [EMat.sumFinQ_cast]
  refine Finset.sum_congr rfl fun i _ => ?_
  rw [EMat.sumFinQ_cast]
  refine Finset.sum_congr rfl fun j _ => ?_
  simp [Complex.normSq_apply]

theorem trRe_cast (M : EMat n n) : ((trRe M : Rat) : ℝ) = (Matrix.trace M.toM).re := EMat.re_trace M

/-- `‖q X − r 1‖_F² = q² ‖X‖_F² − 2 q r Re tr X + n r²` -/
theorem frobSq_affine (q r : ℝ) (X : Matrix (Fin n) (Fin n) ℂ) :
    frobSq ((q : ℂ) • X - (r : ℂ) • (1 : Matrix (Fin n) (Fin n) ℂ))
      = q ^ 2 * frobSq X - 2 * q * r * (Matrix.trace X).re + n * r ^ 2 := by
  unfold frobSq
  have h : ∀ i j, Complex.normSq (((q : ℂ) • X - (r : ℂ) • (1 : Matrix (Fin n) (Fin n) ℂ)) i j)
      = q ^ 2 * Complex.normSq (X i j) - 2 * q * r * (if i = j then (X i j).re else 0)
        + (if i = j then r ^ 2 else 0) := by
    intro i j
    by_cases hij : i = j
    · subst hij
      simp [Complex.normSq_apply]
      ring
    · simp [hij, Complex.normSq_apply]
      ring
  simp_rw [h]
  simp only [Finset.sum_add_distrib, Finset.sum_sub_distrib, ← Finset.mul_sum, Finset.sum_ite_eq,
    Finset.mem_univ, if_true, Matrix.trace, Matrix.diag_apply, Complex.re_sum, Finset.sum_const,
    Finset.card_univ, Fintype.card_fin, nsmul_eq_mul]

theorem frobSq_smul (q : ℝ) (X : Matrix (Fin n) (Fin n) ℂ) :
    frobSq ((q : ℂ) • X) = q ^ 2 * frobSq X := by
  have := frobSq_affine q 0 X
  simpa using this

theorem frobSq_pos_of_trace {X : Matrix (Fin n) (Fin n) ℂ} (h : 0 < (Matrix.trace X).re) :
    0 < frobSq X := by
  rcases (frobSq_nonneg X).lt_or_eq with h0 | h0
  · exact h0
  · exfalso
    have hz : ∀ i, X i i = 0 := by
      intro i
      have h1 := (Finset.sum_eq_zero_iff_of_nonneg
        (fun i _ => Finset.sum_nonneg fun j _ => Complex.normSq_nonneg (X i j))).mp h0.symm i
        (Finset.mem_univ i)
      have h2 := (Finset.sum_eq_zero_iff_of_nonneg
        (fun j _ => Complex.normSq_nonneg (X i j))).mp h1 i (Finset.mem_univ i)
      exact Complex.normSq_eq_zero.mp h2
    have : Matrix.trace X = 0 := by simp [Matrix.trace, hz]
    rw [this] at h
    simp at h

/-- the comparison made by `in_separable_ball` after its two normalisations -/
theorem mirror_alg (X : Matrix (Fin n) (Fin n) ℂ) (ht : 0 < (Matrix.trace X).re) :
    let t := (Matrix.trace X).re
    let ρ := ((1 / t : ℝ) : ℂ) • X
    let s := frobSq ρ
    frobSq (((1 / s : ℝ) : ℂ) • ρ - ((1 : ℝ) : ℂ) • (1 : Matrix (Fin n) (Fin n) ℂ)) ≤ 1
      ↔ ((n : ℝ) - 1) * frobSq X ≤ t * t := by
  intro t ρ s
  have hF := frobSq_pos_of_trace ht
  have hs : s = frobSq X / (t * t) := by
    simp only [s, ρ, frobSq_smul]; field_simp
  have hs0 : 0 < s := by rw [hs]; positivity
  have ht0 : t ≠ 0 := ne_of_gt ht
  have htr : (Matrix.trace ρ).re = 1 := by
    simp only [ρ, Matrix.trace_smul, smul_eq_mul, Complex.re_ofReal_mul]
    exact one_div_mul_cancel ht0
  rw [frobSq_affine, htr]
  have e : (1 / s) ^ 2 * s - 2 * (1 / s) * 1 * 1 + n * 1 ^ 2 = n - 1 / s := by
    field_simp; ring
  rw [e, hs]
  rw [one_div_div, sub_le_comm, le_div_iff₀ hF]

/-- the ball inequality `‖X/t − 1/n‖_F² ≤ 1/(n(n−1))` as a polynomial inequality -/
theorem ball_alg (X : Matrix (Fin n) (Fin n) ℂ) (ht : 0 < (Matrix.trace X).re) (hn : 2 ≤ n) :
    let t := (Matrix.trace X).re
    frobSq (((1 / t : ℝ) : ℂ) • X - ((1 / (n : ℝ) : ℝ) : ℂ) • (1 : Matrix (Fin n) (Fin n) ℂ))
        ≤ 1 / ((n : ℝ) * ((n : ℝ) - 1))
      ↔ ((n : ℝ) - 1) * frobSq X ≤ t * t := by
  intro t
  have hn' : (2 : ℝ) ≤ (n : ℝ) := by exact_mod_cast hn
  have hn0 : (0 : ℝ) < n := by linarith
  have hn1 : (0 : ℝ) < (n : ℝ) - 1 := by linarith
  have ht0 : t ≠ 0 := ne_of_gt ht
  rw [frobSq_affine]
  have e : (1 / t) ^ 2 * frobSq X - 2 * (1 / t) * (1 / (n : ℝ)) * (Matrix.trace X).re
        + n * (1 / (n : ℝ)) ^ 2 = frobSq X / (t * t) - 1 / n := by
    change (1 / t) ^ 2 * frobSq X - 2 * (1 / t) * (1 / (n : ℝ)) * t + n * (1 / (n : ℝ)) ^ 2 = _
    field_simp; ring
  rw [e]
  have htt : 0 < t * t := by positivity
  have e2 : (1 : ℝ) / (n * (n - 1)) + 1 / n = 1 / (n - 1) := by
    field_simp; ring
  rw [sub_le_iff_le_add, e2, div_le_div_iff₀ htt hn1]
  constructor <;> intro h <;> nlinarith

end Ball

end Toq.Sep
