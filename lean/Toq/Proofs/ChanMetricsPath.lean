import Toq.Model.ChanMetricsPath
import Toq.Proofs.ChanMetricsBounds
import Toq.Proofs.ChanMetricsUnitary
/-!
# Refinement lemmas for the code paths of the channel distance functions (C20)

* `roundSqrt (d·d) = d` (the subsystem dimension inferred from the size of the Choi matrix);
* `dualChoi`: the Choi matrix of the adjoint map (`dual_channel`), its executable mirror `dualChoiE` denotes it; it keeps
  positivity and exchanges the two partial traces;
* the `1 × 1` matrix computed by the CP shortcut AS CODED is `conj(tr J)`;
* the verdicts `yes` of the mirrored predicates (`Toq.ChannelProps.psdV`, `tpV`) are sound for the denotation `toP`.
-/

open Matrix Kronecker
open scoped ComplexOrder MatrixOrder

set_option linter.unusedSectionVars false

namespace Toq.ChanMetrics

/-! ## `round(sqrt(n))` -/

theorem roundSqrt_sq (d : Nat) : roundSqrt (d * d) = d := by
  unfold roundSqrt
  simp only [Nat.sqrt_eq, Nat.sub_self, Nat.zero_le, if_true]

/-- `roundSqrt n` is the integer nearest to `√n`: `(2r − 1)² < 4n < (2r + 1)²` in the form without subtraction -/
theorem roundSqrt_spec (n : Nat) :
    4 * n < (2 * roundSqrt n + 1) ^ 2 ∧ (roundSqrt n = 0 ∨ (2 * roundSqrt n) ^ 2 + 1 ≤ 4 * n + 4 * roundSqrt n) := by
  unfold roundSqrt
  have h1 := Nat.sqrt_le' n
  have h2 := Nat.lt_succ_sqrt' n
  simp only [Nat.succ_eq_add_one] at h2
  set r := Nat.sqrt n with hr
  by_cases h : n - r * r ≤ r
  · simp only [h, if_true]
    constructor
    · have : n ≤ r * r + r := by omega
      nlinarith
    · rcases Nat.eq_zero_or_pos r with h0 | hpos
      · left; exact h0
      · right; nlinarith
  · simp only [h, if_false]
    constructor
    · nlinarith
    · right
      have : r * r + r + 1 ≤ n := by omega
      nlinarith

/-! ## The adjoint map on Choi matrices -/

section Dual
variable {ι κ : Type*} [Fintype ι] [DecidableEq ι] [Fintype κ] [DecidableEq κ]

/-- Choi matrix (on `Y ⊗ X`) of the adjoint map: `J*((y,x),(y',x')) = conj J((x,y),(x',y'))` -/
def dualChoi (J : Matrix (ι × κ) (ι × κ) ℂ) : Matrix (κ × ι) (κ × ι) ℂ :=
  fun p q => star (J (p.2, p.1) (q.2, q.1))

/-- partial trace over the first factor: `(Tr_X A)_{yz} = Σ_x A_{(x,y),(x,z)}` (`= Φ(1)` for a Choi matrix) -/
def ptr1 (A : Matrix (ι × κ) (ι × κ) ℂ) : Matrix κ κ ℂ := fun y z => ∑ x, A (x, y) (x, z)

theorem dualChoi_dualChoi (J : Matrix (ι × κ) (ι × κ) ℂ) : dualChoi (dualChoi J) = J := by
  ext ⟨a, y⟩ ⟨b, z⟩; simp [dualChoi]

theorem dualChoi_sub (J K : Matrix (ι × κ) (ι × κ) ℂ) : dualChoi (J - K) = dualChoi J - dualChoi K := by
  ext p q; simp [dualChoi]

theorem dualChoi_eq (J : Matrix (ι × κ) (ι × κ) ℂ) :
    dualChoi J = (J.submatrix Prod.swap Prod.swap).map star := by
  ext p q; rfl

/-- the adjoint of a completely positive map is completely positive -/
theorem dualChoi_posSemidef {J : Matrix (ι × κ) (ι × κ) ℂ} (hJ : J.PosSemidef) : (dualChoi J).PosSemidef := by
  have h := (hJ.submatrix (Prod.swap : κ × ι → ι × κ)).transpose
  have e : dualChoi J = (J.submatrix Prod.swap Prod.swap)ᵀ := by
    ext p q
    have := congrFun (congrFun hJ.isHermitian.eq (q.2, q.1)) (p.2, p.1)
    simp only [Matrix.conjTranspose_apply] at this
    simp only [dualChoi, Matrix.transpose_apply, Matrix.submatrix_apply, Prod.swap]
    exact this
  rw [e]; exact h

theorem dualChoi_isHermitian {J : Matrix (ι × κ) (ι × κ) ℂ} (hJ : J.IsHermitian) : (dualChoi J).IsHermitian := by
  ext p q
  have := congrFun (congrFun hJ.eq (p.2, p.1)) (q.2, q.1)
  simp only [Matrix.conjTranspose_apply] at this
  simp only [Matrix.conjTranspose_apply, dualChoi, star_star]
  rw [← this, star_star]

/-- `Tr_X` of the adjoint's Choi matrix (its second factor is `X`) is the entrywise conjugate of `Tr_Y J = Φ*(1)`;
and its `Tr_Y`-type trace `ptr2` is the conjugate of `Tr_X J = Φ(1)` -/
theorem ptr2_dualChoi (J : Matrix (ι × κ) (ι × κ) ℂ) : ptr2 (dualChoi J) = (ptr1 J).map star := by
  ext y z
  simp [ptr2, ptr1, dualChoi]

theorem trace_dualChoi (J : Matrix (ι × κ) (ι × κ) ℂ) : (dualChoi J).trace = star J.trace := by
  simp only [Matrix.trace, Matrix.diag_apply, dualChoi, Fintype.sum_prod_type, star_sum]
  exact Finset.sum_comm

theorem ptr1_posSemidef {A : Matrix (ι × κ) (ι × κ) ℂ} (hA : A.PosSemidef) : (ptr1 A).PosSemidef := by
  have e : ptr1 A = ∑ x : ι, A.submatrix (fun y : κ => (x, y)) (fun y : κ => (x, y)) := by
    ext y z
    simp [ptr1, Matrix.sum_apply]
  rw [e]
  exact Matrix.posSemidef_sum _ fun x _ => hA.submatrix _

/-- for Hermitian `J`: `ptr2 (dualChoi J) = (Tr_X J)ᵀ` -/
theorem ptr2_dualChoi_of_herm {J : Matrix (ι × κ) (ι × κ) ℂ} (hJ : J.IsHermitian) :
    ptr2 (dualChoi J) = (ptr1 J)ᵀ := by
  rw [ptr2_dualChoi]
  ext y z
  have : ∀ x, star (J (x, y) (x, z)) = J (x, z) (x, y) := fun x => by
    have := congrFun (congrFun hJ.eq (x, z)) (x, y)
    simpa [Matrix.conjTranspose_apply] using this
  simp only [Matrix.map_apply, ptr1, Matrix.transpose_apply, star_sum]
  exact Finset.sum_congr rfl fun x _ => this x

/-- `Tr_X` of the Choi matrix of `X ↦ K X Kᴴ` is `K Kᴴ = Φ(1)` -/
theorem ptr1_choiK (K : Matrix κ ι ℂ) : ptr1 (choiK K) = K * Kᴴ := by
  ext y z
  simp only [ptr1, choiK_apply, Matrix.mul_apply, Matrix.conjTranspose_apply]

end Dual

/-! ## Bridge: the executable mirrors denote the specifications -/

section Bridge
open EMat Toq.ChannelProps
variable {dX dY d n : Nat}

theorem fstIdx_finProd (a : Fin dX) (y : Fin dY) : fstIdx (finProdFinEquiv (a, y)) = a := fstIdx_pair a y
theorem sndIdx_finProd (a : Fin dX) (y : Fin dY) : sndIdx (finProdFinEquiv (a, y)) = y := sndIdx_pair a y

theorem toP_dualChoiE (J : EMat (dX * dY) (dX * dY)) : toP (dualChoiE dX dY J) = dualChoi (toP J) := by
  ext ⟨y, a⟩ ⟨z, b⟩
  simp only [toP_apply, dualChoiE, get_ofFn, fstIdx_pair, sndIdx_pair, dualChoi, pairIdx_eq, QI.toC_conj]
  rfl

theorem applyEyeAsCoded_toC (Jd : EMat n n) : (applyEyeAsCoded n Jd).toC = Jd.toM.trace := by
  unfold applyEyeAsCoded
  rw [sumFin_toC]
  simp only [Matrix.trace, Matrix.diag_apply, toM_apply]
  refine Finset.sum_congr rfl fun j _ => ?_
  rw [sumFin_toC, Finset.sum_eq_single j]
  · simp [QI.toC_mul]
  · intro i _ hij; simp [QI.toC_mul, hij]
  · intro h; exact absurd (Finset.mem_univ j) h

/-- **the CP shortcut as coded computes `conj(tr J)`** (not `Φ*(1)`: `np.eye(dim_ly)` has the size of the Choi matrix) -/
theorem cpShortcutAsCoded_toC (J : EMat (d * d) (d * d)) : (cpShortcutAsCoded d J).toC = star (toP J).trace := by
  unfold cpShortcutAsCoded
  rw [applyEyeAsCoded_toC, ← trace_toP, toP_dualChoiE, trace_dualChoi]

theorem eqV_yes_beq {r c : Nat} (A B : EMat r c) (h : eqV A B = Verdict.yes) : A.beq B = true := by
  unfold eqV at h
  by_cases hb : A.beq B = true
  · exact hb
  · rw [if_neg hb] at h
    by_cases hf : farApart A B = true
    · rw [if_pos hf] at h; exact absurd h (by decide)
    · rw [if_neg hf] at h; exact absurd h (by decide)

/-- verdict `yes` of the mirrored `is_trace_preserving`: `Tr_Y J = 1` for the denotation -/
theorem tpV_yes_sound (J : EMat (d * d) (d * d)) (h : tpV J = Verdict.yes) : ptr2 (toP J) = 1 := by
  have hb := beq_sound _ _ (eqV_yes_beq _ _ h)
  have e : (Toq.ChannelProps.ptraceOut J) = ptrY d d J := rfl
  rw [e, toM_ptrY, toM_one] at hb
  exact hb

/-- verdict `yes` of the mirrored `is_completely_positive`: the denotation is positive semidefinite -/
theorem psdV_yes_sound {k : Nat} (J : EMat (d * d) (d * d)) (L : Option (EMat (d * d) k)) (v : Option (EMat (d * d) 1)) :
    psdV J L v = Verdict.yes → (toP J).PosSemidef := by
  unfold psdV
  cases hE : eqV J J.ct <;> simp only [reduceCtorEq, false_imp_iff]
  cases L with
  | none =>
    cases v with
    | none => simp
    | some v => by_cases hv : negWitness J v (tolOf (maxAbs1 J)) = true <;> simp [hv]
  | some L =>
    by_cases hL : psdYes J L = true
    · intro _; exact (psdCert_sound _ _ hL).submatrix _
    · cases v with
      | none => simp [hL]
      | some v => by_cases hv : negWitness J v (tolOf (maxAbs1 J)) = true <;> simp [hL, hv]

end Bridge

end Toq.ChanMetrics
