import Toq.Model.GamesExtra
import Toq.Proofs.Games
import Mathlib.Tactic.Ring
import Mathlib.Algebra.BigOperators.Field
import Mathlib.Data.Nat.Cast.Order.Ring
/-!
# C07, deepening: strategy enumeration is a bijection, pool branch = loop branch, product game in
total form (entries, distribution, predicate range, value of product strategies), `from_bcs_game`
distribution and the meaning of "depends on a variable".

All statements are for all sizes (induction / algebra, nothing enumerated).
-/

namespace Toq.Games
open Spec

/-! ## (1) `process_iteration` decodes every strategy exactly once -/

/-- the answer function that `process_iteration` decodes from the loop counter `i`: question `y` is
    answered by digit `y` (most significant first) of `i` written with `n` digits in base `b` -/
def decStrategy (b n : Nat) (hb : 0 < b) (i : Fin (b ^ n)) : Fin n → Fin b :=
  fun y => ⟨dec (fun _ => b) n i.1 y.1, dec_lt (fun _ => b) n i.1 y.1 y.2 hb⟩

theorem decStrategy_val (b n : Nat) (hb : 0 < b) (i : Fin (b ^ n)) (y : Fin n) :
    (decStrategy b n hb i y).1 = dec (fun _ => b) n i.1 y.1 := rfl

/-- **different counters decode to different strategies**: if two counters `i, j < b ^ n` have the
    same `n` base-`b` digits they are equal -/
theorem decStrategy_injective (b n : Nat) (hb : 0 < b) : Function.Injective (decStrategy b n hb) := by
  intro i j h
  apply Fin.ext
  have hi : i.1 < prodN (fun _ => b) n := by rw [prodN_const]; exact i.2
  have hj : j.1 < prodN (fun _ => b) n := by rw [prodN_const]; exact j.2
  rw [← enc_dec (fun _ => b) n i.1 hi, ← enc_dec (fun _ => b) n j.1 hj]
  apply enc_congr _ _ _ _ n (fun _ _ => rfl)
  intro k hk
  have := congrArg (fun s => (s ⟨k, hk⟩).1) h
  exact this

/-- **every strategy is decoded from some counter**: the answer function `g` is decoded from the
    counter `enc g < b ^ n` -/
theorem decStrategy_surjective (b n : Nat) (hb : 0 < b) : Function.Surjective (decStrategy b n hb) := by
  intro g
  refine ⟨⟨enc (fun _ => b) (ext g) n, enc_const_lt b (ext g) n (fun k hk => ext_lt g k hk)⟩, ?_⟩
  funext y
  apply Fin.ext
  rw [decStrategy_val]
  show dec (fun _ => b) n (enc (fun _ => b) (ext g) n) y.1 = _
  rw [dec_enc (fun _ => b) (ext g) n (fun k hk => ext_lt g k hk) y.1 y.2, ext_val]

/-- **`process_iteration` enumerates every strategy of the enumerated player exactly once**: for
    `b ≥ 1` answers and `n` questions, "counter `i < b ^ n` ↦ the answer function read off its `n`
    base-`b` digits" is well defined (every digit is `< b`), injective and surjective onto all
    `b ^ n` answer functions. -/
theorem decStrategy_bijective (b n : Nat) (hb : 0 < b) : Function.Bijective (decStrategy b n hb) :=
  ⟨decStrategy_injective b n hb, decStrategy_surjective b n hb⟩

/-- the same thing on the level of natural numbers: digits in range, `enc` is the two-sided inverse -/
theorem dec_strategy_inverse (b n : Nat) (hb : 0 < b) :
    (∀ i k, k < n → dec (fun _ => b) n i k < b) ∧
    (∀ i, i < b ^ n → enc (fun _ => b) (dec (fun _ => b) n i) n = i) ∧
    (∀ s : Nat → Nat, (∀ k, k < n → s k < b) →
      enc (fun _ => b) s n < b ^ n ∧ ∀ k, k < n → dec (fun _ => b) n (enc (fun _ => b) s n) k = s k) :=
  ⟨fun i k hk => dec_lt (fun _ => b) n i k hk hb,
   fun i hi => enc_dec (fun _ => b) n i (by rw [prodN_const]; exact hi),
   fun s hs => ⟨enc_const_lt b s n hs, fun k hk => dec_enc (fun _ => b) s n hs k hk⟩⟩

/-! ## (2) the process-pool branch computes what the loop computes -/

theorem maxList_append_singleton (l : List ℚ) (x : ℚ) :
    maxList (l ++ [x]) = maxNegInf (maxList l) x := by
  cases l with
  | nil => rfl
  | cons a as =>
    show some (List.foldl rmax a (as ++ [x])) = some (rmax (List.foldl rmax a as) x)
    rw [List.foldl_append]
    rfl

/-- **`max` of the list of results = running maximum from `-inf`**: Python's `max([f(0), …, f(n-1)])`
    is what `p = -inf; for i in range(n): p = max(p, f(i))` leaves in `p` (for `n = 0` the first raises
    and the second is `-inf`; both are `none` here) -/
theorem maxList_map_range (f : Nat → ℚ) : ∀ n, maxList (List.map f (List.range n)) = maxIter n f
  | 0 => rfl
  | n + 1 => by
    rw [List.range_succ, List.map_append, List.map_singleton, maxList_append_singleton,
      maxList_map_range f n]
    rfl

/-- **pool branch = loop branch**, for every iteration count and all sizes -/
theorem classicalValuePool_eq_loop (N nbo nbi : Nat) (t : Pred) (nao nai : Nat) :
    classicalValuePool N nbo nbi t nao nai = classicalValueLoop N nbo nbi t nao nai := by
  unfold classicalValuePool classicalValueLoop
  simp only [List.map_map]
  exact maxList_map_range (fun i => processIteration i nbo nbi t nao nai) N

/-- **`classical_value` with its multiprocessing branch = the plain loop**: whatever side of the
    threshold `num_iterations > 1000` the sizes fall on, the code returns what the loop-only mirror
    `classicalValueFixed` returns. -/
theorem classicalValueCode_eq_fixed (ao bo ai bi : Nat) (prob : Prob) (pred : Pred) :
    classicalValueCode ao bo ai bi prob pred = classicalValueFixed ao bo ai bi prob pred := by
  unfold classicalValueCode classicalValueFixed classicalValueGen
  simp only [classicalValuePool_eq_loop, ite_self, if_true]
  rfl

/-- **`classical_value` (both branches) = the classical value**, all sizes with non-empty answer sets -/
theorem classicalValueCode_eq_maxDet (ao bo ai bi : Nat) [NeZero ao] [NeZero bo] (prob : Prob) (pred : Pred) :
    classicalValueCode ao bo ai bi prob pred = some (maxDetValue ao bo ai bi prob pred) := by
  rw [classicalValueCode_eq_fixed]
  obtain ⟨v, hv, hmax⟩ := classicalValueGen_isMaxDet true ao bo ai bi prob pred
    (Nat.pos_of_ne_zero (NeZero.ne ao)) (Nat.pos_of_ne_zero (NeZero.ne bo)) (Or.inl rfl)
  rw [← isMaxDet_eq ao bo ai bi prob pred v hmax]
  exact hv

/-- the pool branch is really taken by some sizes and not by others (threshold 1000) -/
example : (2 : Nat) ^ 10 > 1000 ∧ ¬ ((2 : Nat) ^ 9 > 1000) := by decide

/-! ## (3) the `reps`-fold product game in total form -/

theorem pos_of_lt_pow_succ (d m a : Nat) (h : a < d ^ (m + 1)) : 0 < d := by
  rcases Nat.eq_zero_or_pos d with h0 | h0
  · subst h0; simp at h
  · exact h0

theorem enc_dec_const (d n a : Nat) (h : a < d ^ n) :
    enc (fun _ => d) (dec (fun _ => d) n a) n = a :=
  enc_dec (fun _ => d) n a (by rw [prodN_const]; exact h)

/-- predicate of the product game at *arbitrary* question indices `X < ai^r`, `Y < bi^r` (answers
    still given by their digits) -/
theorem productPred_enc_idx (ao bo ai bi m : Nat) (pred : Pred) (a b : Nat → Nat) (X Y : Nat)
    (ha : ∀ k, k ≤ m → a k < ao) (hb : ∀ k, k ≤ m → b k < bo)
    (hX : X < ai ^ (m + 1)) (hY : Y < bi ^ (m + 1)) :
    productPred ao bo ai bi (m + 1) pred (enc (fun _ => ao) a (m + 1)) (enc (fun _ => bo) b (m + 1)) X Y
      = prodFn (m + 1) (fun k => pred (a k) (b k)
          (dec (fun _ => ai) (m + 1) X k) (dec (fun _ => bi) (m + 1) Y k)) := by
  have hai := pos_of_lt_pow_succ ai m X hX
  have hbi := pos_of_lt_pow_succ bi m Y hY
  have h := productPred_enc ao bo ai bi m pred a b
    (dec (fun _ => ai) (m + 1) X) (dec (fun _ => bi) (m + 1) Y) ha hb
    (fun k hk => dec_lt (fun _ => ai) (m + 1) X k (by omega) hai)
    (fun k hk => dec_lt (fun _ => bi) (m + 1) Y k (by omega) hbi)
  rw [enc_dec_const ai (m + 1) X hX, enc_dec_const bi (m + 1) Y hY] at h
  exact h

/-- **Product game, predicate, total form**: for `r ≥ 1` repetitions and *every* index quadruple inside
    the shape `(ao^r, bo^r, ai^r, bi^r)` of the tensor the constructor builds, the entry is the product
    over the rounds `k < r` of the base predicate at the `k`-th base-`ao`/`bo`/`ai`/`bi` digits of the
    four indices (round 0 = most significant digit). -/
theorem productPred_total (ao bo ai bi r : Nat) (hr : 0 < r) (pred : Pred) (a b x y : Nat)
    (ha : a < ao ^ r) (hb : b < bo ^ r) (hx : x < ai ^ r) (hy : y < bi ^ r) :
    productPred ao bo ai bi r pred a b x y
      = prodFn r (fun k => pred (dec (fun _ => ao) r a k) (dec (fun _ => bo) r b k)
          (dec (fun _ => ai) r x k) (dec (fun _ => bi) r y k)) := by
  obtain ⟨m, rfl⟩ : ∃ m, r = m + 1 := ⟨r - 1, by omega⟩
  have hao := pos_of_lt_pow_succ ao m a ha
  have hbo := pos_of_lt_pow_succ bo m b hb
  have h := productPred_enc_idx ao bo ai bi m pred
    (dec (fun _ => ao) (m + 1) a) (dec (fun _ => bo) (m + 1) b) x y
    (fun k hk => dec_lt (fun _ => ao) (m + 1) a k (by omega) hao)
    (fun k hk => dec_lt (fun _ => bo) (m + 1) b k (by omega) hbo) hx hy
  rw [enc_dec_const ao (m + 1) a ha, enc_dec_const bo (m + 1) b hb] at h
  exact h

/-- **Product game, distribution, total form**: for `r ≥ 1` and every `x < ai^r`, `y < bi^r`, the entry
    of `tensor(prob_mat, r)` is the product over the rounds of the base probabilities of the digit pairs. -/
theorem productProb_total (ai bi r : Nat) (hr : 0 < r) (prob : Prob) (x y : Nat)
    (hx : x < ai ^ r) (hy : y < bi ^ r) :
    productProb ai bi r prob x y
      = prodFn r (fun k => prob (dec (fun _ => ai) r x k) (dec (fun _ => bi) r y k)) := by
  obtain ⟨m, rfl⟩ : ∃ m, r = m + 1 := ⟨r - 1, by omega⟩
  have hai := pos_of_lt_pow_succ ai m x hx
  have hbi := pos_of_lt_pow_succ bi m y hy
  have h := fastExp_enc ai bi prob (m + 1) hr
    (dec (fun _ => ai) (m + 1) x) (dec (fun _ => bi) (m + 1) y)
    (fun k hk => dec_lt (fun _ => ai) (m + 1) x k hk hai)
    (fun k hk => dec_lt (fun _ => bi) (m + 1) y k hk hbi)
  rw [enc_dec_const ai (m + 1) x hx, enc_dec_const bi (m + 1) y hy] at h
  exact h

/-! ### sums over all digit vectors -/

theorem sumN_add (f : Nat → ℚ) (m : Nat) : ∀ n,
    sumN (m + n) f = sumN m f + sumN n (fun k => f (m + k))
  | 0 => by simp [sumN]
  | n + 1 => by
    show sumN (m + n) f + f (m + n) = sumN m f + (sumN n (fun k => f (m + k)) + f (m + n))
    rw [sumN_add f m n, add_assoc]

/-- a sum over `A * d` positions, block by block -/
theorem sumN_mul_block (f : Nat → ℚ) (d : Nat) : ∀ A,
    sumN (A * d) f = sumN A (fun q => sumN d (fun x => f (q * d + x)))
  | 0 => by simp [sumN]
  | A + 1 => by
    rw [Nat.add_mul, Nat.one_mul, sumN_add f (A * d) d, sumN_mul_block f d A]
    rfl

theorem dec_succ_block (d n q x k : Nat) (hx : x < d) :
    dec (fun _ => d) (n + 1) (q * d + x) k = if k = n then x else dec (fun _ => d) n q k := by
  obtain ⟨e1, e2⟩ := div_mod_digit q d x hx
  simp only [dec, e1, e2]

theorem sumN_four_factor (A a B b : Nat) (G u : Nat → Nat → ℚ) :
    sumN A (fun q => sumN a (fun x0 => sumN B (fun p => sumN b (fun y0 => G q p * u x0 y0))))
      = sumN A (fun q => sumN B (fun p => G q p)) * sumN a (fun x0 => sumN b (fun y0 => u x0 y0)) := by
  simp only [sumN_eq_sum, Finset.sum_mul_sum]

/-- **sum of a product over rounds = product of the sums** (distributivity over all pairs of digit
    vectors): `Σ_{X < ai^r} Σ_{Y < bi^r} Π_{k<r} h k (X_k) (Y_k) = Π_{k<r} Σ_{x<ai} Σ_{y<bi} h k x y`. -/
theorem sum_prodFn_digits (ai bi : Nat) (h : Nat → Nat → Nat → ℚ) : ∀ r,
    sumN (ai ^ r) (fun X => sumN (bi ^ r) (fun Y =>
        prodFn r (fun k => h k (dec (fun _ => ai) r X k) (dec (fun _ => bi) r Y k))))
      = prodFn r (fun k => sumN ai (fun x => sumN bi (fun y => h k x y)))
  | 0 => by simp [sumN, prodFn]
  | r + 1 => by
    have step : ∀ q x0, x0 < ai →
        sumN (bi ^ r * bi) (fun Y => prodFn (r + 1) (fun k =>
          h k (dec (fun _ => ai) (r + 1) (q * ai + x0) k) (dec (fun _ => bi) (r + 1) Y k)))
        = sumN (bi ^ r) (fun p => sumN bi (fun y0 =>
            prodFn r (fun k => h k (dec (fun _ => ai) r q k) (dec (fun _ => bi) r p k)) * h r x0 y0)) := by
      intro q x0 hx0
      rw [sumN_mul_block]
      apply sumN_congr; intro p _
      apply sumN_congr; intro y0 hy0
      show prodFn r _ * h r _ _ = _
      rw [dec_succ_block ai r q x0 r hx0, dec_succ_block bi r p y0 r hy0, if_pos rfl, if_pos rfl]
      congr 1
      apply prodFn_congr; intro k hk
      rw [dec_succ_block ai r q x0 k hx0, dec_succ_block bi r p y0 k hy0,
        if_neg (by omega), if_neg (by omega)]
    rw [Nat.pow_succ ai r, Nat.pow_succ bi r, sumN_mul_block]
    have e := sumN_congr
      (fun q => sumN ai (fun x0 => sumN (bi ^ r * bi) (fun Y => prodFn (r + 1) (fun k =>
        h k (dec (fun _ => ai) (r + 1) (q * ai + x0) k) (dec (fun _ => bi) (r + 1) Y k)))))
      (fun q => sumN ai (fun x0 => sumN (bi ^ r) (fun p => sumN bi (fun y0 =>
        prodFn r (fun k => h k (dec (fun _ => ai) r q k) (dec (fun _ => bi) r p k)) * h r x0 y0))))
      (ai ^ r) (fun q _ => sumN_congr _ _ ai (fun x0 hx0 => step q x0 hx0))
    refine e.trans ?_
    rw [sumN_four_factor (ai ^ r) ai (bi ^ r) bi
      (fun q p => prodFn r (fun k => h k (dec (fun _ => ai) r q k) (dec (fun _ => bi) r p k)))
      (fun x0 y0 => h r x0 y0), sum_prodFn_digits ai bi h r]
    rfl

theorem prodFn_mul (u v : Nat → ℚ) : ∀ n, prodFn n u * prodFn n v = prodFn n (fun k => u k * v k)
  | 0 => by simp [prodFn]
  | n + 1 => by
    show prodFn n u * u n * (prodFn n v * v n) = prodFn n (fun k => u k * v k) * (u n * v n)
    rw [← prodFn_mul u v n]; ring

theorem prodFn_const (v : ℚ) : ∀ n, prodFn n (fun _ => v) = v ^ n
  | 0 => by simp [prodFn]
  | n + 1 => by
    show prodFn n (fun _ => v) * v = v ^ (n + 1)
    rw [prodFn_const v n, pow_succ]

theorem prodFn_mem01 (u : Nat → ℚ) : ∀ n, (∀ k, k < n → 0 ≤ u k ∧ u k ≤ 1) →
    0 ≤ prodFn n u ∧ prodFn n u ≤ 1
  | 0, _ => by simp [prodFn]
  | n + 1, h => by
    obtain ⟨h0, h1⟩ := prodFn_mem01 u n (fun k hk => h k (by omega))
    obtain ⟨g0, g1⟩ := h n (by omega)
    exact ⟨mul_nonneg h0 g0, mul_le_one₀ h1 g0 g1⟩

/-- **The product distribution is a distribution**: if `prob` is a probability distribution on
    `ai × bi` question pairs then `tensor(prob_mat, r)` is one on `ai^r × bi^r`, for every `r ≥ 1`. -/
theorem productProb_isDistribution (ai bi r : Nat) (hr : 0 < r) (prob : Prob)
    (hp : IsDistribution ai bi prob) :
    IsDistribution (ai ^ r) (bi ^ r) (productProb ai bi r prob) := by
  constructor
  · intro x y hx y_lt
    obtain ⟨m, rfl⟩ : ∃ m, r = m + 1 := ⟨r - 1, by omega⟩
    have hai := pos_of_lt_pow_succ ai m x hx
    have hbi := pos_of_lt_pow_succ bi m y y_lt
    rw [productProb_total ai bi (m + 1) hr prob x y hx y_lt]
    have : ∀ n, n ≤ m + 1 → 0 ≤ prodFn n (fun k =>
        prob (dec (fun _ => ai) (m + 1) x k) (dec (fun _ => bi) (m + 1) y k)) := by
      intro n
      induction n with
      | zero => intro _; simp [prodFn]
      | succ n ih =>
        intro hn
        exact mul_nonneg (ih (by omega)) (hp.nonneg _ _
          (dec_lt (fun _ => ai) (m + 1) x n (by omega) hai)
          (dec_lt (fun _ => bi) (m + 1) y n (by omega) hbi))
    exact this (m + 1) (le_refl _)
  · have e : (∑ x : Fin (ai ^ r), ∑ y : Fin (bi ^ r), productProb ai bi r prob x y)
        = sumN (ai ^ r) (fun x => sumN (bi ^ r) (fun y => productProb ai bi r prob x y)) := by
      simp only [sumN_eq_sum]
    have e1 : (∑ x : Fin ai, ∑ y : Fin bi, prob x y) = sumN ai (fun x => sumN bi (fun y => prob x y)) := by
      simp only [sumN_eq_sum]
    rw [e, sumN_congr _ _ (ai ^ r) (fun x hx => sumN_congr _ _ (bi ^ r) (fun y hy =>
      productProb_total ai bi r hr prob x y hx hy)), sum_prodFn_digits ai bi (fun _ => prob) r,
      ← e1, hp.sum_one, prodFn_const, one_pow]

/-- **The product predicate has entries in `[0, 1]`** on the product alphabets if the base predicate has. -/
theorem productPred_in01 (ao bo ai bi r : Nat) (hr : 0 < r) (pred : Pred)
    (hv : PredIn01 ao bo ai bi pred) :
    PredIn01 (ao ^ r) (bo ^ r) (ai ^ r) (bi ^ r) (productPred ao bo ai bi r pred) := by
  intro a b x y ha hb hx hy
  rw [productPred_total ao bo ai bi r hr pred a b x y ha hb hx hy]
  obtain ⟨m, rfl⟩ : ∃ m, r = m + 1 := ⟨r - 1, by omega⟩
  apply prodFn_mem01
  intro k hk
  exact hv _ _ _ _
    (dec_lt (fun _ => ao) (m + 1) a k hk (pos_of_lt_pow_succ ao m a ha))
    (dec_lt (fun _ => bo) (m + 1) b k hk (pos_of_lt_pow_succ bo m b hb))
    (dec_lt (fun _ => ai) (m + 1) x k hk (pos_of_lt_pow_succ ai m x hx))
    (dec_lt (fun _ => bi) (m + 1) y k hk (pos_of_lt_pow_succ bi m y hy))

theorem productStrategy_lt (nin nout r : Nat) (f : Nat → Nat → Nat) (hn : 0 < nin)
    (hf : ∀ k x, k < r → x < nin → f k x < nout) (X : Nat) :
    productStrategy nin nout r f X < nout ^ r :=
  enc_const_lt nout _ r (fun k hk => hf k _ hk (dec_lt (fun _ => nin) r X k hk hn))

/-- **Winning probability of a product of deterministic strategies = product of the winning
    probabilities.**  For `r ≥ 1` rounds and per-round answer functions `f k`, `g k` of the base game, the
    strategy of the product game that answers round `k` of the (digit-coded) questions by `f k` / `g k` wins
    the product game with probability `Π_{k<r} detValue(f k, g k)`. -/
theorem detValueN_product (ao bo ai bi r : Nat) (hr : 0 < r) (prob : Prob) (pred : Pred)
    (f g : Nat → Nat → Nat)
    (hf : ∀ k x, k < r → x < ai → f k x < ao) (hg : ∀ k y, k < r → y < bi → g k y < bo) :
    detValueN (ai ^ r) (bi ^ r) (productProb ai bi r prob) (productPred ao bo ai bi r pred)
        (productStrategy ai ao r f) (productStrategy bi bo r g)
      = prodFn r (fun k => detValueN ai bi prob pred (f k) (g k)) := by
  obtain ⟨m, rfl⟩ : ∃ m, r = m + 1 := ⟨r - 1, by omega⟩
  unfold detValueN
  rw [← sum_prodFn_digits ai bi (fun k x y => prob x y * pred (f k x) (g k y) x y) (m + 1)]
  apply sumN_congr; intro X hX
  apply sumN_congr; intro Y hY
  have hai := pos_of_lt_pow_succ ai m X hX
  have hbi := pos_of_lt_pow_succ bi m Y hY
  rw [productProb_total ai bi (m + 1) hr prob X Y hX hY]
  unfold productStrategy
  rw [productPred_enc_idx ao bo ai bi m pred _ _ X Y
    (fun k hk => hf k _ (by omega) (dec_lt (fun _ => ai) (m + 1) X k (by omega) hai))
    (fun k hk => hg k _ (by omega) (dec_lt (fun _ => bi) (m + 1) Y k (by omega) hbi)) hX hY,
    prodFn_mul]

theorem productStrategy_ext_lt (nin nout r : Nat) (f : Nat → Fin nin → Fin nout) (X : Nat)
    (hX : X < nin ^ r) : productStrategy nin nout r (fun k => ext (f k)) X < nout ^ r := by
  apply enc_const_lt
  intro k hk
  obtain ⟨m, rfl⟩ : ∃ m, r = m + 1 := ⟨r - 1, by omega⟩
  exact ext_lt (f k) _ (dec_lt (fun _ => nin) (m + 1) X k hk (pos_of_lt_pow_succ nin m X hX))

/-- product strategy as a function between the finite index types: question code `X < nin^r` ↦ code of
    the per-round answers `f k (digit k of X)` -/
def productStrategyFin (nin nout r : Nat) (f : Nat → Fin nin → Fin nout) :
    Fin (nin ^ r) → Fin (nout ^ r) := fun X =>
  ⟨productStrategy nin nout r (fun k => ext (f k)) X.1, productStrategy_ext_lt nin nout r f X.1 X.2⟩

/-- `detValueN_product` in the vocabulary of the specification (`detValue` over `Fin`-indexed answer
    functions): the product strategy built from base strategies `(f k, g k)` wins the `r`-fold game with
    probability `Π_{k<r} detValue (f k) (g k)`. -/
theorem detValue_product (ao bo ai bi r : Nat) (hr : 0 < r) (prob : Prob) (pred : Pred)
    (f : Nat → Fin ai → Fin ao) (g : Nat → Fin bi → Fin bo) :
    detValue (ao ^ r) (bo ^ r) (ai ^ r) (bi ^ r) (productProb ai bi r prob)
        (productPred ao bo ai bi r pred) (productStrategyFin ai ao r f) (productStrategyFin bi bo r g)
      = prodFn r (fun k => detValue ao bo ai bi prob pred (f k) (g k)) := by
  rw [← detValueN_eq (ao ^ r) (bo ^ r) (ai ^ r) (bi ^ r) _ _
    (productStrategy ai ao r (fun k => ext (f k))) (productStrategy bi bo r (fun k => ext (g k)))
    (productStrategyFin ai ao r f) (productStrategyFin bi bo r g) (fun _ => rfl) (fun _ => rfl),
    detValueN_product ao bo ai bi r hr prob pred _ _
      (fun k x _ hx => ext_lt (f k) x hx) (fun k y _ hy => ext_lt (g k) y hy)]
  apply prodFn_congr
  intro k _
  exact detValueN_eq ao bo ai bi prob pred _ _ (f k) (g k) (fun x => ext_val (f k) x) (fun y => ext_val (g k) y)

/-- **Classical value of the `r`-fold product game ≥ every product of base-game strategy values**, in
    particular (same optimal pair in every round) **≥ the `r`-th power of the base classical value**. -/
theorem maxDetValue_product_ge (ao bo ai bi r : Nat) [NeZero ao] [NeZero bo] (hr : 0 < r)
    (prob : Prob) (pred : Pred) :
    (∀ (f : Nat → Fin ai → Fin ao) (g : Nat → Fin bi → Fin bo),
      prodFn r (fun k => detValue ao bo ai bi prob pred (f k) (g k))
        ≤ maxDetValue (ao ^ r) (bo ^ r) (ai ^ r) (bi ^ r) (productProb ai bi r prob)
            (productPred ao bo ai bi r pred)) ∧
    (maxDetValue ao bo ai bi prob pred) ^ r
      ≤ maxDetValue (ao ^ r) (bo ^ r) (ai ^ r) (bi ^ r) (productProb ai bi r prob)
          (productPred ao bo ai bi r pred) := by
  have h1 : ∀ (f : Nat → Fin ai → Fin ao) (g : Nat → Fin bi → Fin bo),
      prodFn r (fun k => detValue ao bo ai bi prob pred (f k) (g k))
        ≤ maxDetValue (ao ^ r) (bo ^ r) (ai ^ r) (bi ^ r) (productProb ai bi r prob)
            (productPred ao bo ai bi r pred) := by
    intro f g
    rw [← detValue_product ao bo ai bi r hr prob pred f g]
    exact (maxDetValue_isMaxDet (ao ^ r) (bo ^ r) (ai ^ r) (bi ^ r) _ _).2 _ _
  refine ⟨h1, ?_⟩
  obtain ⟨⟨f, g, hfg⟩, _⟩ := maxDetValue_isMaxDet ao bo ai bi prob pred
  have := h1 (fun _ => f) (fun _ => g)
  rwa [hfg, prodFn_const] at this

/-! ## (4) `from_bcs_game`: the question distribution and the meaning of "depends on variable `i`" -/

theorem sumN_ite_cast (p : Nat → Bool) : ∀ n,
    sumN n (fun i => if p i then (1 : ℚ) else 0) = ((sumN n (fun i => if p i then 1 else 0) : Nat) : ℚ)
  | 0 => by simp [sumN]
  | n + 1 => by
    show sumN n (fun i => if p i then (1 : ℚ) else 0) + (if p n then (1 : ℚ) else 0)
      = ((sumN n (fun i => if p i then 1 else 0) + (if p n then 1 else 0) : Nat) : ℚ)
    rw [sumN_ite_cast p n, Nat.cast_add]
    congr 1
    split <;> simp

theorem sumN_ite_eq_card (p : Nat → Bool) : ∀ n,
    sumN n (fun i => if p i then 1 else 0) = ((Finset.range n).filter (fun i => p i = true)).card
  | 0 => by simp [sumN]
  | n + 1 => by
    show sumN n (fun i => if p i then 1 else 0) + (if p n then 1 else 0) = _
    rw [sumN_ite_eq_card p n, Finset.card_filter, Finset.card_filter, Finset.sum_range_succ]

/-- `dependent_variables[j].sum()` is the number of variables `i < n` with `bcsDepends n c j i` -/
theorem bcsDepCount_eq_card (n : Nat) (c : Nat → Nat → Int) (j : Nat) :
    bcsDepCount n c j = ((Finset.range n).filter (fun i => bcsDepends n c j i = true)).card :=
  sumN_ite_eq_card (fun i => bcsDepends n c j i) n

theorem bcsDepCount_pos (n : Nat) (c : Nat → Nat → Int) (j i : Nat) (hi : i < n)
    (hd : bcsDepends n c j i = true) : 0 < bcsDepCount n c j := by
  rw [bcsDepCount_eq_card]
  exact Finset.card_pos.mpr ⟨i, by simp [hi, hd]⟩

theorem bcsDepCount_le (n : Nat) (c : Nat → Nat → Int) (j : Nat) : bcsDepCount n c j ≤ n := by
  rw [bcsDepCount_eq_card]
  exact le_trans (Finset.card_filter_le _ _) (by simp)

theorem bcsProb_formula (m n : Nat) (c : Nat → Nat → Int) (j i : Nat) :
    bcsProb m n c j i
      = if bcsDepends n c j i = true then 1 / ((m : ℚ) * (bcsDepCount n c j : ℚ)) else 0 := by
  unfold bcsProb bcsDepCount
  simp only []
  rw [sumN_ite_cast (fun i' => bcsDepends n c j i') n]
  split
  · rw [div_mul_div_comm, one_mul]
  · rw [zero_div, mul_zero]

/-- **`from_bcs_game`, question distribution, entry by entry**: with `m ≥ 1` constraints, the probability of
    the question pair (constraint `j`, variable `i < n`) is `1 / (m · #dep_j)` if constraint `j` depends on
    variable `i` and `0` otherwise, where `#dep_j` (`bcsDepCount`, the number of variables constraint `j`
    depends on) is then at least 1 — so the denominator is not zero.  (A constraint that depends on *no*
    variable makes Python divide `0 / 0`; the distribution theorem below excludes it by hypothesis.) -/
theorem bcsProb_eq (m n : Nat) (c : Nat → Nat → Int) (j i : Nat) (hm : 0 < m) (hi : i < n) :
    bcsProb m n c j i
        = (if bcsDepends n c j i = true then 1 / ((m : ℚ) * (bcsDepCount n c j : ℚ)) else 0) ∧
      (bcsDepends n c j i = true → 0 < (m : ℚ) * (bcsDepCount n c j : ℚ)) := by
  refine ⟨bcsProb_formula m n c j i, fun hd => ?_⟩
  have h1 : (0 : ℚ) < m := by exact_mod_cast hm
  have h2 : (0 : ℚ) < bcsDepCount n c j := by exact_mod_cast bcsDepCount_pos n c j i hi hd
  exact mul_pos h1 h2

/-- **`from_bcs_game` builds a probability distribution** (uniform over the `m ≥ 1` constraints, then
    uniform over the variables the chosen constraint depends on), provided every constraint depends on at
    least one variable: all entries are `≥ 0` and they sum to 1 over `m × n`. -/
theorem bcsProb_isDistribution (m n : Nat) (c : Nat → Nat → Int) (hm : 0 < m)
    (hdep : ∀ j, j < m → ∃ i, i < n ∧ bcsDepends n c j i = true) :
    IsDistribution m n (bcsProb m n c) := by
  constructor
  · intro j i _ _
    rw [bcsProb_formula]
    split
    · exact one_div_nonneg.mpr (mul_nonneg (Nat.cast_nonneg _) (Nat.cast_nonneg _))
    · exact le_refl _
  · have hrow : ∀ j : Fin m, ∑ i : Fin n, bcsProb m n c j i = 1 / (m : ℚ) := by
      intro j
      obtain ⟨i0, hi0, hd⟩ := hdep j j.2
      have hS : sumN n (fun i' => if bcsDepends n c j i' then (1 : ℚ) else 0) ≠ 0 := by
        rw [sumN_ite_cast (fun i' => bcsDepends n c j i') n]
        have := bcsDepCount_pos n c j i0 hi0 hd
        unfold bcsDepCount at this
        exact_mod_cast (Nat.pos_iff_ne_zero.mp this)
      have hs := sumN_eq_sum (fun i' => if bcsDepends n c (j : Nat) i' then (1 : ℚ) else 0) n
      unfold bcsProb
      simp only []
      rw [← Finset.mul_sum, ← Finset.sum_div, ← hs, div_self hS, mul_one]
    rw [Finset.sum_congr rfl (fun j _ => hrow j)]
    have hm' : (m : ℚ) ≠ 0 := by exact_mod_cast (Nat.pos_iff_ne_zero.mp hm)
    rw [Finset.sum_const, Finset.card_univ, Fintype.card_fin, nsmul_eq_mul, mul_one_div_cancel hm']

/-- changing digit `i` of an `n`-digit base-`d` code from `v i` to `a` moves the code by the weight
    `d ^ (n - 1 - i)` of that position (written without subtraction) -/
theorem enc_setAt (d : Nat) (v : Nat → Nat) (i a : Nat) : ∀ n, i < n →
    enc (fun _ => d) (setAt v i a) n + v i * d ^ (n - 1 - i)
      = enc (fun _ => d) v n + a * d ^ (n - 1 - i)
  | 0, h => by omega
  | n + 1, h => by
    by_cases hin : i = n
    · subst hin
      show enc (fun _ => d) (setAt v i a) i * d + setAt v i a i + _ = enc (fun _ => d) v i * d + v i + _
      rw [enc_setAt_ge _ _ _ _ _ (le_refl _), setAt_same]
      have e : i + 1 - 1 - i = 0 := by omega
      rw [e, Nat.pow_zero, Nat.mul_one, Nat.mul_one]
      omega
    · have ih := enc_setAt d v i a n (by omega)
      show enc (fun _ => d) (setAt v i a) n * d + setAt v i a n + _ = enc (fun _ => d) v n * d + v n + _
      rw [setAt_ne _ _ _ _ (Ne.symm hin)]
      have e : n + 1 - 1 - i = (n - 1 - i) + 1 := by omega
      rw [e, Nat.pow_succ]
      have h2 := congrArg (· * d) ih
      simp only [Nat.add_mul] at h2
      rw [← Nat.mul_assoc, ← Nat.mul_assoc]
      omega

/-- **Meaning of `np.diff(constraints[j], axis=i).any()`** (semantic dependence): for a variable `i < n`,
    the code marks constraint `j` as depending on variable `i` exactly if there is an assignment `s` of the
    `n` binary variables such that flipping variable `i` (and nothing else) changes the value of the
    constraint (`c j (enc s)` = `constraints[j][s]`, first variable most significant). -/
theorem bcsDepends_iff (n : Nat) (c : Nat → Nat → Int) (j i : Nat) (hi : i < n) :
    bcsDepends n c j i = true ↔
      ∃ s : Nat → Nat, (∀ k, k < n → s k < 2) ∧
        c j (enc (fun _ => 2) (flipAt s i) n) ≠ c j (enc (fun _ => 2) s n) := by
  unfold bcsDepends
  rw [anyBelow_iff]
  constructor
  · rintro ⟨s0, hs0, h⟩
    simp only [Bool.and_eq_true, beq_iff_eq, bne_iff_ne, ne_eq] at h
    obtain ⟨hb, hne⟩ := h
    refine ⟨dec (fun _ => 2) n s0, fun k hk => dec_lt (fun _ => 2) n s0 k hk (by omega), ?_⟩
    have hE : enc (fun _ => 2) (dec (fun _ => 2) n s0) n = s0 := enc_dec_const 2 n s0 hs0
    have hb' : dec (fun _ => 2) n s0 i = 0 := hb
    have hfl := enc_setAt 2 (dec (fun _ => 2) n s0) i (1 - dec (fun _ => 2) n s0 i) n hi
    rw [hE, hb'] at hfl
    have hF : enc (fun _ => 2) (flipAt (dec (fun _ => 2) n s0) i) n = s0 + 2 ^ (n - 1 - i) := by
      unfold flipAt
      rw [hb']
      omega
    rw [hF, hE]
    intro heq
    exact hne (by rw [heq]; exact sub_self _)
  · rintro ⟨s, hs, hne⟩
    have h0 := enc_setAt 2 s i 0 n hi
    have h1 := enc_setAt 2 s i 1 n hi
    have hbits : ∀ k, k < n → setAt s i 0 k < 2 := by
      intro k hk
      by_cases hki : k = i
      · subst hki; rw [setAt_same]; omega
      · rw [setAt_ne _ _ _ _ hki]; exact hs k hk
    refine ⟨enc (fun _ => 2) (setAt s i 0) n, enc_const_lt 2 _ n hbits, ?_⟩
    simp only [Bool.and_eq_true, beq_iff_eq, bne_iff_ne, ne_eq]
    refine ⟨by rw [bit_enc n _ hbits i hi, setAt_same], ?_⟩
    have hE1 : enc (fun _ => 2) (setAt s i 0) n + 2 ^ (n - 1 - i) = enc (fun _ => 2) (setAt s i 1) n := by
      omega
    rw [hE1]
    have hsi := hs i hi
    intro hz
    have hz' : c j (enc (fun _ => 2) (setAt s i 1) n) = c j (enc (fun _ => 2) (setAt s i 0) n) :=
      sub_eq_zero.mp hz
    rcases (show s i = 0 ∨ s i = 1 by omega) with h | h
    · apply hne
      have e1 : enc (fun _ => 2) (flipAt s i) n = enc (fun _ => 2) (setAt s i 1) n := by
        unfold flipAt; rw [h]
      have e0 : enc (fun _ => 2) s n = enc (fun _ => 2) (setAt s i 0) n := by
        rw [h] at h0; omega
      rw [e1, e0, hz']
    · apply hne
      have e1 : enc (fun _ => 2) (flipAt s i) n = enc (fun _ => 2) (setAt s i 0) n := by
        unfold flipAt; rw [h]
      have e0 : enc (fun _ => 2) s n = enc (fun _ => 2) (setAt s i 1) n := by
        rw [h] at h1; omega
      rw [e1, e0, hz']

/-- the other reading: the variable is *not* marked (gets probability 0) exactly if flipping it never
    changes the constraint's value -/
theorem bcsDepends_false_iff (n : Nat) (c : Nat → Nat → Int) (j i : Nat) (hi : i < n) :
    bcsDepends n c j i = false ↔
      ∀ s : Nat → Nat, (∀ k, k < n → s k < 2) →
        c j (enc (fun _ => 2) (flipAt s i) n) = c j (enc (fun _ => 2) s n) := by
  rw [← Bool.not_eq_true, bcsDepends_iff n c j i hi]
  constructor
  · intro h s hs
    by_contra hne
    exact h ⟨s, hs, hne⟩
  · rintro h ⟨s, hs, hne⟩
    exact hne (h s hs)

/-- a concrete parity constraint `x0 ⊕ x1` on 3 variables (entries in C order) depends on variables 0 and 1
    and not on variable 2: two dependent variables, probabilities `1/(m·2)`, `1/(m·2)`, `0` -/
example : let c : Nat → Nat → Int := fun _ s => if (s / 4 + s / 2) % 2 = 1 then 1 else 0
    bcsDepends 3 c 0 0 = true ∧ bcsDepends 3 c 0 1 = true ∧ bcsDepends 3 c 0 2 = false ∧
      bcsDepCount 3 c 0 = 2 := by
  decide

/-- the hypothesis of `bcsProb_isDistribution` is satisfiable: two constraints on 3 variables
    (`x0 ⊕ x1` and `x2`), each depending on at least one variable (on 2 resp. 1 of them) -/
example : let c : Nat → Nat → Int := fun j s =>
      if j = 0 then (if (s / 4 + s / 2) % 2 = 1 then 1 else 0) else (if s % 2 = 1 then 1 else 0)
    (∀ j, j < 2 → ∃ i, i < 3 ∧ bcsDepends 3 c j i = true) ∧ bcsDepCount 3 c 0 = 2 ∧ bcsDepCount 3 c 1 = 1 := by
  intro c
  refine ⟨fun j hj => ?_, by decide, by decide⟩
  rcases (show j = 0 ∨ j = 1 by omega) with rfl | rfl
  · exact ⟨0, by omega, by decide⟩
  · exact ⟨2, by omega, by decide⟩

/-- the hypotheses of the product-game theorems are satisfiable with unequal sizes: a product strategy of
    the `(ao, bo, ai, bi) = (2, 3, 3, 2)` game over 2 rounds, evaluated by the model (Alice answers
    `x mod 2` in round 0 and `0` in round 1; question code `7 = (2, 1)₃` ↦ answer code `(0, 0)₂ = 0`,
    question code `5 = (1, 2)₃` ↦ `(1, 0)₂ = 2`) -/
example : productStrategy 3 2 2 (fun k x => if k = 0 then x % 2 else 0) 7 = 0 ∧
    productStrategy 3 2 2 (fun k x => if k = 0 then x % 2 else 0) 5 = 2 ∧
    (∀ k x, k < 2 → x < 3 → (fun k x => if k = 0 then x % 2 else 0) k x < 2) := by
  refine ⟨by decide, by decide, ?_⟩
  intro k x _ _
  dsimp only
  split <;> omega

end Toq.Games
