import Toq.Proofs.Rand
import Mathlib.LinearAlgebra.Matrix.Block
import Mathlib.Analysis.SpecialFunctions.ContinuousFunctionalCalculus.Rpow.Basic
/-!
# The QR phase fix of `random_unitary` pins the result; `random_psd_operator` returns `|H|`

* A matrix that is upper triangular **and** unitary is diagonal (the inverse of an upper triangular matrix is upper
  triangular, the conjugate transpose is lower triangular).
* Hence: for an invertible `G`, a unitary `U` such that `Uᴴ G` is upper triangular with positive diagonal is unique; the
  code's `Q · diag(sign(diag R))` is such a `U`.  LAPACK's freedom in the signs/phases of the QR factors is divided out:
  `random_unitary` is a function of its Ginibre draw.
* `random_psd_operator`: `Q` from the QR factorisation of the (unitary) eigenvector matrix `V` differs from `V` by a unimodular
  diagonal, so `Q diag|λ| Qᴴ = V diag|λ| Vᴴ`, the positive semidefinite square root of `H²`.
-/

open Matrix
open scoped ComplexOrder MatrixOrder

namespace Toq.Rand

variable {n : Nat}

/-- upper triangular: entries below the diagonal vanish (Mathlib's `BlockTriangular` for the identity labelling) -/
abbrev UpperTri (T : Matrix (Fin n) (Fin n) ℂ) : Prop := T.BlockTriangular id

theorem upperTri_iff (T : Matrix (Fin n) (Fin n) ℂ) : UpperTri T ↔ ∀ i j : Fin n, j < i → T i j = 0 :=
  ⟨fun h _ _ hij => h hij, fun h i j hij => h i j hij⟩

/-- an upper triangular unitary matrix is diagonal -/
theorem upperTri_unitary_offdiag (T : Matrix (Fin n) (Fin n) ℂ) (hT : UpperTri T) (hU : Tᴴ * T = 1) (i j : Fin n)
    (hij : i ≠ j) : T i j = 0 := by
  rcases lt_or_gt_of_ne hij with h | h
  · -- i < j : use that Tᴴ = T⁻¹ is upper triangular
    have : Invertible T := invertibleOfLeftInverse T Tᴴ hU
    have hinv : T⁻¹ = Tᴴ := inv_eq_left_inv hU
    have hTi : UpperTri T⁻¹ := blockTriangular_inv_of_blockTriangular hT
    rw [hinv] at hTi
    have : Tᴴ j i = 0 := hTi h
    rw [conjTranspose_apply] at this
    exact star_eq_zero.mp this
  · exact hT h

theorem upperTri_unitary_eq_diagonal (T : Matrix (Fin n) (Fin n) ℂ) (hT : UpperTri T) (hU : Tᴴ * T = 1) :
    T = diagonal (fun i => T i i) := by
  ext i j
  by_cases h : i = j
  · subst h; simp
  · rw [diagonal_apply_ne _ h]; exact upperTri_unitary_offdiag T hT hU i j h

theorem upperTri_unitary_diag_unimodular (T : Matrix (Fin n) (Fin n) ℂ) (hT : UpperTri T) (hU : Tᴴ * T = 1) (i : Fin n) :
    star (T i i) * T i i = 1 := by
  have h := congrFun (congrFun hU i) i
  rw [Matrix.mul_apply, Matrix.one_apply_eq] at h
  rw [← h]
  symm
  apply Finset.sum_eq_single i
  · intro b _ hb
    rw [upperTri_unitary_offdiag T hT hU b i hb]; simp
  · intro h'; exact absurd (Finset.mem_univ i) h'

/-- upper triangular with positive (real) diagonal: the normal form of the `R` factor -/
def UpperPos (T : Matrix (Fin n) (Fin n) ℂ) : Prop := UpperTri T ∧ ∀ i, 0 < T i i

theorem UpperPos.det_ne_zero {T : Matrix (Fin n) (Fin n) ℂ} (h : UpperPos T) : T.det ≠ 0 := by
  rw [det_of_isUpperTriangular h.1]
  exact Finset.prod_ne_zero_iff.mpr (fun i _ => (h.2 i).ne')

/-- a unimodular `z` with `z · a = b` for positive reals `a`, `b` equals one -/
theorem unimodular_pos_ratio {z a b : ℂ} (hz : star z * z = 1) (ha : 0 < a) (hb : 0 < b) (h : z * a = b) : z = 1 := by
  obtain ⟨har, hai⟩ := Complex.pos_iff.mp ha
  obtain ⟨hbr, hbi⟩ := Complex.pos_iff.mp hb
  have ha' : a = (a.re : ℂ) := Complex.ext rfl (by simp [← hai])
  have hb' : b = (b.re : ℂ) := Complex.ext rfl (by simp [← hbi])
  have hane : (a.re : ℂ) ≠ 0 := by exact_mod_cast har.ne'
  have hzq : z = ((b.re / a.re : ℝ) : ℂ) := by
    rw [ha', hb'] at h
    push_cast
    rw [eq_div_iff hane]; exact h
  have hq : 0 < b.re / a.re := div_pos hbr har
  rw [hzq] at hz ⊢
  rw [Complex.star_def, Complex.conj_ofReal, ← Complex.ofReal_mul] at hz
  have h1 : b.re / a.re * (b.re / a.re) = 1 := by exact_mod_cast hz
  have h2 : b.re / a.re = 1 := by nlinarith
  rw [h2]; simp

/-- **uniqueness of the phase-fixed QR factor**: for any `G`, two unitaries `U`, `U'` such that `Uᴴ G` and `U'ᴴ G` are both upper
triangular with positive diagonal coincide -/
theorem qr_posdiag_unique (G U U' : Matrix (Fin n) (Fin n) ℂ) (hU : Uᴴ * U = 1) (hU' : U'ᴴ * U' = 1)
    (hT : UpperPos (Uᴴ * G)) (hT' : UpperPos (U'ᴴ * G)) : U = U' := by
  have hUr : U * Uᴴ = 1 := mul_eq_one_comm.mp hU
  have hUr' : U' * U'ᴴ = 1 := mul_eq_one_comm.mp hU'
  set T := Uᴴ * G with hTdef
  set T' := U'ᴴ * G with hTdef'
  -- W = U'ᴴ U satisfies W T = T'
  have hWT : (U'ᴴ * U) * T = T' := by
    rw [hTdef, hTdef', Matrix.mul_assoc, ← Matrix.mul_assoc U, hUr, Matrix.one_mul]
  have hdet : IsUnit T.det := isUnit_iff_ne_zero.mpr hT.det_ne_zero
  have : Invertible T := invertibleOfIsUnitDet T hdet
  have hW : U'ᴴ * U = T' * T⁻¹ := by
    rw [← hWT, Matrix.mul_assoc, Matrix.mul_nonsing_inv T hdet, Matrix.mul_one]
  have hWtri : UpperTri (U'ᴴ * U) := by
    rw [hW]
    exact BlockTriangular.mul hT'.1 (blockTriangular_inv_of_blockTriangular hT.1)
  have hWun : (U'ᴴ * U)ᴴ * (U'ᴴ * U) = 1 := by
    rw [conjTranspose_mul, conjTranspose_conjTranspose, Matrix.mul_assoc, ← Matrix.mul_assoc U', hUr', Matrix.one_mul, hU]
  have hWd := upperTri_unitary_eq_diagonal _ hWtri hWun
  have hone : ∀ i, (U'ᴴ * U) i i = 1 := by
    intro i
    apply unimodular_pos_ratio (upperTri_unitary_diag_unimodular _ hWtri hWun i) (hT.2 i) (hT'.2 i)
    have := congrFun (congrFun hWT i) i
    rw [hWd, Matrix.diagonal_mul] at this
    exact this
  have hW1 : U'ᴴ * U = 1 := by
    rw [hWd, ← diagonal_one]; congr 1; ext i; exact hone i
  calc U = (U' * U'ᴴ) * U := by rw [hUr', Matrix.one_mul]
    _ = U' * (U'ᴴ * U) := Matrix.mul_assoc _ _ _
    _ = U' := by rw [hW1, Matrix.mul_one]

theorem csign_conj_mul (z : ℂ) (hz : z ≠ 0) : star (csign z) * z = ((‖z‖ : ℝ) : ℂ) := by
  unfold csign
  rw [if_neg hz]
  have hn : ((‖z‖ : ℝ) : ℂ) ≠ 0 := by simpa using hz
  rw [Complex.star_def, map_div₀, Complex.conj_ofReal, div_mul_eq_mul_div, mul_comm, Complex.mul_conj, Complex.normSq_eq_norm_sq,
    div_eq_iff hn]
  push_cast; ring

/-- **existence**: the code's `U = Q · diag(sign(diag R))` (with `G = Q R`, `Q` unitary, `R` upper triangular with non-zero
diagonal) makes `Uᴴ G` upper triangular with positive diagonal `|R_ii|` -/
theorem unitary_post_upperPos (G Q R : Matrix (Fin n) (Fin n) ℂ) (hG : G = Q * R) (hQ : Qᴴ * Q = 1) (hR : UpperTri R)
    (hd : ∀ i, R i i ≠ 0) :
    UpperPos ((Q * diagonal fun i => csign (R i i))ᴴ * G) := by
  have e : (Q * diagonal fun i => csign (R i i))ᴴ * G = diagonal (fun i => star (csign (R i i))) * R := by
    rw [hG, conjTranspose_mul, diagonal_conjTranspose, Matrix.mul_assoc, ← Matrix.mul_assoc Qᴴ, hQ, Matrix.one_mul]
    rfl
  rw [e]
  refine ⟨BlockTriangular.mul (blockTriangular_diagonal _) hR, fun i => ?_⟩
  rw [Matrix.diagonal_mul, csign_conj_mul _ (hd i)]
  exact_mod_cast norm_pos_iff.mpr (hd i)

/-- on real numbers the complex sign is the real sign: the `is_real=True` branch is the complex one on real data -/
theorem csign_ofReal (x : ℝ) : csign (x : ℂ) = ((rsign x : ℝ) : ℂ) := by
  unfold csign rsign
  by_cases h0 : x = 0
  · simp [h0]
  · have hx : (x : ℂ) ≠ 0 := by exact_mod_cast h0
    rw [if_neg hx, if_neg h0, Complex.norm_real, Real.norm_eq_abs]
    by_cases hp : 0 < x
    · rw [if_pos hp, abs_of_pos hp]; simp [hx]
    · have hn : x < 0 := lt_of_le_of_ne (not_lt.mp hp) h0
      rw [if_neg hp, abs_of_neg hn]
      push_cast
      rw [div_neg, div_self hx]

/-! ## `random_psd_operator` -/

/-- `Q` = QR factor of a unitary `V` (`V = Q R'`, `R'` upper triangular): `Q diag(μ) Qᴴ = V diag(μ) Vᴴ` for every diagonal -/
theorem qr_of_unitary_conj (V Q R' : Matrix (Fin n) (Fin n) ℂ) (hV : Vᴴ * V = 1) (hQ : Qᴴ * Q = 1) (hVQ : V = Q * R')
    (hR : UpperTri R') (μ : Fin n → ℂ) :
    Q * diagonal μ * Qᴴ = V * diagonal μ * Vᴴ := by
  have hQr : Q * Qᴴ = 1 := mul_eq_one_comm.mp hQ
  have hR'eq : R' = Qᴴ * V := by rw [hVQ, ← Matrix.mul_assoc, hQ, Matrix.one_mul]
  have hRun : R'ᴴ * R' = 1 := by
    rw [hR'eq, conjTranspose_mul, conjTranspose_conjTranspose, Matrix.mul_assoc, ← Matrix.mul_assoc Q, hQr, Matrix.one_mul, hV]
  have hRd := upperTri_unitary_eq_diagonal R' hR hRun
  have hmod := upperTri_unitary_diag_unimodular R' hR hRun
  rw [hVQ, conjTranspose_mul]
  have : Q * R' * diagonal μ * (R'ᴴ * Qᴴ) = Q * (R' * diagonal μ * R'ᴴ) * Qᴴ := by simp only [Matrix.mul_assoc]
  rw [this]
  congr 2
  rw [hRd, diagonal_conjTranspose, diagonal_mul_diagonal, diagonal_mul_diagonal]
  congr 1; ext i
  simp only [Pi.star_apply]
  have := hmod i
  calc μ i = μ i * (star (R' i i) * R' i i) := by rw [this, mul_one]
    _ = R' i i * μ i * star (R' i i) := by ring

/-- `random_psd_operator`: with the eigendecomposition `H = V diag(λ) Vᴴ` and `Q` the QR factor of `V`, the result
`A = Q diag|λ| Qᴴ` is positive semidefinite and `A·A = H·H` -/
theorem psd_post_sq (H V Q R' : Matrix (Fin n) (Fin n) ℂ) (ev : Fin n → ℝ) (hV : Vᴴ * V = 1) (hQ : Qᴴ * Q = 1)
    (hVQ : V = Q * R') (hR : UpperTri R') (hH : H = V * diagonal (fun i => (ev i : ℂ)) * Vᴴ) :
    (Q * diagonal (fun i => ((|ev i| : ℝ) : ℂ)) * Qᴴ).PosSemidef ∧
      (Q * diagonal (fun i => ((|ev i| : ℝ) : ℂ)) * Qᴴ) * (Q * diagonal (fun i => ((|ev i| : ℝ) : ℂ)) * Qᴴ) = H * H := by
  refine ⟨psd_post Q ev, ?_⟩
  rw [qr_of_unitary_conj V Q R' hV hQ hVQ hR, hH]
  have e : ∀ D E : Matrix (Fin n) (Fin n) ℂ, V * D * Vᴴ * (V * E * Vᴴ) = V * (D * E) * Vᴴ := by
    intro D E
    have : V * D * Vᴴ * (V * E * Vᴴ) = V * D * (Vᴴ * V) * E * Vᴴ := by simp only [Matrix.mul_assoc]
    rw [this, hV, Matrix.mul_one]; simp only [Matrix.mul_assoc]
  rw [e, e, diagonal_mul_diagonal, diagonal_mul_diagonal]
  have hd : (fun i => (((|ev i| : ℝ) : ℂ)) * ((|ev i| : ℝ) : ℂ)) = fun i => ((ev i : ℂ) * (ev i : ℂ)) := by
    funext i
    have : |ev i| * |ev i| = ev i * ev i := abs_mul_abs_self (ev i)
    exact_mod_cast this
  rw [hd]

/-- the positive semidefinite matrix with a given square is unique: `A·A = B·B`, `A, B ⪰ 0` ⇒ `A = B` -/
theorem psd_sq_unique {ι : Type*} [Fintype ι] [DecidableEq ι] (A B : Matrix ι ι ℂ) (hA : A.PosSemidef) (hB : B.PosSemidef)
    (h : A * A = B * B) : A = B :=
  (CFC.mul_self_eq_mul_self_iff A B hA.nonneg hB.nonneg).mp h

end Toq.Rand
