import Toq.Core.EMat
import Mathlib.Analysis.Matrix.Order
import Mathlib.LinearAlgebra.Matrix.Gershgorin
/-!
# Soundness of the exact certificate primitives

Bridge from the executable exact matrices `EMat n m` over `ℚ[i]` to `Matrix (Fin n) (Fin m) ℂ`, and
soundness of the two PSD certificates (`diagDominant`, `psdCert`) with respect to Mathlib's
`Matrix.PosSemidef`.
-/

open Matrix
open scoped ComplexOrder MatrixOrder

/-! ## Scalars -/

/-- the complex number denoted by a Gaussian rational -/
def QI.toC (a : QI) : ℂ := ⟨(a.re : ℝ), (a.im : ℝ)⟩

namespace QI

@[simp] theorem add_re (a b : QI) : (a + b).re = a.re + b.re := rfl
@[simp] theorem add_im (a b : QI) : (a + b).im = a.im + b.im := rfl
@[simp] theorem sub_re (a b : QI) : (a - b).re = a.re - b.re := rfl
@[simp] theorem sub_im (a b : QI) : (a - b).im = a.im - b.im := rfl
@[simp] theorem neg_re (a : QI) : (-a).re = -a.re := rfl
@[simp] theorem neg_im (a : QI) : (-a).im = -a.im := rfl
@[simp] theorem mul_re (a b : QI) : (a * b).re = a.re * b.re - a.im * b.im := rfl
@[simp] theorem mul_im (a b : QI) : (a * b).im = a.re * b.im + a.im * b.re := rfl
@[simp] theorem zero_re : (0 : QI).re = 0 := rfl
@[simp] theorem zero_im : (0 : QI).im = 0 := rfl
@[simp] theorem one_re : (1 : QI).re = 1 := rfl
@[simp] theorem one_im : (1 : QI).im = 0 := rfl
@[simp] theorem conj_re (a : QI) : a.conj.re = a.re := rfl
@[simp] theorem conj_im (a : QI) : a.conj.im = -a.im := rfl
@[simp] theorem ofRat_re (q : Rat) : (ofRat q).re = q := rfl
@[simp] theorem ofRat_im (q : Rat) : (ofRat q).im = 0 := rfl
@[simp] theorem smul_re (q : Rat) (a : QI) : (smul q a).re = q * a.re := rfl
@[simp] theorem smul_im (q : Rat) (a : QI) : (smul q a).im = q * a.im := rfl

@[simp] theorem toC_re (a : QI) : a.toC.re = (a.re : ℝ) := rfl
@[simp] theorem toC_im (a : QI) : a.toC.im = (a.im : ℝ) := rfl

theorem toC_add (a b : QI) : (a + b).toC = a.toC + b.toC := by
  apply Complex.ext <;> simp
theorem toC_sub (a b : QI) : (a - b).toC = a.toC - b.toC := by
  apply Complex.ext <;> simp
theorem toC_neg (a : QI) : (-a).toC = -a.toC := by
  apply Complex.ext <;> simp
theorem toC_mul (a b : QI) : (a * b).toC = a.toC * b.toC := by
  apply Complex.ext <;> simp
@[simp] theorem toC_zero : (0 : QI).toC = 0 := by
  apply Complex.ext <;> simp
@[simp] theorem toC_one : (1 : QI).toC = 1 := by
  apply Complex.ext <;> simp
theorem toC_conj (a : QI) : a.conj.toC = (starRingEnd ℂ) a.toC := by
  apply Complex.ext <;> simp
theorem toC_smul (q : Rat) (a : QI) : (smul q a).toC = ((q : ℝ) : ℂ) * a.toC := by
  apply Complex.ext <;> simp
theorem toC_ofRat (q : Rat) : (ofRat q).toC = ((q : ℝ) : ℂ) := by
  apply Complex.ext <;> simp

theorem toC_injective : Function.Injective QI.toC := by
  intro a b h
  have h1 := congrArg Complex.re h
  have h2 := congrArg Complex.im h
  simp only [toC_re, toC_im, Rat.cast_inj] at h1 h2
  cases a; cases b; simp_all

/-- `|re| + |im|` bounds the modulus -/
theorem norm_toC_le_abs1 (a : QI) : ‖a.toC‖ ≤ ((a.abs1 : Rat) : ℝ) := by
  refine (Complex.norm_le_abs_re_add_abs_im _).trans (le_of_eq ?_)
  have h : ∀ q : Rat, ((if q < 0 then -q else q : Rat) : ℝ) = |(q : ℝ)| := by
    intro q
    split
    · next hq =>
      have : (q : ℝ) < 0 := by exact_mod_cast hq
      rw [abs_of_neg this]; push_cast; rfl
    · next hq =>
      have : (0 : ℝ) ≤ (q : ℝ) := by exact_mod_cast (not_lt.mp hq)
      rw [abs_of_nonneg this]
  simp only [abs1, Rat.cast_add, h, toC_re, toC_im]

end QI

/-! ## Matrices -/

/-- the complex matrix denoted by an exact matrix -/
def EMat.toM {n m : Nat} (A : EMat n m) : Matrix (Fin n) (Fin m) ℂ := fun i j => (A.get i j).toC

namespace EMat
variable {n m k : Nat}

@[simp] theorem toM_apply (A : EMat n m) (i : Fin n) (j : Fin m) : A.toM i j = (A.get i j).toC := rfl

@[simp] theorem get_add (A B : EMat n m) (i j) : (A + B).get i j = A.get i j + B.get i j :=
  get_ofFn _ i j
@[simp] theorem get_sub (A B : EMat n m) (i j) : (A - B).get i j = A.get i j - B.get i j :=
  get_ofFn _ i j
@[simp] theorem get_neg (A : EMat n m) (i j) : (-A).get i j = -A.get i j :=
  get_ofFn _ i j
@[simp] theorem get_smul (q : Rat) (A : EMat n m) (i j) : (smul q A).get i j = QI.smul q (A.get i j) :=
  get_ofFn _ i j
@[simp] theorem get_mul (A : EMat n k) (B : EMat k m) (i j) :
    (A.mul B).get i j = sumFin k fun l => A.get i l * B.get l j := get_ofFn _ i j
@[simp] theorem get_ct (A : EMat n m) (i j) : A.ct.get i j = (A.get j i).conj := get_ofFn _ i j
@[simp] theorem get_transpose (A : EMat n m) (i j) : A.transpose.get i j = A.get j i := get_ofFn _ i j
@[simp] theorem get_one (i j : Fin n) : (one : EMat n n).get i j = if i = j then 1 else 0 :=
  get_ofFn _ i j
@[simp] theorem get_zero (i : Fin n) (j : Fin m) : (zero : EMat n m).get i j = 0 := get_ofFn _ i j
@[simp] theorem get_scalar (q : Rat) (i j : Fin n) :
    (scalar q : EMat n n).get i j = if i = j then QI.ofRat q else 0 := get_ofFn _ i j

theorem sumFin_toC (k : Nat) (f : Fin k → QI) : (sumFin k f).toC = ∑ l, (f l).toC := by
  unfold sumFin
  rw [Fin.sum_univ_def]
  have : ∀ (l : List (Fin k)) (a : QI),
      (l.foldl (fun acc x => acc + f x) a).toC = a.toC + (l.map fun x => (f x).toC).sum := by
    intro l
    induction l with
    | nil => simp
    | cons x xs ih => intro a; simp [ih, QI.toC_add, add_assoc]
  simpa using this (List.finRange k) 0

theorem sumFinQ_cast (k : Nat) (f : Fin k → Rat) : ((sumFinQ k f : Rat) : ℝ) = ∑ l, (f l : ℝ) := by
  unfold sumFinQ
  rw [Fin.sum_univ_def]
  have : ∀ (l : List (Fin k)) (a : Rat),
      ((l.foldl (fun acc x => acc + f x) a : Rat) : ℝ) = (a : ℝ) + (l.map fun x => (f x : ℝ)).sum := by
    intro l
    induction l with
    | nil => simp
    | cons x xs ih => intro a; simp [ih, add_assoc]
  simpa using this (List.finRange k) 0

theorem allFin_iff (k : Nat) (p : Fin k → Bool) : allFin k p = true ↔ ∀ i, p i = true := by
  simp [allFin, List.all_eq_true]

theorem toM_add (A B : EMat n m) : (A + B).toM = A.toM + B.toM := by
  ext i j; simp [QI.toC_add]
theorem toM_sub (A B : EMat n m) : (A - B).toM = A.toM - B.toM := by
  ext i j; simp [QI.toC_sub]
theorem toM_neg (A : EMat n m) : (-A).toM = -A.toM := by
  ext i j; simp [QI.toC_neg]
theorem toM_smul (q : Rat) (A : EMat n m) : (smul q A).toM = ((q : ℝ) : ℂ) • A.toM := by
  ext i j; simp [QI.toC_smul]
theorem toM_mul (A : EMat n k) (B : EMat k m) : (A.mul B).toM = A.toM * B.toM := by
  ext i j; simp [Matrix.mul_apply, sumFin_toC, QI.toC_mul]
theorem toM_ct (A : EMat n m) : A.ct.toM = A.toMᴴ := by
  ext i j; simp [QI.toC_conj, Matrix.conjTranspose_apply]
theorem toM_transpose (A : EMat n m) : A.transpose.toM = A.toMᵀ := by
  ext i j; simp
theorem toM_one : (one : EMat n n).toM = 1 := by
  ext i j; by_cases h : i = j <;> simp [h, Matrix.one_apply]
theorem toM_zero : (zero : EMat n m).toM = 0 := by
  ext i j; simp
theorem toM_scalar (q : Rat) : (scalar q : EMat n n).toM = ((q : ℝ) : ℂ) • (1 : Matrix (Fin n) (Fin n) ℂ) := by
  ext i j; by_cases h : i = j <;> simp [h, QI.toC_ofRat]

theorem toC_trace (A : EMat n n) : (A.trace).toC = Matrix.trace A.toM := by
  simp [trace, Matrix.trace, sumFin_toC]

theorem re_trace (A : EMat n n) : ((A.trace.re : Rat) : ℝ) = (Matrix.trace A.toM).re := by
  rw [← toC_trace]; rfl

theorem isHermitian_sound (A : EMat n n) : A.isHermitian = true → A.toM.IsHermitian := by
  intro h
  simp only [isHermitian, allFin_iff, beq_iff_eq] at h
  ext i j
  rw [Matrix.conjTranspose_apply, toM_apply, toM_apply, h i j, QI.toC_conj]
  simp

theorem beq_sound (A B : EMat n m) : A.beq B = true → A.toM = B.toM := by
  intro h
  simp only [beq, allFin_iff, beq_iff_eq] at h
  ext i j
  simp [h i j]

end EMat

/-! ## Diagonal dominance (Gershgorin) -/

section Gershgorin
variable {ι : Type*} [Fintype ι] [DecidableEq ι]

/-- A Hermitian matrix whose (real) diagonal dominates the off-diagonal row sums of moduli is
positive semidefinite. -/
theorem Matrix.posSemidef_of_diagDominant {A : Matrix ι ι ℂ} (hA : A.IsHermitian)
    (h : ∀ i, ∑ j ∈ Finset.univ.erase i, ‖A i j‖ ≤ (A i i).re) : A.PosSemidef := by
  rw [hA.posSemidef_iff_eigenvalues_nonneg]
  intro j
  have hev : Module.End.HasEigenvalue (Matrix.toLin' A) ((hA.eigenvalues j : ℝ) : ℂ) := by
    refine Module.End.hasEigenvalue_of_hasEigenvector (x := ⇑(hA.eigenvectorBasis j)) ⟨?_, ?_⟩
    · rw [Module.End.mem_eigenspace_iff, Matrix.toLin'_apply, hA.mulVec_eigenvectorBasis j]
      rfl
    · intro h0
      exact hA.eigenvectorBasis.orthonormal.ne_zero j (by ext i; exact congrFun h0 i)
  obtain ⟨i, hi⟩ := eigenvalue_mem_ball hev
  rw [mem_closedBall_iff_norm'] at hi
  have hdiag : A i i = ((A i i).re : ℂ) := (hA.coe_re_apply_self i).symm
  rw [hdiag, ← Complex.ofReal_sub, Complex.norm_real, Real.norm_eq_abs] at hi
  have := (le_abs_self _).trans (hi.trans (h i))
  simp only [Pi.zero_apply]
  linarith

end Gershgorin

theorem diagDominant_sound {n : Nat} (R : EMat n n) : R.diagDominant = true → R.toM.PosSemidef := by
  intro h
  simp only [EMat.diagDominant, Bool.and_eq_true, EMat.allFin_iff, decide_eq_true_eq] at h
  obtain ⟨hH, hD⟩ := h
  refine Matrix.posSemidef_of_diagDominant (EMat.isHermitian_sound R hH) fun i => ?_
  have h1 : ((EMat.sumFinQ n (fun j => if j = i then 0 else (R.get i j).abs1) : Rat) : ℝ)
      ≤ (((R.get i i).re : Rat) : ℝ) := by exact_mod_cast hD i
  rw [EMat.sumFinQ_cast] at h1
  refine le_trans ?_ h1
  rw [← Finset.sum_erase_add _ _ (Finset.mem_univ i)]
  simp only [if_true, Rat.cast_zero, add_zero]
  refine Finset.sum_le_sum fun j hj => ?_
  rw [if_neg (Finset.ne_of_mem_erase hj)]
  exact QI.norm_toC_le_abs1 _

theorem psdCert_sound {n k : Nat} (A : EMat n n) (L : EMat n k) :
    EMat.psdCert A L = true → A.toM.PosSemidef := by
  intro h
  simp only [EMat.psdCert, Bool.and_eq_true] at h
  have h1 := diagDominant_sound _ h.2
  rw [EMat.toM_sub, EMat.toM_mul, EMat.toM_ct] at h1
  have h2 : (L.toM * L.toMᴴ).PosSemidef := Matrix.posSemidef_self_mul_conjTranspose _
  have := h1.add h2
  simpa using this

/-! ## The trace inequality behind every weak-duality argument -/

section Trace
variable {ι : Type*} [Fintype ι] [DecidableEq ι]

/-- the trace of a product of two PSD complex matrices has non-negative real part -/
theorem psd_trace_mul_nonneg {A B : Matrix ι ι ℂ} (hA : A.PosSemidef) (hB : B.PosSemidef) :
    0 ≤ (A * B).trace.re := by
  have hS : (CFC.sqrt B).PosSemidef := (CFC.sqrt_nonneg B).posSemidef
  have hB' : CFC.sqrt B * CFC.sqrt B = B := CFC.sqrt_mul_sqrt_self B hB.nonneg
  have hH : (CFC.sqrt B)ᴴ = CFC.sqrt B := hS.isHermitian
  have h : (A * B).trace = (CFC.sqrt B * A * (CFC.sqrt B)ᴴ).trace := by
    rw [hH]
    conv_lhs => rw [← hB', ← Matrix.mul_assoc, Matrix.trace_mul_comm, ← Matrix.mul_assoc]
  rw [h]
  have := (hA.mul_mul_conjTranspose_same (CFC.sqrt B)).trace_nonneg
  exact (Complex.nonneg_iff.mp this).1

end Trace
