import Toq.Model.DiscrimArgs
import Toq.Proofs.Discrim
import Toq.Proofs.DiscrimEldar
/-!
# Helper lemmas for C10: denotation of the argument handling of `state_distinguishability` (`Toq.Model.DiscrimArgs`)
-/

open Matrix
open scoped ComplexOrder MatrixOrder

namespace Toq.Discrim
open EMat

variable {d k : Nat}

/-- the complex `d × k` matrix whose columns are the (denotations of the) vectors -/
def sdVecs (k : Nat) (vs : Fin k → EMat d 1) : Matrix (Fin d) (Fin k) ℂ := fun a j => ((vs j).get a 0).toC

theorem toM_sdStackFn (k : Nat) (vs : Fin k → EMat d 1) : (sdStackFn k vs).toM = sdVecs k vs := by
  ext a j
  simp [sdStackFn, sdVecs, EMat.toM]

/-- `vectors_to_gram_matrix` denotes `VᴴV` -/
theorem toM_sdGramFn (k : Nat) (vs : Fin k → EMat d 1) :
    (sdGramFn k vs).toM = (sdVecs k vs)ᴴ * sdVecs k vs := by
  unfold sdGramFn
  rw [toM_mul, toM_ct, toM_sdStackFn]

/-- `to_density_matrix` of the `j`-th vector denotes `|ψ_j⟩⟨ψ_j|` -/
theorem toM_sdToDensityVec (k : Nat) (vs : Fin k → EMat d 1) (j : Fin k) :
    (sdToDensityVec (vs j)).toM = uaPure (sdVecs k vs) j := by
  unfold sdToDensityVec
  rw [toM_mul, toM_ct]
  ext a b
  simp [Matrix.mul_apply, uaPure, Matrix.vecMulVec_apply, sdVecs, EMat.toM]

theorem sdToDensityVec_psd' (v : EMat d 1) : (sdToDensityVec v).toM.PosSemidef := by
  unfold sdToDensityVec
  rw [toM_mul, toM_ct]
  exact Matrix.posSemidef_self_mul_conjTranspose _

theorem toM_meDualSlack {k : Nat} (ρ : Fin k → EMat d d) (p : Fin k → Rat) (Y : EMat d d) (i : Fin k) :
    (meDualSlack ρ p Y i).toM = Y.toM - (((p i : Rat) : ℝ) : ℂ) • (ρ i).toM := by
  unfold meDualSlack
  rw [toM_sub, toM_smul]

theorem toM_uaPrimalSlack (G : EMat k k) (q : Fin k → Rat) :
    (uaPrimalSlack G q).toM = G.toM - Matrix.diagonal fun i => (((q i : Rat) : ℝ) : ℂ) := by
  unfold uaPrimalSlack
  rw [toM_sub, toM_diagQ]

theorem toM_mePrimalEqResidual (k : Nat) (M : Fin k → EMat d d) :
    (mePrimalEqResidual k M).toM = ∑ i, (M i).toM - 1 := by
  unfold mePrimalEqResidual
  rw [toM_sub, toM_sumMats, toM_one]

/-! ## `np.isclose(v, 1)` -/

theorem sdRatAbs_eq (q : Rat) : sdRatAbs q = |q| := by
  unfold sdRatAbs
  split
  · next h => rw [abs_of_neg h]
  · next h => rw [abs_of_nonneg (not_lt.mp h)]

theorem sdIsclose_iff (a b : Rat) : sdIsclose a b = true ↔ |a - b| ≤ 1 / 100000000 + 1 / 100000 * |b| := by
  simp [sdIsclose, sdRatAbs_eq]

theorem sdDistTest_iff' (v : Rat) : sdDistTest v = true ↔ |v - 1| ≤ 1 / 100000000 + 1 / 100000 := by
  unfold sdDistTest
  rw [sdIsclose_iff]
  simp

/-! ## the front of `state_distinguishability` -/

theorem sdDefaultProbs_none_sum (n : Nat) (hn : n ≠ 0) : (sdDefaultProbs n none).sum = 1 := by
  have : (n : Rat) ≠ 0 := by exact_mod_cast hn
  simp [sdDefaultProbs, List.sum_replicate]
  field_simp

theorem sdHasSameDimension_true_iff (s : SdShape) (rest : List SdShape) :
    sdHasSameDimension (s :: rest) = some true ↔ ∀ t ∈ rest, t.cmpDim = s.cmpDim := by
  simp [sdHasSameDimension, List.all_eq_true]

end Toq.Discrim
