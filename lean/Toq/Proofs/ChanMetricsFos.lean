import Toq.Proofs.PPTDiscHier
import Toq.Proofs.Cert
import Toq.Proofs.ChannelProps
import Toq.Model.ChanMetricsFos
import Mathlib.Analysis.Matrix.Order
import Mathlib.Analysis.Matrix.PosDef
/-!
# The program of the channel `fidelity_of_separability` (C20) at EVERY level `k` and all local dimensions

`toqito/channel_metrics/fidelity_of_separability.py` permutes the input `psi_{BAR}` to `psi_{RAB}`, declares one Hermitian
variable `choi` on `R ⊗ A'^{⊗k}` (`choi_dims = [dR, dA, …, dA]`) and hands picos the program

```
maximise  Re tr( Π_sym(dA, 2) · Tr_{R,B}[ (T_R(psi) ⊗ 1_{A'}) · P(Tr_{A'_2…A'_k} choi ⊗ 1_{B A}) ] )      systems (R, A, B, A')
s.t.      Tr_{A'_1…A'_k} choi = 1_R,    choi ⪰ 0,    (1_R ⊗ Π_sym(dA, k)) choi (1_R ⊗ Π_sym(dA, k)) = choi,
          T_{A'_1 … A'_j}(choi) ⪰ 0   for j = 1 … k
```

and returns `2 · optimum − 1`.  An operator on `R ⊗ A'^{⊗L}` is a matrix indexed by `HIdx m d L = m × (Fin L → Fin d)` (C12's
index type: `m` the index set of `R`, the digit vector lists the copies of `A'` in toqito's order), so C12's lemmas about the
support condition (`sym_iff_isBoseSym`), the marginals (`margTo1`) and product extensions (`prodExt`) are reused.

Results (all `k = ℓ + 1 ≥ 1`, all finite index sets / dimensions):

* `omega_apply`: the operator `Tr_{R,B}[…]` of the objective is `ω[(a,a'),(c,c')] = Σ_{r,r',b} ψ[(r',a,b),(r,c,b)] Γ₁[(r',a'),(r,c')]`
  (the output of the channel with Choi operator `Γ₁` applied to the `R` part of `ψ`);
* `omega_posSemidef`, `trace_omega`: it is a density operator whenever `ψ` is one, `Γ ⪰ 0` and `Tr_{A'} Γ = 1`;
* `obj_le_one`, `obj_nonneg`: so the objective of every feasible point lies in `[0, 1]`  (`Π_sym` is a projector);
* `feasible_product`: the Choi operator `1_R ⊗ (a aᴴ)^{⊗k}` of the replacement channel `X ↦ tr(X) (a aᴴ)^{⊗k}` is feasible at every
  level; `obj_product`: for `ψ = (b ⊗ a ⊗ r)(b ⊗ a ⊗ r)ᴴ` it has objective value `1`.
-/

open Matrix Equiv
open scoped ComplexOrder MatrixOrder Kronecker
set_option linter.unusedSectionVars false

namespace Toq.ChanMetrics.Fos
open Toq.PPTDisc

section Program
variable {m : Type*} [Fintype m] [DecidableEq m] {β : Type*} [Fintype β] [DecidableEq β] {d : ℕ}

/-! ### constraints -/

/-- `partial_trace(choi, [1, …, k], choi_dims)`: trace out every copy of `A'` -/
def margAll {L : ℕ} (X : Matrix (HIdx m d L) (HIdx m d L) ℂ) : Matrix m m ℂ :=
  fun r s => ∑ f : Fin L → Fin d, X (r, f) (s, f)

/-- `partial_transpose(choi, sys, choi_dims)` for a set `S` of copies of `A'` (the code uses `sys = [1, …, j]`, i.e. the
copies `0 … j − 1`) -/
def pTYs {L : ℕ} (S : Fin L → Prop) [DecidablePred S] (X : Matrix (HIdx m d L) (HIdx m d L) ℂ) :
    Matrix (HIdx m d L) (HIdx m d L) ℂ :=
  fun i j => X (i.1, fun t => if S t then j.2 t else i.2 t) (j.1, fun t => if S t then i.2 t else j.2 t)

/-- the constraints of the program at level `k = ℓ + 1`, in the order the code adds them -/
def Feasible (ℓ : ℕ) (Γ : Matrix (HIdx m d (ℓ + 1)) (HIdx m d (ℓ + 1)) ℂ) : Prop :=
  margAll Γ = 1 ∧ Γ.PosSemidef ∧
  ((1 : Matrix m m ℂ) ⊗ₖ symPC d (ℓ + 1)) * Γ * ((1 : Matrix m m ℂ) ⊗ₖ symPC d (ℓ + 1)) = Γ ∧
  ∀ j : Fin (ℓ + 1), (pTYs (fun t => t ≤ j) Γ).PosSemidef

/-! ### objective -/

/-- `permute_systems(psi, [2, 1, 0], [dB, dA, dR])`: `psi_{BAR} ↦ psi_{RAB}` -/
def permBAR (ψ : Matrix (β × Fin d × m) (β × Fin d × m) ℂ) : Matrix (m × Fin d × β) (m × Fin d × β) ℂ :=
  fun i j => ψ (i.2.2, i.2.1, i.1) (j.2.2, j.2.1, j.1)

/-- `partial_transpose(psi, [0], [dR, dA, dB])` -/
def pTR (ψ : Matrix (m × Fin d × β) (m × Fin d × β) ℂ) : Matrix (m × Fin d × β) (m × Fin d × β) ℂ :=
  fun i j => ψ (j.1, i.2) (i.1, j.2)

/-- index set of `R ⊗ A ⊗ B ⊗ A'` (`dim_list = [dR, dA, dB, dA]`) -/
abbrev QIdx (m : Type*) (d : ℕ) (β : Type*) := m × Fin d × β × Fin d

/-- `partial_transpose(psi, [0], psi_dims) ⊗ I(dA)` -/
def psiExt (ψ : Matrix (m × Fin d × β) (m × Fin d × β) ℂ) : Matrix (QIdx m d β) (QIdx m d β) ℂ :=
  fun i j => pTR ψ (i.1, i.2.1, i.2.2.1) (j.1, j.2.1, j.2.2.1) * (if i.2.2.2 = j.2.2.2 then 1 else 0)

/-- `permute_systems(choi_partial ⊗ I(dB·dA), [0, 3, 2, 1], dim_list)`: `choi_partial` acts on the systems `R` and `A'`
(positions 0 and 3), the identity on `A` and `B` -/
def choiExt (G : Matrix (m × Fin d) (m × Fin d) ℂ) : Matrix (QIdx m d β) (QIdx m d β) ℂ :=
  fun i j => G (i.1, i.2.2.2) (j.1, j.2.2.2) * (if i.2.1 = j.2.1 then 1 else 0) * (if i.2.2.1 = j.2.2.1 then 1 else 0)

/-- `partial_trace(·, [0, 2], dim_list)`: trace out `R` and `B`, leaving `A ⊗ A'` -/
def ptrRB (M : Matrix (QIdx m d β) (QIdx m d β) ℂ) : Matrix (Fin d × Fin d) (Fin d × Fin d) ℂ :=
  fun x y => ∑ r, ∑ b, M (r, x.1, b, x.2) (r, y.1, b, y.2)

/-- `symmetric_projection(dA, 2)` on `A ⊗ A'`: `(1 + SWAP)/2` -/
noncomputable def sym2 (d : ℕ) : Matrix (Fin d × Fin d) (Fin d × Fin d) ℂ :=
  fun x y => (1 / 2 : ℂ) * ((if x = y then 1 else 0) + (if x = y.swap then 1 else 0))

/-- `choi_partial = partial_trace(choi, [2, …, k], choi_dims)` read as an operator on `R ⊗ A'` -/
def choi1 (ℓ : ℕ) (Γ : Matrix (HIdx m d (ℓ + 1)) (HIdx m d (ℓ + 1)) ℂ) : Matrix (m × Fin d) (m × Fin d) ℂ :=
  toMN (margTo1 ℓ Γ)

/-- the operator on `A ⊗ A'` inside the objective -/
def omega (ψ : Matrix (m × Fin d × β) (m × Fin d × β) ℂ) (G : Matrix (m × Fin d) (m × Fin d) ℂ) :
    Matrix (Fin d × Fin d) (Fin d × Fin d) ℂ :=
  ptrRB (psiExt ψ * choiExt G)

/-- the objective function: `Re tr(pi_sym · partial_trace(…))` for the permuted state `ψ = psi_{RAB}` -/
noncomputable def obj (ℓ : ℕ) (ψ : Matrix (m × Fin d × β) (m × Fin d × β) ℂ)
    (Γ : Matrix (HIdx m d (ℓ + 1)) (HIdx m d (ℓ + 1)) ℂ) : ℝ :=
  (sym2 d * omega ψ (choi1 ℓ Γ)).trace.re

/-- the simplified form of the operator inside the objective -/
theorem omega_apply (ψ : Matrix (m × Fin d × β) (m × Fin d × β) ℂ) (G : Matrix (m × Fin d) (m × Fin d) ℂ)
    (x y : Fin d × Fin d) :
    omega ψ G x y = ∑ r, ∑ b, ∑ r', ψ (r', x.1, b) (r, y.1, b) * G (r', x.2) (r, y.2) := by
  unfold omega ptrRB
  refine Finset.sum_congr rfl fun r _ => Finset.sum_congr rfl fun b _ => ?_
  simp only [Matrix.mul_apply, psiExt, choiExt, pTR, Fintype.sum_prod_type]
  refine Finset.sum_congr rfl fun r' _ => ?_
  rw [Finset.sum_eq_single y.1]
  · rw [Finset.sum_eq_single b]
    · rw [Finset.sum_eq_single x.2]
      · simp
      · intro c _ hc
        simp [Ne.symm hc]
      · simp
    · intro b' _ hb
      refine Finset.sum_eq_zero fun c _ => ?_
      simp [hb]
    · simp
  · intro a _ ha
    refine Finset.sum_eq_zero fun b' _ => Finset.sum_eq_zero fun c _ => ?_
    simp [ha]
  · simp

/-! ### the operator inside the objective is a density operator -/

/-- `Tr_B ψ` as an operator on `R ⊗ A` -/
def ptrB (ψ : Matrix (m × Fin d × β) (m × Fin d × β) ℂ) : Matrix (m × Fin d) (m × Fin d) ℂ :=
  fun p q => ∑ b, ψ (p.1, p.2, b) (q.1, q.2, b)

theorem ptrB_posSemidef {ψ : Matrix (m × Fin d × β) (m × Fin d × β) ℂ} (h : ψ.PosSemidef) :
    (ptrB ψ).PosSemidef := by
  have e : ptrB ψ = ∑ b : β, ψ.submatrix (fun p : m × Fin d => (p.1, p.2, b)) (fun p => (p.1, p.2, b)) := by
    ext p q; simp [ptrB, Matrix.sum_apply]
  rw [e]; exact Matrix.posSemidef_sum _ fun b _ => h.submatrix _

/-- `𝟙ᵀ ⊗ 1`: the matrix adding up the blocks -/
def blockE (m : Type*) (n : Type*) [DecidableEq n] : Matrix (m × n) n ℂ := fun p y => if p.2 = y then 1 else 0

/-- the sum of all blocks of a positive semidefinite block matrix is positive semidefinite -/
theorem blockSum_posSemidef {n : Type*} [Fintype n] [DecidableEq n] {N : Matrix (m × n) (m × n) ℂ}
    (hN : N.PosSemidef) : (Matrix.of fun x y => ∑ r', ∑ r, N (r', x) (r, y)).PosSemidef := by
  have e : (Matrix.of fun x y => ∑ r', ∑ r, N (r', x) (r, y)) = (blockE m n)ᴴ * N * blockE m n := by
    ext x y
    simp only [Matrix.of_apply, Matrix.mul_apply, Matrix.conjTranspose_apply, blockE, Fintype.sum_prod_type,
      apply_ite star, star_one, star_zero, ite_mul, one_mul, zero_mul, mul_ite, mul_one, mul_zero,
      Finset.sum_ite_eq', Finset.sum_ite_eq, Finset.mem_univ, if_true]
    exact Finset.sum_comm
  rw [e]; exact hN.conjTranspose_mul_mul_same _

/-- the operator inside the objective is positive semidefinite when the state and the (reduced) Choi operator are -/
theorem omega_posSemidef {ψ : Matrix (m × Fin d × β) (m × Fin d × β) ℂ} {G : Matrix (m × Fin d) (m × Fin d) ℂ}
    (hψ : ψ.PosSemidef) (hG : G.PosSemidef) : (omega ψ G).PosSemidef := by
  have hK : ((ptrB ψ) ⊗ₖ G).PosSemidef := (ptrB_posSemidef hψ).kronecker hG
  have hN := hK.submatrix (fun p : m × (Fin d × Fin d) => ((p.1, p.2.1), (p.1, p.2.2)))
  have e : omega ψ G = Matrix.of fun x y => ∑ r', ∑ r,
      (((ptrB ψ) ⊗ₖ G).submatrix (fun p : m × (Fin d × Fin d) => ((p.1, p.2.1), (p.1, p.2.2)))
        (fun p : m × (Fin d × Fin d) => ((p.1, p.2.1), (p.1, p.2.2)))) (r', x) (r, y) := by
    ext x y
    rw [omega_apply]
    simp only [Matrix.of_apply, Matrix.submatrix_apply, Matrix.kroneckerMap_apply, ptrB, Finset.sum_mul]
    refine (Finset.sum_congr rfl fun r _ => Finset.sum_comm).trans ?_
    exact Finset.sum_comm
  rw [e]; exact blockSum_posSemidef hN

/-- the trace of the operator inside the objective: `tr ψ` when the reduced Choi operator is trace preserving -/
theorem trace_omega (ψ : Matrix (m × Fin d × β) (m × Fin d × β) ℂ) (G : Matrix (m × Fin d) (m × Fin d) ℂ)
    (hG : ∀ r r', ∑ c, G (r, c) (r', c) = if r = r' then 1 else 0) : (omega ψ G).trace = ψ.trace := by
  have h1 : ∀ a : Fin d, ∑ a1 : Fin d, omega ψ G (a, a1) (a, a1) = ∑ r, ∑ b, ψ (r, a, b) (r, a, b) := by
    intro a
    simp only [omega_apply]
    rw [Finset.sum_comm]
    refine Finset.sum_congr rfl fun r _ => ?_
    rw [Finset.sum_comm]
    refine Finset.sum_congr rfl fun b _ => ?_
    rw [Finset.sum_comm]
    simp only [← Finset.mul_sum, hG]
    simp
  simp only [Matrix.trace, Matrix.diag_apply, Fintype.sum_prod_type, h1]
  exact Finset.sum_comm

/-- tracing out the last copy does not change the trace over all copies -/
theorem margAll_margLast {L : ℕ} (X : Matrix (HIdx m d (L + 1)) (HIdx m d (L + 1)) ℂ) :
    margAll (margLast X) = margAll X := by
  ext r s
  simp only [margAll, margLast, snocI]
  rw [Finset.sum_comm, ← Fintype.sum_prod_type (f := fun p : Fin d × (Fin L → Fin d) =>
    X (r, Fin.snoc (α := fun _ => Fin d) p.2 p.1) (s, Fin.snoc (α := fun _ => Fin d) p.2 p.1))]
  exact Fintype.sum_equiv (Fin.snocEquiv (fun _ : Fin (L + 1) => Fin d)) _ _ fun p => rfl

/-- the `A'` marginal of `choi_partial` is the marginal of `choi` over all copies -/
theorem choi1_marg : ∀ (ℓ : ℕ) (Γ : Matrix (HIdx m d (ℓ + 1)) (HIdx m d (ℓ + 1)) ℂ) (r r' : m),
    ∑ c, choi1 ℓ Γ (r, c) (r', c) = margAll Γ r r'
  | 0, Γ, r, r' => by
    simp only [choi1, margTo1, toMN, Matrix.submatrix_apply, oneCopy, margAll]
    exact Fintype.sum_equiv (Equiv.funUnique (Fin 1) (Fin d)).symm _ _ fun c => rfl
  | ℓ + 1, Γ, r, r' => by
    have := choi1_marg ℓ (margLast Γ) r r'
    rw [margAll_margLast] at this
    exact this

/-- `SWAP` on `A ⊗ A'` -/
def swapM (d : ℕ) : Matrix (Fin d × Fin d) (Fin d × Fin d) ℂ := fun x y => if x = y.swap then 1 else 0

theorem sym2_eq (d : ℕ) : sym2 d = (1 / 2 : ℂ) • (1 + swapM d) := by
  ext x y
  simp [sym2, swapM, Matrix.one_apply]

theorem swapM_mul_self (d : ℕ) : swapM d * swapM d = 1 := by
  ext x y
  simp only [Matrix.mul_apply, swapM, Matrix.one_apply]
  rw [Finset.sum_eq_single y.swap]
  · simp only [Prod.swap_swap, if_true, mul_one]
  · intro z _ hz
    rw [if_neg hz, mul_zero]
  · simp

theorem swapM_conjTranspose (d : ℕ) : (swapM d)ᴴ = swapM d := by
  ext x y
  simp only [Matrix.conjTranspose_apply, swapM, apply_ite star, star_one, star_zero]
  have : (y = x.swap) ↔ (x = y.swap) := ⟨fun h => by rw [h, Prod.swap_swap], fun h => by rw [h, Prod.swap_swap]⟩
  simp only [this]

/-- `Π_sym(dA, 2)` is positive semidefinite (a Hermitian idempotent) -/
theorem sym2_posSemidef (d : ℕ) : (sym2 d).PosSemidef := by
  have hh : (sym2 d)ᴴ = sym2 d := by
    rw [sym2_eq, Matrix.conjTranspose_smul, Matrix.conjTranspose_add, Matrix.conjTranspose_one, swapM_conjTranspose]
    congr 1
    simp
  have hi : sym2 d * sym2 d = sym2 d := by
    rw [sym2_eq, Matrix.smul_mul, Matrix.mul_smul, smul_smul, Matrix.add_mul, Matrix.mul_add, Matrix.mul_add,
      swapM_mul_self, Matrix.one_mul, Matrix.mul_one, Matrix.one_mul]
    ext x y
    simp only [Matrix.smul_apply, Matrix.add_apply, smul_eq_mul]
    ring
  have : sym2 d = (sym2 d)ᴴ * sym2 d := by rw [hh, hi]
  rw [this]; exact Matrix.posSemidef_conjTranspose_mul_self _

/-- `1 − Π_sym(dA, 2)` (the projector onto the antisymmetric subspace) is positive semidefinite -/
theorem one_sub_sym2_posSemidef (d : ℕ) : (1 - sym2 d).PosSemidef := by
  have hh : (1 - sym2 d)ᴴ = 1 - sym2 d := by
    rw [Matrix.conjTranspose_sub, Matrix.conjTranspose_one, (sym2_posSemidef d).isHermitian.eq]
  have hi : (1 - sym2 d) * (1 - sym2 d) = 1 - sym2 d := by
    have h2 : sym2 d * sym2 d = sym2 d := by
      have := (sym2_posSemidef d)
      rw [sym2_eq, Matrix.smul_mul, Matrix.mul_smul, smul_smul, Matrix.add_mul, Matrix.mul_add, Matrix.mul_add,
        swapM_mul_self, Matrix.one_mul, Matrix.mul_one, Matrix.one_mul]
      ext x y
      simp only [Matrix.smul_apply, Matrix.add_apply, smul_eq_mul]
      ring
    rw [Matrix.sub_mul, Matrix.mul_sub, Matrix.mul_sub, Matrix.one_mul, Matrix.mul_one, Matrix.one_mul, h2]
    abel
  have : 1 - sym2 d = (1 - sym2 d)ᴴ * (1 - sym2 d) := by rw [hh, hi]
  rw [this]; exact Matrix.posSemidef_conjTranspose_mul_self _

/-- the `R ⊗ A'` marginal of a positive semidefinite `choi` is positive semidefinite -/
theorem choi1_posSemidef : ∀ (ℓ : ℕ) {Γ : Matrix (HIdx m d (ℓ + 1)) (HIdx m d (ℓ + 1)) ℂ},
    Γ.PosSemidef → (choi1 ℓ Γ).PosSemidef
  | 0, Γ, h => h.submatrix _
  | ℓ + 1, Γ, h => choi1_posSemidef ℓ (margLast_posSemidef h)

/-- **every feasible point has objective at most 1** (only `choi ⪰ 0` and the trace constraint are used; `ψ` any density
operator on `R ⊗ A ⊗ B`, pure or not) -/
theorem obj_le_one (ℓ : ℕ) {ψ : Matrix (m × Fin d × β) (m × Fin d × β) ℂ} (hψ : ψ.PosSemidef) (htr : ψ.trace = 1)
    {Γ : Matrix (HIdx m d (ℓ + 1)) (HIdx m d (ℓ + 1)) ℂ} (hΓ : Γ.PosSemidef) (hm : margAll Γ = 1) :
    obj ℓ ψ Γ ≤ 1 := by
  have hω := omega_posSemidef hψ (choi1_posSemidef ℓ hΓ)
  have ht : (omega ψ (choi1 ℓ Γ)).trace = 1 := by
    rw [trace_omega ψ _ fun r r' => by rw [choi1_marg, hm, Matrix.one_apply], htr]
  have h0 := psd_trace_mul_nonneg (one_sub_sym2_posSemidef d) hω
  rw [Matrix.sub_mul, Matrix.one_mul, Matrix.trace_sub, ht, Complex.sub_re, Complex.one_re] at h0
  unfold obj
  linarith

/-- every feasible point has a non-negative objective -/
theorem obj_nonneg (ℓ : ℕ) {ψ : Matrix (m × Fin d × β) (m × Fin d × β) ℂ} (hψ : ψ.PosSemidef)
    {Γ : Matrix (HIdx m d (ℓ + 1)) (HIdx m d (ℓ + 1)) ℂ} (hΓ : Γ.PosSemidef) : 0 ≤ obj ℓ ψ Γ :=
  psd_trace_mul_nonneg (sym2_posSemidef d) (omega_posSemidef hψ (choi1_posSemidef ℓ hΓ))

/-! ### the replacement channel `X ↦ tr(X) (a aᴴ)^{⊗k}` -/

/-- its Choi operator `1_R ⊗ (a aᴴ)^{⊗L}` -/
def replChoi (m : Type*) [DecidableEq m] {d : ℕ} (L : ℕ) (a : Fin d → ℂ) : Matrix (HIdx m d L) (HIdx m d L) ℂ :=
  prodExt (1 : Matrix m m ℂ) (fun _ : Fin L => a)

theorem margAll_prodExt {L : ℕ} (A : Matrix m m ℂ) (a : Fin d → ℂ) (ha : a ⬝ᵥ star a = 1) :
    margAll (prodExt A (fun _ : Fin L => a)) = A := by
  ext r s
  simp only [margAll, prodExt_apply]
  rw [← Finset.mul_sum, ← Fintype.prod_sum (fun (_ : Fin L) (c : Fin d) => a c * star (a c))]
  have : ∑ c, a c * star (a c) = 1 := by simpa [dotProduct] using ha
  simp only [this, Finset.prod_const_one, mul_one]

theorem pTYs_prodExt {L : ℕ} (S : Fin L → Prop) [DecidablePred S] (A : Matrix m m ℂ) (b : Fin L → Fin d → ℂ) :
    pTYs S (prodExt A b) = prodExt A (fun t => if S t then star (b t) else b t) := by
  ext i j
  simp only [pTYs, prodExt_apply]
  congr 1
  refine Finset.prod_congr rfl fun t _ => ?_
  by_cases ht : S t
  · simp only [if_pos ht, Pi.star_apply, star_star]
    ring
  · simp only [if_neg ht]

/-- **the explicit feasible point**: `1_R ⊗ (a aᴴ)^{⊗k}` satisfies every constraint of the program at every level
`k = ℓ + 1`, for every unit vector `a` -/
theorem feasible_product (ℓ : ℕ) (a : Fin d → ℂ) (ha : a ⬝ᵥ star a = 1) :
    Feasible ℓ (replChoi m (ℓ + 1) a) := by
  refine ⟨margAll_prodExt _ a ha, prodExt_posSemidef Matrix.PosSemidef.one _, ?_, fun j => ?_⟩
  · exact (sym_iff_isBoseSym _).mpr (prodExt_isBoseSym _ a)
  · unfold replChoi
    rw [pTYs_prodExt]
    exact prodExt_posSemidef Matrix.PosSemidef.one _

theorem choi1_replChoi (ℓ : ℕ) (a : Fin d → ℂ) (ha : a ⬝ᵥ star a = 1) (p q : m × Fin d) :
    choi1 ℓ (replChoi m (ℓ + 1) a) p q = (if p.1 = q.1 then 1 else 0) * (a p.2 * star (a q.2)) := by
  unfold choi1 replChoi
  rw [margTo1_prodExt _ a ha]
  simp [toMN, oneCopy, prodExt_apply, Matrix.one_apply]

/-- the pure product state `(b ⊗ a ⊗ r)(b ⊗ a ⊗ r)ᴴ` on `B ⊗ A ⊗ R` (the order in which the function takes it) -/
def prodState (vb : β → ℂ) (va : Fin d → ℂ) (vr : m → ℂ) : Matrix (β × Fin d × m) (β × Fin d × m) ℂ :=
  vecMulVec (fun i => vb i.1 * va i.2.1 * vr i.2.2) (star fun i => vb i.1 * va i.2.1 * vr i.2.2)

theorem prodState_posSemidef (vb : β → ℂ) (va : Fin d → ℂ) (vr : m → ℂ) : (prodState vb va vr).PosSemidef :=
  Matrix.posSemidef_vecMulVec_self_star _

theorem permBAR_posSemidef {ψ : Matrix (β × Fin d × m) (β × Fin d × m) ℂ} (h : ψ.PosSemidef) :
    (permBAR ψ).PosSemidef := h.submatrix _

/-- the reordering `(r, a, b) ↦ (b, a, r)` -/
def barEquiv (m : Type*) (d : ℕ) (β : Type*) : m × Fin d × β ≃ β × Fin d × m where
  toFun i := (i.2.2, i.2.1, i.1)
  invFun j := (j.2.2, j.2.1, j.1)
  left_inv _ := rfl
  right_inv _ := rfl

theorem trace_permBAR (ψ : Matrix (β × Fin d × m) (β × Fin d × m) ℂ) : (permBAR ψ).trace = ψ.trace := by
  simp only [Matrix.trace, Matrix.diag_apply]
  exact Fintype.sum_equiv (barEquiv m d β) _ _ fun i => rfl

theorem trace_prodState (vb : β → ℂ) (va : Fin d → ℂ) (vr : m → ℂ) (hb : vb ⬝ᵥ star vb = 1)
    (ha : va ⬝ᵥ star va = 1) (hr : vr ⬝ᵥ star vr = 1) : (prodState vb va vr).trace = 1 := by
  have hb' : ∑ c, vb c * star (vb c) = 1 := by simpa [dotProduct] using hb
  have ha' : ∑ c, va c * star (va c) = 1 := by simpa [dotProduct] using ha
  have hr' : ∑ c, vr c * star (vr c) = 1 := by simpa [dotProduct] using hr
  simp only [Matrix.trace, Matrix.diag_apply, prodState, Matrix.vecMulVec_apply, Pi.star_apply, star_mul',
    Fintype.sum_prod_type]
  have : ∀ (x : β) (y : Fin d) (z : m), vb x * va y * vr z * (star (vb x) * star (va y) * star (vr z))
      = (vb x * star (vb x)) * ((va y * star (va y)) * (vr z * star (vr z))) := by
    intro x y z; ring
  simp only [this, ← Finset.mul_sum, hr', ha', hb', mul_one]

/-- **the feasible point attains 1**: for unit vectors `b, a, r` the objective of `1_R ⊗ (a aᴴ)^{⊗k}` for the state
`(b ⊗ a ⊗ r)(b ⊗ a ⊗ r)ᴴ` is exactly 1 -/
theorem obj_product (ℓ : ℕ) (vb : β → ℂ) (va : Fin d → ℂ) (vr : m → ℂ) (hb : vb ⬝ᵥ star vb = 1)
    (ha : va ⬝ᵥ star va = 1) (hr : vr ⬝ᵥ star vr = 1) :
    obj ℓ (permBAR (prodState vb va vr)) (replChoi m (ℓ + 1) va) = 1 := by
  have hb' : ∑ c, vb c * star (vb c) = 1 := by simpa [dotProduct] using hb
  have ha' : ∑ c, va c * star (va c) = 1 := by simpa [dotProduct] using ha
  have hr' : ∑ c, vr c * star (vr c) = 1 := by simpa [dotProduct] using hr
  have hω : ∀ x y : Fin d × Fin d, omega (permBAR (prodState vb va vr)) (choi1 ℓ (replChoi m (ℓ + 1) va)) x y
      = (va x.1 * va x.2) * star (va y.1 * va y.2) := by
    intro x y
    rw [omega_apply]
    simp only [choi1_replChoi ℓ va ha, permBAR, prodState, Matrix.vecMulVec_apply, Pi.star_apply, star_mul']
    have : ∀ (r : m) (b : β) (r' : m),
        vb b * va x.1 * vr r' * (star (vb b) * star (va y.1) * star (vr r))
          * ((if r' = r then 1 else 0) * (va x.2 * star (va y.2)))
        = (if r' = r then (vr r' * star (vr r)) else 0) * ((vb b * star (vb b))
          * ((va x.1 * va x.2) * (star (va y.1) * star (va y.2)))) := by
      intro r b r'
      split <;> ring
    simp only [this, ← Finset.sum_mul, Finset.sum_ite_eq', Finset.mem_univ, if_true]
    simp only [← Finset.mul_sum, ← Finset.sum_mul, hr', hb']
    ring
  unfold obj
  have ht : (sym2 d * omega (permBAR (prodState vb va vr)) (choi1 ℓ (replChoi m (ℓ + 1) va))).trace = 1 := by
    simp only [Matrix.trace, Matrix.diag_apply, Matrix.mul_apply, hω, sym2]
    have : ∀ x : Fin d × Fin d, ∑ y : Fin d × Fin d,
        (1 / 2 : ℂ) * ((if x = y then 1 else 0) + (if x = y.swap then 1 else 0))
          * ((va y.1 * va y.2) * star (va x.1 * va x.2))
        = (va x.1 * star (va x.1)) * (va x.2 * star (va x.2)) := by
      intro x
      have e : ∀ y : Fin d × Fin d, (1 / 2 : ℂ) * ((if x = y then 1 else 0) + (if x = y.swap then 1 else 0))
          * ((va y.1 * va y.2) * star (va x.1 * va x.2))
          = (if y = x then (1 / 2 : ℂ) * ((va x.1 * va x.2) * star (va x.1 * va x.2)) else 0)
            + (if y = x.swap then (1 / 2 : ℂ) * ((va x.2 * va x.1) * star (va x.1 * va x.2)) else 0) := by
        intro y
        have e1 : (x = y) ↔ (y = x) := eq_comm
        have e2 : (x = y.swap) ↔ (y = x.swap) :=
          ⟨fun h => by rw [h, Prod.swap_swap], fun h => by rw [h, Prod.swap_swap]⟩
        by_cases h1 : y = x
        · by_cases h2 : y = x.swap
          · simp only [e1, e2, if_pos h1, if_pos h2]
            subst h1
            rw [h2]
            simp only [Prod.swap_swap, Prod.fst_swap, Prod.snd_swap]
            have h3 : y.1 = y.2 := by
              have := congrArg Prod.fst h2
              simpa using this
            ring
          · simp only [e1, e2, if_pos h1, if_neg h2]
            subst h1
            ring
        · by_cases h2 : y = x.swap
          · simp only [e1, e2, if_neg h1, if_pos h2]
            subst h2
            simp only [Prod.fst_swap, Prod.snd_swap]
            ring
          · simp only [e1, e2, if_neg h1, if_neg h2]
            ring
      rw [Finset.sum_congr rfl fun y _ => e y]
      simp only [Finset.sum_add_distrib, Finset.sum_ite_eq', Finset.mem_univ, if_true, star_mul']
      ring
    simp only [this, Fintype.sum_prod_type, ← Finset.mul_sum, ← Finset.sum_mul, ha', mul_one]
  rw [ht, Complex.one_re]

/-- **the optimum for a pure product state is exactly 1**, at every level and for all local dimensions: the value 1 is attained
by a feasible point and no feasible point exceeds it -/
theorem optimum_product (ℓ : ℕ) (vb : β → ℂ) (va : Fin d → ℂ) (vr : m → ℂ) (hb : vb ⬝ᵥ star vb = 1)
    (ha : va ⬝ᵥ star va = 1) (hr : vr ⬝ᵥ star vr = 1) :
    IsGreatest {v : ℝ | ∃ Γ : Matrix (HIdx m d (ℓ + 1)) (HIdx m d (ℓ + 1)) ℂ, Feasible ℓ Γ ∧
      obj ℓ (permBAR (prodState vb va vr)) Γ = v} 1 := by
  refine ⟨⟨replChoi m (ℓ + 1) va, feasible_product ℓ va ha, obj_product ℓ vb va vr hb ha hr⟩, ?_⟩
  rintro v ⟨Γ, hΓ, rfl⟩
  refine obj_le_one ℓ (permBAR_posSemidef (prodState_posSemidef vb va vr)) ?_ hΓ.2.1 hΓ.1
  rw [trace_permBAR, trace_prodState vb va vr hb ha hr]

/-! ### the levels are nested -/

theorem pTYs_margLast {L : ℕ} (S : Fin L → Prop) [DecidablePred S] (S' : Fin (L + 1) → Prop) [DecidablePred S']
    (h : ∀ t : Fin L, S' t.castSucc ↔ S t) (X : Matrix (HIdx m d (L + 1)) (HIdx m d (L + 1)) ℂ) :
    pTYs S (margLast X) = margLast (pTYs S' X) := by
  have key : ∀ (u v : Fin L → Fin d) (c : Fin d),
      (Fin.snoc (α := fun _ => Fin d) (fun t => if S t then v t else u t) c : Fin (L + 1) → Fin d)
        = fun t => if S' t then (Fin.snoc (α := fun _ => Fin d) v c : Fin (L + 1) → Fin d) t
            else (Fin.snoc (α := fun _ => Fin d) u c : Fin (L + 1) → Fin d) t := by
    intro u v c
    funext t
    cases t using Fin.lastCases with
    | last => simp
    | cast t =>
      simp only [Fin.snoc_castSucc]
      by_cases ht : S t
      · rw [if_pos ht, if_pos ((h t).mpr ht)]
      · rw [if_neg ht, if_neg (fun h' => ht ((h t).mp h'))]
  ext i j
  simp only [pTYs, margLast, snocI, key]

/-- **a feasible point of level `k + 1` restricts to one of level `k` with the same objective** (trace out the last copy), so the
optimum cannot increase with the level -/
theorem feasible_pred {ℓ : ℕ} {Γ : Matrix (HIdx m d (ℓ + 2)) (HIdx m d (ℓ + 2)) ℂ} (h : Feasible (ℓ + 1) Γ)
    (ψ : Matrix (m × Fin d × β) (m × Fin d × β) ℂ) :
    Feasible ℓ (margLast Γ) ∧ obj ℓ ψ (margLast Γ) = obj (ℓ + 1) ψ Γ := by
  obtain ⟨h1, h2, h3, h4⟩ := h
  refine ⟨⟨by rw [margAll_margLast, h1], margLast_posSemidef h2, ?_, fun j => ?_⟩, rfl⟩
  · exact (sym_iff_isBoseSym _).mpr ((sym_iff_isBoseSym Γ).mp h3).margLast
  · rw [pTYs_margLast (fun t : Fin (ℓ + 1) => t ≤ j) (fun t : Fin (ℓ + 2) => t ≤ j.castSucc) (fun t => by simp)]
    exact margLast_posSemidef (h4 j.castSucc)

/-! ### `Π_sym(dA, 2)` is C12's / C18's projector at `p = 2` -/

/-- the pair `(a, a')` as a digit vector of two copies -/
def pairFn (x : Fin d × Fin d) : Fin 2 → Fin d := ![x.1, x.2]

theorem sym2_eq_symPC (d : ℕ) : sym2 d = (symPC d 2).submatrix pairFn pairFn := by
  ext x y
  have hu : (Finset.univ : Finset (Perm (Fin 2))) = {1, Equiv.swap 0 1} := by decide
  have e1 : (pairFn x = pairFn y ∘ ⇑(1 : Perm (Fin 2))) ↔ x = y := by
    constructor
    · intro h
      have h0 := congrFun h 0
      have h1 := congrFun h 1
      simp [pairFn] at h0 h1
      exact Prod.ext h0 h1
    · rintro rfl; rfl
  have e2 : (pairFn x = pairFn y ∘ ⇑(Equiv.swap (0 : Fin 2) 1)) ↔ x = y.swap := by
    constructor
    · intro h
      have h0 := congrFun h 0
      have h1 := congrFun h 1
      simp [pairFn] at h0 h1
      exact Prod.ext h0 h1
    · rintro rfl
      funext t
      fin_cases t <;> simp [pairFn]
  simp only [sym2, symPC, Matrix.submatrix_apply, Matrix.smul_apply, Matrix.sum_apply, permC, hu, smul_eq_mul]
  rw [Finset.sum_pair (by decide)]
  simp only [e1, e2]
  norm_num [Nat.factorial]

/-! ## the guards: the exact verdicts of the mirror are sound, and exact pure states are accepted -/

section Guards
open Toq.ChannelProps Toq.ChanPropProofs EMat
variable {n k : ℕ}

theorem toC_one' : QI.toC 1 = 1 := by
  apply Complex.ext <;> simp

/-- the cascade reaches the program exactly when the input is a density operator, three dimensions are given and the state is pure -/
theorem fosPath_program_iff' (dens pure : Verdict) (dims : List ℕ) (dR dA dB : ℕ) :
    fosPath dens dims pure = .program dR dA dB ↔ dens = .yes ∧ dims = [dB, dA, dR] ∧ pure = .yes := by
  constructor
  · intro h
    cases dens with
    | no => simp [fosPath] at h
    | unknown => simp [fosPath] at h
    | yes =>
      match dims, h with
      | [b, a, r], h =>
        cases pure with
        | yes =>
          simp only [fosPath, FosPath.program.injEq] at h
          obtain ⟨rfl, rfl, rfl⟩ := h
          simp
        | no => simp [fosPath] at h
        | unknown => simp [fosPath] at h
      | [], h => simp [fosPath] at h
      | [_], h => simp [fosPath] at h
      | [_, _], h => simp [fosPath] at h
      | _ :: _ :: _ :: _ :: _, h => simp [fosPath] at h
  · rintro ⟨rfl, rfl, rfl⟩; rfl

theorem fosPath_notDensity_iff' (dens pure : Verdict) (dims : List ℕ) :
    fosPath dens dims pure = .notDensity ↔ dens = .no := by
  cases dens with
  | no => simp [fosPath]
  | unknown => simp [fosPath]
  | yes =>
    match dims with
    | [b, a, r] => cases pure <;> simp [fosPath]
    | [] => simp [fosPath]
    | [_] => simp [fosPath]
    | [_, _] => simp [fosPath]
    | _ :: _ :: _ :: _ :: _ => simp [fosPath]

theorem fosPath_notTripartite_iff' (dens pure : Verdict) (dims : List ℕ) :
    fosPath dens dims pure = .notTripartite ↔ dens = .yes ∧ dims.length ≠ 3 := by
  cases dens with
  | no => simp [fosPath]
  | unknown => simp [fosPath]
  | yes =>
    match dims with
    | [b, a, r] => cases pure <;> simp [fosPath]
    | [] => simp [fosPath]
    | [_] => simp [fosPath]
    | [_, _] => simp [fosPath]
    | _ :: _ :: _ :: _ :: _ => simp [fosPath]

theorem fosPath_notPure_iff' (dens pure : Verdict) (dims : List ℕ) :
    fosPath dens dims pure = .notPure ↔ dens = .yes ∧ dims.length = 3 ∧ pure = .no := by
  cases dens with
  | no => simp [fosPath]
  | unknown => simp [fosPath]
  | yes =>
    match dims with
    | [b, a, r] => cases pure <;> simp [fosPath]
    | [] => simp [fosPath]
    | [_] => simp [fosPath]
    | [_, _] => simp [fosPath]
    | _ :: _ :: _ :: _ :: _ => simp [fosPath]

theorem traceV_yes_sound (ρ : EMat n n) (h : traceV ρ = .yes) : ρ.toM.trace = 1 := by
  unfold traceV at h
  by_cases h1 : (ρ.trace == 1) = true
  · have : ρ.trace = 1 := by simpa using h1
    rw [← EMat.toC_trace, this]
    exact toC_one'
  · rw [if_neg h1] at h
    split at h <;> exact absurd h (by decide)

theorem traceV_no_sound (ρ : EMat n n) (h : traceV ρ = .no) : ρ.toM.trace ≠ 1 := by
  unfold traceV at h
  by_cases h1 : (ρ.trace == 1) = true
  · rw [if_pos h1] at h; exact absurd h (by decide)
  · rw [if_neg h1] at h
    by_cases h2 : decide (tolOf 1 ≤ (ρ.trace - 1).abs1) = true
    · intro ht
      have e : ρ.trace = 1 := by
        apply QI.toC_injective
        rw [EMat.toC_trace, ht]; exact toC_one'.symm
      rw [e, abs1_sub_self] at h2
      have := tolOf_pos (s := 1) (by norm_num)
      simp only [decide_eq_true_eq] at h2
      exact absurd h2 (not_le.mpr this)
    · rw [if_neg h2] at h; exact absurd h (by decide)

/-- verdict `yes` of the mirrored `is_positive_semidefinite` (any size) -/
theorem psdV_yes_posSemidef (A : EMat n n) (L : Option (EMat n k)) (v : Option (EMat n 1)) :
    psdV A L v = .yes → A.toM.PosSemidef := by
  unfold psdV
  cases hE : eqV A A.ct <;> simp only [reduceCtorEq, false_imp_iff]
  cases L with
  | none =>
    cases v with
    | none => simp
    | some v => by_cases hv : negWitness A v (tolOf (maxAbs1 A)) = true <;> simp [hv]
  | some L =>
    by_cases hL : psdYes A L = true
    · intro _; exact psdCert_sound _ _ hL
    · cases v with
      | none => simp [hL]
      | some v => by_cases hv : negWitness A v (tolOf (maxAbs1 A)) = true <;> simp [hL, hv]

/-- verdict `no` of the mirrored `is_positive_semidefinite`: not Hermitian, or an explicit vector with negative expectation -/
theorem psdV_no_not_posSemidef (A : EMat n n) (L : Option (EMat n k)) (v : Option (EMat n 1)) :
    psdV A L v = .no → ¬ A.toM.PosSemidef := by
  unfold psdV
  cases hE : eqV A A.ct with
  | no =>
    intro _ hP
    have := farApart_ne A A.ct (eqV_no _ _ hE)
    rw [EMat.toM_ct] at this
    exact this hP.isHermitian.eq.symm
  | unknown => simp
  | yes =>
    simp only
    have key : ∀ w : EMat n 1, negWitness A w (tolOf (maxAbs1 A)) = true → ¬ A.toM.PosSemidef := by
      intro w hw hP
      simp only [negWitness, Bool.and_eq_true, decide_eq_true_eq] at hw
      have hq : (star (colVec w) ⬝ᵥ (A.toM *ᵥ colVec w)).re = ((quadForm A w).re : ℝ) := by
        rw [← quadForm_toC]; rfl
      have h1' : (((quadForm A w).re : Rat) : ℝ) < 0 := by exact_mod_cast hw.1.1
      have := (Complex.nonneg_iff.mp (hP.dotProduct_mulVec_nonneg (colVec w))).1
      rw [hq] at this
      linarith
    cases L with
    | none =>
      cases v with
      | none => simp
      | some v =>
        by_cases hv : negWitness A v (tolOf (maxAbs1 A)) = true
        · intro _; exact key v hv
        · simp [hv]
    | some L =>
      by_cases hL : psdYes A L = true
      · simp [hL]
      · cases v with
        | none => simp [hL]
        | some v =>
          by_cases hv : negWitness A v (tolOf (maxAbs1 A)) = true
          · intro _; exact key v hv
          · simp [hL, hv]

/-- verdict `yes` of the mirrored `is_density`: the denotation is a density operator -/
theorem densityV_yes_sound (ρ : EMat n n) (L : Option (EMat n k)) (v : Option (EMat n 1))
    (h : densityV ρ L v = .yes) : ρ.toM.PosSemidef ∧ ρ.toM.trace = 1 := by
  unfold densityV at h
  have h1 : psdV ρ L v = .yes := by
    cases hp : psdV ρ L v <;> cases ht : traceV ρ <;> simp [hp, ht, Verdict.and] at h ⊢
  have h2 : traceV ρ = .yes := by
    cases hp : psdV ρ L v <;> cases ht : traceV ρ <;> simp [hp, ht, Verdict.and] at h ⊢
  exact ⟨psdV_yes_posSemidef ρ L v h1, traceV_yes_sound ρ h2⟩

/-- verdict `no` of the mirrored `is_density`: the denotation is not a density operator -/
theorem densityV_no_sound (ρ : EMat n n) (L : Option (EMat n k)) (v : Option (EMat n 1))
    (h : densityV ρ L v = .no) : ¬ (ρ.toM.PosSemidef ∧ ρ.toM.trace = 1) := by
  unfold densityV at h
  rintro ⟨hP, hT⟩
  cases hp : psdV ρ L v with
  | no => exact psdV_no_not_posSemidef ρ L v hp hP
  | yes =>
    cases ht : traceV ρ with
    | no => exact traceV_no_sound ρ ht hT
    | yes => simp [hp, ht, Verdict.and] at h
    | unknown => simp [hp, ht, Verdict.and] at h
  | unknown =>
    cases ht : traceV ρ with
    | no => exact traceV_no_sound ρ ht hT
    | yes => simp [hp, ht, Verdict.and] at h
    | unknown => simp [hp, ht, Verdict.and] at h

/-- verdict `yes` of the mirrored `is_pure`: the denotation is idempotent (with trace 1: a rank-one projector) -/
theorem pureV_yes_sound (ρ : EMat n n) (h : pureV ρ = .yes) : ρ.toM * ρ.toM = ρ.toM := by
  unfold pureV at h
  by_cases h1 : (ρ.mul ρ).beq ρ = true
  · have := (beq_iff _ _).mp h1
    rwa [EMat.toM_mul] at this
  · rw [if_neg h1] at h
    split at h <;> exact absurd h (by decide)

/-- verdict `no` of the mirrored `is_pure`: the denotation is not of the form `v vᴴ` with a unit vector `v` -/
theorem pureV_no_sound (ρ : EMat n n) (h : pureV ρ = .no) :
    ¬ ∃ v : Fin n → ℂ, v ⬝ᵥ star v = 1 ∧ ρ.toM = vecMulVec v (star v) := by
  unfold pureV at h
  by_cases h1 : (ρ.mul ρ).beq ρ = true
  · rw [if_pos h1] at h; exact absurd h (by decide)
  · rw [if_neg h1] at h
    rintro ⟨v, hv, hρ⟩
    apply h1
    rw [beq_iff, EMat.toM_mul, hρ]
    ext i j
    simp only [Matrix.mul_apply, Matrix.vecMulVec_apply, Pi.star_apply]
    have : ∀ l, v i * star (v l) * (v l * star (v j)) = v i * star (v j) * (v l * star (v l)) := by
      intro l; ring
    simp only [this, ← Finset.mul_sum]
    have hs : ∑ l, v l * star (v l) = 1 := by simpa [dotProduct] using hv
    rw [hs, mul_one]

/-- a zero matrix is diagonally dominant -/
theorem diagDominant_of_toM_zero (R : EMat n n) (h : R.toM = 0) : R.diagDominant = true := by
  have h0 : ∀ i j, R.get i j = 0 := by
    intro i j
    apply QI.toC_injective
    have := congrFun (congrFun h i) j
    simpa using this
  have hfold : ∀ (l : List (Fin n)) (acc : Rat), l.foldl (fun acc _ => acc) acc = acc := by
    intro l
    induction l with
    | nil => intro acc; rfl
    | cons a t ih => intro acc; exact ih acc
  unfold EMat.diagDominant
  rw [Bool.and_eq_true]
  refine ⟨(isHermitian_iff R).mpr (by rw [h]; exact Matrix.isHermitian_zero), ?_⟩
  rw [EMat.allFin_iff]
  intro i
  have hf : (fun (acc : Rat) (l : Fin n) => acc + if l = i then 0 else QI.abs1 0) = fun acc _ => acc := by
    funext acc l
    split <;> simp [QI.abs1]
  simp only [decide_eq_true_eq, EMat.sumFinQ, h0]
  rw [hf, hfold]
  simp

/-- **exact pure states are accepted**: for an exact unit column vector `w` the state `w wᴴ` with the certificate `L = w` passes
the density and the purity guard (so the cascade builds the program for every list of three dimensions) -/
theorem accepts_pure (w : EMat n 1) (hw : (w.ct.mul w).trace = 1) :
    densityV (w.mul w.ct) (some w) none = .yes ∧ pureV (w.mul w.ct) = .yes := by
  have hone : w.toMᴴ * w.toM = 1 := by
    ext i j
    have hi : i = 0 := Subsingleton.elim _ _
    have hj : j = 0 := Subsingleton.elim _ _
    subst hi; subst hj
    have := congrArg QI.toC hw
    rw [EMat.toC_trace, EMat.toM_mul, EMat.toM_ct] at this
    simpa [Matrix.trace] using this
  have hherm : (w.mul w.ct).toM.IsHermitian := by
    rw [EMat.toM_mul, EMat.toM_ct]
    exact Matrix.isHermitian_mul_conjTranspose_self _
  have hidem : (w.mul w.ct).toM * (w.mul w.ct).toM = (w.mul w.ct).toM := by
    rw [EMat.toM_mul, EMat.toM_ct]
    calc w.toM * w.toMᴴ * (w.toM * w.toMᴴ) = w.toM * (w.toMᴴ * w.toM) * w.toMᴴ := by
          simp only [Matrix.mul_assoc]
      _ = w.toM * w.toMᴴ := by rw [hone, Matrix.mul_one]
  constructor
  · unfold densityV
    have hpsd : psdV (w.mul w.ct) (some w) (none : Option (EMat n 1)) = .yes := by
      unfold psdV
      have hE : eqV (w.mul w.ct) (w.mul w.ct).ct = .yes := by
        rw [eqV_yes, beq_iff, EMat.toM_ct]
        exact hherm.eq.symm
      rw [hE]
      have hc : psdYes (w.mul w.ct) w = true := by
        unfold psdYes EMat.psdCert
        rw [Bool.and_eq_true]
        refine ⟨(isHermitian_iff _).mpr hherm, diagDominant_of_toM_zero _ ?_⟩
        rw [EMat.toM_sub, sub_self]
      simp [hc]
    have htr : traceV (w.mul w.ct) = .yes := by
      unfold traceV
      have : (w.mul w.ct).trace = 1 := by
        apply QI.toC_injective
        rw [EMat.toC_trace, EMat.toM_mul, EMat.toM_ct, Matrix.trace_mul_comm, hone, toC_one']
        simp
      simp [this]
    rw [hpsd, htr]; rfl
  · unfold pureV
    have : ((w.mul w.ct).mul (w.mul w.ct)).beq (w.mul w.ct) = true := by
      rw [beq_iff, EMat.toM_mul]; exact hidem
    simp [this]

/-- a Hermitian idempotent of trace 1 is a pure state `v vᴴ` (a non-zero column `u` is fixed by `ρ`; `ρ − u uᴴ/‖u‖²` is a Hermitian
idempotent of trace 0, hence 0) -/
theorem pure_of_density_idem {ι : Type*} [Fintype ι] [DecidableEq ι] {ρ : Matrix ι ι ℂ} (hh : ρ.IsHermitian)
    (hi : ρ * ρ = ρ) (ht : ρ.trace = 1) : ∃ v : ι → ℂ, v ⬝ᵥ star v = 1 ∧ ρ = vecMulVec v (star v) := by
  -- a non-zero column
  have hne : ∃ j, (fun i => ρ i j) ≠ 0 := by
    by_contra hall
    simp only [not_exists, not_not] at hall
    have : ρ = 0 := by
      ext i j
      exact congrFun (hall j) i
    rw [this, Matrix.trace_zero] at ht
    exact zero_ne_one ht
  obtain ⟨j, hj⟩ := hne
  set u : ι → ℂ := fun i => ρ i j with hu
  have hρu : ρ *ᵥ u = u := by
    funext i
    have := congrFun (congrFun hi i) j
    simpa [Matrix.mul_apply, Matrix.mulVec, dotProduct, hu] using this
  -- its squared norm
  set r : ℝ := ∑ i, Complex.normSq (u i) with hr
  have hr0 : 0 < r := by
    have hnn : ∀ i ∈ Finset.univ, 0 ≤ Complex.normSq (u i) := fun i _ => Complex.normSq_nonneg _
    rcases (Finset.sum_nonneg hnn).lt_or_eq with h | h
    · exact h
    · exfalso
      apply hj
      funext i
      have := (Finset.sum_eq_zero_iff_of_nonneg hnn).mp h.symm i (Finset.mem_univ i)
      exact Complex.normSq_eq_zero.mp this
  have hsum : ∑ i, u i * star (u i) = (r : ℂ) := by
    rw [hr, Complex.ofReal_sum]
    refine Finset.sum_congr rfl fun i _ => ?_
    rw [Complex.star_def, Complex.mul_conj]
  set s : ℝ := Real.sqrt r with hs
  have hs2 : s * s = r := Real.mul_self_sqrt hr0.le
  have hspos : 0 < s := Real.sqrt_pos.mpr hr0
  set v : ι → ℂ := fun i => ((s⁻¹ : ℝ) : ℂ) * u i with hv
  have hsc : ((s⁻¹ : ℝ) : ℂ) * ((s⁻¹ : ℝ) : ℂ) * (r : ℂ) = 1 := by
    rw [← Complex.ofReal_mul, ← Complex.ofReal_mul]
    have : s⁻¹ * s⁻¹ * r = 1 := by
      rw [← hs2]; field_simp
    rw [this]; simp
  have hstar : ∀ i, star (v i) = ((s⁻¹ : ℝ) : ℂ) * star (u i) := by
    intro i
    simp only [hv, star_mul', Complex.star_def, Complex.conj_ofReal]
  have hvv : v ⬝ᵥ star v = 1 := by
    simp only [dotProduct, Pi.star_apply, hstar]
    have : ∀ i, v i * (((s⁻¹ : ℝ) : ℂ) * star (u i)) = ((s⁻¹ : ℝ) : ℂ) * ((s⁻¹ : ℝ) : ℂ) * (u i * star (u i)) := by
      intro i; simp only [hv]; ring
    simp only [this]
    rw [← Finset.mul_sum, hsum, hsc]
  have hρv : ρ *ᵥ v = v := by
    have : v = ((s⁻¹ : ℝ) : ℂ) • u := by funext i; simp [hv]
    rw [this, Matrix.mulVec_smul, hρu]
  refine ⟨v, hvv, ?_⟩
  set P : Matrix ι ι ℂ := vecMulVec v (star v) with hP
  have hPh : Pᴴ = P := by rw [hP, Matrix.conjTranspose_vecMulVec, star_star]
  have hρP : ρ * P = P := by rw [hP, Matrix.mul_vecMulVec, hρv]
  have hPρ : P * ρ = P := by
    have := congrArg Matrix.conjTranspose hρP
    rwa [Matrix.conjTranspose_mul, hPh, hh.eq] at this
  have hPP : P * P = P := by
    rw [hP, Matrix.vecMulVec_mul_vecMulVec]
    have : star v ⬝ᵥ v = 1 := by rw [dotProduct_comm]; exact hvv
    rw [this, one_smul]
  have hQh : (ρ - P)ᴴ = ρ - P := by rw [Matrix.conjTranspose_sub, hh.eq, hPh]
  have hQQ : (ρ - P) * (ρ - P) = ρ - P := by
    rw [Matrix.sub_mul, Matrix.mul_sub, Matrix.mul_sub, hi, hρP, hPρ, hPP]
    abel
  have hQ : (ρ - P).PosSemidef := by
    have : ρ - P = (ρ - P)ᴴ * (ρ - P) := by rw [hQh, hQQ]
    rw [this]; exact Matrix.posSemidef_conjTranspose_mul_self _
  have htr : (ρ - P).trace = 0 := by
    rw [Matrix.trace_sub, ht, hP, Matrix.trace_vecMulVec, hvv, sub_self]
  have := hQ.trace_eq_zero_iff.mp htr
  exact sub_eq_zero.mp this

end Guards

end Program
end Toq.ChanMetrics.Fos
