import Toq.Proofs.Metrics
/-!
# Classical (commuting) case of the state distance measures — all dimensions

For probability vectors `p, q` on a finite index set: classical fidelity `cFid p q = Σ √(p_i q_i)`, classical trace
distance `cTD p q = ½ Σ |p_i − q_i|`, and the laws the property C13 states, proved by algebra for every size.
-/

namespace Toq.Metrics
section Classical
variable {ι : Type*} [Fintype ι]

/-- classical (Bhattacharyya) fidelity `Σ_i √(p_i q_i)` -/
noncomputable def cFid (p q : ι → ℝ) : ℝ := ∑ i, Real.sqrt (p i * q i)

/-- classical trace (total variation) distance `½ Σ_i |p_i − q_i|` -/
noncomputable def cTD (p q : ι → ℝ) : ℝ := (∑ i, |p i - q i|) / 2

/-- probability vector -/
def IsProb (p : ι → ℝ) : Prop := (∀ i, 0 ≤ p i) ∧ ∑ i, p i = 1

theorem cFid_nonneg (p q : ι → ℝ) : 0 ≤ cFid p q :=
  Finset.sum_nonneg fun _ _ => Real.sqrt_nonneg _

theorem cFid_symm (p q : ι → ℝ) : cFid p q = cFid q p := by
  unfold cFid; simp only [mul_comm]

theorem cTD_symm (p q : ι → ℝ) : cTD p q = cTD q p := by
  unfold cTD; simp only [abs_sub_comm]

theorem cTD_nonneg (p q : ι → ℝ) : 0 ≤ cTD p q :=
  div_nonneg (Finset.sum_nonneg fun _ _ => abs_nonneg _) (by norm_num)

theorem cTD_self (p : ι → ℝ) : cTD p p = 0 := by simp [cTD]

theorem cTD_triangle (p q r : ι → ℝ) : cTD p r ≤ cTD p q + cTD q r := by
  unfold cTD
  rw [← add_div, ← Finset.sum_add_distrib]
  refine div_le_div_of_nonneg_right (Finset.sum_le_sum fun i _ => ?_) (by norm_num)
  exact abs_sub_le _ _ _

theorem cTD_eq_zero_iff (p q : ι → ℝ) : cTD p q = 0 ↔ p = q := by
  constructor
  · intro h
    have h0 : ∑ i, |p i - q i| = 0 := by unfold cTD at h; linarith
    have := (Finset.sum_eq_zero_iff_of_nonneg fun i _ => abs_nonneg (p i - q i)).mp h0
    funext i
    exact sub_eq_zero.mp (abs_eq_zero.mp (this i (Finset.mem_univ i)))
  · rintro rfl; exact cTD_self p

theorem cTD_le_one {p q : ι → ℝ} (hp : IsProb p) (hq : IsProb q) : cTD p q ≤ 1 := by
  unfold cTD
  have : ∑ i, |p i - q i| ≤ ∑ i, (p i + q i) := Finset.sum_le_sum fun i _ => by
    rw [abs_le]; constructor <;> linarith [hp.1 i, hq.1 i]
  rw [Finset.sum_add_distrib, hp.2, hq.2] at this
  linarith

/-- `Σ (√p_i − √q_i)² = 2 − 2 F` -/
theorem sum_sqrt_sub_sq {p q : ι → ℝ} (hp : IsProb p) (hq : IsProb q) :
    ∑ i, (Real.sqrt (p i) - Real.sqrt (q i)) ^ 2 = 2 - 2 * cFid p q := by
  have : ∀ i, (Real.sqrt (p i) - Real.sqrt (q i)) ^ 2 = p i + q i - 2 * Real.sqrt (p i * q i) := by
    intro i
    rw [Real.sqrt_mul (hp.1 i), sub_sq, Real.sq_sqrt (hp.1 i), Real.sq_sqrt (hq.1 i)]; ring
  simp only [this, Finset.sum_sub_distrib, Finset.sum_add_distrib, hp.2, hq.2, ← Finset.mul_sum, cFid]
  norm_num

/-- `Σ (√p_i + √q_i)² = 2 + 2 F` -/
theorem sum_sqrt_add_sq {p q : ι → ℝ} (hp : IsProb p) (hq : IsProb q) :
    ∑ i, (Real.sqrt (p i) + Real.sqrt (q i)) ^ 2 = 2 + 2 * cFid p q := by
  have : ∀ i, (Real.sqrt (p i) + Real.sqrt (q i)) ^ 2 = p i + q i + 2 * Real.sqrt (p i * q i) := by
    intro i
    rw [Real.sqrt_mul (hp.1 i), add_sq, Real.sq_sqrt (hp.1 i), Real.sq_sqrt (hq.1 i)]; ring
  simp only [this, Finset.sum_add_distrib, hp.2, hq.2, ← Finset.mul_sum, cFid]
  norm_num

theorem cFid_le_one {p q : ι → ℝ} (hp : IsProb p) (hq : IsProb q) : cFid p q ≤ 1 := by
  have h := sum_sqrt_sub_sq hp hq
  have : 0 ≤ ∑ i, (Real.sqrt (p i) - Real.sqrt (q i)) ^ 2 := Finset.sum_nonneg fun _ _ => sq_nonneg _
  linarith

theorem cFid_self {p : ι → ℝ} (hp : IsProb p) : cFid p p = 1 := by
  unfold cFid
  rw [← hp.2]
  exact Finset.sum_congr rfl fun i _ => Real.sqrt_mul_self (hp.1 i)

theorem cFid_eq_one_iff {p q : ι → ℝ} (hp : IsProb p) (hq : IsProb q) : cFid p q = 1 ↔ p = q := by
  constructor
  · intro h
    have h0 : ∑ i, (Real.sqrt (p i) - Real.sqrt (q i)) ^ 2 = 0 := by rw [sum_sqrt_sub_sq hp hq, h]; norm_num
    have := (Finset.sum_eq_zero_iff_of_nonneg fun i _ => sq_nonneg (Real.sqrt (p i) - Real.sqrt (q i))).mp h0
    funext i
    have hi : Real.sqrt (p i) = Real.sqrt (q i) :=
      sub_eq_zero.mp ((pow_eq_zero_iff (two_ne_zero)).mp (this i (Finset.mem_univ i)))
    calc p i = Real.sqrt (p i) ^ 2 := (Real.sq_sqrt (hp.1 i)).symm
      _ = Real.sqrt (q i) ^ 2 := by rw [hi]
      _ = q i := Real.sq_sqrt (hq.1 i)
  · rintro rfl; exact cFid_self hp

/-- `|p − q| = |√p − √q| (√p + √q)` -/
theorem abs_sub_eq_sqrt_mul {a b : ℝ} (ha : 0 ≤ a) (hb : 0 ≤ b) :
    |a - b| = |Real.sqrt a - Real.sqrt b| * (Real.sqrt a + Real.sqrt b) := by
  have h : a - b = (Real.sqrt a - Real.sqrt b) * (Real.sqrt a + Real.sqrt b) := by
    have := Real.mul_self_sqrt ha
    have := Real.mul_self_sqrt hb
    nlinarith
  rw [h, abs_mul, abs_of_nonneg (add_nonneg (Real.sqrt_nonneg a) (Real.sqrt_nonneg b))]

/-- classical Fuchs–van de Graaf, lower half: `1 − F ≤ T` -/
theorem one_sub_cFid_le_cTD {p q : ι → ℝ} (hp : IsProb p) (hq : IsProb q) : 1 - cFid p q ≤ cTD p q := by
  have h := sum_sqrt_sub_sq hp hq
  have hle : ∑ i, (Real.sqrt (p i) - Real.sqrt (q i)) ^ 2 ≤ ∑ i, |p i - q i| := by
    refine Finset.sum_le_sum fun i _ => ?_
    rw [abs_sub_eq_sqrt_mul (hp.1 i) (hq.1 i), ← sq_abs, sq]
    refine mul_le_mul_of_nonneg_left ?_ (abs_nonneg _)
    rw [abs_le]
    constructor <;> linarith [Real.sqrt_nonneg (p i), Real.sqrt_nonneg (q i)]
  unfold cTD
  linarith

/-- classical Fuchs–van de Graaf, upper half: `T² + F² ≤ 1` -/
theorem cTD_sq_add_cFid_sq_le_one {p q : ι → ℝ} (hp : IsProb p) (hq : IsProb q) :
    cTD p q ^ 2 + cFid p q ^ 2 ≤ 1 := by
  have hcs := Finset.sum_mul_sq_le_sq_mul_sq Finset.univ
    (fun i => |Real.sqrt (p i) - Real.sqrt (q i)|) (fun i => Real.sqrt (p i) + Real.sqrt (q i))
  have e1 : ∑ i, |Real.sqrt (p i) - Real.sqrt (q i)| * (Real.sqrt (p i) + Real.sqrt (q i)) = ∑ i, |p i - q i| :=
    Finset.sum_congr rfl fun i _ => (abs_sub_eq_sqrt_mul (hp.1 i) (hq.1 i)).symm
  have e2 : ∑ i, |Real.sqrt (p i) - Real.sqrt (q i)| ^ 2 = 2 - 2 * cFid p q := by
    rw [← sum_sqrt_sub_sq hp hq]; exact Finset.sum_congr rfl fun i _ => sq_abs _
  rw [e1, e2, sum_sqrt_add_sq hp hq] at hcs
  unfold cTD
  nlinarith

theorem cTD_le_sqrt {p q : ι → ℝ} (hp : IsProb p) (hq : IsProb q) :
    cTD p q ≤ Real.sqrt (1 - cFid p q ^ 2) := by
  refine Real.le_sqrt_of_sq_le ?_
  linarith [cTD_sq_add_cFid_sq_le_one hp hq]

/-- orthogonal supports: `p_i q_i = 0` for all `i` gives `F = 0` and `T = 1` -/
theorem cFid_eq_zero_of_disjoint {p q : ι → ℝ} (h : ∀ i, p i * q i = 0) : cFid p q = 0 := by
  unfold cFid; simp [h]

theorem cTD_eq_one_of_disjoint {p q : ι → ℝ} (hp : IsProb p) (hq : IsProb q) (h : ∀ i, p i * q i = 0) :
    cTD p q = 1 := by
  have h1 := one_sub_cFid_le_cTD hp hq
  rw [cFid_eq_zero_of_disjoint h] at h1
  linarith [cTD_le_one hp hq]

end Classical
end Toq.Metrics
