import Toq.Proofs.MetricsExtreme
/-!
# Sub-fidelity `≤ F²`, and the closed form `tr √(√ρ σ √ρ)` is attained in Watrous' program

`subfid_scalar` is the scalar core (`Σ s² + √(2[(Σ s²)² − Σ s⁴]) ≤ (Σ s)²`); `docFid` is the documented closed form (with
`CFC.sqrt`), `exists_rootConj_spectral` expresses `docFid`, `tr(ρσ)`, `tr(ρσρσ)` through the eigenvalues of `√ρ σ √ρ`;
`docFid_le_fidV` exhibits the feasible point `X = √ρ · g(M) · √ρ σ` with `g` the pseudo-inverse square root of `M = √ρ σ √ρ`.
-/

open Matrix
open scoped ComplexOrder MatrixOrder

set_option linter.unusedSectionVars false

namespace Toq.Metrics

section Scalar
variable {ι : Type*} [Fintype ι] [DecidableEq ι]

/-- scalar core of `sub-fidelity ≤ F²`: for `s_i ≥ 0`,
`Σ s_i² + √(2[(Σ s_i²)² − Σ s_i⁴]) ≤ (Σ s_i)²` -/
theorem subfid_scalar (s : ι → ℝ) (hs : ∀ i, 0 ≤ s i) :
    ∑ i, s i ^ 2 + Real.sqrt (2 * ((∑ i, s i ^ 2) ^ 2 - ∑ i, s i ^ 4)) ≤ (∑ i, s i) ^ 2 := by
  set o : ι → ι → ℝ := fun i j => if i = j then 0 else s i * s j with ho
  have ho0 : ∀ i j, 0 ≤ o i j := fun i j => by
    simp only [ho]; split_ifs
    · exact le_rfl
    · exact mul_nonneg (hs i) (hs j)
  set T := ∑ i, ∑ j, o i j with hT
  set Q := ∑ i, ∑ j, o i j ^ 2 with hQ
  have eT : T = (∑ i, s i) ^ 2 - ∑ i, s i ^ 2 := by
    have : ∀ i, ∑ j, o i j = s i * (∑ j, s j) - s i ^ 2 := by
      intro i
      have : ∀ j, o i j = s i * s j - (if i = j then s i * s j else 0) := by
        intro j; simp only [ho]; split_ifs <;> ring
      simp only [this, Finset.sum_sub_distrib, Finset.sum_ite_eq, Finset.mem_univ, if_true, ← Finset.mul_sum]
      ring
    rw [hT]; simp only [this, Finset.sum_sub_distrib, ← Finset.sum_mul]; ring
  have eQ : Q = (∑ i, s i ^ 2) ^ 2 - ∑ i, s i ^ 4 := by
    have : ∀ i, ∑ j, o i j ^ 2 = s i ^ 2 * (∑ j, s j ^ 2) - s i ^ 4 := by
      intro i
      have : ∀ j, o i j ^ 2 = s i ^ 2 * s j ^ 2 - (if i = j then s i ^ 2 * s j ^ 2 else 0) := by
        intro j; simp only [ho]; split_ifs <;> ring
      simp only [this, Finset.sum_sub_distrib, Finset.sum_ite_eq, Finset.mem_univ, if_true, ← Finset.mul_sum]
      ring
    rw [hQ]; simp only [this, Finset.sum_sub_distrib, ← Finset.sum_mul]; ring
  have hT0 : 0 ≤ T := Finset.sum_nonneg fun i _ => Finset.sum_nonneg fun j _ => ho0 i j
  have pair : ∀ i j, i ≠ j → o i j + o j i ≤ T := by
    intro i j hij
    have e : T = ∑ p ∈ (Finset.univ : Finset (ι × ι)), o p.1 p.2 := by
      rw [hT, ← Finset.sum_product']; rfl
    rw [e]
    have hne : ((i, j) : ι × ι) ≠ (j, i) := fun h => hij (Prod.ext_iff.mp h).1
    have := Finset.sum_le_sum_of_subset_of_nonneg (f := fun p : ι × ι => o p.1 p.2)
      (Finset.subset_univ ({(i, j), (j, i)} : Finset (ι × ι))) fun p _ _ => ho0 p.1 p.2
    rwa [Finset.sum_pair hne] at this
  have key : 2 * Q ≤ T ^ 2 := by
    have : T ^ 2 = ∑ i, ∑ j, o i j * T := by
      rw [sq, hT, Finset.sum_mul]; refine Finset.sum_congr rfl fun i _ => ?_; rw [Finset.sum_mul]
    rw [this, hQ, Finset.mul_sum]
    refine Finset.sum_le_sum fun i _ => ?_
    rw [Finset.mul_sum]
    refine Finset.sum_le_sum fun j _ => ?_
    by_cases hij : i = j
    · have : o i j = 0 := by simp [ho, hij]
      rw [this]; simp
    · have hsym : o j i = o i j := by
        simp only [ho, if_neg hij, if_neg (Ne.symm hij)]; ring
      have := pair i j hij
      rw [hsym] at this
      nlinarith [ho0 i j]
  rw [← eQ]
  have : Real.sqrt (2 * Q) ≤ T := by
    rw [show T = Real.sqrt (T ^ 2) from (Real.sqrt_sq hT0).symm]
    exact Real.sqrt_le_sqrt key
  linarith

end Scalar

section SubFid
variable {ι : Type*} [Fintype ι] [DecidableEq ι]

/-- the square root of `U diag(f) Uᴴ` is `U diag(√f) Uᴴ` -/
theorem sqrt_conjDiag {U : Matrix ι ι ℂ} (hU : Uᴴ * U = 1) {f : ι → ℝ} (hf : ∀ i, 0 ≤ f i) :
    CFC.sqrt (conjDiag U f) = conjDiag U (fun i => Real.sqrt (f i)) := by
  refine CFC.sqrt_unique ?_ (conjDiag_posSemidef U fun i => Real.sqrt_nonneg _).nonneg
  rw [conjDiag_mul hU]; congr 1; funext i; exact Real.mul_self_sqrt (hf i)

/-- the fidelity as documented by toqito: `tr √(√ρ σ √ρ)` -/
noncomputable def docFid (ρ σ : Matrix ι ι ℂ) : ℝ := (CFC.sqrt (CFC.sqrt ρ * σ * CFC.sqrt ρ)).trace.re

/-- sub-fidelity `E(ρ, σ) = tr(ρσ) + √(2[(tr ρσ)² − tr(ρσρσ)])` -/
noncomputable def subFidV (ρ σ : Matrix ι ι ℂ) : ℝ :=
  (ρ * σ).trace.re + Real.sqrt (2 * ((ρ * σ).trace.re ^ 2 - (ρ * σ * (ρ * σ)).trace.re))

theorem rootConj_posSemidef {ρ σ : Matrix ι ι ℂ} (hσ : σ.PosSemidef) :
    (CFC.sqrt ρ * σ * CFC.sqrt ρ).PosSemidef := by
  have := hσ.conjTranspose_mul_mul_same (CFC.sqrt ρ)
  rwa [((CFC.sqrt_nonneg ρ).posSemidef).isHermitian.eq] at this

/-- spectral data of `M = √ρ σ √ρ` -/
theorem exists_rootConj_spectral {ρ σ : Matrix ι ι ℂ} (hρ : ρ.PosSemidef) (hσ : σ.PosSemidef) :
    ∃ (U : Matrix ι ι ℂ) (lam : ι → ℝ), Uᴴ * U = 1 ∧ U * Uᴴ = 1 ∧ (∀ i, 0 ≤ lam i) ∧
      CFC.sqrt ρ * σ * CFC.sqrt ρ = conjDiag U lam ∧ docFid ρ σ = ∑ i, Real.sqrt (lam i) ∧
      (ρ * σ).trace.re = ∑ i, lam i ∧ (ρ * σ * (ρ * σ)).trace.re = ∑ i, lam i ^ 2 := by
  set R := CFC.sqrt ρ with hR
  have eR : R * R = ρ := CFC.sqrt_mul_sqrt_self ρ hρ.nonneg
  have hM := rootConj_posSemidef (ρ := ρ) hσ
  obtain ⟨U, lam, hU, hU', hl, hMe⟩ : ∃ (U : Matrix ι ι ℂ) (lam : ι → ℝ), Uᴴ * U = 1 ∧ U * Uᴴ = 1 ∧
      (∀ i, 0 ≤ lam i) ∧ R * σ * R = conjDiag U lam := by
    obtain ⟨U, hU, hU', hMe⟩ := exists_conjDiag hM.isHermitian
    exact ⟨U, _, hU, hU', hM.eigenvalues_nonneg, hMe⟩
  refine ⟨U, lam, hU, hU', hl, hMe, ?_, ?_, ?_⟩
  · unfold docFid
    rw [← hR, hMe, sqrt_conjDiag hU hl, conjDiag_trace_re hU]
  · have : (ρ * σ).trace = (R * σ * R).trace := by
      rw [← eR, Matrix.mul_assoc, Matrix.trace_mul_comm, Matrix.mul_assoc]
    rw [this, hMe, conjDiag_trace_re hU]
  · have : (ρ * σ * (ρ * σ)).trace = (R * σ * R * (R * σ * R)).trace := by
      rw [← eR]
      calc (R * R * σ * (R * R * σ)).trace = (R * (R * σ * R * R * σ)).trace := by simp only [Matrix.mul_assoc]
        _ = ((R * σ * R * R * σ) * R).trace := Matrix.trace_mul_comm _ _
        _ = _ := by simp only [Matrix.mul_assoc]
    rw [this, hMe, conjDiag_mul hU, conjDiag_trace_re hU]
    exact Finset.sum_congr rfl fun i _ => (sq _).symm

theorem docFid_nonneg {ρ σ : Matrix ι ι ℂ} (hρ : ρ.PosSemidef) (hσ : σ.PosSemidef) : 0 ≤ docFid ρ σ := by
  obtain ⟨U, lam, -, -, -, -, hd, -, -⟩ := exists_rootConj_spectral hρ hσ
  rw [hd]; exact Finset.sum_nonneg fun _ _ => Real.sqrt_nonneg _

/-- **sub-fidelity ≤ F²** for the documented fidelity `F = tr √(√ρ σ √ρ)` (Miszczak et al.), all positive semidefinite `ρ`, `σ` -/
theorem subFidV_le_docFid_sq {ρ σ : Matrix ι ι ℂ} (hρ : ρ.PosSemidef) (hσ : σ.PosSemidef) :
    subFidV ρ σ ≤ docFid ρ σ ^ 2 := by
  obtain ⟨U, lam, -, -, hl, -, hd, h1, h2⟩ := exists_rootConj_spectral hρ hσ
  unfold subFidV
  rw [hd, h1, h2]
  have := subfid_scalar (fun i => Real.sqrt (lam i)) fun i => Real.sqrt_nonneg _
  have e2 : ∀ i, Real.sqrt (lam i) ^ 2 = lam i := fun i => Real.sq_sqrt (hl i)
  have e4 : ∀ i, Real.sqrt (lam i) ^ 4 = lam i ^ 2 := fun i => by
    rw [show (4 : ℕ) = 2 * 2 from rfl, pow_mul, e2]
  simp only [e2, e4] at this
  exact this

/-- pseudo-inverse square root -/
noncomputable def pinvSqrt (x : ℝ) : ℝ := if 0 < x then (Real.sqrt x)⁻¹ else 0

theorem pinvSqrt_mul_self {x : ℝ} (hx : 0 ≤ x) : pinvSqrt x * x = Real.sqrt x := by
  unfold pinvSqrt; split_ifs with h
  · have := Real.mul_self_sqrt hx
    have hs : Real.sqrt x ≠ 0 := (Real.sqrt_pos.mpr h).ne'
    field_simp
    linarith
  · have : x = 0 := le_antisymm (not_lt.mp h) hx
    rw [this]; simp

theorem pinvSqrt_idem {x : ℝ} (hx : 0 ≤ x) :
    pinvSqrt x * pinvSqrt x * x * (pinvSqrt x * pinvSqrt x) = pinvSqrt x * pinvSqrt x := by
  unfold pinvSqrt; split_ifs with h
  · have := Real.mul_self_sqrt hx
    have hs : Real.sqrt x ≠ 0 := (Real.sqrt_pos.mpr h).ne'
    have e : (Real.sqrt x)⁻¹ * (Real.sqrt x)⁻¹ * x = 1 := by
      field_simp; linarith
    rw [e, one_mul]
  · simp

/-- **The documented fidelity is attained in Watrous' program**: `tr √(√ρ σ √ρ) ≤ sup { Re tr X : [[ρ, X], [Xᴴ, σ]] ⪰ 0 }`,
for all positive semidefinite `ρ`, `σ` (also singular ones). -/
theorem docFid_le_fidV {ρ σ : Matrix ι ι ℂ} (hρ : ρ.PosSemidef) (hσ : σ.PosSemidef) : docFid ρ σ ≤ fidV ρ σ := by
  obtain ⟨U, lam, hU, hU', hl, hMe, hd, -, -⟩ := exists_rootConj_spectral hρ hσ
  set R := CFC.sqrt ρ with hR
  set S := CFC.sqrt σ with hS
  have hRp : R.PosSemidef := (CFC.sqrt_nonneg ρ).posSemidef
  have hSp : S.PosSemidef := (CFC.sqrt_nonneg σ).posSemidef
  have eR : R * R = ρ := CFC.sqrt_mul_sqrt_self ρ hρ.nonneg
  have eS : S * S = σ := CFC.sqrt_mul_sqrt_self σ hσ.nonneg
  set G := conjDiag U (fun i => pinvSqrt (lam i)) with hG
  have hGH : G.IsHermitian := conjDiag_isHermitian U _
  have hGM : G * (R * σ * R) = conjDiag U (fun i => Real.sqrt (lam i)) := by
    rw [hMe, hG, conjDiag_mul hU]; congr 1; funext i; exact pinvSqrt_mul_self (hl i)
  have hGG : G * G * (R * σ * R) * (G * G) = G * G := by
    rw [hMe, hG, conjDiag_mul hU, conjDiag_mul hU, conjDiag_mul hU]; congr 1; funext i
    exact pinvSqrt_idem (hl i)
  -- the feasible point X = R B with B = G R σ
  set B := G * R * σ with hB
  have hBH : Bᴴ = σ * R * G := by
    rw [hB, Matrix.conjTranspose_mul, Matrix.conjTranspose_mul, hσ.isHermitian.eq, hRp.isHermitian.eq, hGH.eq,
      Matrix.mul_assoc]
  -- E = S R G G R S is a Hermitian idempotent
  set E := S * R * (G * G) * R * S with hE
  have hEH : E.IsHermitian := by
    unfold Matrix.IsHermitian
    rw [hE]
    simp only [Matrix.conjTranspose_mul, hSp.isHermitian.eq, hRp.isHermitian.eq, hGH.eq, Matrix.mul_assoc]
  have hEE : E * E = E := by
    calc E * E = S * R * ((G * G) * (R * (S * S) * R) * (G * G)) * R * S := by
          rw [hE]; simp only [Matrix.mul_assoc]
      _ = E := by rw [eS, hGG]
  have h1E := posSemidef_one_sub_of_idem hEH hEE
  have hrem : (σ - Bᴴ * B).PosSemidef := by
    have := h1E.conjTranspose_mul_mul_same S
    rw [hSp.isHermitian.eq, Matrix.mul_sub, Matrix.sub_mul, Matrix.mul_one, eS] at this
    have e : S * E * S = Bᴴ * B := by
      rw [hBH, hB, hE]
      calc S * (S * R * (G * G) * R * S) * S = (S * S) * R * (G * G) * R * (S * S) := by
            simp only [Matrix.mul_assoc]
        _ = σ * R * G * (G * R * σ) := by rw [eS]; simp only [Matrix.mul_assoc]
    rwa [e] at this
  have hg := posSemidef_fromBlocks_gram R B
  rw [hRp.isHermitian.eq, eR] at hg
  have hsum := hg.add (posSemidef_fromBlocks_diag (Matrix.PosSemidef.zero (n := ι) (R := ℂ)) hrem)
  rw [fromBlocks_add] at hsum
  simp only [add_zero, add_sub_cancel] at hsum
  have hfeas : FidFeasible ρ σ (R * B) := by
    unfold FidFeasible
    rw [Matrix.conjTranspose_mul, hRp.isHermitian.eq]
    exact hsum
  have := le_fidV_gen hfeas
  have etr : (R * B).trace = (conjDiag U (fun i => Real.sqrt (lam i))).trace := by
    rw [← hGM, hB, Matrix.trace_mul_comm]
    simp only [Matrix.mul_assoc]
  rw [etr, conjDiag_trace_re hU, ← hd] at this
  exact this

/-- **sub-fidelity ≤ F²** with `F` the value of the fidelity program -/
theorem subFidV_le_fidV_sq {ρ σ : Matrix ι ι ℂ} (hρ : ρ.PosSemidef) (hσ : σ.PosSemidef) :
    subFidV ρ σ ≤ fidV ρ σ ^ 2 := by
  have h1 := subFidV_le_docFid_sq hρ hσ
  have h2 := docFid_le_fidV hρ hσ
  have h3 := docFid_nonneg hρ hσ
  nlinarith

end SubFid
end Toq.Metrics
