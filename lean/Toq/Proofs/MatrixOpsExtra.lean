import Toq.Proofs.MatrixOps
import Toq.Proofs.MatrixOpsUpb
import Toq.Model.MatrixPredsTol
/-!
# Further lemmas for C16: n-ary tensor products, `unvec` rejections, `majorizes` with its tolerance term, and the readings of the
deciders that had none (`pseudo_unitary`, `stochastic`, `positive`, `mutually_orthogonal`, `orthonormal`, `density`, `ensemble`,
`pure`, `mixed`, `mutually_unbiased_basis`)
-/

namespace Toq.MatrixOps

/-! ## n-ary tensor products -/

theorem foldl_kron_assoc [Semigroup α] : ∀ (l : List (Mat α)) (X b : Mat α),
    l.foldl kron (kron X b) = kron X (l.foldl kron b)
  | [], _, _ => rfl
  | c :: t, X, b => by
    rw [List.foldl_cons, List.foldl_cons, kron_assoc, foldl_kron_assoc t X (kron b c)]

/-- the left fold of `tensor([A_1, …, A_n])` splits at any position:
    `A_1 ⊗ … ⊗ A_n = (A_1 ⊗ … ⊗ A_k) ⊗ (A_{k+1} ⊗ … ⊗ A_n)` -/
theorem kronFold_append [Semigroup α] (a : Mat α) (l1 : List (Mat α)) (b : Mat α) (l2 : List (Mat α)) :
    kronFold a (l1 ++ b :: l2) = kron (kronFold a l1) (kronFold b l2) := by
  unfold kronFold
  rw [List.foldl_append, List.foldl_cons, foldl_kron_assoc]

theorem tensorList_cons [Mul α] (a : Mat α) (l : List (Mat α)) : tensorList (a :: l) = .mat (kronFold a l) := by
  match l with
  | [] => rfl
  | [b] => rfl
  | b :: c :: rest => rfl

/-- `np.kron(np.eye(1), A) = A` and `np.kron(A, np.eye(1)) = A` (entries inside the shape) -/
theorem kron_eye1_left [MulOneClass α] (A : Mat α) :
    (kron eye1 A).r = A.r ∧ (kron eye1 A).c = A.c ∧ ∀ i j, i < A.r → j < A.c → (kron eye1 A).f i j = A.f i j := by
  refine ⟨Nat.one_mul _, Nat.one_mul _, ?_⟩
  intro i j hi hj
  rw [kron_f, Nat.mod_eq_of_lt hi, Nat.mod_eq_of_lt hj]
  show (1 : α) * _ = _
  rw [one_mul]

theorem kron_eye1_right [MulOneClass α] (A : Mat α) :
    (kron A eye1).r = A.r ∧ (kron A eye1).c = A.c ∧ ∀ i j, (kron A eye1).f i j = A.f i j := by
  refine ⟨Nat.mul_one _, Nat.mul_one _, ?_⟩
  intro i j
  rw [kron_f]
  show A.f (i / 1) (j / 1) * (1 : α) = _
  rw [Nat.div_one, Nat.div_one, mul_one]

/-! ## `unvec` -/

theorem unvec_eq_none_iff (v : Nat → α) (size : Nat) (shape : Option (Nat × Nat)) :
    unvec v size shape = none ↔
      (match shape with | none => Nat.sqrt size * Nat.sqrt size | some s => s.1 * s.2) ≠ size := by
  unfold unvec unvecDefault
  cases shape <;> simp

/-! ## `majorizes` with the tolerance term -/

theorem majorizesTol_iff (a b : List Rat) (tol : Rat) :
    majorizesTol a b tol = true ↔ ∀ k, k < max a.length b.length →
      tol + prefixSum (padTo (max a.length b.length) (sortDesc b)) (k + 1)
        ≤ prefixSum (padTo (max a.length b.length) (sortDesc a)) (k + 1) := by
  unfold majorizesTol
  simp only [sortDesc_length]
  have ha : (padTo (max a.length b.length) (sortDesc a)).length = max a.length b.length :=
    padTo_length _ _ (by rw [sortDesc_length]; exact le_max_left _ _)
  have hb : (padTo (max a.length b.length) (sortDesc b)).length = max a.length b.length :=
    padTo_length _ _ (by rw [sortDesc_length]; exact le_max_right _ _)
  rw [majLoop_iff _ _ 0 tol (by rw [ha, hb]), ha]
  simp

end Toq.MatrixOps

namespace Toq.MatrixPreds
open Toq.MatrixOps

/-! ## `Verdict` combinators -/

theorem Verdict.foldl_and_yes : ∀ (l : List Verdict) (acc : Verdict),
    l.foldl Verdict.and acc = .yes ↔ acc = .yes ∧ ∀ v ∈ l, v = .yes
  | [], acc => by simp
  | x :: l, acc => by
    rw [List.foldl_cons, Verdict.foldl_and_yes l (acc.and x), Verdict.and_yes_iff]
    simp only [List.mem_cons, forall_eq_or_imp]
    tauto

theorem Verdict.all_yes_iff (l : List Verdict) : Verdict.all l = .yes ↔ ∀ v ∈ l, v = .yes := by
  unfold Verdict.all
  rw [Verdict.foldl_and_yes]
  simp

theorem Verdict.and_no_iff' (a b : Verdict) : a.and b = .no ↔ a = .no ∨ b = .no := by
  cases a <;> cases b <;> simp [Verdict.and]

theorem Verdict.foldl_and_no : ∀ (l : List Verdict) (acc : Verdict),
    l.foldl Verdict.and acc = .no ↔ acc = .no ∨ ∃ v ∈ l, v = .no
  | [], acc => by simp
  | x :: l, acc => by
    rw [List.foldl_cons, Verdict.foldl_and_no l (acc.and x), Verdict.and_no_iff']
    simp only [List.mem_cons, exists_eq_or_imp]
    tauto

theorem Verdict.all_no_iff (l : List Verdict) : Verdict.all l = .no ↔ ∃ v ∈ l, v = .no := by
  unfold Verdict.all
  rw [Verdict.foldl_and_no]
  simp

theorem Verdict.not_yes_iff (v : Verdict) : v.not = .yes ↔ v = .no := by cases v <;> simp [Verdict.not]
theorem Verdict.not_no_iff (v : Verdict) : v.not = .no ↔ v = .yes := by cases v <;> simp [Verdict.not]

/-! ## readings -/

theorem isSquare_iff' (A : Mat QI) : isSquare A = true ↔ A.r = A.c := by simp [isSquare]

theorem pseudoUnitaryV_yes_iff (A : Mat QI) (p q : Nat) (m : Rat) :
    pseudoUnitaryV A p q m = .yes ↔ A.r = A.c ∧ p + q = A.r ∧
      ∀ i j, i < A.r → j < A.r → (mul (mul (ctranspose A) (signature p q)) A).f i j = (signature p q).f i j := by
  unfold pseudoUnitaryV
  by_cases hsq : isSquare A = true
  · have hAA := (isSquare_iff' A).mp hsq
    simp only [hsq, Bool.not_true, Bool.false_eq_true, ↓reduceIte]
    by_cases hpq : p + q = A.r
    · have : (p + q != A.r) = false := by simp [hpq]
      simp only [this, Bool.false_eq_true, ↓reduceIte]
      rw [eqV_yes_iff _ _ m (by show p + q = A.c; omega) (by show p + q = A.c; omega)]
      constructor
      · intro h
        refine ⟨hAA, hpq, fun i j hi hj => h i j (by show i < A.c; omega) (by show j < A.c; omega)⟩
      · rintro ⟨_, _, h⟩ i j hi hj
        exact h i j (by have : i < A.c := hi; omega) (by have : j < A.c := hj; omega)
    · have : (p + q != A.r) = true := by simp [hpq]
      simp only [this, ↓reduceIte, reduceCtorEq, false_iff]
      rintro ⟨_, h, _⟩; exact hpq h
  · simp only [hsq, Bool.not_false, ↓reduceIte, reduceCtorEq, false_iff]
    rintro ⟨h, _⟩; exact hsq ((isSquare_iff' A).mpr h)

theorem positiveV_yes_iff (A : Mat QI) :
    positiveV A = .yes ↔ ∀ i j, i < A.r → j < A.c → (A.f i j).im = 0 ∧ 0 < (A.f i j).re := by
  unfold positiveV
  by_cases hr : isRealMat A = true
  · simp only [hr, Bool.not_true, Bool.false_eq_true, ↓reduceIte]
    rw [Verdict.ofBool_yes_iff]
    simp only [allBelow_iff, decide_eq_true_eq]
    rw [isRealMat_iff] at hr
    constructor
    · intro h i j hi hj; exact ⟨hr i j hi hj, h i hi j hj⟩
    · intro h i hi j hj; exact (h i j hi hj).2
  · simp only [hr, Bool.not_false, ↓reduceIte, reduceCtorEq, false_iff]
    intro h
    exact hr ((isRealMat_iff A).mpr (fun i j hi hj => (h i j hi hj).1))

theorem stochasticV_yes_iff (A : Mat QI) (k : Nat) (m : Rat) :
    stochasticV A k m = .yes ↔ A.r = A.c ∧ (∀ i j, i < A.r → j < A.c → (A.f i j).im = 0 ∧ 0 ≤ (A.f i j).re) ∧
      ((k = 0 ∨ k = 2) → ∀ j, j < A.c → sumN A.r (fun i => A.f i j) = 1) ∧
      ((k = 1 ∨ k = 2) → ∀ i, i < A.r → sumN A.c (fun j => A.f i j) = 1) := by
  unfold stochasticV
  by_cases hsq : isSquare A = true
  · have hAA := (isSquare_iff' A).mp hsq
    simp only [hsq, Bool.not_true, Bool.false_eq_true, ↓reduceIte]
    rw [Verdict.and_yes_iff, Verdict.and_yes_iff, nonnegativeV_yes_iff]
    have hl : (if (k == 0 || k == 2) = true then
          eqV ⟨1, A.c, fun _ j => sumN A.r (fun i => A.f i j)⟩ (⟨1, A.r, fun _ _ => 1⟩ : Mat QI) m else Verdict.yes) = .yes
        ↔ ((k = 0 ∨ k = 2) → ∀ j, j < A.c → sumN A.r (fun i => A.f i j) = 1) := by
      by_cases c : k = 0 ∨ k = 2
      · have : (k == 0 || k == 2) = true := by simpa using c
        simp only [this, ↓reduceIte, c, true_implies]
        refine (eqV_yes_iff _ _ m ?_ ?_).trans ?_
        · rfl
        · exact hAA
        exact ⟨fun h j hj => h 0 j (by show 0 < 1; omega) hj, fun h i j _ hj => h j hj⟩
      · have : (k == 0 || k == 2) = false := by simpa using c
        simp [this, c]
    have hr : (if (k == 1 || k == 2) = true then
          eqV ⟨1, A.r, fun _ i => sumN A.c (fun j => A.f i j)⟩ (⟨1, A.r, fun _ _ => 1⟩ : Mat QI) m else Verdict.yes) = .yes
        ↔ ((k = 1 ∨ k = 2) → ∀ i, i < A.r → sumN A.c (fun j => A.f i j) = 1) := by
      by_cases c : k = 1 ∨ k = 2
      · have : (k == 1 || k == 2) = true := by simpa using c
        simp only [this, ↓reduceIte, c, true_implies]
        refine (eqV_yes_iff _ _ m ?_ ?_).trans ?_
        · rfl
        · rfl
        exact ⟨fun h i hi => h 0 i (by show 0 < 1; omega) hi, fun h _ i _ hi => h i hi⟩
      · have : (k == 1 || k == 2) = false := by simpa using c
        simp [this, c]
    rw [hl, hr]
    exact ⟨fun ⟨a, b, c⟩ => ⟨hAA, a, b, c⟩, fun ⟨_, a, b, c⟩ => ⟨a, b, c⟩⟩
  · simp only [hsq, Bool.not_false, ↓reduceIte, reduceCtorEq, false_iff]
    rintro ⟨h, _⟩; exact hsq ((isSquare_iff' A).mpr h)

theorem mutuallyOrthogonalV_yes_iff (d n : Nat) (vs : Nat → Nat → QI) (m : Rat) (hn : 2 ≤ n) :
    mutuallyOrthogonalV d n vs m = .ok .yes ↔
      ∀ i j, i < n → j < n → i ≠ j → sumN d (fun k => (vs i k).conj * vs j k) = 0 := by
  unfold mutuallyOrthogonalV
  have : ¬ n ≤ 1 := by omega
  simp only [this, ↓reduceIte, Except.ok.injEq]
  rw [gramOffDiag_yes_iff]
  rfl

theorem orthonormalV_yes_iff (d n : Nat) (vs : Nat → Nat → QI) (m : Rat) (hn : 2 ≤ n) :
    orthonormalV d n vs m = .ok .yes ↔
      (∀ i j, i < n → j < n → i ≠ j → sumN d (fun k => (vs i k).conj * vs j k) = 0) ∧
      (∀ i j, i < n → j < n → sumN d (fun k => vs i k * (vs j k).conj) = if i = j then 1 else 0) := by
  unfold orthonormalV
  have h1 : ¬ n ≤ 1 := by omega
  have hmo := mutuallyOrthogonalV_yes_iff d n vs m hn
  unfold mutuallyOrthogonalV at hmo ⊢
  simp only [h1, ↓reduceIte, Except.ok.injEq, bind, Except.bind, pure, Except.pure] at hmo ⊢
  rw [Verdict.and_yes_iff, hmo]
  refine and_congr_right (fun _ => ?_)
  refine (eqV_yes_iff _ _ m ?_ ?_).trans ?_
  · rfl
  · rfl
  rfl

theorem mutuallyOrthogonalV_error_iff (d n : Nat) (vs : Nat → Nat → QI) (m : Rat) :
    (∃ e, mutuallyOrthogonalV d n vs m = .error e) ↔ n ≤ 1 := by
  unfold mutuallyOrthogonalV
  by_cases h : n ≤ 1 <;> simp [h]

theorem densityV_yes_iff (A : Mat QI) (m : Rat) :
    densityV A m = .yes ↔ A.r = A.c ∧ psdV A m = .yes ∧ traceQ A = 1 := by
  unfold densityV
  by_cases hsq : isSquare A = true
  · have hAA := (isSquare_iff' A).mp hsq
    simp only [hsq, Bool.not_true, Bool.false_eq_true, ↓reduceIte]
    rw [Verdict.and_yes_iff]
    refine (and_congr_right (fun _ => (eqV_yes_iff _ _ m (by rfl) (by rfl)))).trans ?_
    constructor
    · rintro ⟨h1, h2⟩
      exact ⟨hAA, h1, h2 0 0 (by show 0 < 1; omega) (by show 0 < 1; omega)⟩
    · rintro ⟨_, h1, h2⟩
      refine ⟨h1, fun i j hi hj => ?_⟩
      have hi' : i = 0 := by have : i < 1 := hi; omega
      have hj' : j = 0 := by have : j < 1 := hj; omega
      subst hi'; subst hj'
      exact h2
  · simp only [hsq, Bool.not_false, ↓reduceIte, reduceCtorEq, false_iff]
    rintro ⟨h, _⟩; exact hsq ((isSquare_iff' A).mpr h)

theorem ensembleV_yes_iff (ρs : List (Mat QI)) (m : Rat) :
    ensembleV ρs m = .yes ↔ (∀ ρ ∈ ρs, psdV ρ m = .yes) ∧ ρs.foldl (fun acc ρ => acc + traceQ ρ) 0 = 1 := by
  unfold ensembleV
  simp only []
  rw [Verdict.and_yes_iff, Verdict.all_yes_iff]
  refine (and_congr_right (fun _ => (eqV_yes_iff _ _ m (by rfl) (by rfl)))).trans ?_
  constructor
  · rintro ⟨h1, h2⟩
    refine ⟨fun ρ hρ => h1 _ (List.mem_map.mpr ⟨ρ, hρ, rfl⟩), h2 0 0 (by show 0 < 1; omega) (by show 0 < 1; omega)⟩
  · rintro ⟨h1, h2⟩
    refine ⟨fun v hv => ?_, fun i j hi hj => ?_⟩
    · obtain ⟨ρ, hρ, rfl⟩ := List.mem_map.mp hv
      exact h1 ρ hρ
    · have hi' : i = 0 := by have : i < 1 := hi; omega
      have hj' : j = 0 := by have : j < 1 := hj; omega
      subst hi'; subst hj'
      exact h2

theorem pureV_yes_iff (ρ : Mat QI) (m : Rat) :
    pureV ρ m = .yes ↔ densityV ρ m = .yes ∧ (traceQ (mul (force ρ) (force ρ))).re = 1 := by
  unfold pureV
  by_cases hd : densityV ρ m = .yes
  · simp only [hd, bne_self_eq_false, Bool.false_eq_true, ↓reduceIte, true_and]
    split
    · simp [*]
    · split <;> simp [*]
  · have : (densityV ρ m != .yes) = true := by simpa using hd
    simp [this, hd]

theorem pureV_no_iff (ρ : Mat QI) (m : Rat) (hm : 0 < m) :
    pureV ρ m = .no ↔ densityV ρ m = .yes ∧ (traceQ (mul (force ρ) (force ρ))).re ≤ 1 - 2 * m := by
  unfold pureV
  by_cases hd : densityV ρ m = .yes
  · simp only [hd, bne_self_eq_false, Bool.false_eq_true, ↓reduceIte, true_and]
    split
    · rename_i h1
      simp only [reduceCtorEq, false_iff, not_le]
      rw [h1]; linarith
    · split <;> simp [*]
  · have : (densityV ρ m != .yes) = true := by simpa using hd
    simp [this, hd]

theorem mixedV_yes_iff (ρ : Mat QI) (m : Rat) : mixedV ρ m = .yes ↔ pureV ρ m = .no := Verdict.not_yes_iff _
theorem mixedV_no_iff (ρ : Mat QI) (m : Rat) : mixedV ρ m = .no ↔ pureV ρ m = .yes := Verdict.not_no_iff _

theorem pureListV_yes_iff (ρs : List (Mat QI)) (m : Rat) : pureListV ρs m = .yes ↔ ∀ ρ ∈ ρs, pureV ρ m = .yes := by
  unfold pureListV
  rw [Verdict.all_yes_iff]
  constructor
  · intro h ρ hρ; exact h _ (List.mem_map.mpr ⟨ρ, hρ, rfl⟩)
  · intro h v hv
    obtain ⟨ρ, hρ, rfl⟩ := List.mem_map.mp hv
    exact h ρ hρ

theorem pureListV_no_iff (ρs : List (Mat QI)) (m : Rat) : pureListV ρs m = .no ↔ ∃ ρ ∈ ρs, pureV ρ m = .no := by
  unfold pureListV
  rw [Verdict.all_no_iff]
  constructor
  · rintro ⟨v, hv, h⟩
    obtain ⟨ρ, hρ, rfl⟩ := List.mem_map.mp hv
    exact ⟨ρ, hρ, h⟩
  · rintro ⟨ρ, hρ, h⟩
    exact ⟨_, List.mem_map.mpr ⟨ρ, hρ, rfl⟩, h⟩

theorem ratV_yes_iff (x t m : Rat) : ratV x t m = .yes ↔ x = t := by
  unfold ratV
  split
  · simp [*]
  · split <;> simp [*]

/-- reading of the documented definition of mutually unbiased bases as the model decides it -/
theorem mubV_yes_iff (d n : Nat) (w : Nat → Nat → QI) (s : Nat → Rat) (m : Rat) (hd : d ≠ 0) :
    mubV d n w s true m = .yes ↔ n % d = 0 ∧
      (∀ i k l, i < n / d → k < d → l < d →
        normSq (vdot d (w (i * d + k)) (w (i * d + l))) / (s (i * d + k) * s (i * d + l)) = if k = l then 1 else 0) ∧
      (∀ i j k l, i < n / d → j < n / d → i < j → k < d → l < d →
        normSq (vdot d (w (i * d + k)) (w (j * d + l))) / (s (i * d + k) * s (j * d + l)) = 1 / (d : Rat)) := by
  unfold mubV
  simp only [hd, ↓reduceIte]
  by_cases hnd : n % d = 0
  · have : (n % d != 0) = false := by simp [hnd]
    simp only [this, Bool.false_eq_true, ↓reduceIte]
    rw [and_iff_right hnd, Verdict.and_yes_iff, Verdict.all_yes_iff, Verdict.all_yes_iff]
    constructor
    · rintro ⟨hw, hc⟩
      constructor
      · intro i k l hi hk hl
        rw [← ratV_yes_iff _ _ m]
        apply hw
        simp only [List.mem_flatMap, List.mem_range, List.mem_map]
        exact ⟨i, hi, k, hk, l, hl, rfl⟩
      · intro i j k l hi hj hij hk hl
        rw [← ratV_yes_iff _ _ m]
        apply hc
        simp only [List.mem_flatMap, List.mem_range]
        refine ⟨i, hi, j, hj, ?_⟩
        simp only [hij, ↓reduceIte, List.mem_flatMap, List.mem_range, List.mem_map]
        exact ⟨k, hk, l, hl, rfl⟩
    · rintro ⟨hw, hc⟩
      constructor
      · intro v hv
        simp only [List.mem_flatMap, List.mem_range, List.mem_map] at hv
        obtain ⟨i, hi, k, hk, l, hl, rfl⟩ := hv
        rw [ratV_yes_iff]
        exact hw i k l hi hk hl
      · intro v hv
        simp only [List.mem_flatMap, List.mem_range] at hv
        obtain ⟨i, hi, j, hj, hv⟩ := hv
        by_cases hij : i < j
        · simp only [hij, ↓reduceIte, List.mem_flatMap, List.mem_range, List.mem_map] at hv
          obtain ⟨k, hk, l, hl, rfl⟩ := hv
          rw [ratV_yes_iff]
          exact hc i j k l hi hj hij hk hl
        · simp [hij] at hv
  · have : (n % d != 0) = true := by simp [hnd]
    simp [this, hnd]

/-! ## the reshape trick of `is_diagonal` -/

theorem trick_index (n a b' : Nat) (ha : a < n - 1) (hb : b' < n) :
    let k := a * (n + 1) + (b' + 1)
    k / n < n ∧ k % n < n ∧ k / n ≠ k % n := by
  intro k
  have hn : 0 < n := by omega
  have hk : k = a * n + (a + b' + 1) := by show a * (n + 1) + (b' + 1) = _; ring
  by_cases h : a + b' + 1 < n
  · have h1 : k / n = a := by
      rw [hk, Nat.add_comm, Nat.add_mul_div_right _ _ hn, Nat.div_eq_of_lt h]; omega
    have h2 : k % n = a + b' + 1 := by
      rw [hk, Nat.add_comm, Nat.add_mul_mod_self_right, Nat.mod_eq_of_lt h]
    rw [h1, h2]; omega
  · have hk' : k = (a + 1) * n + (a + b' + 1 - n) := by rw [hk]; ring_nf; omega
    have hlt : a + b' + 1 - n < n := by omega
    have h1 : k / n = a + 1 := by
      rw [hk', Nat.add_comm, Nat.add_mul_div_right _ _ hn, Nat.div_eq_of_lt hlt]; omega
    have h2 : k % n = a + b' + 1 - n := by
      rw [hk', Nat.add_comm, Nat.add_mul_mod_self_right, Nat.mod_eq_of_lt hlt]
    rw [h1, h2]; omega

theorem trick_surj (n i j : Nat) (hi : i < n) (hj : j < n) (hij : i ≠ j) :
    ∃ a b', a < n - 1 ∧ b' < n ∧ (a * (n + 1) + (b' + 1)) / n = i ∧ (a * (n + 1) + (b' + 1)) % n = j := by
  have hn : 0 < n := by omega
  rcases Nat.lt_or_gt_of_ne hij with h | h
  · -- i < j : a = i, b' + 1 = j - i
    refine ⟨i, j - i - 1, by omega, by omega, ?_, ?_⟩
    · have hk : i * (n + 1) + (j - i - 1 + 1) = i * n + j := by ring_nf; omega
      rw [hk, Nat.add_comm, Nat.add_mul_div_right _ _ hn, Nat.div_eq_of_lt hj]; omega
    · have hk : i * (n + 1) + (j - i - 1 + 1) = i * n + j := by ring_nf; omega
      rw [hk, Nat.add_comm, Nat.add_mul_mod_self_right, Nat.mod_eq_of_lt hj]
  · -- j < i : a = i - 1, b' + 1 = j + n - i + 1
    refine ⟨i - 1, j + n - i, by omega, by omega, ?_, ?_⟩
    · have hk : (i - 1) * (n + 1) + (j + n - i + 1) = i * n + j := by
        obtain ⟨i', rfl⟩ : ∃ i', i = i' + 1 := ⟨i - 1, by omega⟩
        simp only [Nat.add_sub_cancel]
        have : j + n - (i' + 1) + 1 = j + n - i' := by omega
        rw [this]
        have h3 : i' ≤ j + n := by omega
        zify [h3]
        ring
      rw [hk, Nat.add_comm, Nat.add_mul_div_right _ _ hn, Nat.div_eq_of_lt hj]; omega
    · have hk : (i - 1) * (n + 1) + (j + n - i + 1) = i * n + j := by
        obtain ⟨i', rfl⟩ : ∃ i', i = i' + 1 := ⟨i - 1, by omega⟩
        simp only [Nat.add_sub_cancel]
        have : j + n - (i' + 1) + 1 = j + n - i' := by omega
        rw [this]
        have h3 : i' ≤ j + n := by omega
        zify [h3]
        ring
      rw [hk, Nat.add_comm, Nat.add_mul_mod_self_right, Nat.mod_eq_of_lt hj]

/-- **the reshape trick of `is_diagonal` tests exactly the off-diagonal entries** -/
theorem diagonalTrick_iff (A : Mat QI) : diagonalTrick A = true ↔ diagonalV A = .yes := by
  rw [diagonalV_yes_iff]
  unfold diagonalTrick
  by_cases hsq : isSquare A = true
  · have hAA := (isSquare_iff' A).mp hsq
    simp only [hsq, Bool.not_true, Bool.false_eq_true, ↓reduceIte, allBelow_iff, beq_iff_eq]
    constructor
    · intro h
      refine ⟨hAA, fun i j hi hj hij => ?_⟩
      obtain ⟨a, b', ha, hb, h1, h2⟩ := trick_surj A.r i j hi (hAA ▸ hj) hij
      have := h a ha b' hb
      rwa [h1, h2] at this
    · rintro ⟨_, h⟩ a ha b' hb
      obtain ⟨h1, h2, h3⟩ := trick_index A.r a b' ha hb
      exact h _ _ h1 (hAA ▸ h2) h3
  · simp only [hsq, Bool.not_false, ↓reduceIte, Bool.false_eq_true, false_iff, not_and]
    intro h; exact absurd ((isSquare_iff' A).mpr h) hsq

end Toq.MatrixPreds

namespace Toq.MatrixOps
open scoped Toq.MatrixOps

/-! ## `tensor_comb` -/

theorem mem_productSeqs (n : Nat) : ∀ (k : Nat) (l : List Nat), l ∈ productSeqs n k ↔ l.length = k ∧ ∀ x ∈ l, x < n
  | 0, l => by
    simp only [productSeqs, List.mem_singleton, List.length_eq_zero_iff]
    constructor
    · rintro rfl; simp
    · rintro ⟨h, _⟩; exact h
  | k + 1, l => by
    simp only [productSeqs, List.mem_flatMap, List.mem_range, List.mem_map]
    constructor
    · rintro ⟨i, hi, t, ht, rfl⟩
      obtain ⟨h1, h2⟩ := (mem_productSeqs n k t).mp ht
      exact ⟨by simp [h1], by simpa [hi] using h2⟩
    · rintro ⟨h1, h2⟩
      cases l with
      | nil => simp at h1
      | cons x t =>
        refine ⟨x, h2 x (by simp), t, (mem_productSeqs n k t).mpr ⟨by simpa using h1, fun y hy => h2 y (by simp [hy])⟩, rfl⟩

/-- **density of a product = product of densities**: `(u ⊗ v)(u ⊗ v)ᴴ = (u uᴴ) ⊗ (v vᴴ)` for row vectors `u` (`1 × p`), `v` (`1 × q`) -/
theorem outerConj_kron [CommSemiring α] [StarRing α] (u v : Mat α) (i j : Nat) :
    (outerConj (u.c * v.c) (fun k => (kron u v).f 0 k)).f i j
      = (kron (outerConj u.c (fun k => u.f 0 k)) (outerConj v.c (fun k => v.f 0 k))).f i j := by
  simp only [kron_f, outerConj]
  show u.f (0 / v.r) (i / v.c) * v.f (0 % v.r) (i % v.c) * star (u.f (0 / v.r) (j / v.c) * v.f (0 % v.r) (j % v.c))
      = u.f 0 (i / v.c) * star (u.f 0 (j / v.c)) * (v.f 0 (i % v.c) * star (v.f 0 (j % v.c)))
  rw [Nat.zero_div, Nat.zero_mod, star_mul']
  ring

end Toq.MatrixOps

namespace Toq.MatrixInv
open Matrix

/-- the eigen-branch of `vectors_from_gram_matrix` (after toqito commit 4c1ddd1): with `G = B Bᴴ` (`B = V·√D` from `eigh`),
    `Bᴴ = Q T` a QR factorisation (`QᴴQ = 1`) and unit-modulus phases `p`, the matrix `L = (diag(conj p)·T)ᴴ` satisfies `L Lᴴ = G`;
    the code returns the conjugated rows of `L`, exactly as the Cholesky branch does -/
theorem gram_eig_branch_factor {n m l : Type} [Fintype n] [Fintype m] [Fintype l] [DecidableEq l] {R : Type} [CommRing R] [StarRing R]
    (B : Matrix n m R) (Q : Matrix m l R) (T : Matrix l n R) (p : l → R) (hQ : Qᴴ * Q = 1) (hB : Bᴴ = Q * T)
    (hp : ∀ i, p i * star (p i) = 1) :
    (diagonal (fun i => star (p i)) * T)ᴴ * ((diagonal (fun i => star (p i)) * T)ᴴ)ᴴ = B * Bᴴ := by
  have hD : (diagonal (fun i => star (p i)))ᴴ * diagonal (fun i => star (p i)) = (1 : Matrix l l R) := by
    rw [diagonal_conjTranspose, diagonal_mul_diagonal]
    have : (fun i => star (fun i => star (p i)) i * star (p i)) = fun _ => (1 : R) := by
      funext i; simp [hp i]
    rw [this, diagonal_one]
  have hBB : B * Bᴴ = Tᴴ * T := by
    calc B * Bᴴ = (Bᴴ)ᴴ * Bᴴ := by rw [conjTranspose_conjTranspose]
      _ = (Q * T)ᴴ * (Q * T) := by rw [hB]
      _ = Tᴴ * (Qᴴ * Q) * T := by rw [conjTranspose_mul]; simp only [Matrix.mul_assoc]
      _ = Tᴴ * T := by rw [hQ, Matrix.mul_one]
  rw [hBB, conjTranspose_conjTranspose, conjTranspose_mul]
  calc Tᴴ * (diagonal fun i => star (p i))ᴴ * ((diagonal fun i => star (p i)) * T)
      = Tᴴ * ((diagonal fun i => star (p i))ᴴ * (diagonal fun i => star (p i))) * T := by simp only [Matrix.mul_assoc]
    _ = Tᴴ * T := by rw [hD, Matrix.mul_one]

end Toq.MatrixInv
