import Toq.Proofs.Xor
import Mathlib.LinearAlgebra.Matrix.Kronecker

/-!
# Tsirelson's theorem, constructive direction (C08)

Unit vectors `u_x, v_y ∈ ℝⁿ` are realised by a finite-dimensional quantum strategy:

* `exists_clifford`     — `n` pairwise anticommuting Hermitian involutions `G_1 … G_n` on `ℂ^(2^n)`, built by the block
  recursion `X ⊗ 1, Z ⊗ G_1, …, Z ⊗ G_n`;
* `cliffObs G u = Σ u_i G_i` — Hermitian, `A_u A_v + A_v A_u = 2⟨u,v⟩`, hence `A_u² = 1` for unit `u` and
  `tr(A_u A_v) = ⟨u,v⟩·D`;
* `maxEnt` — the maximally entangled state; `⟨Φ| A ⊗ Bᵀ |Φ⟩ = tr(AB)/D`;
* `tsirelson_realise`, `tsirelson_moment_realise` — the strategy `(|Φ⟩⟨Φ|, A_{u_x} ⊗ 1, 1 ⊗ A_{v_y}ᵀ)` has correlators
  `⟨u_x, v_y⟩`; every PSD unit-diagonal matrix is (in its real part) a Gram matrix of real unit vectors;
* `IsQuantumCorr c ↔ IsVectorCorr c`.
-/

open Matrix
open scoped ComplexOrder MatrixOrder Kronecker

namespace Toq.Xor

/-- pairwise anticommuting Hermitian involutions (generators of a Clifford algebra) -/
structure IsClifford {ι : Type*} [Fintype ι] [DecidableEq ι] {n : Nat} (G : Fin n → Matrix ι ι ℂ) : Prop where
  herm : ∀ i, (G i).IsHermitian
  sq : ∀ i, G i * G i = 1
  anti : ∀ i j, i ≠ j → G i * G j + G j * G i = 0

section Step
variable {ι : Type*} [Fintype ι] [DecidableEq ι]

/-- `X ⊗ 1` in block form -/
def cliffX (ι : Type*) [DecidableEq ι] : Matrix (ι ⊕ ι) (ι ⊕ ι) ℂ := fromBlocks 0 1 1 0
/-- `Z ⊗ G` in block form -/
def cliffZ (G : Matrix ι ι ℂ) : Matrix (ι ⊕ ι) (ι ⊕ ι) ℂ := fromBlocks G 0 0 (-G)

omit [Fintype ι] in
theorem cliffX_herm : (cliffX ι).IsHermitian := by
  simp [cliffX, Matrix.IsHermitian, fromBlocks_conjTranspose]

theorem cliffX_sq : cliffX ι * cliffX ι = 1 := by
  simp [cliffX, fromBlocks_multiply, fromBlocks_one]

omit [Fintype ι] [DecidableEq ι] in
theorem cliffZ_herm {G : Matrix ι ι ℂ} (h : G.IsHermitian) : (cliffZ G).IsHermitian := by
  simp [cliffZ, Matrix.IsHermitian, fromBlocks_conjTranspose, h.eq]

theorem cliffZ_mul (G H : Matrix ι ι ℂ) : cliffZ G * cliffZ H = fromBlocks (G * H) 0 0 (G * H) := by
  simp [cliffZ, fromBlocks_multiply]

theorem cliffXZ (G : Matrix ι ι ℂ) : cliffX ι * cliffZ G + cliffZ G * cliffX ι = 0 := by
  simp [cliffX, cliffZ, fromBlocks_multiply, fromBlocks_add, fromBlocks_zero]

/-- one more generator: `X ⊗ 1, Z ⊗ G_0, …, Z ⊗ G_{n-1}` -/
def cliffStep {n : Nat} (G : Fin n → Matrix ι ι ℂ) : Fin (n + 1) → Matrix (ι ⊕ ι) (ι ⊕ ι) ℂ :=
  Fin.cons (α := fun _ => Matrix (ι ⊕ ι) (ι ⊕ ι) ℂ) (cliffX ι) (fun i => cliffZ (G i))

theorem isClifford_step {n : Nat} {G : Fin n → Matrix ι ι ℂ} (h : IsClifford G) : IsClifford (cliffStep G) where
  herm := by
    refine Fin.cases ?_ ?_
    · exact cliffX_herm
    · intro i; simpa [cliffStep] using cliffZ_herm (h.herm i)
  sq := by
    refine Fin.cases ?_ ?_
    · exact cliffX_sq
    · intro i
      simp only [cliffStep, Fin.cons_succ]
      rw [cliffZ_mul, h.sq, fromBlocks_one]
  anti := by
    refine Fin.cases ?_ ?_
    · refine Fin.cases ?_ ?_
      · intro hne; exact absurd rfl hne
      · intro j _
        simp only [cliffStep, Fin.cons_succ, Fin.cons_zero]
        exact cliffXZ (G j)
    · intro i
      refine Fin.cases ?_ ?_
      · intro _
        simp only [cliffStep, Fin.cons_succ, Fin.cons_zero]
        rw [add_comm]; exact cliffXZ (G i)
      · intro j hne
        have hij : i ≠ j := fun e => hne (by rw [e])
        simp only [cliffStep, Fin.cons_succ]
        rw [cliffZ_mul, cliffZ_mul, fromBlocks_add]
        simp [h.anti i j hij, fromBlocks_zero]

end Step

/-- for every `n` there are `n` pairwise anticommuting Hermitian involutions on a non-trivial finite-dimensional space -/
theorem exists_clifford : ∀ n : Nat, ∃ (ι : Type) (_ : Fintype ι) (_ : DecidableEq ι) (_ : Nonempty ι)
    (G : Fin n → Matrix ι ι ℂ), IsClifford G
  | 0 => ⟨Unit, inferInstance, inferInstance, inferInstance, Fin.elim0,
      ⟨fun i => i.elim0, fun i => i.elim0, fun i => i.elim0⟩⟩
  | n + 1 => by
    obtain ⟨ι, hF, hD, hN, G, hG⟩ := exists_clifford n
    exact ⟨ι ⊕ ι, inferInstance, inferInstance, inferInstance, cliffStep G, isClifford_step hG⟩

section Obs
variable {ι : Type*} [Fintype ι] [DecidableEq ι] {n : Nat}

/-- `A_u = Σ_i u_i G_i` -/
def cliffObs (G : Fin n → Matrix ι ι ℂ) (u : Fin n → ℝ) : Matrix ι ι ℂ := ∑ i, (u i : ℂ) • G i

omit [DecidableEq ι] [Fintype ι] in
theorem cliffObs_herm {G : Fin n → Matrix ι ι ℂ} (hG : ∀ i, (G i).IsHermitian) (u : Fin n → ℝ) :
    (cliffObs G u).IsHermitian := by
  unfold cliffObs Matrix.IsHermitian
  rw [conjTranspose_sum]
  refine Finset.sum_congr rfl fun i _ => ?_
  rw [conjTranspose_smul, (hG i).eq]
  simp

omit [DecidableEq ι] in
theorem cliffObs_mul (G : Fin n → Matrix ι ι ℂ) (u v : Fin n → ℝ) :
    cliffObs G u * cliffObs G v = ∑ i, ∑ j, ((u i : ℂ) * (v j : ℂ)) • (G i * G j) := by
  unfold cliffObs
  rw [Finset.sum_mul]
  refine Finset.sum_congr rfl fun i _ => ?_
  rw [Finset.mul_sum]
  refine Finset.sum_congr rfl fun j _ => ?_
  rw [smul_mul_assoc, mul_smul_comm, smul_smul]

/-- `A_u A_v + A_v A_u = 2⟨u,v⟩·1` -/
theorem cliffObs_anticomm {G : Fin n → Matrix ι ι ℂ} (h : IsClifford G) (u v : Fin n → ℝ) :
    cliffObs G u * cliffObs G v + cliffObs G v * cliffObs G u
      = ((2 * ∑ k, u k * v k : ℝ) : ℂ) • (1 : Matrix ι ι ℂ) := by
  rw [cliffObs_mul, cliffObs_mul, Finset.sum_comm (f := fun i j => ((v i : ℂ) * (u j : ℂ)) • (G i * G j)),
    ← Finset.sum_add_distrib]
  have key : ∀ i : Fin n, (∑ j, ((u i : ℂ) * (v j : ℂ)) • (G i * G j)) + ∑ j, ((v j : ℂ) * (u i : ℂ)) • (G j * G i)
      = ((2 * (u i * v i) : ℝ) : ℂ) • (1 : Matrix ι ι ℂ) := by
    intro i
    rw [← Finset.sum_add_distrib, Finset.sum_eq_single i]
    · rw [h.sq i, ← add_smul]; congr 1; push_cast; ring
    · intro j _ hji
      rw [mul_comm (v j : ℂ), ← smul_add, h.anti i j (Ne.symm hji), smul_zero]
    · intro hi; exact absurd (Finset.mem_univ i) hi
  rw [Finset.sum_congr rfl fun i _ => key i, ← Finset.sum_smul]
  congr 1
  push_cast
  rw [Finset.mul_sum]

theorem cliffObs_sq {G : Fin n → Matrix ι ι ℂ} (h : IsClifford G) (u : Fin n → ℝ) (hu : ∑ k, u k ^ 2 = 1) :
    cliffObs G u * cliffObs G u = 1 := by
  have := cliffObs_anticomm h u u
  have e : ∑ k, u k * u k = 1 := by rw [← hu]; exact Finset.sum_congr rfl fun k _ => (sq _).symm
  rw [e, ← two_smul ℂ (cliffObs G u * cliffObs G u)] at this
  have h2 : (2 : ℂ) • (cliffObs G u * cliffObs G u) = (2 : ℂ) • (1 : Matrix ι ι ℂ) := by
    rw [this]; push_cast; ring_nf
  exact smul_right_injective _ (two_ne_zero) h2

theorem cliffObs_trace {G : Fin n → Matrix ι ι ℂ} (h : IsClifford G) (u v : Fin n → ℝ) :
    (cliffObs G u * cliffObs G v).trace = ((∑ k, u k * v k : ℝ) : ℂ) * (Fintype.card ι : ℂ) := by
  have := congrArg Matrix.trace (cliffObs_anticomm h u v)
  rw [trace_add, trace_mul_comm (cliffObs G v), trace_smul, trace_one, smul_eq_mul] at this
  have h2 : (2 : ℂ) * (cliffObs G u * cliffObs G v).trace
      = (2 : ℂ) * (((∑ k, u k * v k : ℝ) : ℂ) * (Fintype.card ι : ℂ)) := by
    rw [two_mul, this]; push_cast; ring
  exact mul_left_cancel₀ two_ne_zero h2

end Obs


section MaxEnt
variable {ι : Type*} [Fintype ι] [DecidableEq ι]

/-- unnormalised maximally entangled vector `Σ_i |i i⟩` as a column -/
def maxEntCol (ι : Type*) [DecidableEq ι] : Matrix (ι × ι) Unit ℂ := fun p _ => if p.1 = p.2 then 1 else 0

/-- the maximally entangled state `|Φ⟩⟨Φ|`, `Φ = D^{-1/2} Σ_i |i i⟩` -/
noncomputable def maxEnt (ι : Type*) [Fintype ι] [DecidableEq ι] : Matrix (ι × ι) (ι × ι) ℂ :=
  ((Fintype.card ι : ℂ)⁻¹) • (maxEntCol ι * (maxEntCol ι)ᴴ)

theorem maxEnt_apply (p q : ι × ι) :
    maxEnt ι p q = (Fintype.card ι : ℂ)⁻¹ * ((if p.1 = p.2 then 1 else 0) * (if q.1 = q.2 then 1 else 0)) := by
  simp [maxEnt, maxEntCol, Matrix.mul_apply]

theorem maxEnt_psd : (maxEnt ι).PosSemidef := by
  unfold maxEnt
  refine (posSemidef_self_mul_conjTranspose _).smul ?_
  rw [inv_nonneg]
  exact_mod_cast Nat.zero_le _

/-- `tr(|Φ⟩⟨Φ| M) = D⁻¹ Σ_{i,k} M[(i,i),(k,k)]` -/
theorem maxEnt_trace_mul (M : Matrix (ι × ι) (ι × ι) ℂ) :
    (maxEnt ι * M).trace = (Fintype.card ι : ℂ)⁻¹ * ∑ i, ∑ k, M (k, k) (i, i) := by
  simp only [Matrix.trace, Matrix.diag_apply, Matrix.mul_apply, maxEnt_apply, Fintype.sum_prod_type]
  simp only [mul_assoc, ← Finset.mul_sum]
  congr 1
  simp [ite_mul, Finset.sum_ite_eq]

theorem maxEnt_trace [Nonempty ι] : (maxEnt ι).trace = 1 := by
  have := maxEnt_trace_mul (ι := ι) 1
  rw [Matrix.mul_one] at this
  rw [this]
  simp only [Matrix.one_apply, Prod.mk.injEq, and_self]
  simp only [Finset.sum_ite_eq', Finset.mem_univ, if_true, Finset.sum_const, Finset.card_univ, nsmul_eq_mul, mul_one]
  exact inv_mul_cancel₀ (by exact_mod_cast Fintype.card_ne_zero)

/-- `⟨Φ| A ⊗ Bᵀ |Φ⟩ = tr(A B) / D` -/
theorem maxEnt_kron (A B : Matrix ι ι ℂ) :
    (maxEnt ι * (A ⊗ₖ Bᵀ)).trace = (Fintype.card ι : ℂ)⁻¹ * (A * B).trace := by
  rw [maxEnt_trace_mul]
  congr 1
  simp only [kronecker_apply, transpose_apply, Matrix.trace, Matrix.diag_apply, Matrix.mul_apply]
  rw [Finset.sum_comm]

end MaxEnt


section Realise
variable {X Y : Type*} {ι : Type*} [Fintype ι] [DecidableEq ι]

/-- a strategy in tensor-product form on the maximally entangled state: Alice measures `A_x ⊗ 1`, Bob `1 ⊗ B_yᵀ` -/
theorem isStrategy_maxEnt [Nonempty ι] (A : X → Matrix ι ι ℂ) (B : Y → Matrix ι ι ℂ)
    (hA : ∀ x, (A x).IsHermitian) (hA2 : ∀ x, A x * A x = 1) (hB : ∀ y, (B y).IsHermitian)
    (hB2 : ∀ y, B y * B y = 1) :
    IsStrategy (maxEnt ι) (fun x => A x ⊗ₖ (1 : Matrix ι ι ℂ)) (fun y => (1 : Matrix ι ι ℂ) ⊗ₖ (B y)ᵀ) where
  psd := maxEnt_psd
  tr_one := maxEnt_trace
  A_herm := fun x => by
    rw [Matrix.IsHermitian, conjTranspose_kronecker, (hA x).eq, conjTranspose_one]
  A_sq := fun x => by
    rw [← mul_kronecker_mul, hA2, Matrix.one_mul, one_kronecker_one]
  B_herm := fun y => by
    rw [Matrix.IsHermitian, conjTranspose_kronecker, conjTranspose_one]
    congr 1
    ext i j
    exact (hB y).apply j i
  B_sq := fun y => by
    rw [← mul_kronecker_mul, Matrix.one_mul, ← transpose_mul, hB2, transpose_one, one_kronecker_one]
  comm := fun x y => by
    rw [← mul_kronecker_mul, ← mul_kronecker_mul, Matrix.mul_one, Matrix.one_mul, Matrix.mul_one, Matrix.one_mul]

theorem corrQ_maxEnt (A : X → Matrix ι ι ℂ) (B : Y → Matrix ι ι ℂ) (x : X) (y : Y) :
    corrQ (maxEnt ι) (fun x => A x ⊗ₖ (1 : Matrix ι ι ℂ)) (fun y => (1 : Matrix ι ι ℂ) ⊗ₖ (B y)ᵀ) x y
      = ((Fintype.card ι : ℂ)⁻¹ * (A x * B y).trace).re := by
  unfold corrQ
  rw [Matrix.mul_assoc, ← mul_kronecker_mul, Matrix.mul_one, Matrix.one_mul, maxEnt_kron]

end Realise

/-- **Tsirelson's construction.**  Unit vectors `u_x, v_y ∈ ℝⁿ` are realised by a quantum strategy in tensor-product
form: the maximally entangled state of two `D`-dimensional systems and ±1 observables `A_x ⊗ 1`, `1 ⊗ B_y`
with `⟨A_x ⊗ B_y⟩ = ⟨u_x, v_y⟩`. -/
theorem tsirelson_realise {X Y : Type*} (n : Nat) (u : X → Fin n → ℝ) (v : Y → Fin n → ℝ)
    (hu : ∀ x, ∑ k, u x k ^ 2 = 1) (hv : ∀ y, ∑ k, v y k ^ 2 = 1) :
    ∃ (ι : Type) (_ : Fintype ι) (_ : DecidableEq ι) (ρ : Matrix (ι × ι) (ι × ι) ℂ)
      (A : X → Matrix ι ι ℂ) (B : Y → Matrix ι ι ℂ),
      IsStrategy ρ (fun x => A x ⊗ₖ (1 : Matrix ι ι ℂ)) (fun y => (1 : Matrix ι ι ℂ) ⊗ₖ B y) ∧
      ∀ x y, corrQ ρ (fun x => A x ⊗ₖ (1 : Matrix ι ι ℂ)) (fun y => (1 : Matrix ι ι ℂ) ⊗ₖ B y) x y
        = ∑ k, u x k * v y k := by
  obtain ⟨ι, hF, hD, hN, G, hG⟩ := exists_clifford n
  refine ⟨ι, hF, hD, maxEnt ι, fun x => cliffObs G (u x), fun y => (cliffObs G (v y))ᵀ, ?_, ?_⟩
  · have := isStrategy_maxEnt (fun x => cliffObs G (u x)) (fun y => cliffObs G (v y))
      (fun x => cliffObs_herm hG.herm _) (fun x => cliffObs_sq hG _ (hu x))
      (fun y => cliffObs_herm hG.herm _) (fun y => cliffObs_sq hG _ (hv y))
    exact this
  · intro x y
    have := corrQ_maxEnt (fun x => cliffObs G (u x)) (fun y => cliffObs G (v y)) x y
    rw [this, cliffObs_trace hG]
    have hc : (Fintype.card ι : ℂ) ≠ 0 := by exact_mod_cast Fintype.card_ne_zero
    rw [mul_comm, mul_assoc, mul_inv_cancel₀ hc, mul_one, Complex.ofReal_re]


section Vectors
variable {κ : Type*} [Fintype κ] [DecidableEq κ]

/-- every moment matrix is (in its real part) the Gram matrix of real unit vectors -/
theorem moment_real_vectors (Γ : Matrix κ κ ℂ) (hΓ : IsMoment Γ) :
    ∃ (n : Nat) (w : κ → Fin n → ℝ), (∀ i, ∑ k, w i k ^ 2 = 1) ∧ ∀ i j, ∑ k, w i k * w j k = (Γ i j).re := by
  have hS : (CFC.sqrt Γ).PosSemidef := (CFC.sqrt_nonneg Γ).posSemidef
  have hR : CFC.sqrt Γ * CFC.sqrt Γ = Γ := CFC.sqrt_mul_sqrt_self Γ hΓ.1.nonneg
  have hH : (CFC.sqrt Γ)ᴴ = CFC.sqrt Γ := hS.isHermitian
  set R := CFC.sqrt Γ with hRdef
  -- Γ i j = Σ_k conj(R k i) R k j
  have hent : ∀ i j, Γ i j = ∑ k, star (R k i) * R k j := by
    intro i j
    have hR' : Rᴴ * R = Γ := by rw [hH]; exact hR
    conv_lhs => rw [← hR']
    simp [Matrix.mul_apply]
  let e := Fintype.equivFin (κ ⊕ κ)
  let w0 : κ → κ ⊕ κ → ℝ := fun i s => Sum.elim (fun k => (R k i).re) (fun k => (R k i).im) s
  have hw0 : ∀ i j, ∑ s, w0 i s * w0 j s = (Γ i j).re := by
    intro i j
    rw [hent, Complex.re_sum, Fintype.sum_sum_type, ← Finset.sum_add_distrib]
    refine Finset.sum_congr rfl fun k _ => ?_
    simp [w0, Complex.mul_re]
  refine ⟨Fintype.card (κ ⊕ κ), fun i k => w0 i (e.symm k), ?_, ?_⟩
  · intro i
    have := hw0 i i
    rw [hΓ.2 i, Complex.one_re] at this
    rw [← this, ← Equiv.sum_comp e.symm]
    exact Finset.sum_congr rfl fun k _ => sq _
  · intro i j
    rw [← hw0 i j, ← Equiv.sum_comp e.symm (fun s => w0 i s * w0 j s)]

end Vectors

/-- **Tsirelson's theorem (finite-dimensional, constructive direction).**  Every positive semidefinite matrix `Γ`
with unit diagonal on `X ⊕ Y` is realised by a quantum strategy in tensor-product form on a maximally entangled
state: `⟨A_x ⊗ B_y⟩ = Re Γ[x, y]`. -/
theorem tsirelson_moment_realise {X Y : Type*} [Fintype X] [Fintype Y] [DecidableEq X] [DecidableEq Y]
    (Γ : Matrix (X ⊕ Y) (X ⊕ Y) ℂ) (hΓ : IsMoment Γ) :
    ∃ (ι : Type) (_ : Fintype ι) (_ : DecidableEq ι) (ρ : Matrix (ι × ι) (ι × ι) ℂ)
      (A : X → Matrix ι ι ℂ) (B : Y → Matrix ι ι ℂ),
      IsStrategy ρ (fun x => A x ⊗ₖ (1 : Matrix ι ι ℂ)) (fun y => (1 : Matrix ι ι ℂ) ⊗ₖ B y) ∧
      ∀ x y, corrQ ρ (fun x => A x ⊗ₖ (1 : Matrix ι ι ℂ)) (fun y => (1 : Matrix ι ι ℂ) ⊗ₖ B y) x y
        = (Γ (.inl x) (.inr y)).re := by
  obtain ⟨n, w, hw1, hw⟩ := moment_real_vectors Γ hΓ
  obtain ⟨ι, hF, hD, ρ, A, B, hs, hc⟩ := tsirelson_realise n (fun x => w (.inl x)) (fun y => w (.inr y))
    (fun x => hw1 _) (fun y => hw1 _)
  exact ⟨ι, hF, hD, ρ, A, B, hs, fun x y => by rw [hc, hw]⟩


section Sets
variable {X Y : Type*} [Fintype X] [Fintype Y] [DecidableEq X] [DecidableEq Y]

/-- a correlation matrix `c[x,y]` is *quantum* if some finite-dimensional strategy (state, commuting ±1 observables)
    has `⟨A_x B_y⟩ = c[x,y]` -/
def IsQuantumCorr (c : X → Y → ℝ) : Prop :=
  ∃ (d : Type) (_ : Fintype d) (_ : DecidableEq d) (ρ : Matrix d d ℂ) (A : X → Matrix d d ℂ)
    (B : Y → Matrix d d ℂ), IsStrategy ρ A B ∧ ∀ x y, corrQ ρ A B x y = c x y

/-- a correlation matrix is a *vector* correlation if it is the off-diagonal block of a PSD matrix with unit diagonal
    (equivalently `c[x,y] = ⟨u_x, v_y⟩` for unit vectors) -/
def IsVectorCorr (c : X → Y → ℝ) : Prop :=
  ∃ Γ : Matrix (X ⊕ Y) (X ⊕ Y) ℂ, IsMoment Γ ∧ ∀ x y, (Γ (.inl x) (.inr y)).re = c x y

omit [DecidableEq X] [DecidableEq Y] in
theorem isVectorCorr_of_quantum {c : X → Y → ℝ} (h : IsQuantumCorr c) : IsVectorCorr c := by
  obtain ⟨d, hF, hD, ρ, A, B, hs, hc⟩ := h
  have hO : ∀ i, (Sum.elim A B i)ᴴ * Sum.elim A B i = 1 := by
    rintro (x | y)
    · simp only [Sum.elim_inl]; rw [(hs.A_herm x).eq, hs.A_sq]
    · simp only [Sum.elim_inr]; rw [(hs.B_herm y).eq, hs.B_sq]
  refine ⟨momentMatrix ρ (Sum.elim A B), isMoment_momentMatrix ρ hs.psd hs.tr_one _ hO, fun x y => ?_⟩
  rw [← hc x y]
  simp [momentMatrix, corrQ, (hs.A_herm _).eq]

theorem isQuantumCorr_of_vector {c : X → Y → ℝ} (h : IsVectorCorr c) : IsQuantumCorr c := by
  obtain ⟨Γ, hΓ, hc⟩ := h
  obtain ⟨ι, hF, hD, ρ, A, B, hs, hq⟩ := tsirelson_moment_realise Γ hΓ
  exact ⟨ι × ι, inferInstance, inferInstance, ρ, _, _, hs, fun x y => by rw [hq, hc]⟩

theorem isVectorCorr_iff_vectors (c : X → Y → ℝ) :
    IsVectorCorr c ↔ ∃ (n : Nat) (u : X → Fin n → ℝ) (v : Y → Fin n → ℝ),
      (∀ x, ∑ k, u x k ^ 2 = 1) ∧ (∀ y, ∑ k, v y k ^ 2 = 1) ∧ ∀ x y, ∑ k, u x k * v y k = c x y := by
  constructor
  · rintro ⟨Γ, hΓ, hc⟩
    obtain ⟨n, w, hw1, hw⟩ := moment_real_vectors Γ hΓ
    exact ⟨n, fun x => w (.inl x), fun y => w (.inr y), fun x => hw1 _, fun y => hw1 _,
      fun x y => by rw [hw, hc]⟩
  · rintro ⟨n, u, v, hu, hv, hc⟩
    refine ⟨gram (Sum.elim u v), isMoment_gram _ (by rintro (x | y) <;> simp [hu, hv]), fun x y => ?_⟩
    rw [← hc x y]
    simp [gram]

end Sets

section CheckerQ
open EMat
variable {m n k : Nat}

/-- an accepted primal certificate is the correlation matrix of a quantum strategy whose bias is the returned value -/
theorem checkXorPrimal_quantum (D : Nat → Nat → Rat) (Γ : EMat (m + n) (m + n)) (L : EMat (m + n) k) (lo : Rat)
    (h : checkXorPrimal m n D Γ L = some lo) :
    ∃ c : Fin m → Fin n → ℝ, IsQuantumCorr c ∧ ∑ x, ∑ y, castD D x y * c x y = (lo : ℝ) := by
  obtain ⟨hΓ, hv⟩ := checkXorPrimal_sound' D Γ L lo h
  refine ⟨fun x y => (Γ.toM (Fin.castAdd n x) (Fin.natAdd m y)).re, isQuantumCorr_of_vector ?_, ?_⟩
  · exact ⟨Γ.toM.submatrix finSumFinEquiv finSumFinEquiv, isMoment_submatrix hΓ _, fun x y => by simp⟩
  · rw [← hv]; rfl

end CheckerQ


end Toq.Xor
