import Toq.Model.States
import Toq.Spec.States
import Toq.Proofs.Idx
import Toq.Proofs.Perms
import Mathlib.Algebra.BigOperators.Group.Finset.Basic
import Mathlib.Algebra.BigOperators.Ring.Finset
import Mathlib.Algebra.Ring.GeomSum
import Mathlib.RingTheory.RootsOfUnity.PrimitiveRoots
import Mathlib.Tactic.Ring
import Mathlib.Tactic.Linarith
import Mathlib.Algebra.Order.Field.Basic
import Mathlib.Algebra.Ring.MinimalAxioms
import Mathlib.Tactic.FieldSimp
import Mathlib.Algebra.Field.Basic
import Mathlib.Algebra.BigOperators.Field
import Mathlib.Tactic.LinearCombination
/-! Helper lemmas for C17 (closed-form models of `toqito.states` / `toqito.matrices`). -/

namespace Toq.States
open Toq.Matrices

/-! ### `sumN` -/

theorem sumN_eq_finset {α : Type} [AddCommMonoid α] (f : Nat → α) :
    ∀ n, sumN n f = ∑ i ∈ Finset.range n, f i
  | 0 => by simp [sumN]
  | n + 1 => by rw [Finset.sum_range_succ, ← sumN_eq_finset f n]; rfl

theorem sumN_zero' {α : Type} [AddCommMonoid α] (n : Nat) (f : Nat → α) (h : ∀ k, k < n → f k = 0) :
    sumN n f = 0 := by
  rw [sumN_eq_finset]
  exact Finset.sum_eq_zero (fun k hk => h k (Finset.mem_range.mp hk))

theorem sumN_single {α : Type} [AddCommMonoid α] (n c : Nat) (hc : c < n) (f : Nat → α)
    (h : ∀ k, k < n → k ≠ c → f k = 0) : sumN n f = f c := by
  rw [sumN_eq_finset]
  exact Finset.sum_eq_single_of_mem c (Finset.mem_range.mpr hc)
    (fun k hk hne => h k (Finset.mem_range.mp hk) hne)

theorem sumN_const {α : Type} [Semiring α] (n : Nat) (c : α) : sumN n (fun _ => c) = (n : α) * c := by
  rw [sumN_eq_finset]; simp

theorem sumN_mul_left {α : Type} [Semiring α] (n : Nat) (c : α) (f : Nat → α) :
    sumN n (fun k => c * f k) = c * sumN n f := by
  rw [sumN_eq_finset, sumN_eq_finset, Finset.mul_sum]

theorem sumN_mul_right {α : Type} [Semiring α] (n : Nat) (c : α) (f : Nat → α) :
    sumN n (fun k => f k * c) = sumN n f * c := by
  rw [sumN_eq_finset, sumN_eq_finset, Finset.sum_mul]

theorem sumN_add_range {α : Type} [AddCommMonoid α] (a : Nat) (f : Nat → α) :
    ∀ b, sumN (a + b) f = sumN a f + sumN b (fun j => f (a + j))
  | 0 => by simp [sumN]
  | b + 1 => by
    show sumN (a + b) f + f (a + b) = sumN a f + (sumN b (fun j => f (a + j)) + f (a + b))
    rw [sumN_add_range a f b, add_assoc]

/-- a sum over a flat index `i * n + j` is a double sum -/
theorem sumN_flat {α : Type} [AddCommMonoid α] (n : Nat) (f : Nat → α) :
    ∀ m, sumN (m * n) f = sumN m (fun i => sumN n (fun j => f (i * n + j)))
  | 0 => by simp [sumN]
  | m + 1 => by
    rw [Nat.succ_mul, sumN_add_range, sumN_flat n f m]
    rfl

theorem sumN_comm {α : Type} [AddCommMonoid α] (m n : Nat) (f : Nat → Nat → α) :
    sumN m (fun i => sumN n (fun j => f i j)) = sumN n (fun j => sumN m (fun i => f i j)) := by
  simp only [sumN_eq_finset]
  exact Finset.sum_comm

/-- `Σ_k [k = c] g k = g c` -/
theorem sumN_ite_eq {α : Type} [AddCommMonoid α] (n c : Nat) (hc : c < n) (g : Nat → α) :
    sumN n (fun k => if k = c then g k else 0) = g c := by
  rw [sumN_single n c hc]
  · simp
  · intro k _ hne; simp [hne]

theorem sumN_ite_eq' {α : Type} [AddCommMonoid α] (n c : Nat) (hc : c < n) (g : Nat → α) :
    sumN n (fun k => if c = k then g k else 0) = g c := by
  rw [sumN_single n c hc]
  · simp
  · intro k _ hne; simp [Ne.symm hne]

/-! ### modular shifts -/

theorem add_mod_inj (d a i j : Nat) (hi : i < d) (hj : j < d) (h : (i + a) % d = (j + a) % d) : i = j := by
  have h1 : Nat.ModEq d i j := Nat.ModEq.add_right_cancel' a h
  exact Nat.ModEq.eq_of_lt_of_lt h1 hi hj

theorem shift_mod_inj (d a b i : Nat) (ha : a < d) (hb : b < d) (h : (i + a) % d = (i + b) % d) : a = b := by
  rw [Nat.add_comm i a, Nat.add_comm i b] at h
  exact add_mod_inj d i a b ha hb h

/-- the preimage of `i` under `j ↦ (j + a) % d` -/
def unshift (d a i : Nat) : Nat := (i + (d - a % d)) % d

theorem unshift_lt (d a i : Nat) (hd : 0 < d) : unshift d a i < d := Nat.mod_lt _ hd

theorem shift_unshift (d a i : Nat) (hi : i < d) : (unshift d a i + a) % d = i := by
  unfold unshift
  have ha : a % d < d := Nat.mod_lt _ (by omega)
  rw [Nat.add_mod, Nat.mod_mod, ← Nat.add_mod, Nat.add_assoc]
  have : d - a % d + a = d * (a / d + 1) := by
    have := Nat.div_add_mod a d
    rw [Nat.mul_add, Nat.mul_one]; omega
  rw [this, Nat.add_mul_mod_self_left, Nat.mod_eq_of_lt hi]

theorem shift_eq_iff (d a i j : Nat) (hi : i < d) (hj : j < d) : i = (j + a) % d ↔ j = unshift d a i := by
  constructor
  · intro h
    apply add_mod_inj d a j (unshift d a i) hj (unshift_lt d a i (by omega))
    rw [shift_unshift d a i hi, h]
  · intro h; rw [h, shift_unshift d a i hi]

/-! ### powers of a root of unity -/

section roots
variable {α : Type} [CommRing α]

theorem pow_mod_root (ω : α) (d : Nat) (h : ω ^ d = 1) (m : Nat) : ω ^ (m % d) = ω ^ m :=
  (pow_eq_pow_mod m h).symm

theorem pow_mul_inv_pow (ω ωc : α) (h : ω * ωc = 1) (m : Nat) : ω ^ m * ωc ^ m = 1 := by
  rw [← mul_pow, h, one_pow]

/-- character orthogonality: `Σ_{k<d} ω^{ik} ω̄^{jk} = d·δ_ij` for a primitive `d`-th root of unity -/
theorem char_orth [IsDomain α] (ω ωc : α) (d : Nat) (hω : IsPrimitiveRoot ω d) (hc : ω * ωc = 1)
    (i j : Nat) (hi : i < d) (hj : j < d) :
    sumN d (fun k => ω ^ (i * k) * ωc ^ (j * k)) = if i = j then (d : α) else 0 := by
  by_cases hij : i = j
  · subst hij
    rw [if_pos rfl, sumN_congr _ (fun _ => (1 : α)) d (fun k _ => pow_mul_inv_pow ω ωc hc (i * k)), sumN_const, mul_one]
  · rw [if_neg hij]
    have hd : ω ^ d = 1 := hω.pow_eq_one
    have hcd : ωc ^ d = 1 := by
      have := pow_mul_inv_pow ω ωc hc d
      rwa [hd, one_mul] at this
    set ζ : α := ω ^ i * ωc ^ j with hζ
    have hterm : ∀ k, ω ^ (i * k) * ωc ^ (j * k) = ζ ^ k := by
      intro k; rw [hζ, mul_pow, ← pow_mul, ← pow_mul]
    have hζd : ζ ^ d = 1 := by
      rw [hζ, mul_pow, ← pow_mul, ← pow_mul, Nat.mul_comm i d, Nat.mul_comm j d, pow_mul, pow_mul, hd, hcd, one_pow,
        one_pow, one_mul]
    have hζ1 : ζ ≠ 1 := by
      intro h1
      apply hij
      apply hω.pow_inj hi hj
      have h2 : ω ^ i * ωc ^ j * ω ^ j = ω ^ j := by rw [← hζ, h1, one_mul]
      have h3 : ω ^ i * ωc ^ j * ω ^ j = ω ^ i := by
        rw [mul_assoc, mul_comm (ωc ^ j), pow_mul_inv_pow ω ωc hc j, mul_one]
      rw [← h3, h2]
    rw [sumN_congr _ (fun k => ζ ^ k) d (fun k _ => hterm k), sumN_eq_finset]
    have hg := mul_geom_sum ζ d
    rw [hζd, sub_self] at hg
    rcases mul_eq_zero.mp hg with h0 | h0
    · exact absurd (sub_eq_zero.mp h0) hζ1
    · exact h0

end roots

/-! ### clock, shift, generalised Pauli -/

section weyl
variable {α : Type} [CommRing α]

/-- left multiplication by the clock matrix scales row `i` by `ω^i` -/
theorem clock_mul (ω : α) (d : Nat) (B : Nat → Nat → α) (i j : Nat) (hi : i < d) :
    matMul d (clockZ ω) B i j = ω ^ i * B i j := by
  unfold matMul clockZ
  rw [sumN_single d i hi]
  · simp
  · intro k _ hne; simp [Ne.symm hne]

/-- right multiplication by the clock matrix scales column `j` by `ω^j` -/
theorem mul_clock (ω : α) (d : Nat) (A : Nat → Nat → α) (i j : Nat) (hj : j < d) :
    matMul d A (clockZ ω) i j = A i j * ω ^ j := by
  unfold matMul clockZ
  rw [sumN_single d j hj]
  · simp
  · intro k _ hne; simp [hne]

/-- right multiplication by the shift matrix moves column `(j+1) % d` to column `j` -/
theorem mul_shift (d : Nat) (hd : 0 < d) (A : Nat → Nat → α) (i j : Nat) :
    matMul d A (shiftX d) i j = A i ((j + 1) % d) := by
  unfold matMul shiftX
  rw [sumN_single d ((j + 1) % d) (Nat.mod_lt _ hd)]
  · simp
  · intro k _ hne; simp [hne]

theorem matPow_shift (d : Nat) (hd : 0 < d) : ∀ (a i j : Nat), j < d →
    matPow d (shiftX (α := α) d) a i j = if i = (j + a) % d then 1 else 0
  | 0, i, j, hj => by
    show matId i j = _
    unfold matId
    rw [Nat.add_zero, Nat.mod_eq_of_lt hj]
  | a + 1, i, j, hj => by
    show matMul d (matPow d (shiftX d) a) (shiftX d) i j = _
    rw [mul_shift d hd, matPow_shift d hd a i _ (Nat.mod_lt _ hd)]
    have : ((j + 1) % d + a) % d = (j + (a + 1)) % d := by
      rw [Nat.mod_add_mod]; congr 1; omega
    rw [this]

theorem matPow_clock (ω : α) (d : Nat) : ∀ (b i j : Nat), j < d →
    matPow d (clockZ ω) b i j = if i = j then ω ^ (b * j) else 0
  | 0, i, j, _ => by
    show matId i j = _
    unfold matId
    simp
  | b + 1, i, j, hj => by
    show matMul d (matPow d (clockZ ω) b) (clockZ ω) i j = _
    rw [mul_clock ω d _ i j hj, matPow_clock ω d b i j hj]
    by_cases h : i = j
    · rw [if_pos h, if_pos h, ← pow_add]; congr 1; ring
    · rw [if_neg h, if_neg h, zero_mul]

end weyl

/-! ### flat bipartite indices -/

theorem flat_div (d i j : Nat) (hj : j < d) : (i * d + j) / d = i := by
  rw [Nat.add_comm, Nat.add_mul_div_right _ _ (by omega), Nat.div_eq_of_lt hj, Nat.zero_add]

theorem flat_mod (d i j : Nat) (hj : j < d) : (i * d + j) % d = j := by
  rw [Nat.add_comm, Nat.add_mul_mod_self_right, Nat.mod_eq_of_lt hj]

theorem flat_lt (d i j : Nat) (hi : i < d) (hj : j < d) : i * d + j < d * d := by
  have : i * d + d ≤ d * d := by
    calc i * d + d = (i + 1) * d := by rw [Nat.succ_mul]
      _ ≤ d * d := Nat.mul_le_mul_right d hi
  omega

theorem maxEntS_flat (d i j : Nat) (hi : i < d) (hj : j < d) :
    maxEntS d (i * d + j) = if i = j then 1 else 0 := by
  unfold maxEntS
  rw [flat_div d i j hj, flat_mod d i j hj]
  by_cases h : i = j
  · rw [if_pos ⟨h, flat_lt d i j hi hj⟩, if_pos h]
  · rw [if_neg (fun hh => h hh.1), if_neg h]

/-! ### "last write wins" loops (`state[idx(i)] = c[i]` for `i` in `range(m)`) -/

/-- the value at position `j` after the loop -/
def pick (m : Nat) (idx : Nat → Nat) (c : Nat → Int) (j : Nat) : Int :=
  (List.range m).foldl (fun acc i => if idx i = j then c i else acc) 0

theorem pick_succ (m : Nat) (idx : Nat → Nat) (c : Nat → Int) (j : Nat) :
    pick (m + 1) idx c j = if idx m = j then c m else pick m idx c j := by
  unfold pick
  rw [List.range_succ, List.foldl_append]
  rfl

theorem pick_none (idx : Nat → Nat) (c : Nat → Int) (j : Nat) :
    ∀ m, (∀ i, i < m → idx i ≠ j) → pick m idx c j = 0
  | 0, _ => rfl
  | m + 1, h => by
    rw [pick_succ, if_neg (h m (by omega))]
    exact pick_none idx c j m (fun i hi => h i (by omega))

theorem pick_unique (idx : Nat → Nat) (c : Nat → Int) (j i₀ : Nat) (h0 : idx i₀ = j) :
    ∀ m, i₀ < m → (∀ i, i < m → idx i = j → i = i₀) → pick m idx c j = c i₀
  | 0, h, _ => by omega
  | m + 1, hlt, hu => by
    rw [pick_succ]
    by_cases hm : idx m = j
    · rw [if_pos hm, hu m (by omega) hm]
    · rw [if_neg hm]
      have : i₀ ≠ m := fun e => hm (e ▸ h0)
      exact pick_unique idx c j i₀ h0 m (by omega) (fun i hi => hu i (by omega))

theorem ghzGen_eq_pick (d n : Nat) (c : Nat → Int) (j : Nat) : ghzGen d n c j = pick d (ghzIdx d n) c j := rfl

theorem wGen_eq_pick (n : Nat) (c : Nat → Int) (j : Nat) :
    wGen n c j = pick n (fun i => 2 ^ i) (fun i => c (n - i - 1)) j := rfl

/-! ### digits -/

theorem enc_inj (d : Nat → Nat) (x y : Nat → Nat) (n : Nat) (hx : ∀ k, k < n → x k < d k)
    (hy : ∀ k, k < n → y k < d k) (h : enc d x n = enc d y n) : ∀ k, k < n → x k = y k := by
  intro k hk
  rw [← dec_enc d x n hx k hk, ← dec_enc d y n hy k hk, h]

theorem ghzIdx_step (d i : Nat) : ∀ n, ghzIdx d n i * d + i = ghzIdx d n i + i * d ^ n
  | 0 => by simp [ghzIdx, sumN]
  | n + 1 => by
    have ih := ghzIdx_step d i n
    show (ghzIdx d n i + i * d ^ n) * d + i = (ghzIdx d n i + i * d ^ n) + i * d ^ (n + 1)
    rw [Nat.add_mul, Nat.pow_succ, ← Nat.mul_assoc]
    omega

/-- `Σ_k i d^k` is the index of `|i i … i⟩` -/
theorem ghzIdx_eq_enc (d i : Nat) : ∀ n, ghzIdx d n i = enc (fun _ => d) (fun _ => i) n
  | 0 => rfl
  | n + 1 => by
    show ghzIdx d n i + i * d ^ n = enc (fun _ => d) (fun _ => i) n * d + i
    rw [← ghzIdx_eq_enc d i n, ghzIdx_step]

/-- the basis vector `|0…010…0⟩` with the `1` at party `p` -/
def unit (p : Nat) : Nat → Nat := fun k => if k = p then 1 else 0

theorem enc_zero (d : Nat → Nat) (x : Nat → Nat) : ∀ n, (∀ k, k < n → x k = 0) → enc d x n = 0
  | 0, _ => rfl
  | n + 1, h => by
    show enc d x n * d n + x n = 0
    rw [enc_zero d x n (fun k hk => h k (by omega)), h n (by omega)]; simp

theorem enc_unit (p : Nat) : ∀ n, p < n → enc (fun _ => 2) (unit p) n = 2 ^ (n - 1 - p)
  | 0, h => by omega
  | n + 1, h => by
    show enc (fun _ => 2) (unit p) n * 2 + unit p n = _
    by_cases hp : p = n
    · subst hp
      rw [enc_zero _ _ p (fun k hk => by unfold unit; rw [if_neg (by omega)])]
      simp [unit]
    · rw [enc_unit p n (by omega)]
      have : unit p n = 0 := by unfold unit; rw [if_neg (Ne.symm hp)]
      rw [this, Nat.add_zero, ← Nat.pow_succ]
      congr 1; omega

theorem sumN_succ_front {α : Type} [AddCommMonoid α] (f : Nat → α) (n : Nat) :
    sumN (n + 1) f = f 0 + sumN n (fun b => f (b + 1)) := by
  rw [sumN_eq_finset, sumN_eq_finset, Finset.sum_range_succ', add_comm]

theorem weight_unit (p : Nat) : ∀ n, p < n → sumN n (unit p) = 1
  | 0, h => by omega
  | n + 1, h => by
    show sumN n (unit p) + unit p n = 1
    by_cases hp : p = n
    · subst hp
      rw [sumN_zero' p _ (fun k hk => by unfold unit; rw [if_neg (by omega)])]
      simp [unit]
    · rw [weight_unit p n (by omega)]
      unfold unit; rw [if_neg (Ne.symm hp)]

/-- binary digits with exactly one `1` form a unit vector -/
theorem weight_one_unit (x : Nat → Nat) : ∀ n, (∀ k, k < n → x k < 2) → sumN n x = 1 →
    ∃ p, p < n ∧ ∀ k, k < n → x k = unit p k
  | 0, _, h => by simp [sumN] at h
  | n + 1, hx, h => by
    have hs : sumN n x + x n = 1 := h
    have hn := hx n (by omega)
    by_cases h1 : x n = 1
    · have h0 : sumN n x = 0 := by omega
      have hz : ∀ k, k < n → x k = 0 := by
        rw [sumN_eq_finset] at h0
        intro k hk
        exact (Finset.sum_eq_zero_iff.mp h0) k (Finset.mem_range.mpr hk)
      refine ⟨n, by omega, fun k hk => ?_⟩
      unfold unit
      by_cases hkn : k = n
      · rw [if_pos hkn, hkn, h1]
      · rw [if_neg hkn, hz k (by omega)]
    · have h0 : x n = 0 := by omega
      obtain ⟨p, hp, hpk⟩ := weight_one_unit x n (fun k hk => hx k (by omega)) (by omega)
      refine ⟨p, by omega, fun k hk => ?_⟩
      by_cases hkn : k = n
      · rw [hkn, h0]; unfold unit; rw [if_neg (by omega)]
      · exact hpk k (by omega)

/-- bit `b` of a number, as 0/1 -/
theorem popcount_succ_low (n j : Nat) : popcount (n + 1) j = j % 2 + popcount n (j / 2) := by
  unfold popcount
  rw [sumN_succ_front]
  congr 1
  · rw [Nat.testBit_zero]
    rcases Nat.mod_two_eq_zero_or_one j with h | h <;> simp [h]
  · apply sumN_congr
    intro b _
    rw [Nat.testBit_succ]

/-- the number of set bits of the index of `|x_0 … x_{n-1}⟩` is the number of parties in state 1 -/
theorem popcount_enc (x : Nat → Nat) : ∀ n, (∀ k, k < n → x k < 2) →
    popcount n (enc (fun _ => 2) x n) = sumN n x
  | 0, _ => rfl
  | n + 1, hx => by
    have hn := hx n (by omega)
    show popcount (n + 1) (enc (fun _ => 2) x n * 2 + x n) = sumN n x + x n
    rw [popcount_succ_low, flat_mod 2 _ _ hn, flat_div 2 _ _ hn,
      popcount_enc x n (fun k hk => hx k (by omega)), Nat.add_comm]

theorem sumN_reindex {α : Type} [AddCommMonoid α] (n : Nat) (p : Nat → Nat) (f : Nat → α)
    (hlt : ∀ k, k < n → p k < n) (hinj : ∀ a b, a < n → b < n → p a = p b → a = b) :
    sumN n (fun k => f (p k)) = sumN n f := by
  rw [sumN_eq_finset, sumN_eq_finset]
  apply Finset.sum_nbij' p (invPerm n p)
  · intro a ha; simp only [Finset.mem_range] at *; exact hlt a ha
  · intro a ha; simp only [Finset.mem_range] at *; exact Toq.Perms.invPerm_lt n p hlt hinj a ha
  · intro a ha; simp only [Finset.mem_range] at *; exact Toq.Perms.invPerm_perm n p hinj a ha
  · intro a ha; simp only [Finset.mem_range] at *; exact Toq.Perms.perm_invPerm n p hlt hinj a ha
  · intro a _; rfl


/-! ### sums over `C^d ⊗ C^d` that pick one index pair -/

theorem div_mod_unique (d k a b : Nat) (hb : b < d) : (k / d = a ∧ k % d = b) ↔ k = a * d + b := by
  constructor
  · rintro ⟨h1, h2⟩
    have := Nat.div_add_mod k d
    rw [h1, h2, Nat.mul_comm] at this; omega
  · intro h; rw [h]; exact ⟨flat_div d a b hb, flat_mod d a b hb⟩

theorem sumN_flat_pick {α : Type} [AddCommMonoid α] (d a b : Nat) (ha : a < d) (hb : b < d) (g : Nat → α) :
    sumN (d * d) (fun m => if m / d = a ∧ m % d = b then g m else 0) = g (a * d + b) := by
  rw [sumN_single (d * d) (a * d + b) (flat_lt d a b ha hb)]
  · rw [if_pos ((div_mod_unique d _ a b hb).mpr rfl)]
  · intro k _ hne
    rw [if_neg (fun h => hne ((div_mod_unique d k a b hb).mp h))]

theorem div_lt_of_lt_sq (d r : Nat) (hr : r < d * d) : r / d < d := Nat.div_lt_of_lt_mul hr

theorem pos_of_lt_sq (d r : Nat) (hr : r < d * d) : 0 < d := by
  rcases Nat.eq_zero_or_pos d with h | h
  · subst h; simp at hr
  · exact h

section field
variable {α : Type} [Field α]

theorem sumN_add {β : Type} [AddCommMonoid β] (n : Nat) (f g : Nat → β) :
    sumN n (fun k => f k + g k) = sumN n f + sumN n g := by
  simp only [sumN_eq_finset]; exact Finset.sum_add_distrib

theorem sumN_sub {β : Type} [AddCommGroup β] (n : Nat) (f g : Nat → β) :
    sumN n (fun k => f k - g k) = sumN n f - sumN n g := by
  simp only [sumN_eq_finset]; exact Finset.sum_sub_distrib f g

theorem sumN_div (n : Nat) (f : Nat → α) (c : α) : sumN n (fun k => f k / c) = sumN n f / c := by
  simp only [sumN_eq_finset]; exact (Finset.sum_div _ _ _).symm

/-- `K · (x·A − y·B)/N` -/
theorem matMul_lincomb_right (n : Nat) (K A B : Nat → Nat → α) (y N : α) (r c : Nat) :
    matMul n K (fun m c' => (A m c' - y * B m c') / N) r c
      = (matMul n K A r c - y * matMul n K B r c) / N := by
  unfold matMul
  rw [← sumN_mul_left, ← sumN_sub, ← sumN_div]
  apply sumN_congr; intro k _; ring

theorem matMul_lincomb_left (n : Nat) (K A B : Nat → Nat → α) (y N : α) (r c : Nat) :
    matMul n (fun r' m => (A r' m - y * B r' m) / N) K r c
      = (matMul n A K r c - y * matMul n B K r c) / N := by
  unfold matMul
  rw [← sumN_mul_left, ← sumN_sub, ← sumN_div]
  apply sumN_congr; intro k _; ring

end field

section semiring
variable {α : Type} [CommSemiring α]

theorem matMul_delta_right (n : Nat) (K : Nat → Nat → α) (r c : Nat) (hc : c < n) :
    matMul n K (fun m c' => delta m c') r c = K r c := by
  unfold matMul delta
  rw [sumN_single n c hc]
  · simp
  · intro k _ hne; simp [hne]

theorem matMul_delta_left (n : Nat) (K : Nat → Nat → α) (r c : Nat) (hr : r < n) :
    matMul n (fun r' m => delta r' m) K r c = K r c := by
  unfold matMul delta
  rw [sumN_single n r hr]
  · simp
  · intro k _ hne; simp [Ne.symm hne]

/-- `((A ⊗ B) · SWAP)[r, c] = A[r/d, c%d] · B[r%d, c/d]` -/
theorem kron_mul_swap (d : Nat) (A B : Nat → Nat → α) (r c : Nat) (hc : c < d * d) :
    matMul (d * d) (Toq.Spec17.kron2 d A B) (swapOp d) r c = A (r / d) (c % d) * B (r % d) (c / d) := by
  have hd := pos_of_lt_sq d c hc
  unfold matMul swapOp
  rw [sumN_congr _ (fun m => if m / d = c % d ∧ m % d = c / d then Toq.Spec17.kron2 d A B r m else 0) (d * d)
    (fun m _ => by by_cases h : m / d = c % d ∧ m % d = c / d <;> simp [h])]
  rw [sumN_flat_pick d (c % d) (c / d) (Nat.mod_lt _ hd) (div_lt_of_lt_sq d c hc)]
  unfold Toq.Spec17.kron2
  rw [flat_div d _ _ (div_lt_of_lt_sq d c hc), flat_mod d _ _ (div_lt_of_lt_sq d c hc)]

/-- `(SWAP · (A ⊗ B))[r, c] = A[r%d, c/d] · B[r/d, c%d]` -/
theorem swap_mul_kron (d : Nat) (A B : Nat → Nat → α) (r c : Nat) (hr : r < d * d) :
    matMul (d * d) (swapOp d) (Toq.Spec17.kron2 d A B) r c = A (r % d) (c / d) * B (r / d) (c % d) := by
  have hd := pos_of_lt_sq d r hr
  unfold matMul swapOp
  rw [sumN_congr _ (fun m => if m / d = r % d ∧ m % d = r / d then Toq.Spec17.kron2 d A B m c else 0) (d * d)
    (fun m _ => by
      by_cases h : m / d = r % d ∧ m % d = r / d
      · rw [if_pos h, if_pos ⟨h.2.symm, h.1.symm⟩, one_mul]
      · rw [if_neg h, if_neg (fun hh => h ⟨hh.2.symm, hh.1.symm⟩), zero_mul])]
  rw [sumN_flat_pick d (r % d) (r / d) (Nat.mod_lt _ hd) (div_lt_of_lt_sq d r hr)]
  unfold Toq.Spec17.kron2
  rw [flat_div d _ _ (div_lt_of_lt_sq d r hr), flat_mod d _ _ (div_lt_of_lt_sq d r hr)]

end semiring


/-! ### the permutation operator of the transposition is SWAP -/

theorem specIndex_swap (d r : Nat) :
    Toq.Perms.specIndex 2 (fnOfList [1, 0]) (fun _ => d) r = (r % d) * d + (r / d) % d := by
  have h0 : invPerm 2 (fnOfList [1, 0]) 0 = 1 := by decide
  have h1 : invPerm 2 (fnOfList [1, 0]) 1 = 0 := by decide
  unfold Toq.Perms.specIndex
  simp [enc, dec, h0, h1]

theorem permOp_swap {α : Type} [Zero α] [One α] (d r c : Nat) (hr : r < d * d) (_hc : c < d * d) :
    Toq.Perms.permOp (α := α) 2 (fnOfList [1, 0]) (fun _ => d) false r c = swapOp d r c := by
  have hd := pos_of_lt_sq d r hr
  unfold Toq.Perms.permOp Toq.Perms.permuteMat Toq.Perms.permIndex
  rw [Toq.Perms.permuteVec_false_eq (fun j => j) 2 (fnOfList [1, 0]) (fun _ => d) (by decide)
    (by
      have : ∀ a, a < 2 → ∀ b, b < 2 → [1, 0].getD a 0 = [1, 0].getD b 0 → a = b := by decide
      intro a b ha hb h; exact this a ha b hb h)]
  simp only [if_true]
  rw [specIndex_swap, Nat.mod_eq_of_lt (div_lt_of_lt_sq d r hr)]
  unfold swapOp
  have key : (r % d * d + r / d = c) ↔ (r / d = c % d ∧ r % d = c / d) := by
    rw [eq_comm, ← div_mod_unique d c (r % d) (r / d) (div_lt_of_lt_sq d r hr)]
    constructor
    · rintro ⟨a, b⟩; exact ⟨b.symm, a.symm⟩
    · rintro ⟨a, b⟩; exact ⟨b.symm, a.symm⟩
  by_cases h : r / d = c % d ∧ r % d = c / d
  · rw [if_pos (key.mpr h), if_pos h]
  · rw [if_neg (fun hh => h (key.mp hh)), if_neg h]

/-- `tr(SWAP) = d` -/
theorem trace_swap {α : Type} [Semiring α] (d : Nat) : trace (d * d) (swapOp (α := α) d) = (d : α) := by
  unfold trace
  rw [sumN_flat d _ d]
  rw [sumN_congr _ (fun _ => (1 : α)) d (fun i hi => by
    rw [sumN_single d i hi]
    · unfold swapOp
      rw [flat_div d i i hi, flat_mod d i i hi, if_pos ⟨rfl, rfl⟩]
    · intro k hk hne
      unfold swapOp
      rw [flat_div d i k hk, flat_mod d i k hk, if_neg (fun hh => hne hh.1.symm)])]
  rw [sumN_const, mul_one]

theorem trace_delta {α : Type} [Semiring α] (n : Nat) : trace n (delta (α := α)) = (n : α) := by
  unfold trace delta
  rw [sumN_congr _ (fun _ => (1 : α)) n (fun i _ => by rw [if_pos rfl]), sumN_const, mul_one]

theorem trace_omegaProj {α : Type} [Semiring α] (d : Nat) : trace (d * d) (omegaProj (α := α) d) = (d : α) := by
  unfold trace
  rw [sumN_flat d _ d]
  rw [sumN_congr _ (fun _ => (1 : α)) d (fun i hi => by
    rw [sumN_single d i hi]
    · unfold omegaProj
      rw [flat_div d i i hi, flat_mod d i i hi, if_pos ⟨rfl, rfl⟩]
    · intro k hk hne
      unfold omegaProj
      rw [flat_div d i k hk, flat_mod d i k hk, if_neg (fun hh => hne hh.1.symm)])]
  rw [sumN_const, mul_one]


/-! ### Hadamard sign pattern -/

/-- the sign contributed by bit `b` -/
def hsign (i k b : Nat) : Int := if i.testBit b && k.testBit b then -1 else 1

theorem hadamardS_eq (n i k : Nat) : hadamardS n i k = prodFn n (hsign i k) := rfl

theorem mod_two_pow_succ' (x i : Nat) : x % 2 ^ (i + 1) = 2 ^ i * (x.testBit i).toNat + x % 2 ^ i := by
  rw [Nat.mod_pow_succ, Nat.add_comm, Nat.toNat_testBit]

theorem hadamardS_low (n i k : Nat) (hk : k < 2 ^ n) : hadamardS (n + 1) i k = hadamardS n i k := by
  show prodFn n (hsign i k) * hsign i k n = prodFn n (hsign i k)
  unfold hsign
  rw [Nat.testBit_lt_two_pow hk, Bool.and_false]
  simp

theorem hadamardS_high (n i k : Nat) (hk : k < 2 ^ n) :
    hadamardS (n + 1) i (2 ^ n + k) = hadamardS n i k * (if i.testBit n then -1 else 1) := by
  show prodFn n (hsign i (2 ^ n + k)) * hsign i (2 ^ n + k) n = prodFn n (hsign i k) * _
  congr 1
  · apply prodFn_congr
    intro b hb
    unfold hsign
    rw [Nat.testBit_two_pow_add_gt hb]
  · unfold hsign
    rw [Nat.testBit_two_pow_add_eq, Nat.testBit_lt_two_pow hk]
    simp

theorem hadamard_gram (i j : Nat) : ∀ n, sumN (2 ^ n) (fun k => hadamardS n i k * hadamardS n j k)
    = if i % 2 ^ n = j % 2 ^ n then (2 : Int) ^ n else 0
  | 0 => by simp [sumN, hadamardS, prodFn, Nat.mod_one]
  | n + 1 => by
    have ih := hadamard_gram i j n
    rw [Nat.pow_succ, Nat.mul_two, sumN_add_range]
    rw [sumN_congr _ (fun k => hadamardS n i k * hadamardS n j k) (2 ^ n) (fun k hk => by
      rw [hadamardS_low n i k hk, hadamardS_low n j k hk])]
    rw [sumN_congr (fun k => hadamardS (n + 1) i (2 ^ n + k) * hadamardS (n + 1) j (2 ^ n + k))
      (fun k => ((if i.testBit n then -1 else 1) * (if j.testBit n then -1 else 1)) *
        (hadamardS n i k * hadamardS n j k)) (2 ^ n) (fun k hk => by
      rw [hadamardS_high n i k hk, hadamardS_high n j k hk]; ring)]
    rw [sumN_mul_left, ih]
    have hi := mod_two_pow_succ' i n
    have hj := mod_two_pow_succ' j n
    have li : i % 2 ^ n < 2 ^ n := Nat.mod_lt _ (Nat.two_pow_pos n)
    have lj : j % 2 ^ n < 2 ^ n := Nat.mod_lt _ (Nat.two_pow_pos n)
    rw [← Nat.mul_two, ← Nat.pow_succ, hi, hj]
    cases hbi : i.testBit n <;> cases hbj : j.testBit n <;>
      by_cases hm : i % 2 ^ n = j % 2 ^ n <;> simp [hm, pow_succ] <;> omega


/-! ### Gaussian integers as a commutative ring (for sums over `GI`-valued models) -/

namespace GIring

@[ext] theorem ext {a b : GI} (h1 : a.re = b.re) (h2 : a.im = b.im) : a = b := by
  cases a; cases b; simp_all

@[simp] theorem add_re (a b : GI) : (a + b).re = a.re + b.re := rfl
@[simp] theorem add_im (a b : GI) : (a + b).im = a.im + b.im := rfl
@[simp] theorem mul_re (a b : GI) : (a * b).re = a.re * b.re - a.im * b.im := rfl
@[simp] theorem mul_im (a b : GI) : (a * b).im = a.re * b.im + a.im * b.re := rfl
@[simp] theorem neg_re (a : GI) : (-a).re = -a.re := rfl
@[simp] theorem neg_im (a : GI) : (-a).im = -a.im := rfl
@[simp] theorem zero_re : (0 : GI).re = 0 := rfl
@[simp] theorem zero_im : (0 : GI).im = 0 := rfl
@[simp] theorem one_re : (1 : GI).re = 1 := rfl
@[simp] theorem one_im : (1 : GI).im = 0 := rfl

/-- the ring structure whose `+ * - 0 1` are the executable ones of `Toq/Core/Scalar.lean` -/
@[reducible] def commRing : CommRing GI :=
  CommRing.ofMinimalAxioms
    (by intro a b c; ext <;> simp <;> ring)
    (by intro a; ext <;> simp)
    (by intro a; ext <;> simp)
    (by intro a b c; ext <;> simp <;> ring)
    (by intro a b; ext <;> simp <;> ring)
    (by intro a; ext <;> simp)
    (by intro a b c; ext <;> simp <;> ring)

end GIring


/-! ### generalised Gell-Mann matrices -/

section gellmann
set_option linter.style.haveILetI false

theorem sumN_ofInt (f : Nat → Int) : ∀ n, sumN n (fun i => GI.ofInt (f i)) = GI.ofInt (sumN n f)
  | 0 => rfl
  | n + 1 => by
    show sumN n (fun i => GI.ofInt (f i)) + GI.ofInt (f n) = GI.ofInt (sumN n f + f n)
    rw [sumN_ofInt f n]; rfl

theorem ofInt_mul (x y : Int) : GI.ofInt x * GI.ofInt y = GI.ofInt (x * y) := by
  apply GIring.ext <;> simp [GI.ofInt]

/-- diagonal of the numerator of `gen_gell_mann(k, k, d)` -/
def dvec (k i : Nat) : Int := if k = 0 then 1 else if i < k then 1 else if i = k then -(k : Int) else 0

theorem genGellMann_diag (k i j : Nat) :
    genGellMann k k i j = if i = j then GI.ofInt (dvec k i) else 0 := by
  unfold genGellMann dvec GI.ofInt
  rw [if_pos rfl]
  by_cases h : i = j
  · rw [if_pos h, if_pos h]
    by_cases h0 : k = 0
    · rw [if_pos h0, if_pos h0]; rfl
    · rw [if_neg h0, if_neg h0]
      by_cases h1 : i < k
      · rw [if_pos h1, if_pos h1]; rfl
      · rw [if_neg h1, if_neg h1]
        by_cases h2 : i = k
        · rw [if_pos h2, if_pos h2]
        · rw [if_neg h2, if_neg h2]; rfl
  · rw [if_neg h, if_neg h]

theorem genGellMann_off_zero (a b i k : Nat) (hab : a ≠ b) (h : ¬((i = a ∧ k = b) ∨ (i = b ∧ k = a))) :
    genGellMann a b i k = 0 := by
  unfold genGellMann
  rw [if_neg hab]
  by_cases hlt : a < b
  · rw [if_pos hlt, if_neg h]
  · rw [if_neg hlt, if_neg (fun hh => h (Or.inl hh)), if_neg (fun hh => h (Or.inr hh))]

/-- `Σ_{i<d} [i<k] = k` for `k ≤ d` -/
theorem sumN_lt_ind (k : Nat) : ∀ d, k ≤ d → sumN d (fun i => if i < k then (1 : Int) else 0) = k
  | 0, h => by
    have : k = 0 := by omega
    subst this; rfl
  | d + 1, h => by
    show sumN d (fun i => if i < k then (1 : Int) else 0) + (if d < k then 1 else 0) = k
    by_cases hk : k ≤ d
    · rw [sumN_lt_ind k d hk, if_neg (by omega), add_zero]
    · have : k = d + 1 := by omega
      subst this
      rw [sumN_congr _ (fun _ => (1 : Int)) d (fun i hi => by rw [if_pos (by omega)]), sumN_const, if_pos (by omega)]
      push_cast; ring

theorem dvec_pos (k i : Nat) (hk : 0 < k) :
    dvec k i = (if i < k then 1 else 0) + (if i = k then -(k : Int) else 0) := by
  unfold dvec
  rw [if_neg (by omega)]
  by_cases h1 : i < k
  · rw [if_pos h1, if_pos h1, if_neg (by omega), add_zero]
  · rw [if_neg h1, if_neg h1, zero_add]

theorem sumN_dvec (k d : Nat) (hk : 0 < k) (hkd : k < d) : sumN d (dvec k) = 0 := by
  rw [sumN_congr _ _ d (fun i _ => dvec_pos k i hk), sumN_add, sumN_lt_ind k d (by omega),
    sumN_ite_eq d k hkd (fun _ => -(k : Int))]
  ring

theorem sumN_dvec_mul_lt (k l d : Nat) (hk : 0 < k) (hkl : k < l) (hld : l < d) :
    sumN d (fun i => dvec k i * dvec l i) = 0 := by
  rw [sumN_congr _ (dvec k) d (fun i _ => by
    rw [dvec_pos l i (by omega)]
    unfold dvec
    rw [if_neg (by omega)]
    by_cases h1 : i < k
    · rw [if_pos h1, if_pos (by omega), if_neg (by omega)]; ring
    · rw [if_neg h1]
      by_cases h2 : i = k
      · rw [if_pos h2, if_pos (by omega), if_neg (by omega)]; ring
      · rw [if_neg h2, zero_mul])]
  exact sumN_dvec k d hk (by omega)

theorem sumN_dvec_sq (k d : Nat) (hk : 0 < k) (hkd : k < d) :
    sumN d (fun i => dvec k i * dvec k i) = (k : Int) * (k + 1) := by
  rw [sumN_congr _ (fun i => (if i < k then (1 : Int) else 0) + (if i = k then (k : Int) * k else 0)) d (fun i _ => by
    rw [dvec_pos k i hk]
    by_cases h1 : i < k
    · rw [if_pos h1, if_neg (by omega), if_neg (by omega)]; ring
    · rw [if_neg h1]
      by_cases h2 : i = k
      · rw [if_pos h2, if_pos h2]; ring
      · rw [if_neg h2, if_neg h2]; ring)]
  rw [sumN_add, sumN_lt_ind k d (by omega), sumN_ite_eq d k hkd (fun _ => (k : Int) * k)]
  ring

/-- all four cases of `Σ_i D_k[i] D_l[i]` -/
theorem sumN_dvec_mul (k l d : Nat) (hk : k < d) (hl : l < d) :
    sumN d (fun i => dvec k i * dvec l i)
      = if k = l then (if k = 0 then (d : Int) else (k : Int) * (k + 1)) else 0 := by
  have h0 : ∀ i, dvec 0 i = 1 := fun i => by unfold dvec; rw [if_pos rfl]
  by_cases hkl : k = l
  · subst hkl
    rw [if_pos rfl]
    by_cases hk0 : k = 0
    · subst hk0
      rw [if_pos rfl, sumN_congr _ (fun _ => (1 : Int)) d (fun i _ => by rw [h0, mul_one]), sumN_const, mul_one]
    · rw [if_neg hk0]; exact sumN_dvec_sq k d (by omega) hk
  · rw [if_neg hkl]
    by_cases hk0 : k = 0
    · subst hk0
      rw [sumN_congr _ (dvec l) d (fun i _ => by rw [h0, one_mul])]
      exact sumN_dvec l d (by omega) hl
    · by_cases hl0 : l = 0
      · subst hl0
        rw [sumN_congr _ (dvec k) d (fun i _ => by rw [h0, mul_one])]
        exact sumN_dvec k d (by omega) hk
      · by_cases hlt : k < l
        · exact sumN_dvec_mul_lt k l d (by omega) hlt hl
        · rw [sumN_congr _ (fun i => dvec l i * dvec k i) d (fun i _ => mul_comm _ _)]
          exact sumN_dvec_mul_lt l k d (by omega) (by omega) hk

/-- trace of a product with a two-entry matrix -/
theorem trMul_off (d a b : Nat) (ha : a < d) (hb : b < d) (hab : a ≠ b) (B : Nat → Nat → GI) :
    Toq.Spec17.trMul d (genGellMann a b) B
      = genGellMann a b a b * B b a + genGellMann a b b a * B a b := by
  letI := GIring.commRing
  unfold Toq.Spec17.trMul
  rw [sumN_eq_finset, Finset.sum_eq_add a b hab]
  · congr 1
    · rw [sumN_single d b hb]
      intro k _ hne
      rw [genGellMann_off_zero a b a k hab (by
        rintro (⟨_, h⟩ | ⟨h, _⟩)
        · exact hne h
        · exact hab h), zero_mul]
    · rw [sumN_single d a ha]
      intro k _ hne
      rw [genGellMann_off_zero a b b k hab (by
        rintro (⟨h, _⟩ | ⟨_, h⟩)
        · exact hab h.symm
        · exact hne h), zero_mul]
  · intro c _ hc
    apply sumN_zero'
    intro k _
    rw [genGellMann_off_zero a b c k hab (by
      rintro (⟨h, _⟩ | ⟨h, _⟩)
      · exact hc.1 h
      · exact hc.2 h), zero_mul]
  · intro h; exact absurd (Finset.mem_range.mpr ha) h
  · intro h; exact absurd (Finset.mem_range.mpr hb) h

theorem trMul_comm (d : Nat) (A B : Nat → Nat → GI) :
    Toq.Spec17.trMul d A B = Toq.Spec17.trMul d B A := by
  letI := GIring.commRing
  unfold Toq.Spec17.trMul
  rw [sumN_comm]
  apply sumN_congr; intro i _
  apply sumN_congr; intro k _
  exact mul_comm _ _

theorem trMul_diag_diag (d k l : Nat) (hk : k < d) (hl : l < d) :
    Toq.Spec17.trMul d (genGellMann k k) (genGellMann l l)
      = GI.ofInt (if k = l then (if k = 0 then (d : Int) else (k : Int) * (k + 1)) else 0) := by
  letI := GIring.commRing
  unfold Toq.Spec17.trMul
  rw [← sumN_dvec_mul k l d hk hl, ← sumN_ofInt]
  apply sumN_congr; intro i hi
  rw [sumN_single d i hi]
  · rw [genGellMann_diag, genGellMann_diag, if_pos rfl, if_pos rfl, ofInt_mul]
  · intro m _ hne
    rw [genGellMann_diag k i m, if_neg (Ne.symm hne), zero_mul]

end gellmann


section gellmann2
theorem gm_offX (p q : Nat) (hpq : p ≠ q) : genGellMann p q p q = if p < q then 1 else ⟨0, 1⟩ := by
  unfold genGellMann
  rw [if_neg hpq]
  by_cases h : p < q
  · rw [if_pos h, if_pos h, if_pos (Or.inl ⟨rfl, rfl⟩)]
  · rw [if_neg h, if_neg h, if_pos ⟨rfl, rfl⟩]

theorem gm_offY (p q : Nat) (hpq : p ≠ q) : genGellMann p q q p = if p < q then 1 else ⟨0, -1⟩ := by
  unfold genGellMann
  rw [if_neg hpq]
  by_cases h : p < q
  · rw [if_pos h, if_pos h, if_pos (Or.inr ⟨rfl, rfl⟩)]
  · rw [if_neg h, if_neg h, if_neg (fun hh => hpq hh.1.symm), if_pos ⟨rfl, rfl⟩]

/-- entry `(i, j)`, `i ≠ j`, of any numerator -/
theorem gm_entry_off (p' q' i j : Nat) (hij : i ≠ j) :
    genGellMann p' q' i j =
      if p' = q' then 0
      else if p' < q' then (if (i = p' ∧ j = q') ∨ (i = q' ∧ j = p') then 1 else 0)
      else (if i = p' ∧ j = q' then ⟨0, 1⟩ else if i = q' ∧ j = p' then ⟨0, -1⟩ else 0) := by
  unfold genGellMann
  by_cases h : p' = q'
  · rw [if_pos h, if_pos h, if_neg hij]
  · rw [if_neg h, if_neg h]

theorem trMul_off_eval (d p q p' q' : Nat) (hp : p < d) (hq : q < d) (hpq : p ≠ q) :
    Toq.Spec17.trMul d (genGellMann p q) (genGellMann p' q') = if p = p' ∧ q = q' then (⟨2, 0⟩ : GI) else 0 := by
  rw [trMul_off d p q hp hq hpq, gm_offX p q hpq, gm_offY p q hpq, gm_entry_off p' q' q p (Ne.symm hpq),
    gm_entry_off p' q' p q hpq]
  by_cases hlt : p < q <;> by_cases hd' : p' = q' <;> by_cases hlt' : p' < q' <;>
    simp only [hlt, hd', hlt', if_true, if_false] <;>
    split_ifs <;> first | decide | (exfalso; omega)

end gellmann2

/-! ### conjugation of `x·I + y·|v⟩⟨v|` -/

section conjugation
variable {α : Type} [CommRing α]

theorem conj_rank_one (N : Nat) (K Kc : Nat → Nat → α) (v : Nat → α) (x y : α) (r c : Nat) :
    sumN N (fun m => sumN N (fun m' => K r m * (x * delta m m' + y * (v m * v m')) * Kc c m'))
      = x * sumN N (fun m => K r m * Kc c m)
        + y * (sumN N (fun m => K r m * v m) * sumN N (fun m' => Kc c m' * v m')) := by
  have h1 : ∀ m, m < N → sumN N (fun m' => K r m * (x * delta m m' + y * (v m * v m')) * Kc c m')
      = x * (K r m * Kc c m) + y * ((K r m * v m) * sumN N (fun m' => Kc c m' * v m')) := by
    intro m hm
    rw [← sumN_mul_left N (K r m * v m), ← sumN_mul_left N y]
    rw [← sumN_ite_eq N m hm (fun m' => x * (K r m * Kc c m')), ← sumN_add]
    apply sumN_congr; intro m' _
    unfold delta
    by_cases h : m = m'
    · rw [if_pos h, if_pos h.symm]; ring
    · rw [if_neg h, if_neg (Ne.symm h)]; ring
  rw [sumN_congr _ _ N h1, sumN_add, sumN_mul_left, sumN_mul_left, sumN_mul_right]

/-- rows of `U ⊗ Ū` are orthonormal when those of `U` are -/
theorem kron_row_orthonormal (d : Nat) (U Uc : Nat → Nat → α) (hU : Toq.Spec17.RowOrthonormal d U Uc)
    (r c : Nat) (hr : r < d * d) (hc : c < d * d) :
    sumN (d * d) (fun m => Toq.Spec17.kron2 d U Uc r m * Toq.Spec17.kron2 d Uc U c m) = delta r c := by
  have hd := pos_of_lt_sq d r hr
  rw [sumN_flat d _ d]
  have hterm : ∀ i, i < d → sumN d (fun j => Toq.Spec17.kron2 d U Uc r (i * d + j) * Toq.Spec17.kron2 d Uc U c (i * d + j))
      = (U (r / d) i * Uc (c / d) i) * sumN d (fun j => U (c % d) j * Uc (r % d) j) := by
    intro i _
    rw [← sumN_mul_left]
    apply sumN_congr; intro j hj
    unfold Toq.Spec17.kron2
    rw [flat_div d i j hj, flat_mod d i j hj]; ring
  rw [sumN_congr _ _ d hterm, sumN_mul_right,
    hU (r / d) (c / d) (div_lt_of_lt_sq d r hr) (div_lt_of_lt_sq d c hc),
    hU (c % d) (r % d) (Nat.mod_lt _ hd) (Nat.mod_lt _ hd)]
  unfold Toq.Spec17.δ delta
  by_cases h : r = c
  · subst h; simp
  · rw [if_neg h]
    by_cases h1 : r / d = c / d
    · have h2 : c % d ≠ r % d := by
        intro h2; apply h
        rw [← Nat.div_add_mod r d, ← Nat.div_add_mod c d, h1, h2]
      rw [if_neg h2, mul_zero]
    · rw [if_neg h1, zero_mul]

end conjugation


/-! ### quadratic forms of `x·I + y·|w⟩⟨w|` and the PPT thresholds -/

section ordered
variable {α : Type} [Field α] [LinearOrder α] [IsStrictOrderedRing α]

omit [LinearOrder α] [IsStrictOrderedRing α] in
theorem quadForm_rank_one (N : Nat) (w v : Nat → α) (x y : α) :
    Toq.Spec17.quadForm N (fun r c => x * delta r c + y * (w r * w c)) v
      = x * sumN N (fun m => v m * v m) + y * (sumN N (fun m => v m * w m) * sumN N (fun m => v m * w m)) := by
  unfold Toq.Spec17.quadForm
  exact conj_rank_one N (fun _ m => v m) (fun _ m => v m) w x y 0 0

theorem sumN_sq_nonneg (N : Nat) (v : Nat → α) : 0 ≤ sumN N (fun m => v m * v m) := by
  rw [sumN_eq_finset]
  exact Finset.sum_nonneg (fun m _ => mul_self_nonneg (v m))

/-- Cauchy–Schwarz -/
theorem sumN_cauchy (N : Nat) (v w : Nat → α) :
    sumN N (fun m => v m * w m) * sumN N (fun m => v m * w m)
      ≤ sumN N (fun m => v m * v m) * sumN N (fun m => w m * w m) := by
  simp only [sumN_eq_finset]
  have := Finset.sum_mul_sq_le_sq_mul_sq (Finset.range N) v w
  simpa [pow_two] using this

omit [LinearOrder α] [IsStrictOrderedRing α] in
theorem omegaVec_sq_sum (d : Nat) : sumN (d * d) (fun m => Toq.Spec17.omegaVec (α := α) d m * Toq.Spec17.omegaVec d m) = (d : α) := by
  rw [sumN_flat d _ d]
  rw [sumN_congr _ (fun _ => (1 : α)) d (fun i hi => by
    rw [sumN_single d i hi]
    · unfold Toq.Spec17.omegaVec
      rw [flat_div d i i hi, flat_mod d i i hi, if_pos rfl, mul_one]
    · intro k hk hne
      unfold Toq.Spec17.omegaVec
      rw [flat_div d i k hk, flat_mod d i k hk, if_neg (Ne.symm hne), mul_zero])]
  rw [sumN_const, mul_one]

end ordered


/-! ### the swap as an index involution; quadratic form of `x·I + y·SWAP` -/

/-- `|ij⟩ ↦ |ji⟩` on flat indices -/
def swapIdx (d r : Nat) : Nat := (r % d) * d + r / d

theorem swapIdx_lt (d r : Nat) (hr : r < d * d) : swapIdx d r < d * d :=
  flat_lt d _ _ (Nat.mod_lt _ (pos_of_lt_sq d r hr)) (div_lt_of_lt_sq d r hr)

theorem swapIdx_invol (d r : Nat) (hr : r < d * d) : swapIdx d (swapIdx d r) = r := by
  have hd := pos_of_lt_sq d r hr
  unfold swapIdx
  rw [flat_mod d _ _ (div_lt_of_lt_sq d r hr), flat_div d _ _ (div_lt_of_lt_sq d r hr), Nat.mul_comm]
  exact Nat.div_add_mod r d

theorem swapOp_eq {α : Type} [Zero α] [One α] (d r c : Nat) (hr : r < d * d) :
    swapOp (α := α) d r c = if c = swapIdx d r then 1 else 0 := by
  unfold swapOp swapIdx
  have key : (r / d = c % d ∧ r % d = c / d) ↔ c = r % d * d + r / d := by
    rw [← div_mod_unique d c (r % d) (r / d) (div_lt_of_lt_sq d r hr)]
    constructor
    · rintro ⟨a, b⟩; exact ⟨b.symm, a.symm⟩
    · rintro ⟨a, b⟩; exact ⟨b.symm, a.symm⟩
  by_cases h : c = r % d * d + r / d
  · rw [if_pos (key.mpr h), if_pos h]
  · rw [if_neg (fun hh => h (key.mp hh)), if_neg h]

section ordered2
variable {α : Type} [Field α] [LinearOrder α] [IsStrictOrderedRing α]

omit [LinearOrder α] [IsStrictOrderedRing α] in
theorem quadForm_swap (d : Nat) (v : Nat → α) (x y : α) :
    Toq.Spec17.quadForm (d * d) (fun r c => x * delta r c + y * swapOp d r c) v
      = x * sumN (d * d) (fun m => v m * v m) + y * sumN (d * d) (fun m => v m * v (swapIdx d m)) := by
  unfold Toq.Spec17.quadForm
  rw [← sumN_mul_left, ← sumN_mul_left, ← sumN_add]
  apply sumN_congr; intro r hr
  rw [sumN_congr _ (fun c => (if c = r then x * (v r * v c) else 0)
      + (if c = swapIdx d r then y * (v r * v c) else 0)) (d * d) (fun c _ => by
    show v r * (x * delta r c + y * swapOp d r c) * v c = _
    rw [swapOp_eq d r c hr]; unfold delta
    by_cases h1 : r = c
    · by_cases h2 : c = swapIdx d r
      · rw [if_pos h1, if_pos h2, if_pos h1.symm, if_pos h2]; ring
      · rw [if_pos h1, if_neg h2, if_pos h1.symm, if_neg h2]; ring
    · by_cases h2 : c = swapIdx d r
      · rw [if_neg h1, if_pos h2, if_neg (Ne.symm h1), if_pos h2]; ring
      · rw [if_neg h1, if_neg h2, if_neg (Ne.symm h1), if_neg h2]; ring)]
  rw [sumN_add, sumN_ite_eq (d * d) r hr, sumN_ite_eq (d * d) (swapIdx d r) (swapIdx_lt d r hr)]

omit [LinearOrder α] [IsStrictOrderedRing α] in
theorem sumN_swap_sq (d : Nat) (v : Nat → α) :
    sumN (d * d) (fun m => v (swapIdx d m) * v (swapIdx d m)) = sumN (d * d) (fun m => v m * v m) := by
  by_cases hd : d = 0
  · subst hd; rfl
  apply sumN_reindex (d * d) (swapIdx d) (fun m => v m * v m)
  · intro k hk; exact swapIdx_lt d k hk
  · intro a b ha hb h
    rw [← swapIdx_invol d a ha, ← swapIdx_invol d b hb, h]

/-- `|Σ v_m v_{σ m}| ≤ Σ v_m²` -/
theorem swap_form_bounds (d : Nat) (v : Nat → α) :
    0 ≤ sumN (d * d) (fun m => v m * v m) + sumN (d * d) (fun m => v m * v (swapIdx d m)) ∧
    0 ≤ sumN (d * d) (fun m => v m * v m) - sumN (d * d) (fun m => v m * v (swapIdx d m)) := by
  have hp : 0 ≤ sumN (d * d) (fun m => (v m + v (swapIdx d m)) * (v m + v (swapIdx d m))) := by
    rw [sumN_eq_finset]; exact Finset.sum_nonneg (fun m _ => mul_self_nonneg _)
  have hm : 0 ≤ sumN (d * d) (fun m => (v m - v (swapIdx d m)) * (v m - v (swapIdx d m))) := by
    rw [sumN_eq_finset]; exact Finset.sum_nonneg (fun m _ => mul_self_nonneg _)
  have e1 : sumN (d * d) (fun m => (v m + v (swapIdx d m)) * (v m + v (swapIdx d m)))
      = 2 * sumN (d * d) (fun m => v m * v m) + 2 * sumN (d * d) (fun m => v m * v (swapIdx d m)) := by
    rw [sumN_congr _ (fun m => (v m * v m + v (swapIdx d m) * v (swapIdx d m)) + 2 * (v m * v (swapIdx d m)))
      (d * d) (fun m _ => by ring)]
    rw [sumN_add, sumN_add, sumN_swap_sq, sumN_mul_left]; ring
  have e2 : sumN (d * d) (fun m => (v m - v (swapIdx d m)) * (v m - v (swapIdx d m)))
      = 2 * sumN (d * d) (fun m => v m * v m) - 2 * sumN (d * d) (fun m => v m * v (swapIdx d m)) := by
    rw [sumN_congr _ (fun m => (v m * v m + v (swapIdx d m) * v (swapIdx d m)) - 2 * (v m * v (swapIdx d m)))
      (d * d) (fun m _ => by ring)]
    rw [sumN_sub, sumN_add, sumN_swap_sq, sumN_mul_left]; ring
  constructor <;> linarith

end ordered2


/-! ### positivity of `x·I + y·SWAP` and of `x·I + y·|Ω⟩⟨Ω|` -/

section psd
variable {α : Type} [Field α] [LinearOrder α] [IsStrictOrderedRing α]

/-- `x·I + y·S ⪰ 0` iff both eigenvalues `x ± y` are non-negative (`d ≥ 2`) -/
theorem psd_swap_iff (d : Nat) (hd : 2 ≤ d) (x y : α) :
    Toq.Spec17.PSD (d * d) (fun r c => x * delta r c + y * swapOp d r c) ↔ (0 ≤ x - y ∧ 0 ≤ x + y) := by
  have h1d : 1 < d * d := by nlinarith
  have hdd : d < d * d := by nlinarith
  have hs1 : swapIdx d 1 = d := by
    unfold swapIdx; rw [Nat.mod_eq_of_lt (by omega), Nat.div_eq_of_lt (by omega)]; omega
  have hsd : swapIdx d d = 1 := by
    unfold swapIdx; rw [Nat.mod_self, Nat.div_self (by omega)]; omega
  have hs0 : swapIdx d 0 = 0 := by unfold swapIdx; simp
  have h1ned : (1 : Nat) ≠ d := by omega
  have hdne1 : d ≠ 1 := by omega
  constructor
  · intro h
    constructor
    · have h1 := h (fun m => (if m = 1 then 1 else 0) - (if m = d then 1 else 0))
      rw [quadForm_swap] at h1
      have eP : sumN (d * d) (fun m => ((if m = 1 then (1 : α) else 0) - (if m = d then 1 else 0))
          * ((if m = 1 then 1 else 0) - (if m = d then 1 else 0))) = 2 := by
        rw [sumN_congr _ (fun m => (if m = 1 then (1 : α) else 0) + (if m = d then 1 else 0)) (d * d) (fun m _ => by
          by_cases m1 : m = 1
          · rw [if_pos m1, if_neg (by omega)]; ring
          · by_cases m2 : m = d
            · rw [if_neg m1, if_pos m2]; ring
            · rw [if_neg m1, if_neg m2]; ring)]
        rw [sumN_add, sumN_ite_eq (d * d) 1 h1d (fun _ => (1 : α)), sumN_ite_eq (d * d) d hdd (fun _ => (1 : α))]
        norm_num
      have eQ : sumN (d * d) (fun m => ((if m = 1 then (1 : α) else 0) - (if m = d then 1 else 0))
          * ((if swapIdx d m = 1 then 1 else 0) - (if swapIdx d m = d then 1 else 0))) = -2 := by
        rw [sumN_congr _ (fun m => (if m = 1 then (-1 : α) else 0) + (if m = d then -1 else 0)) (d * d) (fun m _ => by
          by_cases m1 : m = 1
          · rw [m1, hs1]; simp [h1ned, hdne1]
          · by_cases m2 : m = d
            · rw [m2, hsd]; simp [h1ned, hdne1]
            · simp [m1, m2])]
        rw [sumN_add, sumN_ite_eq (d * d) 1 h1d (fun _ => (-1 : α)), sumN_ite_eq (d * d) d hdd (fun _ => (-1 : α))]
        norm_num
      rw [eP, eQ] at h1
      linarith
    · have h0 := h (fun m => if m = 0 then 1 else 0)
      rw [quadForm_swap] at h0
      have eP : sumN (d * d) (fun m => (if m = 0 then (1 : α) else 0) * (if m = 0 then 1 else 0)) = 1 := by
        rw [sumN_congr _ (fun m => if m = 0 then (1 : α) else 0) (d * d) (fun m _ => by
          by_cases m0 : m = 0 <;> simp [m0])]
        exact sumN_ite_eq (d * d) 0 (by omega) (fun _ => (1 : α))
      have eQ : sumN (d * d) (fun m => (if m = 0 then (1 : α) else 0) * (if swapIdx d m = 0 then 1 else 0)) = 1 := by
        rw [sumN_congr _ (fun m => if m = 0 then (1 : α) else 0) (d * d) (fun m _ => by
          by_cases m0 : m = 0
          · subst m0; rw [hs0]; simp
          · simp [m0])]
        exact sumN_ite_eq (d * d) 0 (by omega) (fun _ => (1 : α))
      rw [eP, eQ] at h0
      linarith
  · rintro ⟨hm, hp⟩ v
    rw [quadForm_swap]
    obtain ⟨b1, b2⟩ := swap_form_bounds d v
    have e : x * sumN (d * d) (fun m => v m * v m) + y * sumN (d * d) (fun m => v m * v (swapIdx d m))
        = ((x + y) * (sumN (d * d) (fun m => v m * v m) + sumN (d * d) (fun m => v m * v (swapIdx d m)))
          + (x - y) * (sumN (d * d) (fun m => v m * v m) - sumN (d * d) (fun m => v m * v (swapIdx d m)))) / 2 := by
      ring
    rw [e]
    exact div_nonneg (add_nonneg (mul_nonneg hp b1) (mul_nonneg hm b2)) (by norm_num)

/-- `x·I + y·|Ω⟩⟨Ω| ⪰ 0` iff both eigenvalues `x`, `x + y d` are non-negative (`d ≥ 2`) -/
theorem psd_omega_iff (d : Nat) (hd : 2 ≤ d) (x y : α) :
    Toq.Spec17.PSD (d * d) (fun r c => x * delta r c + y * (Toq.Spec17.omegaVec d r * Toq.Spec17.omegaVec d c))
      ↔ (0 ≤ x ∧ 0 ≤ x + y * (d : α)) := by
  have hdpos : (0 : α) < (d : α) := by exact_mod_cast (show 0 < d by omega)
  have h1d : 1 < d * d := by nlinarith
  constructor
  · intro h
    constructor
    · have h1 := h (fun m => if m = 1 then 1 else 0)
      rw [quadForm_rank_one] at h1
      have eP : sumN (d * d) (fun m => (if m = 1 then (1 : α) else 0) * (if m = 1 then 1 else 0)) = 1 := by
        rw [sumN_congr _ (fun m => if m = 1 then (1 : α) else 0) (d * d) (fun m _ => by
          by_cases m0 : m = 1 <;> simp [m0])]
        exact sumN_ite_eq (d * d) 1 h1d (fun _ => (1 : α))
      have hΩ1 : Toq.Spec17.omegaVec (α := α) d 1 = 0 := by
        unfold Toq.Spec17.omegaVec
        have e1 : 1 / d = 0 := Nat.div_eq_of_lt (by omega)
        have e2 : 1 % d = 1 := Nat.mod_eq_of_lt (by omega)
        rw [e1, e2, if_neg (by omega)]
      have eT : sumN (d * d) (fun m => (if m = 1 then (1 : α) else 0) * Toq.Spec17.omegaVec d m) = 0 := by
        apply sumN_zero'
        intro m _
        by_cases m1 : m = 1
        · rw [m1, hΩ1, mul_zero]
        · rw [if_neg m1, zero_mul]
      rw [eP, eT] at h1
      linarith
    · have h1 := h (Toq.Spec17.omegaVec d)
      rw [quadForm_rank_one, omegaVec_sq_sum] at h1
      have h3 : 0 ≤ (d : α) * (x + y * (d : α)) := by linarith [h1]
      exact nonneg_of_mul_nonneg_right h3 hdpos
  · rintro ⟨hx, hxy⟩ v
    rw [quadForm_rank_one]
    have hS := sumN_sq_nonneg (d * d) v
    have hC := sumN_cauchy (d * d) v (Toq.Spec17.omegaVec (α := α) d)
    rw [omegaVec_sq_sum] at hC
    set S := sumN (d * d) (fun m => v m * v m)
    set T := sumN (d * d) (fun m => v m * Toq.Spec17.omegaVec d m) * sumN (d * d) (fun m => v m * Toq.Spec17.omegaVec d m)
    have hT : 0 ≤ T := mul_self_nonneg _
    by_cases hy : 0 ≤ y
    · exact add_nonneg (mul_nonneg hx hS) (mul_nonneg hy hT)
    · have hy' : y ≤ 0 := (not_le.mp hy).le
      have h5 : y * (S * (d : α)) ≤ y * T := mul_le_mul_of_nonpos_left hC hy'
      have h6 : 0 ≤ (x + y * (d : α)) * S := mul_nonneg hxy hS
      linarith [h5, h6]

end psd


/-! ### Pauli strings -/

section paulistrings
set_option linter.style.haveILetI false

theorem conj_mul (a b : GI) : (a * b).conj = a.conj * b.conj := by
  apply GIring.ext
  · simp [GI.conj]
  · simp [GI.conj]; ring

theorem pauliList_cons (a : Nat) (rest : List Nat) (i j : Nat) :
    pauliList (a :: rest) i j
      = pauli a (i / 2 ^ rest.length) (j / 2 ^ rest.length) * pauliList rest (i % 2 ^ rest.length) (j % 2 ^ rest.length) := by
  cases rest with
  | nil =>
    show pauli a i j = pauli a (i / 1) (j / 1) * 1
    rw [Nat.div_one, Nat.div_one]
    apply GIring.ext <;> simp
  | cons b r => rfl

/-- Hilbert–Schmidt inner product of Kronecker products factorises -/
theorem hsInner_kron (m n : Nat) (_hn : 0 < n) (Ac A' Bc B' : Nat → Nat → GI) :
    Toq.Spec17.hsInner (m * n) (fun i j => Ac (i / n) (j / n) * Bc (i % n) (j % n))
        (fun i j => A' (i / n) (j / n) * B' (i % n) (j % n))
      = Toq.Spec17.hsInner m Ac A' * Toq.Spec17.hsInner n Bc B' := by
  letI := GIring.commRing
  unfold Toq.Spec17.hsInner
  rw [sumN_flat n _ m]
  rw [← sumN_mul_right]
  apply sumN_congr; intro i1 _
  rw [← sumN_mul_left]
  apply sumN_congr; intro i2 hi2
  rw [sumN_flat n _ m]
  rw [← sumN_mul_right]
  apply sumN_congr; intro k1 _
  rw [← sumN_mul_left]
  apply sumN_congr; intro k2 hk2
  show Ac ((k1 * n + k2) / n) ((i1 * n + i2) / n) * Bc ((k1 * n + k2) % n) ((i1 * n + i2) % n)
    * (A' ((k1 * n + k2) / n) ((i1 * n + i2) / n) * B' ((k1 * n + k2) % n) ((i1 * n + i2) % n)) = _
  rw [flat_div n k1 k2 hk2, flat_mod n k1 k2 hk2, flat_div n i1 i2 hi2, flat_mod n i1 i2 hi2]
  ring

theorem pauli_hs (a b : Nat) (ha : a < 4) (hb : b < 4) :
    Toq.Spec17.hsInner 2 (Toq.Spec17.conjM (pauli a)) (pauli b) = if a = b then GI.ofInt 2 else 0 := by
  have : ∀ a, a < 4 → ∀ b, b < 4 →
      Toq.Spec17.hsInner 2 (Toq.Spec17.conjM (pauli a)) (pauli b) = if a = b then GI.ofInt 2 else 0 := by decide
  exact this a ha b hb

theorem pauliList_hs : ∀ (l l' : List Nat), l.length = l'.length → (∀ a ∈ l, a < 4) → (∀ a ∈ l', a < 4) →
    Toq.Spec17.hsInner (2 ^ l.length) (Toq.Spec17.conjM (pauliList l)) (pauliList l')
      = if l = l' then GI.ofInt (2 ^ l.length) else 0
  | [], [], _, _, _ => by decide
  | [], _ :: _, h, _, _ => by simp at h
  | _ :: _, [], h, _, _ => by simp at h
  | a :: r, a' :: r', h, hl, hl' => by
    letI := GIring.commRing
    have hlen : r.length = r'.length := by simpa using h
    have ih := pauliList_hs r r' hlen (fun x hx => hl x (List.mem_cons_of_mem _ hx))
      (fun x hx => hl' x (List.mem_cons_of_mem _ hx))
    have e1 : Toq.Spec17.conjM (pauliList (a :: r)) = fun i j =>
        Toq.Spec17.conjM (pauli a) (i / 2 ^ r.length) (j / 2 ^ r.length)
          * Toq.Spec17.conjM (pauliList r) (i % 2 ^ r.length) (j % 2 ^ r.length) := by
      funext i j
      show (pauliList (a :: r) i j).conj = _
      rw [pauliList_cons, conj_mul]
    have e2 : pauliList (a' :: r') = fun i j =>
        pauli a' (i / 2 ^ r.length) (j / 2 ^ r.length) * pauliList r' (i % 2 ^ r.length) (j % 2 ^ r.length) := by
      funext i j
      rw [pauliList_cons, hlen]
    have e3 : 2 ^ (a :: r).length = 2 * 2 ^ r.length := by rw [List.length_cons, Nat.pow_succ, Nat.mul_comm]
    rw [e1, e2, e3, hsInner_kron 2 (2 ^ r.length) (Nat.two_pow_pos _), ih,
      pauli_hs a a' (hl a (List.mem_cons_self)) (hl' a' (List.mem_cons_self))]
    by_cases ha : a = a'
    · by_cases hr : r = r'
      · rw [if_pos ha, if_pos hr, if_pos (by rw [ha, hr]), ofInt_mul]
        congr 1
        rw [List.length_cons, pow_succ, mul_comm]
      · rw [if_pos ha, if_neg hr, if_neg (fun hh => hr (List.cons.inj hh).2), mul_zero]
    · rw [if_neg ha, if_neg (fun hh => ha (List.cons.inj hh).1), zero_mul]

end paulistrings


/-! ### norms of the loop-built vectors and of the Dicke states -/

theorem pick_sq_sum (N : Nat) (idx : Nat → Nat) (c : Nat → Int) :
    ∀ m, (∀ i, i < m → idx i < N) → (∀ i j, i < m → j < m → idx i = idx j → i = j) →
      sumN N (fun j => pick m idx c j * pick m idx c j) = sumN m (fun i => c i * c i)
  | 0, _, _ => by
    show sumN N (fun j => pick 0 idx c j * pick 0 idx c j) = 0
    exact sumN_zero' N _ (fun j _ => by show (0 : Int) * 0 = 0; rfl)
  | m + 1, hlt, hinj => by
    have ih := pick_sq_sum N idx c m (fun i hi => hlt i (by omega)) (fun i j hi hj => hinj i j (by omega) (by omega))
    have h0 : pick m idx c (idx m) = 0 :=
      pick_none idx c (idx m) m (fun i hi h => by have := hinj i m (by omega) (by omega) h; omega)
    show _ = sumN m (fun i => c i * c i) + c m * c m
    rw [← ih, ← sumN_ite_eq N (idx m) (hlt m (by omega)) (fun _ => c m * c m), ← sumN_add]
    apply sumN_congr; intro j _
    rw [pick_succ]
    by_cases h : idx m = j
    · rw [if_pos h, if_pos h.symm, ← h, h0]; ring
    · rw [if_neg h, if_neg (Ne.symm h), add_zero]

theorem ghzIdx_lt (d n i : Nat) (hi : i < d) : ghzIdx d n i < d ^ n := by
  rw [ghzIdx_eq_enc]
  have := enc_lt (fun _ => d) (fun _ => i) n (fun _ _ => hi)
  have hp : ∀ m, prodN (fun _ => d) m = d ^ m := by
    intro m; induction m with
    | zero => rfl
    | succ m ih => show prodN (fun _ => d) m * d = _; rw [ih, Nat.pow_succ]
  rwa [hp] at this

theorem ghzIdx_inj (d n : Nat) (hn : 0 < n) (i j : Nat) (hi : i < d) (hj : j < d)
    (h : ghzIdx d n i = ghzIdx d n j) : i = j := by
  rw [ghzIdx_eq_enc, ghzIdx_eq_enc] at h
  exact enc_inj (fun _ => d) (fun _ => i) (fun _ => j) n (fun _ _ => hi) (fun _ _ => hj) h 0 hn

theorem popcount_succ_high (n j : Nat) : popcount (n + 1) j = popcount n j + (if j.testBit n then 1 else 0) := rfl

theorem popcount_low (n j : Nat) (hj : j < 2 ^ n) : popcount (n + 1) j = popcount n j := by
  rw [popcount_succ_high, Nat.testBit_lt_two_pow hj]; rfl

theorem popcount_high (n j : Nat) (hj : j < 2 ^ n) : popcount (n + 1) (2 ^ n + j) = popcount n j + 1 := by
  rw [popcount_succ_high, Nat.testBit_two_pow_add_eq, Nat.testBit_lt_two_pow hj]
  show popcount n (2 ^ n + j) + 1 = popcount n j + 1
  congr 1
  unfold popcount
  apply sumN_congr; intro b hb
  rw [Nat.testBit_two_pow_add_gt hb]

/-- the number of `n`-bit strings with `k` ones is the binomial coefficient -/
theorem dicke_count : ∀ n k, sumN (2 ^ n) (fun j => dickeS n k j * dickeS n k j) = (choose n k : Int)
  | 0, 0 => by decide
  | 0, k + 1 => by
    show (0 : Int) + dickeS 0 (k + 1) 0 * dickeS 0 (k + 1) 0 = 0
    have : dickeS 0 (k + 1) 0 = 0 := by
      unfold dickeS popcount
      rw [if_neg]; rintro ⟨_, h⟩; simp [sumN] at h
    rw [this]; rfl
  | n + 1, k => by
    rw [Nat.pow_succ, Nat.mul_two, sumN_add_range]
    have hlow : sumN (2 ^ n) (fun j => dickeS (n + 1) k j * dickeS (n + 1) k j) = (choose n k : Int) := by
      rw [← dicke_count n k]
      apply sumN_congr; intro j hj
      have : dickeS (n + 1) k j = dickeS n k j := by
        unfold dickeS
        rw [popcount_low n j hj]
        by_cases h : popcount n j = k
        · rw [if_pos ⟨by rw [Nat.pow_succ]; omega, h⟩, if_pos ⟨hj, h⟩]
        · rw [if_neg (fun hh => h hh.2), if_neg (fun hh => h hh.2)]
      rw [this]
    rw [hlow]
    cases k with
    | zero =>
      have hz : sumN (2 ^ n) (fun j => dickeS (n + 1) 0 (2 ^ n + j) * dickeS (n + 1) 0 (2 ^ n + j)) = 0 := by
        apply sumN_zero'; intro j hj
        have : dickeS (n + 1) 0 (2 ^ n + j) = 0 := by
          unfold dickeS
          rw [popcount_high n j hj, if_neg (fun hh => by omega)]
        rw [this]; rfl
      rw [hz]; simp [choose]
    | succ k =>
      have hhigh : sumN (2 ^ n) (fun j => dickeS (n + 1) (k + 1) (2 ^ n + j) * dickeS (n + 1) (k + 1) (2 ^ n + j))
          = (choose n k : Int) := by
        rw [← dicke_count n k]
        apply sumN_congr; intro j hj
        have : dickeS (n + 1) (k + 1) (2 ^ n + j) = dickeS n k j := by
          unfold dickeS
          rw [popcount_high n j hj]
          by_cases h : popcount n j = k
          · rw [if_pos ⟨by rw [Nat.pow_succ]; omega, by omega⟩, if_pos ⟨hj, h⟩]
          · rw [if_neg (fun hh => h (by omega)), if_neg (fun hh => h hh.2)]
        rw [this]
      rw [hhigh]
      show ((choose n (k + 1) : Nat) : Int) + (choose n k : Int) = ((choose n k + choose n (k + 1) : Nat) : Int)
      push_cast; ring


end Toq.States
