import Toq.Proofs.MetricsSpectral
/-!
# Fuchs–van de Graaf inequalities for the variational quantities of C13 (all dimensions, all ranks)

* `IsPVM`, `fidDualFeasible_pvm`, `fidV_le_pvm`: the value of Watrous' fidelity program is at most the classical fidelity of the
  outcome distributions of any projective measurement (dual point `Y = Σ a_k P_k`, `Z = Σ a_k⁻¹ P_k`, `a_k → √(q_k/p_k)`).
* `fvdg_upper_gen`: `T² + F² ≤ 1` (measure in the eigenbasis of `ρ − σ`, then the classical inequality).
* `powers_stormer`, `fvdg_lower_gen`: `tr(A − B)² ≤ ‖A² − B²‖₁` and `1 − F ≤ T`.
-/

open Matrix
open scoped ComplexOrder MatrixOrder

set_option linter.unusedSectionVars false

namespace Toq.Metrics
section PVM
variable {ι κ : Type*} [Fintype ι] [DecidableEq ι] [Fintype κ] [DecidableEq κ]

/-- projective measurement: Hermitian, mutually orthogonal idempotents summing to the identity -/
structure IsPVM (P : κ → Matrix ι ι ℂ) : Prop where
  herm : ∀ k, (P k).IsHermitian
  orth : ∀ k l, P k * P l = if k = l then P k else 0
  sum_one : ∑ k, P k = 1

theorem IsPVM.posSemidef {P : κ → Matrix ι ι ℂ} (h : IsPVM P) (k : κ) : (P k).PosSemidef := by
  have := Matrix.posSemidef_conjTranspose_mul_self (P k)
  rwa [(h.herm k).eq, h.orth, if_pos rfl] at this

theorem pvm_comb_mul {P : κ → Matrix ι ι ℂ} (h : IsPVM P) (a b : κ → ℂ) :
    (∑ k, a k • P k) * (∑ l, b l • P l) = ∑ k, (a k * b k) • P k := by
  rw [Finset.sum_mul]
  refine Finset.sum_congr rfl fun k _ => ?_
  rw [Finset.mul_sum]
  simp only [Matrix.smul_mul, Matrix.mul_smul, h.orth, smul_ite, smul_zero, Finset.sum_ite_eq,
    Finset.mem_univ, if_true, smul_smul, mul_comm (b k) (a k)]

theorem pvm_comb_conjTranspose {P : κ → Matrix ι ι ℂ} (h : IsPVM P) (a : κ → ℝ) :
    (∑ k, ((a k : ℝ) : ℂ) • P k)ᴴ = ∑ k, ((a k : ℝ) : ℂ) • P k := by
  rw [Matrix.conjTranspose_sum]
  refine Finset.sum_congr rfl fun k _ => ?_
  rw [Matrix.conjTranspose_smul, (h.herm k).eq, Complex.star_def, Complex.conj_ofReal]

/-- `Y = Σ a_k P_k`, `Z = Σ a_k⁻¹ P_k` is dual feasible for the fidelity program -/
theorem fidDualFeasible_pvm {P : κ → Matrix ι ι ℂ} (h : IsPVM P) (a : κ → ℝ) (ha : ∀ k, 0 < a k) :
    FidDualFeasible (∑ k, ((a k : ℝ) : ℂ) • P k) (∑ k, (((a k)⁻¹ : ℝ) : ℂ) • P k) := by
  have hg := posSemidef_fromBlocks_gram (∑ k, ((Real.sqrt (a k) : ℝ) : ℂ) • P k)
    (-(∑ k, (((Real.sqrt (a k))⁻¹ : ℝ) : ℂ) • P k))
  have hs : ∀ k, Real.sqrt (a k) ≠ 0 := fun k => (Real.sqrt_pos.mpr (ha k)).ne'
  have e1 : ∀ k, ((Real.sqrt (a k) : ℝ) : ℂ) * ((Real.sqrt (a k) : ℝ) : ℂ) = ((a k : ℝ) : ℂ) := by
    intro k; rw [← Complex.ofReal_mul, Real.mul_self_sqrt (ha k).le]
  have e2 : ∀ k, ((Real.sqrt (a k) : ℝ) : ℂ) * (((Real.sqrt (a k))⁻¹ : ℝ) : ℂ) = 1 := by
    intro k; rw [← Complex.ofReal_mul, mul_inv_cancel₀ (hs k), Complex.ofReal_one]
  have e3 : ∀ k, (((Real.sqrt (a k))⁻¹ : ℝ) : ℂ) * (((Real.sqrt (a k))⁻¹ : ℝ) : ℂ) = (((a k)⁻¹ : ℝ) : ℂ) := by
    intro k; rw [← Complex.ofReal_mul, ← mul_inv, Real.mul_self_sqrt (ha k).le]
  have e4 : ∀ k, (((Real.sqrt (a k))⁻¹ : ℝ) : ℂ) * ((Real.sqrt (a k) : ℝ) : ℂ) = 1 := by
    intro k; rw [mul_comm]; exact e2 k
  unfold FidDualFeasible DualBlockPsd
  rw [Matrix.conjTranspose_neg, pvm_comb_conjTranspose h, pvm_comb_conjTranspose h, Matrix.mul_neg,
    Matrix.neg_mul, Matrix.neg_mul, Matrix.mul_neg, neg_neg, pvm_comb_mul h, pvm_comb_mul h,
    pvm_comb_mul h, pvm_comb_mul h] at hg
  simp only [e1, e2, e3, e4, one_smul, h.sum_one] at hg
  simpa using hg

theorem dualVal_pvm (P : κ → Matrix ι ι ℂ) (ρ σ : Matrix ι ι ℂ) (a : κ → ℝ) :
    dualVal ρ σ (∑ k, ((a k : ℝ) : ℂ) • P k) (∑ k, (((a k)⁻¹ : ℝ) : ℂ) • P k)
      = ∑ k, (a k * (P k * ρ).trace.re + (a k)⁻¹ * (P k * σ).trace.re) / 2 := by
  unfold dualVal
  simp only [Finset.sum_mul, Matrix.smul_mul, Matrix.trace_sum, Matrix.trace_smul, smul_eq_mul,
    Complex.re_sum, Complex.re_ofReal_mul]
  rw [← Finset.sum_add_distrib, Finset.sum_div]

/-- for non-negative `p`, `q`: `inf_{a > 0} (a p + q / a) / 2 = √(p q)` -/
theorem exists_scale (p q ε : ℝ) (hp : 0 ≤ p) (hq : 0 ≤ q) (hε : 0 < ε) :
    ∃ a : ℝ, 0 < a ∧ (a * p + a⁻¹ * q) / 2 ≤ Real.sqrt (p * q) + ε := by
  rcases hp.eq_or_lt with rfl | hp'
  · refine ⟨q / (2 * ε) + 1, by positivity, ?_⟩
    have ha : 0 < q / (2 * ε) + 1 := by positivity
    rw [zero_mul, Real.sqrt_zero, mul_zero, zero_add, zero_add, div_le_iff₀ (by norm_num : (0:ℝ) < 2),
      inv_mul_le_iff₀ ha]
    have : q / (2 * ε) * (2 * ε) = q := div_mul_cancel₀ _ (by positivity)
    nlinarith
  · rcases hq.eq_or_lt with rfl | hq'
    · refine ⟨2 * ε / p, by positivity, ?_⟩
      rw [mul_zero, mul_zero, Real.sqrt_zero, add_zero, zero_add, div_mul_cancel₀ _ hp'.ne']
      linarith
    · refine ⟨Real.sqrt q / Real.sqrt p, div_pos (Real.sqrt_pos.mpr hq') (Real.sqrt_pos.mpr hp'), ?_⟩
      have h1 : Real.sqrt q / Real.sqrt p * p = Real.sqrt q * Real.sqrt p := by
        have := Real.mul_self_sqrt hp
        field_simp
        nlinarith
      have h2 : (Real.sqrt q / Real.sqrt p)⁻¹ * q = Real.sqrt p * Real.sqrt q := by
        have := Real.mul_self_sqrt hq
        rw [inv_div]
        field_simp
        nlinarith
      rw [h1, h2, Real.sqrt_mul hp]
      linarith

/-- **Monotonicity of the fidelity under a projective measurement**: the value of the fidelity program is at most the
classical fidelity of the outcome distributions `p_k = tr(P_k ρ)`, `q_k = tr(P_k σ)`. -/
theorem fidV_le_pvm {ρ σ : Matrix ι ι ℂ} (hρ : ρ.PosSemidef) (hσ : σ.PosSemidef) {P : κ → Matrix ι ι ℂ}
    (h : IsPVM P) :
    fidV ρ σ ≤ cFid (fun k => (P k * ρ).trace.re) (fun k => (P k * σ).trace.re) := by
  refine le_of_forall_pos_le_add fun ε hε => ?_
  set N : ℝ := (Fintype.card κ : ℝ) + 1 with hN
  have hNpos : 0 < N := by positivity
  have hp : ∀ k, 0 ≤ (P k * ρ).trace.re := fun k => psd_trace_mul_nonneg (h.posSemidef k) hρ
  have hq : ∀ k, 0 ≤ (P k * σ).trace.re := fun k => psd_trace_mul_nonneg (h.posSemidef k) hσ
  choose a ha using fun k => exists_scale _ _ (ε / N) (hp k) (hq k) (by positivity)
  have h1 := fidV_le_gen hρ hσ (fidDualFeasible_pvm h a fun k => (ha k).1)
  rw [dualVal_pvm] at h1
  refine h1.trans ?_
  calc ∑ k, (a k * (P k * ρ).trace.re + (a k)⁻¹ * (P k * σ).trace.re) / 2
      ≤ ∑ k, (Real.sqrt ((P k * ρ).trace.re * (P k * σ).trace.re) + ε / N) :=
        Finset.sum_le_sum fun k _ => (ha k).2
    _ = cFid (fun k => (P k * ρ).trace.re) (fun k => (P k * σ).trace.re) + Fintype.card κ * (ε / N) := by
        rw [Finset.sum_add_distrib, Finset.sum_const, Finset.card_univ, nsmul_eq_mul]; rfl
    _ ≤ _ := by
        have : (Fintype.card κ : ℝ) * (ε / N) ≤ ε := by
          rw [mul_div_assoc', div_le_iff₀ hNpos, hN]; nlinarith
        linarith

end PVM

section FvdG
variable {ι : Type*} [Fintype ι] [DecidableEq ι]

/-- indicator of the index `i` -/
def ind (i : ι) : ι → ℝ := fun j => if j = i then 1 else 0

theorem conjDiag_neg (U : Matrix ι ι ℂ) (f : ι → ℝ) : -conjDiag U f = conjDiag U (fun i => -f i) := by
  unfold conjDiag
  rw [← Matrix.neg_mul, ← Matrix.mul_neg, diagonal_neg]
  congr 3; funext i; simp

theorem conjDiag_sum (U : Matrix ι ι ℂ) {κ : Type*} (s : Finset κ) (f : κ → ι → ℝ) :
    ∑ k ∈ s, conjDiag U (f k) = conjDiag U (fun i => ∑ k ∈ s, f k i) := by
  classical
  induction s using Finset.induction_on with
  | empty =>
    simp [conjDiag]
  | insert a s ha ih =>
    rw [Finset.sum_insert ha, ih, conjDiag_add]
    congr 1; funext i; rw [Finset.sum_insert ha]

/-- the measurement in the orthonormal basis given by the columns of a unitary `U` -/
theorem isPVM_basis {U : Matrix ι ι ℂ} (hU : Uᴴ * U = 1) (hU' : U * Uᴴ = 1) :
    IsPVM (fun i => conjDiag U (ind i)) where
  herm i := conjDiag_isHermitian U _
  orth i j := by
    rw [conjDiag_mul hU]
    by_cases h : i = j
    · subst h; rw [if_pos rfl]; congr 1; funext k; unfold ind; split_ifs <;> norm_num
    · rw [if_neg h]
      have : (fun k => ind i k * ind j k) = fun _ => (0 : ℝ) := by
        funext k; unfold ind
        by_cases h1 : k = i
        · subst h1; simp [h]
        · simp [h1]
      rw [this]; simp [conjDiag]
  sum_one := by
    rw [conjDiag_sum, ← conjDiag_one hU']
    congr 1; funext i; simp [ind]

theorem trace_ind_mul_conjDiag {U : Matrix ι ι ℂ} (hU : Uᴴ * U = 1) (f : ι → ℝ) (i : ι) :
    (conjDiag U (ind i) * conjDiag U f).trace.re = f i := by
  rw [conjDiag_mul hU, conjDiag_trace_re hU]
  simp [ind]

/-- **Fuchs–van de Graaf, upper half**, for the variational quantities: `T² + F² ≤ 1` (i.e. `T ≤ √(1 − F²)`), where
`T = ‖ρ − σ‖₁ / 2` and `F` is the value of the fidelity program, for positive semidefinite `ρ`, `σ` of trace one. -/
theorem fvdg_upper_gen {ρ σ : Matrix ι ι ℂ} (hρ : ρ.PosSemidef) (hσ : σ.PosSemidef) (tρ : ρ.trace = 1)
    (tσ : σ.trace = 1) : (traceNormV (ρ - σ) / 2) ^ 2 + fidV ρ σ ^ 2 ≤ 1 := by
  have hD : (ρ - σ).IsHermitian := hρ.isHermitian.sub hσ.isHermitian
  obtain ⟨U, hU, hU', hDe⟩ := exists_conjDiag hD
  have hpvm := isPVM_basis hU hU'
  set p : ι → ℝ := fun i => (conjDiag U (ind i) * ρ).trace.re with hp
  set q : ι → ℝ := fun i => (conjDiag U (ind i) * σ).trace.re with hq
  have hsum : ∀ τ : Matrix ι ι ℂ, ∑ i, (conjDiag U (ind i) * τ).trace.re = τ.trace.re := by
    intro τ
    rw [← Complex.re_sum, ← Matrix.trace_sum, ← Finset.sum_mul, hpvm.sum_one, Matrix.one_mul]
  have pp : IsProb p := ⟨fun i => psd_trace_mul_nonneg (hpvm.posSemidef i) hρ, by rw [hsum, tρ]; rfl⟩
  have pq : IsProb q := ⟨fun i => psd_trace_mul_nonneg (hpvm.posSemidef i) hσ, by rw [hsum, tσ]; rfl⟩
  have hdiff : ∀ i, p i - q i = hD.eigenvalues i := by
    intro i
    rw [hp, hq]
    simp only
    rw [← Complex.sub_re, ← Matrix.trace_sub, ← Matrix.mul_sub]
    conv_lhs => rw [hDe]
    exact trace_ind_mul_conjDiag hU _ i
  have hT : traceNormV (ρ - σ) / 2 = cTD p q := by
    rw [traceNormV_eq_sum_abs_eigenvalues hD]
    unfold cTD
    simp only [hdiff]
  have hF : fidV ρ σ ≤ cFid p q := fidV_le_pvm hρ hσ hpvm
  have hF0 : 0 ≤ fidV ρ σ := le_csSup (fidSet_bddAbove ρ σ) (zero_mem_fidSet hρ hσ)
  have := cTD_sq_add_cFid_sq_le_one pp pq
  rw [hT]
  nlinarith

/-- Powers–Størmer: `tr((A − B)²) ≤ ‖A² − B²‖₁` for positive semidefinite `A`, `B`. -/
theorem powers_stormer {A B : Matrix ι ι ℂ} (hA : A.PosSemidef) (hB : B.PosSemidef) :
    ((A - B) * (A - B)).trace.re ≤ traceNormV (A * A - B * B) := by
  have hD : (A - B).IsHermitian := hA.isHermitian.sub hB.isHermitian
  obtain ⟨U, hU, hU', hDe⟩ := exists_conjDiag hD
  set lam := hD.eigenvalues
  set W := conjDiag U (fun i => sgn (lam i)) with hWd
  have hW : IsContraction W := conjDiag_contraction hU' fun i => sgn_bounds _
  have hAA : (A * A - B * B).IsHermitian := by
    refine Matrix.IsHermitian.sub ?_ ?_
    · have := Matrix.isHermitian_conjTranspose_mul_self A; rwa [hA.isHermitian.eq] at this
    · have := Matrix.isHermitian_conjTranspose_mul_self B; rwa [hB.isHermitian.eq] at this
  refine le_trans ?_ (le_traceNormV_gen hAA hW)
  -- |D| = W D = D W
  set Dp := conjDiag U (fun i => max (lam i) 0) with hDp
  set Dm := conjDiag U (fun i => max (-lam i) 0) with hDm
  have hWD : W * (A - B) = Dp + Dm := by
    rw [hDe, hWd, conjDiag_mul hU, hDp, hDm, conjDiag_add]
    congr 1; funext i
    rw [sgn_mul_self]
    rcases le_total 0 (lam i) with h | h
    · rw [max_eq_left h, max_eq_right (by linarith), abs_of_nonneg h]; ring
    · rw [max_eq_right h, max_eq_left (by linarith), abs_of_nonpos h]; ring
  have hDW : (A - B) * W = Dp + Dm := by
    rw [← hWD, hDe, hWd, conjDiag_mul hU, conjDiag_mul hU]; congr 1; funext i; ring
  have hDpD : Dp * (A - B) = Dp * Dp := by
    rw [hDe, hDp, conjDiag_mul hU, conjDiag_mul hU]; congr 1; funext i
    rcases le_total 0 (lam i) with h | h
    · rw [max_eq_left h]
    · rw [max_eq_right h]; ring
  have hDmD : Dm * (A - B) = -(Dm * Dm) := by
    rw [hDe, hDm, conjDiag_mul hU, conjDiag_mul hU, conjDiag_neg]; congr 1; funext i
    rcases le_total 0 (lam i) with h | h
    · rw [max_eq_right (by linarith)]; ring
    · rw [max_eq_left (by linarith)]; ring
  have hDsplit : A - B = Dp - Dm := by
    rw [hDp, hDm, conjDiag_sub]
    conv_lhs => rw [hDe]
    congr 1; funext i
    rcases le_total 0 (lam i) with h | h
    · rw [max_eq_left h, max_eq_right (by linarith)]; ring
    · rw [max_eq_right h, max_eq_left (by linarith)]; ring
  have hDpP : Dp.PosSemidef := conjDiag_posSemidef U fun i => le_max_right _ _
  have hDmP : Dm.PosSemidef := conjDiag_posSemidef U fun i => le_max_right _ _
  have n1 : 0 ≤ (Dp * B).trace.re := psd_trace_mul_nonneg hDpP hB
  have n2 : 0 ≤ (Dm * A).trace.re := psd_trace_mul_nonneg hDmP hA
  -- tr(W (A² − B²)) = tr(|D| A) + tr(|D| B)
  have e0 : A * A - B * B = (A - B) * A + B * (A - B) := by
    rw [Matrix.sub_mul, Matrix.mul_sub]; abel
  have e1 : (W * (A * A - B * B)).trace = ((Dp + Dm) * A).trace + ((Dp + Dm) * B).trace := by
    rw [e0, Matrix.mul_add, Matrix.trace_add, ← Matrix.mul_assoc, hWD, ← Matrix.mul_assoc,
      Matrix.trace_mul_comm (W * B) (A - B), ← Matrix.mul_assoc, hDW]
  have e2 : Dp * A = Dp * Dp + Dp * B := by
    rw [← hDpD, ← Matrix.mul_add, sub_add_cancel]
  have e3 : Dm * B = Dm * A + Dm * Dm := by
    have : Dm * B = Dm * A - Dm * (A - B) := by rw [← Matrix.mul_sub, sub_sub_cancel]
    rw [this, hDmD, sub_neg_eq_add]
  have e4 : (A - B) * (A - B) = Dp * Dp + Dm * Dm := by
    conv_lhs => lhs; rw [hDsplit]
    rw [Matrix.sub_mul, hDpD, hDmD, sub_neg_eq_add]
  rw [e1, e4, Matrix.add_mul, Matrix.add_mul, e2, e3]
  simp only [Matrix.trace_add, Complex.add_re]
  linarith

/-- **Fuchs–van de Graaf, lower half**, for the variational quantities: `1 − F ≤ T`. -/
theorem fvdg_lower_gen {ρ σ : Matrix ι ι ℂ} (hρ : ρ.PosSemidef) (hσ : σ.PosSemidef) (tρ : ρ.trace = 1)
    (tσ : σ.trace = 1) : 1 - fidV ρ σ ≤ traceNormV (ρ - σ) / 2 := by
  set A := CFC.sqrt ρ with hA
  set B := CFC.sqrt σ with hB
  have hAp : A.PosSemidef := (CFC.sqrt_nonneg ρ).posSemidef
  have hBp : B.PosSemidef := (CFC.sqrt_nonneg σ).posSemidef
  have eA : A * A = ρ := CFC.sqrt_mul_sqrt_self ρ hρ.nonneg
  have eB : B * B = σ := CFC.sqrt_mul_sqrt_self σ hσ.nonneg
  have hps := powers_stormer hAp hBp
  rw [eA, eB] at hps
  -- X = A B is feasible
  have hfeas : FidFeasible ρ σ (A * B) := by
    unfold FidFeasible
    have h := posSemidef_fromBlocks_gram A B
    rw [hAp.isHermitian.eq, hBp.isHermitian.eq, eA, eB] at h
    rwa [Matrix.conjTranspose_mul, hAp.isHermitian.eq, hBp.isHermitian.eq]
  have hF := le_fidV_gen hfeas
  have hBA : (B * A).trace = (A * B).trace := Matrix.trace_mul_comm B A
  have e : ((A - B) * (A - B)).trace.re = 2 - 2 * (A * B).trace.re := by
    rw [Matrix.sub_mul, Matrix.mul_sub, Matrix.mul_sub, eA, eB]
    simp only [Matrix.trace_sub, Complex.sub_re, hBA, tρ, tσ, Complex.one_re]
    ring
  linarith

end FvdG
end Toq.Metrics
