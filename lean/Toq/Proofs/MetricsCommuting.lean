import Toq.Proofs.MetricsFvdG
/-!
# Commuting pairs (common eigenbasis): every measure is the classical function of the spectra
-/

open Matrix
open scoped ComplexOrder MatrixOrder

set_option linter.unusedSectionVars false

namespace Toq.Metrics
section Commuting
variable {ι : Type*} [Fintype ι] [DecidableEq ι]

/-- trace norm of `U diag(f) Uᴴ` is `Σ |f_i|` -/
theorem traceNormV_conjDiag {U : Matrix ι ι ℂ} (hU : Uᴴ * U = 1) (hU' : U * Uᴴ = 1) (f : ι → ℝ) :
    traceNormV (conjDiag U f) = ∑ i, |f i| := by
  refine le_antisymm ?_ ?_
  · have hdec : conjDiag U f = conjDiag U (fun i => max (f i) 0) - conjDiag U (fun i => max (-f i) 0) := by
      rw [conjDiag_sub]
      congr 1; funext i
      rcases le_total 0 (f i) with h | h
      · rw [max_eq_left h, max_eq_right (by linarith)]; ring
      · rw [max_eq_right h, max_eq_left (by linarith)]; ring
    have := traceNormV_le_gen (conjDiag_posSemidef U fun i => le_max_right (f i) 0)
      (conjDiag_posSemidef U fun i => le_max_right (-f i) 0) hdec
    rw [conjDiag_trace_re hU, conjDiag_trace_re hU, ← Finset.sum_add_distrib] at this
    refine this.trans_eq (Finset.sum_congr rfl fun i _ => ?_)
    rcases le_total 0 (f i) with h | h
    · rw [max_eq_left h, max_eq_right (by linarith), abs_of_nonneg h]; ring
    · rw [max_eq_right h, max_eq_left (by linarith), abs_of_nonpos h]; ring
  · have hW := conjDiag_contraction hU' (s := fun i => sgn (f i)) fun i => sgn_bounds _
    have := le_traceNormV_gen (conjDiag_isHermitian U f) hW
    rw [conjDiag_mul hU, conjDiag_trace_re hU] at this
    refine le_trans (le_of_eq (Finset.sum_congr rfl fun i _ => ?_)) this
    exact (sgn_mul_self _).symm

/-- commuting pair (common eigenbasis `U`): the trace distance is the classical one of the spectra -/
theorem traceNormV_sub_conjDiag {U : Matrix ι ι ℂ} (hU : Uᴴ * U = 1) (hU' : U * Uᴴ = 1) (p q : ι → ℝ) :
    traceNormV (conjDiag U p - conjDiag U q) / 2 = cTD p q := by
  rw [conjDiag_sub, traceNormV_conjDiag hU hU']
  rfl

/-- commuting pair (common eigenbasis `U`): the value of the fidelity program is the classical fidelity of the spectra -/
theorem fidV_conjDiag {U : Matrix ι ι ℂ} (hU : Uᴴ * U = 1) (hU' : U * Uᴴ = 1) {p q : ι → ℝ}
    (hp : ∀ i, 0 ≤ p i) (hq : ∀ i, 0 ≤ q i) : fidV (conjDiag U p) (conjDiag U q) = cFid p q := by
  refine le_antisymm ?_ ?_
  · have := fidV_le_pvm (conjDiag_posSemidef U hp) (conjDiag_posSemidef U hq) (isPVM_basis hU hU')
    simp only [trace_ind_mul_conjDiag hU] at this
    exact this
  · have hg := posSemidef_fromBlocks_gram (conjDiag U fun i => Real.sqrt (p i)) (conjDiag U fun i => Real.sqrt (q i))
    rw [(conjDiag_isHermitian U _).eq, (conjDiag_isHermitian U _).eq, conjDiag_mul hU, conjDiag_mul hU,
      conjDiag_mul hU, conjDiag_mul hU] at hg
    have e1 : (fun i => Real.sqrt (p i) * Real.sqrt (p i)) = p := funext fun i => Real.mul_self_sqrt (hp i)
    have e2 : (fun i => Real.sqrt (q i) * Real.sqrt (q i)) = q := funext fun i => Real.mul_self_sqrt (hq i)
    have e3 : (fun i => Real.sqrt (q i) * Real.sqrt (p i)) = fun i => Real.sqrt (p i) * Real.sqrt (q i) :=
      funext fun i => mul_comm _ _
    rw [e1, e2, e3] at hg
    have hfeas : FidFeasible (conjDiag U p) (conjDiag U q) (conjDiag U fun i => Real.sqrt (p i) * Real.sqrt (q i)) := by
      unfold FidFeasible
      rwa [(conjDiag_isHermitian U _).eq]
    have := le_fidV_gen hfeas
    rw [conjDiag_trace_re hU] at this
    refine le_trans (le_of_eq ?_) this
    unfold cFid
    exact Finset.sum_congr rfl fun i _ => Real.sqrt_mul (hp i) _

/-- the Hermitian point `X = U diag(√(p_i q_i)) Uᴴ` is feasible for the fidelity program of a commuting pair -/
theorem fidFeasible_conjDiag {U : Matrix ι ι ℂ} (hU : Uᴴ * U = 1) {p q : ι → ℝ}
    (hp : ∀ i, 0 ≤ p i) (hq : ∀ i, 0 ≤ q i) :
    FidFeasible (conjDiag U p) (conjDiag U q) (conjDiag U fun i => Real.sqrt (p i) * Real.sqrt (q i)) := by
  have hg := posSemidef_fromBlocks_gram (conjDiag U fun i => Real.sqrt (p i)) (conjDiag U fun i => Real.sqrt (q i))
  rw [(conjDiag_isHermitian U _).eq, (conjDiag_isHermitian U _).eq, conjDiag_mul hU, conjDiag_mul hU,
    conjDiag_mul hU, conjDiag_mul hU] at hg
  have e1 : (fun i => Real.sqrt (p i) * Real.sqrt (p i)) = p := funext fun i => Real.mul_self_sqrt (hp i)
  have e2 : (fun i => Real.sqrt (q i) * Real.sqrt (q i)) = q := funext fun i => Real.mul_self_sqrt (hq i)
  have e3 : (fun i => Real.sqrt (q i) * Real.sqrt (p i)) = fun i => Real.sqrt (p i) * Real.sqrt (q i) :=
    funext fun i => mul_comm _ _
  rw [e1, e2, e3] at hg
  unfold FidFeasible
  rwa [(conjDiag_isHermitian U _).eq]

theorem conjDiag_one_eq (f : ι → ℝ) : conjDiag (1 : Matrix ι ι ℂ) f = diagonal (fun i => (f i : ℂ)) := by
  simp [conjDiag]

end Commuting
end Toq.Metrics
