import Toq.Model.States
/-!
# Vocabulary in which the C17 theorems are stated (core Lean only)

Matrices are functions `Nat → Nat → α` with an explicit size; vectors are functions `Nat → α`.  An index of
`C^d ⊗ C^d` is `r = i * d + j` (`i` the label of the first factor).  Complex conjugation does not exist in an
abstract commutative ring, so a matrix and its entrywise conjugate are passed as a pair `(A, Ac)`; for the
root-of-unity matrices the conjugate is the same matrix built from `ω̄ = ω⁻¹` (hypothesis `ω * ωc = 1`).
-/
namespace Toq.Spec17
open Toq.Matrices

variable {α : Type}

/-- Kronecker delta -/
def δ [Zero α] [One α] (i j : Nat) : α := if i = j then 1 else 0

/-- Hilbert–Schmidt inner product `tr(A† B) = Σ_{k,i} conj(A[k,i]) B[k,i]` of `d × d` matrices,
    `Ac` being the entrywise conjugate of `A` -/
def hsInner [Add α] [Mul α] [Zero α] (d : Nat) (Ac B : Nat → Nat → α) : α :=
  sumN d (fun i => sumN d (fun k => Ac k i * B k i))

/-- `tr(A B)` for `d × d` matrices -/
def trMul [Add α] [Mul α] [Zero α] (d : Nat) (A B : Nat → Nat → α) : α :=
  sumN d (fun i => sumN d (fun k => A i k * B k i))

/-- inner product `⟨u, v⟩ = Σ_k conj(u_k) v_k` of vectors of length `n`, `uc` the conjugate of `u` -/
def inner [Add α] [Mul α] [Zero α] (n : Nat) (uc v : Nat → α) : α := sumN n (fun k => uc k * v k)

/-- reduced operator on the first factor of `|ψ⟩⟨ψ|`, `ψ ∈ C^d ⊗ C^d`: `ρ_A[i,i'] = Σ_j ψ[i d + j] conj ψ[i' d + j]` -/
def marginalA [Add α] [Mul α] [Zero α] (d : Nat) (ψ ψc : Nat → α) : Nat → Nat → α :=
  fun i i' => sumN d (fun j => ψ (i * d + j) * ψc (i' * d + j))

/-- reduced operator on the second factor: `ρ_B[j,j'] = Σ_i ψ[i d + j] conj ψ[i d + j']` -/
def marginalB [Add α] [Mul α] [Zero α] (d : Nat) (ψ ψc : Nat → α) : Nat → Nat → α :=
  fun j j' => sumN d (fun i => ψ (i * d + j) * ψc (i * d + j'))

/-- `U U† = I` on the leading `d × d` block, `Uc` the entrywise conjugate of `U` -/
def RowOrthonormal [Add α] [Mul α] [Zero α] [One α] (d : Nat) (U Uc : Nat → Nat → α) : Prop :=
  ∀ i j, i < d → j < d → sumN d (fun k => U i k * Uc j k) = δ i j

/-- `A ⊗ B` on `C^d ⊗ C^d` -/
def kron2 [Mul α] (d : Nat) (A B : Nat → Nat → α) : Nat → Nat → α :=
  fun r c => A (r / d) (c / d) * B (r % d) (c % d)

/-- digit `k` of the index `j` of `(C^d)^{⊗ n}` (big-endian: digit 0 belongs to the first party) -/
def digit (d n j k : Nat) : Nat := dec (fun _ => d) n j k

/-- the index of the basis state `|x_0 x_1 … x_{n-1}⟩` of `(C^d)^{⊗ n}` -/
def index (d n : Nat) (x : Nat → Nat) : Nat := enc (fun _ => d) x n

/-- number of parties in state `1` of the qubit basis state `|x_0 … x_{n-1}⟩` -/
def weight (n : Nat) (x : Nat → Nat) : Nat := sumN n x

/-- entrywise complex conjugate of a Gaussian-integer matrix -/
abbrev conjM (A : Nat → Nat → GI) : Nat → Nat → GI := fun i j => (A i j).conj

/-- a permutation of the parties `0..n-1` -/
structure IsPermN (n : Nat) (σ : Nat → Nat) : Prop where
  lt : ∀ k, k < n → σ k < n
  inj : ∀ a b, a < n → b < n → σ a = σ b → a = b

/-- the unnormalised maximally entangled vector `Ω = Σ_i |ii⟩` with entries in any semiring -/
def omegaVec [Zero α] [One α] (d : Nat) : Nat → α := fun m => if m / d = m % d then 1 else 0

/-- the quadratic form `vᵀ M v` of a real `n × n` matrix -/
def quadForm [Add α] [Mul α] [Zero α] (n : Nat) (M : Nat → Nat → α) (v : Nat → α) : α :=
  sumN n (fun r => sumN n (fun c => v r * M r c * v c))

/-- positive semidefiniteness of a real symmetric `n × n` matrix (for a real symmetric matrix this is
    equivalent to positive semidefiniteness as a complex Hermitian matrix) -/
def PSD [Add α] [Mul α] [Zero α] [LE α] (n : Nat) (M : Nat → Nat → α) : Prop :=
  ∀ v : Nat → α, 0 ≤ quadForm n M v

end Toq.Spec17
