import Toq.Spec.Entangle
/-!
# Vocabulary for the S(k) operator norm clause of C14

Vectors of `ℂ^m ⊗ ℂ^n` are functions on pairs `m × n`, operators are matrices on pairs.

* `tprod x y` is the product vector `x ⊗ y`;
* `SchmidtLE k v`: `v` is a sum of `k` product terms whose second factors are pairwise orthogonal (terms may vanish).  Every vector whose
  amplitude matrix has rank `≤ k` has this form and conversely (`Toq.C14.schmidtLE_iff_rank_le`);
* `expect X v = Re ⟨v|X|v⟩`, `vnorm2 v = ⟨v|v⟩`;
* `skValues k X`: the values `⟨v|X|v⟩` attained by unit vectors of Schmidt rank `≤ k` — the set that `sk_operator_norm(X, k)` has to bracket;
* `ptrBm` (partial trace over the second factor) and the reduction-type map `redK k Y = k·(tr_B Y) ⊗ 1 − Y`.
-/
namespace Toq.Entangle
open Matrix
open scoped ComplexOrder MatrixOrder Kronecker

section
variable {m n : Type}

/-- the product vector `x ⊗ y` -/
def tprod (x : m → ℂ) (y : n → ℂ) : m × n → ℂ := fun p => x p.1 * y p.2

/-- amplitude matrix of a vector on pairs -/
def ampOf (v : m × n → ℂ) : Matrix m n ℂ := fun a b => v (a, b)

/-- `|v⟩⟨v|` -/
def ketbra {ι : Type*} (v : ι → ℂ) : Matrix ι ι ℂ := vecMulVec v (star v)

/-- `v = Σ_{i<k} x_i ⊗ y_i` with pairwise orthogonal `y_i` -/
def SchmidtLE [Fintype n] (k : ℕ) (v : m × n → ℂ) : Prop :=
  ∃ (x : Fin k → m → ℂ) (y : Fin k → n → ℂ),
    (∀ i j, i ≠ j → star (y i) ⬝ᵥ y j = 0) ∧ v = ∑ i, tprod (x i) (y i)

/-- `⟨v|v⟩` -/
noncomputable def vnorm2 {ι : Type*} [Fintype ι] (v : ι → ℂ) : ℝ := ∑ i, Complex.normSq (v i)

/-- `Re ⟨v|X|v⟩` -/
noncomputable def expect {ι : Type*} [Fintype ι] (X : Matrix ι ι ℂ) (v : ι → ℂ) : ℝ := (star v ⬝ᵥ (X *ᵥ v)).re

/-- the values attained by unit vectors of Schmidt rank at most `k` -/
def skValues [Fintype m] [Fintype n] (k : ℕ) (X : Matrix (m × n) (m × n) ℂ) : Set ℝ :=
  {r | ∃ v : m × n → ℂ, SchmidtLE k v ∧ vnorm2 v = 1 ∧ r = expect X v}

/-- partial trace over the second factor -/
def ptrBm [Fintype n] (X : Matrix (m × n) (m × n) ℂ) : Matrix m m ℂ := fun a a' => ∑ b, X (a, b) (a', b)

/-- `k·(tr_B Y) ⊗ 1 − Y` -/
def redK [Fintype n] [DecidableEq n] (k : ℕ) (Y : Matrix (m × n) (m × n) ℂ) : Matrix (m × n) (m × n) ℂ :=
  (k : ℂ) • (ptrBm Y ⊗ₖ (1 : Matrix n n ℂ)) - Y

end
end Toq.Entangle
