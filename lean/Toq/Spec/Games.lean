import Mathlib.Algebra.BigOperators.Group.Finset.Basic
import Mathlib.Algebra.Order.Ring.Rat
import Mathlib.Data.Fintype.Pi
import Mathlib.Data.Fintype.Prod
import Mathlib.Order.Fin.Basic
import Mathlib.Data.Finset.Lattice.Fold
/-!
# Specification of the classical value of a two-player nonlocal game (independent of the mirror model)

A game has `ai` / `bi` questions and `ao` / `bo` answers for Alice / Bob, a question distribution
`prob x y` and a predicate `pred a b x y` with rational values.  A *deterministic strategy* is a pair
of answer functions `f : questions_A → answers_A`, `g : questions_B → answers_B`.
-/

namespace Toq.Games.Spec

/-- winning probability of the pair of answer functions `(f, g)` :
    `Σ_{x,y} prob x y · pred (f x) (g y) x y` -/
def detValue (ao bo ai bi : Nat) (prob : Nat → Nat → ℚ) (pred : Nat → Nat → Nat → Nat → ℚ)
    (f : Fin ai → Fin ao) (g : Fin bi → Fin bo) : ℚ :=
  ∑ x : Fin ai, ∑ y : Fin bi, prob x y * pred (f x) (g y) x y

/-- **classical value**: the maximum of `detValue` over *all* pairs of answer functions
    (both answer sets non-empty) -/
def maxDetValue (ao bo ai bi : Nat) [NeZero ao] [NeZero bo] (prob : Nat → Nat → ℚ)
    (pred : Nat → Nat → Nat → Nat → ℚ) : ℚ :=
  (Finset.univ : Finset ((Fin ai → Fin ao) × (Fin bi → Fin bo))).sup' Finset.univ_nonempty
    (fun fg => detValue ao bo ai bi prob pred fg.1 fg.2)

/-- the same thing without lattice vocabulary: `v` is attained by some pair and dominates every pair -/
def IsMaxDet (ao bo ai bi : Nat) (prob : Nat → Nat → ℚ) (pred : Nat → Nat → Nat → Nat → ℚ) (v : ℚ) : Prop :=
  (∃ f g, detValue ao bo ai bi prob pred f g = v) ∧ ∀ f g, detValue ao bo ai bi prob pred f g ≤ v

/-- `prob` is a probability distribution on `ai × bi` question pairs -/
structure IsDistribution (ai bi : Nat) (prob : Nat → Nat → ℚ) : Prop where
  nonneg : ∀ x y, x < ai → y < bi → 0 ≤ prob x y
  sum_one : ∑ x : Fin ai, ∑ y : Fin bi, prob x y = 1

/-- all predicate entries lie in `[0, 1]` -/
def PredIn01 (ao bo ai bi : Nat) (pred : Nat → Nat → Nat → Nat → ℚ) : Prop :=
  ∀ a b x y, a < ao → b < bo → x < ai → y < bi → 0 ≤ pred a b x y ∧ pred a b x y ≤ 1

end Toq.Games.Spec
