import Toq.Spec.ChannelOps
/-!
# Specification (continued): partial traces of a Choi matrix, trace preservation, unitality

The Choi matrix `J` of a map `M_{di} → M_{do}` has rows and columns indexed by pairs `(i, a)` ↦ `i * do + a`
(input label first).  `ptraceOut J` is its partial trace over the output factor, `ptraceIn J` over the input
factor.
-/
namespace Toq.ChannelSpec
variable {α : Type}

/-- `Tr_out J`: entry `(i, j)` is `Σ_a J[(i,a),(j,a)]` -/
def ptraceOut [Add α] [Zero α] (J : Nat → Nat → α) (dout : Nat) : Nat → Nat → α :=
  fun i j => sumN dout fun a => J (i * dout + a) (j * dout + a)

/-- `Tr_in J`: entry `(a, b)` is `Σ_i J[(i,a),(i,b)]` -/
def ptraceIn [Add α] [Zero α] (J : Nat → Nat → α) (din dout : Nat) : Nat → Nat → α :=
  fun a b => sumN din fun i => J (i * dout + a) (i * dout + b)

/-- the identity matrix as a function -/
def idMat [Zero α] [One α] : Nat → Nat → α := fun i j => if i = j then 1 else 0

/-- `Σ_k B_kᴴ A_k`, entry `(j, i)`: `Σ_k Σ_a conj(B_k[a,j]) · A_k[a,i]` (`A_k`, `B_k` with `dout` rows) -/
def sumBdA [Add α] [Mul α] [Zero α] [HasConj α] (r : Nat) (A B : Nat → Nat → Nat → α) (dout : Nat) :
    Nat → Nat → α :=
  fun j i => sumN r fun k => sumN dout fun a => HasConj.conj (B k a j) * A k a i

end Toq.ChannelSpec
