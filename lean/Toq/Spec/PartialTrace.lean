import Toq.Core.Idx
/-!
# Specification of the partial trace (core Lean only, no Mathlib, independent of the mirror model)

An operator on `H_0 ⊗ … ⊗ H_{n-1}` (`dim H_k = dims k`) is a function `X : Nat → Nat → α` of a row and a
column index; an index `r < dims 0 * … * dims (n-1)` is the big-endian code `enc dims x n` of its digit
vector `x` (`x k < dims k` is the basis label on subsystem `k`).

The partial trace over the subsystems listed in `S` is the operator on the remaining subsystems
(`others n S`, in their original order) with
```
(Tr_S X) i j = Σ_t  X (join i t) (join j t)
```
where `join i t` is the index whose digit on a subsystem `k ∈ S` is the digit that the code `t` gives
to `k`, and whose digit on a subsystem `k ∉ S` is the digit that the code `i` gives to `k`: row and
column agree on every traced subsystem and the common labels are summed over.
-/
namespace Toq.PTrace

/-- the subsystems of `0..n-1` not listed in `S`, in increasing (= original) order -/
def others (n : Nat) (S : List Nat) : List Nat := (List.range n).filter (fun k => k ∉ S)

/-- radices of the subsystems listed in `L`, in listing order -/
def subDims (dims : Nat → Nat) (L : List Nat) : Nat → Nat := fun m => dims (L.getD m 0)

/-- dimension of the tensor product of the subsystems listed in `L` -/
def subDim (dims : Nat → Nat) (L : List Nat) : Nat := prodN (subDims dims L) L.length

/-- the digit (basis label) that subsystem `k` gets when `t` is read as a big-endian code over the
    subsystems listed in `L` (first listed = most significant) -/
def digitOn (dims : Nat → Nat) (L : List Nat) (t k : Nat) : Nat :=
  dec (subDims dims L) L.length t (L.idxOf k)

/-- the full index with labels `t` on the subsystems in `S` and labels `i` on the others -/
def join (n : Nat) (dims : Nat → Nat) (S : List Nat) (i t : Nat) : Nat :=
  enc dims (fun k => if k ∈ S then digitOn dims S t k else digitOn dims (others n S) i k) n

/-- **partial trace over the subsystems in `S`**: sum of the entries whose row and column labels agree
    on every subsystem in `S`; the result is indexed by the labels on the other subsystems, which keep
    their original order -/
def ptraceSpec {α : Type} [Add α] [Zero α] (X : Nat → Nat → α) (n : Nat) (dims : Nat → Nat)
    (S : List Nat) : Nat → Nat → α :=
  fun i j => sumN (subDim dims S) (fun t => X (join n dims S i t) (join n dims S j t))

/-- subsystems `T'` of the systems that remain after tracing out `S` (numbered `0..` in the remaining
    systems), translated back to the original numbering -/
def liftSys (n : Nat) (S T' : List Nat) : List Nat := T'.map (fun q => (others n S).getD q 0)

/-- trace of a `d × d` matrix -/
def tr {α : Type} [Add α] [Zero α] (d : Nat) (A : Nat → Nat → α) : α := sumN d (fun b => A b b)

/-- entry `(r, c)` of `A 0 ⊗ A 1 ⊗ … ⊗ A (n-1)` where `A k` is `dims k × dims k` -/
def kronMat {α : Type} [Mul α] [One α] (n : Nat) (A : Nat → Nat → Nat → α) (dims : Nat → Nat)
    (r c : Nat) : α :=
  prodFn n (fun k => A k (dec dims n r k) (dec dims n c k))

end Toq.PTrace
