import Toq.Model.Entangle
import Mathlib.LinearAlgebra.Matrix.Rank
import Mathlib.LinearAlgebra.Matrix.Kronecker
import Mathlib.LinearAlgebra.Matrix.Trace
import Mathlib.LinearAlgebra.Matrix.PosDef
import Mathlib.Analysis.SpecialFunctions.Log.NegMulLog
import Mathlib.Analysis.Matrix.Order
/-!
# Mathematical vocabulary of C14 in Mathlib's terms

* `toM r c A` reads a function matrix `Nat → Nat → α` as a `Matrix (Fin r) (Fin c) α`;
* the **Schmidt rank** of a bipartite vector is `Matrix.rank` of its amplitude matrix;
* `planted dA dB s` is the amplitude matrix of `Σ_i s_i |i i⟩` (rectangular diagonal);
* `pT` is the partial transpose on the second factor for operators indexed by pairs, `U ⊗ₖ V` (Mathlib's
  Kronecker product) is the local operation;
* `shannon p = Σ_i negMulLog (p i)` is the entropy (in nats; divide by `log 2` for bits) of an eigenvalue / probability family.
-/
namespace Toq.Entangle
open Matrix
open scoped ComplexOrder MatrixOrder

/-- function matrix → Mathlib matrix -/
def toM {α : Type} (r c : Nat) (A : Nat → Nat → α) : Matrix (Fin r) (Fin c) α := fun i j => A i.val j.val

/-- amplitude matrix of `Σ_i s_i |i i⟩` in `C^{dA} ⊗ C^{dB}` -/
def planted {α : Type} [Zero α] (dA dB : Nat) (s : Nat → α) : Matrix (Fin dA) (Fin dB) α :=
  fun a b => if a.val = b.val then s a.val else 0

/-- partial transpose on the second tensor factor -/
def pT {m n α : Type} (X : Matrix (m × n) (m × n) α) : Matrix (m × n) (m × n) α :=
  fun p q => X (p.1, q.2) (q.1, p.2)

/-- entropy `−Σ x log x` of a finite family (natural logarithm) -/
noncomputable def shannon {ι : Type} [Fintype ι] (p : ι → ℝ) : ℝ := ∑ i, Real.negMulLog (p i)

/-- `ψ` is a product vector: its amplitude matrix is `x yᵀ` -/
def IsProductAmp {m n α : Type} [Mul α] (A : Matrix m n α) : Prop := ∃ (x : m → α) (y : n → α), ∀ a b, A a b = x a * y b

/-- all `2 × 2` minors of `A` vanish -/
def MinorsVanish {m n α : Type} [Mul α] (A : Matrix m n α) : Prop := ∀ a a' b b', A a b * A a' b' = A a b' * A a' b

/-- realignment for operators indexed by pairs: row `(a,a')`, column `(b,b')`, entry `X[(a,b),(a',b')]`; its rank is the
    operator Schmidt rank -/
def realign {m n α : Type} (X : Matrix (m × n) (m × n) α) : Matrix (m × m) (n × n) α :=
  fun p q => X (p.1, q.1) (p.2, q.2)

/-- `|ψ⟩⟨ψ|` (indexed by pairs) for the vector with amplitude matrix `A` -/
def pureOfAmp {m n : Type} (A : Matrix m n ℂ) : Matrix (m × n) (m × n) ℂ :=
  fun p q => A p.1 p.2 * star (A q.1 q.2)

/-- trace norm `‖X‖₁ = tr √(XᴴX)` -/
noncomputable def traceNorm {ι : Type} [Fintype ι] [DecidableEq ι] (X : Matrix ι ι ℂ) : ℂ := (CFC.sqrt (Xᴴ * X)).trace

end Toq.Entangle
