import Toq.Core.Idx
import Toq.Core.Scalar
/-!
# Specification of linear maps on matrix spaces (core Lean only, independent of the mirror models)

A matrix is a function `Nat → Nat → α` of a row and a column index (sizes are passed explicitly, entries
outside are never looked at).  A linear map `Φ : M_{di0 × di1} → M_{do0 × do1}` is given by a family of
`r` operator pairs `(A k, B k)`, `A k` of size `do0 × di0`, `B k` of size `do1 × di1`:
```
Φ(X) = Σ_k  A_k · X · B_kᴴ          (Φ(X)) a b = Σ_k Σ_i Σ_j  A_k[a,i] · X[i,j] · conj(B_k[b,j])
```
(completely positive maps have `B = A`).  Tensor-product indices are big-endian: the pair `(i, a)` with
`a < d` is the index `i * d + a`.
-/
namespace Toq.ChannelSpec
variable {α : Type}

/-- `Φ(X) = Σ_k A_k X B_kᴴ`, entry `(a, b)` -/
def applySpec [Add α] [Mul α] [Zero α] [HasConj α] (r : Nat) (A B : Nat → Nat → Nat → α)
    (di0 di1 : Nat) (X : Nat → Nat → α) : Nat → Nat → α :=
  fun a b => sumN r fun k => sumN di0 fun i => sumN di1 fun j => A k a i * X i j * HasConj.conj (B k b j)

/-- the matrix unit `E_ij` -/
def unit [Zero α] [One α] (i j : Nat) : Nat → Nat → α := fun i' j' => if i' = i ∧ j' = j then 1 else 0

/-- the Choi matrix `J(Φ) = Σ_ij E_ij ⊗ Φ(E_ij)`: its entry at row `(i, a)`, column `(j, b)` is
    `Φ(E_ij)[a, b]` -/
def choiSpec [Add α] [Mul α] [Zero α] [One α] [HasConj α] (r : Nat) (A B : Nat → Nat → Nat → α)
    (di0 di1 do0 do1 : Nat) : Nat → Nat → α :=
  fun p q => applySpec r A B di0 di1 (unit (p / do0) (q / do1)) (p % do0) (q % do1)

/-- evaluation of a map from its Choi matrix: `Φ(X) = Σ_ij X[i,j] · (block (i,j) of J)` -/
def applyChoiSpec [Add α] [Mul α] [Zero α] (J : Nat → Nat → α) (di0 di1 do0 do1 : Nat)
    (X : Nat → Nat → α) : Nat → Nat → α :=
  fun a b => sumN di0 fun i => sumN di1 fun j => X i j * J (i * do0 + a) (j * do1 + b)

/-- the Hilbert–Schmidt inner product `⟨Y, Z⟩ = tr(Yᴴ Z) = Σ_ab conj(Y[a,b]) · Z[a,b]` of `m × n` matrices -/
def hsInner [Add α] [Mul α] [Zero α] [HasConj α] (m n : Nat) (Y Z : Nat → Nat → α) : α :=
  sumN m fun a => sumN n fun b => HasConj.conj (Y a b) * Z a b

/-- trace of a `d × d` matrix -/
def tr [Add α] [Zero α] (d : Nat) (M : Nat → Nat → α) : α := sumN d fun a => M a a

/-- the adjoint family: `A_kᴴ`, entry `(i, a)` is `conj (A_k[a, i])` -/
def adj [HasConj α] (A : Nat → Nat → Nat → α) : Nat → Nat → Nat → α := fun k i a => HasConj.conj (A k a i)

/-- row-major vectorisation of an `m × n` matrix: `vec_r(X)[i * n + j] = X[i, j]` -/
def vecR (n : Nat) (X : Nat → Nat → α) : Nat → α := fun p => X (p / n) (p % n)

end Toq.ChannelSpec
