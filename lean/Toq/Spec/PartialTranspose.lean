import Toq.Core.Idx
/-!
# Mathematical specification of the partial transpose and of the realignment (core Lean only)

A matrix is a function `Nat → Nat → α`; an operator on a tensor product of `n` subsystems has row
dimensions `rd 0 … rd (n-1)` and column dimensions `cd 0 … cd (n-1)` (a rectangular operator has
`rd ≠ cd`), and a row (column) index is the big-endian code `enc rd a n` (`enc cd b n`) of a digit
vector.  The partial transpose over a list `S` of subsystems exchanges the row digit and the column
digit at every position in `S` and leaves all other digits in place.
-/
namespace Toq.Spec

/-- row dimensions of the partial transpose: the column dimension on `S`, the row dimension elsewhere -/
def pTRowDims (rd cd : Nat → Nat) (S : List Nat) : Nat → Nat := fun k => if k ∈ S then cd k else rd k

/-- column dimensions of the partial transpose: the row dimension on `S`, the column dimension elsewhere -/
def pTColDims (rd cd : Nat → Nat) (S : List Nat) : Nat → Nat := fun k => if k ∈ S then rd k else cd k

/-- **Partial transpose, specification.**  Entry `(i, j)` of the result — `i` has digits `a` with
    respect to `pTRowDims`, `j` has digits `b` with respect to `pTColDims` — is the entry of `X` whose
    row digits are `b` on `S` and `a` elsewhere and whose column digits are `a` on `S` and `b` elsewhere. -/
def pTSpec (X : Nat → Nat → α) (n : Nat) (rd cd : Nat → Nat) (S : List Nat) : Nat → Nat → α :=
  fun i j =>
    X (enc rd (fun k => if k ∈ S then dec (pTColDims rd cd S) n j k else dec (pTRowDims rd cd S) n i k) n)
      (enc cd (fun k => if k ∈ S then dec (pTRowDims rd cd S) n i k else dec (pTColDims rd cd S) n j k) n)

/-- ordinary transpose -/
def transposeM (X : Nat → Nat → α) : Nat → Nat → α := fun i j => X j i

/-- entry `(i, j)` of `A 0 ⊗ A 1 ⊗ … ⊗ A (n-1)` where `A k` is `rd k × cd k` -/
def kronMat [Mul α] [One α] (n : Nat) (A : Nat → Nat → Nat → α) (rd cd : Nat → Nat) : Nat → Nat → α :=
  fun i j => prodFn n (fun k => A k (dec rd n i k) (dec cd n j k))

/-- **Realignment, specification** for a bipartite operator with row dims `[r0, r1]` and column dims
    `[c0, c1]`: the result is `(r0*c0) × (r1*c1)`; its row index `i = a*c0 + a'` is the row-major code
    of an entry position `(a, a')` of the first factor, its column index `j = b*c1 + b'` that of an
    entry position `(b, b')` of the second factor, and the entry is `X[a*r1 + b, a'*c1 + b']`.
    (`r0` only bounds `i`; it does not occur in the formula.) -/
def realignSpec (X : Nat → Nat → α) (r1 c0 c1 : Nat) : Nat → Nat → α :=
  fun i j => X ((i / c0) * r1 + j / c1) ((i % c0) * c1 + j % c1)

/-- row part of the realignment index map `(i, j) ↦ (I, J)` -/
def realignRow (r1 c0 c1 i j : Nat) : Nat := (i / c0) * r1 + j / c1
/-- column part of the realignment index map -/
def realignCol (c0 c1 i j : Nat) : Nat := (i % c0) * c1 + j % c1
/-- inverse index map, row part: `(I, J) ↦ i` -/
def realignRowInv (r1 c0 c1 I J : Nat) : Nat := (I / r1) * c0 + J / c1
/-- inverse index map, column part: `(I, J) ↦ j` -/
def realignColInv (r1 c1 I J : Nat) : Nat := (I % r1) * c1 + J % c1

end Toq.Spec
