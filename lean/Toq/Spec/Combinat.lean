import Mathlib.Data.Matrix.Mul
import Mathlib.LinearAlgebra.Matrix.Trace
import Mathlib.GroupTheory.Perm.Sign
import Mathlib.GroupTheory.Perm.Fin
import Mathlib.Data.Nat.Factorial.Basic
import Mathlib.Data.Sym.Sym2
import Mathlib.Data.Finset.Image
import Mathlib.Algebra.Field.Rat
/-!
# Specification for C18 (shortest mathematical definitions)

* the projectors onto the symmetric / antisymmetric subspace of `p` copies of a `d`-dimensional space, as matrices over `ℚ`
  indexed by digit vectors `Fin p → Fin d`:  `(1/p!) Σ_σ W_σ`  and  `(1/p!) Σ_σ sgn(σ) W_σ`  over `Equiv.Perm (Fin p)`;
* what a perfect matching of a finite set of objects is.
-/
open Equiv

namespace Toq.Combinat.Spec

/-- `W_σ`: the permutation operator of `σ` on `p` copies of `ℚ^d`; entry `(y, x)` is `1` iff `y = x ∘ σ`
    (this is the entry pattern of toqito's `permutation_operator(d·ones(p), σ)`, see `permOp_eq_permMat`) -/
def permMat (d p : ℕ) (σ : Perm (Fin p)) : Matrix (Fin p → Fin d) (Fin p → Fin d) ℚ :=
  fun y x => if y = x ∘ σ then 1 else 0

/-- projector onto the symmetric subspace -/
noncomputable def symSpec (d p : ℕ) : Matrix (Fin p → Fin d) (Fin p → Fin d) ℚ :=
  ((p.factorial : ℚ)⁻¹) • ∑ σ : Perm (Fin p), permMat d p σ

/-- projector onto the antisymmetric subspace -/
noncomputable def antiSpec (d p : ℕ) : Matrix (Fin p → Fin d) (Fin p → Fin d) ℚ :=
  ((p.factorial : ℚ)⁻¹) • ∑ σ : Perm (Fin p), ((Perm.sign σ : ℤ) : ℚ) • permMat d p σ

/-- A perfect matching of the objects in `S`: a set of unordered pairs of distinct objects such that every object of `S`
    lies in exactly one pair and every pair consists of objects of `S`. -/
structure IsPerfectMatching {α : Type} [DecidableEq α] (S : List α) (M : Finset (Sym2 α)) : Prop where
  not_diag : ∀ e ∈ M, ¬ e.IsDiag
  cover : ∀ v, v ∈ S ↔ ∃ e ∈ M, v ∈ e
  disjoint : ∀ e ∈ M, ∀ e' ∈ M, ∀ v, v ∈ e → v ∈ e' → e = e'

/-- the pairs `(row[0],row[1]), (row[2],row[3]), …` of a row returned by `perfect_matchings` -/
def pairsOf {α : Type} : List α → List (Sym2 α)
  | a :: b :: t => s(a, b) :: pairsOf t
  | _ => []

/-- the matching represented by a row -/
def matchingOf {α : Type} [DecidableEq α] (row : List α) : Finset (Sym2 α) := (pairsOf row).toFinset

/-- `perm` (a list of length `n`, read as a function) is a permutation of `1..n`, the convention `perm_sign` documents -/
structure IsPerm1 (n : ℕ) (perm : ℕ → ℤ) : Prop where
  range : ∀ j, j < n → 1 ≤ perm j ∧ perm j ≤ n
  inj : ∀ a b, a < n → b < n → perm a = perm b → a = b

/-- the property's finite table: `d, p ∈ 1..4` (all sixteen pairs have `d^p ≤ 256`) -/
def rankTable : List (ℕ × ℕ) :=
  [(1,1),(2,1),(3,1),(4,1),(1,2),(2,2),(3,2),(4,2),(1,3),(2,3),(3,3),(4,3),(1,4),(2,4),(3,4),(4,4)]

end Toq.Combinat.Spec
