import Toq.Model.MatrixOps
/-!
# Specifications (shortest mathematical readings) for the helper operations of C16

The mirror models of `Toq/Model/MatrixOps.lean` follow the Python code; the definitions here say what the
results should be, with the Kronecker index convention `enc` of `Toq/Core/Idx.lean`
(`enc d x 2 = x 0 * d 1 + x 1`: first tensor factor most significant).
-/

namespace Toq.MatrixOps

/-- two-element digit / radix vectors -/
def pair (a b : Nat) : Nat → Nat := fun k => if k = 0 then a else b

/-- column stacking: entry `k` of `vec A` is `A[k mod r, k div r]` -/
def vecSpec (A : Mat α) (k : Nat) : α := A.f (k % A.r) (k / A.r)

/-- row-major flattening (`X.reshape(-1)`), the inverse of the `reshape((dim, dim))` of `commutant` -/
def vecC (X : Mat α) : Mat α := ⟨X.r * X.c, 1, fun k _ => X.f (k / X.c) (k % X.c)⟩

/-- Kronecker product by its defining property on index pairs:
    `(A ⊗ B)[(i1,i2),(j1,j2)] = A[i1,j1] * B[i2,j2]` with pairs coded by `enc` -/
def IsKron [Mul α] (A B K : Mat α) : Prop :=
  K.r = A.r * B.r ∧ K.c = A.c * B.c ∧
  ∀ i1 i2 j1 j2, i1 < A.r → i2 < B.r → j1 < A.c → j2 < B.c →
    K.f (enc (pair A.r B.r) (pair i1 i2) 2) (enc (pair A.c B.c) (pair j1 j2) 2) = A.f i1 j1 * B.f i2 j2

/-- prefix sum `l[0] + … + l[k-1]` of a list (missing entries count 0) -/
def prefixSum (l : List Rat) (k : Nat) : Rat := sumN k (fun i => l.getD i 0)

/-- weak majorisation of two sequences of the same length `n`, already sorted:
    every prefix sum of `a` dominates that of `b` -/
def PrefixDominates (a b : List Rat) (n : Nat) : Prop := ∀ k, k < n → prefixSum b (k + 1) ≤ prefixSum a (k + 1)

end Toq.MatrixOps
