import Toq.Spec.States
/-! # More vocabulary for the C17 theorems (core Lean only) -/
namespace Toq.Spec17
variable {α : Type}

/-- `U^{⊗p}` on `(C^d)^{⊗p}`: entry `(r, c)` is `Π_k U[r_k, c_k]` over the big-endian digits of `r`, `c` -/
def tensorPow [Mul α] [One α] (d p : Nat) (U : Nat → Nat → α) : Nat → Nat → α :=
  fun r c => prodFn p (fun k => U (digit d p r k) (digit d p c k))

end Toq.Spec17
