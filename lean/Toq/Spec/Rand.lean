import Mathlib.Analysis.Matrix.Order
import Mathlib.LinearAlgebra.Matrix.Rank
/-!
# Mathematical vocabulary for C19 (random generators, PGM / PBM, `measure`)

Everything is stated over `Matrix _ _ ℂ` with Mathlib's `PosSemidef`, `trace`, `rank`, `conjTranspose` (`ᴴ`).
A matrix `U` is *unitary* when `Uᴴ * U = 1` (for square matrices over a commutative ring this is equivalent to
`U * Uᴴ = 1`, `Matrix.mul_eq_one_comm`); over `ℝ` the star is trivial, so the same statement says *orthogonal*.
-/

open Matrix
open scoped ComplexOrder MatrixOrder

namespace Toq.Rand

/-- `M` is a measurement (POVM): positive semidefinite elements summing to the identity
(`toqito.measurement_props.is_povm`) -/
def IsPOVM {ι κ : Type*} [Fintype ι] [DecidableEq ι] [Fintype κ] (M : κ → Matrix ι ι ℂ) : Prop :=
  (∀ i, (M i).PosSemidef) ∧ ∑ i, M i = 1

/-- `Σᵢ pᵢ · Re tr(ρᵢ Mᵢ)`: probability of identifying the state of the ensemble `(p, ρ)` correctly with the measurement `M`
(the objective of minimum-error discrimination; same formula as `Toq.C10.successProb`, here for arbitrary index types) -/
noncomputable def successProb {ι κ : Type*} [Fintype ι] [Fintype κ] (ρ : κ → Matrix ι ι ℂ) (p : κ → ℝ)
    (M : κ → Matrix ι ι ℂ) : ℝ :=
  ∑ i, p i * (ρ i * M i).trace.re

/-- the success probabilities attained by measurements; the optimum of minimum-error discrimination is its supremum -/
def successValues {ι κ : Type*} [Fintype ι] [DecidableEq ι] [Fintype κ] (ρ : κ → Matrix ι ι ℂ) (p : κ → ℝ) : Set ℝ :=
  {v | ∃ M : κ → Matrix ι ι ℂ, IsPOVM M ∧ successProb ρ p M = v}

/-- the pretty good measurement built from a normaliser `S` (`S = (Σ pᵢρᵢ)^{-1/2}` in the code):
`Gᵢ = S (pᵢρᵢ) S` -/
noncomputable def pgmOf {ι κ : Type*} [Fintype ι] (ρ : κ → Matrix ι ι ℂ) (p : κ → ℝ) (S : Matrix ι ι ℂ) : κ → Matrix ι ι ℂ :=
  fun i => S * ((p i : ℂ) • ρ i) * S

/-- the pretty bad measurement `Bᵢ = (1 − Gᵢ)/(n − 1)` of a measurement `G` with `n` outcomes -/
noncomputable def pbmOf {ι κ : Type*} [Fintype ι] [DecidableEq ι] [Fintype κ] (G : κ → Matrix ι ι ℂ) : κ → Matrix ι ι ℂ :=
  fun i => ((Fintype.card κ : ℂ) - 1)⁻¹ • (1 - G i)

/-- NumPy ≥ 2 `np.sign` on a complex number followed by the code's `r[r == 0] = 1` -/
noncomputable def csign (z : ℂ) : ℂ := if z = 0 then 1 else z / (‖z‖ : ℂ)

/-- `np.sign` on a real number followed by `r[r == 0] = 1` -/
noncomputable def rsign (x : ℝ) : ℝ := if x = 0 then 1 else if 0 < x then 1 else -1

/-- `G Gᴴ / tr(G Gᴴ)`: what `random_density_matrix` returns for the final factor `G` -/
noncomputable def densityOf {m n : Type*} [Fintype m] [Fintype n] (G : Matrix m n ℂ) : Matrix m m ℂ :=
  (G * Gᴴ).trace⁻¹ • (G * Gᴴ)

/-- the scaled DFT matrix with root `ω`: `F[k,i] = c·ω^(k·i)`; `np.fft.fft(np.eye(d)) / np.sqrt(d)` is the
case `ω = e^{-2πi/d}` (`dftRoot d`), `c = 1/√d` -/
def dftMat (d : Nat) (c : ℝ) (ω : ℂ) : Matrix (Fin d) (Fin d) ℂ :=
  Matrix.of fun k i => (c : ℂ) * ω ^ (k.val * i.val)

@[simp] theorem dftMat_apply (d : Nat) (c : ℝ) (ω : ℂ) (k i : Fin d) :
    dftMat d c ω k i = (c : ℂ) * ω ^ (k.val * i.val) := rfl

/-- `Fᴴ · diag(λ) · F` -/
def circGram (d : Nat) (c : ℝ) (ω : ℂ) (lam : Fin d → ℝ) : Matrix (Fin d) (Fin d) ℂ :=
  (dftMat d c ω)ᴴ * diagonal (fun k => (lam k : ℂ)) * dftMat d c ω

/-- `np.real(Fᴴ · diag(λ) · F)`: what `random_circulant_gram_matrix` returns -/
noncomputable def circGramRe (d : Nat) (c : ℝ) (ω : ℂ) (lam : Fin d → ℝ) : Matrix (Fin d) (Fin d) ℝ :=
  fun i j => (circGram d c ω lam i j).re

/-- the root of unity of NumPy's forward DFT -/
noncomputable def dftRoot (d : Nat) : ℂ := Complex.exp (-(2 * Real.pi * Complex.I) / d)

end Toq.Rand
