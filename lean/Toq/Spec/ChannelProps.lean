import Mathlib.Analysis.Complex.Order
import Mathlib.Data.Matrix.Basis
import Mathlib.LinearAlgebra.Matrix.Trace
import Mathlib.LinearAlgebra.Matrix.PosDef
import Mathlib.LinearAlgebra.Matrix.ConjTranspose
import Mathlib.LinearAlgebra.Matrix.Notation
/-!
# Specification of the channel predicates (`toqito/channel_props/*.py`) and of the built-in channels
(`toqito/channels/*.py`) in Mathlib's matrix vocabulary

A *map* is a ℂ-linear map `Φ : M_{d_in}(ℂ) → M_{d_out}(ℂ)`.  Tensor-product indices are pairs: the
Choi matrix in toqito's convention,
```
J(Φ) = Σ_ij E_ij ⊗ Φ(E_ij)            J(Φ) ((i, a), (j, b)) = Φ(E_ij)[a, b]
```
is a matrix over `Fin d_in × Fin d_out` (first factor = input space, second = output space; under the
big-endian pairing `(i, a) ↦ i·d_out + a` this is the `(d_in·d_out) × (d_in·d_out)` array that
`kraus_to_choi` returns, see `Toq.C06.choi_pairMap_eq_choiSpec`).

The predicates are the textbook definitions, *not* the tests the code performs:

* `IsTP`        — `tr Φ(X) = tr X` for all `X`
* `IsUnital`    — `Φ(1) = 1`
* `IsHP`        — `Φ(Xᴴ) = Φ(X)ᴴ` for all `X`
* `IsPositive`  — `Φ(X) ⪰ 0` for all `X ⪰ 0`
* `IsCP`        — `id_n ⊗ Φ` is positive for every `n`
* `HasKraus`    — `Φ(X) = Σ_k K_k X K_kᴴ` for some finite family `K`
* `IsUnitaryChannel` — `Φ(X) = U X Uᴴ` for a unitary `U`
* `IsExtremeChannel` — a channel that is not a proper convex combination of two other channels
-/
open Matrix
open scoped ComplexOrder

namespace Toq.ChanPropSpec

variable {di dO n r : Nat}

/-- a linear map `M_{di}(ℂ) → M_{dO}(ℂ)` -/
abbrev LMap (di dO : Nat) := Matrix (Fin di) (Fin di) ℂ →ₗ[ℂ] Matrix (Fin dO) (Fin dO) ℂ

/-- matrices over the tensor product `ℂ^di ⊗ ℂ^dO` -/
abbrev TMat (di dO : Nat) := Matrix (Fin di × Fin dO) (Fin di × Fin dO) ℂ

/-- the Choi matrix `J(Φ) = Σ_ij E_ij ⊗ Φ(E_ij)` -/
def choi (Φ : LMap di dO) : TMat di dO := fun p q => Φ (Matrix.single p.1 q.1 1) p.2 q.2

/-- the map with Choi matrix `J`:  `Φ(X) = Σ_ij X[i,j] · (block (i,j) of J)` -/
def ofChoi (J : TMat di dO) : LMap di dO where
  toFun X := Matrix.of fun a b => ∑ i, ∑ j, X i j * J (i, a) (j, b)
  map_add' X Y := by
    ext a b
    simp only [Matrix.of_apply, Matrix.add_apply, add_mul, Finset.sum_add_distrib]
  map_smul' c X := by
    ext a b
    simp only [Matrix.of_apply, Matrix.smul_apply, smul_eq_mul, RingHom.id_apply, Finset.mul_sum, mul_assoc]

/-- `X ↦ Σ_k A_k X B_kᴴ` (the paired Kraus form `[[A_1, B_1], …]` of toqito) -/
def pairMap (A B : Fin r → Matrix (Fin dO) (Fin di) ℂ) : LMap di dO where
  toFun X := ∑ k, A k * X * (B k)ᴴ
  map_add' X Y := by
    simp only [Matrix.mul_add, Matrix.add_mul, Finset.sum_add_distrib]
  map_smul' c X := by
    simp only [Matrix.mul_smul, Matrix.smul_mul, RingHom.id_apply, Finset.smul_sum]

/-- `X ↦ Σ_k K_k X K_kᴴ` (flat Kraus form) -/
def krausMap (K : Fin r → Matrix (Fin dO) (Fin di) ℂ) : LMap di dO := pairMap K K

/-- `Tr_out J`: partial trace over the second (output) factor -/
def ptraceOut (J : TMat di dO) : Matrix (Fin di) (Fin di) ℂ := fun i j => ∑ a, J (i, a) (j, a)

/-- `Tr_in J`: partial trace over the first (input) factor -/
def ptraceIn (J : TMat di dO) : Matrix (Fin dO) (Fin dO) ℂ := fun a b => ∑ i, J (i, a) (i, b)

/-- trace preserving -/
def IsTP (Φ : LMap di dO) : Prop := ∀ X, Matrix.trace (Φ X) = Matrix.trace X

/-- unital -/
def IsUnital (Φ : LMap di dO) : Prop := Φ 1 = 1

/-- Hermiticity preserving -/
def IsHP (Φ : LMap di dO) : Prop := ∀ X, Φ Xᴴ = (Φ X)ᴴ

/-- positive -/
def IsPositive (Φ : LMap di dO) : Prop := ∀ X : Matrix (Fin di) (Fin di) ℂ, X.PosSemidef → (Φ X).PosSemidef

/-- block `(k, l)` of a matrix over `ℂ^n ⊗ ℂ^d` -/
def block {d : Nat} (X : TMat n d) (k l : Fin n) : Matrix (Fin d) (Fin d) ℂ := fun i j => X (k, i) (l, j)

/-- `(id_n ⊗ Φ)(X)`: `Φ` applied to every block -/
def ampl (n : Nat) (Φ : LMap di dO) (X : TMat n di) : TMat n dO := fun p q => Φ (block X p.1 q.1) p.2 q.2

/-- completely positive: every amplification `id_n ⊗ Φ` maps positive semidefinite matrices to positive
    semidefinite matrices -/
def IsCP (Φ : LMap di dO) : Prop := ∀ n : Nat, ∀ X : TMat n di, X.PosSemidef → (ampl n Φ X).PosSemidef

/-- `Φ` has a Kraus representation -/
def HasKraus (Φ : LMap di dO) : Prop := ∃ (r : Nat) (K : Fin r → Matrix (Fin dO) (Fin di) ℂ), Φ = krausMap K

/-- quantum channel -/
def IsChannel (Φ : LMap di dO) : Prop := IsCP Φ ∧ IsTP Φ

/-- extreme point of the convex set of channels: a channel that is not a proper convex combination
    `t·Φ₀ + (1-t)·Φ₁`, `0 < t < 1`, of two channels other than itself -/
def IsExtremeChannel (Φ : LMap di dO) : Prop :=
  IsChannel Φ ∧ ∀ (Φ₀ Φ₁ : LMap di dO) (t : ℝ), IsChannel Φ₀ → IsChannel Φ₁ → 0 < t → t < 1 →
    Φ = (t : ℂ) • Φ₀ + ((1 - t : ℝ) : ℂ) • Φ₁ → Φ₀ = Φ ∧ Φ₁ = Φ

/-- Choi matrix of a channel: positive semidefinite with `Tr_out J = 1` -/
def IsChoiChannel (J : TMat di dO) : Prop := J.PosSemidef ∧ ptraceOut J = 1

/-- extreme point of the convex set of Choi matrices of channels -/
def IsChoiExtreme (J : TMat di dO) : Prop :=
  IsChoiChannel J ∧ ∀ (J₀ J₁ : TMat di dO) (t : ℝ), IsChoiChannel J₀ → IsChoiChannel J₁ → 0 < t → t < 1 →
    J = (t : ℂ) • J₀ + ((1 - t : ℝ) : ℂ) • J₁ → J₀ = J ∧ J₁ = J

/-- unitary channel `X ↦ U X Uᴴ` -/
def IsUnitaryChannel (Φ : LMap di di) : Prop :=
  ∃ U : Matrix (Fin di) (Fin di) ℂ, Uᴴ * U = 1 ∧ U * Uᴴ = 1 ∧ ∀ X, Φ X = U * X * Uᴴ

/-- the column-stacking vector of a Kraus operator in the pair indexing: `vec(K)(i, a) = K[a, i]` -/
def kvec (K : Matrix (Fin dO) (Fin di) ℂ) : Fin di × Fin dO → ℂ := fun p => K p.2 p.1

/-- the unnormalised maximally entangled vector `Σ_i |i⟩|i⟩` (`max_entangled(d, False, False)`) -/
def maxEntVec (d : Nat) : Fin d × Fin d → ℂ := fun p => if p.1 = p.2 then 1 else 0

/-- the diagonal part `Σ_a X[a,a] E_aa` -/
def diagPart {d : Nat} (X : Matrix (Fin d) (Fin d) ℂ) : Matrix (Fin d) (Fin d) ℂ :=
  Matrix.diagonal fun a => X a a

/-! ## the built-in channels as mathematical objects -/

/-- partially depolarizing map `X ↦ (1-p)·tr(X)·1/d + p·X` -/
noncomputable def depolSpec (d : Nat) (p : ℂ) (X : Matrix (Fin d) (Fin d) ℂ) : Matrix (Fin d) (Fin d) ℂ :=
  ((1 - p) * Matrix.trace X / (d : ℂ)) • (1 : Matrix (Fin d) (Fin d) ℂ) + p • X

/-- partially dephasing map `X ↦ (1-p)·diag(X) + p·X` -/
def dephSpec (d : Nat) (p : ℂ) (X : Matrix (Fin d) (Fin d) ℂ) : Matrix (Fin d) (Fin d) ℂ :=
  (1 - p) • diagPart X + p • X

/-- reduction map `X ↦ k·tr(X)·1 - X` -/
def reductionSpec (d : Nat) (k : ℂ) (X : Matrix (Fin d) (Fin d) ℂ) : Matrix (Fin d) (Fin d) ℂ :=
  (k * Matrix.trace X) • (1 : Matrix (Fin d) (Fin d) ℂ) - X

/-- generalised Choi map on 3×3 matrices (Cho–Kye–Lee):
    `Φ_{a,b,c}(X) = diag((a+1)x₀₀ + b x₁₁ + c x₂₂, c x₀₀ + (a+1)x₁₁ + b x₂₂, b x₀₀ + c x₁₁ + (a+1)x₂₂) - X` -/
def choiMapSpec (a b c : ℂ) (X : Matrix (Fin 3) (Fin 3) ℂ) : Matrix (Fin 3) (Fin 3) ℂ :=
  Matrix.diagonal (fun s : Fin 3 => (a + 1) * X s s + b * X (s + 1) (s + 1) + c * X (s + 2) (s + 2)) - X

/-- the two non-zero Kraus operators of the amplitude damping channel (`amplitude_damping(None, γ, 1)`):
    `K₀ = diag(1, √(1-γ))`, `K₁ = √γ·E₀₁`, with `sg = √γ`, `cg = √(1-γ)` -/
def adPair (sg cg : ℂ) : Fin 2 → Matrix (Fin 2) (Fin 2) ℂ := ![!![1, 0; 0, cg], !![0, sg; 0, 0]]

end Toq.ChanPropSpec
