import Toq.Driver.Util
/-! Driver handlers for C13 (stub; filled in by the owner of this property). -/
namespace Toq.Driver.C13
def handlers : List (String × Handler) := []
end Toq.Driver.C13
