import Toq.Driver.QJson
import Toq.Driver.C13Fos
import Toq.Model.Metrics
/-! Driver front end for C13 (state distance measures: certificate checkers and exact evaluators).

Matrices: `{"e":k,"re":[…],"im":[…]}` (entries `(re + i·im)/2^k`) or `{"den":D,"re":[…],"im":[…]}` (entries
`(re + i·im)/D`, `D > 0`), row-major; `"im"` may be omitted.

* `c13_tn_lower  {"n","r","H","W","L1","L2"}`                 (`L1`, `L2`: `n × r`, default `r = n`)
* `c13_tn_upper  {"n","r","H","P","Q","LP","LQ"}`
* `c13_fid_primal      {"n","r","rho","sigma","X","L"}`       (`L`: `2n × r`, default `r = 2n`)
* `c13_fid_primal_cong {"n","k","r","rho","sigma","X","B","M","L"}`  (`B`: `2n × k`, `M`: `k × k`, `L`: `k × r`, default `r = k`)
* `c13_fid_dual        {"n","r","rho","sigma","Y","Z","L"}`
* `c13_mats_primal     {"n","r","rho","sigma","W","L"}`
* `c13_mats_dual       {"n","r","rho","sigma","Y","Z","C","L"}`
* `c13_exact     {"n","rho","sigma"}` → `{"hs","trprod","trprod4","subfidrad"}` (rationals)
* `c13_hs_inner  {"n","m","A","B"}`   → `{"re","im"}`
* `c13_classical {"n","p","q","slo","shi"}` → `{"prob","td","hs","trprod","trprod4","subfidrad","flo","fhi"}` (commuting pairs)
* `c13_round     {"lo","hi","d"}`     → `{"r","bures2","rlo","rhi"}` (`np.round(·, d)` on an enclosure)
* `c13_guard     {"family","same","a","b"}` → `{"outcome","densA","densB"}` (argument guards)
* `c13_fos_args`, `c13_fos_exprs`, `c13_fos_product`, `c13_fos_guard`: the program and the guards of `fidelity_of_separability` (`Driver/C13Fos.lean`)

Checker answers: `{"ok":[num,den]}` (the exact value returned by the verified checker of `Toq.Model.Metrics`) or
`{"reject":"<first failed condition>"}`; the diagnostic only words a rejection by re-evaluating the same named
conditions. -/
open Lean Toq.Metrics EMat

namespace Toq.Driver.C13

def parseQMat (n m : Nat) (j : Json) : Except String (EMat n m) := do
  match j.getObjVal? "den" with
  | .ok dj =>
    let d ← dj.getNat?
    if d == 0 then throw "matrix: zero denominator"
    let re ← getIntArray j "re"
    let im := (getIntArray j "im").toOption.getD (Array.replicate (n * m) 0)
    if re.size != n * m || im.size != n * m then throw s!"matrix size mismatch: expected {n}x{m}, got {re.size}"
    return EMat.ofFn fun i k => ⟨(re[i.val * m + k.val]! : Rat) / (d : Rat), (im[i.val * m + k.val]! : Rat) / (d : Rat)⟩
  | .error _ => parseEMat n m j

def getQ (j : Json) (key : String) (n m : Nat) : Except String (EMat n m) := do
  parseQMat n m (← j.getObjVal? key)

def natOr (j : Json) (key : String) (dflt : Nat) : Nat := (getNat j key).toOption.getD dflt

def firstFail (k : Nat) (p : Fin k → Bool) : Option Nat :=
  ((List.finRange k).find? fun i => !p i).map (·.val)

/-- why `psdCert A L` fails (`none` when it holds) -/
def psdWhy {n k : Nat} (A : EMat n n) (L : EMat n k) : Option String :=
  if !A.isHermitian then some "not_hermitian"
  else
    let R := A - L.mul L.ct
    if !R.isHermitian then some "residual_not_hermitian"
    else
      match firstFail n fun i =>
          decide (sumFinQ n (fun j => if j = i then 0 else (R.get i j).abs1) ≤ (R.get i i).re) with
      | some i => some s!"residual_not_diag_dominant_row_{i}"
      | none => if psdCert A L then none else some "psdCert_failed"

def answer (r : Option Rat) (why : Unit → String) : Json :=
  match r with
  | some v => Json.mkObj [("ok", ratJson v)]
  | none => reject (why ())

def firstWhy (l : List (String × Option String)) : String :=
  match l.findSome? fun x => x.2.map fun s => x.1 ++ "_" ++ s with
  | some s => s
  | none => "rejected"

def hTNLower : Handler := fun j => do
  let n ← getNat j "n"
  let r := natOr j "r" n
  let H ← getQ j "H" n n
  let W ← getQ j "W" n n
  let L1 ← getQ j "L1" n r
  let L2 ← getQ j "L2" n r
  return answer (checkTNLower H W L1 L2) fun _ =>
    if !H.isHermitian then "H_not_hermitian"
    else firstWhy [("one_minus_W", psdWhy ((one : EMat n n) - W) L1), ("one_plus_W", psdWhy ((one : EMat n n) + W) L2)]

def hTNUpper : Handler := fun j => do
  let n ← getNat j "n"
  let r := natOr j "r" n
  let H ← getQ j "H" n n
  let P ← getQ j "P" n n
  let Q ← getQ j "Q" n n
  let LP ← getQ j "LP" n r
  let LQ ← getQ j "LQ" n r
  return answer (checkTNUpper H P Q LP LQ) fun _ =>
    if !H.beq (P - Q) then "H_ne_P_minus_Q"
    else firstWhy [("P", psdWhy P LP), ("Q", psdWhy Q LQ)]

def hFidPrimal : Handler := fun j => do
  let n ← getNat j "n"
  let r := natOr j "r" (n + n)
  let ρ ← getQ j "rho" n n
  let σ ← getQ j "sigma" n n
  let X ← getQ j "X" n n
  let L ← getQ j "L" (n + n) r
  return answer (checkFidPrimal ρ σ X L) fun _ => firstWhy [("block", psdWhy (fidBlock ρ σ X) L)]

def hFidPrimalCong : Handler := fun j => do
  let n ← getNat j "n"
  let k ← getNat j "k"
  let r := natOr j "r" k
  let ρ ← getQ j "rho" n n
  let σ ← getQ j "sigma" n n
  let X ← getQ j "X" n n
  let B ← getQ j "B" (n + n) k
  let M ← getQ j "M" k k
  let L ← getQ j "L" k r
  return answer (checkFidPrimalCong ρ σ X B M L) fun _ =>
    if !(fidBlock ρ σ X).beq ((B.mul M).mul B.ct) then "block_ne_B_M_Bct"
    else firstWhy [("M", psdWhy M L)]

def hFidDual : Handler := fun j => do
  let n ← getNat j "n"
  let r := natOr j "r" (n + n)
  let ρ ← getQ j "rho" n n
  let σ ← getQ j "sigma" n n
  let Y ← getQ j "Y" n n
  let Z ← getQ j "Z" n n
  let L ← getQ j "L" (n + n) r
  return answer (checkFidDual ρ σ Y Z L) fun _ => firstWhy [("dual_block", psdWhy (dualBlock Y Z (-(one : EMat n n))) L)]

def hMatsPrimal : Handler := fun j => do
  let n ← getNat j "n"
  let r := natOr j "r" (n + n)
  let ρ ← getQ j "rho" n n
  let σ ← getQ j "sigma" n n
  let W ← getQ j "W" n n
  let L ← getQ j "L" (n + n) r
  return answer (checkMatsPrimal ρ σ W L) fun _ =>
    if !W.isHermitian then "W_not_hermitian" else firstWhy [("block", psdWhy (fidBlock ρ σ W) L)]

def hMatsDual : Handler := fun j => do
  let n ← getNat j "n"
  let r := natOr j "r" (n + n)
  let ρ ← getQ j "rho" n n
  let σ ← getQ j "sigma" n n
  let Y ← getQ j "Y" n n
  let Z ← getQ j "Z" n n
  let C ← getQ j "C" n n
  let L ← getQ j "L" (n + n) r
  return answer (checkMatsDual ρ σ Y Z C L) fun _ =>
    if !offDiagOk C then "C_plus_Cct_ne_minus_2" else firstWhy [("dual_block", psdWhy (dualBlock Y Z C) L)]

def hExact : Handler := fun j => do
  let n ← getNat j "n"
  let ρ ← getQ j "rho" n n
  let σ ← getQ j "sigma" n n
  return Json.mkObj [("hs", ratJson (hsDist ρ σ)), ("trprod", ratJson (trProd ρ σ)),
    ("trprod4", ratJson (trProd4 ρ σ)), ("subfidrad", ratJson (subFidRad ρ σ))]

def hHsInner : Handler := fun j => do
  let n ← getNat j "n"
  let m ← getNat j "m"
  let A ← getQ j "A" n m
  let B ← getQ j "B" n m
  let v := hsInner A B
  return Json.mkObj [("re", ratJson v.re), ("im", ratJson v.im)]

/-! ### commuting pairs, rounding, guards -/

def vecOfList (n : Nat) (l : List Rat) : Fin n → Rat := fun i => l.getD i.val 0

def optRatJson : Option Rat → Json
  | some v => ratJson v
  | none => Json.null

/-- `c13_classical {"n","p","q","slo","shi"}` (lists of `[num, den]`) → exact evaluators on the spectra and the
certified bracket of `Σ √(p_i q_i)` -/
def hClassical : Handler := fun j => do
  let n ← getNat j "n"
  let pl ← getRatList j "p"
  let ql ← getRatList j "q"
  let sl ← getRatList j "slo"
  let tl ← getRatList j "shi"
  if pl.length != n || ql.length != n || sl.length != n || tl.length != n then throw "c13_classical: length mismatch"
  let p := vecOfList n pl
  let q := vecOfList n ql
  return Json.mkObj [("prob", Json.bool (isProb p && isProb q)), ("td", ratJson (classTD p q)),
    ("hs", ratJson (classHS p q)), ("trprod", ratJson (classTrProd p q)), ("trprod4", ratJson (classTrProd4 p q)),
    ("subfidrad", ratJson (classSubFidRad p q)),
    ("flo", optRatJson (checkClassFidLower p q (vecOfList n sl))),
    ("fhi", optRatJson (checkClassFidUpper p q (vecOfList n tl)))]

/-- `c13_round {"lo","hi","d"}` → `{"r": round(x, d) for every x in [lo, hi] | null, "bures2": 2 (1 − r) | null, "rlo", "rhi"}` -/
def hRound : Handler := fun j => do
  let lo ← getRat j "lo"
  let hi ← getRat j "hi"
  let d ← getNat j "d"
  let r := roundDecEncl lo hi d
  return Json.mkObj [("r", optRatJson r), ("bures2", optRatJson (r.map fun x => 2 * (1 - x))),
    ("rlo", ratJson (roundDec lo d)), ("rhi", ratJson (roundDec hi d))]

def outcomeJson : Outcome → Json
  | .invalidDim => Json.str "invalidDim"
  | .notDensity => Json.str "notDensity"
  | .value => Json.str "value"

def densOf (j : Json) : Except String Bool := do
  let herm ← getBool j "herm"
  let me ← getRat j "mineig"
  let tr ← getRatList j "tr"
  if tr.length != 2 then throw "c13_guard: tr must be [re, im]"
  return densityGuard herm me (tr.getD 0 0) (tr.getD 1 0)

/-- `c13_guard {"family":"shape"|"density","same":bool,"a":{"herm","mineig","tr":[re,im]},"b":{…}}` → the modelled outcome -/
def hGuard : Handler := fun j => do
  let fam ← (← j.getObjVal? "family").getStr?
  let same ← getBool j "same"
  let da ← densOf (← j.getObjVal? "a")
  let db ← densOf (← j.getObjVal? "b")
  let out ← match fam with
    | "shape" => pure (guardShapeFirst same da db)
    | "density" => pure (guardDensityFirst same da db)
    | _ => throw "c13_guard: family must be shape or density"
  return Json.mkObj [("outcome", outcomeJson out), ("densA", Json.bool da), ("densB", Json.bool db)]

def handlers : List (String × Handler) :=
  [("c13_tn_lower", hTNLower), ("c13_tn_upper", hTNUpper), ("c13_fid_primal", hFidPrimal),
   ("c13_fid_primal_cong", hFidPrimalCong), ("c13_fid_dual", hFidDual), ("c13_mats_primal", hMatsPrimal),
   ("c13_mats_dual", hMatsDual), ("c13_exact", hExact), ("c13_hs_inner", hHsInner),
   ("c13_classical", hClassical), ("c13_round", hRound), ("c13_guard", hGuard)]
  ++ Toq.Driver.C13Fos.handlers   -- the program of fidelity_of_separability (`Driver/C13Fos.lean`)

end Toq.Driver.C13
