import Toq.Driver.Util
import Toq.Driver.QJson
import Toq.Model.Games
import Toq.Model.GamesSeesaw
/-! Driver front end for the see-saw part of C07 (`Toq/Model/GamesSeesaw.lean`).

* `c07_seesaw_objective` — sizes `ao, bo, ai, bi, dim`; `prob`, `pred` flat C-order lists of rationals (`[num, den]` or integers, the
  convention of `parseGame` in `Driver/C07.lean`); `A`: list of `ai*ao` matrices in the order `(x, a)`, `x` major; `B`: list of `bi*bo`
  matrices in the order `(y, b)`, `y` major; `tau`: one matrix; every matrix `{"e":k,"re":[…],"im":[…]}` (row-major integers, entries
  `(re + i·im)/2^k`, `"im"` optional), the format of `DM.json()`; optional `bob_kind` ∈ `"ndarray"` (default), `"variable"`, `"other"`: what
  Alice's builder sees in `bob_povms`; optional `f`, `g` (answer lists of a deterministic strategy) → `det_value`; optional `eq_only: true` → only
  `alice_violated` / `bob_violated` are computed and returned.
  Response: `alice_objective`, `bob_objective`, `win` (the expression `seesawWin`), `hs` (entrywise Hilbert–Schmidt form) as `[num, den]`;
  `win_im` (imaginary part of Alice's `win`, dropped by `cvxpy.real`); `alice_violated` / `bob_violated`: the equality constraints of the model
  violated at the point, as `["sumA", x]`, `["trTau"]`, `["sumB", y]`; `nonhermitian`: blocks outside the domain of a Hermitian variable as
  `["A", x, a]`, `["B", y, b]`, `["tau"]`; `alice_counts` / `bob_counts`: `[total, psd, equalities]`; `alice_constraints` / `bob_constraints`:
  the lists in emission order.
* `c07_seesaw_loop` — `iters`, `tol` (rational), `vals`: list (one entry per outer iteration, missing ones = empty) of lists of the values
  returned by Bob's solves → `value` (`[num, den]` or `null` for `-inf`), `steps` (rounds per outer iteration), `terminated`, `solves`,
  `consumed` (number of values consumed in total). -/
open Lean Toq.Games Toq.Seesaw

namespace Toq.Driver.C07Seesaw

def predOfArray (bo ai bi : Nat) (a : Array Rat) : Pred :=
  fun i0 i1 i2 i3 => a[((i0 * bo + i1) * ai + i2) * bi + i3]!

def probOfArray (bi : Nat) (a : Array Rat) : Prob := fun x y => a[x * bi + y]!

/-- one `d × d` matrix as a flat row-major array of exact entries -/
def parseCMat (d : Nat) (j : Json) : Except String (Array QI) := do
  let e := (getNat j "e").toOption.getD 0
  let re ← getIntArray j "re"
  let im := (getIntArray j "im").toOption.getD (Array.replicate (d * d) 0)
  if re.size != d * d || im.size != d * d then throw s!"matrix size mismatch: expected {d}x{d}, got {re.size}"
  return (Array.range (d * d)).map fun k => (⟨dyadic re[k]! e, dyadic im[k]! e⟩ : QI)

def cmatOfArray (d : Nat) (a : Array QI) : CMat := fun i j => if i < d ∧ j < d then a[i * d + j]! else 0

/-- a family of `nq * na` matrices, question major -/
def parseFam (d nq na : Nat) (j : Json) (key : String) : Except String (Option Fam) := do
  let arr ← (← j.getObjVal? key).getArr?
  if arr.size != nq * na then return none
  let ms ← arr.mapM (parseCMat d)
  return some (fun q a => if q < nq ∧ a < na then cmatOfArray d ms[q * na + a]! else zeroM)

def constrJson : Constr → Json
  | .psdA x a => Json.arr #[Json.str "psdA", Json.num x, Json.num a]
  | .sumA x => Json.arr #[Json.str "sumA", Json.num x]
  | .trTau => Json.arr #[Json.str "trTau"]
  | .psdTau => Json.arr #[Json.str "psdTau"]
  | .psdB y b => Json.arr #[Json.str "psdB", Json.num y, Json.num b]
  | .sumB y => Json.arr #[Json.str "sumB", Json.num y]

def countsJson (cs : List Constr) : Json :=
  let p := (cs.filter Constr.isPsd).length
  natListJson [cs.length, p, cs.length - p]

def qiZero (z : QI) : Bool := decide (z = 0)

def objectiveOp : Handler := fun j => do
  let ao ← getNat j "ao"
  let bo ← getNat j "bo"
  let ai ← getNat j "ai"
  let bi ← getNat j "bi"
  let d ← getNat j "dim"
  if ao == 0 || bo == 0 || ai == 0 || bi == 0 || d == 0 then return reject "InvalidSizes"
  let prob := (← getRatList j "prob").toArray
  let pred := (← getRatList j "pred").toArray
  if prob.size != ai * bi || pred.size != ao * bo * ai * bi then return reject "InvalidGame"
  let P := probOfArray bi prob
  let V := predOfArray bo ai bi pred
  let some A ← parseFam d ai ao j "A" | return reject "InvalidAlice"
  let some B ← parseFam d bi bo j "B" | return reject "InvalidBob"
  let tau := cmatOfArray d (← parseCMat d (← j.getObjVal? "tau"))
  let kind := (do (← j.getObjVal? "bob_kind").getStr?).toOption.getD "ndarray"
  let entry : Nat → Nat → BobEntry ←
    match kind with
    | "ndarray" => pure (fun y b => BobEntry.arr (B y b))
    | "variable" => pure (fun y b => BobEntry.var (B y b))
    | "other" => pure (fun _ _ => BobEntry.other)
    | _ => throw "bob_kind must be ndarray, variable or other"
  let ca := aliceConstraints ao ai
  let cb := bobConstraints bo bi
  let badA := ca.filter fun c => !(c.holdsEq d ao bo A B tau)
  let badB := cb.filter fun c => !(c.holdsEq d ao bo A B tau)
  if (getBool j "eq_only").toOption.getD false then
    return Json.mkObj [("alice_violated", Json.arr (badA.map constrJson).toArray), ("bob_violated", Json.arr (badB.map constrJson).toArray)]
  let winA := loop4 ai bi ao bo (aliceTerm d P V A entry)
  let mut nonH : Array Json := #[]
  for x in [0:ai] do
    for a in [0:ao] do
      if !(isHermM d (A x a)) then nonH := nonH.push (Json.arr #[Json.str "A", Json.num x, Json.num a])
  for y in [0:bi] do
    for b in [0:bo] do
      if !(isHermM d (B y b)) then nonH := nonH.push (Json.arr #[Json.str "B", Json.num y, Json.num b])
  if !(isHermM d tau) then nonH := nonH.push (Json.arr #[Json.str "tau"])
  let hs : Rat := sumN ai fun x => sumN bi fun y => sumN ao fun a => sumN bo fun b => P x y * V a b x y * hsRe d (B y b) (A x a)
  let base := [
    ("alice_objective", ratJson (aliceObjective d ao bo ai bi P V A entry)),
    ("bob_objective", ratJson (bobObjective d ao bo ai bi P V A B)),
    ("win", ratJson (seesawWin d ao bo ai bi P V A B)),
    ("hs", ratJson hs),
    ("win_im", ratJson winA.im),
    ("alice_violated", Json.arr (badA.map constrJson).toArray),
    ("bob_violated", Json.arr (badB.map constrJson).toArray),
    ("nonhermitian", Json.arr nonH),
    ("alice_counts", countsJson ca),
    ("bob_counts", countsJson cb),
    ("alice_constraints", Json.arr (ca.map constrJson).toArray),
    ("bob_constraints", Json.arr (cb.map constrJson).toArray)]
  if isNull j "f" || isNull j "g" then return Json.mkObj base
  let fl ← getNatList j "f"
  let gl ← getNatList j "g"
  if fl.length != ai || gl.length != bi || fl.any (· ≥ ao) || gl.any (· ≥ bo) then return reject "InvalidStrategy"
  return Json.mkObj (base ++ [("det_value", ratJson (detValueN ai bi P V (fnOfList fl) (fnOfList gl)))])

def optRatJson : Option Rat → Json
  | none => Json.null
  | some q => ratJson q

def loopOp : Handler := fun j => do
  let iters ← getNat j "iters"
  let tol ← getRat j "tol"
  let rows ← (← j.getObjVal? "vals").getArr?
  let vals ← rows.mapM fun r => do
    let a ← r.getArr?
    a.toList.mapM asRat
  let stream : Nat → List Rat := fun i => vals.getD i []
  let r := seesawLoop tol stream iters
  return Json.mkObj [("value", optRatJson r.value), ("steps", natListJson r.steps), ("terminated", Json.bool r.terminated),
    ("solves", Json.num r.solves), ("consumed", Json.num (consumed tol stream iters).length)]

def handlers : List (String × Handler) := [
  ("c07_seesaw_objective", objectiveOp),
  ("c07_seesaw_loop", loopOp)]

end Toq.Driver.C07Seesaw
