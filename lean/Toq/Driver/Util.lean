import Lean.Data.Json
import Toq.Core.Idx
/-! JSON helpers for the line-protocol driver (core Lean + `Lean.Data.Json`; no Mathlib). -/
open Lean

namespace Toq.Driver

abbrev Handler := Json → Except String Json

def getNat (j : Json) (k : String) : Except String Nat := do
  let v ← j.getObjVal? k
  v.getNat?

def getInt (j : Json) (k : String) : Except String Int := do
  let v ← j.getObjVal? k
  v.getInt?

def getBool (j : Json) (k : String) : Except String Bool := do
  let v ← j.getObjVal? k
  match v with
  | .bool b => pure b
  | .num n => pure (n.mantissa != 0)
  | _ => throw s!"field {k}: expected bool"

def asNatList (v : Json) : Except String (List Nat) := do
  let a ← v.getArr?
  a.toList.mapM (·.getNat?)

def asIntArray (v : Json) : Except String (Array Int) := do
  let a ← v.getArr?
  a.mapM (·.getInt?)

def getNatList (j : Json) (k : String) : Except String (List Nat) := do
  asNatList (← j.getObjVal? k)

def getIntArray (j : Json) (k : String) : Except String (Array Int) := do
  asIntArray (← j.getObjVal? k)

def isNull (j : Json) (k : String) : Bool :=
  match j.getObjVal? k with
  | .ok .null => true
  | .ok _ => false
  | .error _ => true

def natListJson (l : List Nat) : Json := Json.arr (l.map (fun (n : Nat) => Json.num n)).toArray
def intArrayJson (a : Array Int) : Json := Json.arr (a.map (fun (n : Int) => Json.num n))

/-- rejection in the small error enum -/
def reject (kind : String) : Json := Json.mkObj [("reject", Json.str kind)]

/-- flat row-major array → function with default 0 -/
def fnOfArray [Inhabited α] (a : Array α) : Nat → α := fun k => a[k]!

def matOfArray [Inhabited α] (a : Array α) (cols : Nat) : Nat → Nat → α := fun i j => a[i * cols + j]!

def arrayOfMat (rows cols : Nat) (f : Nat → Nat → α) : Array α := Id.run do
  let mut out := Array.mkEmpty (rows * cols)
  for i in [0:rows] do
    for j in [0:cols] do
      out := out.push (f i j)
  return out

def arrayOfFn (n : Nat) (f : Nat → α) : Array α := Id.run do
  let mut out := Array.mkEmpty n
  for i in [0:n] do
    out := out.push (f i)
  return out

end Toq.Driver
