import Toq.Driver.Util
import Toq.Model.Combinat
/-! Driver handlers for C18: `perm_sign`, `unique_perms`, `perfect_matchings`, symmetric / antisymmetric
projection (integer matrices scaled by `p!`), mirror models and executable reference definitions. -/
open Lean Toq.Combinat

namespace Toq.Driver.C18

def asIntList (v : Json) : Except String (List Int) := do
  let a ← v.getArr?
  a.toList.mapM (·.getInt?)

def getIntList (j : Json) (k : String) : Except String (List Int) := do
  asIntList (← j.getObjVal? k)

def intListJson (l : List Int) : Json := Json.arr (l.map (fun (n : Int) => Json.num n)).toArray

def intListListJson (l : List (List Int)) : Json := Json.arr (l.map intListJson).toArray

def ifn (l : List Int) : Nat → Int := fun k => l.getD k 0

/-- `perm_sign(perm)`: mirror value, and the reference `(-1)^inversions` -/
def hPermSign : Handler := fun j => do
  let perm ← getIntList j "perm"
  let n := perm.length
  let f := ifn perm
  if !(selValid n f) then return reject "IndexError"
  return Json.mkObj [("sign", Json.num (permSign n f)), ("inv_sign", Json.num (signInv n f)),
    ("inversions", Json.num (inversions n f : Nat))]

/-- `list(unique_perms(elements))` given `uniq = list(set(elements))` -/
def hUniquePerms : Handler := fun j => do
  let elements ← getIntList j "elements"
  let uniq ← getIntList j "uniq"
  return Json.mkObj [("perms", intListListJson (uniquePerms uniq elements))]

/-- `perfect_matchings(n)` / `perfect_matchings(list)` -/
def hPerfectMatchings : Handler := fun j => do
  if let .ok n := getNat j "n" then             -- the `int` argument form
    if n == 0 then return reject "RecursionError"
    return Json.mkObj [("rows", Json.arr ((perfectMatchingsInt n).map natListJson).toArray), ("cols", Json.num (n : Nat))]
  let objs ← getIntList j "objects"
  if objs.length == 0 then return reject "RecursionError"
  return Json.mkObj [("rows", intListListJson (perfectMatchings objs)), ("cols", Json.num (objs.length : Nat))]

/-- rows `0..N-1` (proved to be the rows of the model matrix: `Toq.Combinat.symProjRow_get` etc.) -/
def projJson (N : Nat) (row : Nat → List Int) (rank : Nat) : Json :=
  let rows := (List.range N).map row
  let tr : Int := ((List.range N).map (fun i => (rows.getD i []).getD i 0)).sum
  Json.mkObj [("shape", natListJson [N, N]), ("data", intListJson rows.flatten), ("trace", Json.num tr),
    ("rank", Json.num (rank : Nat))]   -- the proved rank (`Toq.C18.symSpec_rank` / `antiSpec_rank`): `C(d+p-1, p)` or `C(d, p)`

/-- `which`: "sym" | "antisym" (mirrors) | "sym_ref" | "antisym_ref" (reference); output scaled by `p!` -/
def hProj : Handler := fun j => do
  let d ← getNat j "dim"
  let p ← getNat j "p"
  let which ← (← j.getObjVal? "which").getStr?
  if d < 1 then return reject "InvalidDim"
  if p < 1 then return reject "InvalidPVal"
  let N := if p == 1 && (which == "sym" || which == "antisym") then d else d ^ p
  match which with
  | "sym" => return projJson N (symProjRow d p N) (binom (d + p - 1) p)
  | "antisym" => return projJson N (antisymProjRow d p N) (binom d p)
  | "sym_ref" => return projJson N (symRefRow d p N) (binom (d + p - 1) p)
  | "antisym_ref" => return projJson N (antisymRefRow d p N) (binom d p)
  | _ => throw "which"

def formJson (f : PartialForm) : Json :=
  let kind := match f with
    | .eye _ => "eye" | .zeros _ _ => "zeros" | .full _ => "full" | .orth _ _ => "orth"
  Json.mkObj [("kind", Json.str kind), ("shape", natListJson [f.shape.1, f.shape.2])]

/-- which branch `symmetric_projection` / `antisymmetric_projection(dim, p, partial)` takes and the shape it returns -/
def hForm : Handler := fun j => do
  let d ← getNat j "dim"
  let p ← getNat j "p"
  let part ← getBool j "partial"
  let which ← (← j.getObjVal? "which").getStr?
  match which with
  | "sym" =>
    if d < 1 then return reject "InvalidDim"
    if p < 1 then return reject "InvalidPVal"
    return formJson (symForm d p part)
  | "antisym" => return formJson (antisymForm d p part)
  | _ => throw "which"

/-- `list(permutations(np.arange(p)))` -/
def hPermsList : Handler := fun j => do
  let p ← getNat j "p"
  return Json.mkObj [("perms", Json.arr ((permsList p).map natListJson).toArray)]

def handlers : List (String × Handler) :=
  [("c18_perm_sign", hPermSign), ("c18_unique_perms", hUniquePerms), ("c18_perfect_matchings", hPerfectMatchings),
   ("c18_proj", hProj), ("c18_perms_list", hPermsList), ("c18_form", hForm)]

end Toq.Driver.C18
