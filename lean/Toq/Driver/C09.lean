import Toq.Driver.Util
/-! Driver handlers for C09 (stub; filled in by the owner of this property). -/
namespace Toq.Driver.C09
def handlers : List (String × Handler) := []
end Toq.Driver.C09
