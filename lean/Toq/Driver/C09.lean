import Toq.Driver.QJson
import Toq.Model.ExtGames
/-! Driver front end for C09 (extended games, hedging, cloning).

Matrices in the `QJson` dyadic encoding, rationals as `[num, den]` or an integer.  A game is
`{"d":d,"nA":..,"nB":..,"nX":..,"nY":..,"prob":[rat…] (row-major x,y),"pred":[mat…] (index ((a·nB+b)·nX+x)·nY+y)}`.

* `c09_avgop            game + {"f":[…],"g":[…]}`            → `{"mat":{"re":[rat…],"im":[rat…]}}` (`avgOperator`)
* `c09_unent_lower      game + {"f","g","v":mat d×1}`        → `{"ok":rat}` Rayleigh quotient (spec: answer functions)
* `c09_unent_upper      game + {"c":rat,"Ls":[mat…]}`        → `{"ok":true}` (all function pairs, order `i·nB^nY + j`)
* `c09_unent_const_lower game + {"a","b","v"}`, `c09_unent_const_upper game + {"c","Ls"}` (mirror of the code)
* `c09_hedge_primal   {"a","b","Q","X","L"}`, `c09_hedge_max_dual {"a","b","Q","Y","L"}`, `c09_hedge_min_dual …`
* `c09_hedge2_*` (a = b = 4, operators in toqito's order `Y₁X₁Y₂X₂`), `c09_clone2_*` (a = 16, b = 4, order `Y₁Z₁X₁Y₂Z₂X₂`)
* `c09_ptr1`, `c09_hedge2_ptr1`, `c09_clone2_ptr1` `{"X"}` → `Tr_1` (after reindexing); `c09_hedge2_reindex`,
  `c09_clone2_reindex` `{"M"}`; `c09_kron_iy {"a","b","Y"}` → `1_a ⊗ Y` (tie checks of the index conventions)
* `c09_clone_q {"m","states":[mat m×1…],"probs":[rat…]}`     → the operator `Q` of `optimal_clone`
* `c09_rep_game         game + {"reps":n}`                  → the game stored by `ExtendedNonlocalGame(prob, pred, reps)` (`repGame`)
* `c09_index_lists {"n"}` → `hedgeSys`, `hedgeDim`, `hedgePerm`, `cloneSys`, `clonePerm` (the lists the code builds for `n` repetitions)
* `c09_product2 {"a","b","Q","f1":{Q,X,L,Y,Ld,LQ},"f2":{…}}` → `{"lo","hi",…}`: two-fold bracket by the product theorems
* `c09_kron {"n1","n2","A","B"}`                              → `np.kron(A, B)` (`kronE`)

The verdict is always the one of the verified checker of `Toq.Model.ExtGames`; diagnostics only word a rejection. -/
open Lean Toq.ExtGames EMat

namespace Toq.Driver.C09

def firstFail (k : Nat) (p : Fin k → Bool) : Option Nat :=
  ((List.finRange k).find? fun i => !p i).map (·.val)

/-- why `psdCert A L` fails (`none` when it holds) -/
def psdWhy {n k : Nat} (A : EMat n n) (L : EMat n k) : Option String :=
  if !A.isHermitian then some "not_hermitian"
  else
    let R := A - L.mul L.ct
    if !R.isHermitian then some "residual_not_hermitian"
    else
      match firstFail n fun i =>
          decide (sumFinQ n (fun j => if j = i then 0 else (R.get i j).abs1) ≤ (R.get i i).re) with
      | some i => some s!"residual_not_diag_dominant_row_{i}"
      | none => if psdCert A L then none else some "psdCert_failed"

def answer (r : Option Rat) (why : Unit → String) : Json :=
  match r with
  | some v => Json.mkObj [("ok", ratJson v)]
  | none => reject (why ())

def answerB (r : Bool) (why : Unit → String) : Json :=
  if r then Json.mkObj [("ok", Json.bool true)] else reject (why ())

def matJson {n m : Nat} (A : EMat n m) : Json :=
  let es := (List.finRange n).flatMap fun i => (List.finRange m).map fun j => A.get i j
  Json.mkObj [("re", Json.arr (es.map fun e => ratJson e.re).toArray),
              ("im", Json.arr (es.map fun e => ratJson e.im).toArray)]

def parseGame (j : Json) : Except String ((d : Nat) × Game d) := do
  let d ← getNat j "d"
  let nA ← getNat j "nA"
  let nB ← getNat j "nB"
  let nX ← getNat j "nX"
  let nY ← getNat j "nY"
  let prob ← getRatList j "prob"
  let pred ← getEMatList j "pred" d d
  if prob.length != nX * nY then throw s!"prob: expected {nX * nY} entries"
  if pred.length != nA * nB * nX * nY then throw s!"pred: expected {nA * nB * nX * nY} matrices"
  let probA := prob.toArray
  let predA := pred.toArray
  return ⟨d, { nA := nA, nB := nB, nX := nX, nY := nY,
               prob := fun x y => if x < nX ∧ y < nY then probA.getD (x * nY + y) 0 else 0,
               pred := fun a b x y =>
                 if a < nA ∧ b < nB ∧ x < nX ∧ y < nY then predA.getD (((a * nB + b) * nX + x) * nY + y) zero
                 else zero }⟩

def hAvgOp : Handler := fun j => do
  let ⟨_, G⟩ ← parseGame j
  let f ← getNatList j "f"
  let g ← getNatList j "g"
  return Json.mkObj [("mat", matJson (avgOperator G (fnOfList f) (fnOfList g)))]

def hUnentLower : Handler := fun j => do
  let ⟨d, G⟩ ← parseGame j
  let f ← getNatList j "f"
  let g ← getNatList j "g"
  let v ← getEMat j "v" d 1
  return answer (checkUnentLower G f g v) fun _ =>
    if f.length != G.nX || g.length != G.nY then "function_length"
    else if !fnValid G.nA G.nX (fnOfList f) || !fnValid G.nB G.nY (fnOfList g) then "answer_out_of_range"
    else if !(avgOperator G (fnOfList f) (fnOfList g)).isHermitian then "operator_not_hermitian"
    else "zero_vector"

def hUnentUpper : Handler := fun j => do
  let ⟨d, G⟩ ← parseGame j
  let c ← getRat j "c"
  let Ls ← getEMatList j "Ls" d d
  let LA := Ls.toArray
  let nf := numFns G.nA G.nX
  let ng := numFns G.nB G.nY
  if LA.size != nf * ng then return reject s!"Ls_length_{LA.size}_expected_{nf * ng}"
  let LsF : Nat → EMat d d := fun i => LA.getD i zero
  return answerB (checkUnentUpper G c LsF) fun _ =>
    match (List.range (nf * ng)).findSome? fun t =>
        (psdWhy (scalar c - avgOperator G (fnOfIdx G.nA G.nX (t / ng)) (fnOfIdx G.nB G.nY (t % ng))) (LsF t)).map
          fun s => s!"pair_{t}_{s}" with
    | some s => s
    | none => "rejected"

def hUnentConstLower : Handler := fun j => do
  let ⟨d, G⟩ ← parseGame j
  let a ← getNat j "a"
  let b ← getNat j "b"
  let v ← getEMat j "v" d 1
  return answer (checkUnentConstLower G a b v) fun _ =>
    if a ≥ G.nA || b ≥ G.nB then "answer_out_of_range"
    else if !(constOperator G a b).isHermitian then "operator_not_hermitian" else "zero_vector"

def hUnentConstUpper : Handler := fun j => do
  let ⟨d, G⟩ ← parseGame j
  let c ← getRat j "c"
  let Ls ← getEMatList j "Ls" d d
  let LA := Ls.toArray
  if LA.size != G.nA * G.nB then return reject s!"Ls_length_{LA.size}_expected_{G.nA * G.nB}"
  let LsF : Nat → EMat d d := fun i => LA.getD i zero
  return answerB (checkUnentConstUpper G c LsF) fun _ =>
    match (List.range (G.nA * G.nB)).findSome? fun t =>
        (psdWhy (scalar c - constOperator G (t / G.nB) (t % G.nB)) (LsF t)).map fun s => s!"pair_{t}_{s}" with
    | some s => s
    | none => "rejected"

/-! hedging / cloning programs; `σ` reorders the tensor factors (identity for one repetition) -/

def hedgePrimal (a b : Nat) (σ : Option (Fin (a * b) → Fin (a * b))) : Handler := fun j => do
  let Q0 ← getEMat j "Q" (a * b) (a * b)
  let X0 ← getEMat j "X" (a * b) (a * b)
  let L ← getEMat j "L" (a * b) (a * b)
  let (Q, X) := match σ with
    | some s => (reindex s Q0, reindex s X0)
    | none => (Q0, X0)
  if let some s := σ then
    if !isSurj s then return reject "sigma_not_a_permutation"
  return answer (checkHedgePrimal a b Q X L) fun _ =>
    if !Q.isHermitian then "Q_not_hermitian"
    else match psdWhy X L with
      | some s => s!"X_{s}"
      | none => if !(ptr1 a b X).beq one then "partial_trace_not_identity" else "rejected"

def hedgeDual (isMax : Bool) (a b : Nat) (σ : Option (Fin (a * b) → Fin (a * b))) : Handler := fun j => do
  let Q0 ← getEMat j "Q" (a * b) (a * b)
  let Y ← getEMat j "Y" b b
  let L ← getEMat j "L" (a * b) (a * b)
  let Q := match σ with
    | some s => reindex s Q0
    | none => Q0
  if let some s := σ then
    if !isSurj s then return reject "sigma_not_a_permutation"
  let r := if isMax then checkHedgeMaxDual a b Q Y L else checkHedgeMinDual a b Q Y L
  return answer r fun _ =>
    if !Y.isHermitian then "Y_not_hermitian"
    else match psdWhy (if isMax then kronIY a Y - Q else Q - kronIY a Y) L with
      | some s => s!"slack_{s}"
      | none => "rejected"

def withAB (f : (a b : Nat) → Handler) : Handler := fun j => do
  let a ← getNat j "a"
  let b ← getNat j "b"
  f a b j

/-- tie checks of the index conventions: `Tr_1 (reindex σ X)`, `reindex σ M`, `1_a ⊗ Y` -/
def hPtr1 (a b : Nat) (σ : Option (Fin (a * b) → Fin (a * b))) : Handler := fun j => do
  let X0 ← getEMat j "X" (a * b) (a * b)
  let X := match σ with
    | some s => reindex s X0
    | none => X0
  return Json.mkObj [("mat", matJson (ptr1 a b X))]

def hReindex (N : Nat) (σ : Fin N → Fin N) : Handler := fun j => do
  let M ← getEMat j "M" N N
  return Json.mkObj [("mat", matJson (reindex σ M))]

def hKronIY : Handler := fun j => do
  let a ← getNat j "a"
  let b ← getNat j "b"
  let Y ← getEMat j "Y" b b
  return Json.mkObj [("mat", matJson (kronIY a Y))]

def hCloneQ : Handler := fun j => do
  let m ← getNat j "m"
  let states ← getEMatList j "states" m 1
  let probs ← getRatList j "probs"
  if states.length != probs.length then return reject "length_mismatch"
  return Json.mkObj [("mat", matJson (cloneQ states probs))]

/-- `ExtendedNonlocalGame(prob_mat, pred_mat, reps)`: the stored product game (`repGame`), same JSON layout as the input game -/
def gameJson {D : Nat} (G : Game D) : Json :=
  let probs := (List.range G.nX).flatMap fun x => (List.range G.nY).map fun y => ratJson (G.prob x y)
  let preds := (List.range G.nA).flatMap fun a => (List.range G.nB).flatMap fun b =>
    (List.range G.nX).flatMap fun x => (List.range G.nY).map fun y => matJson (G.pred a b x y)
  Json.mkObj [("d", Json.num D), ("nA", Json.num G.nA), ("nB", Json.num G.nB), ("nX", Json.num G.nX), ("nY", Json.num G.nY),
              ("prob", Json.arr probs.toArray), ("pred", Json.arr preds.toArray)]

def hRepGame : Handler := fun j => do
  let ⟨_, G⟩ ← parseGame j
  let reps ← getNat j "reps"
  if reps == 0 then return reject "reps_zero"
  let ⟨_, H⟩ := repGame G (reps - 1)
  if H.nA * H.nB * H.nX * H.nY > 5000 then return reject "too_large"
  return gameJson H

/-- `np.kron(A, B)` of two square matrices (`kronE`) -/
def hKron : Handler := fun j => do
  let n1 ← getNat j "n1"
  let n2 ← getNat j "n2"
  let A ← getEMat j "A" n1 n1
  let B ← getEMat j "B" n2 n2
  return Json.mkObj [("mat", matJson (kronE A B))]

/-- one factor of a two-fold product instance: `Q` certified PSD (`LQ`), primal `X` (`L`), dual `Y` (`Ld`) -/
def factor2 (a b : Nat) (f : Json) : Except String (Sum String (EMat (a * b) (a * b) × Rat × Rat)) := do
  let Q ← getEMat f "Q" (a * b) (a * b)
  let X ← getEMat f "X" (a * b) (a * b)
  let L ← getEMat f "L" (a * b) (a * b)
  let Y ← getEMat f "Y" b b
  let Ld ← getEMat f "Ld" (a * b) (a * b)
  let LQ ← getEMat f "LQ" (a * b) (a * b)
  if !psdCert Q LQ then
    return .inl ("Q_" ++ (psdWhy Q LQ).getD "psdCert_failed")
  match checkHedgeMaxPrimal a b Q X L, checkHedgeMaxDual a b Q Y Ld with
  | some v, some w => return .inr (Q, v, w)
  | none, _ => return .inl (match psdWhy X L with
      | some s => s!"X_{s}"
      | none => if !Q.isHermitian then "Q_not_hermitian" else "partial_trace_not_identity")
  | _, none => return .inl (if !Y.isHermitian then "Y_not_hermitian" else
      match psdWhy (kronIY a Y - Q) Ld with
      | some s => s!"slack_{s}"
      | none => "rejected")

/-- two repetitions through the product theorems (`hedge2_product_bracket` for `a = b = 2`, `clone2_product_bracket` for `a = 4`,
    `b = 2`): both factors certified by the single-shot checkers, `Q` (toqito's array) must be `np.kron(Q₁, Q₂)` exactly;
    returns the bracket `[v₁ v₂, w₁ w₂]` of the two-fold maximum -/
def hProduct2 : Handler := fun j => do
  let a ← getNat j "a"
  let b ← getNat j "b"
  let Q ← getEMat j "Q" ((a * b) * (a * b)) ((a * b) * (a * b))
  let f1 ← factor2 a b (← j.getObjVal? "f1")
  let f2 ← factor2 a b (← j.getObjVal? "f2")
  match f1, f2 with
  | .inl s, _ => return reject s!"factor1_{s}"
  | _, .inl s => return reject s!"factor2_{s}"
  | .inr (Q1, v1, w1), .inr (Q2, v2, w2) =>
    if !(kronE Q1 Q2).beq Q then return reject "Q_is_not_kron_Q1_Q2"
    return Json.mkObj [("lo", ratJson (v1 * v2)), ("hi", ratJson (w1 * w2)),
      ("v", Json.arr #[ratJson v1, ratJson v2]), ("w", Json.arr #[ratJson w1, ratJson w2])]

/-- the index lists of `QuantumHedging.__init__` / `optimal_clone` for `n` repetitions -/
def hIndexLists : Handler := fun j => do
  let n ← getNat j "n"
  return Json.mkObj [("hedge_sys", natListJson (hedgeSys n)), ("hedge_dim", natListJson (hedgeDim n)),
    ("hedge_perm", natListJson (hedgePerm n)), ("clone_sys", natListJson (cloneSys n)), ("clone_perm", natListJson (clonePerm n))]

def handlers : List (String × Handler) :=
  [("c09_avgop", hAvgOp), ("c09_unent_lower", hUnentLower), ("c09_unent_upper", hUnentUpper),
   ("c09_unent_const_lower", hUnentConstLower), ("c09_unent_const_upper", hUnentConstUpper),
   ("c09_hedge_primal", withAB fun a b => hedgePrimal a b none),
   ("c09_hedge_max_dual", withAB fun a b => hedgeDual true a b none),
   ("c09_hedge_min_dual", withAB fun a b => hedgeDual false a b none),
   ("c09_hedge2_primal", hedgePrimal 4 4 (some hedgeSigma2)),
   ("c09_hedge2_max_dual", hedgeDual true 4 4 (some hedgeSigma2)),
   ("c09_hedge2_min_dual", hedgeDual false 4 4 (some hedgeSigma2)),
   ("c09_clone2_primal", hedgePrimal 16 4 (some cloneSigma2)),
   ("c09_clone2_max_dual", hedgeDual true 16 4 (some cloneSigma2)),
   ("c09_clone_q", hCloneQ),
   ("c09_ptr1", withAB fun a b => hPtr1 a b none), ("c09_hedge2_ptr1", hPtr1 4 4 (some hedgeSigma2)),
   ("c09_clone2_ptr1", hPtr1 16 4 (some cloneSigma2)), ("c09_hedge2_reindex", hReindex (4 * 4) hedgeSigma2),
   ("c09_clone2_reindex", hReindex (16 * 4) cloneSigma2), ("c09_kron_iy", hKronIY),
   ("c09_rep_game", hRepGame), ("c09_kron", hKron), ("c09_index_lists", hIndexLists),
   ("c09_product2", hProduct2)]

end Toq.Driver.C09
