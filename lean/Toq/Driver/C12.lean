import Toq.Driver.C10
import Toq.Model.PPTDisc
import Toq.Model.PPTDiscHier
/-! Driver front end for C12 (PPT state-discrimination certificate checkers).

Ops (matrices in the `QJson` dyadic encoding, rationals as `[num, den]` or an integer; all matrices are
`dA·dB × dA·dB`; `sys` = transposed party, `0` = first, `1` = second):

* `c12_ppt_primal {"dA":·,"dB":·,"sys":·,"rho":[mat…],"p":[rat…],"M":[mat…],"LM":[mat…],"LT":[mat…]}`
* `c12_ppt_dual   {"dA":·,"dB":·,"sys":·,"rho":[mat…],"p":[rat…],"Y":mat,"Q":[mat…],"LQ":[mat…],"LS":[mat…]}`
* `c12_ptranspose {"dA":·,"dB":·,"sys":·,"X":mat}` → `{"rows":[[…]…]}`: not needed by the checkers; returns the
  model's partial transpose entrywise as rationals `[[re_num,re_den,im_num,im_den]…]` (row-major) so that the harness
  can compare it with `toqito.channels.partial_transpose` / `picos.partial_transpose` on labelled inputs.

* `c12_ppt_program {"dA","dB","sys","rho","p","form":"primal"|"dual"|"unamb", point…}`: the program `ppt_distinguishability` builds for
  the form (`Toq.PPTDisc.primalPsdExprs` / `primalEqResidual` / `dualPsdExprs` / `unambOverlap`), evaluated at the point: `psd` = every
  operator a constraint requires to be PSD (order of the code's constraints), `eq` = matrix residuals that must vanish, `zero` = scalar
  residuals (`[re_num, re_den, im_num, im_den]`), `objective`, and `check` = verdict of the verified checker when witnesses are supplied
  (point keys: primal/unamb `M`, `LM`, `LT`; dual `Y`, `Q`, `LQ`, `LS`; witnesses may be null).

* `c12_dispatch {"primal_dual":str,"strategy":str}` → `{"program":"primal","extra":bool,"zero":bool}` | `{"program":"dual"}` | `{"reject":"ValueError"}`
  (`Toq.PPTDisc.pptDispatch`)
* `c12_symext_args {"dim_xy":n,"level":n,"dim":null|n|[a,b]}` → `{"dx","dy","size","dim_list","sys_list","pt_list"}` | `{"reject":…}`
  (`Toq.PPTDisc.symExtDims` and the lists built from it)

* `c12_symext_exprs {"dx","dy","level","meas_re","meas_im","x_re","x_im"}` (flat row-major integer arrays): the constraint expressions
  `symmetric_extension_hierarchy` builds for one state (`Toq.PPTDisc.symExtExprs`) at the integer point `(meas, x)`:
  `{"trace":[re,im],"sym":[re,im],"sym_scale":(level!)²,"pts":[[re,im]…]}`

Answer `{"ok":[num,den]}` (the exact objective value returned by the verified checker) or
`{"reject":"<first failed condition>"}`.  The verdict is always the one of the verified checker of
`Toq.Model.PPTDisc`; the diagnostic only words a rejection by re-evaluating the same named conditions. -/
open Lean Toq.Discrim Toq.PPTDisc EMat

namespace Toq.Driver.C12
open Toq.Driver.C10 (firstPsdFail lenWhy answer)

def hPrimal : Handler := fun j => do
  let dA ← getNat j "dA"
  let dB ← getNat j "dB"
  let sys ← getNat j "sys"
  let rho ← getEMatList j "rho" (dA * dB) (dA * dB)
  let p ← getRatList j "p"
  let M ← getEMatList j "M" (dA * dB) (dA * dB)
  let LM ← getEMatList j "LM" (dA * dB) (dA * dB)
  let LT ← getEMatList j "LT" (dA * dB) (dA * dB)
  let ens : Ensemble (dA * dB) := ⟨rho, p⟩
  let k := ens.size
  return answer (checkPPTPrimal sys ens M LM LT) fun _ =>
    match lenWhy k [("p", p.length), ("M", M.length), ("LM", LM.length), ("LT", LT.length)] with
    | some s => s
    | none =>
      match firstPsdFail k (fun i => matAt M i) (fun i => matAt LM i) with
      | some (i, s) => s!"M[{i}]_{s}"
      | none =>
        if !povmSumOk k (fun i => matAt M i) then "sum_M_not_identity"
        else
          match firstPsdFail k (fun i => pT sys (matAt M i)) (fun i => matAt LT i) with
          | some (i, s) => s!"pT_M[{i}]_{s}"
          | none => "rejected"

def hDual : Handler := fun j => do
  let dA ← getNat j "dA"
  let dB ← getNat j "dB"
  let sys ← getNat j "sys"
  let rho ← getEMatList j "rho" (dA * dB) (dA * dB)
  let p ← getRatList j "p"
  let Y ← getEMat j "Y" (dA * dB) (dA * dB)
  let Q ← getEMatList j "Q" (dA * dB) (dA * dB)
  let LQ ← getEMatList j "LQ" (dA * dB) (dA * dB)
  let LS ← getEMatList j "LS" (dA * dB) (dA * dB)
  let ens : Ensemble (dA * dB) := ⟨rho, p⟩
  let k := ens.size
  return answer (checkPPTDual sys ens Y Q LQ LS) fun _ =>
    match lenWhy k [("p", p.length), ("Q", Q.length), ("LQ", LQ.length), ("LS", LS.length)] with
    | some s => s
    | none =>
      if !Y.isHermitian then "Y_not_hermitian"
      else
        match firstPsdFail k (fun i => matAt Q i) (fun i => matAt LQ i) with
        | some (i, s) => s!"Q[{i}]_{s}"
        | none =>
          match firstPsdFail k (fun i => Y - smul (ens.prob i) (ens.state i) - pT sys (matAt Q i))
              (fun i => matAt LS i) with
          | some (i, s) => s!"slack[{i}]_{s}"
          | none => "rejected"

def qiJson (a : QI) : Json :=
  Json.arr #[Json.num a.re.num, Json.num (a.re.den : Nat), Json.num a.im.num, Json.num (a.im.den : Nat)]

def hPTranspose : Handler := fun j => do
  let dA ← getNat j "dA"
  let dB ← getNat j "dB"
  let sys ← getNat j "sys"
  let X ← getEMat j "X" (dA * dB) (dA * dB)
  let Z := pT sys X
  return Json.mkObj [("rows", Json.arr (Z.toRows.map fun r => Json.arr (r.map qiJson)))]

def ematJson {n m : Nat} (A : EMat n m) : Json :=
  let cells := (List.finRange n).flatMap fun i => (List.finRange m).map fun c => A.get i c
  Json.mkObj [("re", Json.arr (cells.map fun z => ratJson z.re).toArray),
    ("im", Json.arr (cells.map fun z => ratJson z.im).toArray)]

def optEMatList (j : Json) (key : String) (n m : Nat) : Except String (List (EMat n m)) :=
  if isNull j key then pure [] else getEMatList j key n m

def checkJson (r : Option Rat) : Json :=
  match r with
  | some v => Json.mkObj [("ok", ratJson v)]
  | none => reject "rejected"

def hProgram : Handler := fun j => do
  let dA ← getNat j "dA"
  let dB ← getNat j "dB"
  let sys ← getNat j "sys"
  let rho ← getEMatList j "rho" (dA * dB) (dA * dB)
  let p ← getRatList j "p"
  let form ← (← j.getObjVal? "form").getStr?
  let ens : Ensemble (dA * dB) := ⟨rho, p⟩
  let k := ens.size
  let ρ : Fin k → EMat (dA * dB) (dA * dB) := fun i => ens.state i
  let pr : Fin k → Rat := fun i => ens.prob i
  let mats (l : List (EMat (dA * dB) (dA * dB))) : Json := Json.arr (l.map ematJson).toArray
  match form with
  | "primal" =>
    let M ← getEMatList j "M" (dA * dB) (dA * dB)
    let LM ← optEMatList j "LM" (dA * dB) (dA * dB)
    let LT ← optEMatList j "LT" (dA * dB) (dA * dB)
    let Mf : Fin k → EMat (dA * dB) (dA * dB) := fun i => matAt M i
    return Json.mkObj [("psd", mats (primalPsdExprs sys k Mf)), ("eq", mats [primalEqResidual k Mf]),
      ("zero", Json.arr #[]), ("objective", ratJson (minErrValueFn k ρ pr Mf)),
      ("check", checkJson (checkPPTPrimal sys ens M LM LT))]
  | "dual" =>
    let Y ← getEMat j "Y" (dA * dB) (dA * dB)
    let Q ← getEMatList j "Q" (dA * dB) (dA * dB)
    let LQ ← optEMatList j "LQ" (dA * dB) (dA * dB)
    let LS ← optEMatList j "LS" (dA * dB) (dA * dB)
    let Qf : Fin k → EMat (dA * dB) (dA * dB) := fun i => matAt Q i
    return Json.mkObj [("psd", mats (dualPsdExprs sys k ρ pr Y Qf)), ("eq", mats []),
      ("zero", Json.arr #[]), ("objective", ratJson Y.trace.re),
      ("check", checkJson (checkPPTDual sys ens Y Q LQ LS))]
  | "unamb" =>
    let M ← getEMatList j "M" (dA * dB) (dA * dB)
    let LM ← optEMatList j "LM" (dA * dB) (dA * dB)
    let LT ← optEMatList j "LT" (dA * dB) (dA * dB)
    let Mf : Fin (k + 1) → EMat (dA * dB) (dA * dB) := fun i => matAt M i
    let zs : List Json := (List.finRange k).flatMap fun i => ((List.finRange k).filter fun j' => j' ≠ i).map fun j' =>
      qiJson (unambOverlap k ρ pr Mf i j')
    return Json.mkObj [("psd", mats (primalPsdExprs sys (k + 1) Mf)), ("eq", mats [primalEqResidual (k + 1) Mf]),
      ("zero", Json.arr zs.toArray), ("objective", ratJson (pptUnambValueFn k ρ pr Mf)),
      ("check", checkJson (checkPPTUnambPrimal sys ens M LM LT))]
  | _ => return reject "unknown_form"

def hDispatch : Handler := fun j => do
  let pd ← (← j.getObjVal? "primal_dual").getStr?
  let st ← (← j.getObjVal? "strategy").getStr?
  match pptDispatch pd st with
  | .ok (.primal extra zero) =>
    return Json.mkObj [("program", Json.str "primal"), ("extra", Json.bool extra), ("zero", Json.bool zero)]
  | .ok .dual => return Json.mkObj [("program", Json.str "dual")]
  | .error e => return reject e

def hSymExtArgs : Handler := fun j => do
  let dimXY ← getNat j "dim_xy"
  let level ← getNat j "level"
  let dim : HDimArg ←
    if isNull j "dim" then pure HDimArg.omitted
    else match (← j.getObjVal? "dim") with
      | .arr a =>
        if a.size != 2 then throw "dim: expected [dx, dy]"
        pure (HDimArg.pair (← a[0]!.getNat?) (← a[1]!.getNat?))
      | v => pure (HDimArg.scalar (← v.getNat?))
  match symExtDims dimXY dim with
  | .error e => return reject e
  | .ok (dx, dy) =>
    return Json.mkObj [("dx", Json.num (dx : Nat)), ("dy", Json.num (dy : Nat)),
      ("size", Json.num (symExtSize dx dy level : Nat)), ("dim_list", natListJson (symExtDimList dx dy level)),
      ("sys_list", natListJson (symExtSysList level)), ("pt_list", natListJson (symExtPTList level))]

def hSymExtExprs : Handler := fun j => do
  let dx ← getNat j "dx"
  let dy ← getNat j "dy"
  let level ← getNat j "level"
  let D := dx * dy
  let N := symExtSize dx dy level
  let mre ← getIntArray j "meas_re"
  let mim ← getIntArray j "meas_im"
  let xre ← getIntArray j "x_re"
  let xim ← getIntArray j "x_im"
  if mre.size != D * D || mim.size != D * D || xre.size != N * N || xim.size != N * N then
    return reject "InvalidShape"
  let er := symExtExprs dx dy level (matOfArray mre D) (matOfArray xre N)
  let ei := symExtExprs dx dy level (matOfArray mim D) (matOfArray xim N)
  let pair (n : Nat) (a b : Nat → Nat → Int) : Json :=
    Json.arr #[intArrayJson (arrayOfMat n n a), intArrayJson (arrayOfMat n n b)]
  return Json.mkObj [("trace", pair D er.traceRes ei.traceRes), ("sym", pair N er.symRes ei.symRes),
    ("sym_scale", Json.num ((factN level * factN level : Nat))),
    ("pts", Json.arr ((er.pts.zip ei.pts).map fun ab => pair N ab.1 ab.2).toArray)]

def handlers : List (String × Handler) :=
  [("c12_ppt_primal", hPrimal), ("c12_ppt_dual", hDual), ("c12_ptranspose", hPTranspose), ("c12_ppt_program", hProgram),
   ("c12_dispatch", hDispatch), ("c12_symext_args", hSymExtArgs), ("c12_symext_exprs", hSymExtExprs)]

end Toq.Driver.C12
