import Toq.Driver.C10
import Toq.Model.PPTDisc
/-! Driver front end for C12 (PPT state-discrimination certificate checkers).

Ops (matrices in the `QJson` dyadic encoding, rationals as `[num, den]` or an integer; all matrices are
`dA·dB × dA·dB`; `sys` = transposed party, `0` = first, `1` = second):

* `c12_ppt_primal {"dA":·,"dB":·,"sys":·,"rho":[mat…],"p":[rat…],"M":[mat…],"LM":[mat…],"LT":[mat…]}`
* `c12_ppt_dual   {"dA":·,"dB":·,"sys":·,"rho":[mat…],"p":[rat…],"Y":mat,"Q":[mat…],"LQ":[mat…],"LS":[mat…]}`
* `c12_ptranspose {"dA":·,"dB":·,"sys":·,"X":mat}` → `{"rows":[[…]…]}`: not needed by the checkers; returns the
  model's partial transpose entrywise as rationals `[[re_num,re_den,im_num,im_den]…]` (row-major) so that the harness
  can compare it with `toqito.channels.partial_transpose` / `picos.partial_transpose` on labelled inputs.

Answer `{"ok":[num,den]}` (the exact objective value returned by the verified checker) or
`{"reject":"<first failed condition>"}`.  The verdict is always the one of the verified checker of
`Toq.Model.PPTDisc`; the diagnostic only words a rejection by re-evaluating the same named conditions. -/
open Lean Toq.Discrim Toq.PPTDisc EMat

namespace Toq.Driver.C12
open Toq.Driver.C10 (firstPsdFail lenWhy answer)

def hPrimal : Handler := fun j => do
  let dA ← getNat j "dA"
  let dB ← getNat j "dB"
  let sys ← getNat j "sys"
  let rho ← getEMatList j "rho" (dA * dB) (dA * dB)
  let p ← getRatList j "p"
  let M ← getEMatList j "M" (dA * dB) (dA * dB)
  let LM ← getEMatList j "LM" (dA * dB) (dA * dB)
  let LT ← getEMatList j "LT" (dA * dB) (dA * dB)
  let ens : Ensemble (dA * dB) := ⟨rho, p⟩
  let k := ens.size
  return answer (checkPPTPrimal sys ens M LM LT) fun _ =>
    match lenWhy k [("p", p.length), ("M", M.length), ("LM", LM.length), ("LT", LT.length)] with
    | some s => s
    | none =>
      match firstPsdFail k (fun i => matAt M i) (fun i => matAt LM i) with
      | some (i, s) => s!"M[{i}]_{s}"
      | none =>
        if !povmSumOk k (fun i => matAt M i) then "sum_M_not_identity"
        else
          match firstPsdFail k (fun i => pT sys (matAt M i)) (fun i => matAt LT i) with
          | some (i, s) => s!"pT_M[{i}]_{s}"
          | none => "rejected"

def hDual : Handler := fun j => do
  let dA ← getNat j "dA"
  let dB ← getNat j "dB"
  let sys ← getNat j "sys"
  let rho ← getEMatList j "rho" (dA * dB) (dA * dB)
  let p ← getRatList j "p"
  let Y ← getEMat j "Y" (dA * dB) (dA * dB)
  let Q ← getEMatList j "Q" (dA * dB) (dA * dB)
  let LQ ← getEMatList j "LQ" (dA * dB) (dA * dB)
  let LS ← getEMatList j "LS" (dA * dB) (dA * dB)
  let ens : Ensemble (dA * dB) := ⟨rho, p⟩
  let k := ens.size
  return answer (checkPPTDual sys ens Y Q LQ LS) fun _ =>
    match lenWhy k [("p", p.length), ("Q", Q.length), ("LQ", LQ.length), ("LS", LS.length)] with
    | some s => s
    | none =>
      if !Y.isHermitian then "Y_not_hermitian"
      else
        match firstPsdFail k (fun i => matAt Q i) (fun i => matAt LQ i) with
        | some (i, s) => s!"Q[{i}]_{s}"
        | none =>
          match firstPsdFail k (fun i => Y - smul (ens.prob i) (ens.state i) - pT sys (matAt Q i))
              (fun i => matAt LS i) with
          | some (i, s) => s!"slack[{i}]_{s}"
          | none => "rejected"

def qiJson (a : QI) : Json :=
  Json.arr #[Json.num a.re.num, Json.num (a.re.den : Nat), Json.num a.im.num, Json.num (a.im.den : Nat)]

def hPTranspose : Handler := fun j => do
  let dA ← getNat j "dA"
  let dB ← getNat j "dB"
  let sys ← getNat j "sys"
  let X ← getEMat j "X" (dA * dB) (dA * dB)
  let Z := pT sys X
  return Json.mkObj [("rows", Json.arr (Z.toRows.map fun r => Json.arr (r.map qiJson)))]

def handlers : List (String × Handler) :=
  [("c12_ppt_primal", hPrimal), ("c12_ppt_dual", hDual), ("c12_ptranspose", hPTranspose)]

end Toq.Driver.C12
