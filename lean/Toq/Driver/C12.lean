import Toq.Driver.Util
/-! Driver handlers for C12 (stub; filled in by the owner of this property). -/
namespace Toq.Driver.C12
def handlers : List (String × Handler) := []
end Toq.Driver.C12
