import Toq.Driver.Util
import Toq.Driver.QJson
import Toq.Model.Rand
import Toq.Model.RandDraws
import Toq.Model.RandPost
import Toq.Core.Scalar
/-! Driver handlers for C19: the seeding state machine on a symbolic world (predicted equality pattern of a call
history), the Schmidt-rank construction of `random_state_vector` on Gaussian integers, the axis layout of `random_povm`. -/
open Lean Toq.Rand

namespace Toq.Driver.C19

/-- one operation `[tag, g, a, s]`: 0 seeded(g,a,s) · 1 unseeded(g,a) · 2 np.random.seed(s) · 3 np.random.rand() ·
4 default_rng(s).random() · 5 default_rng().random() -/
def parseOp (v : Json) : Except String (Op Nat Nat) := do
  let l ← asNatList v
  match l with
  | [0, g, a, s] => return .seeded g a s
  | [1, g, a, _] => return .unseeded g a
  | [2, _, _, s] => return .npSeed s
  | [3, _, _, _] => return .globalDraw
  | [4, _, _, s] => return .rngDraw s
  | [5, _, _, _] => return .rngDrawFresh
  | _ => throw "op: expected [tag,g,a,s] with tag 0..5"

def optNatJson : Option Nat → Json
  | none => Json.num (-1 : Int)
  | some n => Json.num n

/-- run the history from the initial symbolic world; `classes[i]` = index of the first operation whose output must be
bitwise equal to that of operation `i` (−1: no output).  `drop` ∈ {"none","seeded","nonglobal"} first deletes the seeded calls /
everything but the global-generator operations. -/
def hHistory : Handler := fun j => do
  let opsJ ← (← j.getObjVal? "ops").getArr?
  let ops ← opsJ.toList.mapM parseOp
  let drop := ((j.getObjVal? "drop").toOption.bind (·.getStr?.toOption)).getD "none"
  let ops := match drop with
    | "seeded" => ops.filter (fun op => !op.isSeeded)
    | "nonglobal" => ops.filter Op.isGlobal
    | _ => ops
  let (w, outs) := run symEnv symWorld0 ops
  return Json.mkObj [
    ("classes", Json.arr ((classIds outs).map optNatJson).toArray),
    ("glob_last", optNatJson w.glob.last), ("glob_count", Json.num w.glob.count), ("entropy_used", Json.num w.ent)]

def giOfArrays (re im : Array Int) : Nat → GI := fun k => ⟨re[k]!, im[k]!⟩

/-- `random_state_vector` Schmidt branch before normalisation: mirror (`raw`) and closed form (`amp`, row-major `d0×d1`) -/
def hSvRaw : Handler := fun j => do
  let k ← getNat j "k"
  let d0 ← getNat j "d0"
  let d1 ← getNat j "d1"
  let are ← getIntArray j "a_re"
  let aim ← getIntArray j "a_im"
  let bre ← getIntArray j "b_re"
  let bim ← getIntArray j "b_im"
  if k == 0 || d0 == 0 || d1 == 0 then return reject "InvalidDim"
  if are.size != d0 * k || aim.size != d0 * k || bre.size != d1 * k || bim.size != d1 * k then
    return reject "SizeMismatch"
  let a := giOfArrays are aim
  let b := giOfArrays bre bim
  let raw := arrayOfFn (d0 * d1) (svRaw k d0 d1 a b)
  let amp := arrayOfFn (d0 * d1) (fun r => svAmp k d0 d1 a b (r / d1) (r % d1))
  return Json.mkObj [
    ("raw_re", intArrayJson (raw.map (·.re))), ("raw_im", intArrayJson (raw.map (·.im))),
    ("amp_re", intArrayJson (amp.map (·.re))), ("amp_im", intArrayJson (amp.map (·.im)))]

/-- `random_povm` axis layout on an `arange`-labelled `(ni, no, d, d)` array: the returned `(d, d, ni, no)` array, C order -/
def hPovmLayout : Handler := fun j => do
  let d ← getNat j "dim"
  let ni ← getNat j "num_inputs"
  let no ← getNat j "num_outputs"
  let P : Nat → Nat → Nat → Nat → Nat := fun x y r c => ((x * no + y) * d + r) * d + c
  let out := Id.run do
    let mut o : Array Nat := Array.mkEmpty (d * d * ni * no)
    for r in [0:d] do
      for c in [0:d] do
        for x in [0:ni] do
          for y in [0:no] do
            o := o.push (povmLayout P r c x y)
    return o
  return Json.mkObj [("shape", natListJson [d, d, ni, no]), ("data", natListJson out.toList)]

/-! ## draw programs -/

def distName : Dist → String
  | .random => "random"
  | .standardNormal => "standard_normal"
  | .normal => "normal"

def evJson : Ev → Json
  | .construct => Json.arr #[Json.str "construct"]
  | .draw d => Json.arr #[Json.str (distName d.dist), natListJson d.shape]

/-- `dim` is a JSON number (Python int) or an array (Python list) -/
def getDimArg (j : Json) (k : String) : Except String DimArg := do
  let v ← j.getObjVal? k
  match v with
  | .arr _ => return .list (← asNatList v)
  | _ => return .int (← v.getNat?)

def parseCall (j : Json) : Except String Call := do
  let fn ← (← j.getObjVal? "fn").getStr?
  match fn with
  | "unitary" => return .unitary (← getDimArg j "dim") (← getBool j "is_real")
  | "density" =>
      let k := if isNull j "k_param" then none else (getNat j "k_param").toOption
      return .density (← getNat j "dim") (← getBool j "is_real") k (← getBool j "bures")
  | "psd" => return .psd (← getNat j "dim") (← getBool j "is_real")
  | "basis" => return .basis (← getNat j "dim") (← getBool j "is_real")
  | "state_vector" => return .stateVector (← getDimArg j "dim") (← getBool j "is_real") (← getNat j "k_param")
  | "states" => return .states (← getNat j "n") (← getNat j "d")
  | "povm" => return .povm (← getNat j "dim") (← getNat j "num_inputs") (← getNat j "num_outputs")
  | "circulant" => return .circulant (← getNat j "dim")
  | "ginibre" => return .ginibre (← getNat j "n") (← getNat j "m")
  | _ => throw s!"c19_trace: unknown generator {fn}"

/-- the events of a generator call in program order and the shape of what it returns, or the exception it raises -/
def hTrace : Handler := fun j => do
  let c ← parseCall j
  match trace c, outShape c with
  | .ok evs, .ok sh =>
      return Json.mkObj [("events", Json.arr (evs.map evJson).toArray), ("shape", natListJson sh),
        ("constructions", Json.num (constructions evs)), ("scalars", Json.num (scalars evs))]
  | .error e, _ => return reject e
  | _, .error e => return reject e

/-! ## exact post-processing on Gaussian integers (the caller keeps track of the binary exponents) -/

/-- `{"re":[…],"im":[…]}` row-major with `cols` columns (`im` optional) -/
def getGIMat (j : Json) (key : String) (rows cols : Nat) : Except String (Nat → Nat → GI) := do
  let o ← j.getObjVal? key
  let re ← getIntArray o "re"
  let im := (getIntArray o "im").toOption.getD (Array.replicate (rows * cols) 0)
  if re.size != rows * cols || im.size != rows * cols then throw s!"{key}: expected {rows}x{cols} entries, got {re.size}"
  let a : Array GI := (Array.range (rows * cols)).map fun t => ⟨re[t]!, im[t]!⟩
  return matOfArray a cols

def memo (rows cols : Nat) (f : Nat → Nat → GI) : Nat → Nat → GI := matOfArray (arrayOfMat rows cols f) cols

def giMatJson (rows cols : Nat) (f : Nat → Nat → GI) : Json :=
  let a := arrayOfMat rows cols f
  Json.mkObj [("re", intArrayJson (a.map (·.re))), ("im", intArrayJson (a.map (·.im)))]

/-- `random_density_matrix`: numerator `F Fᴴ` and its trace for the final factor `F` (`G` itself, or the Bures factor as
written, from the returned unitary `U` and `G` at a common binary exponent) -/
def hDensity : Handler := fun j => do
  let d ← getNat j "dim"
  let k ← getNat j "k"
  let G ← getGIMat j "G" d k
  let bures ← getBool j "bures"
  if bures then
    match buresCols d k with
    | none => return reject "ValueError"
    | some c =>
      let U ← getGIMat j "U" d d
      let F := memo d c (buresFactor d k U G)
      let N := memo d d (densityNum GI.conj c F)
      return Json.mkObj [("num", giMatJson d d N), ("tr", giMatJson 1 1 (fun _ _ => trc d N)), ("cols", Json.num c)]
  else
    let N := memo d d (densityNum GI.conj k G)
    return Json.mkObj [("num", giMatJson d d N), ("tr", giMatJson 1 1 (fun _ _ => trc d N)), ("cols", Json.num k)]

/-- `random_unitary`: `Uᴴ G` and `Uᴴ U` -/
def hUnitaryRel : Handler := fun j => do
  let d ← getNat j "dim"
  let U ← getGIMat j "U" d d
  let G ← getGIMat j "G" d d
  return Json.mkObj [("rel", giMatJson d d (unitaryRel GI.conj d U G)), ("gram", giMatJson d d (gramOf GI.conj d U))]

/-- `random_psd_operator`: `A·A` and `(Rᴴ+R)·(Rᴴ+R)` (`= 4 H·H`), `A` and `R` at a common binary exponent -/
def hPsdRel : Handler := fun j => do
  let d ← getNat j "dim"
  let A ← getGIMat j "A" d d
  let R ← getGIMat j "R" d d
  let H2 := memo d d (hermTwice GI.conj R)
  return Json.mkObj [("aa", giMatJson d d (mmul d A A)), ("hh4", giMatJson d d (mmul d H2 H2)), ("h2", giMatJson d d H2)]

/-- `random_povm`, one input setting: normaliser `Σ A_yᴴ A_y`, `U diag(s) Uᴴ`, `Uᴴ U` and the cores `(A_y U)ᴴ (A_y U)` -/
def hPovm : Handler := fun j => do
  let d ← getNat j "dim"
  let no ← getNat j "num_outputs"
  let blocks ← (← j.getObjVal? "A").getArr?
  if blocks.size != no then throw "c19_povm: wrong number of blocks"
  let As ← blocks.toList.mapM fun b => do
    let re ← asIntArray (← b.getObjVal? "re")
    if re.size != d * d then throw "c19_povm: block size"
    let a : Array GI := re.map fun z => ⟨z, 0⟩
    return (matOfArray a d : Nat → Nat → GI)
  let A : Nat → Nat → Nat → GI := fun y => As.getD y (fun _ _ => 0)
  let U ← getGIMat j "U" d d
  let s ← getIntArray j "s"
  if s.size != d then throw "c19_povm: s size"
  let sv : Nat → GI := fun i => ⟨s[i]!, 0⟩
  let cores := (List.range no).map fun y => giMatJson d d (povmCore GI.conj d (A y) U)
  return Json.mkObj [("normaliser", giMatJson d d (povmNormaliser GI.conj d no A)),
    ("recon", giMatJson d d (eigRecon GI.conj d U sv)), ("gram", giMatJson d d (gramOf GI.conj d U)),
    ("cores", Json.arr cores.toArray)]

/-- pretty good measurement: `S Aᵢ S` for every `Aᵢ = pᵢρᵢ`, `S (Σ Aᵢ) S`, and `S − Sᴴ` -/
def hPgm : Handler := fun j => do
  let d ← getNat j "dim"
  let S ← getGIMat j "S" d d
  let items ← (← j.getObjVal? "A").getArr?
  let As ← items.toList.mapM fun b => getGIMat (Json.mkObj [("x", b)]) "x" d d
  let n := As.length
  let A : Nat → Nat → Nat → GI := fun y => As.getD y (fun _ _ => 0)
  let P := memo d d (msum n A)
  let elems := As.map fun a => giMatJson d d (pgmElem d S a)
  return Json.mkObj [("elems", Json.arr elems.toArray), ("sps", giMatJson d d (pgmElem d S P)),
    ("antiherm", giMatJson d d (fun i k => S i k - GI.conj (S k i)))]

/-! ## `measure` on exact rationals -/

def getQIMat (j : Json) (rows cols : Nat) : Except String (Nat → Nat → QI) := do
  let e := (getNat j "e").toOption.getD 0
  let re ← getIntArray j "re"
  let im := (getIntArray j "im").toOption.getD (Array.replicate (rows * cols) 0)
  if re.size != rows * cols || im.size != rows * cols then throw s!"measure: expected {rows}x{cols} entries, got {re.size}"
  let a : Array QI := (Array.range (rows * cols)).map fun t => ⟨dyadic re[t]! e, dyadic im[t]! e⟩
  return matOfArray a cols

def optBoolJson : Option Bool → Json
  | some true => Json.num (1 : Int)
  | some false => Json.num (0 : Int)
  | none => Json.num (-1 : Int)

def qiMatJson (rows cols : Nat) (f : Nat → Nat → QI) : Json :=
  let a := arrayOfMat rows cols f
  Json.mkObj [("re", Json.arr (a.map (ratJson ·.re))), ("im", Json.arr (a.map (ratJson ·.im)))]

/-- `measure(state, ops, tol, state_update)`: per operator the Born probability, whether it exceeds `tol`, the post-measurement
state; for the list form whether the completeness check raises -/
def hMeasure : Handler := fun j => do
  let d ← getNat j "dim"
  let m ← getNat j "rows"
  let tol ← getRat j "tol"
  let upd ← getBool j "state_update"
  let single ← getBool j "single"
  let ρ ← getQIMat (← j.getObjVal? "rho") d d
  let opsJ ← (← j.getObjVal? "ops").getArr?
  let Ks ← opsJ.toList.mapM fun o => getQIMat o m d
  let outs := Ks.map fun K =>
    let o := measureOne d tol K ρ m
    let post := matOfArray (arrayOfMat o.postDim o.postDim o.post) o.postDim
    ({ o with post := post } : MeasOutcome)
  let K : Nat → Nat → Nat → QI := fun i => Ks.getD i (fun _ _ => 0)
  let raises := if single then some false else measureRaises d m Ks.length tol upd K outs
  let outsJ := outs.map fun o => Json.mkObj [("prob", ratJson o.prob), ("positive", optBoolJson o.positive),
    ("post_dim", Json.num o.postDim), ("post", qiMatJson o.postDim o.postDim o.post)]
  return Json.mkObj [("outcomes", Json.arr outsJ.toArray), ("raises", optBoolJson raises)]

def handlers : List (String × Handler) :=
  [("c19_history", hHistory), ("c19_sv_raw", hSvRaw), ("c19_povm_layout", hPovmLayout), ("c19_trace", hTrace),
   ("c19_density", hDensity), ("c19_unitary_rel", hUnitaryRel), ("c19_psd_rel", hPsdRel), ("c19_povm", hPovm),
   ("c19_pgm", hPgm), ("c19_measure", hMeasure)]

end Toq.Driver.C19
