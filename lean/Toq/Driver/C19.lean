import Toq.Driver.Util
/-! Driver handlers for C19 (stub; filled in by the owner of this property). -/
namespace Toq.Driver.C19
def handlers : List (String × Handler) := []
end Toq.Driver.C19
