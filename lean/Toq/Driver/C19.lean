import Toq.Driver.Util
import Toq.Model.Rand
import Toq.Core.Scalar
/-! Driver handlers for C19: the seeding state machine on a symbolic world (predicted equality pattern of a call
history), the Schmidt-rank construction of `random_state_vector` on Gaussian integers, the axis layout of `random_povm`. -/
open Lean Toq.Rand

namespace Toq.Driver.C19

/-- one operation `[tag, g, a, s]`: 0 seeded(g,a,s) · 1 unseeded(g,a) · 2 np.random.seed(s) · 3 np.random.rand() ·
4 default_rng(s).random() · 5 default_rng().random() -/
def parseOp (v : Json) : Except String (Op Nat Nat) := do
  let l ← asNatList v
  match l with
  | [0, g, a, s] => return .seeded g a s
  | [1, g, a, _] => return .unseeded g a
  | [2, _, _, s] => return .npSeed s
  | [3, _, _, _] => return .globalDraw
  | [4, _, _, s] => return .rngDraw s
  | [5, _, _, _] => return .rngDrawFresh
  | _ => throw "op: expected [tag,g,a,s] with tag 0..5"

def optNatJson : Option Nat → Json
  | none => Json.num (-1 : Int)
  | some n => Json.num n

/-- run the history from the initial symbolic world; `classes[i]` = index of the first operation whose output must be
bitwise equal to that of operation `i` (−1: no output).  `drop` ∈ {"none","seeded","nonglobal"} first deletes the seeded calls /
everything but the global-generator operations. -/
def hHistory : Handler := fun j => do
  let opsJ ← (← j.getObjVal? "ops").getArr?
  let ops ← opsJ.toList.mapM parseOp
  let drop := ((j.getObjVal? "drop").toOption.bind (·.getStr?.toOption)).getD "none"
  let ops := match drop with
    | "seeded" => ops.filter (fun op => !op.isSeeded)
    | "nonglobal" => ops.filter Op.isGlobal
    | _ => ops
  let (w, outs) := run symEnv symWorld0 ops
  return Json.mkObj [
    ("classes", Json.arr ((classIds outs).map optNatJson).toArray),
    ("glob_last", optNatJson w.glob.last), ("glob_count", Json.num w.glob.count), ("entropy_used", Json.num w.ent)]

def giOfArrays (re im : Array Int) : Nat → GI := fun k => ⟨re[k]!, im[k]!⟩

/-- `random_state_vector` Schmidt branch before normalisation: mirror (`raw`) and closed form (`amp`, row-major `d0×d1`) -/
def hSvRaw : Handler := fun j => do
  let k ← getNat j "k"
  let d0 ← getNat j "d0"
  let d1 ← getNat j "d1"
  let are ← getIntArray j "a_re"
  let aim ← getIntArray j "a_im"
  let bre ← getIntArray j "b_re"
  let bim ← getIntArray j "b_im"
  if k == 0 || d0 == 0 || d1 == 0 then return reject "InvalidDim"
  if are.size != d0 * k || aim.size != d0 * k || bre.size != d1 * k || bim.size != d1 * k then
    return reject "SizeMismatch"
  let a := giOfArrays are aim
  let b := giOfArrays bre bim
  let raw := arrayOfFn (d0 * d1) (svRaw k d0 d1 a b)
  let amp := arrayOfFn (d0 * d1) (fun r => svAmp k d0 d1 a b (r / d1) (r % d1))
  return Json.mkObj [
    ("raw_re", intArrayJson (raw.map (·.re))), ("raw_im", intArrayJson (raw.map (·.im))),
    ("amp_re", intArrayJson (amp.map (·.re))), ("amp_im", intArrayJson (amp.map (·.im)))]

/-- `random_povm` axis layout on an `arange`-labelled `(ni, no, d, d)` array: the returned `(d, d, ni, no)` array, C order -/
def hPovmLayout : Handler := fun j => do
  let d ← getNat j "dim"
  let ni ← getNat j "num_inputs"
  let no ← getNat j "num_outputs"
  let P : Nat → Nat → Nat → Nat → Nat := fun x y r c => ((x * no + y) * d + r) * d + c
  let out := Id.run do
    let mut o : Array Nat := Array.mkEmpty (d * d * ni * no)
    for r in [0:d] do
      for c in [0:d] do
        for x in [0:ni] do
          for y in [0:no] do
            o := o.push (povmLayout P r c x y)
    return o
  return Json.mkObj [("shape", natListJson [d, d, ni, no]), ("data", natListJson out.toList)]

def handlers : List (String × Handler) :=
  [("c19_history", hHistory), ("c19_sv_raw", hSvRaw), ("c19_povm_layout", hPovmLayout)]

end Toq.Driver.C19
