import Toq.Driver.QJson
import Toq.Model.Exclusion
/-! Driver front end for C11 (state exclusion certificate checkers).

Ops (matrices in the `QJson` dyadic encoding, rationals as `[num, den]` or an integer):

* `excl_primal {"d":d,"rho":[mat…],"p":[rat…],"M":[mat…],"LM":[mat…]}`
* `excl_dual   {"d":d,"rho":[mat…],"p":[rat…],"Y":mat,"LY":[mat…]}`

Answer `{"ok":[num,den]}` (the exact objective value returned by the verified checker) or
`{"reject":"<first failed condition>"}`.  The verdict is always the one of the verified checker of
`Toq.Model.Exclusion`; the diagnostic below is only used to word a rejection and re-evaluates the same
named conditions. -/
open Lean Toq.Discrim Toq.Excl EMat

namespace Toq.Driver.C11

/-- first index at which `p` fails -/
def firstFail (k : Nat) (p : Fin k → Bool) : Option Nat :=
  ((List.finRange k).find? fun i => !p i).map (·.val)

/-- why `psdCert A L` fails (`none` when it holds) -/
def psdWhy {n k : Nat} (A : EMat n n) (L : EMat n k) : Option String :=
  if !A.isHermitian then some "not_hermitian"
  else
    let R := A - L.mul L.ct
    if !R.isHermitian then some "residual_not_hermitian"
    else
      match firstFail n fun i =>
          decide (sumFinQ n (fun j => if j = i then 0 else (R.get i j).abs1) ≤ (R.get i i).re) with
      | some i => some s!"residual_not_diag_dominant_row_{i}"
      | none => if psdCert A L then none else some "psdCert_failed"

/-- first `i < k` whose PSD certificate fails, with the reason -/
def firstPsdFail {n m : Nat} (k : Nat) (A : Fin k → EMat n n) (L : Fin k → EMat n m) : Option (Nat × String) :=
  (List.finRange k).findSome? fun i => (psdWhy (A i) (L i)).map fun s => (i.val, s)

def lenWhy (k : Nat) (named : List (String × Nat)) : Option String :=
  (named.find? fun x => x.2 != k).map fun x => s!"length_{x.1}_{x.2}_expected_{k}"

def answer (r : Option Rat) (why : Unit → String) : Json :=
  match r with
  | some v => Json.mkObj [("ok", ratJson v)]
  | none => reject (why ())

def hExclPrimal : Handler := fun j => do
  let d ← getNat j "d"
  let rho ← getEMatList j "rho" d d
  let p ← getRatList j "p"
  let M ← getEMatList j "M" d d
  let LM ← getEMatList j "LM" d d
  let ens : Ensemble d := ⟨rho, p⟩
  let k := ens.size
  return answer (checkExclPrimal ens M LM) fun _ =>
    match lenWhy k [("p", p.length), ("M", M.length), ("LM", LM.length)] with
    | some s => s
    | none =>
      match firstPsdFail k (fun i => matAt M i) (fun i => matAt LM i) with
      | some (i, s) => s!"M[{i}]_{s}"
      | none =>
        if !povmSumOk k (fun i => matAt M i) then "sum_M_not_identity" else "rejected"

def hExclDual : Handler := fun j => do
  let d ← getNat j "d"
  let rho ← getEMatList j "rho" d d
  let p ← getRatList j "p"
  let Y ← getEMat j "Y" d d
  let LY ← getEMatList j "LY" d d
  let ens : Ensemble d := ⟨rho, p⟩
  let k := ens.size
  return answer (checkExclDual ens Y LY) fun _ =>
    match lenWhy k [("p", p.length), ("LY", LY.length)] with
    | some s => s
    | none =>
      if !Y.isHermitian then "Y_not_hermitian"
      else
        match firstPsdFail k (fun i => smul (ens.prob i) (ens.state i) - Y) (fun i => matAt LY i) with
        | some (i, s) => s!"p_rho_minus_Y[{i}]_{s}"
        | none => "rejected"

def handlers : List (String × Handler) :=
  [("excl_primal", hExclPrimal), ("excl_dual", hExclDual)]

end Toq.Driver.C11
