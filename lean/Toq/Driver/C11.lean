import Toq.Driver.Util
/-! Driver handlers for C11 (stub; filled in by the owner of this property). -/
namespace Toq.Driver.C11
def handlers : List (String × Handler) := []
end Toq.Driver.C11
