import Toq.Driver.QJson
import Toq.Model.Exclusion
/-! Driver front end for C11 (state exclusion certificate checkers).

Ops (matrices in the `QJson` dyadic encoding, rationals as `[num, den]` or an integer):

* `excl_primal {"d":d,"rho":[mat…],"p":[rat…],"M":[mat…],"LM":[mat…]}`
* `excl_dual   {"d":d,"rho":[mat…],"p":[rat…],"Y":mat,"LY":[mat…]}`
* `excl_unamb_primal {"d","rho","p","M":[mat…],"LM":[mat…],"LR":mat}`, `excl_unamb_dual {"d","rho","p","N":mat,"a":[rat…],"LN":mat,"LD":[mat…]}`
* `excl_program {"d","states":[{"vec":mat}|{"dm":mat}…],"p":[rat…]|null,"form":"me_primal"|"me_dual"|"ua_primal"|"ua_dual", point…}`
* `excl_post {"n":n,"v":rat}`, `excl_family {"name":"trine","h":rat,"r":rat}` / `{"name":"pbr","n":n,"c":rat,"s":rat}`

Answer `{"ok":[num,den]}` (the exact objective value returned by the verified checker) or
`{"reject":"<first failed condition>"}`.  The verdict is always the one of the verified checker of
`Toq.Model.Exclusion`; the diagnostic below is only used to word a rejection and re-evaluates the same
named conditions. -/
open Lean Toq.Discrim Toq.Excl EMat

namespace Toq.Driver.C11

/-- first index at which `p` fails -/
def firstFail (k : Nat) (p : Fin k → Bool) : Option Nat :=
  ((List.finRange k).find? fun i => !p i).map (·.val)

/-- why `psdCert A L` fails (`none` when it holds) -/
def psdWhy {n k : Nat} (A : EMat n n) (L : EMat n k) : Option String :=
  if !A.isHermitian then some "not_hermitian"
  else
    let R := A - L.mul L.ct
    if !R.isHermitian then some "residual_not_hermitian"
    else
      match firstFail n fun i =>
          decide (sumFinQ n (fun j => if j = i then 0 else (R.get i j).abs1) ≤ (R.get i i).re) with
      | some i => some s!"residual_not_diag_dominant_row_{i}"
      | none => if psdCert A L then none else some "psdCert_failed"

/-- first `i < k` whose PSD certificate fails, with the reason -/
def firstPsdFail {n m : Nat} (k : Nat) (A : Fin k → EMat n n) (L : Fin k → EMat n m) : Option (Nat × String) :=
  (List.finRange k).findSome? fun i => (psdWhy (A i) (L i)).map fun s => (i.val, s)

def lenWhy (k : Nat) (named : List (String × Nat)) : Option String :=
  (named.find? fun x => x.2 != k).map fun x => s!"length_{x.1}_{x.2}_expected_{k}"

def answer (r : Option Rat) (why : Unit → String) : Json :=
  match r with
  | some v => Json.mkObj [("ok", ratJson v)]
  | none => reject (why ())

def hExclPrimal : Handler := fun j => do
  let d ← getNat j "d"
  let rho ← getEMatList j "rho" d d
  let p ← getRatList j "p"
  let M ← getEMatList j "M" d d
  let LM ← getEMatList j "LM" d d
  let ens : Ensemble d := ⟨rho, p⟩
  let k := ens.size
  return answer (checkExclPrimal ens M LM) fun _ =>
    match lenWhy k [("p", p.length), ("M", M.length), ("LM", LM.length)] with
    | some s => s
    | none =>
      match firstPsdFail k (fun i => matAt M i) (fun i => matAt LM i) with
      | some (i, s) => s!"M[{i}]_{s}"
      | none =>
        if !povmSumOk k (fun i => matAt M i) then "sum_M_not_identity" else "rejected"

def hExclDual : Handler := fun j => do
  let d ← getNat j "d"
  let rho ← getEMatList j "rho" d d
  let p ← getRatList j "p"
  let Y ← getEMat j "Y" d d
  let LY ← getEMatList j "LY" d d
  let ens : Ensemble d := ⟨rho, p⟩
  let k := ens.size
  return answer (checkExclDual ens Y LY) fun _ =>
    match lenWhy k [("p", p.length), ("LY", LY.length)] with
    | some s => s
    | none =>
      if !Y.isHermitian then "Y_not_hermitian"
      else
        match firstPsdFail k (fun i => smul (ens.prob i) (ens.state i) - Y) (fun i => matAt LY i) with
        | some (i, s) => s!"p_rho_minus_Y[{i}]_{s}"
        | none => "rejected"

def hUnambPrimal : Handler := fun j => do
  let d ← getNat j "d"
  let rho ← getEMatList j "rho" d d
  let p ← getRatList j "p"
  let M ← getEMatList j "M" d d
  let LM ← getEMatList j "LM" d d
  let LR ← getEMat j "LR" d d
  let ens : Ensemble d := ⟨rho, p⟩
  let k := ens.size
  return answer (checkUnambExclPrimal ens M LM LR) fun _ =>
    match lenWhy k [("p", p.length), ("M", M.length), ("LM", LM.length)] with
    | some s => s
    | none =>
      match firstPsdFail k (fun i => matAt M i) (fun i => matAt LM i) with
      | some (i, s) => s!"M[{i}]_{s}"
      | none =>
        match psdWhy (unambRest k fun i => matAt M i) LR with
        | some s => s!"one_minus_sum_M_{s}"
        | none =>
          match firstFail k fun i =>
              decide (unambZeroLhs (fun i => ens.state i) (fun i => ens.prob i) (fun i => matAt M i) i = 0) with
          | some i => s!"trace_rho_M[{i}]_not_zero"
          | none => "rejected"

def hUnambDual : Handler := fun j => do
  let d ← getNat j "d"
  let rho ← getEMatList j "rho" d d
  let p ← getRatList j "p"
  let N ← getEMat j "N" d d
  let a ← getRatList j "a"
  let LN ← getEMat j "LN" d d
  let LD ← getEMatList j "LD" d d
  let ens : Ensemble d := ⟨rho, p⟩
  let k := ens.size
  match checkUnambExclDual ens N a LN LD with
  | some v => return Json.mkObj [("ok", ratJson v), ("code_objective", ratJson (unambDualCodeObjective N))]
  | none =>
    return reject <|
      match lenWhy k [("p", p.length), ("a", a.length), ("LD", LD.length)] with
      | some s => s
      | none =>
        match psdWhy N LN with
        | some s => s!"N_{s}"
        | none =>
          match firstPsdFail k (fun i => unambDualSlack k (fun i => ens.state i) (fun i => ens.prob i) N
              (fun i => ratAt a i) i) (fun i => matAt LD i) with
          | some (i, s) => s!"dual_slack[{i}]_{s}"
          | none => "rejected"

/-- exact rational matrix as `{"re":[[num,den]…],"im":[[num,den]…]}` (row-major) -/
def ematJson {n m : Nat} (A : EMat n m) : Json :=
  let cells := (List.finRange n).flatMap fun i => (List.finRange m).map fun c => A.get i c
  Json.mkObj [("re", Json.arr (cells.map fun z => ratJson z.re).toArray),
    ("im", Json.arr (cells.map fun z => ratJson z.im).toArray)]

def parseStateArg (d : Nat) (j : Json) : Except String (StateArg d) := do
  match j.getObjVal? "vec" with
  | .ok v => return .vec (← parseEMat d 1 v)
  | .error _ => return .dm (← parseEMat d d (← j.getObjVal? "dm"))

def optEMatList (j : Json) (key : String) (n m : Nat) : Except String (List (EMat n m)) :=
  if isNull j key then pure [] else getEMatList j key n m

def optEMat (j : Json) (key : String) (n m : Nat) : Except String (EMat n m) :=
  if isNull j key then pure EMat.zero else getEMat j key n m

def checkJson (r : Option Rat) : Json :=
  match r with
  | some v => Json.mkObj [("ok", ratJson v)]
  | none => reject "rejected"

/-- `excl_program`: the program `state_exclusion` builds for the given raw arguments (`prepare`), evaluated at a
point: every operator that a constraint requires to be PSD (`psd`, in the order of the code's constraints), every
matrix residual that must vanish (`eq`), every scalar residual (`zero`), the objective, and – when PSD witnesses are
supplied – the verdict of the verified checker at that point. -/
def hProgram : Handler := fun j => do
  let d ← getNat j "d"
  let sts ← (← (← j.getObjVal? "states").getArr?).toList.mapM (parseStateArg d)
  let probs ← if isNull j "p" then pure none else (some <$> getRatList j "p")
  let form ← (← j.getObjVal? "form").getStr?
  let ens := prepare sts probs
  let k := ens.size
  let ρ : Fin k → EMat d d := fun i => ens.state i
  let pr : Fin k → Rat := fun i => ens.prob i
  let idx := List.finRange k
  let base : List (String × Json) :=
    [("rho", Json.arr (ens.states.map ematJson).toArray), ("p", Json.arr (ens.probs.map ratJson).toArray)]
  let mats (l : List (EMat d d)) : Json := Json.arr (l.map ematJson).toArray
  let rats (l : List Rat) : Json := Json.arr (l.map ratJson).toArray
  match form with
  | "me_primal" =>
    let M ← getEMatList j "M" d d
    let LM ← optEMatList j "LM" d d
    let Mf : Fin k → EMat d d := fun i => matAt M i
    return Json.mkObj (base ++ [("psd", mats (idx.map Mf)), ("eq", mats [exclPrimalEqResidual k Mf]),
      ("zero", rats []), ("objective", ratJson (exclValue ens M)), ("check", checkJson (checkExclPrimal ens M LM))])
  | "me_dual" =>
    let Y ← getEMat j "Y" d d
    let LY ← optEMatList j "LY" d d
    return Json.mkObj (base ++ [("psd", mats (idx.map fun i => exclDualSlack ρ pr Y i)), ("eq", mats []),
      ("zero", rats []), ("objective", ratJson Y.trace.re), ("check", checkJson (checkExclDual ens Y LY))])
  | "ua_primal" =>
    let M ← getEMatList j "M" d d
    let LM ← optEMatList j "LM" d d
    let LR ← optEMat j "LR" d d
    let Mf : Fin k → EMat d d := fun i => matAt M i
    return Json.mkObj (base ++ [("psd", mats (idx.map Mf ++ [unambRest k Mf])), ("eq", mats []),
      ("zero", rats (idx.map fun i => unambZeroLhs ρ pr Mf i)), ("objective", ratJson (unambExclValueFn k ρ pr Mf)),
      ("check", checkJson (checkUnambExclPrimal ens M LM LR))])
  | "ua_dual" =>
    let N ← getEMat j "N" d d
    let a ← getRatList j "a"
    let LN ← optEMat j "LN" d d
    let LD ← optEMatList j "LD" d d
    let af : Fin k → Rat := fun i => ratAt a i
    return Json.mkObj (base ++ [("psd", mats ([N] ++ idx.map fun i => unambDualSlack k ρ pr N af i)), ("eq", mats []),
      ("zero", rats []), ("objective", ratJson (unambDualCodeObjective N)),
      ("bound", ratJson (unambDualBound k ρ pr N)), ("check", checkJson (checkUnambExclDual ens N a LN LD))])
  | _ => return reject "unknown_form"

/-- `excl_post`: what `is_antidistinguishable` / `common_quantum_overlap` compute from the solver's value -/
def hPost : Handler := fun j => do
  let n ← getNat j "n"
  let v ← getRat j "v"
  return Json.mkObj [("anti", Json.bool (antidistTest v)), ("cqo", ratJson (cqoPost n v)),
    ("ones", Json.arr ((onesProbs n).map ratJson).toArray)]

/-- `excl_family`: the constructors `trine()` (`h = ½`, `r ≈ √3`) and `pusey_barrett_rudolph(n, θ)`
(`c ≈ cos(θ/2)`, `s ≈ sin(θ/2)`) on exact rationals -/
def hFamily : Handler := fun j => do
  let name ← (← j.getObjVal? "name").getStr?
  let out (l : List (List Rat)) : Json := Json.mkObj [("states", Json.arr (l.map fun v => Json.arr (v.map ratJson).toArray).toArray)]
  match name with
  | "trine" => return out (trineStates (← getRat j "h") (← getRat j "r"))
  | "pbr" => return out (pbrStates (← getNat j "n") (← getRat j "c") (← getRat j "s"))
  | _ => return reject "unknown_family"

def handlers : List (String × Handler) :=
  [("excl_primal", hExclPrimal), ("excl_dual", hExclDual), ("excl_unamb_primal", hUnambPrimal),
   ("excl_unamb_dual", hUnambDual), ("excl_program", hProgram), ("excl_post", hPost), ("excl_family", hFamily)]

end Toq.Driver.C11
