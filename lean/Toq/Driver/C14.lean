import Toq.Driver.Util
import Toq.Driver.QJson
import Toq.Model.Entangle
import Toq.Model.EntangleSk
import Toq.Model.EntangleSkDps
/-! Driver handlers for C14: exact Schmidt rank / product test / purity / closed forms on Gaussian-rational data.

Complex rational arrays travel as `{"den": D, "re": [ints], "im": [ints]}` (entries `(re + i·im)/D`, row-major);
rationals as `[num, den]`. -/
open Lean Toq.Entangle

namespace Toq.Driver.C14

/-- flat Gaussian-rational array -/
def getQIArray (j : Json) (key : String) : Except String (Array QI) := do
  let o ← j.getObjVal? key
  let den ← getNat o "den"
  if den == 0 then throw s!"{key}: zero denominator"
  let re ← getIntArray o "re"
  let im := (getIntArray o "im").toOption.getD (Array.replicate re.size 0)
  if im.size != re.size then throw s!"{key}: re/im size mismatch"
  let d : Rat := (den : Rat)
  return (Array.range re.size).map fun k => ⟨((re[k]! : Int) : Rat) / d, ((im[k]! : Int) : Rat) / d⟩

def qiJson (a : QI) : Json := Json.arr #[ratJson a.re, ratJson a.im]
def qiArrayJson (a : Array QI) : Json := Json.arr (a.map qiJson)

def vecFn (a : Array QI) : Nat → QI := fun k => a[k]!
def matFn (a : Array QI) (cols : Nat) : Nat → Nat → QI := fun i j => a[i * cols + j]!

/- Function matrices are stored with `let a := arrayOfMat r c f; let g := matFn a c` inside the handlers (a `def memo`
   taking `i j` as further arguments would recompute the array at every entry access). -/

def idM : Nat → Nat → QI := fun i j => if i = j then 1 else 0

def eqM (r c : Nat) (X Y : Nat → Nat → QI) : Bool :=
  allBelow r fun i => allBelow c fun j => decide (X i j = Y i j)

def isUnitary (d : Nat) (U : Nat → Nat → QI) : Bool :=
  eqM d d (mmul d U (ctr U)) idM && eqM d d (mmul d (ctr U) U) idM

def getSize (j : Json) : Except String (Nat × Nat) := do
  let dA ← getNat j "dA"
  let dB ← getNat j "dB"
  if dA == 0 || dB == 0 then throw "zero local dimension"
  return (dA, dB)

/-- planted pure state `ψ = (U ⊗ V) Σ_i s_i |i i⟩` -/
def hPlanted : Handler := fun j => do
  let (dA, dB) ← getSize j
  let s ← getRatList j "s"
  if s.length > min dA dB then throw "too many Schmidt coefficients"
  let Ua ← getQIArray j "U"
  let Va ← getQIArray j "V"
  if Ua.size != dA * dA || Va.size != dB * dB then throw "unitary size mismatch"
  let U := matFn Ua dA
  let V := matFn Va dB
  let ψ0 : Nat → QI := vecOfAmp dB fun a b => if a = b then QI.ofRat (s.getD a 0) else 0
  let ψa := arrayOfFn (dA * dB) (kronApply dB dA dB U V ψ0)
  let ψ := vecFn ψa
  let n2 := sumN (dA * dB) fun i => ψ i * (ψ i).conj
  return Json.mkObj [
    ("unitaryU", Json.bool (isUnitary dA U)), ("unitaryV", Json.bool (isUnitary dB V)),
    ("psi", qiArrayJson ψa), ("norm2", qiJson n2),
    ("rank", Json.num (schmidtRankVec dA dB ψ : Nat)), ("support", Json.num (supportSize s : Nat))]

/-- the raw `dim` argument: `"dimarg": null` (omitted), an integer, or `[dA, dB]`; absent key = not requested -/
def getDimArg (j : Json) : Except String (Option DimArg) := do
  match j.getObjVal? "dimarg" with
  | .error _ => return none
  | .ok .null => return some .omitted
  | .ok (.arr a) =>
    if a.size != 2 then throw "dimarg: expected [dA, dB]"
    return some (.pair (← a[0]!.getNat?) (← a[1]!.getNat?))
  | .ok v => return some (.scalar (← v.getNat?))

def optNatJson : Option Nat → Json
  | some n => Json.num (n : Nat)
  | none => Json.null

/-- exact data of a bipartite vector -/
def hVec : Handler := fun j => do
  let (dA, dB) ← getSize j
  let a ← getQIArray j "psi"
  if a.size != dA * dB then throw "vector size mismatch"
  let ψ := vecFn a
  let arg ← getDimArg j
  return Json.mkObj [
    ("rank_dimarg", optNatJson (arg.bind fun g => schmidtRankArg (dA * dB) g ψ)),
    ("rank", Json.num (schmidtRankVec dA dB ψ : Nat)), ("rank_spec", Json.num (schmidtRankSpec dA dB ψ : Nat)),
    ("rank_old", Json.num (schmidtRankVecOld dA dB ψ : Nat)),
    ("is_product", Json.bool (isProductVec dA dB ψ)),
    ("norm2", ratJson (sumN (dA * dB) fun i => ψ i * (ψ i).conj).re),
    ("mod2", Json.arr ((arrayOfFn (dA * dB) fun i => (ψ i * (ψ i).conj).re).map ratJson))]

/-- exact data of an operator on `C^{dA} ⊗ C^{dB}` -/
def hOp : Handler := fun j => do
  let (dA, dB) ← getSize j
  let a ← getQIArray j "rho"
  let N := dA * dB
  if a.size != N * N then throw "operator size mismatch"
  let ρ := matFn a N
  let ampA := arrayOfMat (dA * dA) (dB * dB) (operatorAmp dA dB ρ)
  let amp := matFn ampA (dB * dB)
  let spec := realignAmp dA dB ρ
  let arg ← getDimArg j
  return Json.mkObj [
    ("rank_dimarg", optNatJson (arg.bind fun g => schmidtRankOpArg N g ρ)),
    ("rank", Json.num (rankQ (dA * dA) (dB * dB) amp : Nat)), ("rank_spec", Json.num (schmidtRankOpSpec dA dB ρ : Nat)),
    ("mirror_eq_spec", Json.bool (eqM (dA * dA) (dB * dB) amp spec)),
    ("is_product", Json.bool (isProductOp dA dB ρ)),
    ("purity", qiJson (purityM N ρ)), ("trace", qiJson (traceM N ρ)),
    ("hermitian", Json.bool (eqM N N ρ (ctr ρ)))]

/-- `(U ⊗ V) ρ (U ⊗ V)ᴴ` exactly, with the partial-transpose covariance checked on the instance -/
def hLocalUnitaryOp : Handler := fun j => do
  let (dA, dB) ← getSize j
  let N := dA * dB
  let a ← getQIArray j "rho"
  let Ua ← getQIArray j "U"
  let Va ← getQIArray j "V"
  if a.size != N * N || Ua.size != dA * dA || Va.size != dB * dB then throw "size mismatch"
  let ρ := matFn a N
  let U := matFn Ua dA
  let V := matFn Va dB
  let Wa := arrayOfMat N N (kron2 dB dB U V)
  let W := matFn Wa N
  let Wca := arrayOfMat N N (kron2 dB dB U (fun i k => (V i k).conj))
  let Wc := matFn Wca N
  let t1 := arrayOfMat N N (mmul N W ρ)
  let ρa := arrayOfMat N N (mmul N (matFn t1 N) (ctr W))
  let ρ' := matFn ρa N
  let lhs := pTB dB ρ'
  let t2 := arrayOfMat N N (mmul N Wc (pTB dB ρ))
  let rhsA := arrayOfMat N N (mmul N (matFn t2 N) (ctr Wc))
  let rhs := matFn rhsA N
  return Json.mkObj [
    ("unitaryU", Json.bool (isUnitary dA U)), ("unitaryV", Json.bool (isUnitary dB V)),
    ("rho", qiArrayJson ρa),
    ("pt_covariant", Json.bool (eqM N N lhs rhs)),
    ("purity_before", qiJson (purityM N ρ)), ("purity_after", qiJson (purityM N ρ')),
    ("rank_before", Json.num (schmidtRankOpSpec dA dB ρ : Nat)), ("rank_after", Json.num (schmidtRankOpSpec dA dB ρ' : Nat))]

/-- verified rank certificate: `A = B·C`, `L·A·R = 1_r` ⇒ `rank A = r` -/
def hRankCert : Handler := fun j => do
  let n ← getNat j "n"
  let m ← getNat j "m"
  let r ← getNat j "r"
  let rd (key : String) (p q : Nat) : Except String (EMat p q) := do
    let a ← getQIArray j key
    if a.size != p * q then throw s!"{key}: size mismatch"
    return EMat.ofFn fun i k => a[i.val * q + k.val]!
  let A ← rd "A" n m
  let B ← rd "B" n r
  let C ← rd "C" r m
  let L ← rd "L" r n
  let R ← rd "R" m r
  return Json.mkObj [("ok", Json.bool (rankCert A B C L R)), ("factor", Json.bool (A.beq (B.mul C))),
    ("inverse", Json.bool (((L.mul A).mul R).beq EMat.one))]

/-- closed forms from exact Schmidt coefficients -/
def hClosed : Handler := fun j => do
  let s ← getRatList j "s"
  let p := schmidtProbs s
  return Json.mkObj [
    ("negativity", ratJson (negativityClosed s)), ("logarg", ratJson (logNegArg s)),
    ("probs", Json.arr (p.map ratJson).toArray), ("norm2", ratJson (sumQ p)),
    ("support", Json.num (supportSize s : Nat)),
    ("concurrence", ratJson (concurrenceClosed (s.getD 0 0) (s.getD 1 0))),
    ("sk2", Json.arr (((List.range s.length).map fun k => ratJson (skVecNormSq p (k + 1))).toArray))]

/-! ### S(k) operator norm certificates (matrices in the `QJson` dyadic encoding `{"e":k,"re":[…],"im":[…]}`)

* `c14_sk_upper_ppt {"dA","dB","X","Y","LY","lam","LS"}` → `{"ok":[num,den]}` = the bound returned by the verified `checkSkUpperPPT`;
* `c14_sk_upper_red {"dA","dB","k","X","Y","LY","lam","LS"}` → the bound returned by `checkSkUpperRed k`;
* `c14_sk_upper_dps {"dA","dB","X","Y","LY","lam","t","LS"}` (`Y`, `LY`, `LS` of order `dA·dB·dB`) → the bound returned by `checkSkUpperDps` (two-copy level, k = 1);
* `c14_sk_lower {"dA","dB","k","X","Xs","Ys"}` → the Rayleigh quotient returned by `checkSkLower`;
rejections name the first failed condition (diagnostic only: the verdict is the one of the verified checker). -/

/-- why `psdCert A L` fails (`none` when it holds) -/
def psdWhy {n k : Nat} (A : EMat n n) (L : EMat n k) : Option String :=
  if !A.isHermitian then some "not_hermitian"
  else
    let R := A - L.mul L.ct
    if !R.isHermitian then some "residual_not_hermitian"
    else
      match (List.finRange n).find? fun i =>
          !decide (EMat.sumFinQ n (fun j => if j = i then 0 else (R.get i j).abs1) ≤ (R.get i i).re) with
      | some i => some s!"residual_not_diag_dominant_row_{i.val}"
      | none => if EMat.psdCert A L then none else some "psdCert_failed"

def skAnswer (r : Option Rat) (why : Unit → String) : Json :=
  match r with
  | some v => Json.mkObj [("ok", ratJson v)]
  | none => reject (why ())

def hSkUpperPPT : Handler := fun j => do
  let (dA, dB) ← getSize j
  let X ← getEMat j "X" (dA * dB) (dA * dB)
  let Y ← getEMat j "Y" (dA * dB) (dA * dB)
  let LY ← getEMat j "LY" (dA * dB) (dA * dB)
  let LS ← getEMat j "LS" (dA * dB) (dA * dB)
  let lam ← getRat j "lam"
  return skAnswer (checkSkUpperPPT X Y LY lam LS) fun _ =>
    match psdWhy Y LY with
    | some s => s!"Y_{s}"
    | none =>
      match psdWhy (slackPPT X Y lam) LS with
      | some s => s!"slack_{s}"
      | none => "rejected"

def hSkUpperRed : Handler := fun j => do
  let (dA, dB) ← getSize j
  let k ← getNat j "k"
  let X ← getEMat j "X" (dA * dB) (dA * dB)
  let Y ← getEMat j "Y" (dA * dB) (dA * dB)
  let LY ← getEMat j "LY" (dA * dB) (dA * dB)
  let LS ← getEMat j "LS" (dA * dB) (dA * dB)
  let lam ← getRat j "lam"
  return skAnswer (checkSkUpperRed k X Y LY lam LS) fun _ =>
    match psdWhy Y LY with
    | some s => s!"Y_{s}"
    | none =>
      match psdWhy (slackRed k X Y lam) LS with
      | some s => s!"slack_{s}"
      | none => "rejected"

def hSkLower : Handler := fun j => do
  let (dA, dB) ← getSize j
  let k ← getNat j "k"
  let X ← getEMat j "X" (dA * dB) (dA * dB)
  let Xs ← getEMat j "Xs" dA k
  let Ys ← getEMat j "Ys" dB k
  return skAnswer (checkSkLower X Xs Ys) fun _ =>
    if !colsOrthogonal Ys then "Ys_columns_not_orthogonal"
    else if !decide (0 < Toq.Sep.normSqV (skVector Xs Ys)) then "zero_vector"
    else "rejected"

def hSkUpperDps : Handler := fun j => do
  let (dA, dB) ← getSize j
  let X ← getEMat j "X" (dA * dB) (dA * dB)
  let Y ← getEMat j "Y" ((dA * dB) * dB) ((dA * dB) * dB)
  let LY ← getEMat j "LY" ((dA * dB) * dB) ((dA * dB) * dB)
  let LS ← getEMat j "LS" ((dA * dB) * dB) ((dA * dB) * dB)
  let lam ← getRat j "lam"
  let t ← getRat j "t"
  return skAnswer (checkSkUpperDps X Y LY lam t LS) fun _ =>
    match psdWhy Y LY with
    | some s => s!"Y_{s}"
    | none =>
      match psdWhy (slackDps X Y lam t) LS with
      | some s => s!"slack_{s}"
      | none => "rejected"

def handlers : List (String × Handler) :=
  [("c14_planted", hPlanted), ("c14_vec", hVec), ("c14_op", hOp), ("c14_local_unitary_op", hLocalUnitaryOp),
   ("c14_rank_cert", hRankCert), ("c14_closed", hClosed),
   ("c14_sk_upper_ppt", hSkUpperPPT), ("c14_sk_upper_red", hSkUpperRed), ("c14_sk_lower", hSkLower), ("c14_sk_upper_dps", hSkUpperDps)]

end Toq.Driver.C14
