import Toq.Driver.Util
/-! Driver handlers for C14 (stub; filled in by the owner of this property). -/
namespace Toq.Driver.C14
def handlers : List (String × Handler) := []
end Toq.Driver.C14
