import Toq.Driver.QJson
import Toq.Model.MatrixOps
import Toq.Model.MatrixPreds
import Toq.Model.MatrixPredsTol
import Toq.Model.MatrixPredsDet
/-! Driver front end for C16 (helper operations of `matrix_ops`, predicates of `matrix_props` /
`state_props`).

Exact matrices: `{"r":r,"c":c,"den":D,"re":[row-major ints],"im":[…]}` means entries `(re + i·im)/D`
(`den` defaults to 1, `im` to zeros).  Operations on Gaussian-integer data answer in the same encoding
with `den = 1`.  Predicates answer `{"v":"yes"|"no"|"unknown"}` or `{"reject":"<Enum>"}`. -/
open Lean Toq.MatrixOps Toq.MatrixPreds

namespace Toq.Driver.C16

def parseMat (j : Json) : Except String (Mat QI) := do
  let r ← getNat j "r"
  let c ← getNat j "c"
  let den : Nat := (getNat j "den").toOption.getD 1
  if den == 0 then throw "zero denominator"
  let re ← getIntArray j "re"
  let im := (getIntArray j "im").toOption.getD (Array.replicate (r * c) 0)
  if re.size != r * c || im.size != r * c then throw s!"matrix size mismatch: expected {r}x{c}, got {re.size}"
  let data : Array QI := (Array.range (r * c)).map fun k =>
    let a : Int := re[k]!
    let b : Int := im[k]!
    ⟨(a : Rat) / (den : Rat), (b : Rat) / (den : Rat)⟩
  return ⟨r, c, fun i j => data[i * c + j]!⟩

def getMat (j : Json) (key : String) : Except String (Mat QI) := do parseMat (← j.getObjVal? key)

def getMatList (j : Json) (key : String) : Except String (List (Mat QI)) := do
  let a ← (← j.getObjVal? key).getArr?
  a.toList.mapM parseMat

/-- integer (Gaussian) matrix -/
def parseGMat (j : Json) : Except String (Mat GI) := do
  let r ← getNat j "r"
  let c ← getNat j "c"
  let re ← getIntArray j "re"
  let im := (getIntArray j "im").toOption.getD (Array.replicate (r * c) 0)
  if re.size != r * c || im.size != r * c then throw s!"matrix size mismatch: expected {r}x{c}, got {re.size}"
  let data : Array GI := (Array.range (r * c)).map fun k => ⟨re[k]!, im[k]!⟩
  return ⟨r, c, fun i j => data[i * c + j]!⟩

def getGMat (j : Json) (key : String) : Except String (Mat GI) := do parseGMat (← j.getObjVal? key)

def getGMatList (j : Json) (key : String) : Except String (List (Mat GI)) := do
  let a ← (← j.getObjVal? key).getArr?
  a.toList.mapM parseGMat

def gmatJson (A : Mat GI) : Json :=
  let ents := arrayOfMat A.r A.c A.f
  Json.mkObj [("r", Json.num A.r), ("c", Json.num A.c),
    ("re", intArrayJson (ents.map (·.re))), ("im", intArrayJson (ents.map (·.im)))]

def verdictJson (v : Verdict) : Json := Json.mkObj [("v", Json.str v.str)]

def exceptVerdictJson (v : Except String Verdict) : Json :=
  match v with
  | .ok v => verdictJson v
  | .error e => reject e

/-! ### helper operations -/

def hVec : Handler := fun j => do
  let A ← getGMat j "A"
  return gmatJson (vec A)

def hUnvec : Handler := fun j => do
  let v ← getGMat j "v"                      -- any shape; only the flat (row-major) data and the size matter
  let size := v.r * v.c
  let flat : Nat → GI := fun k => v.f (k / v.c) (k % v.c)
  let shape : Option (Nat × Nat) ←
    if isNull j "shape" then pure none
    else do
      let l ← getNatList j "shape"
      match l with
      | [a, b] => pure (some (a, b))
      | _ => throw "shape: expected [r, c]"
  match unvec flat size shape with
  | some M => return gmatJson M
  | none => return reject "Reshape"

def hTensor : Handler := fun j => do
  let form ← (← j.getObjVal? "form").getStr?
  let mats ← getGMatList j "mats"
  let args : TensorArgs GI ←
    match form with
    | "list" => pure (TensorArgs.list mats)
    | "many" => pure (TensorArgs.many mats)
    | "power" =>
      match mats with
      | [a] => pure (TensorArgs.power a (← getNat j "n"))
      | _ => throw "power form: exactly one matrix"
    | _ => throw "unknown form"
  match tensor args with
  | .mat M => return gmatJson M
  | .pyNone => return Json.mkObj [("none", Json.bool true)]
  | .valueError => return reject "ValueError"

/-- the `n`-fold iterated product, for cross-checking `tensor(A, n)` against `tensor([A]*n)` -/
def hKronPow : Handler := fun j => do
  let A ← getGMat j "A"
  let n ← getNat j "n"
  return gmatJson (kronPow A n)

def hMul : Handler := fun j => do
  let A ← getGMat j "A"
  let B ← getGMat j "B"
  if A.c != B.r then return reject "Shape"
  return gmatJson (mul A B)

def hGram : Handler := fun j => do
  let V ← getGMat j "V"                      -- column k = k-th vector
  return gmatJson (gram V.r V.c (fun k a => V.f a k))

def parseShape (l : List Nat) : ArrShape :=
  match l with
  | [n] => .d1 n
  | [r, c] => .d2 r c
  | _ => .other

def hToDensity : Handler := fun j => do
  let shape ← getNatList j "shape"
  let re ← getIntArray j "re"
  let im := (getIntArray j "im").toOption.getD (Array.replicate re.size 0)
  let v : Nat → GI := fun k => ⟨re[k]!, im[k]!⟩
  match toDensityMatrix (parseShape shape) v with
  | some M => return gmatJson M
  | none => return reject "ValueError"

def hCalcDim : Handler := fun j => do
  let shape ← getNatList j "shape"
  match calcDim (parseShape shape) with
  | some n => return Json.mkObj [("dim", Json.num n)]
  | none => return reject "ValueError"

def hSameDim : Handler := fun j => do
  let a ← (← j.getObjVal? "shapes").getArr?
  let shapes ← a.toList.mapM asNatList
  match hasSameDimension (shapes.map parseShape) with
  | some b => return Json.mkObj [("v", Json.bool b)]
  | none => return reject "ValueError"

def hMajorizes : Handler := fun j => do
  let a ← getRatList j "a"
  let b ← getRatList j "b"
  -- optional `tol`: the starting value of `ctb` (the code uses `-‖a‖·eps^(3/4)`); absent = the exact criterion
  let tol : Rat := (getRat j "tol").toOption.getD 0
  return Json.mkObj [("v", Json.bool (majorizesTol a b tol)),
    ("a_sorted", Json.arr ((padTo (max a.length b.length) (sortDesc a)).map ratJson).toArray)]

def hRank : Handler := fun j => do
  let A ← getMat j "A"
  return Json.mkObj [("rank", Json.num (rank A.r A.c (QMat.ofMat A)))]

def hSpark : Handler := fun j => do
  let A ← getMat j "A"
  return Json.mkObj [("spark", Json.num (spark A.r A.c (QMat.ofMat A)))]

def hCommutantDim : Handler := fun j => do
  let dim ← getNat j "dim"
  let gens ← getMatList j "gens"
  if gens.any (fun A => A.r != dim || A.c != dim) then return reject "Shape"
  return Json.mkObj [("dim", Json.num (commutantDim dim gens))]

/-! ### predicates -/

def optNat (j : Json) (k : String) (d : Nat) : Nat := (getNat j k).toOption.getD d

/-- single-matrix (and two-matrix) predicates: `{"name":…, "A":mat, "margin":[num,den], …}` -/
def hPred : Handler := fun j => do
  let name ← (← j.getObjVal? "name").getStr?
  let A ← getMat j "A"
  let m ← getRat j "margin"
  match name with
  | "square" => return verdictJson (.ofBool (isSquare A))
  | "hermitian" => return verdictJson (hermitianV A m)
  | "anti_hermitian" => return verdictJson (antiHermitianV A m)
  | "symmetric" => return verdictJson (symmetricV A m)
  | "normal" => return verdictJson (normalV A m)
  | "unitary" => return verdictJson (unitaryV A m)
  | "pseudo_unitary" => return verdictJson (pseudoUnitaryV A (← getNat j "p") (← getNat j "q") m)
  | "pseudo_hermitian" => return exceptVerdictJson (pseudoHermitianVL A (← getMat j "B") m)
  | "identity" => return verdictJson (identityV A m)
  | "idempotent" => return verdictJson (idempotentV A m)
  | "projection" => return verdictJson (projectionV A m)
  | "diagonal" => return verdictJson (diagonalV A)
  | "diagonally_dominant" => return verdictJson (diagDominantV A (← getBool j "strict") m)
  | "circulant" => return verdictJson (circulantV A m)
  | "commuting" => return verdictJson (commutingV A (← getMat j "B") m)
  | "positive_semidefinite" => return verdictJson (psdV A m)
  | "positive_definite" => return verdictJson (pdV A m)
  | "density" => return verdictJson (densityV A m)
  | "nonnegative" => return verdictJson (nonnegativeV A)
  | "doubly_nonnegative" => return verdictJson (doublyNonnegativeV A m)
  | "positive" => return verdictJson (positiveV A)
  | "stochastic" => return verdictJson (stochasticV A (← getNat j "mat_type") m)
  | "permutation" => return verdictJson (permutationV A)
  | "totally_positive" =>
    let ss : Option (List Nat) ← if isNull j "sub_sizes" then pure none else (some <$> getNatList j "sub_sizes")
    return verdictJson (totallyPositiveVL A ss m)
  | "pure" => return verdictJson (pureV A m)
  | "mixed" => return verdictJson (mixedV A m)
  | _ => throw s!"unknown predicate {name}"

/-- predicates on a list of matrices: `pure_list`, `ensemble` -/
def hListPred : Handler := fun j => do
  let name ← (← j.getObjVal? "name").getStr?
  let As ← getMatList j "As"
  let m ← getRat j "margin"
  match name with
  | "pure_list" => return verdictJson (pureListV As m)
  | "ensemble" => return verdictJson (ensembleV As m)
  | _ => throw s!"unknown list predicate {name}"

/-- predicates on a set of vectors given as the columns of `V` (`d × n`) -/
def hSetPred : Handler := fun j => do
  let name ← (← j.getObjVal? "name").getStr?
  let V ← getMat j "V"
  let m ← getRat j "margin"
  let vs : Nat → Nat → QI := fun k a => V.f a k
  match name with
  | "linearly_independent" => return verdictJson (linIndepV V.r V.c vs)
  | "mutually_orthogonal" => return exceptVerdictJson (mutuallyOrthogonalV V.r V.c vs m)
  | "orthonormal" => return exceptVerdictJson (orthonormalV V.r V.c vs m)
  | _ => throw s!"unknown set predicate {name}"

/-- `{"V":mat (columns w_k), "s":[rat…], "defn":bool, "margin":…}` : the `k`-th vector is `w_k/√s_k` -/
def hMub : Handler := fun j => do
  let V ← getMat j "V"
  let s ← getRatList j "s"
  let defn ← getBool j "defn"
  let m ← getRat j "margin"
  if s.length != V.c then throw "s: wrong length"
  if s.any (fun x => x ≤ 0) then throw "s: must be positive"
  let d := optNat j "d" V.r
  return verdictJson (mubV d V.c (fun k a => V.f a k) (fun k => s.getD k 1) defn m)

def hUpb : Handler := fun j => do
  let V ← getMat j "V"
  let dims ← getNatList j "dims"
  let surj ← getBool j "surj"
  let m ← getRat j "margin"
  if dims.foldl (· * ·) 1 != V.r then return reject "DimMismatch"
  return exceptVerdictJson (upbV dims V.c (fun k a => V.f a k) surj m)

/-- `{"A":mat, "L":mat, "D":[rat…]}` : verified PSD certificate `A = L diag(D) Lᴴ`, `D ≥ 0` -/
def hPsdCert : Handler := fun j => do
  let A ← getMat j "A"
  let L ← getMat j "L"
  let D ← getRatList j "D"
  let n := A.r
  if A.c != n || L.r != n || L.c != n || D.length != n then return reject "Shape"
  return Json.mkObj [("ok", Json.bool (psdCertLDL (toEMat A n n) (toEMat L n n) (fun i => D.getD i.val 0)))]

/-- `{"A":mat, "x":mat (n×1), "mu":rat}` : verified certificate `xᴴ (A + mu I) x < 0` -/
def hNpsdCert : Handler := fun j => do
  let A ← getMat j "A"
  let x ← getMat j "x"
  let mu ← getRat j "mu"
  let n := A.r
  if A.c != n || x.r != n || x.c != 1 then return reject "Shape"
  return Json.mkObj [("ok", Json.bool (npsdCert (toEMat A n n) (toEMat x n 1) mu))]

/-- `{"V":mat d×n, "W":mat n×d}` : verified left inverse -/
def hLinIndepCert : Handler := fun j => do
  let V ← getMat j "V"
  let W ← getMat j "W"
  if W.r != V.c || W.c != V.r then return reject "Shape"
  return Json.mkObj [("ok", Json.bool (linIndepCert (toEMat V V.r V.c) (toEMat W V.c V.r)))]

/-- `{"V":mat d×n, "c":mat n×1}` : verified non-trivial null vector -/
def hLinDepCert : Handler := fun j => do
  let V ← getMat j "V"
  let c ← getMat j "c"
  if c.r != V.c || c.c != 1 then return reject "Shape"
  return Json.mkObj [("ok", Json.bool (linDepCert (toEMat V V.r V.c) (toEMat c V.c 1)))]

/-- `{"dim":n, "gens":[mat…], "P":…, "Q":…, "N":…, "M":…}` : verified rank / nullity of the linear system
    that `commutant` solves (built here from the generators); answers the certified nullity -/
def hCommutantCert : Handler := fun j => do
  let dim ← getNat j "dim"
  let gens ← getMatList j "gens"
  if gens.any (fun A => A.r != dim || A.c != dim) then return reject "Shape"
  let P ← getMat j "P"
  let Q ← getMat j "Q"
  let N ← getMat j "N"
  let M ← getMat j "M"
  let R := gens.length * dim * dim
  let C := dim * dim
  let r := P.r
  let k := N.c
  if P.c != R || Q.r != C || Q.c != r || N.r != C || M.r != k || M.c != C then return reject "Shape"
  let S := qmatToEMat (commStack dim gens) R C
  let ok := rankCert S (toEMat P r R) (toEMat Q C r) (toEMat N C k) (toEMat M k C)
  return Json.mkObj [("ok", Json.bool ok), ("nullity", Json.num k), ("rank", Json.num r)]


/-! ### tolerance-level mirrors (`Toq/Model/MatrixPredsTol.lean`) -/

def exceptBoolJson (v : Except String Bool) : Json :=
  match v with
  | .ok b => Json.bool b
  | .error e => Json.mkObj [("reject", Json.str e)]

/-- evaluate a tolerance-level mirror at the tolerances scaled by `1 - eps`, `1`, `1 + eps`: `{"v":…, "lo":…, "hi":…}`
    (a verdict is robust against rounding inside the implementation when `lo = hi`) -/
def threeWay (eps : Rat) (f : Rat → Json) : Json :=
  Json.mkObj [("v", f 1), ("lo", f (1 - eps)), ("hi", f (1 + eps))]

/-- `{"name":…, "A":mat, "rtol":rat, "atol":rat, "eps":rat, …}`; for the predicates without tolerance arguments `rtol`/`atol`
    must be the defaults (they are only used to scale) -/
def hTolPred : Handler := fun j => do
  let name ← (← j.getObjVal? "name").getStr?
  let A ← getMat j "A"
  let rtol ← getRat j "rtol"
  let atol ← getRat j "atol"
  let eps ← getRat j "eps"
  let b := fun (g : Rat → Rat → Bool) => threeWay eps (fun s => Json.bool (g (s * rtol) (s * atol)))
  let e := fun (g : Rat → Rat → Except String Bool) => threeWay eps (fun s => exceptBoolJson (g (s * rtol) (s * atol)))
  match name with
  | "hermitian" => return b (hermitianT A)
  | "anti_hermitian" => return b (antiHermitianT A)
  | "symmetric" => return b (symmetricT A)
  | "normal" => return b (normalT A)
  | "unitary" => return b (unitaryT A)
  | "identity" => return b (identityT A)
  | "idempotent" => return b (idempotentT A)
  | "projection" => return b (projectionT A)
  | "positive_semidefinite" => return b (psdT A)
  | "pseudo_unitary" =>
    let p ← getInt j "p"
    let q ← getInt j "q"
    return e (pseudoUnitaryT A p q)
  | "pseudo_hermitian" =>
    let B ← getMat j "B"
    return e (pseudoHermitianT A B)
  -- functions without tolerance arguments (`rtol`, `atol` must be the defaults of `np.allclose`)
  | "circulant" => return b (circulantTol A)
  | "commuting" =>
    let B ← getMat j "B"
    return b (commutingTol A B)
  | "density" => return b (densityTol A)
  | "nonnegative" =>
    let t ← getNat j "mat_type"
    return e (nonnegativeTol A t)
  | "stochastic" =>
    let t ← getNat j "mat_type"
    return e (stochasticTol A t)
  | "totally_positive" =>
    -- `rtol` is not used, `atol` carries the argument `tol`
    let ss : Option (List Nat) ← if isNull j "sub_sizes" then pure none else (some <$> getNatList j "sub_sizes")
    return threeWay eps (fun s => exceptBoolJson (totallyPositiveT A (s * atol) ss))
  | "diagonal" => return threeWay eps (fun _ => Json.bool (diagonalTrick A))      -- no tolerance: exact zeros
  | "mutually_orthogonal" => return e (mutuallyOrthogonalTol A.r A.c (fun k a => A.f a k))
  | "orthonormal" => return e (orthonormalTol A.r A.c (fun k a => A.f a k))
  | _ => throw s!"unknown tolerance predicate {name}"

/-- lists of operators: `is_ensemble` -/
def hTolEnsemble : Handler := fun j => do
  let As ← getMatList j "As"
  let rtol ← getRat j "rtol"
  let atol ← getRat j "atol"
  let eps ← getRat j "eps"
  return threeWay eps (fun s => Json.bool (ensembleTol As (s * rtol) (s * atol)))


/-- `{"states":[mat…], "k":k, "is1d":bool}` : `tensor_comb` on Gaussian-integer states -/
def hTensorComb : Handler := fun j => do
  let states ← getGMatList j "states"
  let k ← getNat j "k"
  let is1d ← getBool j "is1d"
  match tensorComb is1d states k with
  | none => return reject "ValueError"
  | some l =>
    return Json.mkObj [("entries", Json.arr (l.map fun (seq, d) => Json.mkObj [("seq", natListJson seq), ("rho", gmatJson d)]).toArray)]

/-- argument guards of the helpers: `{"name":…, "shape":[…] | "shapes":[[…]…], "ndarray":bool}` -/
def hGuard : Handler := fun j => do
  let name ← (← j.getObjVal? "name").getStr?
  match name with
  | "is_square" =>
    match isSquareShape (parseShape (← getNatList j "shape")) with
    | some b => return Json.mkObj [("v", Json.bool b)]
    | none => return reject "ValueError"
  | "spark" =>
    if sparkGuard (← getBool j "ndarray") (parseShape (← getNatList j "shape")) then return Json.mkObj [("ok", Json.bool true)]
    else return reject "ValueError"
  | "gram" =>
    let a ← (← j.getObjVal? "shapes").getArr?
    let shapes ← a.toList.mapM asNatList
    if gramGuard (shapes.map parseShape) then return Json.mkObj [("ok", Json.bool true)] else return reject "ValueError"
  | "from_gram" =>
    match ← getNatList j "shape" with
    | [r, c] => if fromGramGuard r c then return Json.mkObj [("ok", Json.bool true)] else return reject "LinAlgError"
    | _ => throw "shape: expected [r, c]"
  | "calc_dim_list" => return reject "ValueError"      -- `if not isinstance(item, np.ndarray): raise ValueError`
  | _ => throw s!"unknown guard {name}"

def handlers : List (String × Handler) :=
  [("c16_vec", hVec), ("c16_unvec", hUnvec), ("c16_tensor", hTensor), ("c16_kron_pow", hKronPow),
   ("c16_mul", hMul), ("c16_gram", hGram), ("c16_to_density", hToDensity), ("c16_calc_dim", hCalcDim),
   ("c16_same_dim", hSameDim), ("c16_majorizes", hMajorizes), ("c16_rank", hRank), ("c16_spark", hSpark),
   ("c16_commutant_dim", hCommutantDim), ("c16_pred", hPred), ("c16_list_pred", hListPred),
   ("c16_set_pred", hSetPred), ("c16_mub", hMub), ("c16_upb", hUpb),
   ("c16_psd_cert", hPsdCert), ("c16_npsd_cert", hNpsdCert),
   ("c16_tol_pred", hTolPred), ("c16_tensor_comb", hTensorComb), ("c16_guard", hGuard), ("c16_tol_ensemble", hTolEnsemble),
   ("c16_linindep_cert", hLinIndepCert), ("c16_lindep_cert", hLinDepCert), ("c16_commutant_cert", hCommutantCert)]

end Toq.Driver.C16
