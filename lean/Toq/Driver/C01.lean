import Toq.Driver.Util
import Toq.Model.Perms
import Toq.Model.PermsArgs
/-! Driver front end for C01: argument normalisation of `permute_systems`, `swap`,
`permutation_operator`, `swap_operator`, then the mirror model. -/
open Lean Toq.Perms

namespace Toq.Driver.C01

-- `iroot` (exact integer root for the omitted-`dim` form) and `swapPermList` (`swap.py`'s permutation
-- list) live in `Toq/Model/PermsArgs.lean`; `Toq.C01.dim_omitted_root` / `swap_eq_transposition` are
-- the theorems about them.

inductive DimArg where
  | none
  | one (d : List Nat)
  | two (r c : List Nat)

def parseDim (j : Json) : Except String DimArg := do
  if isNull j "dim" then return .none
  let v ← j.getObjVal? "dim"
  let a ← v.getArr?
  match (a[0]? : Option Json) with
  | some (Json.arr _) =>
    let r ← asNatList a[0]!
    let c ← asNatList a[1]!
    return .two r c
  | _ => return .one (← asNatList v)

/-- `permute_systems` on a labelled integer array, in its accepted input forms.
    `shape` has length 1 (1-D vector) or 2. -/
def permuteSystems (shape : List Nat) (data : Array Int) (perm : List Nat) (dim : DimArg)
    (rowOnly inv : Bool) : Except String Json := do
  let (r, c) := match shape with
    | [m] => (1, m)
    | [a, b] => (a, b)
    | _ => (0, 0)
  let isVec := min r c == 1
  let n := perm.length
  let vecOrien := if shape.length > 1 then 0 else 1
  -- dimension normalisation
  let dims2 : Option (List Nat × List Nat) :=
    match dim with
    | .none =>
      match iroot r n, iroot c n with
      | some x, some y => some (List.replicate n x, List.replicate n y)
      | _, _ => none
    | .one d =>
      if isVec then
        if vecOrien == 0 then some (d, List.replicate d.length 1) else some (List.replicate d.length 1, d)
      else some (d, d)
    | .two a b => some (a, b)
  let p := fnOfList perm
  if !(isPerm n p) then return reject "InvalidPerm"
  match dims2 with
  | none => return reject "InvalidDim"
  | some (rd, cd) =>
    let prodR := rd.foldl (· * ·) 1
    let prodC := cd.foldl (· * ·) 1
    if r != prodR || (!rowOnly && c != prodC) then return reject "InvalidDim"
    if isVec then
      -- `if input_mat.shape[0] == 1: vec_orien = 1`
      let vo := if shape.length > 1 && r == 1 then 1 else vecOrien
      let d := if vo == 0 then rd else cd
      let N := data.size
      let out := arrayOfFn N (permuteVec (fnOfArray data) n p (fnOfList d) inv)
      return Json.mkObj [("shape", natListJson [N]), ("data", intArrayJson out)]
    else
      let out := arrayOfMat r c (permuteMat (matOfArray data c) n p (fnOfList rd) (fnOfList cd) rowOnly inv)
      return Json.mkObj [("shape", natListJson [r, c]), ("data", intArrayJson out)]

def hPermuteSystems : Handler := fun j => do
  let shape ← getNatList j "shape"
  let data ← getIntArray j "data"
  let perm ← getNatList j "perm"
  let dim ← parseDim j
  let rowOnly ← getBool j "row_only"
  let inv ← getBool j "inv"
  permuteSystems shape data perm dim rowOnly inv

/-- `swap(rho, sys, dim, row_only)` with 1-indexed `sys` (list `dim` forms only; the scalar form is
    normalised by the harness exactly as the code does: `[[d, r/d],[d, c/d]]`) -/
def hSwap : Handler := fun j => do
  let shape ← getNatList j "shape"
  let data ← getIntArray j "data"
  let sys ← getNatList j "sys"
  let dim ← parseDim j
  let rowOnly ← getBool j "row_only"
  let (r, c) := match shape with
    | [m] => (1, m)
    | [a, b] => (a, b)
    | _ => (0, 0)
  let dim' : DimArg := match dim with
    | .none =>
      let rr := Nat.sqrt r; let cc := Nat.sqrt c
      .two [rr, rr] [cc, cc]
    | d => d
  let n := match dim' with
    | .one d => d.length
    | .two _ _ => 2    -- `len(dim)` of a 2×n array is 2
    | .none => 2
  match sys with
  | [s1, s2] =>
    if s1 < 1 || s2 < 1 || s1 > n || s2 > n then return reject "InvalidSys"
    let perm := swapPermList n (s1 - 1) (s2 - 1)   -- = listOfFn n (swapPerm …) (`swap_eq_transposition`)
    permuteSystems shape data perm dim' rowOnly false
  | _ => return reject "InvalidSys"

/-- `permutation_operator(dim, perm, inv_perm)` as an integer matrix -/
def hPermOp : Handler := fun j => do
  let dim ← getNatList j "dim"
  let perm ← getNatList j "perm"
  let inv ← getBool j "inv"
  let n := perm.length
  let p := fnOfList perm
  if !(isPerm n p) then return reject "InvalidPerm"
  let N := dim.foldl (· * ·) 1
  if dim.length != n then return reject "InvalidDim"
  let out := arrayOfMat N N (permOp (α := Int) n p (fnOfList dim) inv)
  return Json.mkObj [("shape", natListJson [N, N]), ("data", intArrayJson out)]

def handlers : List (String × Handler) :=
  [("permute_systems", hPermuteSystems), ("swap", hSwap), ("permutation_operator", hPermOp)]

end Toq.Driver.C01
