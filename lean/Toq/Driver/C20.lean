import Toq.Driver.QJson
import Toq.Model.ChanMetrics
import Toq.Model.ChanMetricsPath
/-! Driver front end for C20 (channel distance measures: certificate checkers of `Toq.Model.ChanMetrics`).

Ops (matrices in the `QJson` dyadic encoding, row-major; Choi matrices on `X ⊗ Y` with index `x·dY + y`, `N = dX·dY`;
rationals as `[num, den]` or an integer):

* `c20_cb_primal {"dX","dY","J":N×N,"rho0":dX×dX,"rho1":dX×dX,"X":N×N,"Lb":2N×2N,"L0":dX×dX,"L1":dX×dX}`
* `c20_cb_dual   {"dX","dY","J":N×N,"Y0":N×N,"Y1":N×N,"c0":rat,"c1":rat,"Lb":2N×2N,"L0":dX×dX,"L1":dX×dX}`
* `c20_cf_primal {"dX","dY","J1":N×N,"J2":N×N,"Q":N×N,"lam":rat,"Lb":2N×2N,"Lc":dX×dX}`
* `c20_cf_dual   {"dX","dY","J1":N×N,"J2":N×N,"rho":dX×dX,"W0":N×N,"W1":N×N,"Lrho":dX×dX,"Lb":2N×2N}`

Answer `{"ok":[num,den]}` (the exact value returned by the verified checker) or `{"reject":"<first failed condition>"}`.
The verdict is always the one of the verified checker; the diagnostic only words a rejection by re-evaluating the same
named conditions.

Code paths and programs (`Toq.Model.ChanMetricsPath`; exact matrices are answered as `{"re":[[num,den]…],"im":[…]}` row-major):

* `c20_cb_path {"rows","cols"[,"J":rows×rows,"L":rows×k,"k","v":rows×1]}` → `{"path":"not_square|channel_one|cp_shortcut|sdp|undecided",
  "cp","tp":"yes|no|unknown"[,"dim":n][,"value":{"re":rat,"im":rat}]}` (`value`: 1 on `channel_one`, the entry of the 1×1 matrix the
  CP shortcut computes on `cp_shortcut`); `{"reject":"NotPerfectSquare"}` when `rows` is not a square number
* `c20_cf_path {"r1","c1","r2","c2"}` → `{"path":"shape_mismatch|not_square|sdp"[,"choi_dim","dim"]}`
* `c20_dual_choi {"dX","dY","J"}` → `{"D":mat}` (mirror of `dual_channel` on a Choi matrix)
* `c20_cb_program {"dX","dY","J","Y0","Y1"}` → `{"block":mat 2N×2N,"T0":mat dX×dX,"T1":mat dX×dX}` (the constraint matrix
  `[[Y0,−J],[−Jᴴ,Y1]]` and the two partial traces whose spectral norms are the objective)
* `c20_cf_program {"dX","dY","J1","J2","Q","lam"}` → `{"block":mat 2N×2N,"slack":mat dX×dX}` (`[[J1,Qᴴ],[Q,J2]]` and
  `½(Tr_Y Q + (Tr_Y Q)ᴴ) − lam·1`) -/
open Lean Toq.ChanMetrics EMat

namespace Toq.Driver.C20

/-- first index at which `p` fails -/
def firstFail (k : Nat) (p : Fin k → Bool) : Option Nat :=
  ((List.finRange k).find? fun i => !p i).map (·.val)

/-- why `psdCert A L` fails (`none` when it holds) -/
def psdWhy {n k : Nat} (A : EMat n n) (L : EMat n k) : Option String :=
  if !A.isHermitian then some "not_hermitian"
  else
    let R := A - L.mul L.ct
    if !R.isHermitian then some "residual_not_hermitian"
    else
      match firstFail n fun i =>
          decide (sumFinQ n (fun j => if j = i then 0 else (R.get i j).abs1) ≤ (R.get i i).re) with
      | some i => some s!"residual_not_diag_dominant_row_{i}"
      | none => if psdCert A L then none else some "psdCert_failed"

def densityWhy {n : Nat} (ρ L : EMat n n) : Option String :=
  match psdWhy ρ L with
  | some s => some s
  | none => if traceIsOne ρ then none else some "trace_not_one"

def answer (r : Option Rat) (why : Unit → String) : Json :=
  match r with
  | some v => Json.mkObj [("ok", ratJson v)]
  | none => reject (why ())

/-- first named condition that fails -/
def firstWhy (l : List (String × Option String)) : String :=
  match l.findSome? fun (name, w) => w.map fun s => s!"{name}_{s}" with
  | some s => s
  | none => "rejected"

def hCbPrimal : Handler := fun j => do
  let dX ← getNat j "dX"
  let dY ← getNat j "dY"
  let J ← getEMat j "J" (dX * dY) (dX * dY)
  let ρ0 ← getEMat j "rho0" dX dX
  let ρ1 ← getEMat j "rho1" dX dX
  let X ← getEMat j "X" (dX * dY) (dX * dY)
  let Lb ← getEMat j "Lb" (dX * dY + dX * dY) (dX * dY + dX * dY)
  let L0 ← getEMat j "L0" dX dX
  let L1 ← getEMat j "L1" dX dX
  return answer (checkCbPrimal dX dY J ρ0 ρ1 X Lb L0 L1) fun _ =>
    firstWhy [("rho0", densityWhy ρ0 L0), ("rho1", densityWhy ρ1 L1),
      ("block", psdWhy (cbPrimalBlock dX dY ρ0 ρ1 X) Lb)]

def hCbDual : Handler := fun j => do
  let dX ← getNat j "dX"
  let dY ← getNat j "dY"
  let J ← getEMat j "J" (dX * dY) (dX * dY)
  let Y0 ← getEMat j "Y0" (dX * dY) (dX * dY)
  let Y1 ← getEMat j "Y1" (dX * dY) (dX * dY)
  let c0 ← getRat j "c0"
  let c1 ← getRat j "c1"
  let Lb ← getEMat j "Lb" (dX * dY + dX * dY) (dX * dY + dX * dY)
  let L0 ← getEMat j "L0" dX dX
  let L1 ← getEMat j "L1" dX dX
  return answer (checkCbDual dX dY J Y0 Y1 c0 c1 Lb L0 L1) fun _ =>
    firstWhy [("block", psdWhy (cbDualBlock J Y0 Y1) Lb),
      ("c0_minus_trY_Y0", psdWhy (scalar c0 - ptrY dX dY Y0) L0),
      ("c1_minus_trY_Y1", psdWhy (scalar c1 - ptrY dX dY Y1) L1)]

def hCfPrimal : Handler := fun j => do
  let dX ← getNat j "dX"
  let dY ← getNat j "dY"
  let J1 ← getEMat j "J1" (dX * dY) (dX * dY)
  let J2 ← getEMat j "J2" (dX * dY) (dX * dY)
  let Q ← getEMat j "Q" (dX * dY) (dX * dY)
  let lam ← getRat j "lam"
  let Lb ← getEMat j "Lb" (dX * dY + dX * dY) (dX * dY + dX * dY)
  let Lc ← getEMat j "Lc" dX dX
  return answer (checkCfPrimal dX dY J1 J2 Q lam Lb Lc) fun _ =>
    firstWhy [("lam", if decide (0 ≤ lam) then none else some "negative"),
      ("block", psdWhy (cfPrimalBlock J1 J2 Q) Lb),
      ("herm_trY_Q_minus_lam", psdWhy (hermPart (ptrY dX dY Q) - scalar lam) Lc)]

def hCfDual : Handler := fun j => do
  let dX ← getNat j "dX"
  let dY ← getNat j "dY"
  let J1 ← getEMat j "J1" (dX * dY) (dX * dY)
  let J2 ← getEMat j "J2" (dX * dY) (dX * dY)
  let ρ ← getEMat j "rho" dX dX
  let W0 ← getEMat j "W0" (dX * dY) (dX * dY)
  let W1 ← getEMat j "W1" (dX * dY) (dX * dY)
  let Lρ ← getEMat j "Lrho" dX dX
  let Lb ← getEMat j "Lb" (dX * dY + dX * dY) (dX * dY + dX * dY)
  return answer (checkCfDual dX dY J1 J2 ρ W0 W1 Lρ Lb) fun _ =>
    firstWhy [("rho", densityWhy ρ Lρ), ("block", psdWhy (cfDualBlock dX dY ρ W0 W1) Lb)]

/-! ### code paths and programs -/

def ematJson {n m : Nat} (A : EMat n m) : Json :=
  let cells := (List.finRange n).flatMap fun i => (List.finRange m).map fun c => A.get i c
  Json.mkObj [("re", Json.arr (cells.map fun z => ratJson z.re).toArray),
    ("im", Json.arr (cells.map fun z => ratJson z.im).toArray)]

def qiJson (z : QI) : Json := Json.mkObj [("re", ratJson z.re), ("im", ratJson z.im)]

open Toq.ChannelProps in
def hCbPath : Handler := fun j => do
  let rows ← getNat j "rows"
  let cols ← getNat j "cols"
  if rows != cols then
    return Json.mkObj [("path", Json.str (cbPath rows cols .unknown .unknown).str)]
  let d := roundSqrt rows
  if rows = d * d then
    let J : EMat (d * d) (d * d) ← getEMat j "J" (d * d) (d * d)
    let v : Option (EMat (d * d) 1) ← if isNull j "v" then pure none else (some <$> getEMat j "v" (d * d) 1)
    let k := (getNat j "k").toOption.getD 0
    let L : Option (EMat (d * d) k) ← if isNull j "L" then pure none else (some <$> getEMat j "L" (d * d) k)
    let cp := psdV J L v
    let tp := tpV J
    let path := cbPath rows cols cp tp
    let base := [("path", Json.str path.str), ("cp", Json.str cp.str), ("tp", Json.str tp.str)]
    match path with
    | .channelOne => return Json.mkObj (base ++ [("value", qiJson 1)])
    | .cpShortcut => return Json.mkObj (base ++ [("value", qiJson (cpShortcutAsCoded d J))])
    | .sdp dim => return Json.mkObj (base ++ [("dim", Json.num dim)])
    | _ => return Json.mkObj base
  else
    return reject "NotPerfectSquare"

def hCfPath : Handler := fun j => do
  let r1 ← getNat j "r1"
  let c1 ← getNat j "c1"
  let r2 ← getNat j "r2"
  let c2 ← getNat j "c2"
  match cfPath r1 c1 r2 c2 with
  | .shapeMismatch => return Json.mkObj [("path", Json.str "shape_mismatch")]
  | .notSquare => return Json.mkObj [("path", Json.str "not_square")]
  | .sdp n dim => return Json.mkObj [("path", Json.str "sdp"), ("choi_dim", Json.num n), ("dim", Json.num dim)]

def hDualChoi : Handler := fun j => do
  let dX ← getNat j "dX"
  let dY ← getNat j "dY"
  let J ← getEMat j "J" (dX * dY) (dX * dY)
  return Json.mkObj [("D", ematJson (dualChoiE dX dY J))]

def hCbProgram : Handler := fun j => do
  let dX ← getNat j "dX"
  let dY ← getNat j "dY"
  let J ← getEMat j "J" (dX * dY) (dX * dY)
  let Y0 ← getEMat j "Y0" (dX * dY) (dX * dY)
  let Y1 ← getEMat j "Y1" (dX * dY) (dX * dY)
  return Json.mkObj [("block", ematJson (cbDualBlock J Y0 Y1)), ("T0", ematJson (ptrY dX dY Y0)),
    ("T1", ematJson (ptrY dX dY Y1))]

def hCfProgram : Handler := fun j => do
  let dX ← getNat j "dX"
  let dY ← getNat j "dY"
  let J1 ← getEMat j "J1" (dX * dY) (dX * dY)
  let J2 ← getEMat j "J2" (dX * dY) (dX * dY)
  let Q ← getEMat j "Q" (dX * dY) (dX * dY)
  let lam ← getRat j "lam"
  return Json.mkObj [("block", ematJson (cfPrimalBlock J1 J2 Q)), ("slack", ematJson (cfLoewnerSlack dX dY Q lam))]

def handlers : List (String × Handler) :=
  [("c20_cb_primal", hCbPrimal), ("c20_cb_dual", hCbDual), ("c20_cf_primal", hCfPrimal), ("c20_cf_dual", hCfDual),
   ("c20_cb_path", hCbPath), ("c20_cf_path", hCfPath), ("c20_dual_choi", hDualChoi), ("c20_cb_program", hCbProgram),
   ("c20_cf_program", hCfProgram)]

end Toq.Driver.C20
