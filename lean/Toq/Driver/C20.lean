import Toq.Driver.Util
/-! Driver handlers for C20 (stub; filled in by the owner of this property). -/
namespace Toq.Driver.C20
def handlers : List (String × Handler) := []
end Toq.Driver.C20
