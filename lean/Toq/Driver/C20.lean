import Toq.Driver.QJson
import Toq.Model.ChanMetrics
import Toq.Model.ChanMetricsPath
import Toq.Model.ChanMetricsFos
/-! Driver front end for C20 (channel distance measures: certificate checkers of `Toq.Model.ChanMetrics`).

Ops (matrices in the `QJson` dyadic encoding, row-major; Choi matrices on `X ⊗ Y` with index `x·dY + y`, `N = dX·dY`;
rationals as `[num, den]` or an integer):

* `c20_cb_primal {"dX","dY","J":N×N,"rho0":dX×dX,"rho1":dX×dX,"X":N×N,"Lb":2N×2N,"L0":dX×dX,"L1":dX×dX}`
* `c20_cb_dual   {"dX","dY","J":N×N,"Y0":N×N,"Y1":N×N,"c0":rat,"c1":rat,"Lb":2N×2N,"L0":dX×dX,"L1":dX×dX}`
* `c20_cf_primal {"dX","dY","J1":N×N,"J2":N×N,"Q":N×N,"lam":rat,"Lb":2N×2N,"Lc":dX×dX}`
* `c20_cf_dual   {"dX","dY","J1":N×N,"J2":N×N,"rho":dX×dX,"W0":N×N,"W1":N×N,"Lrho":dX×dX,"Lb":2N×2N}`

Answer `{"ok":[num,den]}` (the exact value returned by the verified checker) or `{"reject":"<first failed condition>"}`.
The verdict is always the one of the verified checker; the diagnostic only words a rejection by re-evaluating the same
named conditions.

Code paths and programs (`Toq.Model.ChanMetricsPath`; exact matrices are answered as `{"re":[[num,den]…],"im":[…]}` row-major):

* `c20_cb_path {"rows","cols"[,"J":rows×rows,"L":rows×k,"k","v":rows×1]}` → `{"path":"not_square|channel_one|cp_shortcut|sdp|undecided",
  "cp","tp":"yes|no|unknown"[,"dim":n][,"value":{"re":rat,"im":rat}]}` (`value`: 1 on `channel_one`, the entry of the 1×1 matrix the
  CP shortcut computes on `cp_shortcut`); `{"reject":"NotPerfectSquare"}` when `rows` is not a square number
* `c20_cf_path {"r1","c1","r2","c2"}` → `{"path":"shape_mismatch|not_square|sdp"[,"choi_dim","dim"]}`
* `c20_dual_choi {"dX","dY","J"}` → `{"D":mat}` (mirror of `dual_channel` on a Choi matrix)
* `c20_cb_program {"dX","dY","J","Y0","Y1"}` → `{"block":mat 2N×2N,"T0":mat dX×dX,"T1":mat dX×dX}` (the constraint matrix
  `[[Y0,−J],[−Jᴴ,Y1]]` and the two partial traces whose spectral norms are the objective)
* `c20_cf_program {"dX","dY","J1","J2","Q","lam"}` → `{"block":mat 2N×2N,"slack":mat dX×dX}` (`[[J1,Qᴴ],[Q,J2]]` and
  `½(Tr_Y Q + (Tr_Y Q)ᴴ) − lam·1`)

Channel `fidelity_of_separability` (`Toq.Model.ChanMetricsFos`; rational matrices go in as `{"den":D,"re":[ints],"im":[ints]}` = entries
`(re + i·im)/D`, row-major):

* `c20_fos_path {"n","dims":[…],"rho":n×n[,"L":n×k,"k","v":n×1]}` → `{"path":"not_density|not_tripartite|not_pure|program|undecided",
  "density","psd","trace","pure":"yes|no|unknown"[,"dR","dA","dB"]}` (the cascade of guards on exact verdicts)
* `c20_fos_program {"dB","dA","dR","k","psi":(dB·dA·dR)²,"choi":(dR·dA^k)²}` → every expression of the picos problem at the point `choi`:
  `{"forms_agree":bool (the line-by-line mirror `exprs` and the index-tuple form `tupleExprs` agree exactly in every expression),"dim_choi","choi_dims","sys_ext","psi_rab":mat,"choi_partial":mat,"trace":mat dR×dR (partial_trace(choi,[1..k]) − I),
  "sym":mat ((I⊗sym) choi (I⊗sym) − choi),"pts":[mat…] (partial_transpose(choi,[1..i]), i = 1…k),"obj":{"re","im"} (tr(pi_sym·…))}`
* `c20_fos_return {"v":rat}` → `{"value":rat}` (`2·v − 1`) -/
open Lean Toq.ChanMetrics EMat

namespace Toq.Driver.C20

/-- first index at which `p` fails -/
def firstFail (k : Nat) (p : Fin k → Bool) : Option Nat :=
  ((List.finRange k).find? fun i => !p i).map (·.val)

/-- why `psdCert A L` fails (`none` when it holds) -/
def psdWhy {n k : Nat} (A : EMat n n) (L : EMat n k) : Option String :=
  if !A.isHermitian then some "not_hermitian"
  else
    let R := A - L.mul L.ct
    if !R.isHermitian then some "residual_not_hermitian"
    else
      match firstFail n fun i =>
          decide (sumFinQ n (fun j => if j = i then 0 else (R.get i j).abs1) ≤ (R.get i i).re) with
      | some i => some s!"residual_not_diag_dominant_row_{i}"
      | none => if psdCert A L then none else some "psdCert_failed"

def densityWhy {n : Nat} (ρ L : EMat n n) : Option String :=
  match psdWhy ρ L with
  | some s => some s
  | none => if traceIsOne ρ then none else some "trace_not_one"

def answer (r : Option Rat) (why : Unit → String) : Json :=
  match r with
  | some v => Json.mkObj [("ok", ratJson v)]
  | none => reject (why ())

/-- first named condition that fails -/
def firstWhy (l : List (String × Option String)) : String :=
  match l.findSome? fun (name, w) => w.map fun s => s!"{name}_{s}" with
  | some s => s
  | none => "rejected"

def hCbPrimal : Handler := fun j => do
  let dX ← getNat j "dX"
  let dY ← getNat j "dY"
  let J ← getEMat j "J" (dX * dY) (dX * dY)
  let ρ0 ← getEMat j "rho0" dX dX
  let ρ1 ← getEMat j "rho1" dX dX
  let X ← getEMat j "X" (dX * dY) (dX * dY)
  let Lb ← getEMat j "Lb" (dX * dY + dX * dY) (dX * dY + dX * dY)
  let L0 ← getEMat j "L0" dX dX
  let L1 ← getEMat j "L1" dX dX
  return answer (checkCbPrimal dX dY J ρ0 ρ1 X Lb L0 L1) fun _ =>
    firstWhy [("rho0", densityWhy ρ0 L0), ("rho1", densityWhy ρ1 L1),
      ("block", psdWhy (cbPrimalBlock dX dY ρ0 ρ1 X) Lb)]

def hCbDual : Handler := fun j => do
  let dX ← getNat j "dX"
  let dY ← getNat j "dY"
  let J ← getEMat j "J" (dX * dY) (dX * dY)
  let Y0 ← getEMat j "Y0" (dX * dY) (dX * dY)
  let Y1 ← getEMat j "Y1" (dX * dY) (dX * dY)
  let c0 ← getRat j "c0"
  let c1 ← getRat j "c1"
  let Lb ← getEMat j "Lb" (dX * dY + dX * dY) (dX * dY + dX * dY)
  let L0 ← getEMat j "L0" dX dX
  let L1 ← getEMat j "L1" dX dX
  return answer (checkCbDual dX dY J Y0 Y1 c0 c1 Lb L0 L1) fun _ =>
    firstWhy [("block", psdWhy (cbDualBlock J Y0 Y1) Lb),
      ("c0_minus_trY_Y0", psdWhy (scalar c0 - ptrY dX dY Y0) L0),
      ("c1_minus_trY_Y1", psdWhy (scalar c1 - ptrY dX dY Y1) L1)]

def hCfPrimal : Handler := fun j => do
  let dX ← getNat j "dX"
  let dY ← getNat j "dY"
  let J1 ← getEMat j "J1" (dX * dY) (dX * dY)
  let J2 ← getEMat j "J2" (dX * dY) (dX * dY)
  let Q ← getEMat j "Q" (dX * dY) (dX * dY)
  let lam ← getRat j "lam"
  let Lb ← getEMat j "Lb" (dX * dY + dX * dY) (dX * dY + dX * dY)
  let Lc ← getEMat j "Lc" dX dX
  return answer (checkCfPrimal dX dY J1 J2 Q lam Lb Lc) fun _ =>
    firstWhy [("lam", if decide (0 ≤ lam) then none else some "negative"),
      ("block", psdWhy (cfPrimalBlock J1 J2 Q) Lb),
      ("herm_trY_Q_minus_lam", psdWhy (hermPart (ptrY dX dY Q) - scalar lam) Lc)]

def hCfDual : Handler := fun j => do
  let dX ← getNat j "dX"
  let dY ← getNat j "dY"
  let J1 ← getEMat j "J1" (dX * dY) (dX * dY)
  let J2 ← getEMat j "J2" (dX * dY) (dX * dY)
  let ρ ← getEMat j "rho" dX dX
  let W0 ← getEMat j "W0" (dX * dY) (dX * dY)
  let W1 ← getEMat j "W1" (dX * dY) (dX * dY)
  let Lρ ← getEMat j "Lrho" dX dX
  let Lb ← getEMat j "Lb" (dX * dY + dX * dY) (dX * dY + dX * dY)
  return answer (checkCfDual dX dY J1 J2 ρ W0 W1 Lρ Lb) fun _ =>
    firstWhy [("rho", densityWhy ρ Lρ), ("block", psdWhy (cfDualBlock dX dY ρ W0 W1) Lb)]

/-! ### code paths and programs -/

def ematJson {n m : Nat} (A : EMat n m) : Json :=
  let cells := (List.finRange n).flatMap fun i => (List.finRange m).map fun c => A.get i c
  Json.mkObj [("re", Json.arr (cells.map fun z => ratJson z.re).toArray),
    ("im", Json.arr (cells.map fun z => ratJson z.im).toArray)]

def qiJson (z : QI) : Json := Json.mkObj [("re", ratJson z.re), ("im", ratJson z.im)]

open Toq.ChannelProps in
def hCbPath : Handler := fun j => do
  let rows ← getNat j "rows"
  let cols ← getNat j "cols"
  if rows != cols then
    return Json.mkObj [("path", Json.str (cbPath rows cols .unknown .unknown).str)]
  let d := roundSqrt rows
  if rows = d * d then
    let J : EMat (d * d) (d * d) ← getEMat j "J" (d * d) (d * d)
    let v : Option (EMat (d * d) 1) ← if isNull j "v" then pure none else (some <$> getEMat j "v" (d * d) 1)
    let k := (getNat j "k").toOption.getD 0
    let L : Option (EMat (d * d) k) ← if isNull j "L" then pure none else (some <$> getEMat j "L" (d * d) k)
    let cp := psdV J L v
    let tp := tpV J
    let path := cbPath rows cols cp tp
    let base := [("path", Json.str path.str), ("cp", Json.str cp.str), ("tp", Json.str tp.str)]
    match path with
    | .channelOne => return Json.mkObj (base ++ [("value", qiJson 1)])
    | .cpShortcut => return Json.mkObj (base ++ [("value", qiJson (cpShortcutAsCoded d J))])
    | .sdp dim => return Json.mkObj (base ++ [("dim", Json.num dim)])
    | _ => return Json.mkObj base
  else
    return reject "NotPerfectSquare"

def hCfPath : Handler := fun j => do
  let r1 ← getNat j "r1"
  let c1 ← getNat j "c1"
  let r2 ← getNat j "r2"
  let c2 ← getNat j "c2"
  match cfPath r1 c1 r2 c2 with
  | .shapeMismatch => return Json.mkObj [("path", Json.str "shape_mismatch")]
  | .notSquare => return Json.mkObj [("path", Json.str "not_square")]
  | .sdp n dim => return Json.mkObj [("path", Json.str "sdp"), ("choi_dim", Json.num n), ("dim", Json.num dim)]

def hDualChoi : Handler := fun j => do
  let dX ← getNat j "dX"
  let dY ← getNat j "dY"
  let J ← getEMat j "J" (dX * dY) (dX * dY)
  return Json.mkObj [("D", ematJson (dualChoiE dX dY J))]

def hCbProgram : Handler := fun j => do
  let dX ← getNat j "dX"
  let dY ← getNat j "dY"
  let J ← getEMat j "J" (dX * dY) (dX * dY)
  let Y0 ← getEMat j "Y0" (dX * dY) (dX * dY)
  let Y1 ← getEMat j "Y1" (dX * dY) (dX * dY)
  return Json.mkObj [("block", ematJson (cbDualBlock J Y0 Y1)), ("T0", ematJson (ptrY dX dY Y0)),
    ("T1", ematJson (ptrY dX dY Y1))]

def hCfProgram : Handler := fun j => do
  let dX ← getNat j "dX"
  let dY ← getNat j "dY"
  let J1 ← getEMat j "J1" (dX * dY) (dX * dY)
  let J2 ← getEMat j "J2" (dX * dY) (dX * dY)
  let Q ← getEMat j "Q" (dX * dY) (dX * dY)
  let lam ← getRat j "lam"
  return Json.mkObj [("block", ematJson (cfPrimalBlock J1 J2 Q)), ("slack", ematJson (cfLoewnerSlack dX dY Q lam))]

/-! ### channel fidelity of separability -/

/-- `{"den":D,"re":[ints],"im":[ints]}` → row-major array of `count` exact entries -/
def parseQArr (j : Json) (count : Nat) : Except String (Array QI) := do
  let den := (getNat j "den").toOption.getD 1
  if den == 0 then throw "rational matrix: zero denominator"
  let re ← getIntArray j "re"
  let im := (getIntArray j "im").toOption.getD (Array.replicate count 0)
  if re.size != count || im.size != count then throw s!"rational matrix: expected {count} entries, got {re.size}"
  return (Array.range count).map fun t => ⟨((re[t]! : Int) : Rat) / (den : Rat), ((im[t]! : Int) : Rat) / (den : Rat)⟩

def getQArr (j : Json) (key : String) (count : Nat) : Except String (Array QI) := do
  parseQArr (← j.getObjVal? key) count

def getQMat (j : Json) (key : String) (n m : Nat) : Except String (EMat n m) := do
  let a ← getQArr j key (n * m)
  return EMat.ofFn fun i c => a[i.val * m + c.val]!

def fnMatJson (rows cols : Nat) (A : Nat → Nat → QI) : Json :=
  let cells := (List.range rows).flatMap fun i => (List.range cols).map fun c => A i c
  Json.mkObj [("re", Json.arr (cells.map fun z => ratJson z.re).toArray),
    ("im", Json.arr (cells.map fun z => ratJson z.im).toArray)]

open Toq.ChannelProps Toq.ChanMetrics.Fos in
def hFosPath : Handler := fun j => do
  let n ← getNat j "n"
  let dims ← getNatList j "dims"
  let ρ : EMat n n ← getQMat j "rho" n n
  let k := (getNat j "k").toOption.getD 0
  let L : Option (EMat n k) ← if isNull j "L" then pure none else (some <$> getQMat j "L" n k)
  let v : Option (EMat n 1) ← if isNull j "v" then pure none else (some <$> getQMat j "v" n 1)
  let dens := densityV ρ L v
  let pure' := pureV ρ
  let path := fosPath dens dims pure'
  let base := [("path", Json.str path.str), ("density", Json.str dens.str), ("psd", Json.str (psdV ρ L v).str),
    ("trace", Json.str (traceV ρ).str), ("pure", Json.str pure'.str)]
  match path with
  | .program dR dA dB =>
    return Json.mkObj (base ++ [("dR", Json.num dR), ("dA", Json.num dA), ("dB", Json.num dB)])
  | _ => return Json.mkObj base

open Toq.ChanMetrics.Fos in
def hFosProgram : Handler := fun j => do
  let dB ← getNat j "dB"
  let dA ← getNat j "dA"
  let dR ← getNat j "dR"
  let k ← getNat j "k"
  if k == 0 then return reject "LevelZero"
  let NP := dB * dA * dR
  let NC := dimChoi dR dA k
  let psi ← getQArr j "psi" (NP * NP)
  let choi ← getQArr j "choi" (NC * NC)
  let e := exprs (fun z : Int => QI.ofRat (z : Rat)) dB dA dR k (look psi NP) (look choi NC)
  let f2 : Rat := ((factN k * factN k : Nat) : Rat)
  let eT := tupleExprs (fun z : Int => QI.ofRat (z : Rat)) dB dA dR k (look psi NP) (look choi NC)
  return Json.mkObj [("forms_agree", Json.bool (Exprs.agree dB dA dR k e eT)), ("dim_choi", Json.num NC), ("choi_dims", natListJson (choiDims dR dA k)),
    ("sys_ext", natListJson (sysExt k)),
    ("psi_rab", fnMatJson NP NP e.psiRAB), ("choi_partial", fnMatJson (dR * dA) (dR * dA) e.choiPartial),
    ("trace", fnMatJson dR dR e.traceRes),
    ("sym", fnMatJson NC NC fun i c => QI.smul (1 / f2) (e.symRes i c)),
    ("pts", Json.arr (e.pts.map fun P => fnMatJson NC NC P).toArray),
    ("obj", qiJson (QI.smul (1 / 2) e.obj2))]

def hFosReturn : Handler := fun j => do
  let v ← getRat j "v"
  return Json.mkObj [("value", ratJson (Toq.ChanMetrics.Fos.fosReturn v))]

def handlers : List (String × Handler) :=
  [("c20_cb_primal", hCbPrimal), ("c20_cb_dual", hCbDual), ("c20_cf_primal", hCfPrimal), ("c20_cf_dual", hCfDual),
   ("c20_cb_path", hCbPath), ("c20_cf_path", hCfPath), ("c20_dual_choi", hDualChoi), ("c20_cb_program", hCbProgram),
   ("c20_cf_program", hCfProgram), ("c20_fos_path", hFosPath), ("c20_fos_program", hFosProgram),
   ("c20_fos_return", hFosReturn)]

end Toq.Driver.C20
