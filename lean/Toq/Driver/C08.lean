import Toq.Driver.Util
/-! Driver handlers for C08 (stub; filled in by the owner of this property). -/
namespace Toq.Driver.C08
def handlers : List (String × Handler) := []
end Toq.Driver.C08
