import Toq.Driver.QJson
import Toq.Model.Xor
import Toq.Model.XorPath
/-! Driver front end for C08 (XOR games, Tsirelson certificates, Bell expressions).

Rationals are `[num, den]` or an integer; rational vectors / matrices are flat row-major lists of rationals;
exact matrices for certificates are either dyadic `{"e":k,"re":[…],"im":[…]}` or with a common denominator
`{"den":d,"re":[…],"im":[…]}`.

* `c08_dmat        {"m","n","prob":[rat…],"pred":[nat…]}`            → `{"D":[rat…]}`
* `c08_nlg_pred    {"m","n","pred":[nat…]}`                          → `{"pred":[0/1 …]}` in `[a,b,x,y]` C order
* `c08_classical   {"m","n","prob","pred"}`                          → `{"value","bias","total"}`
* `c08_dual_mat    {"m","n","D","a","b"}`                            → `{"Z":[rat…]}` (row-major `(m+n)²`)
* `c08_value       {"s":rat,"reps":r}`                               → `{"value":rat}`
* `c08_primal      {"m","n","D","G":mat,"L":mat,"k"}`               → `{"ok":rat}` / `{"reject":why}`
* `c08_dual        {"m","n","D","a","b","L":mat,"k"}`               → `{"ok":rat}` / `{"reject":why}`
* `c08_bell_dual   {"m","n","J","a","b","t","u","v","L","k"}`       → `{"ok":rat}` / `{"reject":why}`
* `c08_bell_strategy {"m","n","J","a","b","N","rho","Lrho","k","A":[mat…],"B":[mat…]}` → `{"ok":rat}` / reject
* `c08_bell_det    {"m","n","J","a","b"}`                            → `{"value":rat}`
* `c08_bell_affine {"m","n","J","a","b","aval":[r,r],"bval":[r,r]}` → `{"J","a","b","const"}`
* `c08_classical_path {"m","n","prob","pred","reps"}`               → `{"value":rat}` / `{"value":null}` — the mirror of
  `XORGame(prob, pred, reps).classical_value()` = `to_nonlocal_game().classical_value()` (`xorClassicalCall`)
* `c08_init        {"q0","q1","p0","p1","prob":[rat…],"tol":rat|null}` → `{"status":"ok"|"size"|"negative"|"sum","tol":rat}`
  — the guards of `XORGame.__init__` (`xorInit`)

The verdict of every certificate op is the one of the verified checker of `Toq.Model.Xor`; the diagnostics
only word a rejection by re-evaluating the same named conditions. -/
open Lean Toq.Xor EMat

namespace Toq.Driver.C08

def ratFn (l : List Rat) : Nat → Rat := fun i => l.getD i 0
def ratFn2 (l : List Rat) (cols : Nat) : Nat → Nat → Rat := fun i j => l.getD (i * cols + j) 0
def natFn2 (l : List Nat) (cols : Nat) : Nat → Nat → Nat := fun i j => l.getD (i * cols + j) 0

/-- array-backed accessors (constant-time entries; the array is captured once by the closure) -/
def ratFn2A (a : Array Rat) (cols : Nat) : Nat → Nat → Rat := fun i j => a.getD (i * cols + j) 0
def natFn2A (a : Array Nat) (cols : Nat) : Nat → Nat → Nat := fun i j => a.getD (i * cols + j) 0

def ratListJson (l : List Rat) : Json := Json.arr (l.map ratJson).toArray

def flat2 (m n : Nat) (f : Nat → Nat → Rat) : List Rat :=
  (List.range m).flatMap fun x => (List.range n).map fun y => f x y

/-- exact matrix, dyadic (`"e"`) or with a common denominator (`"den"`) -/
def parseQMat (n m : Nat) (j : Json) : Except String (EMat n m) := do
  match j.getObjVal? "den" with
  | .ok dj =>
    let den ← dj.getNat?
    if den == 0 then throw "matrix: zero denominator"
    let re ← getIntArray j "re"
    let im := (getIntArray j "im").toOption.getD (Array.replicate (n * m) 0)
    if re.size != n * m || im.size != n * m then throw s!"matrix size mismatch: expected {n}x{m}, got {re.size}"
    return EMat.ofFn fun i k => ⟨(re[i.val * m + k.val]! : Rat) / (den : Rat), (im[i.val * m + k.val]! : Rat) / (den : Rat)⟩
  | .error _ => parseEMat n m j

def getQMat (j : Json) (key : String) (n m : Nat) : Except String (EMat n m) := do
  parseQMat n m (← j.getObjVal? key)

def getQMatList (j : Json) (key : String) (n m : Nat) : Except String (List (EMat n m)) := do
  let a ← (← j.getObjVal? key).getArr?
  a.toList.mapM (parseQMat n m)

def firstFail (k : Nat) (p : Fin k → Bool) : Option Nat :=
  ((List.finRange k).find? fun i => !p i).map (·.val)

/-- why `psdCert A L` fails (`none` when it holds) -/
def psdWhy {n k : Nat} (A : EMat n n) (L : EMat n k) : Option String :=
  if !A.isHermitian then some "not_hermitian"
  else
    let R := A - L.mul L.ct
    if !R.isHermitian then some "residual_not_hermitian"
    else
      match firstFail n fun i =>
          decide (sumFinQ n (fun j => if j = i then 0 else (R.get i j).abs1) ≤ (R.get i i).re) with
      | some i => some s!"residual_not_diag_dominant_row_{i}"
      | none => if psdCert A L then none else some "psdCert_failed"

def answer (r : Option Rat) (why : Unit → String) : Json :=
  match r with
  | some v => Json.mkObj [("ok", ratJson v)]
  | none => reject (why ())

def lenCheck (named : List (String × Nat × Nat)) : Except String Unit :=
  match named.find? fun x => x.2.1 != x.2.2 with
  | some x => throw s!"length of {x.1}: {x.2.1}, expected {x.2.2}"
  | none => pure ()

def hDmat : Handler := fun j => do
  let m ← getNat j "m"; let n ← getNat j "n"
  let prob ← getRatList j "prob"; let pred ← getNatList j "pred"
  lenCheck [("prob", prob.length, m * n), ("pred", pred.length, m * n)]
  return Json.mkObj [("D", ratListJson (flat2 m n (dMat (ratFn2 prob n) (natFn2 pred n))))]

def hNlgPred : Handler := fun j => do
  let m ← getNat j "m"; let n ← getNat j "n"
  let pred ← getNatList j "pred"
  lenCheck [("pred", pred.length, m * n)]
  let f := nlgPred (natFn2 pred n)
  let out : List Rat := (List.range 2).flatMap fun a => (List.range 2).flatMap fun b =>
    (List.range m).flatMap fun x => (List.range n).map fun y => f a b x y
  return Json.mkObj [("pred", ratListJson out)]

def hClassical : Handler := fun j => do
  let m ← getNat j "m"; let n ← getNat j "n"
  let prob ← getRatList j "prob"; let pred ← getNatList j "pred"
  lenCheck [("prob", prob.length, m * n), ("pred", pred.length, m * n)]
  let pa := prob.toArray; let fa := pred.toArray
  let p := ratFn2A pa n; let f := natFn2A fa n
  let total := totalProb m n p
  if pred.all (· < 2) then
    -- 0/1 predicate: one-sided enumeration (theorem xor_classical_one_sided: equal to the two-sided maxima)
    return Json.mkObj [("value", ratJson (xorClassicalValueBR m n p f)), ("bias", ratJson (xorClassicalBiasBR m n (dMat p f))),
      ("total", ratJson total), ("method", Json.str "one-sided")]
  else
    return Json.mkObj [("value", ratJson (xorClassicalValue m n p f)), ("bias", ratJson (xorClassicalBias m n (dMat p f))),
      ("total", ratJson total), ("method", Json.str "two-sided")]

def hDualMat : Handler := fun j => do
  let m ← getNat j "m"; let n ← getNat j "n"
  let D ← getRatList j "D"; let a ← getRatList j "a"; let b ← getRatList j "b"
  lenCheck [("D", D.length, m * n), ("a", a.length, m), ("b", b.length, n)]
  let Z := xorDualMat m n (ratFn2 D n) (ratFn a) (ratFn b)
  let out : List Rat := (List.finRange (m + n)).flatMap fun i => (List.finRange (m + n)).map fun k => (Z.get i k).re
  return Json.mkObj [("Z", ratListJson out)]

def hValue : Handler := fun j => do
  let s ← getRat j "s"; let r ← getNat j "reps"
  return Json.mkObj [("value", ratJson (xorValue s r))]

def hPrimal : Handler := fun j => do
  let m ← getNat j "m"; let n ← getNat j "n"; let k ← getNat j "k"
  let D ← getRatList j "D"
  lenCheck [("D", D.length, m * n)]
  let G ← getQMat j "G" (m + n) (m + n)
  let L ← getQMat j "L" (m + n) k
  return answer (checkXorPrimal m n (ratFn2 D n) G L) fun _ =>
    match psdWhy G L with
    | some s => s!"G_{s}"
    | none => if !diagOne G then "G_diagonal_not_one" else "rejected"

def hDual : Handler := fun j => do
  let m ← getNat j "m"; let n ← getNat j "n"; let k ← getNat j "k"
  let D ← getRatList j "D"; let a ← getRatList j "a"; let b ← getRatList j "b"
  lenCheck [("D", D.length, m * n), ("a", a.length, m), ("b", b.length, n)]
  let L ← getQMat j "L" (m + n) k
  return answer (checkXorDual m n (ratFn2 D n) (ratFn a) (ratFn b) L) fun _ =>
    match psdWhy (xorDualMat m n (ratFn2 D n) (ratFn a) (ratFn b)) L with
    | some s => s!"dual_matrix_{s}"
    | none => "rejected"

def hBellDual : Handler := fun j => do
  let m ← getNat j "m"; let n ← getNat j "n"; let k ← getNat j "k"
  let J ← getRatList j "J"; let a ← getRatList j "a"; let b ← getRatList j "b"
  let t ← getRat j "t"; let u ← getRatList j "u"; let v ← getRatList j "v"
  lenCheck [("J", J.length, m * n), ("a", a.length, m), ("b", b.length, n), ("u", u.length, m + 1), ("v", v.length, n + 1)]
  let L ← getQMat j "L" (m + 1 + (n + 1)) k
  return answer (checkBellDual m n (ratFn2 J n) (ratFn a) (ratFn b) t (ratFn u) (ratFn v) L) fun _ =>
    match psdWhy (xorDualMat (m + 1) (n + 1) (bellExt (ratFn2 J n) (ratFn a) (ratFn b) t) (ratFn u) (ratFn v)) L with
    | some s => s!"dual_matrix_{s}"
    | none => "rejected"

def hBellStrategy : Handler := fun j => do
  let m ← getNat j "m"; let n ← getNat j "n"; let k ← getNat j "k"; let N ← getNat j "N"
  let J ← getRatList j "J"; let a ← getRatList j "a"; let b ← getRatList j "b"
  let rho ← getQMat j "rho" N N
  let Lrho ← getQMat j "Lrho" N k
  let A ← getQMatList j "A" N N
  let B ← getQMatList j "B" N N
  lenCheck [("J", J.length, m * n), ("a", a.length, m), ("b", b.length, n), ("A", A.length, m), ("B", B.length, n)]
  let Af : Fin m → EMat N N := fun x => A.getD x.val zero
  let Bf : Fin n → EMat N N := fun y => B.getD y.val zero
  return answer (checkBellStrategy m n (ratFn2 J n) (ratFn a) (ratFn b) rho Lrho Af Bf) fun _ =>
    match psdWhy rho Lrho with
    | some s => s!"rho_{s}"
    | none =>
      if !(rho.trace == 1) then "rho_trace_not_one"
      else
        match firstFail m fun x => isInvolution (Af x) with
        | some x => s!"A[{x}]_not_a_hermitian_involution"
        | none =>
          match firstFail n fun y => isInvolution (Bf y) with
          | some y => s!"B[{y}]_not_a_hermitian_involution"
          | none => "A_and_B_do_not_commute"

def hBellDet : Handler := fun j => do
  let m ← getNat j "m"; let n ← getNat j "n"
  let J ← getRatList j "J"; let a ← getRatList j "a"; let b ← getRatList j "b"
  lenCheck [("J", J.length, m * n), ("a", a.length, m), ("b", b.length, n)]
  return Json.mkObj [("value", ratJson (bellDetMax m n (ratFn2 J n) (ratFn a) (ratFn b)))]

def hBellAffine : Handler := fun j => do
  let m ← getNat j "m"; let n ← getNat j "n"
  let J ← getRatList j "J"; let a ← getRatList j "a"; let b ← getRatList j "b"
  let av ← getRatList j "aval"; let bv ← getRatList j "bval"
  lenCheck [("J", J.length, m * n), ("a", a.length, m), ("b", b.length, n), ("aval", av.length, 2), ("bval", bv.length, 2)]
  let r := bellAffine m n (ratFn2 J n) (ratFn a) (ratFn b) (ratFn av 0) (ratFn av 1) (ratFn bv 0) (ratFn bv 1)
  return Json.mkObj [("J", ratListJson (flat2 m n r.1)), ("a", ratListJson ((List.range m).map r.2.1)),
    ("b", ratListJson ((List.range n).map r.2.2.1)), ("const", ratJson r.2.2.2)]

def hClassicalPath : Handler := fun j => do
  let m ← getNat j "m"; let n ← getNat j "n"; let reps ← getNat j "reps"
  let prob ← getRatList j "prob"; let pred ← getNatList j "pred"
  lenCheck [("prob", prob.length, m * n), ("pred", pred.length, m * n)]
  if reps == 0 then throw "reps must be positive"
  match xorClassicalCall m n reps (ratFn2 prob n) (natFn2 pred n) with
  | some v => return Json.mkObj [("value", ratJson v)]
  | none => return Json.mkObj [("value", Json.null)]

def hInit : Handler := fun j => do
  let q0 ← getNat j "q0"; let q1 ← getNat j "q1"; let p0 ← getNat j "p0"; let p1 ← getNat j "p1"
  let prob ← getRatList j "prob"
  lenCheck [("prob", prob.length, q0 * q1)]
  if q0 == 0 || q1 == 0 then throw "empty probability matrix"
  let tol : Option Rat ← (if isNull j "tol" then pure none else do let t ← getRat j "tol"; pure (some t))
  let st := match xorInit q0 q1 p0 p1 (ratFn2 prob q1) tol with
    | .ok _ => "ok" | .sizeMismatch => "size" | .negative => "negative" | .notNormalised => "sum"
  return Json.mkObj [("status", Json.str st), ("tol", ratJson (xorTol q0 q1 tol))]

def handlers : List (String × Handler) :=
  [("c08_dmat", hDmat), ("c08_nlg_pred", hNlgPred), ("c08_classical", hClassical), ("c08_dual_mat", hDualMat),
   ("c08_value", hValue), ("c08_primal", hPrimal), ("c08_dual", hDual), ("c08_bell_dual", hBellDual),
   ("c08_bell_strategy", hBellStrategy), ("c08_bell_det", hBellDet), ("c08_bell_affine", hBellAffine),
   ("c08_classical_path", hClassicalPath), ("c08_init", hInit)]

end Toq.Driver.C08
