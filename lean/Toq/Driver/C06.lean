import Toq.Driver.Util
/-! Driver handlers for C06 (stub; filled in by the owner of this property). -/
namespace Toq.Driver.C06
def handlers : List (String × Handler) := []
end Toq.Driver.C06
