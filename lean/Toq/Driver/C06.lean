import Toq.Driver.QJson
import Toq.Model.ChannelProps
import Toq.Model.ChannelPropsTol
/-! Driver handlers for C06: exact deciders of the channel predicates and closed forms of the built-in channels.

Exact matrices over `ℚ[i]`: `{"r":rows,"c":cols,"den":D,"re":[…],"im":[…]}` (row-major integer numerators over the
common denominator `D`; `"im"` may be omitted).  Rationals `[num, den]` or an integer.  Kraus argument:
`{"tag":"flat","ops":[mat,…]}` or `{"tag":"nested","ops":[[mat,…],…]}`.

* `c06_decide {"form":"kraus","phi":kraus}` / `{"form":"choi","di":..,"do":..,"J":mat}`, optional `"L"` (factor with
  `J - L Lᴴ` diagonally dominant) and `"v"` (column vector with `vᴴ J v < 0`):
  → `{"di","do","hp","psd","tp","unital","unitary":"yes|no|unknown","rank":n,"extremal":bool, …}`
* `c06_close {…same map arguments…, "rtol":rat, "atol":rat[, "L":mat, "c":rat][, "v":mat, "mu":rat]}`
  → `{"hp","tp","unital"[,"tp_pairs"]: bool, "psd":"yes|no|unknown"}` — the exact mirrors of the tolerance tests
* `c06_unitary_mat {"U":mat}` → `{"unitary":bool}`
* `c06_depolarizing {"d","p"[,"X"]}`, `c06_dephasing {"d","p"[,"X"]}`, `c06_reduction {"d","k"[,"X"]}`, `c06_choi {"a","b","c"[,"X"]}`
  → `{"J":mat[,"out":mat,"via_choi":mat]}`
* `c06_ad {"gamma","prob","shape":[r,c]|null[,"roots":{"sp","cp","sg","cg"}][,"X"]}`, `c06_pd {"gamma","shape"[,"roots":{"sg","cg"}][,"X"]}`,
  `c06_bitflip {"prob","shape"[,"roots":{"s","c"}][,"X"]}` → `{"reject":…}` or `{"sq":[mat…][,"kraus":[mat…]][,"out":mat]}`
* `c06_pauli {"p":[rat…][,"X"]}` → `{"reject":…}` or `{"q","J":mat,"strings":[mat…][,"out":mat]}` -/
open Lean Toq.ChannelOps Toq.ChannelProps

namespace Toq.Driver.C06

/-! ### JSON ↔ exact matrices -/

def parseQMat (v : Json) : Except String (Mat QI) := do
  let r ← getNat v "r"
  let c ← getNat v "c"
  let den ← getNat v "den"
  if den == 0 then throw "matrix: zero denominator"
  let re ← getIntArray v "re"
  let im := (getIntArray v "im").toOption.getD (Array.replicate (r * c) 0)
  if re.size != r * c || im.size != r * c then throw "matrix data size"
  let d : Rat := (den : Rat)
  let data : Array QI := (Array.range (r * c)).map fun t => ⟨((re[t]! : Int) : Rat) / d, ((im[t]! : Int) : Rat) / d⟩
  return ⟨r, c, fun i j => data[i * c + j]!⟩

def optQMat (j : Json) (k : String) : Except String (Option (Mat QI)) := do
  if isNull j k then return none
  return some (← parseQMat (← j.getObjVal? k))

def lcmDen (a : Array QI) : Nat := a.foldl (fun acc x => Nat.lcm (Nat.lcm acc x.re.den) x.im.den) 1

def numOver (q : Rat) (D : Nat) : Int := q.num * ((D / q.den : Nat) : Int)

def qmatJson (r c : Nat) (f : Nat → Nat → QI) : Json :=
  let a := arrayOfMat r c f
  let D := lcmDen a
  Json.mkObj [("r", Json.num r), ("c", Json.num c), ("den", Json.num D),
    ("re", intArrayJson (a.map fun x => numOver x.re D)), ("im", intArrayJson (a.map fun x => numOver x.im D))]

def ofRatFn (f : Nat → Nat → Rat) : Nat → Nat → QI := fun i j => ⟨f i j, 0⟩

def parseQMatList (v : Json) : Except String (List (Mat QI)) := do
  let a ← v.getArr?
  a.toList.mapM parseQMat

def parseKraus (v : Json) : Except String (KrausArg QI) := do
  let tag ← (← v.getObjVal? "tag").getStr?
  let ops ← v.getObjVal? "ops"
  if tag == "flat" then return .flat (← parseQMatList ops)
  else
    let a ← ops.getArr?
    return .nested (← a.toList.mapM parseQMatList)

def emOfMat (n m : Nat) (M : Mat QI) : EMat n m := EMat.ofFn fun i j => M.e i.val j.val

/-! ### the deciders -/

def hDecide : Handler := fun j => do
  let form ← (← j.getObjVal? "form").getStr?
  let mut extra : List (String × Json) := []
  let cf : Option ChoiForm ←
    if form == "kraus" then do
      let phi ← parseKraus (← j.getObjVal? "phi")
      pure (choiOfArg phi)
    else do
      let di ← getNat j "di"
      let dO ← getNat j "do"
      let J ← parseQMat (← j.getObjVal? "J")
      if J.r != di * dO || J.c != di * dO then pure none
      else pure (some ⟨di, dO, emOfMat _ _ J⟩)
  if form == "kraus" then
    let phi ← parseKraus (← j.getObjVal? "phi")
    match phi.split with
    | some (as, bs) =>
      match as with
      | a :: _ =>
        extra := [("n_ops", Json.num as.length),
          ("tp_pairs", Json.str (eqV (sumAdjMul as bs a.c) (EMat.one : EMat a.c a.c)).str),
          ("extremal_coded", Json.bool (extremalAsCoded a.c a.r (as.map (·.e))))]
      | [] => pure ()
    | none => pure ()
  match cf with
  | none => return reject "Shape"
  | some c =>
    let N := c.di * c.dO
    let L ← optQMat j "L"
    let v ← optQMat j "v"
    let vE : Option (EMat N 1) ←
      match v with
      | some v => if v.r != N || v.c != 1 then throw "v: shape" else pure (some (emOfMat N 1 v))
      | none => pure none
    let rep : Report ←
      match L with
      | some L =>
        if L.r != N then throw "L: shape"
        else pure (report c (some (emOfMat N L.c L)) vE)
      | none => pure (report (k := 0) c none vE)
    return Json.mkObj ([("di", Json.num c.di), ("do", Json.num c.dO), ("hp", Json.str rep.hp.str),
      ("psd", Json.str rep.psd.str), ("tp", Json.str rep.tp.str), ("unital", Json.str rep.unital.str),
      ("unitary", Json.str rep.unitary.str), ("rank", Json.num rep.rank), ("extremal", Json.bool rep.extremal)] ++ extra)

/-- the map of a request in canonical form (`form` = `"kraus"` with `phi`, or `"choi"` with `di`, `do`, `J`) -/
def getChoiForm (j : Json) : Except String (Option ChoiForm) := do
  let form ← (← j.getObjVal? "form").getStr?
  if form == "kraus" then do
    let phi ← parseKraus (← j.getObjVal? "phi")
    pure (choiOfArg phi)
  else do
    let di ← getNat j "di"
    let dO ← getNat j "do"
    let J ← parseQMat (← j.getObjVal? "J")
    if J.r != di * dO || J.c != di * dO then pure none
    else pure (some ⟨di, dO, emOfMat _ _ J⟩)

/-- `c06_close`: the exact mirrors of the tolerance tests for given `rtol`, `atol` (rationals `≥ 0`):
    `hp` = `np.allclose(J, Jᴴ)`, `tp` = `is_identity(Tr_out J)`, `unital` = `is_identity(Tr_in J)`, for paired lists also
    `tp_pairs` = `is_identity(Σ AᴴB)`; `psd` = the eigenvalue test through certificates (`L` with shift `c`, or `v` with `mu`) -/
def hClose : Handler := fun j => do
  let rtol ← getRat j "rtol"
  let atol ← getRat j "atol"
  if rtol < 0 || atol < 0 then return reject "NegativeTolerance"
  let form ← (← j.getObjVal? "form").getStr?
  let mut extra : List (String × Json) := []
  if form == "kraus" then
    let phi ← parseKraus (← j.getObjVal? "phi")
    match phi.split with
    | some (as, bs) =>
      match as with
      | a :: _ => extra := [("tp_pairs", Json.bool (tpPairsClose rtol atol as bs a.c))]
      | [] => pure ()
    | none => pure ()
  match ← getChoiForm j with
  | none => return reject "Shape"
  | some c =>
    let N := c.di * c.dO
    let L ← optQMat j "L"
    let v ← optQMat j "v"
    let cs : Rat ← if isNull j "c" then pure 0 else getRat j "c"
    let mu : Rat ← if isNull j "mu" then pure 0 else getRat j "mu"
    let vE : Option (EMat N 1) ←
      match v with
      | some v => if v.r != N || v.c != 1 then throw "v: shape" else pure (some (emOfMat N 1 v))
      | none => pure none
    let psd : Verdict ←
      match L with
      | some L =>
        if L.r != N then throw "L: shape"
        else pure (psdTolV rtol atol c.J (some (emOfMat N L.c L)) cs vE mu)
      | none => pure (psdTolV (k := 0) rtol atol c.J none cs vE mu)
    return Json.mkObj ([("di", Json.num c.di), ("do", Json.num c.dO), ("hp", Json.bool (hpClose rtol atol c.J)),
      ("tp", Json.bool (tpClose rtol atol c.J)), ("unital", Json.bool (unitalClose rtol atol c.J)),
      ("psd", Json.str psd.str)] ++ extra)

def hUnitaryMat : Handler := fun j => do
  let U ← parseQMat (← j.getObjVal? "U")
  if U.r != U.c then return Json.mkObj [("unitary", Json.bool false)]
  return Json.mkObj [("unitary", Json.bool (unitaryMatDecide (emOfMat U.r U.r U)))]

/-! ### Choi-form constructors -/

def realPart (M : Mat QI) : Nat → Nat → Rat := fun i j => (M.e i j).re

/-- answer with the Choi matrix and, when an input `X` is given, the textbook action and the action through the
    Choi matrix (they agree by the `…_apply` theorems) -/
def choiAnswer (j : Json) (d : Nat) (J : Nat → Nat → QI) (act : (Nat → Nat → QI) → Nat → Nat → QI) : Except String Json := do
  let X ← optQMat j "X"
  let base := [("J", qmatJson (d * d) (d * d) J)]
  match X with
  | none => return Json.mkObj base
  | some X =>
    if X.r != d || X.c != d then throw "X: shape"
    return Json.mkObj (base ++ [("out", qmatJson d d (act X.e)), ("via_choi", qmatJson d d (actOfChoi J d d X.e))])

/-- `ℚ[i]` with the division and casts the generic closed forms need -/
instance : Div QI := ⟨fun a b => a * qinv b⟩
instance : NatCast QI := ⟨fun n => ⟨(n : Rat), 0⟩⟩

def hDepolarizing : Handler := fun j => do
  let d ← getNat j "d"
  let p : QI := ⟨← getRat j "p", 0⟩
  if d == 0 then return reject "Dim"
  choiAnswer j d (depolChoi d p) (depolAct d p)

def hDephasing : Handler := fun j => do
  let d ← getNat j "d"
  let p : QI := ⟨← getRat j "p", 0⟩
  if d == 0 then return reject "Dim"
  choiAnswer j d (dephChoi d p) (dephAct p)

def hReduction : Handler := fun j => do
  let d ← getNat j "d"
  let k : QI := ⟨← getRat j "k", 0⟩
  if d == 0 then return reject "Dim"
  choiAnswer j d (reductionChoi d k) (reductionAct d k)

def hChoiMap : Handler := fun j => do
  let a : QI := ⟨← getRat j "a", 0⟩
  let b : QI := ⟨← getRat j "b", 0⟩
  let c : QI := ⟨← getRat j "c", 0⟩
  choiAnswer j 3 (choiMapChoi a b c) (choiMapAct a b c)

/-! ### Kraus-form qubit constructors -/

def optShape (j : Json) : Except String (Option (Nat × Nat)) := do
  if isNull j "shape" then return none
  match ← getNatList j "shape" with
  | [r, c] => return some (r, c)
  | _ => throw "shape"

def optRat (j : Json) (k : String) : Except String (Option Rat) := do
  if isNull j k then return none
  return some (← getRat j k)

def krausJson (l : List (Nat → Nat → QI)) : Json := Json.arr (l.map (qmatJson 2 2)).toArray

/-- apply real 2×2 Kraus operators to a (complex) input -/
def applyKraus2 (Ks : List (Nat → Nat → QI)) (X : Nat → Nat → QI) : Nat → Nat → QI := applyReal2 Ks X

def qr (x : Rat) : QI := ⟨x, 0⟩

/-- common tail: squared entries always; exact operators and output when valid roots are supplied -/
def krausAnswer (j : Json) (sq : List (Nat → Nat → QI)) (exact : Option (List (Nat → Nat → QI))) : Except String Json := do
  let X ← optQMat j "X"
  let mut fields := [("sq", krausJson sq)]
  match exact with
  | none => pure ()
  | some Ks =>
    fields := fields ++ [("kraus", krausJson Ks)]
    match X with
    | some X => fields := fields ++ [("out", qmatJson 2 2 (applyKraus2 Ks X.e))]
    | none => pure ()
  return Json.mkObj fields

def hAmplitudeDamping : Handler := fun j => do
  let gamma ← getRat j "gamma"
  let prob ← getRat j "prob"
  let shape ← optShape j
  match adGuard gamma prob shape with
  | .ok =>
    let sq := adKraus (qr prob) (qr (1 - prob)) (qr gamma) (qr (1 - gamma))
    let exact : Option (List (Nat → Nat → QI)) ←
      if isNull j "roots" then pure none
      else do
        let r ← j.getObjVal? "roots"
        let sp ← getRat r "sp"; let cp ← getRat r "cp"; let sg ← getRat r "sg"; let cg ← getRat r "cg"
        if sp * sp != prob || cp * cp != 1 - prob || sg * sg != gamma || cg * cg != 1 - gamma
            || sp < 0 || cp < 0 || sg < 0 || cg < 0 then throw "roots do not square to the parameters"
        pure (some (adKraus (qr sp) (qr cp) (qr sg) (qr cg)))
    krausAnswer j sq exact
  | g => return reject g.name

def hPhaseDamping : Handler := fun j => do
  let gamma ← getRat j "gamma"
  let shape ← optShape j
  match pdGuard gamma shape with
  | .ok =>
    let sq := pdKraus (qr gamma) (qr (1 - gamma))
    let exact : Option (List (Nat → Nat → QI)) ←
      if isNull j "roots" then pure none
      else do
        let r ← j.getObjVal? "roots"
        let sg ← getRat r "sg"; let cg ← getRat r "cg"
        if sg * sg != gamma || cg * cg != 1 - gamma || sg < 0 || cg < 0 then throw "roots do not square to the parameters"
        pure (some (pdKraus (qr sg) (qr cg)))
    krausAnswer j sq exact
  | g => return reject g.name

def hBitflip : Handler := fun j => do
  let prob ← getRat j "prob"
  let shape ← optShape j
  match bfGuard prob shape with
  | .ok =>
    let sq := bfKraus (qr prob) (qr (1 - prob))
    let exact : Option (List (Nat → Nat → QI)) ←
      if isNull j "roots" then pure none
      else do
        let r ← j.getObjVal? "roots"
        let s ← getRat r "s"; let c ← getRat r "c"
        if s * s != prob || c * c != 1 - prob || s < 0 || c < 0 then throw "roots do not square to the parameters"
        pure (some (bfKraus (qr s) (qr c)))
    krausAnswer j sq exact
  | g => return reject g.name

def hPauli : Handler := fun j => do
  let p ← getRatList j "p"
  match pauliGuard p with
  | .ok =>
    match log4? p.length with
    | none => return reject "ProbLength"
    | some q =>
      let d := 2 ^ q
      let iu : QI := ⟨0, 1⟩
      let pf : Nat → QI := fun k => qr (p.getD k 0)
      let strings := (List.range (4 ^ q)).map fun k => qmatJson d d (pauliString iu q k)
      let Jf := pauliChoi iu q pf
      -- store the Choi matrix once
      let Ja := arrayOfMat (d * d) (d * d) Jf
      let J : Nat → Nat → QI := fun a b => Ja[a * (d * d) + b]!
      let X ← optQMat j "X"
      let base := [("q", Json.num q), ("J", qmatJson (d * d) (d * d) J), ("strings", Json.arr strings.toArray)]
      match X with
      | none => return Json.mkObj base
      | some X =>
        if X.r != d || X.c != d then throw "X: shape"
        return Json.mkObj (base ++ [("out", qmatJson d d (actOfChoi J d d X.e))])
  | g => return reject g.name

def handlers : List (String × Handler) :=
  [("c06_decide", hDecide), ("c06_close", hClose), ("c06_unitary_mat", hUnitaryMat),
   ("c06_depolarizing", hDepolarizing), ("c06_dephasing", hDephasing), ("c06_reduction", hReduction),
   ("c06_choi", hChoiMap), ("c06_ad", hAmplitudeDamping), ("c06_pd", hPhaseDamping), ("c06_bitflip", hBitflip),
   ("c06_pauli", hPauli)]

end Toq.Driver.C06
