import Toq.Driver.Util
import Toq.Driver.C04
import Toq.Model.ChannelOps
/-! Driver handlers for C05: `dual_channel` and `complementary_channel` mirror models on
Gaussian-integer matrices (JSON formats as in `Toq/Driver/C04.lean`). -/
open Lean Toq.ChannelOps Toq.Driver.C04

namespace Toq.Driver.C05

def hDualKraus : Handler := fun j => do
  let phi ← parseKraus (← j.getObjVal? "phi")
  return krausJson (dualKraus phi)

def hDualChoi : Handler := fun j => do
  let J ← parseMat (← j.getObjVal? "J")
  let dims ← parseDimArg j "dims"
  if !(notVector J) then return reject "VectorShaped"
  match dualChoi J dims with
  | .error e => return reject e.name
  | .ok m => return matJson m

instance : DecidableEq GI := inferInstance

/-- `ops` are `scale · K_i` with Gaussian-integer entries, `scale2 = scale²` -/
def hComplementary : Handler := fun j => do
  let ops ← parseMatList (← j.getObjVal? "ops")
  let s2 ← getInt j "scale2"
  match complementary ops (GI.ofInt s2) with
  | .error e => return reject e.name
  | .ok l => return Json.arr (l.map matJson).toArray

def handlers : List (String × Handler) :=
  [("c05_dual_kraus", hDualKraus), ("c05_dual_choi", hDualChoi), ("c05_complementary", hComplementary)]

end Toq.Driver.C05
