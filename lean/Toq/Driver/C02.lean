import Toq.Driver.Util
import Toq.Model.PartialOps
import Toq.Model.PartialOpsArgs
/-! Driver front ends for C02 (`partial_trace`) and C03 (`partial_transpose`, `realignment`):
argument normalisation as in the Python, then the mirror model on integer data. -/
open Lean Toq.PartialOps

namespace Toq.Driver.C02

-- The argument decoding (`sys` / `dim` forms, defaults, error guards) and the cvxpy `Variable` branch are
-- part of the model: `Toq/Model/PartialOpsArgs.lean` (`partialTraceArgs`, `partialTransposeArgs`,
-- `realignmentArgs`, `partialTraceCvx`, `partialTransposeCvx`); the handlers below only translate JSON.

def asIntList (v : Json) : Except String (List Int) := do
  let a ← v.getArr?
  a.toList.mapM (·.getInt?)

/-- `"sys"`: `null` | integer | list of integers (negative allowed: the model decides) -/
def parseSysArg (j : Json) : Except String SysArg := do
  if isNull j "sys" then return .omitted
  let v ← j.getObjVal? "sys"
  match v with
  | Json.arr _ => return .list (← asIntList v)
  | _ => return .int (← v.getInt?)

/-- `"dim"` of `partial_trace`: `null` | integer | list -/
def parseDimArg (j : Json) : Except String DimArg := do
  if isNull j "dim" then return .omitted
  let v ← j.getObjVal? "dim"
  match v with
  | Json.arr _ => return .list (← asNatList v)
  | _ => return .scalar (← v.getNat?)

def rejectRej (e : Rej) : Json := reject e.name

/-- `partial_trace` on a numeric array -/
def hPartialTrace : Handler := fun j => do
  let N ← getNat j "n"
  let data ← getIntArray j "data"
  let sys ← parseSysArg j
  let dim ← parseDimArg j
  match partialTraceArgs (matOfArray data N) N sys dim with
  | .error e => return rejectRej e
  | .ok (K, Y) =>
    return Json.mkObj [("shape", natListJson [K, K]), ("data", intArrayJson (arrayOfMat K K Y))]

def leavesJson (e : CvxExpr) : Json :=
  Json.arr (e.leaves.map (fun (p : Nat × Nat) => natListJson [p.1, p.2])).toArray

/-- `partial_trace` on a cvxpy `Variable` of shape `n × n`: for every entry of the returned expression
    (row-major) the list of index atoms `[r, c]` it sums, in order -/
def hPartialTraceSym : Handler := fun j => do
  let N ← getNat j "n"
  let sys ← parseSysArg j
  let dim ← parseDimArg j
  match partialTraceCvx N sys dim with
  | .error e => return rejectRej e
  | .ok (K, Y) =>
    return Json.mkObj [("shape", natListJson [K, K]),
      ("terms", Json.arr ((arrayOfMat K K Y).map leavesJson))]

/-- `"dim"` of `partial_transpose`: `null` | integer | list | `[row dims, column dims]` -/
def parsePTDimArg (j : Json) : Except String PTDimArg := do
  if isNull j "dim" then return .omitted
  let v ← j.getObjVal? "dim"
  match v with
  | Json.arr a =>
    match (a[0]? : Option Json) with
    | some (Json.arr _) => return .two (← asNatList a[0]!) (← asNatList a[1]!)
    | _ => return .list (← asNatList v)
  | _ => return .scalar (← v.getNat?)

/-- `partial_transpose` on a numeric array -/
def hPartialTranspose : Handler := fun j => do
  let R ← getNat j "rows"
  let C ← getNat j "cols"
  let data ← getIntArray j "data"
  let sys ← parseSysArg j
  let dim ← parsePTDimArg j
  match partialTransposeArgs (matOfArray data C) R C sys dim with
  | .error e => return rejectRej e
  | .ok (R', C', Y) =>
    return Json.mkObj [("shape", natListJson [R', C']), ("data", intArrayJson (arrayOfMat R' C' Y))]

/-- `partial_transpose` on a cvxpy `Variable` of shape `rows × cols`: for every entry of the returned
    expression (row-major) the list of index atoms it consists of (always exactly one) -/
def hPartialTransposeSym : Handler := fun j => do
  let R ← getNat j "rows"
  let C ← getNat j "cols"
  let sys ← parseSysArg j
  let dim ← parsePTDimArg j
  match partialTransposeCvx R C sys dim with
  | .error e => return rejectRej e
  | .ok (R', C', Y) =>
    return Json.mkObj [("shape", natListJson [R', C']),
      ("terms", Json.arr ((arrayOfMat R' C' Y).map leavesJson))]

/-- `"dim"` of `realignment`: `null` | integer | `[a, b]` | `[[r0, r1], [c0, c1]]` -/
def parseRDimArg (j : Json) : Except String RDimArg := do
  if isNull j "dim" then return .omitted
  let v ← j.getObjVal? "dim"
  match v with
  | Json.arr a =>
    match (a[0]? : Option Json) with
    | some (Json.arr _) =>
      match (← asNatList a[0]!), (← asNatList a[1]!) with
      | [r0, r1], [c0, c1] => return .two r0 r1 c0 c1
      | _, _ => throw "realignment: dim form not modelled"
    | _ =>
      match (← asNatList v) with
      | [x, y] => return .pair x y
      | _ => throw "realignment: dim form not modelled"
  | _ => return .scalar (← v.getNat?)

/-- `realignment` on a numeric `rows × cols` array -/
def hRealignment : Handler := fun j => do
  let R ← getNat j "rows"
  let C ← getNat j "cols"
  let data ← getIntArray j "data"
  let dim ← parseRDimArg j
  match realignmentArgs (matOfArray data C) R C dim with
  | .error e => return rejectRej e
  | .ok (R', C', Y) =>
    return Json.mkObj [("shape", natListJson [R', C']), ("data", intArrayJson (arrayOfMat R' C' Y))]

def handlers : List (String × Handler) :=
  [("partial_trace", hPartialTrace), ("partial_trace_sym", hPartialTraceSym),
   ("partial_transpose", hPartialTranspose), ("partial_transpose_sym", hPartialTransposeSym),
   ("realignment", hRealignment)]

end Toq.Driver.C02
