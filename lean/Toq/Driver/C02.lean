import Toq.Driver.Util
import Toq.Model.PartialOps
/-! Driver front ends for C02 (`partial_trace`) and C03 (`partial_transpose`, `realignment`):
argument normalisation as in the Python, then the mirror model on integer data. -/
open Lean Toq.PartialOps

namespace Toq.Driver.C02

/-- `int(np.round(np.sqrt(N)))` -/
def roundSqrt (N : Nat) : Nat :=
  let r := Nat.sqrt N
  if N - r * r > r then r + 1 else r

def parseSys (j : Json) : Except String (List Nat) := do
  if isNull j "sys" then return [1]
  let v ← j.getObjVal? "sys"
  match v with
  | Json.arr _ => asNatList v
  | _ => return [← v.getNat?]

/-- `partial_trace` -/
def hPartialTrace : Handler := fun j => do
  let N ← getNat j "n"
  let data ← getIntArray j "data"
  let sys ← parseSys j
  let dim0 : List Nat ←
    if isNull j "dim" then pure [roundSqrt N]
    else match (← j.getObjVal? "dim") with
      | Json.arr a => a.toList.mapM (·.getNat?)
      | v => do pure [← v.getNat?]
  let dims : Option (List Nat) :=
    match dim0 with
    | [d] => if d != 0 && N % d == 0 then some [d, N / d] else none
    | l => some l
  match dims with
  | none => return reject "InvalidDim"
  | some dl =>
    let n := dl.length
    if dl.foldl (· * ·) 1 != N then return reject "InvalidDim"
    if sys.any (· ≥ n) then return reject "InvalidSys"
    let dims := fnOfList dl
    let T := prodList dims sys
    let K := N / T
    let out := arrayOfMat K K (partialTrace (matOfArray data N) n dims sys)
    return Json.mkObj [("shape", natListJson [K, K]), ("data", intArrayJson out)]

/-- `partial_transpose` -/
def hPartialTranspose : Handler := fun j => do
  let R ← getNat j "rows"
  let C ← getNat j "cols"
  let data ← getIntArray j "data"
  let sys ← parseSys j
  let dims2 : Option (List Nat × List Nat) ←
    if isNull j "dim" then
      let sr := roundSqrt R; let sc := roundSqrt C
      pure (some ([sr, sr], [sc, sc]))
    else do
      let v ← j.getObjVal? "dim"
      let a ← v.getArr?
      match (a[0]? : Option Json) with
      | some (Json.arr _) => pure (some (← asNatList a[0]!, ← asNatList a[1]!))
      | _ =>
        let l ← asNatList v
        match l with
        | [d] => if d != 0 && R % d == 0 then pure (some ([d, R / d], [d, R / d])) else pure none
        | _ => pure (some (l, l))
  match dims2 with
  | none => return reject "InvalidDim"
  | some (rl, cl) =>
    let n := rl.length
    if cl.length != n then return reject "InvalidDim"
    if rl.foldl (· * ·) 1 != R || cl.foldl (· * ·) 1 != C then return reject "InvalidDim"
    if sys.any (· ≥ n) then return reject "InvalidSys"
    let rd := fnOfList rl; let cd := fnOfList cl
    let sr := prodList rd sys; let sc := prodList cd sys
    let R' := (R / sr) * sc; let C' := (C / sc) * sr
    let out := arrayOfMat R' C' (partialTranspose (matOfArray data C) n rd cd sys)
    return Json.mkObj [("shape", natListJson [R', C']), ("data", intArrayJson out)]

/-- `realignment` with `dim = [[r0,r1],[c0,c1]]` already normalised by the harness as the code does -/
def hRealignment : Handler := fun j => do
  let data ← getIntArray j "data"
  let rl ← getNatList j "rdim"
  let cl ← getNatList j "cdim"
  match rl, cl with
  | [r0, r1], [c0, c1] =>
    if data.size != r0 * r1 * c0 * c1 then return reject "InvalidDim"
    let out := arrayOfMat (r0 * c0) (r1 * c1) (realignment (matOfArray data (c0 * c1)) r0 r1 c0 c1)
    return Json.mkObj [("shape", natListJson [r0 * c0, r1 * c1]), ("data", intArrayJson out)]
  | _, _ => return reject "InvalidDim"

def handlers : List (String × Handler) :=
  [("partial_trace", hPartialTrace), ("partial_transpose", hPartialTranspose), ("realignment", hRealignment)]

end Toq.Driver.C02
