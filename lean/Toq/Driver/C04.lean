import Toq.Driver.Util
import Toq.Driver.QJson
import Toq.Model.ChannelOps
import Toq.Model.ChannelOpsExtra
/-! Driver handlers for C04: `apply_channel`, `kraus_to_choi`, `partial_channel`,
`natural_representation`, `channel_dim` mirror models on Gaussian-integer matrices.

Matrix JSON: `{"r":rows,"c":cols,"re":[…],"im":[…]}` (row-major).  Kraus argument JSON:
`{"tag":"flat","ops":[mat,…]}` or `{"tag":"nested","ops":[[mat,…],…]}`. -/
open Lean Toq.ChannelOps

namespace Toq.Driver.C04

def parseMat (v : Json) : Except String (Mat GI) := do
  let r ← getNat v "r"
  let c ← getNat v "c"
  let re ← getIntArray v "re"
  let im ← getIntArray v "im"
  if re.size != r * c || im.size != r * c then throw "matrix data size"
  return ⟨r, c, fun i j => ⟨re[i * c + j]!, im[i * c + j]!⟩⟩

/-- force the entries (so that nested closures are evaluated once) -/
def freeze (m : Mat GI) : Mat GI :=
  let a := arrayOfMat m.r m.c m.e
  ⟨m.r, m.c, fun i j => a[i * m.c + j]!⟩

def matJson (m : Mat GI) : Json :=
  let a := arrayOfMat m.r m.c m.e
  Json.mkObj [("r", Json.num m.r), ("c", Json.num m.c), ("re", intArrayJson (a.map (·.re))),
    ("im", intArrayJson (a.map (·.im)))]

def parseMatList (v : Json) : Except String (List (Mat GI)) := do
  let a ← v.getArr?
  a.toList.mapM parseMat

def parseKraus (v : Json) : Except String (KrausArg GI) := do
  let tag ← (← v.getObjVal? "tag").getStr?
  let ops ← v.getObjVal? "ops"
  if tag == "flat" then return .flat (← parseMatList ops)
  else
    let a ← ops.getArr?
    return .nested (← a.toList.mapM parseMatList)

def krausJson : KrausArg GI → Json
  | .flat l => Json.mkObj [("tag", Json.str "flat"), ("ops", Json.arr (l.map matJson).toArray)]
  | .nested ll => Json.mkObj [("tag", Json.str "nested"),
      ("ops", Json.arr (ll.map (fun l => Json.arr (l.map matJson).toArray)).toArray)]

def parseDimArg (j : Json) (k : String) : Except String DimArg := do
  if isNull j k then return .none
  let v ← j.getObjVal? k
  match v with
  | .num _ => return .int (← v.getNat?)
  | .arr a =>
    match (a[0]? : Option Json) with
    | some (Json.arr _) =>
      if a.size != 2 then return .bad
      let r ← asNatList a[0]!
      let c ← asNatList a[1]!
      match r, c with
      | [x, y], [z, w] => return .mat x y z w
      | _, _ => return .bad
    | _ =>
      match ← asNatList v with
      | [m, n] => return .vec m n
      | _ => return .bad
  | _ => return .bad

/-- shapes of the split lists against the input, as NumPy needs them -/
def guardedApply (X : Mat GI) (phi : KrausArg GI) : Json :=
  match phi.split with
  | none => reject "BadList"
  | some (as, bs) =>
    match as, bs with
    | a :: _, b :: _ =>
      if krausShapesOk X as bs a.r b.r then
        matJson (applyKrausLists X (as.map freeze) (bs.map freeze))
      else reject "Shape"
    | _, _ => reject "BadList"

def hApplyKraus : Handler := fun j => do
  let X ← parseMat (← j.getObjVal? "X")
  let phi ← parseKraus (← j.getObjVal? "phi")
  return guardedApply X phi

def notVector (m : Mat GI) : Bool := m.r ≥ 2 && m.c ≥ 2

def hApplyChoi : Handler := fun j => do
  let X ← parseMat (← j.getObjVal? "X")
  let J ← parseMat (← j.getObjVal? "J")
  if !(choiShapesOk X J) then return reject "Shape"
  if !(notVector J) then return reject "VectorShaped"
  return matJson (applyChoi X J)

def hKrausToChoi : Handler := fun j => do
  let phi ← parseKraus (← j.getObjVal? "phi")
  let sys ← getNat j "sys"
  match channelDimKraus phi true .none with
  | .error e => return reject e.name
  | .ok cd =>
    let d1 := cd.in0
    let d2 := cd.in1
    let rho : Mat GI := freeze ((Mat.maxEnt d1).mul (Mat.maxEnt d2).ct)
    match embedArg phi sys 2 (fnOfList [d1, d1]) (fnOfList [d2, d2]) with
    | none => return reject "BadList"
    | some e => return guardedApply rho e

/-- the `dim` argument of `partial_channel` as sent by the harness: `None`, 1-d list, 2-row list -/
def parsePDimArg (j : Json) : Except String PDimArg := do
  if isNull j "dim" then return .none
  let v ← j.getObjVal? "dim"
  let a ← v.getArr?
  match (a[0]? : Option Json) with
  | some (Json.arr _) =>
    let r ← asNatList a[0]!
    let c ← asNatList a[1]!
    return .two r c
  | _ =>
    let d ← asNatList v
    return .one d

/-- `dim` normalisation of `partial_channel` (`Toq.ChannelOps.partialDimNorm`) -/
def parsePartialDim (j : Json) (rho : Mat GI) : Except String (Option (List Nat × List Nat)) := do
  return partialDimNorm rho (← parsePDimArg j)

def hPartialKraus : Handler := fun j => do
  let rho ← parseMat (← j.getObjVal? "rho")
  let phi ← parseKraus (← j.getObjVal? "phi")
  let sys ← getNat j "sys"
  match ← parsePartialDim j rho with
  | none => return reject "InvalidDim"
  | some (rd, cd) =>
    let n := rd.length
    if cd.length != n || sys < 1 || sys > n then return reject "InvalidDim"
    if rd.foldl (· * ·) 1 != rho.r || cd.foldl (· * ·) 1 != rho.c then return reject "InvalidDim"
    match embedArg phi sys n (fnOfList rd) (fnOfList cd) with
    | none => return reject "BadList"
    | some e => return guardedApply rho e

def hPartialChoi : Handler := fun j => do
  let rho ← parseMat (← j.getObjVal? "rho")
  let J ← parseMat (← j.getObjVal? "J")
  let sys ← getNat j "sys"
  match ← parsePartialDim j rho with
  | none => return reject "InvalidDim"
  | some (rd, cd) =>
    let n := rd.length
    if cd.length != n || sys < 1 || sys > n then return reject "InvalidDim"
    if rd.foldl (· * ·) 1 != rho.r || cd.foldl (· * ·) 1 != rho.c then return reject "InvalidDim"
    let di0 := (fnOfList rd) (sys - 1)
    let di1 := (fnOfList cd) (sys - 1)
    if di0 == 0 || di1 == 0 || J.r % di0 != 0 || J.c % di1 != 0 then return reject "Shape"
    if !(notVector J) || !(notVector rho) then return reject "VectorShaped"
    let out := applyChoi rho (freeze (embedChoi J sys n (fnOfList rd) (fnOfList cd)))   -- = partialChannelChoi
    return matJson out

def hNaturalRep : Handler := fun j => do
  let ops ← parseMatList (← j.getObjVal? "ops")
  match naturalRep ops with
  | none => return reject "Shape"
  | some m => return matJson m

def chanDimJson (c : ChanDim) : Json :=
  Json.mkObj [("dim_in", natListJson [c.in0, c.in1]), ("dim_out", natListJson [c.out0, c.out1]),
    ("dim_e", match c.env with | some e => Json.num e | none => Json.null)]

def hChannelDim : Handler := fun j => do
  let allow ← getBool j "allow_rect"
  let dim ← parseDimArg j "dim"
  if isNull j "phi" then
    let rows ← getNat j "rows"
    let cols ← getNat j "cols"
    match channelDimChoi rows cols allow dim with
    | .error e => return reject e.name
    | .ok c => return chanDimJson c
  else
    let phi ← parseKraus (← j.getObjVal? "phi")
    match channelDimKraus phi allow dim with
    | .error e => return reject e.name
    | .ok c => return chanDimJson c

/-! ### `choi_to_kraus`: exact rationals (`ℚ[i]`); matrices `{"r","c","re":[q…],"im":[q…]}` with `q` an integer
or `[num, den]` -/

def asRatArray (v : Json) : Except String (Array Rat) := do
  let a ← v.getArr?
  a.mapM asRat

def parseMatQ (v : Json) : Except String (Mat QI) := do
  let r ← getNat v "r"
  let c ← getNat v "c"
  let re ← asRatArray (← v.getObjVal? "re")
  let im ← asRatArray (← v.getObjVal? "im")
  if re.size != r * c || im.size != r * c then throw "matrix data size"
  return ⟨r, c, fun i j => ⟨re[i * c + j]!, im[i * c + j]!⟩⟩

def matJsonQ (m : Mat QI) : Json :=
  let a := arrayOfMat m.r m.c m.e
  Json.mkObj [("r", Json.num m.r), ("c", Json.num m.c), ("re", Json.arr (a.map (fun x => ratJson x.re))),
    ("im", Json.arr (a.map (fun x => ratJson x.im)))]

def krausJsonQ : KrausArg QI → Json
  | .flat l => Json.mkObj [("tag", Json.str "flat"), ("ops", Json.arr (l.map matJsonQ).toArray)]
  | .nested ll => Json.mkObj [("tag", Json.str "nested"),
      ("ops", Json.arr (ll.map (fun l => Json.arr (l.map matJsonQ).toArray)).toArray)]

/-- the float functions of `choi_to_kraus` on exact (real) rationals: `abs`, `np.sign`, comparisons and unary minus
    exactly; `np.sqrt` as the finite table of correctly rounded doubles sent by the harness -/
def qiOps (table : List (Rat × Rat)) : RealOps QI :=
  { sqrt := fun x => ⟨(table.lookup x.re).getD 0, 0⟩
    abs := fun x => ⟨if x.re < 0 then -x.re else x.re, 0⟩
    sign := fun x => ⟨if x.re < 0 then -1 else if 0 < x.re then 1 else 0, 0⟩
    neg := fun x => ⟨-x.re, -x.im⟩
    gt := fun x y => decide (y.re < x.re)
    ge := fun x y => decide (y.re ≤ x.re) }

def emptyMatQ : Mat QI := ⟨0, 0, fun _ _ => 0⟩

def freezeQ (m : Mat QI) : Mat QI :=
  let a := arrayOfMat m.r m.c m.e
  ⟨m.r, m.c, fun i j => a[i * m.c + j]!⟩

def hChoiToKraus : Handler := fun j => do
  let J ← parseMatQ (← j.getObjVal? "J")
  let tol ← getRat j "tol"
  let atol ← getRat j "atol"
  let dim ← parseDimArg j "dim"
  let tab ← (← (← j.getObjVal? "sqrt").getArr?).toList.mapM (fun p => do
    let a ← p.getArr?
    if a.size != 2 then throw "sqrt table: pairs expected"
    return ((← asRat a[0]!), (← asRat a[1]!)))
  let eig : Eigh QI ←
    if isNull j "eigh" then pure ⟨[], emptyMatQ⟩
    else do
      let e ← j.getObjVal? "eigh"
      let ev ← getRatList e "evals"
      let V ← parseMatQ (← e.getObjVal? "V")
      pure ⟨ev.map QI.ofRat, freezeQ V⟩
  let svd : Svd QI ←
    if isNull j "svd" then pure ⟨emptyMatQ, [], emptyMatQ⟩
    else do
      let e ← j.getObjVal? "svd"
      let S ← getRatList e "S"
      let U ← parseMatQ (← e.getObjVal? "U")
      let Vh ← parseMatQ (← e.getObjVal? "Vh")
      pure ⟨freezeQ U, S.map QI.ofRat, freezeQ Vh⟩
  if !(notVectorQ J) then return reject "VectorShaped"
  match choiToKraus (qiOps tab) (freezeQ J) (QI.ofRat tol) (QI.ofRat atol) dim eig svd with
  | .error e => return reject e.name
  | .ok phi =>
    return Json.mkObj [("out", krausJsonQ phi), ("hermitian", Json.bool (isHermitianExact J)),
      ("psd", Json.bool (isPsdFrom (qiOps tab) (isHermitianExact J) (QI.ofRat atol) eig.evals))]
where
  notVectorQ (m : Mat QI) : Bool := m.r ≥ 1 && m.c ≥ 1

def handlers : List (String × Handler) :=
  [("c04_apply_kraus", hApplyKraus), ("c04_apply_choi", hApplyChoi), ("c04_kraus_to_choi", hKrausToChoi),
   ("c04_partial_kraus", hPartialKraus), ("c04_partial_choi", hPartialChoi),
   ("c04_natural_rep", hNaturalRep), ("c04_channel_dim", hChannelDim), ("c04_choi_to_kraus", hChoiToKraus)]

end Toq.Driver.C04
