import Toq.Driver.Util
import Toq.Core.EMat
/-! JSON encoding of exact complex-dyadic matrices:
`{"e":k,"re":[…row-major ints…],"im":[…]}` means entries `(re + i·im) / 2^k`; `"im"` may be omitted (real).
Rationals: `[num, den]` or an integer. -/
open Lean

namespace Toq.Driver

def dyadic (m : Int) (e : Nat) : Rat := (m : Rat) / ((2 ^ e : Nat) : Rat)

def parseEMat (n m : Nat) (j : Json) : Except String (EMat n m) := do
  let e := (getNat j "e").toOption.getD 0
  let re ← getIntArray j "re"
  let im := (getIntArray j "im").toOption.getD (Array.replicate (n * m) 0)
  if re.size != n * m || im.size != n * m then throw s!"matrix size mismatch: expected {n}x{m}, got {re.size}"
  return EMat.ofFn fun i k => ⟨dyadic re[i.val * m + k.val]! e, dyadic im[i.val * m + k.val]! e⟩

def getEMat (j : Json) (key : String) (n m : Nat) : Except String (EMat n m) := do
  parseEMat n m (← j.getObjVal? key)

def getEMatList (j : Json) (key : String) (n m : Nat) : Except String (List (EMat n m)) := do
  let a ← (← j.getObjVal? key).getArr?
  a.toList.mapM (parseEMat n m)

def asRat (v : Json) : Except String Rat := do
  match v with
  | .arr a =>
    if a.size != 2 then throw "rational: expected [num, den]"
    let nu ← a[0]!.getInt?
    let de ← a[1]!.getNat?
    if de == 0 then throw "rational: zero denominator"
    return (nu : Rat) / (de : Rat)
  | _ => return ((← v.getInt?) : Rat)

def getRat (j : Json) (key : String) : Except String Rat := do asRat (← j.getObjVal? key)

def getRatList (j : Json) (key : String) : Except String (List Rat) := do
  let a ← (← j.getObjVal? key).getArr?
  a.toList.mapM asRat

def ratJson (q : Rat) : Json := Json.arr #[Json.num q.num, Json.num (q.den : Nat)]

end Toq.Driver
