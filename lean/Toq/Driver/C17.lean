import Toq.Driver.Util
import Toq.Driver.QJson
import Toq.Model.States
/-! Driver handlers for C17: closed-form models of `toqito.states` and `toqito.matrices`.

Three result encodings (all integers):
* `c17_ru`  — matrices whose entries are `0` or roots of unity: `{"shape","k":[…],"den2":n,"order":d}`;
  `k = -1` means `0`, otherwise the entry is `ω_d^k / √den2`;
* `c17_int` — (Gaussian-)integer numerators: `{"shape","re","im","den2"}`, entry `(re + i·im)/√den2`;
* `c17_rat` — rational matrices: `{"shape","q":[[num,den],…]}`. -/
open Lean Toq.Matrices Toq.States

namespace Toq.Driver.C17

def ruJson (r c : Nat) (order den2 : Nat) (M : Nat → Nat → RU) : Json :=
  let a := arrayOfMat r c (fun i j => match M i j with | none => (-1 : Int) | some k => (k : Int))
  Json.mkObj [("shape", natListJson [r, c]), ("k", intArrayJson a), ("den2", Json.num den2), ("order", Json.num order)]

def giJson (shape : List Nat) (r c : Nat) (den2 : Nat) (M : Nat → Nat → GI) : Json :=
  let a := arrayOfMat r c M
  Json.mkObj [("shape", natListJson shape), ("re", intArrayJson (a.map (·.re))), ("im", intArrayJson (a.map (·.im))),
    ("den2", Json.num den2)]

def intJson (shape : List Nat) (r c : Nat) (den2 : Nat) (M : Nat → Nat → Int) : Json :=
  giJson shape r c den2 (fun i j => ⟨M i j, 0⟩)

def vecJson (n : Nat) (den2 : Nat) (v : Nat → Int) (shape : List Nat := [n, 1]) : Json :=
  intJson shape n 1 den2 (fun i _ => v i)

def ratMatJson (r c : Nat) (M : Nat → Nat → Rat) : Json :=
  Json.mkObj [("shape", natListJson [r, c]), ("q", Json.arr ((arrayOfMat r c M).map ratJson))]

def hRU : Handler := fun j => do
  let kind ← (← j.getObjVal? "kind").getStr?
  let d ← getNat j "d"
  if d == 0 then return reject "InvalidDim"
  match kind with
  | "shift" => return ruJson d d d 1 (shiftE d)
  | "clock" => return ruJson d d d 1 (clockE d)
  | "fourier" => return ruJson d d d d (fourierE d)
  | "gen_pauli" =>
    let a ← getNat j "a"; let b ← getNat j "b"
    return ruJson d d d 1 (genPauliE d a b)
  | "gen_bell" =>
    let a ← getNat j "a"; let b ← getNat j "b"
    return ruJson (d * d) (d * d) d (d * d) (genBellE d a b)
  | _ => throw s!"c17_ru: unknown kind {kind}"

def getCoeff (j : Json) (n : Nat) : Except String (Option (Nat → Int)) := do
  if isNull j "coeff" then return some (fun _ => 1)
  let c ← getIntArray j "coeff"
  if c.size != n then return none
  return some (fun k => c[k]!)

def hInt : Handler := fun j => do
  let kind ← (← j.getObjVal? "kind").getStr?
  match kind with
  | "pauli" =>
    let l ← getNatList j "ind"
    let n := 2 ^ l.length
    return giJson [n, n] n n 1 (pauliList l)
  | "gell_mann" =>
    let i ← getNat j "ind"
    if i > 8 then return reject "InvalidIdx"
    return giJson [3, 3] 3 3 (gellMannDen2 i) (gellMann i)
  | "gen_gell_mann" =>
    let a ← getNat j "a"; let b ← getNat j "b"; let d ← getNat j "d"
    return giJson [d, d] d d (genGellMannDen2 a b) (genGellMann a b)
  | "hadamard" =>
    let n ← getNat j "n"
    return intJson [2 ^ n, 2 ^ n] (2 ^ n) (2 ^ n) (2 ^ n) (hadamardS n)
  | "hadamard_mirror" =>
    let n ← getNat j "n"
    return intJson [2 ^ n, 2 ^ n] (2 ^ n) (2 ^ n) (2 ^ n) (hadamardMirror n)
  | "cnot" => return intJson [4, 4] 4 4 1 cnot
  | "standard_basis" =>
    let d ← getNat j "d"
    return intJson [d, d] d d 1 (standardBasis d)
  | "cyclic" =>
    let n ← getNat j "n"; let k ← getNat j "k"
    return intJson [n, n] n n 1 (cyclicPerm n k)
  | "cyclic_mirror" =>
    let n ← getNat j "n"; let k ← getNat j "k"
    return intJson [n, n] n n 1 (cyclicPermMirror n k)
  | "basis" =>
    let d ← getNat j "d"; let pos ← getNat j "pos"
    if pos ≥ d then return reject "InvalidPos"
    return vecJson d 1 (basisS pos)
  | "bell" =>
    let i ← getNat j "idx"
    if i > 3 then return reject "InvalidIdx"
    return vecJson 4 2 (bellS i)
  | "max_entangled" =>
    let d ← getNat j "d"; let nrm ← getBool j "normalized"
    return vecJson (d * d) (if nrm then d else 1) (maxEntS d)
  | "ghz" =>
    let d ← getInt j "d"; let n ← getInt j "n"
    if d < 1 then return reject "InvalidDim"
    if n < 1 then return reject "InvalidNumQubits"
    let d := d.toNat; let n := n.toNat
    match ← getCoeff j d with
    | none => return reject "InvalidCoeff"
    | some c =>
      let den2 := sumN d (fun i => (c i * c i).toNat)
      return vecJson (d ^ n) den2 (ghzGen d n c)
  | "w_state" =>
    let n ← getInt j "n"
    if n < 2 then return reject "InvalidNumQubits"
    let n := n.toNat
    match ← getCoeff j n with
    | none => return reject "InvalidCoeff"
    | some c =>
      let den2 := sumN n (fun i => (c i * c i).toNat)
      return vecJson (2 ^ n) den2 (wGen n c)
  | "dicke" =>
    let n ← getNat j "n"; let k ← getNat j "k"
    if k > n then return reject "InvalidExcitations"
    return vecJson (2 ^ n) (choose n k) (dickeS n k) [2 ^ n]
  | "tile" =>
    let i ← getNat j "idx"
    if i > 4 then return reject "InvalidIdx"
    return vecJson 9 (tileDen2 i) (tileS i)
  | "domino" =>
    let i ← getNat j "idx"
    if i > 8 then return reject "InvalidIdx"
    return vecJson 9 (dominoDen2 i) (dominoS i)
  | _ => throw s!"c17_int: unknown kind {kind}"

def hRat : Handler := fun j => do
  let kind ← (← j.getObjVal? "kind").getStr?
  match kind with
  | "werner" =>
    let d ← getNat j "d"; let a ← getRat j "alpha"
    if (d : Rat) * ((d : Rat) - a) == 0 then return reject "ZeroDivision"
    return ratMatJson (d * d) (d * d) (werner d a)
  | "werner_list" =>
    let d ← getNat j "d"; let al ← getRatList j "alpha"; let asort ← getBool j "argsort"
    match factInv (al.length + 1) with
    | none => return reject "InvalidAlpha"
    | some p =>
      let N := d ^ p
      if trace N (wernerListNum d p al asort) == 0 then return reject "ZeroDivision"
      return ratMatJson N N (wernerList d p al asort)
  | "isotropic" =>
    let d ← getNat j "d"; let a ← getRat j "alpha"
    if d == 0 then return reject "ZeroDivision"
    return ratMatJson (d * d) (d * d) (isotropic d a)
  | "max_mixed" =>
    let d ← getNat j "d"
    if d == 0 then return reject "ZeroDivision"
    return ratMatJson d d (maxMixed d)
  | "singlet" =>
    let d ← getNat j "d"
    if d < 2 then return reject "ZeroDivision"
    return ratMatJson (d * d) (d * d) (singlet d)
  | "horodecki" =>
    let a ← getRat j "a"
    if a < 0 || a > 1 then return reject "InvalidA"
    let dim ← if isNull j "dim" then pure [3, 3] else getNatList j "dim"
    let c ← getRat j "c"
    if 4 * c * c != 1 - a * a || c < 0 then throw "c17_rat horodecki: c is not sqrt(1-a^2)/2"
    if dim == [3, 3] then return ratMatJson 9 9 (horodecki33 a c)
    else if dim == [2, 4] then return ratMatJson 8 8 (horodecki24 a c)
    else return reject "InvalidDim"
  | "werner_pt_eigs" =>
    let d ← getNat j "d"; let a ← getRat j "alpha"
    if (d : Rat) * ((d : Rat) - a) == 0 then return reject "ZeroDivision"
    let e := wernerPTEigs d a
    return Json.mkObj [("eigs", Json.arr #[ratJson e.1, ratJson e.2])]
  | "isotropic_pt_eigs" =>
    let d ← getNat j "d"; let a ← getRat j "alpha"
    if d == 0 then return reject "ZeroDivision"
    let e := isotropicPTEigs d a
    return Json.mkObj [("eigs", Json.arr #[ratJson e.1, ratJson e.2])]
  | _ => throw s!"c17_rat: unknown kind {kind}"

def handlers : List (String × Handler) := [("c17_ru", hRU), ("c17_int", hInt), ("c17_rat", hRat)]
end Toq.Driver.C17
