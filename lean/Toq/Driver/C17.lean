import Toq.Driver.Util
import Toq.Driver.QJson
import Toq.Model.States
import Toq.Model.StatesExtra
import Toq.Model.Combinat
/-! Driver handlers for C17: closed-form models of `toqito.states` and `toqito.matrices`.

Three result encodings (all integers):
* `c17_ru`  — matrices whose entries are `0` or roots of unity: `{"shape","k":[…],"den2":n,"order":d}`;
  `k = -1` means `0`, otherwise the entry is `ω_d^k / √den2`;
* `c17_int` — (Gaussian-)integer numerators: `{"shape","re","im","den2"}`, entry `(re + i·im)/√den2`;
* `c17_rat` — rational matrices: `{"shape","q":[[num,den],…]}`. -/
open Lean Toq.Matrices Toq.States

namespace Toq.Driver.C17

def ruJson (r c : Nat) (order den2 : Nat) (M : Nat → Nat → RU) : Json :=
  let a := arrayOfMat r c (fun i j => match M i j with | none => (-1 : Int) | some k => (k : Int))
  Json.mkObj [("shape", natListJson [r, c]), ("k", intArrayJson a), ("den2", Json.num den2), ("order", Json.num order)]

def giJson (shape : List Nat) (r c : Nat) (den2 : Nat) (M : Nat → Nat → GI) : Json :=
  let a := arrayOfMat r c M
  Json.mkObj [("shape", natListJson shape), ("re", intArrayJson (a.map (·.re))), ("im", intArrayJson (a.map (·.im))),
    ("den2", Json.num den2)]

def intJson (shape : List Nat) (r c : Nat) (den2 : Nat) (M : Nat → Nat → Int) : Json :=
  giJson shape r c den2 (fun i j => ⟨M i j, 0⟩)

def vecJson (n : Nat) (den2 : Nat) (v : Nat → Int) (shape : List Nat := [n, 1]) : Json :=
  intJson shape n 1 den2 (fun i _ => v i)

def ratMatJson (r c : Nat) (M : Nat → Nat → Rat) : Json :=
  Json.mkObj [("shape", natListJson [r, c]), ("q", Json.arr ((arrayOfMat r c M).map ratJson))]

def hRU : Handler := fun j => do
  let kind ← (← j.getObjVal? "kind").getStr?
  let d ← getNat j "d"
  if d == 0 then return reject "InvalidDim"
  match kind with
  | "shift" => return ruJson d d d 1 (shiftE d)
  | "clock" => return ruJson d d d 1 (clockE d)
  | "fourier" => return ruJson d d d d (fourierE d)
  | "gen_pauli" =>
    let a ← getNat j "a"; let b ← getNat j "b"
    return ruJson d d d 1 (genPauliE d a b)
  | "gen_bell" =>
    let a ← getNat j "a"; let b ← getNat j "b"
    return ruJson (d * d) (d * d) d (d * d) (genBellE d a b)
  | "mub" =>
    -- basis `g` (1..d) of `mutually_unbiased_basis(d)`, odd prime `d`: eigenvectors of `X Z^j`, `j = d + 1 - g`
    let g ← getNat j "g"
    if mubGuard d != 0 then return reject (if mubGuard d == 1 then "PrimePower" else "NoConstruction")
    if d == 2 then throw "c17_ru mub: d = 2 is served by c17_int mub2"
    if g == 0 || g > d then throw "c17_ru mub: g out of range"
    let jj := mubLoopJ d g
    let rows := (List.range d).map (fun m => intArrayJson (arrayOfFn d (fun x => match mubE d jj m x with | none => (-1 : Int) | some k => (k : Int))))
    return Json.mkObj [("j", Json.num jj), ("order", Json.num d), ("den2", Json.num d), ("vectors", Json.arr rows.toArray),
      ("matrix", ruJson d d d 1 (genPauliE d 1 jj))]
  | _ => throw s!"c17_ru: unknown kind {kind}"

def getCoeff (j : Json) (n : Nat) : Except String (Option (Nat → Int)) := do
  if isNull j "coeff" then return some (fun _ => 1)
  let c ← getIntArray j "coeff"
  if c.size != n then return none
  return some (fun k => c[k]!)

def hInt : Handler := fun j => do
  let kind ← (← j.getObjVal? "kind").getStr?
  match kind with
  | "pauli" =>
    let l ← getNatList j "ind"
    let n := 2 ^ l.length
    return giJson [n, n] n n 1 (pauliList l)
  | "gell_mann" =>
    let i ← getNat j "ind"
    if i > 8 then return reject "InvalidIdx"
    return giJson [3, 3] 3 3 (gellMannDen2 i) (gellMann i)
  | "gen_gell_mann" =>
    let a ← getNat j "a"; let b ← getNat j "b"; let d ← getNat j "d"
    return giJson [d, d] d d (genGellMannDen2 a b) (genGellMann a b)
  | "hadamard" =>
    let n ← getNat j "n"
    return intJson [2 ^ n, 2 ^ n] (2 ^ n) (2 ^ n) (2 ^ n) (hadamardS n)
  | "hadamard_mirror" =>
    let n ← getNat j "n"
    return intJson [2 ^ n, 2 ^ n] (2 ^ n) (2 ^ n) (2 ^ n) (hadamardMirror n)
  | "cnot" => return intJson [4, 4] 4 4 1 cnot
  | "standard_basis" =>
    let d ← getNat j "d"
    return intJson [d, d] d d 1 (standardBasis d)
  | "cyclic" =>
    let n ← getNat j "n"; let k ← getNat j "k"
    return intJson [n, n] n n 1 (cyclicPerm n k)
  | "cyclic_mirror" =>
    let n ← getNat j "n"; let k ← getNat j "k"
    return intJson [n, n] n n 1 (cyclicPermMirror n k)
  | "basis" =>
    let d ← getNat j "d"; let pos ← getNat j "pos"
    if pos ≥ d then return reject "InvalidPos"
    return vecJson d 1 (basisS pos)
  | "bell" =>
    let i ← getNat j "idx"
    if i > 3 then return reject "InvalidIdx"
    return vecJson 4 2 (bellS i)
  | "bell_mirror" =>
    let i ← getNat j "idx"
    if i > 3 then return reject "InvalidIdx"
    return vecJson 4 2 (bellMirror i)
  | "max_entangled" =>
    let d ← getNat j "d"; let nrm ← getBool j "normalized"
    return vecJson (d * d) (if nrm then d else 1) (maxEntS d)
  | "ghz" =>
    let d ← getInt j "d"; let n ← getInt j "n"
    if d < 1 then return reject "InvalidDim"
    if n < 1 then return reject "InvalidNumQubits"
    let d := d.toNat; let n := n.toNat
    match ← getCoeff j d with
    | none => return reject "InvalidCoeff"
    | some c =>
      let den2 := sumN d (fun i => (c i * c i).toNat)
      return vecJson (d ^ n) den2 (ghzGen d n c)
  | "w_state" =>
    let n ← getInt j "n"
    if n < 2 then return reject "InvalidNumQubits"
    let n := n.toNat
    match ← getCoeff j n with
    | none => return reject "InvalidCoeff"
    | some c =>
      let den2 := sumN n (fun i => (c i * c i).toNat)
      return vecJson (2 ^ n) den2 (wGen n c)
  | "dicke" =>
    let n ← getNat j "n"; let k ← getNat j "k"
    if k > n then return reject "InvalidExcitations"
    return vecJson (2 ^ n) (choose n k) (dickeS n k) [2 ^ n]
  | "tile" =>
    let i ← getNat j "idx"
    if i > 4 then return reject "InvalidIdx"
    return vecJson 9 (tileDen2 i) (tileS i)
  | "domino" =>
    let i ← getNat j "idx"
    if i > 8 then return reject "InvalidIdx"
    return vecJson 9 (dominoDen2 i) (dominoS i)
  | "mub2" =>
    let g ← getNat j "g"; let m ← getNat j "m"
    if g > 2 || m > 1 then throw "c17_int mub2: index out of range"
    return giJson [2] 2 1 (mub2Den2 g) (fun x _ => mub2 g m x)
  | "bb84" =>
    let b ← getNat j "b"; let m ← getNat j "m"
    if b > 1 || m > 1 then throw "c17_int bb84: index out of range"
    return vecJson 2 (bb84Den2 b) (bb84S b m)
  | "trine" =>
    -- component `x` of state `k` is `(p + q·√3)/2`
    let k ← getNat j "k"
    if k > 2 then throw "c17_int trine: index out of range"
    return Json.mkObj [("p", intArrayJson #[(trineS k 0).1, (trineS k 1).1]), ("q", intArrayJson #[(trineS k 0).2, (trineS k 1).2]),
      ("den", Json.num (2 : Nat))]
  | "breuer_psi" =>
    let d ← getNat j "d"
    let a := arrayOfFn (d * d) (breuerPsi d)
    let b := arrayOfFn (d * d) (breuerPsiMirror d)
    return Json.mkObj [("closed", intArrayJson a), ("mirror", intArrayJson b), ("den2", Json.num d)]
  | "brauer" =>
    let d ← getInt j "d"; let p ← getInt j "p"
    if d < 1 || p < 1 then return reject "InvalidArg"
    let d := d.toNat; let p := p.toNat
    let ms := Toq.Combinat.perfectMatchingsInt (2 * p)
    let rows := (d * d) ^ p
    let cols := ms.length
    return Json.mkObj [("shape", natListJson [rows, cols]),
      ("matchings", Json.arr (ms.map natListJson).toArray),
      ("re", intArrayJson (arrayOfMat rows cols (fun r c => brauerCol d p (ms.getD c []) r)))]
  | "mub_guard" =>
    let d ← getNat j "d"
    return Json.mkObj [("branch", Json.num (mubGuard d))]
  | _ => throw s!"c17_int: unknown kind {kind}"

def hRat : Handler := fun j => do
  let kind ← (← j.getObjVal? "kind").getStr?
  match kind with
  | "werner" =>
    let d ← getNat j "d"; let a ← getRat j "alpha"
    if (d : Rat) * ((d : Rat) - a) == 0 then return reject "ZeroDivision"
    return ratMatJson (d * d) (d * d) (werner d a)
  | "werner_list" =>
    let d ← getNat j "d"; let al ← getRatList j "alpha"; let asort ← getBool j "argsort"
    match wernerParties al.length with
    | none => return reject "InvalidAlpha"
    | some p =>
      let N := d ^ p
      if trace N (wernerListNum d p al asort) == 0 then return reject "ZeroDivision"
      return ratMatJson N N (wernerList d p al asort)
  | "isotropic" =>
    let d ← getNat j "d"; let a ← getRat j "alpha"
    if d == 0 then return reject "ZeroDivision"
    return ratMatJson (d * d) (d * d) (isotropic d a)
  | "max_mixed" =>
    let d ← getNat j "d"
    if d == 0 then return reject "ZeroDivision"
    return ratMatJson d d (maxMixed d)
  | "singlet" =>
    let d ← getNat j "d"
    if d < 2 then return reject "ZeroDivision"
    return ratMatJson (d * d) (d * d) (singlet d)
  | "horodecki" =>
    let a ← getRat j "a"
    if a < 0 || a > 1 then return reject "InvalidA"
    let dim ← if isNull j "dim" then pure [3, 3] else getNatList j "dim"
    let c ← getRat j "c"
    if 4 * c * c != 1 - a * a || c < 0 then throw "c17_rat horodecki: c is not sqrt(1-a^2)/2"
    if dim == [3, 3] then return ratMatJson 9 9 (horodecki33 a c)
    else if dim == [2, 4] then return ratMatJson 8 8 (horodecki24 a c)
    else return reject "InvalidDim"
  | "gisin" =>
    let lam ← getRat j "lam"; let sn ← getRat j "s"; let cs ← getRat j "c"
    if lam < 0 || lam > 1 then return reject "InvalidLambda"
    if sn * sn + cs * cs != 1 then throw "c17_rat gisin: s^2 + c^2 != 1"
    return ratMatJson 4 4 (gisin lam sn cs)
  | "pbr" =>
    let n ← getNat j "n"; let sn ← getRat j "s"; let cs ← getRat j "c"
    if sn * sn + cs * cs != 1 then throw "c17_rat pbr: s^2 + c^2 != 1"
    return Json.mkObj [("shape", natListJson [2 ^ n, 2 ^ n]),
      ("q", Json.arr ((arrayOfMat (2 ^ n) (2 ^ n) (fun t x => pbrVec cs sn n t x)).map ratJson)),
      ("gram", Json.arr ((arrayOfMat (2 ^ n) (2 ^ n) (fun t t' => pbrGram cs sn n t t')).map ratJson))]
  | "breuer" =>
    let d ← getInt j "d"; let lam ← getRat j "lam"
    if d % 2 == 1 || d ≤ 0 then return reject "InvalidDim"
    let d := d.toNat
    return ratMatJson (d * d) (d * d) (breuer d (breuerPsi d) lam)
  | "werner_pt_eigs" =>
    let d ← getNat j "d"; let a ← getRat j "alpha"
    if (d : Rat) * ((d : Rat) - a) == 0 then return reject "ZeroDivision"
    let e := wernerPTEigs d a
    return Json.mkObj [("eigs", Json.arr #[ratJson e.1, ratJson e.2])]
  | "isotropic_pt_eigs" =>
    let d ← getNat j "d"; let a ← getRat j "alpha"
    if d == 0 then return reject "ZeroDivision"
    let e := isotropicPTEigs d a
    return Json.mkObj [("eigs", Json.arr #[ratJson e.1, ratJson e.2])]
  | _ => throw s!"c17_rat: unknown kind {kind}"

/-- division in `ℚ[i]` (only used by the chessboard model; `x / 0 = 0`) -/
local instance : Div QI := ⟨fun a b =>
  let n := b.re * b.re + b.im * b.im
  ⟨(a.re * b.re + a.im * b.im) / n, (a.im * b.re - a.re * b.im) / n⟩⟩

def getQIList (j : Json) (key : String) : Except String (List QI) := do
  let a ← (← j.getObjVal? key).getArr?
  a.toList.mapM (fun v => do
    let pr ← v.getArr?
    if pr.size != 2 then throw "expected [re, im]"
    return (⟨← asRat pr[0]!, ← asRat pr[1]!⟩ : QI))

/-- `c17_qi`: complex-rational matrices `{"shape","re":[[num,den],…],"im":[…]}` -/
def hQI : Handler := fun j => do
  let kind ← (← j.getObjVal? "kind").getStr?
  match kind with
  | "chessboard" =>
    let ps ← getQIList j "params"
    if ps.length != 6 then return reject "InvalidParams"
    let pr : Nat → QI := fun k => ps.getD k 0
    let sv ← if isNull j "s" then pure (chessS pr) else do
      let l ← getQIList j "s"; pure (l.getD 0 0)
    let tv ← if isNull j "t" then pure (chessT pr) else do
      let l ← getQIList j "t"; pure (l.getD 0 0)
    if trace 9 (chessNum pr sv tv) == 0 then return reject "ZeroDivision"
    let a := arrayOfMat 9 9 (chessboard pr sv tv)
    return Json.mkObj [("shape", natListJson [9, 9]), ("re", Json.arr (a.map (fun z => ratJson z.re))),
      ("im", Json.arr (a.map (fun z => ratJson z.im)))]
  | _ => throw s!"c17_qi: unknown kind {kind}"

def handlers : List (String × Handler) := [("c17_ru", hRU), ("c17_int", hInt), ("c17_rat", hRat), ("c17_qi", hQI)]
end Toq.Driver.C17
