import Toq.Driver.Util
/-! Driver handlers for C15 (stub; filled in by the owner of this property). -/
namespace Toq.Driver.C15
def handlers : List (String × Handler) := []
end Toq.Driver.C15
