import Toq.Driver.QJson
import Toq.Model.Sep
/-! Driver front end for C15 (PPT / separability verdicts).

Matrices come in the `QJson` dyadic encoding (`{"e":k,"re":[…],"im":[…]}`), rationals as `[num, den]` or an
integer.  Exact matrices are returned as `{"re":[[num,den],…],"im":[[num,den],…]}` (row-major).

* `c15_pt        {"dA","dB","sys","X"}`                      → exact partial transpose `pt sys X`
* `c15_swap      {"dA","dB","X"}`                            → `swapAB X` (an operator on `dB ⊗ dA`)
* `c15_localconj {"dA","dB","U","V","X"}`                    → `(U ⊗ V) X (U ⊗ V)ᴴ`
* `c15_sepmix    {"dA","dB","w":[rat…],"a":[col…],"b":[col…]}` → `Σ_k w_k (a_k a_kᴴ) ⊗ (b_k b_kᴴ)`; rejects negative weights
  and unequal list lengths
* `c15_lammin    {"dA","dB","sys","X","tol","c","k","L","v"}` → certificates for `pt sys X`:
  `{"lo":rat|null,"hi":rat|null,"verdict":true|false|null}` (the verified `checkLamMinLower`, `checkLamMinUpper`, `pptVerdict`);
  `"sys":0` applies the certificates to `X` itself (no transpose)
* `c15_ball      {"n","M","thr"}`                            → `{"mirror":bool,"ineq":bool,"tr":rat,"frob2":rat}`
* `c15_ball_eig  {"lam":[rat…],"thr"}`                       → `{"ineq":bool}`
* `c15_realign   {"dA","dB","X"}`                            → exact realignment `realignE X` (a `dA² × dB²` matrix)
* `c15_ptrace    {"dA","dB","X"}`                            → `{"A": tr_B X, "B": tr_A X}` (exact marginals `ptrBE`, `ptrAE`)
* `c15_choi_apply {"dA","dB","dO","sys","J","X"}`            → exact `partial_channel(X, J, sys, [dA, dB])` for a Choi matrix `J` of a map
  from the `sys`-th party to `dO × dO` matrices (`choiApplyA` for `sys = 1`, `choiApplyB` for `sys = 2`) -/
open Lean Toq.Sep EMat

namespace Toq.Driver.C15

def ratsJson {r c : Nat} (A : EMat r c) (f : QI → Rat) : Json :=
  Json.arr <| (List.finRange r).toArray.flatMap fun i => (List.finRange c).toArray.map fun j => ratJson (f (A.get i j))

def ematJson {r c : Nat} (A : EMat r c) : Json :=
  Json.mkObj [("re", ratsJson A (·.re)), ("im", ratsJson A (·.im))]

def optRat : Option Rat → Json
  | some q => ratJson q
  | none => Json.null

def optBool : Option Bool → Json
  | some b => Json.bool b
  | none => Json.null

def hPt : Handler := fun j => do
  let dA ← getNat j "dA"
  let dB ← getNat j "dB"
  let sys ← getNat j "sys"
  if dA == 0 || dB == 0 then return reject "ZeroDim"
  if sys != 1 && sys != 2 then return reject "BadSys"
  let X ← getEMat j "X" (dA * dB) (dA * dB)
  return ematJson (pt sys X)

def hSwap : Handler := fun j => do
  let dA ← getNat j "dA"
  let dB ← getNat j "dB"
  if dA == 0 || dB == 0 then return reject "ZeroDim"
  let X ← getEMat j "X" (dA * dB) (dA * dB)
  return ematJson (swapAB X)

def hLocalConj : Handler := fun j => do
  let dA ← getNat j "dA"
  let dB ← getNat j "dB"
  if dA == 0 || dB == 0 then return reject "ZeroDim"
  let U ← getEMat j "U" dA dA
  let V ← getEMat j "V" dB dB
  let X ← getEMat j "X" (dA * dB) (dA * dB)
  return ematJson (localConj U V X)

def hSepMix : Handler := fun j => do
  let dA ← getNat j "dA"
  let dB ← getNat j "dB"
  if dA == 0 || dB == 0 then return reject "ZeroDim"
  let w ← getRatList j "w"
  let a ← getEMatList j "a" dA 1
  let b ← getEMatList j "b" dB 1
  if a.length != w.length || b.length != w.length then return reject "LengthMismatch"
  if w.any (· < 0) then return reject "NegativeWeight"
  return ematJson (sepMix w a b)

def hLamMin : Handler := fun j => do
  let dA ← getNat j "dA"
  let dB ← getNat j "dB"
  let sys ← getNat j "sys"
  if dA == 0 || dB == 0 then return reject "ZeroDim"
  if sys > 2 then return reject "BadSys"
  let X ← getEMat j "X" (dA * dB) (dA * dB)
  let tol ← getRat j "tol"
  let c ← getRat j "c"
  let k ← getNat j "k"
  let L ← getEMat j "L" (dA * dB) k
  let v ← getEMat j "v" (dA * dB) 1
  let A := if sys == 0 then X else pt sys X
  let verdict := if sys == 0 then lamMinVerdict X tol c L v else pptVerdict sys X tol c L v
  return Json.mkObj [("lo", optRat (checkLamMinLower A c L)), ("hi", optRat (checkLamMinUpper A v)),
    ("verdict", optBool verdict), ("hermitian", Json.bool A.isHermitian)]

def hBall : Handler := fun j => do
  let n ← getNat j "n"
  if n < 2 then return reject "DimTooSmall"
  let M ← getEMat j "M" n n
  let thr ← getRat j "thr"
  if thr ≤ 0 then return reject "NonPositiveThreshold"
  return Json.mkObj [("mirror", Json.bool (inSepBallMirror thr M)), ("ineq", Json.bool (inSepBall thr M)),
    ("tr", ratJson (trRe M)), ("frob2", ratJson (frob2 M))]

def hBallEig : Handler := fun j => do
  let lam ← getRatList j "lam"
  if lam.length < 2 then return reject "DimTooSmall"
  let thr ← getRat j "thr"
  if thr ≤ 0 then return reject "NonPositiveThreshold"
  return Json.mkObj [("ineq", Json.bool (inSepBallEig thr lam))]

def hRealign : Handler := fun j => do
  let dA ← getNat j "dA"
  let dB ← getNat j "dB"
  if dA == 0 || dB == 0 then return reject "ZeroDim"
  let X ← getEMat j "X" (dA * dB) (dA * dB)
  return ematJson (realignE X)

def hPtrace : Handler := fun j => do
  let dA ← getNat j "dA"
  let dB ← getNat j "dB"
  if dA == 0 || dB == 0 then return reject "ZeroDim"
  let X ← getEMat j "X" (dA * dB) (dA * dB)
  return Json.mkObj [("A", ematJson (ptrBE X)), ("B", ematJson (ptrAE X))]

def hChoiApply : Handler := fun j => do
  let dA ← getNat j "dA"
  let dB ← getNat j "dB"
  let dO ← getNat j "dO"
  let sys ← getNat j "sys"
  if dA == 0 || dB == 0 || dO == 0 then return reject "ZeroDim"
  if sys != 1 && sys != 2 then return reject "BadSys"
  let X ← getEMat j "X" (dA * dB) (dA * dB)
  if sys == 1 then
    let J ← getEMat j "J" (dA * dO) (dA * dO)
    return ematJson (choiApplyA J X)
  else
    let J ← getEMat j "J" (dB * dO) (dB * dO)
    return ematJson (choiApplyB J X)

def handlers : List (String × Handler) :=
  [("c15_pt", hPt), ("c15_swap", hSwap), ("c15_localconj", hLocalConj), ("c15_sepmix", hSepMix),
   ("c15_lammin", hLamMin), ("c15_ball", hBall), ("c15_ball_eig", hBallEig), ("c15_realign", hRealign),
   ("c15_ptrace", hPtrace), ("c15_choi_apply", hChoiApply)]

end Toq.Driver.C15
