import Toq.Driver.QJson
import Toq.Model.Sep
import Toq.Model.SepCascade
/-! Driver front end for C15 (PPT / separability verdicts).

Matrices come in the `QJson` dyadic encoding (`{"e":k,"re":[…],"im":[…]}`), rationals as `[num, den]` or an
integer.  Exact matrices are returned as `{"re":[[num,den],…],"im":[[num,den],…]}` (row-major).

* `c15_pt        {"dA","dB","sys","X"}`                      → exact partial transpose `pt sys X`
* `c15_swap      {"dA","dB","X"}`                            → `swapAB X` (an operator on `dB ⊗ dA`)
* `c15_localconj {"dA","dB","U","V","X"}`                    → `(U ⊗ V) X (U ⊗ V)ᴴ`
* `c15_sepmix    {"dA","dB","w":[rat…],"a":[col…],"b":[col…]}` → `Σ_k w_k (a_k a_kᴴ) ⊗ (b_k b_kᴴ)`; rejects negative weights
  and unequal list lengths
* `c15_lammin    {"dA","dB","sys","X","tol","c","k","L","v"}` → certificates for `pt sys X`:
  `{"lo":rat|null,"hi":rat|null,"verdict":true|false|null}` (the verified `checkLamMinLower`, `checkLamMinUpper`, `pptVerdict`);
  `"sys":0` applies the certificates to `X` itself (no transpose)
* `c15_ball      {"n","M","thr"}`                            → `{"mirror":bool,"ineq":bool,"tr":rat,"frob2":rat}`
* `c15_ball_eig  {"lam":[rat…],"thr"}`                       → `{"ineq":bool}`
* `c15_realign   {"dA","dB","X"}`                            → exact realignment `realignE X` (a `dA² × dB²` matrix)
* `c15_ptrace    {"dA","dB","X"}`                            → `{"A": tr_B X, "B": tr_A X}` (exact marginals `ptrBE`, `ptrAE`)
* `c15_choi_apply {"dA","dB","dO","sys","J","X"}`            → exact `partial_channel(X, J, sys, [dA, dB])` for a Choi matrix `J` of a map
  from the `sys`-th party to `dO × dO` matrices (`choiApplyA` for `sys = 1`, `choiApplyB` for `sys = 2`)
* `c15_ppt_operand {"N","sys","dim"}`  → the operand of `is_ppt` (`isPptOperand`) on the `N × N` array labelled `i·N + j`:
  `{"rows","cols","src":[…labels, row-major…]}` or a rejection; `"dim"` is `null`, an integer (scalar), a list (`[dA, dB]` or `[d]`)
  or `{"two":[[…],[…]]}`
* `c15_ppt_decide {"herm","lam","tol"}`  → `{"is_ppt","is_npt","tol"}` (`isPptDecide`, `isNptDecide`; `"tol"` null = default)
* `c15_cascade {"N","dim","tol","q":{…}}` → the statement of `is_separable` that returns (`isSeparableModel`):
  `{"out":"verdict","branch","verdict","dims","cmps":[[lhs,rhs],…]}`, `{"out":"late",…}` or a rejection `NotPSD` / `InvalidDim` / `ZeroDivision`
* `c15_blocks2n {"dA","dB","X"}`  → the blocks `A`, `B`, `C` of the `2 ⊗ n` tests (qubit put first) and the homothetic image `H`
* `c15_symext_decide {"N","level","dim","ppt","tol","q":{…}}` → `{"branch","verdict","dims"}` (`hasSymExtModel`)
* `c15_ha_params {}` → the parameters `[t, a, b, c]` of the 19 qutrit maps in loop order -/
open Lean Toq.Sep EMat Toq.PartialOps

namespace Toq.Driver.C15

def ratsJson {r c : Nat} (A : EMat r c) (f : QI → Rat) : Json :=
  Json.arr <| (List.finRange r).toArray.flatMap fun i => (List.finRange c).toArray.map fun j => ratJson (f (A.get i j))

def ematJson {r c : Nat} (A : EMat r c) : Json :=
  Json.mkObj [("re", ratsJson A (·.re)), ("im", ratsJson A (·.im))]

def optRat : Option Rat → Json
  | some q => ratJson q
  | none => Json.null

def optBool : Option Bool → Json
  | some b => Json.bool b
  | none => Json.null

def hPt : Handler := fun j => do
  let dA ← getNat j "dA"
  let dB ← getNat j "dB"
  let sys ← getNat j "sys"
  if dA == 0 || dB == 0 then return reject "ZeroDim"
  if sys != 1 && sys != 2 then return reject "BadSys"
  let X ← getEMat j "X" (dA * dB) (dA * dB)
  return ematJson (pt sys X)

def hSwap : Handler := fun j => do
  let dA ← getNat j "dA"
  let dB ← getNat j "dB"
  if dA == 0 || dB == 0 then return reject "ZeroDim"
  let X ← getEMat j "X" (dA * dB) (dA * dB)
  return ematJson (swapAB X)

def hLocalConj : Handler := fun j => do
  let dA ← getNat j "dA"
  let dB ← getNat j "dB"
  if dA == 0 || dB == 0 then return reject "ZeroDim"
  let U ← getEMat j "U" dA dA
  let V ← getEMat j "V" dB dB
  let X ← getEMat j "X" (dA * dB) (dA * dB)
  return ematJson (localConj U V X)

def hSepMix : Handler := fun j => do
  let dA ← getNat j "dA"
  let dB ← getNat j "dB"
  if dA == 0 || dB == 0 then return reject "ZeroDim"
  let w ← getRatList j "w"
  let a ← getEMatList j "a" dA 1
  let b ← getEMatList j "b" dB 1
  if a.length != w.length || b.length != w.length then return reject "LengthMismatch"
  if w.any (· < 0) then return reject "NegativeWeight"
  return ematJson (sepMix w a b)

def hLamMin : Handler := fun j => do
  let dA ← getNat j "dA"
  let dB ← getNat j "dB"
  let sys ← getNat j "sys"
  if dA == 0 || dB == 0 then return reject "ZeroDim"
  if sys > 2 then return reject "BadSys"
  let X ← getEMat j "X" (dA * dB) (dA * dB)
  let tol ← getRat j "tol"
  let c ← getRat j "c"
  let k ← getNat j "k"
  let L ← getEMat j "L" (dA * dB) k
  let v ← getEMat j "v" (dA * dB) 1
  let A := if sys == 0 then X else pt sys X
  let verdict := if sys == 0 then lamMinVerdict X tol c L v else pptVerdict sys X tol c L v
  return Json.mkObj [("lo", optRat (checkLamMinLower A c L)), ("hi", optRat (checkLamMinUpper A v)),
    ("verdict", optBool verdict), ("hermitian", Json.bool A.isHermitian)]

def hBall : Handler := fun j => do
  let n ← getNat j "n"
  if n < 2 then return reject "DimTooSmall"
  let M ← getEMat j "M" n n
  let thr ← getRat j "thr"
  if thr ≤ 0 then return reject "NonPositiveThreshold"
  return Json.mkObj [("mirror", Json.bool (inSepBallMirror thr M)), ("ineq", Json.bool (inSepBall thr M)),
    ("tr", ratJson (trRe M)), ("frob2", ratJson (frob2 M))]

def hBallEig : Handler := fun j => do
  let lam ← getRatList j "lam"
  if lam.length < 2 then return reject "DimTooSmall"
  let thr ← getRat j "thr"
  if thr ≤ 0 then return reject "NonPositiveThreshold"
  return Json.mkObj [("ineq", Json.bool (inSepBallEig thr lam))]

def hRealign : Handler := fun j => do
  let dA ← getNat j "dA"
  let dB ← getNat j "dB"
  if dA == 0 || dB == 0 then return reject "ZeroDim"
  let X ← getEMat j "X" (dA * dB) (dA * dB)
  return ematJson (realignE X)

def hPtrace : Handler := fun j => do
  let dA ← getNat j "dA"
  let dB ← getNat j "dB"
  if dA == 0 || dB == 0 then return reject "ZeroDim"
  let X ← getEMat j "X" (dA * dB) (dA * dB)
  return Json.mkObj [("A", ematJson (ptrBE X)), ("B", ematJson (ptrAE X))]

def hChoiApply : Handler := fun j => do
  let dA ← getNat j "dA"
  let dB ← getNat j "dB"
  let dO ← getNat j "dO"
  let sys ← getNat j "sys"
  if dA == 0 || dB == 0 || dO == 0 then return reject "ZeroDim"
  if sys != 1 && sys != 2 then return reject "BadSys"
  let X ← getEMat j "X" (dA * dB) (dA * dB)
  if sys == 1 then
    let J ← getEMat j "J" (dA * dO) (dA * dO)
    return ematJson (choiApplyA J X)
  else
    let J ← getEMat j "J" (dB * dO) (dB * dO)
    return ematJson (choiApplyB J X)

def getBoolList (j : Json) (k : String) : Except String (List Bool) := do
  let a ← (← j.getObjVal? k).getArr?
  a.toList.mapM fun v => match v with
    | .bool b => pure b
    | _ => throw s!"field {k}: expected a list of bools"

def parsePTDim (v : Json) : Except String PTDimArg :=
  match v with
  | .null => pure .omitted
  | .arr _ => do pure (.list (← asNatList v))
  | .obj _ => do
      let t ← (← v.getObjVal? "two").getArr?
      if t.size != 2 then throw "two: expected two rows"
      pure (.two (← asNatList t[0]!) (← asNatList t[1]!))
  | _ => do pure (.scalar (← v.getNat?))

def hPptOperand : Handler := fun j => do
  let N ← getNat j "N"
  let sys ← getInt j "sys"
  let dim ← parsePTDim (← j.getObjVal? "dim")
  match isPptOperand (fun i k => i * N + k) N sys dim with
  | .error e => return reject e.name
  | .ok (R, C, Y) =>
    return Json.mkObj [("rows", Json.num R), ("cols", Json.num C), ("src", natListJson (arrayOfMat R C Y).toList)]

def hPptDecide : Handler := fun j => do
  let herm ← getBool j "herm"
  let lam ← getRat j "lam"
  let tol ← if isNull j "tol" then pure none else some <$> getRat j "tol"
  return Json.mkObj [("is_ppt", Json.bool (isPptDecide herm lam tol)), ("is_npt", Json.bool (isNptDecide herm lam tol)),
    ("tol", ratJson (pptTol tol))]

def parseSepDim (v : Json) : Except String SepDimArg :=
  match v with
  | .null => pure .omitted
  | .arr a => do
      if a.size != 2 then throw "dim: expected [dA, dB]"
      pure (.pair (← a[0]!.getNat?) (← a[1]!.getNat?))
  | _ => do pure (.scalar (← v.getNat?))

def parseQuant (j : Json) : Except String Quant := do
  return { psd := ← getBool j "psd", rank := ← getNat j "rank", ppt := ← getBool j "ppt",
           realignNorm := ← getRat j "realignNorm", zhangNorm := ← getRat j "zhangNorm",
           purA := ← getRat j "purA", purB := ← getRat j "purB", lam := ← getRatList j "lam",
           hankelRank := ← getNat j "hankelRank", homPsd := ← getBool j "homPsd", homPpt := ← getBool j "homPpt",
           normB2 := ← getRat j "normB2", minA := ← getRat j "minA", minC := ← getRat j "minC",
           absF := ← getRat j "absF", ball := ← getBool j "ball", osr := ← getNat j "osr",
           haPsd := ← getBoolList j "haPsd" }

def hCascade : Handler := fun j => do
  let N ← getNat j "N"
  let dim ← parseSepDim (← j.getObjVal? "dim")
  let tol ← getRat j "tol"
  let q ← parseQuant (← j.getObjVal? "q")
  match isSeparableModel N dim tol q with
  | .error e => return reject e.name
  | .ok out =>
    let dims := match sepDecodeDim N dim with
      | .ok (a, b) => (a, b)
      | .error _ => (0, 0)
    let extra := [("dims", natListJson [dims.1, dims.2]),
                  ("cmps", Json.arr ((cascadeCmps dims.1 dims.2 tol q).map fun c => Json.arr #[ratJson c.1, ratJson c.2]).toArray)]
    match out with
    | .verdict b v => return Json.mkObj ([("out", Json.str "verdict"), ("branch", Json.str b.name), ("verdict", Json.bool v)] ++ extra)
    | .late => return Json.mkObj ([("out", Json.str "late")] ++ extra)

def blocksJson {n : Nat} (Y : EMat (2 * n) (2 * n)) : Json :=
  Json.mkObj [("n", Json.num n), ("A", ematJson (blk Y 0 0)), ("B", ematJson (blk Y 0 1)), ("C", ematJson (blk Y 1 1)),
              ("H", ematJson (homothetic Y))]

def hBlocks2n : Handler := fun j => do
  let dA ← getNat j "dA"
  let dB ← getNat j "dB"
  if dA == 0 || dB == 0 then return reject "ZeroDim"
  -- `state_t = swap(state, [1, 2], dim) if dim[0] > 2 else state`
  if dA > 2 then
    if dB != 2 then return reject "NoQubit"
    let X ← getEMat j "X" (dA * 2) (dA * 2)
    return blocksJson (qubitFirst X)
  else
    if dA != 2 then return reject "NoQubit"
    let X ← getEMat j "X" (2 * dB) (2 * dB)
    return blocksJson X

def hSymExtDecide : Handler := fun j => do
  let N ← getNat j "N"
  let level ← getNat j "level"
  let dim ← parseSepDim (← j.getObjVal? "dim")
  let ppt ← getBool j "ppt"
  let tol ← getRat j "tol"
  let qj ← j.getObjVal? "q"
  let q : SymQuant := { psd := ← getBool qj "psd", ppt := ← getBool qj "ppt", purB := ← getRat qj "purB",
                        purRho := ← getRat qj "purRho", detRho := ← getRat qj "detRho", sdpVal := ← getRat qj "sdpVal" }
  match hasSymExtModel N level dim ppt tol q with
  | .error e => return reject e.name
  | .ok (b, v) =>
    let dims := match sepDecodeDim N dim with
      | .ok (a, b) => [a, b]
      | .error _ => []
    return Json.mkObj [("branch", Json.str b.name), ("verdict", Json.bool v), ("dims", natListJson dims)]

def hHaParams : Handler := fun _ => do
  return Json.arr (haTs.map fun t => let (a, b, c) := haABC t; Json.arr #[ratJson t, ratJson a, ratJson b, ratJson c]).toArray

def handlers : List (String × Handler) :=
  [("c15_pt", hPt), ("c15_swap", hSwap), ("c15_localconj", hLocalConj), ("c15_sepmix", hSepMix),
   ("c15_lammin", hLamMin), ("c15_ball", hBall), ("c15_ball_eig", hBallEig), ("c15_realign", hRealign),
   ("c15_ptrace", hPtrace), ("c15_choi_apply", hChoiApply), ("c15_ppt_operand", hPptOperand),
   ("c15_ppt_decide", hPptDecide), ("c15_cascade", hCascade), ("c15_blocks2n", hBlocks2n),
   ("c15_symext_decide", hSymExtDecide), ("c15_ha_params", hHaParams)]

end Toq.Driver.C15
