import Toq.Driver.Util
import Toq.Driver.QJson
import Toq.Model.Games
import Toq.Model.GamesExtra
import Toq.Model.Npa
import Toq.Driver.C07Seesaw
/-! Driver front end for C07 (nonlocal games): tensors arrive as flat C-order lists of rationals
(`[num, den]` or integers), are turned into index functions, and the mirror models of
`Toq/Model/Games.lean` are evaluated on them.

Ops: `c07_classical_value` (mirror of the code as it is), `c07_classical_value_fixed` (repaired bound),
`c07_classical_value_code` (the code with its `num_iterations > 1000` multiprocessing branch, `Toq/Model/GamesExtra.lean`),
`c07_max_det` (brute force over all strategy pairs = the specification), `c07_product_game`
(`reps` branch of the constructor), `c07_bcs_game` (`from_bcs_game`), `c07_history` (state machine; `classical` steps use the repaired bound, as /repo does since the fix).

NPA part (`Toq/Model/Npa.lean`): `c07_npa_words` (`_gen_words`), `c07_npa_reduce` (`_reduce`), `c07_npa_parse` (`_parse`),
`c07_npa_constraints` (`npa_constraints` as data, in emission order), `c07_npa_embed` (the point `(z, K)` of a
deterministic strategy and its objective value).  Symbols travel as `[player, question, answer]` with player
0 = `""`, 1 = Alice, 2 = Bob (`Symbol("")` = `[0, 0, 0]`). -/
open Lean Toq.Games

namespace Toq.Driver.C07

structure GameArgs where
  ao : Nat
  bo : Nat
  ai : Nat
  bi : Nat
  reps : Nat
  prob : Array Rat
  pred : Array Rat

def predOfArray (bo ai bi : Nat) (a : Array Rat) : Pred :=
  fun i0 i1 i2 i3 => a[((i0 * bo + i1) * ai + i2) * bi + i3]!

def probOfArray (bi : Nat) (a : Array Rat) : Prob := fun x y => a[x * bi + y]!

def arrayOfPred (ao bo ai bi : Nat) (t : Pred) : Array Rat := Id.run do
  let mut out := Array.mkEmpty (ao * bo * ai * bi)
  for a in [0:ao] do
    for b in [0:bo] do
      for x in [0:ai] do
        for y in [0:bi] do
          out := out.push (t a b x y)
  return out

def ratArrayJson (a : Array Rat) : Json := Json.arr (a.map ratJson)

def optRatJson : Option Rat → Json
  | none => Json.null
  | some q => ratJson q

def parseGame (j : Json) : Except String (Option GameArgs) := do
  let ao ← getNat j "ao"
  let bo ← getNat j "bo"
  let ai ← getNat j "ai"
  let bi ← getNat j "bi"
  let reps := (getNat j "reps").toOption.getD 1
  let prob := (← getRatList j "prob").toArray
  let pred := (← getRatList j "pred").toArray
  if ao == 0 || bo == 0 || ai == 0 || bi == 0 || reps == 0 then return none
  if prob.size != ai * bi || pred.size != ao * bo * ai * bi then return none
  return some ⟨ao, bo, ai, bi, reps, prob, pred⟩

/-- the attributes the constructor stores: the tensors themselves for `reps == 1`, the product game
    (materialised once, entry by entry from the mirror model) otherwise -/
def construct (g : GameArgs) : GameArgs :=
  if g.reps == 1 then g
  else
    let p := productProb g.ai g.bi g.reps (probOfArray g.bi g.prob)
    let t := productPred g.ao g.bo g.ai g.bi g.reps (predOfArray g.bo g.ai g.bi g.pred)
    let ao := g.ao ^ g.reps
    let bo := g.bo ^ g.reps
    let ai := g.ai ^ g.reps
    let bi := g.bi ^ g.reps
    ⟨ao, bo, ai, bi, g.reps, arrayOfMat ai bi p, arrayOfPred ao bo ai bi t⟩

def withGame (j : Json) (k : GameArgs → Except String Json) : Except String Json := do
  match ← parseGame j with
  | none => return reject "InvalidGame"
  | some g => k (construct g)

def valueOp (f : Nat → Nat → Nat → Nat → Prob → Pred → Option Rat) : Handler := fun j =>
  withGame j fun g =>
    let v := f g.ao g.bo g.ai g.bi (probOfArray g.bi g.prob) (predOfArray g.bo g.ai g.bi g.pred)
    return Json.mkObj [("value", optRatJson v),
      ("enum_complete", Json.bool (decide (EnumComplete g.ao g.bo g.ai g.bi))),
      ("shape", natListJson [g.ao, g.bo, g.ai, g.bi])]

def productGame : Handler := fun j =>
  withGame j fun g =>
    return Json.mkObj [("shape", natListJson [g.ao, g.bo, g.ai, g.bi]), ("reps", Json.num g.reps),
      ("prob", ratArrayJson g.prob), ("pred", ratArrayJson g.pred)]

/-- `from_bcs_game`: `constraints` is a list of `m` flat C-order integer tensors of shape `(2,)*n` -/
def bcsGame : Handler := fun j => do
  let n ← getNat j "n"
  let cs ← (← j.getObjVal? "constraints").getArr?
  let cs ← cs.mapM asIntArray
  let m := cs.size
  if m == 0 then return reject "NoConstraint"
  if n == 0 || cs.any (fun c => c.size != 2 ^ n) then return reject "InvalidConstraint"
  let c : Nat → Nat → Int := fun x s => (cs[x]!)[s]!
  if (List.range m).any (fun x => !(List.range n).any (fun i => bcsDepends n c x i)) then
    return reject "ConstantConstraint"
  let prob := arrayOfMat m n (bcsProb m n c)
  let pred := arrayOfPred (2 ^ n) 2 m n (bcsPred n c)
  -- `return cls(prob_mat, pred_mat, reps)`: the constructor's `reps` branch on the BCS tensors
  let reps := (getNat j "reps").toOption.getD 1
  if reps == 0 then return reject "InvalidGame"
  let g := construct ⟨2 ^ n, 2, m, n, reps, prob, pred⟩
  return Json.mkObj [("shape", natListJson [g.ao, g.bo, g.ai, g.bi]), ("prob", ratArrayJson g.prob),
    ("pred", ratArrayJson g.pred), ("reps", Json.num g.reps)]

def parseOp (s : String) : Except String Op :=
  match s with
  | "classical" => pure .classical
  | "quantum_lb" => pure (.quantumLB 2 1 0)
  | "nonsignaling" => pure .nonsignaling
  | "npa1" => pure (.npa .one)
  | "npa1ab" => pure (.npa .onePlusAB)
  | "npa2" => pure (.npa .two)
  | _ => throw s!"unknown method {s}"

/-- a history of value-method calls on one object: the values of the `classical` calls (the SDP methods
    are not computed by the model: `null`) and the attributes afterwards -/
def history : Handler := fun j => do
  let ops ← (← (← j.getObjVal? "ops").getArr?).toList.mapM (fun v => do parseOp (← v.getStr?))
  withGame j fun g =>
    let g0 : Game := ⟨g.ao, g.bo, g.ai, g.bi, probOfArray g.bi g.prob, predOfArray g.bo g.ai g.bi g.pred, g.reps⟩
    let r := run (fun _ _ => none) g0 ops
    let f := r.1
    return Json.mkObj [("values", Json.arr (r.2.map optRatJson).toArray),
      ("shape", natListJson [f.ao, f.bo, f.ai, f.bi]), ("reps", Json.num f.reps),
      ("prob", ratArrayJson (arrayOfMat f.ai f.bi f.prob)),
      ("pred", ratArrayJson (arrayOfPred f.ao f.bo f.ai f.bi f.pred))]

/-- `update_odometer(old_ind, upper_lim)` on its own -/
def odometer : Handler := fun j => do
  let old ← getNatList j "old"
  let lim ← getNatList j "lim"
  if old.length != lim.length then return reject "LengthMismatch"
  let n := old.length
  return Json.mkObj [("new", natListJson (listOfFn n (updateOdometer n (fnOfList old) (fnOfList lim))))]


/-! ## NPA hierarchy -/
section Npa
open Toq.Npa

def symJson (s : Sym) : Json :=
  natListJson [match s.player with | .none => 0 | .alice => 1 | .bob => 2, s.question, s.answer]

def wordJson (w : Word) : Json := Json.arr (w.map symJson).toArray

def symOfJson (v : Json) : Except String Sym := do
  match ← asNatList v with
  | [p, q, a] =>
    match p with
    | 0 => pure ⟨.none, q, a⟩
    | 1 => pure ⟨.alice, q, a⟩
    | 2 => pure ⟨.bob, q, a⟩
    | _ => throw "player must be 0, 1 or 2"
  | _ => throw "symbol must be [player, question, answer]"

def pairsJson (l : List (Nat × Nat)) : Json := Json.arr (l.map fun c => natListJson [c.1, c.2]).toArray

def constrJson : Constr → Json
  | .norm => Json.arr #[Json.str "norm"]
  | .psd => Json.arr #[Json.str "psd"]
  | .zero i j => Json.arr #[Json.str "zero", Json.num i, Json.num j]
  | .meas i j x y a b => Json.arr #[Json.str "meas", Json.num i, Json.num j, Json.num x, Json.num y, Json.num a, Json.num b]
  | .margA i j x a => Json.arr #[Json.str "margA", Json.num i, Json.num j, Json.num x, Json.num a]
  | .margB i j y b => Json.arr #[Json.str "margB", Json.num i, Json.num j, Json.num y, Json.num b]
  | .same i j i' j' => Json.arr #[Json.str "same", Json.num i, Json.num j, Json.num i', Json.num j']
  | .kNonneg x y a b => Json.arr #[Json.str "kNonneg", Json.num x, Json.num y, Json.num a, Json.num b]
  | .kNorm x y => Json.arr #[Json.str "kNorm", Json.num x, Json.num y]
  | .nsBob y b x => Json.arr #[Json.str "nsBob", Json.num y, Json.num b, Json.num x]
  | .nsAlice x a y => Json.arr #[Json.str "nsAlice", Json.num x, Json.num a, Json.num y]

structure NpaArgs where
  ao : Nat
  bo : Nat
  ai : Nat
  bi : Nat
  base : Nat
  conf : List (Nat × Nat)

/-- sizes, the level `k` (JSON number or string) and optionally `conf_order`: the order in which the Python
    set `conf` is iterated (must be a permutation of the model's `conf`; the model itself lists it in order of
    first insertion) -/
def parseNpa (j : Json) : Except String (Except Json NpaArgs) := do
  let ao ← getNat j "ao"
  let bo ← getNat j "bo"
  let ai ← getNat j "ai"
  let bi ← getNat j "bi"
  if ao == 0 || bo == 0 || ai == 0 || bi == 0 then return .error (reject "InvalidSizes")
  let kv ← j.getObjVal? "k"
  let lvl : LevelArg ← match kv with
    | .str s => pure (LevelArg.str s)
    | v => do pure (LevelArg.int (← v.getNat?))
  match levelSpec lvl with
  | none => return .error (reject "InvalidLevel")
  | some (base, conf) =>
    if isNull j "conf_order" then return .ok ⟨ao, bo, ai, bi, base, conf⟩
    let ord ← (← (← j.getObjVal? "conf_order").getArr?).toList.mapM (fun v => do
      match ← asNatList v with
      | [a, b] => pure (a, b)
      | _ => throw "conf_order entries must be pairs")
    if ord.length == conf.length && ord.all (fun c => conf.contains c) && conf.all (fun c => ord.contains c) then
      return .ok ⟨ao, bo, ai, bi, base, ord⟩
    else return .error (reject "ConfOrderMismatch")

def withNpa (j : Json) (k : NpaArgs → Except String Json) : Except String Json := do
  match ← parseNpa j with
  | .error r => return r
  | .ok a => k a

def npaParse : Handler := fun j => do
  let s ← (← j.getObjVal? "k").getStr?
  match parseLevel s with
  | none => return reject "InvalidLevel"
  | some (base, conf) => return Json.mkObj [("base", Json.num base), ("conf", pairsJson conf)]

def npaWords : Handler := fun j =>
  withNpa j fun a =>
    let ws := genWords a.base a.conf a.ao a.ai a.bo a.bi
    return Json.mkObj [("base", Json.num a.base), ("conf", pairsJson a.conf), ("dim", Json.num ws.length),
      ("words", Json.arr (ws.map wordJson).toArray)]

def npaReduce : Handler := fun j => do
  let w ← (← (← j.getObjVal? "word").getArr?).toList.mapM symOfJson
  return Json.mkObj [("word", wordJson (reduceWord w))]

def npaConstraintsOp : Handler := fun j =>
  withNpa j fun a =>
    let ws := genWords a.base a.conf a.ao a.ai a.bo a.bi
    let cs := npaConstraints a.ao a.bo a.ai a.bi a.base a.conf
    let nz := (cs.filter fun c => match c with | .zero _ _ => true | _ => false).length
    return Json.mkObj [("dim", Json.num ws.length), ("count", Json.num cs.length), ("n_zero", Json.num nz),
      ("constraints", Json.arr (cs.map constrJson).toArray)]

/-- the point of the relaxation defined by the deterministic strategy `(f, g)` (lists of answers per question):
    `z`, the objective `Σ prob·pred·K` (when `prob`, `pred` are given), the strategy's winning probability
    computed directly, and (unless `self_check` is false) the model's own evaluation of every generated constraint
    at `(z zᵀ, K)`: the list of violated ones, empty by `npa_sound_det` -/
def npaEmbed : Handler := fun j =>
  withNpa j fun a => do
    let fl ← getNatList j "f"
    let gl ← getNatList j "g"
    if fl.length != a.ai || gl.length != a.bi || fl.any (· ≥ a.ao) || gl.any (· ≥ a.bo) then
      return reject "InvalidStrategy"
    let f := fnOfList fl
    let g := fnOfList gl
    let ws := genWords a.base a.conf a.ao a.ai a.bo a.bi
    let z := listOfFn ws.length (detZ f g ws)
    let cs := npaConstraints a.ao a.bo a.ai a.bi a.base a.conf
    let zArr := z.toArray
    let R : Nat → Nat → Rat := fun i k => zArr[i]! * zArr[k]!
    let selfCheck := (getBool j "self_check").toOption.getD true
    let bad := if selfCheck then cs.filter fun c => !(c.check a.ao a.bo R (detK f g)) else []
    let base := [("dim", Json.num ws.length), ("z", Json.arr (z.map ratJson).toArray),
      ("model_violated", Json.arr (bad.map constrJson).toArray)]
    if isNull j "prob" then return Json.mkObj base
    let prob := (← getRatList j "prob").toArray
    let pred := (← getRatList j "pred").toArray
    if prob.size != a.ai * a.bi || pred.size != a.ao * a.bo * a.ai * a.bi then return reject "InvalidGame"
    let P := probOfArray a.bi prob
    let V := predOfArray a.bo a.ai a.bi pred
    return Json.mkObj (base ++ [("objective", ratJson (objective a.ao a.bo a.ai a.bi P V (detK f g))),
      ("det_value", ratJson (detValueN a.ai a.bi P V f g))])

end Npa

def handlers : List (String × Handler) := [
  ("c07_classical_value", valueOp classicalValue),
  ("c07_classical_value_fixed", valueOp classicalValueFixed),
  ("c07_classical_value_code", valueOp classicalValueCode),
  ("c07_max_det", valueOp maxDetBrute),
  ("c07_product_game", productGame),
  ("c07_bcs_game", bcsGame),
  ("c07_history", history),
  ("c07_update_odometer", odometer),
  ("c07_npa_parse", npaParse),
  ("c07_npa_words", npaWords),
  ("c07_npa_reduce", npaReduce),
  ("c07_npa_constraints", npaConstraintsOp),
  ("c07_npa_embed", npaEmbed)] ++ Toq.Driver.C07Seesaw.handlers

end Toq.Driver.C07
