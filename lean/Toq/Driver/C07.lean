import Toq.Driver.Util
import Toq.Driver.QJson
import Toq.Model.Games
/-! Driver front end for C07 (nonlocal games): tensors arrive as flat C-order lists of rationals
(`[num, den]` or integers), are turned into index functions, and the mirror models of
`Toq/Model/Games.lean` are evaluated on them.

Ops: `c07_classical_value` (mirror of the code as it is), `c07_classical_value_fixed` (repaired bound),
`c07_max_det` (brute force over all strategy pairs = the specification), `c07_product_game`
(`reps` branch of the constructor), `c07_bcs_game` (`from_bcs_game`), `c07_history` (state machine). -/
open Lean Toq.Games

namespace Toq.Driver.C07

structure GameArgs where
  ao : Nat
  bo : Nat
  ai : Nat
  bi : Nat
  reps : Nat
  prob : Array Rat
  pred : Array Rat

def predOfArray (bo ai bi : Nat) (a : Array Rat) : Pred :=
  fun i0 i1 i2 i3 => a[((i0 * bo + i1) * ai + i2) * bi + i3]!

def probOfArray (bi : Nat) (a : Array Rat) : Prob := fun x y => a[x * bi + y]!

def arrayOfPred (ao bo ai bi : Nat) (t : Pred) : Array Rat := Id.run do
  let mut out := Array.mkEmpty (ao * bo * ai * bi)
  for a in [0:ao] do
    for b in [0:bo] do
      for x in [0:ai] do
        for y in [0:bi] do
          out := out.push (t a b x y)
  return out

def ratArrayJson (a : Array Rat) : Json := Json.arr (a.map ratJson)

def optRatJson : Option Rat → Json
  | none => Json.null
  | some q => ratJson q

def parseGame (j : Json) : Except String (Option GameArgs) := do
  let ao ← getNat j "ao"
  let bo ← getNat j "bo"
  let ai ← getNat j "ai"
  let bi ← getNat j "bi"
  let reps := (getNat j "reps").toOption.getD 1
  let prob := (← getRatList j "prob").toArray
  let pred := (← getRatList j "pred").toArray
  if ao == 0 || bo == 0 || ai == 0 || bi == 0 || reps == 0 then return none
  if prob.size != ai * bi || pred.size != ao * bo * ai * bi then return none
  return some ⟨ao, bo, ai, bi, reps, prob, pred⟩

/-- the attributes the constructor stores: the tensors themselves for `reps == 1`, the product game
    (materialised once, entry by entry from the mirror model) otherwise -/
def construct (g : GameArgs) : GameArgs :=
  if g.reps == 1 then g
  else
    let p := productProb g.ai g.bi g.reps (probOfArray g.bi g.prob)
    let t := productPred g.ao g.bo g.ai g.bi g.reps (predOfArray g.bo g.ai g.bi g.pred)
    let ao := g.ao ^ g.reps
    let bo := g.bo ^ g.reps
    let ai := g.ai ^ g.reps
    let bi := g.bi ^ g.reps
    ⟨ao, bo, ai, bi, g.reps, arrayOfMat ai bi p, arrayOfPred ao bo ai bi t⟩

def withGame (j : Json) (k : GameArgs → Except String Json) : Except String Json := do
  match ← parseGame j with
  | none => return reject "InvalidGame"
  | some g => k (construct g)

def valueOp (f : Nat → Nat → Nat → Nat → Prob → Pred → Option Rat) : Handler := fun j =>
  withGame j fun g =>
    let v := f g.ao g.bo g.ai g.bi (probOfArray g.bi g.prob) (predOfArray g.bo g.ai g.bi g.pred)
    return Json.mkObj [("value", optRatJson v),
      ("enum_complete", Json.bool (decide (EnumComplete g.ao g.bo g.ai g.bi))),
      ("shape", natListJson [g.ao, g.bo, g.ai, g.bi])]

def productGame : Handler := fun j =>
  withGame j fun g =>
    return Json.mkObj [("shape", natListJson [g.ao, g.bo, g.ai, g.bi]), ("reps", Json.num g.reps),
      ("prob", ratArrayJson g.prob), ("pred", ratArrayJson g.pred)]

/-- `from_bcs_game`: `constraints` is a list of `m` flat C-order integer tensors of shape `(2,)*n` -/
def bcsGame : Handler := fun j => do
  let n ← getNat j "n"
  let cs ← (← j.getObjVal? "constraints").getArr?
  let cs ← cs.mapM asIntArray
  let m := cs.size
  if m == 0 then return reject "NoConstraint"
  if n == 0 || cs.any (fun c => c.size != 2 ^ n) then return reject "InvalidConstraint"
  let c : Nat → Nat → Int := fun x s => (cs[x]!)[s]!
  if (List.range m).any (fun x => !(List.range n).any (fun i => bcsDepends n c x i)) then
    return reject "ConstantConstraint"
  let prob := arrayOfMat m n (bcsProb m n c)
  let pred := arrayOfPred (2 ^ n) 2 m n (bcsPred n c)
  return Json.mkObj [("shape", natListJson [2 ^ n, 2, m, n]), ("prob", ratArrayJson prob),
    ("pred", ratArrayJson pred)]

def parseOp (s : String) : Except String Op :=
  match s with
  | "classical" => pure .classical
  | "quantum_lb" => pure (.quantumLB 2 1 0)
  | "nonsignaling" => pure .nonsignaling
  | "npa1" => pure (.npa .one)
  | "npa1ab" => pure (.npa .onePlusAB)
  | "npa2" => pure (.npa .two)
  | _ => throw s!"unknown method {s}"

/-- a history of value-method calls on one object: the values of the `classical` calls (the SDP methods
    are not computed by the model: `null`) and the attributes afterwards -/
def history : Handler := fun j => do
  let ops ← (← (← j.getObjVal? "ops").getArr?).toList.mapM (fun v => do parseOp (← v.getStr?))
  withGame j fun g =>
    let g0 : Game := ⟨g.ao, g.bo, g.ai, g.bi, probOfArray g.bi g.prob, predOfArray g.bo g.ai g.bi g.pred, g.reps⟩
    let r := run (fun _ _ => none) g0 ops
    let f := r.1
    return Json.mkObj [("values", Json.arr (r.2.map optRatJson).toArray),
      ("shape", natListJson [f.ao, f.bo, f.ai, f.bi]), ("reps", Json.num f.reps),
      ("prob", ratArrayJson (arrayOfMat f.ai f.bi f.prob)),
      ("pred", ratArrayJson (arrayOfPred f.ao f.bo f.ai f.bi f.pred))]

/-- `update_odometer(old_ind, upper_lim)` on its own -/
def odometer : Handler := fun j => do
  let old ← getNatList j "old"
  let lim ← getNatList j "lim"
  if old.length != lim.length then return reject "LengthMismatch"
  let n := old.length
  return Json.mkObj [("new", natListJson (listOfFn n (updateOdometer n (fnOfList old) (fnOfList lim))))]

def handlers : List (String × Handler) := [
  ("c07_classical_value", valueOp classicalValue),
  ("c07_classical_value_fixed", valueOp classicalValueFixed),
  ("c07_max_det", valueOp maxDetBrute),
  ("c07_product_game", productGame),
  ("c07_bcs_game", bcsGame),
  ("c07_history", history),
  ("c07_update_odometer", odometer)]

end Toq.Driver.C07
