import Toq.Driver.QJson
import Toq.Model.Discrim
import Toq.Model.DiscrimArgs
import Toq.Model.DiscrimCall
/-! Driver front end for C10 (state discrimination certificate checkers).

Ops (matrices in the `QJson` dyadic encoding, rationals as `[num, den]` or an integer):

* `minerr_primal {"d":d,"rho":[mat…],"p":[rat…],"M":[mat…],"LM":[mat…]}`
* `minerr_dual   {"d":d,"rho":[mat…],"p":[rat…],"Y":mat,"LY":[mat…]}`
* `unamb_primal  {"k":k,"G":mat,"p":[rat…],"q":[rat…],"L":mat}`
* `unamb_dual    {"k":k,"G":mat,"p":[rat…],"Z":mat,"LZ":mat}`
* `sd_front {"shapes":[[n]|[r,c]…],"p":[rat…]|null,"strategy":str|null,"primal_dual":str|null}` – the lines of
  `state_distinguishability` before the worker call (`null` = argument omitted): `{"reject":"ValueError"}` or
  `{"n","dim","p","form"}`
* `sd_front_call {"shapes":…,"p":…,"pos":[str…],"kw":[[name,value]…]}` – the same behind Python's binding of the options
  given by position (`pos`, after `vectors, probs`) and by keyword (`kw`): `{"reject":"TypeError"}`,
  `{"reject":"ValueError"}` or `{"n","dim","p","form","solver","strategy","primal_dual"}` (the bound options)
* `sd_program {"d","states":[{"vec":mat}|{"dm":mat}…],"p":[rat…]|null,"form":"me_primal"|"me_dual"|"ua_primal"|"ua_dual", point…}`
  – the program built for the raw arguments, evaluated at a point (see `hProgram`)
* `sd_post {"v":rat}` – `is_distinguishable`'s test on the solver value

Answer `{"ok":[num,den]}` (the exact objective value returned by the verified checker) or
`{"reject":"<first failed condition>"}`.  The verdict is always the one of the verified checker of
`Toq.Model.Discrim`; the diagnostic below is only used to word a rejection and re-evaluates the same
named conditions. -/
open Lean Toq.Discrim EMat

namespace Toq.Driver.C10

/-- first index at which `p` fails -/
def firstFail (k : Nat) (p : Fin k → Bool) : Option Nat :=
  ((List.finRange k).find? fun i => !p i).map (·.val)

/-- why `psdCert A L` fails (`none` when it holds) -/
def psdWhy {n k : Nat} (A : EMat n n) (L : EMat n k) : Option String :=
  if !A.isHermitian then some "not_hermitian"
  else
    let R := A - L.mul L.ct
    if !R.isHermitian then some "residual_not_hermitian"
    else
      match firstFail n fun i =>
          decide (sumFinQ n (fun j => if j = i then 0 else (R.get i j).abs1) ≤ (R.get i i).re) with
      | some i => some s!"residual_not_diag_dominant_row_{i}"
      | none => if psdCert A L then none else some "psdCert_failed"

/-- first `i < k` whose PSD certificate fails, with the reason -/
def firstPsdFail {n m : Nat} (k : Nat) (A : Fin k → EMat n n) (L : Fin k → EMat n m) : Option (Nat × String) :=
  (List.finRange k).findSome? fun i => (psdWhy (A i) (L i)).map fun s => (i.val, s)

def lenWhy (k : Nat) (named : List (String × Nat)) : Option String :=
  (named.find? fun x => x.2 != k).map fun x => s!"length_{x.1}_{x.2}_expected_{k}"

def answer (r : Option Rat) (why : Unit → String) : Json :=
  match r with
  | some v => Json.mkObj [("ok", ratJson v)]
  | none => reject (why ())

def hMinErrPrimal : Handler := fun j => do
  let d ← getNat j "d"
  let rho ← getEMatList j "rho" d d
  let p ← getRatList j "p"
  let M ← getEMatList j "M" d d
  let LM ← getEMatList j "LM" d d
  let ens : Ensemble d := ⟨rho, p⟩
  let k := ens.size
  return answer (checkMinErrPrimal ens M LM) fun _ =>
    match lenWhy k [("p", p.length), ("M", M.length), ("LM", LM.length)] with
    | some s => s
    | none =>
      match firstPsdFail k (fun i => matAt M i) (fun i => matAt LM i) with
      | some (i, s) => s!"M[{i}]_{s}"
      | none =>
        if !povmSumOk k (fun i => matAt M i) then "sum_M_not_identity" else "rejected"

def hMinErrDual : Handler := fun j => do
  let d ← getNat j "d"
  let rho ← getEMatList j "rho" d d
  let p ← getRatList j "p"
  let Y ← getEMat j "Y" d d
  let LY ← getEMatList j "LY" d d
  let ens : Ensemble d := ⟨rho, p⟩
  let k := ens.size
  return answer (checkMinErrDual ens Y LY) fun _ =>
    match lenWhy k [("p", p.length), ("LY", LY.length)] with
    | some s => s
    | none =>
      if !Y.isHermitian then "Y_not_hermitian"
      else
        match firstPsdFail k (fun i => Y - smul (ens.prob i) (ens.state i)) (fun i => matAt LY i) with
        | some (i, s) => s!"Y_minus_p_rho[{i}]_{s}"
        | none => "rejected"

def hUnambPrimal : Handler := fun j => do
  let k ← getNat j "k"
  let G ← getEMat j "G" k k
  let p ← getRatList j "p"
  let q ← getRatList j "q"
  let L ← getEMat j "L" k k
  return answer (checkUnambPrimal G p q L) fun _ =>
    match lenWhy k [("p", p.length), ("q", q.length)] with
    | some s => s
    | none =>
      match firstFail k fun i => decide (0 ≤ ratAt q i) with
      | some i => s!"q[{i}]_negative"
      | none =>
        match psdWhy (G - diagQ fun i : Fin k => ratAt q i) L with
        | some s => s!"G_minus_diag_q_{s}"
        | none => "rejected"

def hUnambDual : Handler := fun j => do
  let k ← getNat j "k"
  let G ← getEMat j "G" k k
  let p ← getRatList j "p"
  let Z ← getEMat j "Z" k k
  let LZ ← getEMat j "LZ" k k
  return answer (checkUnambDual G p Z LZ) fun _ =>
    match lenWhy k [("p", p.length)] with
    | some s => s
    | none =>
      match psdWhy Z LZ with
      | some s => s!"Z_{s}"
      | none =>
        match firstFail k fun i => decide (ratAt p i ≤ (Z.get i i).re) with
        | some i => s!"Z[{i},{i}]_below_p[{i}]"
        | none => "rejected"

/-! ## The program `state_distinguishability` builds from its raw arguments -/

/-- exact rational matrix as `{"re":[[num,den]…],"im":[[num,den]…]}` (row-major) -/
def ematJson {n m : Nat} (A : EMat n m) : Json :=
  let cells := (List.finRange n).flatMap fun i => (List.finRange m).map fun c => A.get i c
  Json.mkObj [("re", Json.arr (cells.map fun z => ratJson z.re).toArray),
    ("im", Json.arr (cells.map fun z => ratJson z.im).toArray)]

def parseShape (j : Json) : Except String SdShape := do
  match ← asNatList j with
  | [n] => return .d1 n
  | [r, c] => return .d2 r c
  | _ => throw "shape: expected [n] or [r, c]"

def optStr (j : Json) (key dflt : String) : Except String String :=
  if isNull j key then pure dflt else do (← j.getObjVal? key).getStr?

/-- `sd_front`: everything `state_distinguishability` decides before it calls one of its four workers -/
def hFront : Handler := fun j => do
  let shapes ← (← (← j.getObjVal? "shapes").getArr?).toList.mapM parseShape
  let probs ← if isNull j "p" then pure none else (some <$> getRatList j "p")
  let strategy ← optStr j "strategy" sdDefaultStrategy
  let pd ← optStr j "primal_dual" sdDefaultPrimalDual
  match sdFront shapes probs strategy pd with
  | none => return reject "ValueError"
  | some f =>
    return Json.mkObj [("n", Json.num f.n), ("dim", Json.num f.dim),
      ("p", Json.arr (f.probs.map ratJson).toArray), ("form", Json.str f.form.name),
      ("solver", Json.str sdDefaultSolver)]

/-- `sd_front_call`: `sdFrontCall` – the binding of positional / keyword options, then `sdFront` -/
def hFrontCall : Handler := fun j => do
  let shapes ← (← (← j.getObjVal? "shapes").getArr?).toList.mapM parseShape
  let probs ← if isNull j "p" then pure none else (some <$> getRatList j "p")
  let pos ← (← (← j.getObjVal? "pos").getArr?).toList.mapM fun x => x.getStr?
  let kw ← (← (← j.getObjVal? "kw").getArr?).toList.mapM fun x => do
    match (← x.getArr?).toList with
    | [a, b] => return ((← a.getStr?), (← b.getStr?))
    | _ => throw "kw: expected [name, value]"
  match sdFrontCall shapes probs pos kw with
  | .typeError => return reject "TypeError"
  | .valueError => return reject "ValueError"
  | .built f solver =>
    let o := (sdBind pos kw).getD ⟨"", "", ""⟩
    return Json.mkObj [("n", Json.num f.n), ("dim", Json.num f.dim),
      ("p", Json.arr (f.probs.map ratJson).toArray), ("form", Json.str f.form.name),
      ("solver", Json.str solver), ("strategy", Json.str o.strategy), ("primal_dual", Json.str o.primalDual)]

def parseSdState (d : Nat) (j : Json) : Except String (SdState d) := do
  match j.getObjVal? "vec" with
  | .ok v => return .vec (← parseEMat d 1 v)
  | .error _ => return .dm (← parseEMat d d (← j.getObjVal? "dm"))

def optEMatList (j : Json) (key : String) (n m : Nat) : Except String (List (EMat n m)) :=
  if isNull j key then pure [] else getEMatList j key n m

def optEMat (j : Json) (key : String) (n m : Nat) : Except String (EMat n m) :=
  if isNull j key then pure EMat.zero else getEMat j key n m

def checkJson (r : Option Rat) : Json :=
  match r with
  | some v => Json.mkObj [("ok", ratJson v)]
  | none => reject "rejected"

/-- `sd_program`: the program `state_distinguishability` builds for the given raw arguments (`sdPrepare` / `sdGram`),
evaluated at a point: every operator that a constraint requires to be PSD (`psd`, in the order of the code's constraints),
every matrix residual that must vanish (`eq`), every number that must be non-negative (`ge`; for `ua_primal` these are the
variable's own lower bounds `q_i ≥ 0`), the objective, and – when PSD witnesses are supplied – the verdict of the verified
checker at that point. -/
def hProgram : Handler := fun j => do
  let d ← getNat j "d"
  let sts ← (← (← j.getObjVal? "states").getArr?).toList.mapM (parseSdState d)
  let probs ← if isNull j "p" then pure none else (some <$> getRatList j "p")
  let form ← (← j.getObjVal? "form").getStr?
  let ens := sdPrepare sts probs
  let k := ens.size
  let ρ : Fin k → EMat d d := fun i => ens.state i
  let pr : Fin k → Rat := fun i => ens.prob i
  let idx := List.finRange k
  let mats {a b : Nat} (l : List (EMat a b)) : Json := Json.arr (l.map ematJson).toArray
  let rats (l : List Rat) : Json := Json.arr (l.map ratJson).toArray
  let base : List (String × Json) := [("p", rats ens.probs)]
  match form with
  | "me_primal" =>
    let M ← getEMatList j "M" d d
    let LM ← optEMatList j "LM" d d
    let Mf : Fin k → EMat d d := fun i => matAt M i
    return Json.mkObj (base ++ [("rho", mats ens.states), ("psd", mats (idx.map Mf)),
      ("eq", mats [mePrimalEqResidual k Mf]), ("ge", rats []), ("objective", ratJson (minErrValue ens M)),
      ("check", checkJson (checkMinErrPrimal ens M LM))])
  | "me_dual" =>
    let Y ← getEMat j "Y" d d
    let LY ← optEMatList j "LY" d d
    return Json.mkObj (base ++ [("rho", mats ens.states), ("psd", mats (idx.map fun i => meDualSlack ρ pr Y i)),
      ("eq", mats ([] : List (EMat d d))), ("ge", rats []), ("objective", ratJson Y.trace.re),
      ("check", checkJson (checkMinErrDual ens Y LY))])
  | "ua_primal" =>
    if !sts.all SdState.isVec then return reject "unambiguous_needs_vectors" else
    let n := sts.length
    let G := sdGram sts
    let q ← getRatList j "q"
    let L ← optEMat j "L" n n
    let qf : Fin n → Rat := fun i => ratAt q i
    return Json.mkObj (base ++ [("gram", ematJson G), ("psd", mats [uaPrimalSlack G qf]),
      ("eq", mats ([] : List (EMat n n))), ("ge", rats ((List.finRange n).map qf)),
      ("objective", ratJson (unambValueFn n (fun i => ratAt ens.probs i) qf)),
      ("check", checkJson (checkUnambPrimal G ens.probs q L))])
  | "ua_dual" =>
    if !sts.all SdState.isVec then return reject "unambiguous_needs_vectors" else
    let n := sts.length
    let G := sdGram sts
    let Z ← getEMat j "Z" n n
    let LZ ← optEMat j "LZ" n n
    return Json.mkObj (base ++ [("gram", ematJson G), ("psd", mats [Z]), ("eq", mats ([] : List (EMat n n))),
      ("ge", rats ((List.finRange n).map fun i => uaDualDiagSlack (fun i => ratAt ens.probs i) Z i)),
      ("objective", ratJson (G.mul Z).trace.re), ("check", checkJson (checkUnambDual G ens.probs Z LZ))])
  | _ => return reject "unknown_form"

/-- `sd_post`: `is_distinguishable`'s `np.isclose(opt_val, 1)` -/
def hPost : Handler := fun j => do
  let v ← getRat j "v"
  return Json.mkObj [("dist", Json.bool (sdDistTest v)), ("strategy", Json.str sdDefaultStrategy),
    ("primal_dual", Json.str "dual")]

def handlers : List (String × Handler) :=
  [("minerr_primal", hMinErrPrimal), ("minerr_dual", hMinErrDual),
   ("unamb_primal", hUnambPrimal), ("unamb_dual", hUnambDual),
   ("sd_front", hFront), ("sd_front_call", hFrontCall), ("sd_program", hProgram), ("sd_post", hPost)]

end Toq.Driver.C10
