import Toq.Driver.QJson
import Toq.Model.MetricsFos
/-! Driver front end for the program of `fidelity_of_separability` (C13, `Toq.Model.MetricsFos`).

Complex integer matrices / vectors are pairs `[re, im]` of flat row-major integer arrays.

* `c13_fos_args {"dA","dB","k"}` → `{"dim_list","size","trace_sys","pt_sys"}` (the lists the code builds)
* `c13_fos_exprs {"dA","dB","k","rho","X","sigma"}` → the expressions of `Toq.Metrics.fosExprs` over Gaussian integers at the point `(X, σ)`:
  `{"block","sigma","trace","sym","sym_scale","pts","obj2"}` (`sym` is `(k!)² = sym_scale` times the residual, `obj2` twice the objective)
* `c13_fos_product {"dA","dB","k","a","b"}` → the product point of `fosFeasible_product` for the (unnormalised) Gaussian-integer vectors `a`, `b`,
  scaled by `den = ‖a‖² ‖b‖^{2k}` to stay in the integers (`rho = den · a aᴴ ⊗ b bᴴ / (‖a‖²‖b‖²)`, `sigma = a aᴴ ⊗ (b bᴴ)^{⊗k}`), the expressions at it and the
  exact checks: `trace == den`, `obj2 == 2 den`, `sym == 0`, `block == w wᴴ · ‖b‖^{2(k−1)}` with `w = (ψ; ψ)`, `ψ = a ⊗ b` (`sigma = s sᴴ` by construction),
  `pts[j−1] == s_j s_jᴴ` with `s_j = a ⊗ conj(b)^{⊗j} ⊗ b^{⊗(k−j)}` (a matrix `c · v vᴴ` with `c ≥ 0` is positive semidefinite)
* `c13_fos_guard {"density","dims_len","pure":[[n,d],[n,d]] | bool,"n","dA","dB","sep":null|"raises"|"entangled"|"separable"}` → `{"outcome","pure","sep"}`
  (`sep` is only consulted when the dimensions do not decide `is_separable`) -/
open Lean Toq.Metrics

namespace Toq.Driver.C13Fos

def getCMat (j : Json) (key : String) (size : Nat) : Except String (Array GI) := do
  let v ← j.getObjVal? key
  match v with
  | .arr a =>
    if a.size != 2 then throw s!"{key}: expected [re, im]"
    let re ← asIntArray a[0]!
    let im ← asIntArray a[1]!
    if re.size != size || im.size != size then throw s!"{key}: expected {size} entries, got {re.size}/{im.size}"
    return (Array.range size).map fun t => ⟨re[t]!, im[t]!⟩
  | _ => throw s!"{key}: expected [re, im]"

def cmatJson (rows cols : Nat) (f : Nat → Nat → GI) : Json :=
  let a := arrayOfMat rows cols f
  Json.arr #[intArrayJson (a.map (·.re)), intArrayJson (a.map (·.im))]

def giJson (z : GI) : Json := Json.arr #[Json.num z.re, Json.num z.im]

/-- entrywise equality of two `N × N` matrices -/
def matEq (N : Nat) (A B : Nat → Nat → GI) : Bool :=
  allBelow N fun i => allBelow N fun j => A i j == B i j

/-- the expressions with `symProjN` tabulated once (`fosExprs` evaluates it entry by entry) -/
def exprsTab (dA dB k : Nat) (ρ X σ : Nat → Nat → GI) : FosExprs GI :=
  let R := dB ^ k
  let S := arrayOfMat R R fun i j => GI.ofInt (Toq.Combinat.symProjN dB k i j)
  fosExprsWith dA dB k (matOfArray S R) (GI.ofInt ((fosFact k * fosFact k : Nat) : Int)) ρ X σ

def exprsJson (dA dB k : Nat) (e : FosExprs GI) : List (String × Json) :=
  let n := dA * dB
  let N := fosSize dA dB k
  [("block", cmatJson (2 * n) (2 * n) e.block), ("sigma", cmatJson N N e.sigma), ("trace", giJson e.trace),
   ("sym", cmatJson N N e.symRes), ("sym_scale", Json.num ((fosFact k * fosFact k : Nat))),
   ("pts", Json.arr (e.pts.map (cmatJson N N)).toArray), ("obj2", giJson e.obj2)]

def hArgs : Handler := fun j => do
  let dA ← getNat j "dA"
  let dB ← getNat j "dB"
  let k ← getNat j "k"
  return Json.mkObj [("dim_list", natListJson (fosDimList dA dB k)), ("size", Json.num (fosSize dA dB k : Nat)),
    ("trace_sys", natListJson (fosTraceSys k)), ("pt_sys", Json.arr ((fosPTSysLists k).map natListJson).toArray)]

def hExprs : Handler := fun j => do
  let dA ← getNat j "dA"
  let dB ← getNat j "dB"
  let k ← getNat j "k"
  if k == 0 then return reject "LevelZero"
  let n := dA * dB
  let N := fosSize dA dB k
  let ρ ← getCMat j "rho" (n * n)
  let X ← getCMat j "X" (n * n)
  let σ ← getCMat j "sigma" (N * N)
  let e := exprsTab dA dB k (matOfArray ρ n) (matOfArray X n) (matOfArray σ N)
  return Json.mkObj (exprsJson dA dB k e)

def normSq (d : Nat) (v : Nat → GI) : Int := sumN d fun i => (v i * GI.conj (v i)).re

def hProduct : Handler := fun j => do
  let dA ← getNat j "dA"
  let dB ← getNat j "dB"
  let k ← getNat j "k"
  if k == 0 then return reject "LevelZero"
  let av ← getCMat j "a" dA
  let bv ← getCMat j "b" dB
  let a : Nat → GI := fun i => av[i]!
  let b : Nat → GI := fun i => bv[i]!
  let n := dA * dB
  let N := fosSize dA dB k
  let nb := normSq dB b
  let den : Int := normSq dA a * nb ^ k
  let scale : GI := GI.ofInt (nb ^ (k - 1))
  -- ψ = a ⊗ b, s_j = a ⊗ conj(b)^{⊗j} ⊗ b^{⊗(k−j)}
  let ψ := arrayOfFn n (fosProdVec dB a b 0 1)
  let sv (jj : Nat) : Array GI := arrayOfFn N (fosProdVec dB a b jj k)
  let s0 := sv 0
  let ρA := arrayOfMat n n fun i l => scale * fosOuter (fun t => ψ[t]!) i l
  let σA := arrayOfMat N N (fosOuter fun t => s0[t]!)
  let ρ := matOfArray ρA n
  let σ := matOfArray σA N
  let e := exprsTab dA dB k ρ ρ σ
  let w : Nat → GI := fun t => ψ[t % n]!
  let blockOk := matEq (2 * n) e.block fun i l => scale * fosOuter w i l
  let symOk := matEq N e.symRes fun _ _ => 0
  let ptsOk := (e.pts.zipIdx.map fun (P, idx) =>
    let sj := sv (idx + 1)
    matEq N P (fosOuter fun t => sj[t]!))
  return Json.mkObj (exprsJson dA dB k e ++
    [("den", Json.num den), ("rho", cmatJson n n ρ),
     ("trace_ok", Json.bool (e.trace == GI.ofInt den)), ("obj_ok", Json.bool (e.obj2 == GI.ofInt (2 * den))),
     ("sym_ok", Json.bool symOk), ("block_ok", Json.bool blockOk),
     ("pts_ok", Json.arr (ptsOk.map Json.bool).toArray)])

def sepOfString : String → Except String FosSepVerdict
  | "raises" => pure .raises
  | "entangled" => pure .entangled
  | "separable" => pure .separable
  | s => throw s!"c13_fos_guard: unknown verdict {s}"

def sepJson : FosSepVerdict → Json
  | .raises => Json.str "raises"
  | .entangled => Json.str "entangled"
  | .separable => Json.str "separable"

def outcomeJson : FosOutcome → Json
  | .notDensity => Json.str "notDensity"
  | .notBipartite => Json.str "notBipartite"
  | .notPure => Json.str "notPure"
  | .sepError => Json.str "sepError"
  | .entangled => Json.str "entangled"
  | .buildError => Json.str "buildError"
  | .solve => Json.str "solve"

def hGuard : Handler := fun j => do
  let density ← getBool j "density"
  let dimsLen ← getNat j "dims_len"
  let isPure ← match (← j.getObjVal? "pure") with
    | .bool b => pure b
    | .arr a =>
      if a.size != 2 then throw "c13_fos_guard: pure must be a bool or [re, im]"
      pure (fosPureGuard (← asRat a[0]!) (← asRat a[1]!))
    | _ => throw "c13_fos_guard: pure must be a bool or [re, im]"
  let n ← getNat j "n"
  let dA ← getNat j "dA"
  let dB ← getNat j "dB"
  -- `is_separable` is only reached when the first three guards pass
  let sepNeeded := density && dimsLen == 2 && isPure
  let sep ← match fosSepHead n dA dB with
    | some v => pure v
    | none =>
      if isNull j "sep" then
        if sepNeeded then throw "c13_fos_guard: the dimensions do not decide is_separable, sep is needed" else pure FosSepVerdict.raises
      else sepOfString (← (← j.getObjVal? "sep").getStr?)
  let out := fosGuard density dimsLen isPure sep (dA * dB == n)
  return Json.mkObj [("outcome", outcomeJson out), ("pure", Json.bool isPure), ("sep", sepJson sep)]

def handlers : List (String × Handler) :=
  [("c13_fos_args", hArgs), ("c13_fos_exprs", hExprs), ("c13_fos_product", hProduct), ("c13_fos_guard", hGuard)]

end Toq.Driver.C13Fos
