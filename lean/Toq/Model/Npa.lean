import Toq.Core.Idx
import Toq.Model.Games
/-!
# Mirror model of `toqito/helper/npa_hierarchy.py` (core Lean only, no Mathlib)

* `Sym`, `Word`            — `Symbol(player, question, answer)` and tuples of symbols; `Symbol("")` is `Sym.ident`;
* `reduceWord`             — `_reduce`: Alice's symbols in front (symbols of no player are dropped), `P·P = P`,
                             `P_{a|x}·P_{a'|x} = 0`; **as in the code the zero word and the word without any
                             measurement symbol are both the empty tuple**;
* `parseLevel`             — `_parse` (`'1+ab+aab'`), `levelSpec` — the `int | str` argument `k`;
* `genWords`               — `_gen_words`: the identity word, then the words of every type `a^j b^(i-j)` in the
                             order of the loops, with the first `num_outputs − 1` answers per question only;
* `npaConstraints`         — `npa_constraints(assemblage, k, referee_dim = 1)` **as data**: the list of constraints
                             in the order the code appends them;
* `val`, `detZ`, `detR`, `detK`, `objective` — the point of the relaxation that a deterministic strategy
                             `(f, g)` defines (moment matrix `R = z zᵀ`, behaviour `K(a,b|x,y) = [a = f x][b = g y]`)
                             and the objective of `commuting_measurement_value_upper_bound`;
* `Constr.check`           — executable evaluation of one constraint at a rational point (`R ⪰ 0` excepted).
-/

namespace Toq.Npa
open Toq.Games

/-- `Symbol.player`: `""`, `"Alice"`, `"Bob"` -/
inductive Player where
  | none | alice | bob
deriving DecidableEq, Repr

/-- `Symbol = namedtuple("Symbol", ["player", "question", "answer"])`.  For `Symbol("")` question and answer
    are `None`; the model stores `0` there (such symbols are compared only with each other and dropped by
    `_reduce`). -/
structure Sym where
  player : Player
  question : Nat
  answer : Nat
deriving DecidableEq, Repr

abbrev Word := List Sym

/-- `Symbol("")` -/
def Sym.ident : Sym := ⟨.none, 0, 0⟩

/-! ## `_reduce` -/

/-- the commutation step `word = w_a + w_b` -/
def sep (w : Word) : Word :=
  w.filter (fun s => s.player = .alice) ++ w.filter (fun s => s.player = .bob)

/-- `symbol_x.player == symbol_y.player and symbol_x.question == symbol_y.question
    and symbol_x.answer != symbol_y.answer` -/
def orth (x y : Sym) : Bool :=
  decide (x.player = y.player ∧ x.question = y.question ∧ x.answer ≠ y.answer)

/-- outcome of the loop `for i in range(len(word) - 1)`: at the first index where something happens either
    the word with one of two equal neighbours removed (`word[:i] + word[i + 1:]`), or zero; or nothing happens -/
inductive Scan where
  | merged (w : Word)
  | zero
  | done
deriving DecidableEq, Repr

/-- the loop over neighbouring pairs, first hit wins (equality is tested before orthogonality) -/
def scan : Word → Scan
  | x :: y :: rest =>
    if x = y then .merged (y :: rest)
    else if orth x y then .zero
    else
      match scan (y :: rest) with
      | .merged w' => .merged (x :: w')
      | .zero => .zero
      | .done => .done
  | _ => .done

/-- `_reduce` with the recursion depth bounded by `fuel` (every recursive call removes one symbol) -/
def reduceFuel : Nat → Word → Word
  | 0, w => sep w
  | n + 1, w =>
    match scan (sep w) with
    | .merged w' => reduceFuel n w'
    | .zero => []
    | .done => sep w

/-- mirror of `_reduce(word)`:
```
w_a, w_b = symbols of "Alice", symbols of "Bob" (in order);  word = w_a + w_b
for i in range(len(word) - 1):
    if word[i] == word[i+1]: return _reduce(word[:i] + word[i+1:])
    if same player and question, different answer: return ()
return word
``` -/
def reduceWord (w : Word) : Word := reduceFuel w.length w

/-! ## `_parse` and the level argument -/

/-- `str.split("+")` on a list of characters -/
def splitPlus : List Char → List (List Char)
  | [] => [[]]
  | c :: cs =>
    match splitPlus cs with
    | [] => [[]]
    | h :: t => if c = '+' then [] :: h :: t else (c :: h) :: t

/-- `int(k[0])` for a non-empty string of ASCII digits (everything else is rejected by the model: `none`) -/
def parseNat (cs : List Char) : Option Nat :=
  if cs ≠ [] ∧ cs.all Char.isDigit then some (cs.foldl (fun n c => 10 * n + (c.toNat - 48)) 0) else none

/-- number of occurrences of `c` -/
def countChar (c : Char) (cs : List Char) : Nat := (cs.filter (fun d => d = c)).length

/-- `conf.add(...)` on a set kept as a list without repetitions in order of first insertion -/
def addConf (acc : List (Nat × Nat)) (c : Nat × Nat) : List (Nat × Nat) :=
  if c ∈ acc then acc else acc ++ [c]

/-- mirror of `_parse(k)`:
```
k = k.split("+"); base_k = int(k[0]); conf = set()
for val in k[1:]:
    if len(val) > base_k: conf.add((number of 'a' in val, number of 'b' in val))
```
(the iteration order of the Python set is not modelled: `conf` is the list in order of first insertion) -/
def parseLevel (s : String) : Option (Nat × List (Nat × Nat)) :=
  match splitPlus s.toList with
  | [] => none
  | h :: t =>
    match parseNat h with
    | none => none
    | some base =>
      some (base, ((t.filter (fun v => decide (v.length > base))).map
        (fun v => (countChar 'a' v, countChar 'b' v))).foldl addConf [])

/-- the argument `k : int | str` -/
inductive LevelArg where
  | int (k : Nat)
  | str (s : String)
deriving DecidableEq, Repr

/-- `conf = []; if isinstance(k, str): k, conf = _parse(k)` -/
def levelSpec : LevelArg → Option (Nat × List (Nat × Nat))
  | .int k => some (k, [])
  | .str s => parseLevel s

/-! ## `_gen_words` -/

/-- `[Symbol(p, q, a) for q in range(n_in) for a in range(n_out - 1)]` -/
def symbols (p : Player) (nIn nOut : Nat) : List Sym :=
  (List.range nIn).flatMap fun q => (List.range (nOut - 1)).map fun a => ⟨p, q, a⟩

/-- `itertools.product(syms, repeat=n)` (first coordinate slowest) -/
def product (syms : List Sym) : Nat → List Word
  | 0 => [[]]
  | n + 1 => syms.flatMap fun s => (product syms n).map fun w => s :: w

/-- the words of type `a^ca b^cb`:
```
for word_a in product(a_symbols, repeat=ca):
    if len(_reduce(word_a)) == ca:
        for word_b in product(b_symbols, repeat=cb):
            if len(_reduce(word_b)) == cb: words += [word_a + word_b]
``` -/
def wordsOfType (aS bS : List Sym) (ca cb : Nat) : List Word :=
  ((product aS ca).filter fun wa => (reduceWord wa).length == ca).flatMap fun wa =>
    ((product bS cb).filter fun wb => (reduceWord wb).length == cb).map fun wb => wa ++ wb

/-- mirror of `_gen_words(k, a_out, a_in, b_out, b_in)` for the parsed level `(base, conf)`:
```
words = [(Symbol(""),)]
for i in range(1, k + 1):
    for j in range(i + 1):  words of type a^j b^(i-j)
for cnt_a, cnt_b in conf:   words of type a^cnt_a b^cnt_b
``` -/
def genWords (base : Nat) (conf : List (Nat × Nat)) (ao ai bo bi : Nat) : List Word :=
  let aS := symbols .alice ai ao
  let bS := symbols .bob bi bo
  [[Sym.ident]]
    ++ ((List.range base).flatMap fun i' =>
          (List.range (i' + 2)).flatMap fun j => wordsOfType aS bS j (i' + 1 - j))
    ++ conf.flatMap fun c => wordsOfType aS bS c.1 c.2

/-! ## `npa_constraints` (scalar case `referee_dim = 1`) as data -/

/-- one constraint on the moment matrix `R` (indexed by positions in the word list) and the assemblage
    `K(a, b | x, y)` = `assemblage[x, y][a, b]` -/
inductive Constr where
  /-- `R[0, 0] == 1` -/
  | norm
  /-- `R >> 0` -/
  | psd
  /-- `R[i, j] == 0` : the product word `S_i† S_j` reduces to zero -/
  | zero (i j : Nat)
  /-- `R[i, j] == K(a, b | x, y)` : the product reduces to one Alice and one Bob measurement -/
  | meas (i j x y a b : Nat)
  /-- `R[i, j] == Σ_b K(a, b | x, 0)` : the product reduces to one measurement of Alice -/
  | margA (i j x a : Nat)
  /-- `R[i, j] == Σ_a K(a, b | 0, y)` : the product reduces to one measurement of Bob -/
  | margB (i j y b : Nat)
  /-- `R[i, j] == R[i', j']` : same reduced word as an earlier entry -/
  | same (i j i' j' : Nat)
  /-- `K(a, b | x, y) >> 0` (a 1×1 block) -/
  | kNonneg (x y a b : Nat)
  /-- `Σ_{a,b} K(a, b | x, y) == 1` -/
  | kNorm (x y : Nat)
  /-- `Σ_a K(a, b | 0, y) == Σ_a K(a, b | x, y)` (Bob's marginal does not depend on Alice's question) -/
  | nsBob (y b x : Nat)
  /-- `Σ_b K(a, b | x, 0) == Σ_b K(a, b | x, y)` (Alice's marginal does not depend on Bob's question) -/
  | nsAlice (x a y : Nat)
deriving DecidableEq, Repr

/-- `_is_meas(word)`: two symbols, Alice's then Bob's -/
def isMeas : Word → Option (Sym × Sym)
  | [sa, sb] => if sa.player = .alice ∧ sb.player = .bob then some (sa, sb) else none
  | _ => none

/-- `_is_meas_on_one_player(word)` -/
def isMeasOne : Word → Option Sym
  | [s] => if s.player = .alice ∨ s.player = .bob then some s else none
  | _ => none

/-- the dictionary `seen` : reduced word ↦ first entry `(i, j)` that had it -/
abbrev Seen := List (Word × (Nat × Nat))

/-- `seen[word]` if `word in seen` -/
def lookupSeen : Seen → Word → Option (Nat × Nat)
  | [], _ => none
  | (w', ij) :: rest, w => if w' = w then some ij else lookupSeen rest w

/-- word number `i` (callers stay below the length of the list) -/
def wordAt (words : List Word) (i : Nat) : Word := words.getD i []

/-- the reduced product word of entry `(i, j)`: `_reduce(tuple(reversed(words[i])) + words[j])` -/
def entryWord (words : List Word) (i j : Nat) : Word :=
  reduceWord ((wordAt words i).reverse ++ wordAt words j)

/-- body of the double loop for entry `(i, j)`: the constraint appended (if any) and the dictionary afterwards
```
if i != 0 and _is_zero(word): R[i,j] == 0
elif _is_meas(word): R[i,j] == K(a,b|x,y)
elif _is_meas_on_one_player(word): R[i,j] == marginal
elif word in seen: R[i,j] == R[seen[word]]
else: seen[word] = (i, j)
``` -/
def entryConstr (words : List Word) (seen : Seen) (i j : Nat) : Option Constr × Seen :=
  let word := entryWord words i j
  if i ≠ 0 ∧ word = [] then (some (.zero i j), seen)
  else
    match isMeas word with
    | some (sa, sb) => (some (.meas i j sa.question sb.question sa.answer sb.answer), seen)
    | none =>
      match isMeasOne word with
      | some s =>
        (some (if s.player = .alice then .margA i j s.question s.answer else .margB i j s.question s.answer), seen)
      | none =>
        match lookupSeen seen word with
        | some (i0, j0) => (some (.same i j i0 j0), seen)
        | none => (none, (word, (i, j)) :: seen)

/-- the double loop over a list of entries, threading `seen` -/
def loopEntries (words : List Word) : List (Nat × Nat) → Seen → List Constr
  | [], _ => []
  | (i, j) :: rest, seen =>
    let r := entryConstr words seen i j
    match r.1 with
    | some c => c :: loopEntries words rest r.2
    | none => loopEntries words rest r.2

/-- `for i in range(dim): for j in range(i, dim)` -/
def pairsUpper (dim : Nat) : List (Nat × Nat) :=
  (List.range dim).flatMap fun i => (List.range (dim - i)).map fun d => (i, i + d)

/-- the constraints on the assemblage alone, in the order of the three loop nests -/
def assemblageConstrs (ao bo ai bi : Nat) : List Constr :=
  ((List.range ai).flatMap fun x => (List.range bi).flatMap fun y =>
      ((List.range ao).flatMap fun a => (List.range bo).map fun b => Constr.kNonneg x y a b) ++ [Constr.kNorm x y])
  ++ ((List.range bi).flatMap fun y => (List.range bo).flatMap fun b =>
      (List.range (ai - 1)).map fun x' => Constr.nsBob y b (x' + 1))
  ++ ((List.range ai).flatMap fun x => (List.range ao).flatMap fun a =>
      (List.range (bi - 1)).map fun y' => Constr.nsAlice x a (y' + 1))

/-- the constraints that involve the moment matrix, for a given word list -/
def momentConstrs (words : List Word) : List Constr :=
  [Constr.norm, Constr.psd] ++ loopEntries words (pairsUpper words.length) []

/-- mirror of `npa_constraints(assemblage, k)` (`referee_dim = 1`) for the parsed level `(base, conf)`:
    `[norm == 1, R >> 0]`, the entry constraints, then the assemblage constraints -/
def npaConstraints (ao bo ai bi base : Nat) (conf : List (Nat × Nat)) : List Constr :=
  momentConstrs (genWords base conf ao ai bo bi) ++ assemblageConstrs ao bo ai bi

/-! ## the point defined by a deterministic strategy, and the objective -/

/-- value of one projector under the answer functions `f` (Alice), `g` (Bob): `[f x = a]`, `[g y = b]`;
    the identity symbol has value 1 -/
def valSym (f g : Nat → Nat) (s : Sym) : Rat :=
  match s.player with
  | .none => 1
  | .alice => if f s.question = s.answer then 1 else 0
  | .bob => if g s.question = s.answer then 1 else 0

/-- value of a word: product of the values of its symbols -/
def val (f g : Nat → Nat) : Word → Rat
  | [] => 1
  | s :: w => valSym f g s * val f g w

/-- the vector `z_i = val(words[i])` -/
def detZ (f g : Nat → Nat) (words : List Word) : Nat → Rat := fun i => val f g (wordAt words i)

/-- the moment matrix `R = z zᵀ` -/
def detR (f g : Nat → Nat) (words : List Word) : Nat → Nat → Rat :=
  fun i j => detZ f g words i * detZ f g words j

/-- the behaviour `K(a, b | x, y) = [a = f x][b = g y]` (argument order of `pred_mat`: `a b x y`) -/
def detK (f g : Nat → Nat) : Pred := fun a b x y => if f x = a ∧ g y = b then 1 else 0

/-- the objective of `commuting_measurement_value_upper_bound` / `nonsignaling_value`:
    `Σ prob[x, y] · pred[a, b, x, y] · K(a, b | x, y)` -/
def objective (ao bo ai bi : Nat) (prob : Prob) (pred K : Pred) : Rat :=
  sumN ai fun x => sumN bi fun y => sumN ao fun a => sumN bo fun b => prob x y * pred a b x y * K a b x y

/-- executable evaluation of one constraint at the rational point `(R, K)`; `R ⪰ 0` is not evaluated -/
def Constr.check (ao bo : Nat) (R : Nat → Nat → Rat) (K : Pred) : Constr → Bool
  | .norm => R 0 0 == 1
  | .psd => true
  | .zero i j => R i j == 0
  | .meas i j x y a b => R i j == K a b x y
  | .margA i j x a => R i j == sumN bo (fun b => K a b x 0)
  | .margB i j y b => R i j == sumN ao (fun a => K a b 0 y)
  | .same i j i' j' => R i j == R i' j'
  | .kNonneg x y a b => decide (0 ≤ K a b x y)
  | .kNorm x y => sumN ao (fun a => sumN bo (fun b => K a b x y)) == 1
  | .nsBob y b x => sumN ao (fun a => K a b 0 y) == sumN ao (fun a => K a b x y)
  | .nsAlice x a y => sumN bo (fun b => K a b x 0) == sumN bo (fun b => K a b x y)

end Toq.Npa
