import Toq.Model.Rand
/-!
# Draw programs of `toqito/rand/*.py` (no Mathlib)

For every generator function and every argument form the sequence of things it does to NumPy's random machinery, in program
order: construct a private generator `np.random.default_rng(seed=seed)` (always from the caller's `seed`, also when a helper
generator is called: `random_unitary(dim, is_real, seed=seed)` inside `random_density_matrix(…, "bures")` and
`random_orthonormal_basis`), then call `gen.random(shape)` / `gen.standard_normal(shape)` / `gen.normal(size=shape)`.
Nothing else is drawn, and nothing is drawn from NumPy's global generator.

The harness wraps `np.random.default_rng` in a recording proxy and compares the recorded events of the real call with
`trace` for every function, option combination and `dim` form it runs; it also re-runs `trace` on fresh generators of the same seed
and demands the recorded arrays bitwise.  This is what makes the abstract `Env.draws` of the seeding state machine
(`Toq.Rand.step`) a faithful picture of each function: `draws g a seed = post g a (interpretation of (trace g a) on fresh
generators of that seed)`.
-/

namespace Toq.Rand

/-- which `numpy.random.Generator` method is called -/
inductive Dist where
  /-- `gen.random(shape)`: uniform on `[0,1)` -/
  | random
  /-- `gen.standard_normal(shape)` -/
  | standardNormal
  /-- `gen.normal(size=shape)` -/
  | normal
deriving DecidableEq, Repr

/-- one draw: method and shape of the returned array -/
structure Draw where
  dist : Dist
  shape : List Nat
deriving DecidableEq, Repr

/-- observable events on the random machinery -/
inductive Ev where
  /-- `np.random.default_rng(seed=seed)` with the caller's seed -/
  | construct
  /-- a draw from the most recently constructed generator -/
  | draw (d : Draw)
deriving DecidableEq, Repr

/-- the `dim` argument: a Python int or a list -/
inductive DimArg where
  | int (d : Nat)
  | list (l : List Nat)
deriving DecidableEq, Repr

/-- a generator call without its seed -/
inductive Call where
  | unitary (dim : DimArg) (isReal : Bool)
  /-- `k = none` is `k_param=None`; `bures` is `distance_metric == "bures"` (every other string takes the Haar path) -/
  | density (dim : Nat) (isReal : Bool) (k : Option Nat) (bures : Bool)
  | psd (dim : Nat) (isReal : Bool)
  | basis (dim : Nat) (isReal : Bool)
  | stateVector (dim : DimArg) (isReal : Bool) (k : Nat)
  | states (n d : Nat)
  | povm (dim numInputs numOutputs : Nat)
  | circulant (dim : Nat)
  | ginibre (n m : Nat)
deriving DecidableEq, Repr

def optDraw (c : Bool) (d : Draw) : List Ev := if c then [.draw d] else []

/-- `if isinstance(dim, int): dim = [dim, dim]`, then `dim[0]`, `dim[1]` -/
def unitaryDims : DimArg → Option (Nat × Nat)
  | .int d => some (d, d)
  | .list (a :: b :: _) => some (a, b)
  | .list _ => none

/-- `random_unitary`: `if isinstance(dim, int): dim = [dim, dim]`, `if dim[0] != dim[1]: raise ValueError`,
`gin = gen.standard_normal((dim[0], dim[1]))`, `if not is_real: gin = gin + 1j * gen.standard_normal(…)` -/
def unitaryTrace (dim : DimArg) (isReal : Bool) : Except String (List Ev) :=
  match unitaryDims dim with
  | none => .error "IndexError"
  | some (a, b) =>
    if a ≠ b then .error "ValueError"
    else .ok ([.construct, .draw ⟨.standardNormal, [a, b]⟩] ++ optDraw (!isReal) ⟨.standardNormal, [a, b]⟩)

/-- NumPy broadcasting of `(d, d) + (d, k)`: the column count of the result, if the shapes are compatible -/
def buresCols (d k : Nat) : Option Nat :=
  if k = d then some d else if k = 1 then some d else if d = 1 then some k else none

/-- `random_density_matrix` (as written, including `random_unitary(dim, is_real, seed=seed) + np.identity(dim) @ gin`) -/
def densityTrace (dim : Nat) (isReal : Bool) (k : Option Nat) (bures : Bool) : Except String (List Ev) :=
  let kk := k.getD dim
  let own : List Ev := [.construct, .draw ⟨.random, [dim, kk]⟩] ++ optDraw (!isReal) ⟨.standardNormal, [dim, kk]⟩
  if bures then do
    let u ← unitaryTrace (.int dim) isReal
    match buresCols dim kk with
    | none => .error "ValueError"
    | some _ => .ok (own ++ u)
  else .ok own

/-- the two local dimensions and the length of the returned vector of `random_state_vector`, with the branch taken
(`true` = Schmidt-rank construction, `0 < k_param < np.min(dim)`) -/
def svBranch (dim : DimArg) (k : Nat) : Except String (Bool × Nat × Nat × Nat) :=
  match dim with
  | .int d => if 0 < k ∧ k < d then .ok (true, d, d, d * d) else .ok (false, d, d, d)
  | .list [d0, d1] => if 0 < k ∧ k < min d0 d1 then .ok (true, d0, d1, d0 * d1) else .ok (false, d0, d1, d0 * d1)
  | .list _ => .error "UnsupportedDimList"

/-- `random_state_vector` -/
def stateVectorTrace (dim : DimArg) (isReal : Bool) (k : Nat) : Except String (List Ev) := do
  let (schmidt, d0, d1, total) ← svBranch dim k
  if schmidt then
    .ok ([.construct, .draw ⟨.random, [d0 * k, 1]⟩, .draw ⟨.random, [d1 * k, 1]⟩]
      ++ optDraw (!isReal) ⟨.random, [d0 * k, 1]⟩ ++ optDraw (!isReal) ⟨.random, [d1 * k, 1]⟩)
  else
    .ok ([.construct, .draw ⟨.random, [total, 1]⟩] ++ optDraw (!isReal) ⟨.random, [total, 1]⟩)

/-- the events of a call, or the exception it raises -/
def trace : Call → Except String (List Ev)
  | .unitary dim isReal => unitaryTrace dim isReal
  | .density dim isReal k bures => densityTrace dim isReal k bures
  | .psd dim isReal => .ok ([.construct, .draw ⟨.random, [dim, dim]⟩] ++ optDraw (!isReal) ⟨.random, [dim, dim]⟩)
  | .basis dim isReal => unitaryTrace (.int dim) isReal
  | .stateVector dim isReal k => stateVectorTrace dim isReal k
  | .states n d => .ok [.construct, .draw ⟨.normal, [n, d]⟩, .draw ⟨.normal, [n, d]⟩]
  | .povm dim ni no => .ok [.construct, .draw ⟨.normal, [ni, no, dim, dim]⟩]
  | .circulant dim => .ok [.construct, .draw ⟨.random, [dim]⟩]
  | .ginibre n m => .ok [.construct, .draw ⟨.standardNormal, [n, m]⟩, .draw ⟨.standardNormal, [n, m]⟩]

/-- shape of the returned array (for the list-valued generators: number of items, then the shape of one item) -/
def outShape : Call → Except String (List Nat)
  | .unitary dim isReal => do
      let _ ← unitaryTrace dim isReal
      match dim with
      | .int d => .ok [d, d]
      | .list (a :: _) => .ok [a, a]
      | .list _ => .error "IndexError"
  | .density dim isReal k bures => do let _ ← densityTrace dim isReal k bures; .ok [dim, dim]
  | .psd dim _ => .ok [dim, dim]
  | .basis dim _ => .ok [dim, dim]
  -- the Schmidt branch returns `mat_1 @ mat_2` with `mat_2 = swap(column, …)`, which is 1-D; the plain branch a column
  | .stateVector dim _ k => do let (schmidt, _, _, total) ← svBranch dim k; .ok (if schmidt then [total] else [total, 1])
  | .states n d => .ok [n, d, 1]
  | .povm dim ni no => .ok [dim, dim, ni, no]
  | .circulant dim => .ok [dim, dim]
  | .ginibre n m => .ok [n, m]

/-- number of scalars a draw returns -/
def Draw.size (d : Draw) : Nat := d.shape.foldl (· * ·) 1

/-- number of generator constructions in an event list -/
def constructions : List Ev → Nat
  | [] => 0
  | .construct :: r => constructions r + 1
  | .draw _ :: r => constructions r

/-- total number of scalars drawn -/
def scalars : List Ev → Nat
  | [] => 0
  | .construct :: r => scalars r
  | .draw d :: r => d.size + scalars r

/-! ## Interpretation on an abstract bit generator

`Prim` is everything the model does not know about PCG64: how a generator state is made from a seed and what a draw
returns.  `interp` runs an event list: every `construct` starts again from the seed. -/

structure Prim (Seed St Arr : Type) where
  init : Seed → St
  next : St → Draw → St × Arr

/-- arrays drawn by an event list, in program order (`none` before the first construction: a draw without a generator) -/
def interp {Seed St Arr : Type} (prim : Prim Seed St Arr) (seed : Seed) : Option St → List Ev → List (Option Arr)
  | _, [] => []
  | _, .construct :: r => interp prim seed (some (prim.init seed)) r
  | none, .draw _ :: r => none :: interp prim seed none r
  | some st, .draw d :: r =>
      let (st', a) := prim.next st d
      some a :: interp prim seed (some st') r

/-- the machine environment refined by draw programs: `draws g a seed = post g a (arrays of (trace a) from that seed)`;
a call that raises returns `post … none`.  (For an *unseeded* call with two constructions — the Bures branch — NumPy pulls fresh OS
entropy at each construction; the machine's single entropy token per unseeded call stands for the whole block of entropy the call
consumes.  The theorems about this refinement concern seeded calls.) -/
def envOfPrim {Seed St Arr G E V : Type} (prim : Prim Seed St Arr) (post : Call → Option (List (Option Arr)) → V)
    (user : Nat → Seed) (gseed : Nat → G) (gnext : G → G × V) (entropy : E → E × Seed) (rdraw : Seed → V) :
    Env Unit Call Seed G E V where
  user := user
  draws := fun _ c seed => post c ((trace c).toOption.map (interp prim seed none))
  gseed := gseed
  gnext := gnext
  entropy := entropy
  rdraw := rdraw

end Toq.Rand
