import Toq.Core.Idx
import Toq.Core.Scalar
import Toq.Model.Games
/-!
# Mirror model of the see-saw heuristic of `toqito/nonlocal_games/nonlocal_game.py` (core Lean only, no Mathlib)

`NonlocalGame.quantum_value_lower_bound(dim, iters, tol)` alternates between two semidefinite programs built by the private
methods `__optimize_alice(dim, bob_povms)` and `__optimize_bob(dim, alice_povms)`.  This file models the PROGRAMS
(objective expression and constraint list, as data) over exact complex rationals `QI = ℚ[i]`, and the OUTER LOOP as a
function of the values the solver returns (the solver itself is an input).

Matrices are total functions `Nat → Nat → QI` with the size `d = dim` passed explicitly; operator families are indexed
`A x a` = `alice_povms[x, a]` (question, answer) and `B y b` = `bob_povms[y, b]`.  `prob x y = prob_mat[x, y]`,
`pred a b x y = pred_mat[a, b, x, y]` (real numbers: `Rat`).

* `aliceObjective` / `bobObjective` — `cvxpy.real(win)` of the two builders (`win` accumulated in the code's loop order
  `x, y, a, b`);
* `Constr`, `aliceConstraints`, `bobConstraints` — the constraint lists in the order appended; `Constr.holdsEq` evaluates
  the equality constraints at an exact point (`>> 0` constraints are evaluated by cvxpy on the Python side);
* `detAlice`, `detBob` — the point a deterministic strategy `(f, g)` defines in both programs;
* `innerLoop`, `seesawLoop` — the `while it_diff > tol` loop and the `for _ in range(iters)` loop.
-/

namespace Toq.Seesaw
open Toq.Games

/-- a `dim × dim` complex matrix -/
abbrev CMat := Nat → Nat → QI
/-- operators indexed by (question, answer) -/
abbrev Fam := Nat → Nat → CMat

/-- `M.conj()` -/
def conjM (M : CMat) : CMat := fun i j => (M i j).conj
/-- `M.T` -/
def transposeM (M : CMat) : CMat := fun i j => M j i
/-- `M.H` (cvxpy) : conjugate transpose in one step -/
def ctrans (M : CMat) : CMat := fun i j => (M j i).conj
/-- `M @ N` for `d × d` matrices -/
def mmul (d : Nat) (M N : CMat) : CMat := fun i j => sumN d (fun k => M i k * N k j)
/-- `trace(M)` -/
def trace (d : Nat) (M : CMat) : QI := sumN d (fun i => M i i)
/-- `np.identity(dim)` -/
def idM : CMat := fun i j => if i = j then 1 else 0
/-- the zero matrix (the start value `0` of `alice_sum_a`, `bob_sum_b`) -/
def zeroM : CMat := fun _ _ => 0
/-- entrywise sum -/
def addM (M N : CMat) : CMat := fun i j => M i j + N i j

/-- the accumulation
```
win = 0
for x in range(ai):
    for y in range(bi):
        for a in range(ao):
            for b in range(bo):
                win += term(x, y, a, b)
```
as one flat left fold in exactly this order (the accumulator is threaded through all four loops). -/
def loop4 (ai bi ao bo : Nat) (term : Nat → Nat → Nat → Nat → QI) : QI :=
  (List.range ai).foldl (fun w x =>
    (List.range bi).foldl (fun w y =>
      (List.range ao).foldl (fun w a =>
        (List.range bo).foldl (fun w b => w + term x y a b) w) w) w) 0

/-- what `bob_povms[y, b]` is when `__optimize_alice` looks at it: a NumPy array (first call of an inner loop: a slice of
    `random_povm`), a cvxpy `Variable` carrying a value (later calls: the dict returned by `__optimize_bob`), or anything else
    (for which neither `isinstance` test fires and nothing is added to `win`) -/
inductive BobEntry where
  | arr (M : CMat)
  | var (value : CMat)
  | other

/-- the summand of Alice's builder for one `(x, y, a, b)`:
```
if isinstance(bob_povms[y, b], np.ndarray):
    win += prob[x, y] * pred[a, b, x, y] * cvxpy.trace(bob_povms[y, b].conj().T @ alice_povms[x, a])
if isinstance(bob_povms[y, b], cvxpy.expressions.variable.Variable):
    win += prob[x, y] * pred[a, b, x, y] * cvxpy.trace(bob_povms[y, b].value.conj().T @ alice_povms[x, a])
```
(`prob * pred` is a float product, then the scalar multiplies the trace expression). -/
def aliceTerm (d : Nat) (prob : Prob) (pred : Pred) (A : Fam) (B : Nat → Nat → BobEntry) (x y a b : Nat) : QI :=
  match B y b with
  | .arr M => QI.smul (prob x y * pred a b x y) (trace d (mmul d (transposeM (conjM M)) (A x a)))
  | .var M => QI.smul (prob x y * pred a b x y) (trace d (mmul d (transposeM (conjM M)) (A x a)))
  | .other => 0

/-- `cvxpy.real(win)` of `__optimize_alice` at the point `A` (Alice's variables) for the data `B` -/
def aliceObjective (d ao bo ai bi : Nat) (prob : Prob) (pred : Pred) (A : Fam) (B : Nat → Nat → BobEntry) : Rat :=
  (loop4 ai bi ao bo (aliceTerm d prob pred A B)).re

/-- the summand of Bob's builder:
    `prob[x, y] * pred[a, b, x, y] * cvxpy.trace(bob_povms[y, b].H @ alice_povms[x, a].value)` -/
def bobTerm (d : Nat) (prob : Prob) (pred : Pred) (A B : Fam) (x y a b : Nat) : QI :=
  QI.smul (prob x y * pred a b x y) (trace d (mmul d (ctrans (B y b)) (A x a)))

/-- `cvxpy.real(win)` of `__optimize_bob` at the point `B` (Bob's variables) for the data `A` (values of Alice's variables) -/
def bobObjective (d ao bo ai bi : Nat) (prob : Prob) (pred : Pred) (A B : Fam) : Rat :=
  (loop4 ai bi ao bo (bobTerm d prob pred A B)).re

/-- the bilinear form both programs maximise, as the mathematical expression
    `Σ_x Σ_y Σ_a Σ_b prob[x,y] · pred[a,b,x,y] · Re tr(B[y,b]ᴴ A[x,a])` -/
def seesawWin (d ao bo ai bi : Nat) (prob : Prob) (pred : Pred) (A B : Fam) : Rat :=
  sumN ai fun x => sumN bi fun y => sumN ao fun a => sumN bo fun b =>
    prob x y * pred a b x y * (trace d (mmul d (ctrans (B y b)) (A x a))).re

/-- Hilbert–Schmidt inner product, real part, entry by entry: `Re tr(Bᴴ A) = Σ_{i,j} (Re B_ij · Re A_ij + Im B_ij · Im A_ij)` -/
def hsRe (d : Nat) (B A : CMat) : Rat :=
  sumN d fun i => sumN d fun k => (B k i).re * (A k i).re + (B k i).im * (A k i).im

/-! ## the constraint lists -/

/-- one constraint of either program -/
inductive Constr where
  /-- `alice_povms[x, a] >> 0` -/
  | psdA (x a : Nat)
  /-- `alice_sum_a == tau` for question `x` (`alice_sum_a = 0; for a: alice_sum_a += alice_povms[x, a]`) -/
  | sumA (x : Nat)
  /-- `cvxpy.trace(tau) == 1` -/
  | trTau
  /-- `tau >> 0` -/
  | psdTau
  /-- `bob_povms[y, b] >> 0` -/
  | psdB (y b : Nat)
  /-- `bob_sum_b == np.identity(dim)` for question `y` -/
  | sumB (y : Nat)
deriving DecidableEq, Repr

/-- `__optimize_alice`:
```
for x in range(ai):
    for a in range(ao): constraints.append(alice_povms[x, a] >> 0)      (interleaved with the partial sums)
    constraints.append(alice_sum_a == tau)
constraints.append(cvxpy.trace(tau) == 1)
constraints.append(tau >> 0)
``` -/
def aliceConstraints (ao ai : Nat) : List Constr :=
  (List.range ai).flatMap (fun x => (List.range ao).map (fun a => Constr.psdA x a) ++ [Constr.sumA x])
    ++ [Constr.trTau, Constr.psdTau]

/-- `__optimize_bob`:
```
for y in range(bi):
    for b in range(bo): constraints.append(bob_povms[y, b] >> 0)
    constraints.append(bob_sum_b == np.identity(dim))
``` -/
def bobConstraints (bo bi : Nat) : List Constr :=
  (List.range bi).flatMap (fun y => (List.range bo).map (fun b => Constr.psdB y b) ++ [Constr.sumB y])

/-- a semidefinite (`>> 0`) constraint? -/
def Constr.isPsd : Constr → Bool
  | .psdA _ _ => true
  | .psdTau => true
  | .psdB _ _ => true
  | _ => false

/-- `Σ_{k < n} F k` of matrices, accumulated like `s = 0; for k: s += F[k]` -/
def sumM (n : Nat) (F : Nat → CMat) : CMat := fun i j => sumN n (fun k => F k i j)

/-- entrywise equality of two `d × d` matrices -/
def eqM (d : Nat) (M N : CMat) : Bool := allBelow d (fun i => allBelow d (fun j => decide (M i j = N i j)))

/-- `M = Mᴴ` on the `d × d` block: the domain of a `cvxpy.Variable((dim, dim), hermitian=True)` -/
def isHermM (d : Nat) (M : CMat) : Bool := eqM d M (ctrans M)

/-- the equality constraints evaluated exactly at the point `(A, tau)` resp. `B`; semidefinite constraints are not
    evaluated here (`true`) -/
def Constr.holdsEq (d ao bo : Nat) (A B : Fam) (tau : CMat) : Constr → Bool
  | .sumA x => eqM d (sumM ao (A x)) tau
  | .trTau => decide (trace d tau = 1)
  | .sumB y => eqM d (sumM bo (B y)) idM
  | _ => true

/-! ## the point of a deterministic strategy -/

/-- `A[x, a] = [a = f x] · tau` -/
def detAlice (f : Nat → Nat) (tau : CMat) : Fam := fun x a => if a = f x then tau else zeroM

/-- `B[y, b] = [b = g y] · I` -/
def detBob (g : Nat → Nat) : Fam := fun y b => if b = g y then idM else zeroM

/-! ## the loops of `quantum_value_lower_bound` -/

/-- `max(p, q)` where either may be `float("-inf")` (`none`) -/
def maxOpt : Option Rat → Option Rat → Option Rat
  | none, q => q
  | some p, none => some p
  | some p, some q => some (rmax p q)

/-- result of one inner loop: `best`, the number of (Alice solve, Bob solve) rounds executed, and whether the loop
    condition became false (`false`: the supplied values ran out while `it_diff > tol` still held) -/
structure InnerResult where
  best : Option Rat
  steps : Nat
  terminated : Bool
deriving DecidableEq, Repr

/-- the loop
```
while it_diff > tol:
    alice_povms, lower_bound = self.__optimize_alice(dim, bob_povms)
    bob_povms, lower_bound = self.__optimize_bob(dim, alice_povms)       # ← the value consumed here
    it_diff = lower_bound - prev_win
    prev_win = lower_bound
    best = max(best, lower_bound)
```
from the state `(it_diff, prev_win, best)`; `vals` are the values Bob's solves return, in order (its length is the fuel). -/
def innerGo (tol : Rat) : List Rat → Rat → Rat → Option Rat → InnerResult
  | [], itDiff, _, best => ⟨best, 0, decide (¬ itDiff > tol)⟩
  | lb :: rest, itDiff, prevWin, best =>
    if itDiff > tol then
      let r := innerGo tol rest (lb - prevWin) lb (maxNegInf best lb)
      ⟨r.best, r.steps + 1, r.terminated⟩
    else ⟨best, 0, true⟩

/-- one pass of the outer loop body: `it_diff = 1; prev_win = -1; best = float("-inf"); while …` -/
def innerLoop (tol : Rat) (vals : List Rat) : InnerResult := innerGo tol vals 1 (-1) none

/-- result of the whole method: the returned `best_lower_bound` (`none` = `-inf`), the number of rounds of every outer
    iteration, and whether every inner loop terminated within the supplied values -/
structure LoopResult where
  value : Option Rat
  steps : List Nat
  terminated : Bool
deriving DecidableEq, Repr

/-- ```
best_lower_bound = float("-inf")
for _ in range(iters):
    (inner loop → best)
    best_lower_bound = max(best, best_lower_bound)
return best_lower_bound
```
`vals i` are the Bob-step values of outer iteration `i`. -/
def seesawLoop (tol : Rat) (vals : Nat → List Rat) : Nat → LoopResult
  | 0 => ⟨none, [], true⟩
  | n + 1 =>
    let r := seesawLoop tol vals n
    let i := innerLoop tol (vals n)
    ⟨maxOpt i.best r.value, r.steps ++ [i.steps], r.terminated && i.terminated⟩

/-- number of calls of `problem.solve()` the method makes: two per round -/
def LoopResult.solves (r : LoopResult) : Nat := 2 * r.steps.sum

/-- the values actually consumed by the method: of each outer iteration the first `steps` ones -/
def consumed (tol : Rat) (vals : Nat → List Rat) : Nat → List Rat
  | 0 => []
  | n + 1 => consumed tol vals n ++ (vals n).take (innerLoop tol (vals n)).steps

end Toq.Seesaw
