import Toq.Core.Idx
/-!
# Mirror model of `toqito/nonlocal_games/nonlocal_game.py` (exact part) and
`toqito/helper/update_odometer.py` (core Lean only, no Mathlib)

Tensors are total functions of their indices over exact rationals (`Rat`); sizes are passed
explicitly.  The predicate tensor is `pred a b x y` = `pred_mat[a, b, x, y]` (Alice's answer, Bob's
answer, Alice's question, Bob's question) and `prob x y` = `prob_mat[x, y]`.

* `classicalValue`      — `NonlocalGame.classical_value` **as the code was before the fix** (with the bound
                          `num_iterations = num_alice_outputs ** num_bob_inputs`; kept as documentation);
* `classicalValueFixed` — the code as it is now: `num_iterations = num_bob_outputs ** num_bob_inputs`
                          (this is what the state machine `step` uses);
* `maxDetBrute`         — executable brute force over *all* pairs of deterministic answer functions;
* `updateOdometer`, `productPred`, `productProb` — the `reps` branch of the constructor;
* `bcsProb`, `bcsPred`  — `NonlocalGame.from_bcs_game`;
* `Game`, `Op`, `step`, `run` — the object as a state machine (value methods never write attributes).
-/

namespace Toq.Games

/-- predicate tensor `pred_mat[a, b, x, y]` -/
abbrev Pred := Nat → Nat → Nat → Nat → Rat
/-- question distribution `prob_mat[x, y]` -/
abbrev Prob := Nat → Nat → Rat

/-- `max` of two rationals, spelled out so that it does not depend on an instance -/
def rmax (a b : Rat) : Rat := if a ≤ b then b else a

/-- `max(p_win, tgval)` where `p_win` starts as `float("-inf")` (`none`) -/
def maxNegInf : Option Rat → Rat → Option Rat
  | none, t => some t
  | some p, t => some (rmax p t)

/-- `p_win = -inf; for i in range(n): p_win = max(p_win, f(i))` (also `max(tgvals)` of the pool branch) -/
def maxIter : Nat → (Nat → Rat) → Option Rat
  | 0, _ => none
  | n + 1, f => maxNegInf (maxIter n f) (f n)

/-- `np.amax` over the `m + 1` entries `f 0 … f m` (NumPy raises on an empty axis; callers guard) -/
def amax1 : Nat → (Nat → Rat) → Rat
  | 0, f => f 0
  | m + 1, f => rmax (amax1 m f) (f (m + 1))

/-- `np.transpose(t, (1, 0, 3, 2))` : `out[i0,i1,i2,i3] = t[i1,i0,i3,i2]` -/
def transpose1032 (t : Pred) : Pred := fun i0 i1 i2 i3 => t i1 i0 i3 i2

/-- `np.transpose(t, (0, 2, 1, 3))` : `out[i0,i1,i2,i3] = t[i0,i2,i1,i3]` -/
def transpose0213 (t : Pred) : Pred := fun i0 i1 i2 i3 => t i0 i2 i1 i3

/-- the scaled copy: `pred_mat_copy[:, :, x, y] = prob_mat[x, y] * pred_mat_copy[:, :, x, y]` -/
def scaleCopy (prob : Prob) (pred : Pred) : Pred := fun a b x y => prob x y * pred a b x y

/-- `NonlocalGame.process_iteration(i, num_bob_outputs, num_bob_inputs, pred_mat_copy,
    num_alice_outputs, num_alice_inputs)`; `t` is indexed `[a, x, b, y]` (after the `(0,2,1,3)` transpose).
```
number = i; base = num_bob_outputs; digits = num_bob_inputs
for j in range(digits - 1, -1, -1): number, remainder = divmod(number, base); b_ind[j] = remainder
pred_alice = zeros((num_alice_outputs, num_alice_inputs))
for y in range(num_bob_inputs): pred_alice += pred_mat_copy[:, :, int(b_ind[y]), y]
tgval = np.sum(np.amax(pred_alice, axis=0))
```
The `divmod` loop is exactly `dec` with constant radix (least significant digit last; whatever is left
of `number` after `digits` steps is discarded). -/
def processIteration (i nbo nbi : Nat) (t : Pred) (nao nai : Nat) : Rat :=
  let bInd : Nat → Nat := dec (fun _ => nbo) nbi i
  let predAlice : Nat → Nat → Rat := fun a x => sumN nbi (fun y => t a x (bInd y) y)
  sumN nai (fun x => amax1 (nao - 1) (fun a => predAlice a x))

/-- `classical_value`, with the iteration bound selectable:
    `fixed = false` is the code as it is (`num_alice_outputs ** num_bob_inputs`),
    `fixed = true` the repaired bound (`num_bob_outputs ** num_bob_inputs`).
```
pred_mat_copy = np.copy(self.pred_mat);  scale slice (x, y) by prob_mat[x, y]
if ao ** ai < bo ** bi:
    pred_mat_copy = np.transpose(pred_mat_copy, (1, 0, 3, 2)); (ao, bo, ai, bi) = pred_mat_copy.shape
pred_mat_copy = np.transpose(pred_mat_copy, (0, 2, 1, 3))
num_iterations = ao ** bi                      # ← the token in question
p_win = max over i < num_iterations of process_iteration(i, bo, bi, pred_mat_copy, ao, ai)
```
Result `none` is Python's `-inf` (no iteration at all). -/
def classicalValueGen (fixed : Bool) (ao bo ai bi : Nat) (prob : Prob) (pred : Pred) : Option Rat :=
  let predCopy := scaleCopy prob pred
  let sw : Bool := decide (ao ^ ai < bo ^ bi)
  let t1 := if sw then transpose1032 predCopy else predCopy
  let nao := if sw then bo else ao
  let nbo := if sw then ao else bo
  let nai := if sw then bi else ai
  let nbi := if sw then ai else bi
  let t2 := transpose0213 t1
  let numIterations := if fixed then nbo ^ nbi else nao ^ nbi
  maxIter numIterations (fun i => processIteration i nbo nbi t2 nao nai)

/-- mirror of `NonlocalGame.classical_value` as the code is -/
def classicalValue := classicalValueGen false

/-- `classical_value` with `num_iterations = num_bob_outputs ** num_bob_inputs` -/
def classicalValueFixed := classicalValueGen true

/-- the sizes for which the enumeration of the unchanged code is complete: after the role swap the
    iteration count `nao ^ nbi` reaches the number `nbo ^ nbi` of strategies of the enumerated player -/
def EnumComplete (ao bo ai bi : Nat) : Prop :=
  if ao ^ ai < bo ^ bi then ao ^ ai ≤ bo ^ ai else bo ^ bi ≤ ao ^ bi

instance (ao bo ai bi : Nat) : Decidable (EnumComplete ao bo ai bi) := by
  unfold EnumComplete; exact inferInstance

/-- winning probability of the deterministic strategy pair `(f, g)`, by loops -/
def detValueN (ai bi : Nat) (prob : Prob) (pred : Pred) (f g : Nat → Nat) : Rat :=
  sumN ai (fun x => sumN bi (fun y => prob x y * pred (f x) (g y) x y))

/-- executable brute force: the maximum of `detValueN` over **all** `ao^ai * bo^bi` pairs of answer
    functions (pair number `k` ↦ digits of `k / bo^bi` in base `ao`, digits of `k % bo^bi` in base `bo`) -/
def maxDetBrute (ao bo ai bi : Nat) (prob : Prob) (pred : Pred) : Option Rat :=
  maxIter (ao ^ ai * bo ^ bi) (fun k =>
    detValueN ai bi prob pred (dec (fun _ => ao) ai (k / bo ^ bi)) (dec (fun _ => bo) bi (k % bo ^ bi)))

/-! ## `update_odometer` and the `reps` branch of the constructor -/

/-- `v[k] = a` -/
def setAt (v : Nat → Nat) (k a : Nat) : Nat → Nat := fun m => if m = k then a else v m

/-- the carry loop `for j in range(ind_len, 0, -1)`; the first argument is `j`
```
if new_ind[j-1] >= upper_lim[j-1]:
    new_ind[j-1] = 0
    if j >= 2: new_ind[j-2] += 1
    else: return new_ind
else: return new_ind
``` -/
def odoLoop (lim : Nat → Nat) : Nat → (Nat → Nat) → (Nat → Nat)
  | 0, v => v
  | j + 1, v =>
    if v j ≥ lim j then
      let v1 := setAt v j 0
      if j + 1 ≥ 2 then odoLoop lim j (setAt v1 (j - 1) (v1 (j - 1) + 1)) else v1
    else v

/-- `update_odometer(old_ind, upper_lim)` for vectors of length `n` -/
def updateOdometer (n : Nat) (old lim : Nat → Nat) : Nat → Nat :=
  if n > 0 then odoLoop lim n (setAt old (n - 1) (old (n - 1) + 1)) else old

/-- the stored index vector (an ndarray holds values, not a recipe) after `i` calls of
    `update_odometer` starting from `np.zeros(n)` -/
def iterOdoL (n : Nat) (lim : Nat → Nat) : Nat → List Nat
  | 0 => List.replicate n 0
  | i + 1 =>
    let prev := iterOdoL n lim i
    listOfFn n (updateOdometer n (fnOfList prev) lim)

/-- entry `k` of the index vector after `i` odometer updates -/
def iterOdo (n : Nat) (lim : Nat → Nat) (i : Nat) : Nat → Nat := fnOfList (iterOdoL n lim i)

/-- `np.kron(A, B)` for `B` of shape `(r, c)` -/
def kron (r c : Nat) (A B : Nat → Nat → Rat) : Nat → Nat → Rat :=
  fun i j => A (i / r) (j / c) * B (i % r) (j % c)

/-- `tensor(to_tensor)` for the `m + 1` matrices `M 0 … M m`, each of shape `(r, c)`:
    `result = M[0]; for i in 1..m: result = np.kron(result, M[i])` (the 1- and 2-element cases of
    `tensor` are the same fold) -/
def kronChain (r c : Nat) (M : Nat → Nat → Nat → Rat) : Nat → (Nat → Nat → Rat)
  | 0 => M 0
  | m + 1 => kron r c (kronChain r c M m) (M (m + 1))

/-- `pred_mat2` of the `reps` branch.
```
i_ind = zeros(reps); j_ind = zeros(reps)
for i in range(ai ** reps):
    for j in range(bi ** reps):
        for k: to_tensor[k] = pred_mat[:, :, i_ind[k], j_ind[k]]
        pred_mat2[:, :, i, j] = tensor(to_tensor)
        j_ind = update_odometer(j_ind, bi * ones(reps))
    i_ind = update_odometer(i_ind, ai * ones(reps))
```
When entry `(i, j)` is written, `i_ind` has been updated `i` times and `j_ind` `i * bi**reps + j` times. -/
def productPred (ao bo ai bi reps : Nat) (pred : Pred) : Pred := fun a b i j =>
  let iInd := iterOdo reps (fun _ => ai) i
  let jInd := iterOdo reps (fun _ => bi) (i * bi ^ reps + j)
  kronChain ao bo (fun k a' b' => pred a' b' (iInd k) (jInd k)) (reps - 1) a b

/-- `fast_exp(matrix, q)` inside `tensor(matrix, q)` for a matrix of shape `(r, c)`:
```
if q == 1: return matrix
tmp = fast_exp(matrix, q >> 1); tmp = np.kron(tmp, tmp)
if q & 1: tmp = np.kron(matrix, tmp)
return tmp
```
(`q ≤ 1` instead of `q == 1` only to make the recursion total; `tensor` never calls it with 0) -/
def fastExp (r c : Nat) (M : Nat → Nat → Rat) (q : Nat) : Nat → Nat → Rat :=
  if _h : q ≤ 1 then M
  else
    let tmp := fastExp r c M (q / 2)
    let tmp2 := kron (r ^ (q / 2)) (c ^ (q / 2)) tmp tmp
    if q % 2 = 1 then kron (r ^ (2 * (q / 2))) (c ^ (2 * (q / 2))) M tmp2 else tmp2
termination_by q
decreasing_by omega

/-- `self.prob_mat = tensor(prob_mat, reps)` -/
def productProb (ai bi reps : Nat) (prob : Prob) : Prob := fastExp ai bi prob reps

/-! ## `from_bcs_game`

A constraint is a tensor of shape `(2,)*n`; `c j s` is entry `s` of constraint `j` in C order, i.e.
`constraints[j][bits]` with `s = enc 2 bits` (first variable most significant). -/

/-- `np.binary_repr(a, n)[y]` : bit `y` of `a`, most significant first -/
def bit (n a y : Nat) : Nat := dec (fun _ => 2) n a y

/-- `np.diff(constraints[j], axis=i).any()` : some assignment with variable `i` = 0 changes the
    constraint value when variable `i` is set to 1 -/
def bcsDepends (n : Nat) (c : Nat → Nat → Int) (j i : Nat) : Bool :=
  anyBelow (2 ^ n) (fun s => bit n s i == 0 && c j (s + 2 ^ (n - 1 - i)) - c j s != 0)

/-- `prob_mat[j] = (1 / num_constraints) * (dependent_variables[j] / dependent_variables[j].sum())` -/
def bcsProb (m n : Nat) (c : Nat → Nat → Int) : Prob := fun j i =>
  let dep : Nat → Rat := fun i' => if bcsDepends n c j i' then 1 else 0
  (1 / (m : Rat)) * (dep i / sumN n dep)

/-- `pred_mat[a, b, x, y]` of shape `(2**n, 2, m, n)`: zero except that for every constraint `x`,
    every assignment `a` (in binary) with `constraints[x][bits a] == 1` and every variable `y` the
    entry with `b = bit y of a` is set to 1 -/
def bcsPred (n : Nat) (c : Nat → Nat → Int) : Pred := fun a b x y =>
  let truth : Nat → Nat := fun k => bit n a k
  if b = truth y ∧ c x (enc (fun _ => 2) truth n) = 1 then 1 else 0

/-! ## the object as a state machine -/

/-- the attributes of a `NonlocalGame` object (sizes included so that the record is self-contained) -/
structure Game where
  ao : Nat
  bo : Nat
  ai : Nat
  bi : Nat
  prob : Prob
  pred : Pred
  reps : Nat

/-- NPA level argument of `commuting_measurement_value_upper_bound` -/
inductive Level where
  | one | onePlusAB | two
deriving DecidableEq, Repr

/-- the value methods; the see-saw heuristic also consumes PRNG draws, which are an input (`seed`) -/
inductive Op where
  | classical
  | quantumLB (dim iters seed : Nat)
  | nonsignaling
  | npa (k : Level)
deriving DecidableEq, Repr

/-- One method call.  The three SDP-based methods are not computed here: their return value is an
    arbitrary function `sdp` of the attributes read and of the arguments (what they are *bounded by*
    is the business of the certificate part).  No method assigns to an attribute.
    `classical_value` is the code as it is **since the fix** of the iteration bound
    (`num_bob_outputs ** num_bob_inputs`, mirror `classicalValueFixed`); the mirror of the earlier code,
    `classicalValue`, and its counterexample are kept as the record of the regression the check must catch. -/
def step (sdp : Game → Op → Option Rat) (g : Game) (op : Op) : Game × Option Rat :=
  match op with
  | .classical => (g, classicalValueFixed g.ao g.bo g.ai g.bi g.prob g.pred)
  | op => (g, sdp g op)

/-- a history under an arbitrary method semantics `st`: the final object and the returned values -/
def runWith (st : Game → Op → Game × Option Rat) (g : Game) : List Op → Game × List (Option Rat)
  | [] => (g, [])
  | op :: rest =>
    let r := st g op
    let rr := runWith st r.1 rest
    (rr.1, r.2 :: rr.2)

/-- a history of calls of the value methods on one object -/
def run (sdp : Game → Op → Option Rat) (g : Game) (ops : List Op) : Game × List (Option Rat) :=
  runWith (step sdp) g ops

end Toq.Games
