import Toq.Model.Perms
/-!
# Model of `toqito/rand/*.py`: seeding discipline and index-level post-processing (no Mathlib)

What a model can say about the random generators (scheme C of DESIGN.md):

1. **Seeding discipline.**  Every generator starts with `gen = np.random.default_rng(seed=seed)` and draws only
   from `gen`.  So a *seeded* call is a function of (generator, arguments, seed) alone; an *unseeded* call
   (`seed=None`) pulls a fresh seed from the operating system's entropy pool; neither reads nor writes NumPy's
   *global* generator (`np.random.seed`, `np.random.rand`).  The state machine below has the global generator state and
   the entropy pool as opaque tokens.  The PCG64 bit stream itself is *not* modelled: it is the parameter `draws`.
   What each function draws (constructions, methods, shapes, in program order, per option combination and `dim` form) is
   `Toq/Model/RandDraws.lean` (`trace`), which also refines `Env.draws` (`envOfPrim`).
2. **Post-processing** that is matrix algebra on the draws / LAPACK factors, executable on exact numbers:
   `Toq/Model/RandPost.lean` (density, Bures factor as written, `Uᴴ G` relation of `random_unitary`, `random_psd_operator`,
   `random_povm` cores, PGM elements, `measure` with its branch logic).
3. **Post-processing** that is index manipulation: the Schmidt-rank construction of `random_state_vector`
   (`kron`, `swap`, contraction with the unnormalised maximally entangled vector) and the axis layout of
   `random_povm`.  Post-processing that is matrix algebra over ℂ is specified in `Toq/Spec/Rand.lean`.
-/

namespace Toq.Rand

/-! ## 1. The seeding discipline as a state machine -/

/-- one step of a call history; `Gen` names the generator function, `Args` its non-seed arguments -/
inductive Op (Gen Args : Type) where
  /-- `gen(*args, seed=s)` -/
  | seeded (g : Gen) (a : Args) (s : Nat)
  /-- `gen(*args)` (seed `None`) -/
  | unseeded (g : Gen) (a : Args)
  /-- `np.random.seed(s)` -/
  | npSeed (s : Nat)
  /-- `np.random.rand()` -/
  | globalDraw
  /-- `np.random.default_rng(s).random()` -/
  | rngDraw (s : Nat)
  /-- `np.random.default_rng().random()` -/
  | rngDrawFresh
deriving Repr

/-- Everything the model does *not* know about NumPy: the streams.
`Seed` is what a private generator is constructed from (a user seed or OS entropy). -/
structure Env (Gen Args Seed G E V : Type) where
  /-- a user-supplied seed -/
  user : Nat → Seed
  /-- the object returned by generator `g` on arguments `a` when its private generator is `default_rng(seed)`:
      raw draws in program order followed by the post-processing -/
  draws : Gen → Args → Seed → V
  /-- global state after `np.random.seed(s)` -/
  gseed : Nat → G
  /-- `np.random.rand()`: new global state and the value -/
  gnext : G → G × V
  /-- `SeedSequence()` without argument: new entropy-pool state and the fresh seed -/
  entropy : E → E × Seed
  /-- `default_rng(seed).random()` -/
  rdraw : Seed → V

/-- the part of the world a call can touch -/
structure World (G E : Type) where
  glob : G
  ent : E

variable {Gen Args Seed G E V : Type}

/-- the discipline the code follows (checked against the real code by the history correspondence) -/
def step (env : Env Gen Args Seed G E V) (w : World G E) : Op Gen Args → World G E × Option V
  | .seeded g a s => (w, some (env.draws g a (env.user s)))
  | .unseeded g a =>
      let (e', sd) := env.entropy w.ent
      ({ w with ent := e' }, some (env.draws g a sd))
  | .npSeed s => ({ w with glob := env.gseed s }, none)
  | .globalDraw =>
      let (g', v) := env.gnext w.glob
      ({ w with glob := g' }, some v)
  | .rngDraw s => (w, some (env.rdraw (env.user s)))
  | .rngDrawFresh =>
      let (e', sd) := env.entropy w.ent
      ({ w with ent := e' }, some (env.rdraw sd))

/-- run a history; outputs in program order -/
def run (env : Env Gen Args Seed G E V) (w : World G E) : List (Op Gen Args) → World G E × List (Option V)
  | [] => (w, [])
  | op :: rest =>
      let (w1, o) := step env w op
      let (w2, os) := run env w1 rest
      (w2, o :: os)

/-- is the operation a seeded toqito call? -/
def Op.isSeeded : Op Gen Args → Bool
  | .seeded _ _ _ => true
  | _ => false

/-- does the operation belong to the global generator (`np.random.seed`, `np.random.rand`)? -/
def Op.isGlobal : Op Gen Args → Bool
  | .npSeed _ => true
  | .globalDraw => true
  | _ => false

/-- outputs of a history restricted to the operations satisfying `p` -/
def outputsWhere (p : Op Gen Args → Bool) : List (Op Gen Args) → List (Option V) → List (Option V)
  | op :: ops, o :: os => if p op then o :: outputsWhere p ops os else outputsWhere p ops os
  | _, _ => []

/-! ### Symbolic instance run by the driver

Values are labels recording *what they may depend on*; two outputs of a real history must be bitwise equal exactly when
their labels are equal (equal labels ⇒ equal values is what the discipline promises; different labels ⇒ different values
is the "different seeds give different objects" clause, checked but not provable). -/

/-- where a private generator's seed came from -/
inductive SymSeed where
  | user (s : Nat)
  | os (n : Nat)
deriving DecidableEq, Repr

/-- symbolic global state: last `np.random.seed` argument (if any) and number of draws since -/
structure SymG where
  last : Option Nat
  count : Nat
deriving DecidableEq, Repr

inductive Sym where
  | gen (g a : Nat) (s : SymSeed)
  | glob (st : SymG)
  | rng (s : SymSeed)
deriving DecidableEq, Repr

def symEnv : Env Nat Nat SymSeed SymG Nat Sym where
  user := .user
  draws := fun g a s => .gen g a s
  gseed := fun s => ⟨some s, 0⟩
  gnext := fun st => (⟨st.last, st.count + 1⟩, .glob st)
  entropy := fun n => (n + 1, .os n)
  rdraw := .rng

def symWorld0 : World SymG Nat := ⟨⟨none, 0⟩, 0⟩

/-- index of the first earlier-or-equal output with the same label (`none` for operations without output) -/
def classIds (outs : List (Option Sym)) : List (Option Nat) :=
  outs.map fun o => match o with
    | none => none
    | some v => some (outs.findIdx (· == some v))

/-! ## 2. `random_state_vector`, branch `0 < k_param < min(dim)`

```
psi = max_entangled(k_param, True, False).toarray()
a_param, b_param : columns of length dim[0]*k_param, dim[1]*k_param
mat_1 = np.kron(psi.conj().T, np.identity(int(np.prod(dim))))
mat_2 = swap(np.kron(a_param, b_param), sys=[2, 3], dim=[k_param, dim[0], k_param, dim[1]])
ret_vec = mat_1 @ mat_2        # then divided by its norm
```
-/

/-- `max_entangled(k, _, False)`: `Σ_j e_j ⊗ e_j` -/
def maxEnt [Zero α] [One α] (k : Nat) : Nat → α := fun c => if c / k = c % k ∧ c < k * k then 1 else 0

/-- `np.kron(a, b)` of two column vectors, `b` of length `nb` -/
def kronCol [Mul α] (a b : Nat → α) (nb : Nat) : Nat → α := fun i => a (i / nb) * b (i % nb)

/-- dims `[k, d0, k, d1]` -/
def svDims (k d0 d1 : Nat) : Nat → Nat := fun m => if m = 0 then k else if m = 1 then d0 else if m = 2 then k else d1

/-- `mat_2` -/
def svMat2 [Mul α] (k d0 d1 : Nat) (a b : Nat → α) : Nat → α :=
  Toq.Perms.permuteVec (kronCol a b (k * d1)) 4 (Toq.Perms.swapPerm 1 2) (svDims k d0 d1) false

/-- `mat_1[r, m] = psi[m / D] * I[r, m % D]` with `D = d0*d1` (psi is real: `conj` is the identity on it) -/
def svMat1 [Zero α] [One α] [Mul α] (k D : Nat) : Nat → Nat → α :=
  fun r m => maxEnt k (m / D) * (if r = m % D then 1 else 0)

/-- `ret_vec = mat_1 @ mat_2` before normalisation -/
def svRaw [Zero α] [One α] [Mul α] [Add α] (k d0 d1 : Nat) (a b : Nat → α) : Nat → α :=
  fun r => sumN (k * k * (d0 * d1)) (fun m => svMat1 k (d0 * d1) r m * svMat2 k d0 d1 a b m)

/-- the closed form: amplitude matrix `M[s,t] = Σ_{j<k} a[j*d0+s] * b[j*d1+t]`, i.e. `M = Aᵀ B` with `A : k×d0`, `B : k×d1` -/
def svAmp [Zero α] [Mul α] [Add α] (k d0 d1 : Nat) (a b : Nat → α) : Nat → Nat → α :=
  fun s t => sumN k (fun j => a (j * d0 + s) * b (j * d1 + t))

/-! ## 3. `random_povm`: axis layout

`povms` is built with axes `(input, output, row, col)` and returned after `swapaxes(0,2)`, `swapaxes(1,3)`. -/

/-- `np.swapaxes(np.swapaxes(P, 0, 2), 1, 3)[r, c, x, y] = P[x, y, r, c]` -/
def povmLayout (P : Nat → Nat → Nat → Nat → α) : Nat → Nat → Nat → Nat → α :=
  let P1 : Nat → Nat → Nat → Nat → α := fun i0 i1 i2 i3 => P i2 i1 i0 i3   -- swapaxes(0,2)
  fun i0 i1 i2 i3 => P1 i0 i3 i2 i1                                          -- swapaxes(1,3)

end Toq.Rand
