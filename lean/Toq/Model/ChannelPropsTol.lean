import Toq.Model.ChannelProps
/-!
# The tolerance arithmetic of the channel predicates, mirrored exactly  — executable, no Mathlib

toqito's predicates end in one of three tests (`toqito/matrix_props`):

* `is_identity(mat, rtol, atol)`  = `np.allclose(mat, np.eye(n), rtol, atol)`      (`is_trace_preserving`, `is_unital`)
* `is_hermitian(mat, rtol, atol)` = `np.allclose(mat, mat.conj().T, rtol, atol)`   (`is_herm_preserving`, first half of
  `is_positive_semidefinite`)
* `all(x >= -abs(atol) for x in eigh(mat)[0])`                                     (second half of `is_positive_semidefinite`)

`np.allclose(a, b, rtol, atol)` is `|a - b| ≤ atol + rtol·|b|` in every entry (complex moduli).  On exact complex
rationals this is decidable by two squarings (`closeQ`, meaning: `Toq.C06.closeQ_iff`), so the first two tests have an exact
two-valued mirror for *every* tolerance pair, not only a verdict with a margin.  The eigenvalue test is mirrored through
certificates (`psdTolV`): `J + c·1 ⪰ 0` certified for some `c ≤ |atol|` means every eigenvalue is `≥ -|atol|`; a vector with
`vᴴJv ≤ -μ·vᴴv`, `μ > |atol|`, means some eigenvalue is `< -|atol|` (`Toq.C06.psdTolV_yes_imp`, `psdTolV_no_imp`).
-/
namespace Toq.ChannelProps

/-- `|a|²` -/
def nsq (a : QI) : Rat := a.re * a.re + a.im * a.im

/-- `np.isclose(a, b, rtol, atol)` on exact complex rationals, `rtol, atol ≥ 0`:  `|a - b| ≤ atol + rtol·|b|`.
    With `δ = |a-b|`, `β = |b|`: `δ ≤ atol + rtol·β ⇔ δ² - atol² - rtol²β² ≤ 2·atol·rtol·β`; the right side is
    non-negative, so the inequality holds when the left side is `≤ 0`, and otherwise iff it holds after squaring. -/
def closeQ (rtol atol : Rat) (a b : QI) : Bool :=
  let lhs := nsq (a - b) - atol * atol - rtol * rtol * nsq b
  decide (lhs ≤ 0) || decide (lhs * lhs ≤ 4 * (atol * atol) * (rtol * rtol) * nsq b)

/-- `np.allclose(A, B, rtol, atol)` -/
def allcloseQ {n m : Nat} (rtol atol : Rat) (A B : EMat n m) : Bool :=
  EMat.allFin n fun i => EMat.allFin m fun j => closeQ rtol atol (A.get i j) (B.get i j)

section Choi
variable {di dO : Nat}

/-- `is_herm_preserving(J, rtol, atol)` on a (square) Choi matrix: `np.allclose(J, J.conj().T, rtol, atol)` -/
def hpClose (rtol atol : Rat) (J : EMat (di * dO) (di * dO)) : Bool := allcloseQ rtol atol J J.ct

/-- `is_trace_preserving(J, rtol, atol, dim=[di, dO])`: `is_identity(partial_trace(J, [1], dim), rtol, atol)` -/
def tpClose (rtol atol : Rat) (J : EMat (di * dO) (di * dO)) : Bool := allcloseQ rtol atol (ptraceOut J) EMat.one

/-- `is_unital(J, rtol, atol, dim)`: `is_identity(apply_channel(identity(di), J), rtol, atol)`, where the applied output
    is `Tr_in J` -/
def unitalClose (rtol atol : Rat) (J : EMat (di * dO) (di * dO)) : Bool := allcloseQ rtol atol (ptraceIn J) EMat.one

end Choi

/-- `is_trace_preserving([[A_1, B_1], …], rtol, atol)`: `is_identity(k_l.conj().T @ k_r)` with the stacked operators,
    i.e. of `Σ_k A_kᴴ B_k` -/
def tpPairsClose (rtol atol : Rat) (as bs : List (Toq.ChannelOps.Mat QI)) (di : Nat) : Bool :=
  allcloseQ rtol atol (sumAdjMul as bs di) (EMat.one : EMat di di)

def absQ (x : Rat) : Rat := if x < 0 then -x else x

/-- `is_positive_semidefinite(J, rtol, atol)` through certificates.  `no` when the Hermiticity test fails; when `J` is
    exactly Hermitian: `yes` with a factor `L` and a shift `0 ≤ c ≤ |atol|` such that `J + c·1 - L Lᴴ` is diagonally dominant,
    `no` with a vector `v` and `μ > |atol|` such that `vᴴJv ≤ -μ·vᴴv`; `unknown` otherwise (in particular for matrices that
    pass the Hermiticity test without being Hermitian: `eigh` then reads one triangle only, which is not modelled). -/
def psdTolV {n k : Nat} (rtol atol : Rat) (J : EMat n n) (L : Option (EMat n k)) (c : Rat) (v : Option (EMat n 1)) (μ : Rat) :
    Verdict :=
  if !allcloseQ rtol atol J J.ct then .no
  else if !J.isHermitian then .unknown
  else if (match L with | some L => decide (0 ≤ c) && decide (c ≤ absQ atol) && psdYes (J + EMat.scalar c) L | none => false) then .yes
  else if (match v with | some v => decide (absQ atol < μ) && negWitness J v μ | none => false) then .no
  else .unknown

end Toq.ChannelProps
