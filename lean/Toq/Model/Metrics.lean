import Toq.Core.EMat
/-!
# Certificate checkers and exact evaluators for state distance measures (C13) — executable, no Mathlib

Trace norm of a Hermitian `H` (toqito: `trace_norm`, `trace_distance = ‖ρ − σ‖₁ / 2`,
`helstrom_holevo = 1/2 + ‖ρ − σ‖₁ / 4`):

* max form: `‖H‖₁ = max { Re tr(W H) : −1 ⪯ W ⪯ 1 }`   (lower bounds, `checkTNLower`);
* min form: `‖H‖₁ = min { tr P + tr Q : H = P − Q, P, Q ⪰ 0 }`   (upper bounds, `checkTNUpper`).

Root fidelity `F(ρ, σ) = ‖√ρ √σ‖₁` (toqito: `fidelity`; Watrous' semidefinite program):

* primal: maximise `Re tr X` subject to `[[ρ, X], [Xᴴ, σ]] ⪰ 0`   (`checkFidPrimal`, `checkFidPrimalCong`);
* dual:   minimise `(tr(Y ρ) + tr(Z σ)) / 2` subject to `[[Y, −1], [−1, Z]] ⪰ 0`   (`checkFidDual`).

Matsumoto fidelity `tr(ρ # σ)` (toqito: `matsumoto_fidelity`): the primal restricted to Hermitian `X`
(`checkMatsPrimal`); its dual has the off-diagonal block `C` with `C + Cᴴ = −2` (`checkMatsDual`).

A checker takes a candidate point together with PSD witnesses (`EMat.psdCert`, or the congruence form
`psdCertCong`, which also works for singular matrices) and returns the exact rational objective value if
every constraint is verified exactly, `none` otherwise.

Exactly computable quantities: `hsDist`, `hsInner`, `trProd`, `trProd4`, `subFidRad`.

Commuting pairs: exact evaluators on the spectra (`classTD`, `classHS`, `classTrProd`, …) and square-root certificates
for the classical fidelity (`checkClassFidLower/Upper`); rounding of the Bures functions (`roundDec`); the decision
logic of the argument guards (`densityGuard`, `guardShapeFirst`, `guardDensityFirst`).
-/

namespace Toq.Metrics
open EMat

variable {n k r r' : Nat}

/-! ## Building blocks -/

/-- the `2n × 2n` matrix `[[A, B], [C, D]]` -/
def block (A B C D : EMat n n) : EMat (n + n) (n + n) :=
  ofFn fun i j =>
    if hi : i.val < n then
      if hj : j.val < n then A.get ⟨i.val, hi⟩ ⟨j.val, hj⟩
      else B.get ⟨i.val, hi⟩ ⟨j.val - n, by omega⟩
    else
      if hj : j.val < n then C.get ⟨i.val - n, by omega⟩ ⟨j.val, hj⟩
      else D.get ⟨i.val - n, by omega⟩ ⟨j.val - n, by omega⟩

/-- PSD certificate by congruence: `A = B M Bᴴ` exactly and `M` carries the PSD witness `L`.
    (Unlike `psdCert` this can certify singular `A`: `B` need not be square.) -/
def psdCertCong (A : EMat n n) (B : EMat n k) (M : EMat k k) (L : EMat k r) : Bool :=
  A.beq ((B.mul M).mul B.ct) && psdCert M L

/-! ## Trace norm -/

/-- `1 − W` and `1 + W` carry the PSD witnesses `L1`, `L2` (so `W` is Hermitian with spectrum in `[−1, 1]`) -/
def contractionOk (W : EMat n n) (L1 : EMat n r) (L2 : EMat n r') : Bool :=
  psdCert (one - W) L1 && psdCert (one + W) L2

/-- `some (Re tr(W H))` iff `H` is Hermitian and `W` is a certified contraction -/
def checkTNLower (H W : EMat n n) (L1 : EMat n r) (L2 : EMat n r') : Option Rat :=
  if H.isHermitian && contractionOk W L1 L2 then some (W.mul H).trace.re else none

/-- `some (Re tr P + Re tr Q)` iff `H = P − Q` entrywise exactly and `P`, `Q` carry PSD witnesses -/
def checkTNUpper (H P Q : EMat n n) (LP : EMat n r) (LQ : EMat n r') : Option Rat :=
  if H.beq (P - Q) && psdCert P LP && psdCert Q LQ then some (P.trace.re + Q.trace.re) else none

/-! ## Fidelity (Watrous' semidefinite program) -/

/-- `[[ρ, X], [Xᴴ, σ]]` -/
def fidBlock (ρ σ X : EMat n n) : EMat (n + n) (n + n) := block ρ X X.ct σ

/-- `[[Y, C], [Cᴴ, Z]]` -/
def dualBlock (Y Z C : EMat n n) : EMat (n + n) (n + n) := block Y C C.ct Z

/-- `(Re tr(Y ρ) + Re tr(Z σ)) / 2` -/
def dualValue (ρ σ Y Z : EMat n n) : Rat := ((Y.mul ρ).trace.re + (Z.mul σ).trace.re) / 2

/-- `some (Re tr X)` iff `[[ρ, X], [Xᴴ, σ]]` carries the PSD witness `L` -/
def checkFidPrimal (ρ σ X : EMat n n) (L : EMat (n + n) r) : Option Rat :=
  if psdCert (fidBlock ρ σ X) L then some X.trace.re else none

/-- `some (Re tr X)` iff `[[ρ, X], [Xᴴ, σ]] = B M Bᴴ` exactly with `M` carrying the PSD witness `L`
    (for rank-deficient `ρ`, `σ`, where the block matrix has no strictly positive margin) -/
def checkFidPrimalCong (ρ σ X : EMat n n) (B : EMat (n + n) k) (M : EMat k k) (L : EMat k r) : Option Rat :=
  if psdCertCong (fidBlock ρ σ X) B M L then some X.trace.re else none

/-- `some ((Re tr(Yρ) + Re tr(Zσ)) / 2)` iff `[[Y, −1], [−1, Z]]` carries the PSD witness `L` -/
def checkFidDual (ρ σ Y Z : EMat n n) (L : EMat (n + n) r) : Option Rat :=
  if psdCert (dualBlock Y Z (-one)) L then some (dualValue ρ σ Y Z) else none

/-! ## Matsumoto fidelity -/

/-- the fidelity primal with the additional constraint `W = Wᴴ` -/
def checkMatsPrimal (ρ σ W : EMat n n) (L : EMat (n + n) r) : Option Rat :=
  if W.isHermitian then checkFidPrimal ρ σ W L else none

/-- `C + Cᴴ = −2` entrywise -/
def offDiagOk (C : EMat n n) : Bool := (C + C.ct).beq (scalar (-2))

/-- `some ((Re tr(Yρ) + Re tr(Zσ)) / 2)` iff `C + Cᴴ = −2` and `[[Y, C], [Cᴴ, Z]]` carries the PSD witness `L` -/
def checkMatsDual (ρ σ Y Z C : EMat n n) (L : EMat (n + n) r) : Option Rat :=
  if offDiagOk C && psdCert (dualBlock Y Z C) L then some (dualValue ρ σ Y Z) else none

/-! ## Exactly computable quantities -/

/-- `Re tr((ρ − σ)²)`: the Hilbert–Schmidt distance as documented by toqito (squared Frobenius norm) -/
def hsDist (ρ σ : EMat n n) : Rat := ((ρ - σ).mul (ρ - σ)).trace.re

/-- `tr(Aᴴ B)`: Hilbert–Schmidt inner product -/
def hsInner (A B : EMat n k) : QI := (A.ct.mul B).trace

/-- `Re tr(ρ σ)` (for a pure `ρ = |ψ⟩⟨ψ|` this is the overlap `⟨ψ|σ|ψ⟩ = F²`) -/
def trProd (ρ σ : EMat n n) : Rat := (ρ.mul σ).trace.re

/-- `Re tr(ρ σ ρ σ)` -/
def trProd4 (ρ σ : EMat n n) : Rat := ((ρ.mul σ).mul (ρ.mul σ)).trace.re

/-- `2 [(tr ρσ)² − tr(ρσρσ)]`: the sub-fidelity is `E = trProd + √subFidRad` -/
def subFidRad (ρ σ : EMat n n) : Rat := 2 * (trProd ρ σ * trProd ρ σ - trProd4 ρ σ)

/-! ## Commuting (classical) case: exact evaluators on the spectra

For a commuting pair `ρ = U diag(p) Uᴴ`, `σ = U diag(q) Uᴴ` every measure is a function of the spectra
`p, q : Fin n → Rat` (theorems `traceDist_commuting`, `fid_commuting`, … in `Properties/C13.lean`):
`T = ½ Σ|p_i − q_i|`, `F = Σ √(p_i q_i)`, `tr((ρ−σ)²) = Σ (p_i − q_i)²`, `tr(ρσ) = Σ p_i q_i`, `tr(ρσρσ) = Σ p_i² q_i²`.
The irrational `F` is enclosed by certificates `s` with `s_i² ≤ p_i q_i` (lower) or `p_i q_i ≤ s_i²` (upper). -/

def absQ (x : Rat) : Rat := if x < 0 then -x else x

/-- probability vector: non-negative entries summing to one -/
def isProb (p : Fin n → Rat) : Bool := allFin n (fun i => decide (0 ≤ p i)) && decide (sumFinQ n p = 1)

/-- `½ Σ |p_i − q_i|` -/
def classTD (p q : Fin n → Rat) : Rat := sumFinQ n (fun i => absQ (p i - q i)) / 2

/-- `Σ (p_i − q_i)²` -/
def classHS (p q : Fin n → Rat) : Rat := sumFinQ n fun i => (p i - q i) * (p i - q i)

/-- `Σ p_i q_i` -/
def classTrProd (p q : Fin n → Rat) : Rat := sumFinQ n fun i => p i * q i

/-- `Σ (p_i q_i)²` -/
def classTrProd4 (p q : Fin n → Rat) : Rat := sumFinQ n fun i => p i * q i * (p i * q i)

/-- radicand of the sub-fidelity, `2 [(Σ p_i q_i)² − Σ (p_i q_i)²]` -/
def classSubFidRad (p q : Fin n → Rat) : Rat := 2 * (classTrProd p q * classTrProd p q - classTrProd4 p q)

/-- `some (Σ s_i)` iff `0 ≤ s_i` and `s_i² ≤ p_i q_i` for all `i` (then `Σ s_i ≤ Σ √(p_i q_i)`) -/
def checkClassFidLower (p q s : Fin n → Rat) : Option Rat :=
  if allFin n (fun i => decide (0 ≤ s i) && decide (s i * s i ≤ p i * q i)) then some (sumFinQ n s) else none

/-- `some (Σ s_i)` iff `0 ≤ s_i` and `p_i q_i ≤ s_i²` for all `i` (then `Σ √(p_i q_i) ≤ Σ s_i`) -/
def checkClassFidUpper (p q s : Fin n → Rat) : Option Rat :=
  if allFin n (fun i => decide (0 ≤ s i) && decide (p i * q i ≤ s i * s i)) then some (sumFinQ n s) else none

/-! ## Rounding to `decimals` places (`bures_distance`, `bures_angle`: `np.round(fidelity, decimals)`) -/

/-- round half to even (`numpy.rint`) -/
def roundHalfEven (x : Rat) : Int :=
  let f := x.floor
  let r := x - f
  if r < 1 / 2 then f else if 1 / 2 < r then f + 1 else if f % 2 = 0 then f else f + 1

/-- `np.round(x, d)` for `d ≥ 0`: `rint(x · 10^d) / 10^d` -/
def roundDec (x : Rat) (d : Nat) : Rat := (roundHalfEven (x * (10 : Rat) ^ d) : Rat) / (10 : Rat) ^ d

/-- the square of `bures_distance`: `2 (1 − round(F, d))` -/
def buresDistSq (F : Rat) (d : Nat) : Rat := 2 * (1 - roundDec F d)

/-- the value `round(F, d)` common to every `F ∈ [lo, hi]`, if the two endpoints round to the same value -/
def roundDecEncl (lo hi : Rat) (d : Nat) : Option Rat :=
  if lo ≤ hi ∧ roundDec lo d = roundDec hi d then some (roundDec lo d) else none

/-! ## Argument guards (decision logic of the `is_density` / shape checks) -/

/-- how a call ends: the two kinds of `ValueError`, or a value is computed -/
inductive Outcome
  | invalidDim
  | notDensity
  | value
  deriving DecidableEq, Repr

/-- `atol` of `is_positive_semidefinite` / `np.isclose` -/
def guardAtol : Rat := 1 / 100000000
/-- `rtol` of `np.isclose` -/
def guardRtol : Rat := 1 / 100000

/-- `is_density` on exact spectral data of the argument: Hermitian within tolerance, smallest eigenvalue `≥ −atol`,
`|tr − 1| ≤ atol + rtol·1` (`np.isclose(np.trace(mat), 1)`; the trace may be complex) -/
def densityGuard (herm : Bool) (minEig trRe trIm : Rat) : Bool :=
  herm && decide (-guardAtol ≤ minEig) &&
    decide ((trRe - 1) * (trRe - 1) + trIm * trIm ≤ (guardAtol + guardRtol) * (guardAtol + guardRtol))

/-- `fidelity`, `sub_fidelity`, `matsumoto_fidelity`, `bures_distance`, `bures_angle`: shape check first, then `is_density` of both -/
def guardShapeFirst (sameShape densA densB : Bool) : Outcome :=
  if !sameShape then .invalidDim else if !densA || !densB then .notDensity else .value

/-- `trace_distance`, `helstrom_holevo`, `hilbert_schmidt`: `is_density` of both first; a shape mismatch then fails in `rho - sigma` -/
def guardDensityFirst (sameShape densA densB : Bool) : Outcome :=
  if !densA || !densB then .notDensity else if !sameShape then .invalidDim else .value

end Toq.Metrics
