import Toq.Core.EMat
/-!
# Certificate checkers and exact evaluators for state distance measures (C13) — executable, no Mathlib

Trace norm of a Hermitian `H` (toqito: `trace_norm`, `trace_distance = ‖ρ − σ‖₁ / 2`,
`helstrom_holevo = 1/2 + ‖ρ − σ‖₁ / 4`):

* max form: `‖H‖₁ = max { Re tr(W H) : −1 ⪯ W ⪯ 1 }`   (lower bounds, `checkTNLower`);
* min form: `‖H‖₁ = min { tr P + tr Q : H = P − Q, P, Q ⪰ 0 }`   (upper bounds, `checkTNUpper`).

Root fidelity `F(ρ, σ) = ‖√ρ √σ‖₁` (toqito: `fidelity`; Watrous' semidefinite program):

* primal: maximise `Re tr X` subject to `[[ρ, X], [Xᴴ, σ]] ⪰ 0`   (`checkFidPrimal`, `checkFidPrimalCong`);
* dual:   minimise `(tr(Y ρ) + tr(Z σ)) / 2` subject to `[[Y, −1], [−1, Z]] ⪰ 0`   (`checkFidDual`).

Matsumoto fidelity `tr(ρ # σ)` (toqito: `matsumoto_fidelity`): the primal restricted to Hermitian `X`
(`checkMatsPrimal`); its dual has the off-diagonal block `C` with `C + Cᴴ = −2` (`checkMatsDual`).

A checker takes a candidate point together with PSD witnesses (`EMat.psdCert`, or the congruence form
`psdCertCong`, which also works for singular matrices) and returns the exact rational objective value if
every constraint is verified exactly, `none` otherwise.

Exactly computable quantities: `hsDist`, `hsInner`, `trProd`, `trProd4`, `subFidRad`.
-/

namespace Toq.Metrics
open EMat

variable {n k r r' : Nat}

/-! ## Building blocks -/

/-- the `2n × 2n` matrix `[[A, B], [C, D]]` -/
def block (A B C D : EMat n n) : EMat (n + n) (n + n) :=
  ofFn fun i j =>
    if hi : i.val < n then
      if hj : j.val < n then A.get ⟨i.val, hi⟩ ⟨j.val, hj⟩
      else B.get ⟨i.val, hi⟩ ⟨j.val - n, by omega⟩
    else
      if hj : j.val < n then C.get ⟨i.val - n, by omega⟩ ⟨j.val, hj⟩
      else D.get ⟨i.val - n, by omega⟩ ⟨j.val - n, by omega⟩

/-- PSD certificate by congruence: `A = B M Bᴴ` exactly and `M` carries the PSD witness `L`.
    (Unlike `psdCert` this can certify singular `A`: `B` need not be square.) -/
def psdCertCong (A : EMat n n) (B : EMat n k) (M : EMat k k) (L : EMat k r) : Bool :=
  A.beq ((B.mul M).mul B.ct) && psdCert M L

/-! ## Trace norm -/

/-- `1 − W` and `1 + W` carry the PSD witnesses `L1`, `L2` (so `W` is Hermitian with spectrum in `[−1, 1]`) -/
def contractionOk (W : EMat n n) (L1 : EMat n r) (L2 : EMat n r') : Bool :=
  psdCert (one - W) L1 && psdCert (one + W) L2

/-- `some (Re tr(W H))` iff `H` is Hermitian and `W` is a certified contraction -/
def checkTNLower (H W : EMat n n) (L1 : EMat n r) (L2 : EMat n r') : Option Rat :=
  if H.isHermitian && contractionOk W L1 L2 then some (W.mul H).trace.re else none

/-- `some (Re tr P + Re tr Q)` iff `H = P − Q` entrywise exactly and `P`, `Q` carry PSD witnesses -/
def checkTNUpper (H P Q : EMat n n) (LP : EMat n r) (LQ : EMat n r') : Option Rat :=
  if H.beq (P - Q) && psdCert P LP && psdCert Q LQ then some (P.trace.re + Q.trace.re) else none

/-! ## Fidelity (Watrous' semidefinite program) -/

/-- `[[ρ, X], [Xᴴ, σ]]` -/
def fidBlock (ρ σ X : EMat n n) : EMat (n + n) (n + n) := block ρ X X.ct σ

/-- `[[Y, C], [Cᴴ, Z]]` -/
def dualBlock (Y Z C : EMat n n) : EMat (n + n) (n + n) := block Y C C.ct Z

/-- `(Re tr(Y ρ) + Re tr(Z σ)) / 2` -/
def dualValue (ρ σ Y Z : EMat n n) : Rat := ((Y.mul ρ).trace.re + (Z.mul σ).trace.re) / 2

/-- `some (Re tr X)` iff `[[ρ, X], [Xᴴ, σ]]` carries the PSD witness `L` -/
def checkFidPrimal (ρ σ X : EMat n n) (L : EMat (n + n) r) : Option Rat :=
  if psdCert (fidBlock ρ σ X) L then some X.trace.re else none

/-- `some (Re tr X)` iff `[[ρ, X], [Xᴴ, σ]] = B M Bᴴ` exactly with `M` carrying the PSD witness `L`
    (for rank-deficient `ρ`, `σ`, where the block matrix has no strictly positive margin) -/
def checkFidPrimalCong (ρ σ X : EMat n n) (B : EMat (n + n) k) (M : EMat k k) (L : EMat k r) : Option Rat :=
  if psdCertCong (fidBlock ρ σ X) B M L then some X.trace.re else none

/-- `some ((Re tr(Yρ) + Re tr(Zσ)) / 2)` iff `[[Y, −1], [−1, Z]]` carries the PSD witness `L` -/
def checkFidDual (ρ σ Y Z : EMat n n) (L : EMat (n + n) r) : Option Rat :=
  if psdCert (dualBlock Y Z (-one)) L then some (dualValue ρ σ Y Z) else none

/-! ## Matsumoto fidelity -/

/-- the fidelity primal with the additional constraint `W = Wᴴ` -/
def checkMatsPrimal (ρ σ W : EMat n n) (L : EMat (n + n) r) : Option Rat :=
  if W.isHermitian then checkFidPrimal ρ σ W L else none

/-- `C + Cᴴ = −2` entrywise -/
def offDiagOk (C : EMat n n) : Bool := (C + C.ct).beq (scalar (-2))

/-- `some ((Re tr(Yρ) + Re tr(Zσ)) / 2)` iff `C + Cᴴ = −2` and `[[Y, C], [Cᴴ, Z]]` carries the PSD witness `L` -/
def checkMatsDual (ρ σ Y Z C : EMat n n) (L : EMat (n + n) r) : Option Rat :=
  if offDiagOk C && psdCert (dualBlock Y Z C) L then some (dualValue ρ σ Y Z) else none

/-! ## Exactly computable quantities -/

/-- `Re tr((ρ − σ)²)`: the Hilbert–Schmidt distance as documented by toqito (squared Frobenius norm) -/
def hsDist (ρ σ : EMat n n) : Rat := ((ρ - σ).mul (ρ - σ)).trace.re

/-- `tr(Aᴴ B)`: Hilbert–Schmidt inner product -/
def hsInner (A B : EMat n k) : QI := (A.ct.mul B).trace

/-- `Re tr(ρ σ)` (for a pure `ρ = |ψ⟩⟨ψ|` this is the overlap `⟨ψ|σ|ψ⟩ = F²`) -/
def trProd (ρ σ : EMat n n) : Rat := (ρ.mul σ).trace.re

/-- `Re tr(ρ σ ρ σ)` -/
def trProd4 (ρ σ : EMat n n) : Rat := ((ρ.mul σ).mul (ρ.mul σ)).trace.re

/-- `2 [(tr ρσ)² − tr(ρσρσ)]`: the sub-fidelity is `E = trProd + √subFidRad` -/
def subFidRad (ρ σ : EMat n n) : Rat := 2 * (trProd ρ σ * trProd ρ σ - trProd4 ρ σ)

end Toq.Metrics
