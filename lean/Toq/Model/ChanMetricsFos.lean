import Toq.Model.Perms
import Toq.Model.Combinat
import Toq.Model.ChannelProps
import Toq.Spec.PartialTrace
import Toq.Spec.PartialTranspose
/-!
# Mirror model of `toqito/channel_metrics/fidelity_of_separability.py` (C20) — executable, no Mathlib

```
if not is_density(psi):            raise ValueError("Provided input state is not a density matrix.")
if not len(psi_dims) == 3:         raise AssertionError("For Channel SDP: require tripartite state dims.")
if not is_pure(psi):               raise ValueError("This function only works for pure states.")
psi = permute_systems(psi, [2, 1, 0], psi_dims)                  # B A R  ->  R A B
dim_b, dim_a, dim_r = psi_dims;  psi_dims = [dim_r, dim_a, dim_b]
dim_list  = [dim_r, dim_a, dim_b, dim_a]                          # R, A, B, A'
choi_dims = [dim_r] + [dim_a] * k
sys_ext   = list(range(2, 2 + k - 1));  dim_choi = dim_r * dim_a**k
pi_sym    = symmetric_projection(dim_a, 2)
choi      = picos.HermitianVariable("S", (dim_choi, dim_choi))
choi_partial = picos.partial_trace(choi, sys_ext, choi_dims)
sym_choi  = symmetric_projection(dim_a, k)
maximise Re tr( pi_sym * partial_trace( (partial_transpose(psi, [0], psi_dims) @ I(dim_a))
                  * permute_systems(choi_partial @ I(dim_b * dim_a), [0, 3, 2, 1], dim_list), [0, 2], dim_list) )
s.t. partial_trace(choi, list(range(1, k + 1)), choi_dims) == I(dim_r)
     choi >> 0
     (I(dim_r) @ sym_choi) * choi * (I(dim_r) @ sym_choi) == choi
     partial_transpose(choi, [1, …, i], choi_dims) >> 0        for i = 1 … k
return 2 * problem.solve(solver=solver_option).value - 1
```

`@` is the Kronecker product and `*` the matrix product of picos.  The calls into toqito are the mirror models of the properties
that own them (`permute_systems` → `Toq.Perms.permuteMat`, C01; `symmetric_projection(d, p)` → `Toq.Combinat.symProjN` = `p! ·` that
matrix, C18); `picos.partial_trace` / `picos.partial_transpose` are not toqito code and are modelled by the specifications
`Toq.PTrace.ptraceSpec` / `Toq.Spec.pTSpec` (toqito's own functions are proved equal to the same specifications in C02 / C03).
All expressions are polynomial in the entries with integer coefficients, so the model is generic in the scalar type (run on `QI`).

The theorems about this program (`Toq.ChanMetrics.Fos` in `Toq/Proofs/ChanMetricsFos.lean`, property theorems `fos_*` in C20) are stated
for the index-tuple form of the same expressions; the identification of the two forms is checked by the harness at exact points on
every run (stream `fos-program`), together with the identification of this model with the picos problem the code builds.
-/

namespace Toq.ChanMetrics.Fos
open Toq.Perms Toq.Combinat Toq.PTrace Toq.Spec Toq.ChannelProps EMat

/-! ## the guards -/

/-- which way the function takes -/
inductive FosPath where
  /-- `ValueError("Provided input state is not a density matrix.")` -/
  | notDensity
  /-- `AssertionError("For Channel SDP: require tripartite state dims.")` -/
  | notTripartite
  /-- `ValueError("This function only works for pure states.")` -/
  | notPure
  /-- the program is built with these local dimensions (`dim_b, dim_a, dim_r = psi_dims`) -/
  | program (dR dA dB : Nat)
  /-- a predicate verdict is `unknown` (input within tolerance of a branch boundary; never generated) -/
  | undecided
deriving DecidableEq, Repr

def FosPath.str : FosPath → String
  | .notDensity => "not_density"
  | .notTripartite => "not_tripartite"
  | .notPure => "not_pure"
  | .program _ _ _ => "program"
  | .undecided => "undecided"

/-- the cascade of guards: `dens` the verdict of `is_density(psi)`, `pure` the verdict of `is_pure(psi)` (only looked at when the
first two guards pass) -/
def fosPath (dens : Verdict) (dims : List Nat) (pure : Verdict) : FosPath :=
  match dens with
  | .no => .notDensity
  | .unknown => .undecided
  | .yes =>
    match dims with
    | [dB, dA, dR] =>
      match pure with
      | .yes => .program dR dA dB
      | .no => .notPure
      | .unknown => .undecided
    | _ => .notTripartite

section Verdicts
variable {n k : Nat}

/-- `np.isclose(np.trace(mat), 1)`: `yes` when the trace is exactly 1, `no` when it is off by `100·(atol + rtol)` -/
def traceV (ρ : EMat n n) : Verdict :=
  if ρ.trace == 1 then .yes
  else if decide (tolOf 1 ≤ (ρ.trace - 1).abs1) then .no
  else .unknown

/-- `is_density(mat) = is_positive_semidefinite(mat) and np.isclose(np.trace(mat), 1)` with the certificates of `psdV` -/
def densityV (ρ : EMat n n) (L : Option (EMat n k)) (v : Option (EMat n 1)) : Verdict :=
  (psdV ρ L v).and (traceV ρ)

/-- `is_pure(state)` (largest eigenvalue close to 1) for an exact density operator: `yes` when `ρ² = ρ` exactly (a projector of trace 1),
`no` when `tr ρ² ≤ 81/100` (then every eigenvalue is at most `9/10`) -/
def pureV (ρ : EMat n n) : Verdict :=
  if (ρ.mul ρ).beq ρ then .yes
  else if decide ((ρ.mul ρ).trace.re ≤ 81 / 100) then .no
  else .unknown

end Verdicts

/-- `return 2 * solution.value - 1` -/
def fosReturn (v : Rat) : Rat := 2 * v - 1

/-! ## the lists the code builds -/

/-- `choi_dims = [dim_r] + [dim_a] * k` -/
def choiDims (dR dA k : Nat) : List Nat := dR :: List.replicate k dA
/-- `sys_ext = list(range(2, 2 + k - 1))` -/
def sysExt (k : Nat) : List Nat := List.range' 2 (k - 1)
/-- `dim_choi = dim_r * dim_a**k` -/
def dimChoi (dR dA k : Nat) : Nat := dR * dA ^ k
/-- `list(range(1, k + 1))` -/
def traceSys (k : Nat) : List Nat := List.range' 1 k
/-- the list `sys` after `i` rounds of the PPT loop (`i = 1 … k`): `[1, …, i]` -/
def pptSys (i : Nat) : List Nat := List.range' 1 i

/-! ## generic matrix helpers -/

section Generic
variable {α : Type} [Add α] [Mul α] [Sub α] [Zero α] [One α] [Inhabited α]

/-- the entries of an `N × N` function matrix as a row-major array (computed once) -/
def tab (N : Nat) (A : Nat → Nat → α) : Array α := Id.run do
  let mut out := Array.mkEmpty (N * N)
  for i in [0:N] do
    for j in [0:N] do
      out := out.push (A i j)
  return out

/-- read a tabulated matrix -/
def look (arr : Array α) (N : Nat) : Nat → Nat → α :=
  fun i j => if i < N ∧ j < N then arr[i * N + j]! else 0

/-- matrix product of `N × N` matrices -/
def mulM (N : Nat) (A B : Nat → Nat → α) : Nat → Nat → α :=
  fun i j => sumN N (fun l => A i l * B l j)

/-- `A @ B` of picos (Kronecker product) for a square `B` with `rB` rows -/
def kronM (rB : Nat) (A B : Nat → Nat → α) : Nat → Nat → α :=
  fun i j => A (i / rB) (j / rB) * B (i % rB) (j % rB)

/-- `picos.I(n)` -/
def eyeM : Nat → Nat → α := fun i j => if i = j then 1 else 0

/-- `picos.trace` -/
def traceM (N : Nat) (A : Nat → Nat → α) : α := sumN N (fun i => A i i)

/-- everything the picos problem contains, evaluated at the point `choi` -/
structure Exprs (α : Type) where
  /-- `psi` after `permute_systems(psi, [2, 1, 0], psi_dims)` -/
  psiRAB : Nat → Nat → α
  /-- `choi_partial` (`dR·dA × dR·dA`) -/
  choiPartial : Nat → Nat → α
  /-- `partial_trace(choi, [1..k], choi_dims) − I(dim_r)`  (must vanish) -/
  traceRes : Nat → Nat → α
  /-- `(k!)² · ((I ⊗ sym_choi) choi (I ⊗ sym_choi) − choi)`  (must vanish) -/
  symRes : Nat → Nat → α
  /-- `partial_transpose(choi, [1..i], choi_dims)` for `i = 1 … k`  (must be PSD, like `choi` itself) -/
  pts : List (Nat → Nat → α)
  /-- `2 · tr(pi_sym · partial_trace(…))` (the objective before `Re`, times `2!`) -/
  obj2 : α

/-- `n!` -/
def factN : Nat → Nat
  | 0 => 1
  | n + 1 => (n + 1) * factN n

/-- the expressions of the program, line by line; `ofInt` embeds the integer entries of `p! · symmetric_projection`.  Every
intermediate matrix is tabulated into an `Array` (a value, computed once; a function-valued `let` would be re-evaluated at every
entry) -/
def exprs (ofInt : Int → α) (dB dA dR k : Nat) (psi choi : Nat → Nat → α) : Exprs α :=
  let psiDims0 := fnOfList [dB, dA, dR]
  let NP := dB * dA * dR
  -- psi = permute_systems(psi, [2, 1, 0], psi_dims)
  let psiA := tab NP (permuteMat psi 3 (fnOfList [2, 1, 0]) psiDims0 psiDims0 false false)
  let pd := fnOfList [dR, dA, dB]
  let dl := fnOfList [dR, dA, dB, dA]
  let cd := fnOfList (choiDims dR dA k)
  let n := k + 1
  let NC := dimChoi dR dA k
  let D := dR * dA * dB * dA
  let R := dA ^ k
  let choiA := tab NC choi
  -- pi_sym = symmetric_projection(dim_a, 2)   (times 2!)
  let piSymA := tab (dA * dA) (fun i j => ofInt (symProjN dA 2 i j))
  -- choi_partial = picos.partial_trace(choi, sys_ext, choi_dims)
  let cpA := tab (dR * dA) (ptraceSpec (look choiA NC) n cd (sysExt k))
  -- sym_choi = symmetric_projection(dim_a, k)   (times k!)
  let symKA := tab R (fun i j => ofInt (symProjN dA k i j))
  -- objective
  let a1A := tab NP (pTSpec (look psiA NP) 3 pd pd [0])
  let aA := tab D (kronM dA (look a1A NP) eyeM)
  let c1A := tab D (kronM (dB * dA) (look cpA (dR * dA)) eyeM)
  let cA := tab D (permuteMat (look c1A D) 4 (fnOfList [0, 3, 2, 1]) dl dl false false)
  let prodA := tab D (mulM D (look aA D) (look cA D))
  let tA := tab (dA * dA) (ptraceSpec (look prodA D) 4 dl [0, 2])
  let obj2 := traceM (dA * dA) (mulM (dA * dA) (look piSymA (dA * dA)) (look tA (dA * dA)))
  -- constraints
  let sA := tab NC (kronM R eyeM (look symKA R))
  let xsA := tab NC (mulM NC (look choiA NC) (look sA NC))
  let sxsA := tab NC (mulM NC (look sA NC) (look xsA NC))
  let f2 : α := ofInt ((factN k * factN k : Nat) : Int)
  let trA := tab dR (ptraceSpec (look choiA NC) n cd (traceSys k))
  { psiRAB := look psiA NP
    choiPartial := look cpA (dR * dA)
    traceRes := fun i j => look trA dR i j - eyeM i j
    symRes := fun i j => look sxsA NC i j - f2 * look choiA NC i j
    pts := (List.range k).map fun i =>
      let pA := tab NC (pTSpec (look choiA NC) n cd cd (pptSys (i + 1)))
      look pA NC
    obj2 := obj2 }

/-! ## the same expressions in index-tuple form

The theorems (`Toq/Proofs/ChanMetricsFos.lean`) speak about matrices indexed by `(r, f)`, `r` a basis label of `R` and `f` the digit vector of
the `k` copies of `A'`.  With the flattened index `r · dA^k + Σ_t f(t) · dA^(k−1−t)` (toqito's tensor index) their definitions read as
follows on flattened matrices; `exprs` (the line-by-line mirror) and `tupleExprs` are compared exactly at every point the harness sends. -/

/-- digit `t` (copy `t` of `A'`) of the `A'^{⊗k}` part `x < dA^k` of an index -/
def digitA (dA k x t : Nat) : Nat := (x / dA ^ (k - 1 - t)) % dA

/-- the `A'^{⊗k}` index with digits `f ∘ σ` (`σ` a list of length `k`) -/
def permDigits (dA k : Nat) (σ : List Nat) (x : Nat) : Nat :=
  (List.range k).foldl (fun acc t => acc * dA + digitA dA k x (σ.getD t 0)) 0

/-- `Toq.ChanMetrics.Fos.margAll`, `pTYs (· ≤ i − 1)`, the support residual in the form of `symPC_left` / `symPC_right`
(`(k!)² ·` it), `choi1`, `omega_apply` and `obj` (`2 ·` it), on flattened indices -/
def tupleExprs (ofInt : Int → α) (dB dA dR k : Nat) (psi choi : Nat → Nat → α) : Exprs α :=
  let R := dA ^ k
  let NC := dR * R
  let R' := dA ^ (k - 1)
  let choiA := tab NC choi
  let X := look choiA NC
  -- choi1 (r, c) (s, c') = Σ_t choi (r, c :: t) (s, c' :: t)
  let g1A := tab (dR * dA) (fun p q => sumN R' (fun t => X (p * R' + t) (q * R' + t)))
  let G := look g1A (dR * dA)
  -- permBAR: ψ (r, a, b) (r', a', b') = psi (b, a, r) (b', a', r')
  let psiI := fun (r a b r' a' b' : Nat) => psi ((b * dA + a) * dR + r) ((b' * dA + a') * dR + r')
  -- omega (a, a1) (c, c1) = Σ_r Σ_b Σ_r' ψ (r', a, b) (r, c, b) · Γ₁ (r', a1) (r, c1)
  let omA := tab (dA * dA) (fun x y =>
    sumN dR fun r => sumN dB fun b => sumN dR fun r' =>
      psiI r' (x / dA) b r (y / dA) b * G (r' * dA + x % dA) (r * dA + y % dA))
  let om := look omA (dA * dA)
  -- 2 · tr(sym2 · ω) = Σ_x (ω x x + ω (swap x) x)
  let obj2 := sumN (dA * dA) fun x => om x x + om ((x % dA) * dA + x / dA) x
  let perms := permsList k
  let symA := tab NC (fun x y =>
    sumN perms.length fun si => sumN perms.length fun ti =>
      X ((x / R) * R + permDigits dA k (perms.getD si []) (x % R)) ((y / R) * R + permDigits dA k (perms.getD ti []) (y % R)))
  let f2 : α := ofInt ((factN k * factN k : Nat) : Int)
  { psiRAB := fun i j => psiI (i / (dA * dB)) ((i / dB) % dA) (i % dB) (j / (dA * dB)) ((j / dB) % dA) (j % dB)
    choiPartial := G
    traceRes := fun r s => sumN R (fun t => X (r * R + t) (s * R + t)) - eyeM r s
    symRes := fun x y => look symA NC x y - f2 * X x y
    pts := (List.range k).map fun i =>
      let Rlo := dA ^ (k - (i + 1))
      -- transpose the copies 0 … i: exchange the high digits of the `A'^{⊗k}` parts
      let pA := tab NC (fun x y =>
        X ((x / R) * R + ((y % R) / Rlo) * Rlo + x % Rlo) ((y / R) * R + ((x % R) / Rlo) * Rlo + y % Rlo))
      look pA NC
    obj2 := obj2 }

/-- exact comparison of two evaluations -/
def Exprs.agree [BEq α] (dB dA dR k : Nat) (e f : Exprs α) : Bool :=
  let NC := dimChoi dR dA k
  let NP := dB * dA * dR
  let eqM (N : Nat) (A B : Nat → Nat → α) : Bool :=
    (List.range N).all fun i => (List.range N).all fun j => A i j == B i j
  eqM NP e.psiRAB f.psiRAB && eqM (dR * dA) e.choiPartial f.choiPartial && eqM dR e.traceRes f.traceRes &&
    eqM NC e.symRes f.symRes && e.pts.length == f.pts.length &&
    ((e.pts.zip f.pts).all fun pq => eqM NC pq.1 pq.2) && e.obj2 == f.obj2

end Generic

end Toq.ChanMetrics.Fos
