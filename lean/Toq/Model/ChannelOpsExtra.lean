import Toq.Model.ChannelOps
/-!
# Mirror models (continued): `toqito/channel_ops/choi_to_kraus.py`, the `dim` normalisation of
`partial_channel.py` (no Mathlib)

`choi_to_kraus` consists of a LAPACK call (`np.linalg.eigh` / `np.linalg.svd`) and a post-processing of the
factors.  The factors are *inputs* of the model (`Eigh`, `Svd`); the model is everything else: the
decoding of `dim` (`channel_dim`), the Hermitian / positive-semidefinite / general branch selection, the
tolerance filter, the column-major `unvec`, the conjugation of the right singular vectors, the signs of
the Hermitian branch and the form of the result (flat list vs. list of pairs).

The floating-point functions applied to eigenvalues and singular values (`np.sqrt`, `abs`, `np.sign`, `>`, `>=`,
unary minus) are a parameter `RealOps α` of the model: eigenvalues live in the scalar type `α` of the
matrix entries (real elements of it).  The theorems of `Toq/Properties/C04.lean` hold for *every* choice
of these functions that satisfies `sqrt(x)·conj(sqrt(x)) = x` (resp. `… · sign = x`) on the values that are
kept; the compiled driver runs the model on `ℚ[i]` with exact `abs`, `sign`, comparisons and with `sqrt` a
finite table of the correctly rounded doubles.
-/
namespace Toq.ChannelOps
open Mat

variable {α : Type}

/-- the scalar functions `choi_to_kraus` / `is_positive_semidefinite` apply to (real) eigenvalues -/
structure RealOps (α : Type) where
  /-- `np.sqrt` -/
  sqrt : α → α
  /-- `abs` -/
  abs : α → α
  /-- `np.sign` -/
  sign : α → α
  /-- unary minus -/
  neg : α → α
  /-- `x > y` -/
  gt : α → α → Bool
  /-- `x >= y` -/
  ge : α → α → Bool

/-- what `np.linalg.eigh(choi_mat)` returned: eigenvalues and the matrix whose columns are eigenvectors -/
structure Eigh (α : Type) where
  evals : List α
  V : Mat α

/-- what `np.linalg.svd(choi_mat, full_matrices=False)` returned -/
structure Svd (α : Type) where
  U : Mat α
  S : List α
  Vh : Mat α

namespace Mat

/-- `unvec(v, shape=(r, c))`: `np.asarray(v).reshape(r, c, order="F")` -/
def unvecF (v : Nat → α) (r c : Nat) : Mat α := ⟨r, c, fun a i => v (a + r * i)⟩

/-- `s * m` for a scalar `s` and a 2-d array `m` -/
def smul [Mul α] (s : α) (m : Mat α) : Mat α := ⟨m.r, m.c, fun i j => s * m.e i j⟩

/-- `m.T[i]`: column `i` as a 1-d array -/
def colv (m : Mat α) (i : Nat) : Nat → α := fun p => m.e p i

/-- `m[i]`: row `i` as a 1-d array -/
def rowv (m : Mat α) (i : Nat) : Nat → α := fun p => m.e i p

end Mat

/-- `is_hermitian(mat)` on exact data: square and equal to its conjugate transpose (on integer-valued
    data `np.allclose(mat, mat.conj().T)` decides exactly this: two different Gaussian integers differ by at
    least 1, far above `atol + rtol·|entry|`) -/
def isHermitianExact [DecidableEq α] [HasConj α] (J : Mat α) : Bool :=
  J.r == J.c && allBelow J.r (fun i => allBelow J.c (fun j => decide (J.e i j = HasConj.conj (J.e j i))))

/-- `is_positive_semidefinite(mat)` after its `is_hermitian` test: `evals, _ = np.linalg.eigh(mat)` and
    `all(x >= -abs(atol) for x in evals)` -/
def isPsdFrom (ops : RealOps α) (herm : Bool) (atol : α) (evals : List α) : Bool :=
  herm && evals.all (fun x => ops.ge x (ops.neg (ops.abs atol)))

/-- the filter `abs(x) > tol` of all three comprehensions -/
def c2kKeep (ops : RealOps α) (tol : α) (x : α) : Bool := ops.gt (ops.abs x) tol

/-- Hermitian branch, left operators:
```
kraus_0 = [np.sqrt(abs(eigval)) * unvec(evec, shape=(d_out[0], d_in[0]))
           for eigval, evec in zip(eigvals, v_mat.T) if abs(eigval) > tol]
``` -/
def c2kHermLeft [Mul α] (ops : RealOps α) (tol : α) (eig : Eigh α) (do0 di0 : Nat) : List (Mat α) :=
  (((eig.evals.zipIdx).take eig.V.c).filter (fun p => c2kKeep ops tol p.1)).map
    (fun p => smul (ops.sqrt (ops.abs p.1)) (unvecF (eig.V.colv p.2) do0 di0))

/-- Hermitian, not positive semidefinite: right operators
```
kraus_1 = [np.sign(eigval) * k_mat
           for eigval, k_mat in zip(filter(lambda eigval: abs(eigval) > tol, eigvals), kraus_0)]
``` -/
def c2kHermRight [Mul α] (ops : RealOps α) (tol : α) (evals : List α) (kraus0 : List (Mat α)) : List (Mat α) :=
  ((evals.filter (c2kKeep ops tol)).zip kraus0).map (fun p => smul (ops.sign p.1) p.2)

/-- general branch, left operators:
```
kraus_0 = [np.sqrt(s_val) * unvec(evec, shape=(d_out[0], d_in[0]))
           for s_val, evec in zip(singular_values, u_mat.T) if abs(s_val) > tol]
``` -/
def c2kSvdLeft [Mul α] (ops : RealOps α) (tol : α) (svd : Svd α) (do0 di0 : Nat) : List (Mat α) :=
  (((svd.S.zipIdx).take svd.U.c).filter (fun p => c2kKeep ops tol p.1)).map
    (fun p => smul (ops.sqrt p.1) (unvecF (svd.U.colv p.2) do0 di0))

/-- general branch, right operators:
```
kraus_1 = [np.sqrt(s_val) * unvec(evec.conj(), shape=(d_out[1], d_in[1]))
           for s_val, evec in zip(singular_values, vh_mat) if abs(s_val) > tol]
``` -/
def c2kSvdRight [Mul α] [HasConj α] (ops : RealOps α) (tol : α) (svd : Svd α) (do1 di1 : Nat) : List (Mat α) :=
  (((svd.S.zipIdx).take svd.Vh.r).filter (fun p => c2kKeep ops tol p.1)).map
    (fun p => smul (ops.sqrt p.1) (unvecF (fun t => HasConj.conj (svd.Vh.rowv p.2 t)) do1 di1))

/-- `choi_to_kraus(choi_mat, tol, dim)` given the LAPACK factors (`atol = 1e-8` is the default tolerance of
    `is_positive_semidefinite`):
```
d_in, d_out, _ = channel_dim(choi_mat, dim=dim, compute_env_dim=False)
if is_hermitian(choi_mat):
    eigvals, v_mat = np.linalg.eigh(choi_mat);  kraus_0 = …
    if is_positive_semidefinite(choi_mat): return kraus_0
    kraus_1 = …
else:
    u_mat, singular_values, vh_mat = np.linalg.svd(choi_mat, full_matrices=False);  kraus_0 = …;  kraus_1 = …
return [[ka, kb] for ka, kb in zip(kraus_0, kraus_1)]
```
    The flat result is `KrausArg.flat`, the list of pairs is `KrausArg.pairs kraus_0 kraus_1`. -/
def choiToKraus [Mul α] [HasConj α] [DecidableEq α] (ops : RealOps α) (J : Mat α) (tol atol : α) (dim : DimArg)
    (eig : Eigh α) (svd : Svd α) : Except DimErr (KrausArg α) :=
  match channelDimChoi J.r J.c true dim with
  | .error e => .error e
  | .ok d =>
    if isHermitianExact J then
      let kraus0 := c2kHermLeft ops tol eig d.out0 d.in0
      if isPsdFrom ops true atol eig.evals then .ok (.flat kraus0)
      else .ok (KrausArg.pairs kraus0 (c2kHermRight ops tol eig.evals kraus0))
    else
      .ok (KrausArg.pairs (c2kSvdLeft ops tol svd d.out0 d.in0) (c2kSvdRight ops tol svd d.out1 d.in1))

/-! ## `partial_channel`: normalisation of `dim` -/

/-- the `dim` argument of `partial_channel`: `None`, a 1-d list / array, a 2-row list / array -/
inductive PDimArg where
  | none
  | one (d : List Nat)
  | two (rd cd : List Nat)

/-- the first lines of `partial_channel`:
```
if dim is None: dim = np.round(np.sqrt(list(rho.shape))).reshape(-1, 1) * np.ones((1, 2))
if isinstance(dim, list): dim = np.array(dim)
if dim.ndim == 1: dim = dim.T.flatten(); dim = np.array([dim, dim])
```
    returns the two rows of `dim` (row dimensions, column dimensions of the subsystems).  For `None` these are
    `[√rows, √rows]` and `[√cols, √cols]`: two subsystems, also for a non-square operator (`none` of the `Option`
    when a shape entry is not a perfect square: the rounded roots do not describe the operator). -/
def partialDimNorm (rho : Mat α) : PDimArg → Option (List Nat × List Nat)
  | .none =>
    if Nat.sqrt rho.r * Nat.sqrt rho.r != rho.r || Nat.sqrt rho.c * Nat.sqrt rho.c != rho.c then Option.none
    else some (defaultDim rho)
  | .one d => some (d, d)
  | .two rd cd => some (rd, cd)

end Toq.ChannelOps
