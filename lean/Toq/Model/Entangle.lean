import Toq.Core.ND
import Toq.Core.EMat
import Toq.Core.Rank
import Toq.Model.Perms
/-!
# Exact models for C14 (Schmidt rank, product test, purity, closed forms) — no Mathlib

Vectors are functions `Nat → α`, matrices `Nat → Nat → α`, sizes are passed explicitly.  A bipartite
vector `ψ ∈ C^{dA} ⊗ C^{dB}` has the amplitude matrix `A[a,b] = ψ[a·dB + b]` (toqito's tensor index is
big-endian).  The *mirror* definitions follow the Python line by line:

* `schmidt_rank.py` (vector branch, after the fix `3fe3678`): `np.linalg.matrix_rank(np.reshape(rho, dim))`
  — `reshapeDim`; the pre-fix line `np.reshape(rho, dim[::-1])` is kept as `reshapeRevC` (counterexample only);
* `schmidt_decomposition.py`: `np.linalg.svd(rho.reshape(dim[::-1], order="F"))` — `reshapeRevF`;
* `_operator_schmidt_rank`: `rho.reshape(N², 1)`, `swap(·, [2,3], [dA,dB,dA,dB])`, then the vector branch with
  `dim = [dA², dB²]` — `operatorSchmidtVec`, `operatorAmp`.

The rank itself is computed exactly over `ℚ[i]` by Gaussian elimination (`rankQ` = the shared routine
`Toq.Rank.rankFn`, proved equal to Mathlib's `Matrix.rank` of the denoted complex matrix:
`Toq.C14.rankQ_eq_rank`), and independently certified by the checker `rankCert` (a rank factorisation and a
two-sided inverse on the range, both verified by exact matrix products; `Toq.C14.rankCert_sound`).
-/

namespace Toq.Entangle
open Toq.Perms

/-! ## amplitude matrices -/

/-- **Specification.** amplitude matrix of a bipartite vector: `A[a,b] = ψ[a·dB + b]` -/
def ampMat (dB : Nat) (ψ : Nat → α) : Nat → Nat → α := fun a b => ψ (a * dB + b)

/-- the flat vector of a `rows × dB` matrix (C order): inverse of `ampMat` -/
def vecOfAmp (dB : Nat) (A : Nat → Nat → α) : Nat → α := fun i => A (i / dB) (i % dB)

/-- mirror of `np.reshape(rho, dim)` with `dim = [dA, dB]` (C order), as used by the fixed `schmidt_rank` -/
def reshapeDim (dA dB : Nat) (ψ : Nat → α) : Nat → Nat → α :=
  fun a b => (ND.ofFlatC ψ 2 (fnOfList [dA, dB])).get (fnOfList [a, b])

/-- mirror of the pre-fix `np.reshape(rho, dim[::-1])` (C order, shape `(dB, dA)`) -/
def reshapeRevC (dA dB : Nat) (ψ : Nat → α) : Nat → Nat → α :=
  fun r c => (ND.ofFlatC ψ 2 (fnOfList [dB, dA])).get (fnOfList [r, c])

/-- mirror of `rho.reshape(dim[::-1], order="F")` (shape `(dB, dA)`), as used by `schmidt_decomposition` -/
def reshapeRevF (dA dB : Nat) (ψ : Nat → α) : Nat → Nat → α :=
  fun r c => (ND.ofFlatF ψ 2 (fnOfList [dB, dA])).get (fnOfList [r, c])

/-- `rho.reshape(N*N, 1)` of an `N × N` matrix (C order) -/
def opVec (N : Nat) (ρ : Nat → Nat → α) : Nat → α := fun j => ρ (j / N) (j % N)

/-- mirror of `_operator_schmidt_rank`: `swap(rho.reshape(-1,1), [2,3], [dA,dB,dA,dB])` -/
def operatorSchmidtVec (dA dB : Nat) (ρ : Nat → Nat → α) : Nat → α :=
  permuteVec (opVec (dA * dB) ρ) 4 (swapPerm 1 2) (fnOfList [dA, dB, dA, dB]) false

/-- … followed by the vector branch with `dim = [dA², dB²]`: the matrix whose rank is returned -/
def operatorAmp (dA dB : Nat) (ρ : Nat → Nat → α) : Nat → Nat → α :=
  reshapeDim (dA * dA) (dB * dB) (operatorSchmidtVec dA dB ρ)

/-- **Specification.** realigned operator: row `(a,a')`, column `(b,b')`, entry `ρ[(a,b),(a',b')]` -/
def realignAmp (dA dB : Nat) (ρ : Nat → Nat → α) : Nat → Nat → α :=
  fun i j => ρ ((i / dA) * dB + j / dB) ((i % dA) * dB + j % dB)

/-! ## local operations -/

/-- entry `(i, j)` of `U ⊗ V` with `V` of size `dB × dB'` (row index `a·dB + b`, column index `a'·dB' + b'`) -/
def kron2 [Mul α] (dB dB' : Nat) (U V : Nat → Nat → α) : Nat → Nat → α :=
  fun i j => U (i / dB) (j / dB') * V (i % dB) (j % dB')

/-- `(U ⊗ V) ψ` for `ψ` of length `dA' · dB'` -/
def kronApply [Add α] [Mul α] [Zero α] (dB dA' dB' : Nat) (U V : Nat → Nat → α) (ψ : Nat → α) : Nat → α :=
  fun i => sumN (dA' * dB') fun j => kron2 dB dB' U V i j * ψ j

/-- matrix product of function matrices with inner size `k` -/
def mmul [Add α] [Mul α] [Zero α] (k : Nat) (X Y : Nat → Nat → α) : Nat → Nat → α :=
  fun i j => sumN k fun l => X i l * Y l j

/-- conjugate transpose -/
def ctr [HasConj α] (X : Nat → Nat → α) : Nat → Nat → α := fun i j => HasConj.conj (X j i)

/-- `|ψ⟩⟨ψ|` -/
def outer [Mul α] [HasConj α] (ψ : Nat → α) : Nat → Nat → α := fun i j => ψ i * HasConj.conj (ψ j)

/-- partial transpose on the second factor of an operator on `C^{dA} ⊗ C^{dB}` -/
def pTB (dB : Nat) (X : Nat → Nat → α) : Nat → Nat → α :=
  fun i j => X ((i / dB) * dB + j % dB) ((j / dB) * dB + i % dB)

/-- `tr ρ²` -/
def purityM [Add α] [Mul α] [Zero α] (n : Nat) (ρ : Nat → Nat → α) : α :=
  sumN n fun i => sumN n fun j => ρ i j * ρ j i

/-- `tr ρ` -/
def traceM [Add α] [Zero α] (n : Nat) (ρ : Nat → Nat → α) : α := sumN n fun i => ρ i i

/-! ## product test: all 2×2 minors of the amplitude matrix vanish -/

/-- `A[a,b]·A[a',b'] = A[a,b']·A[a',b]` for all rows `a, a' < r` and columns `b, b' < c` -/
def minorsVanish [Mul α] [DecidableEq α] (r c : Nat) (A : Nat → Nat → α) : Bool :=
  allBelow r fun a => allBelow r fun a' => allBelow c fun b => allBelow c fun b' =>
    decide (A a b * A a' b' = A a b' * A a' b)

/-- exact product test for a bipartite vector -/
def isProductVec [Mul α] [DecidableEq α] (dA dB : Nat) (ψ : Nat → α) : Bool :=
  minorsVanish dA dB (ampMat dB ψ)

/-- exact product test for an operator on `C^{dA} ⊗ C^{dB}` -/
def isProductOp [Mul α] [DecidableEq α] (dA dB : Nat) (ρ : Nat → Nat → α) : Bool :=
  minorsVanish (dA * dA) (dB * dB) (realignAmp dA dB ρ)

/-! ## exact rank over `ℚ[i]` -/

/-- rank of an exact `n × m` matrix by Gaussian elimination over `ℚ[i]`: the shared, proved routine
    `Toq.Rank.rankFn` (`Toq/Core/Rank.lean`); equal to Mathlib's `Matrix.rank` of the denoted complex matrix
    (`Toq.C14.rankQ_eq_rank`) -/
def rankQ (n m : Nat) (A : Nat → Nat → QI) : Nat := Toq.Rank.rankFn n m A

/-- `schmidt_rank` on a vector, mirror of the (fixed) code -/
def schmidtRankVec (dA dB : Nat) (ψ : Nat → QI) : Nat := rankQ dA dB (reshapeDim dA dB ψ)

/-- `schmidt_rank` on a vector, specification: rank of the amplitude matrix -/
def schmidtRankSpec (dA dB : Nat) (ψ : Nat → QI) : Nat := rankQ dA dB (ampMat dB ψ)

/-- `schmidt_rank` on a vector as the code was before the fix (reversed dims, C order) -/
def schmidtRankVecOld (dA dB : Nat) (ψ : Nat → QI) : Nat := rankQ dB dA (reshapeRevC dA dB ψ)

/-- operator Schmidt rank, mirror -/
def schmidtRankOp (dA dB : Nat) (ρ : Nat → Nat → QI) : Nat := rankQ (dA * dA) (dB * dB) (operatorAmp dA dB ρ)

/-- operator Schmidt rank, specification: rank of the realigned matrix -/
def schmidtRankOpSpec (dA dB : Nat) (ρ : Nat → Nat → QI) : Nat := rankQ (dA * dA) (dB * dB) (realignAmp dA dB ρ)

/-- **Rank certificate.**  `A = B·C` with inner size `r` (so `rank A ≤ r`) and `L·A·R = 1_r` (so `rank A ≥ r`). -/
def rankCert {n m r : Nat} (A : EMat n m) (B : EMat n r) (C : EMat r m) (L : EMat r n) (R : EMat m r) : Bool :=
  A.beq (B.mul C) && ((L.mul A).mul R).beq EMat.one

/-! ## closed forms on exact Schmidt coefficients -/

def sumQ (l : List Rat) : Rat := l.foldl (· + ·) 0

/-- negativity of a pure state with Schmidt coefficients `s`: `((Σ s_i)² − 1)/2` -/
def negativityClosed (s : List Rat) : Rat := (sumQ s * sumQ s - 1) / 2

/-- argument of `log2` in the log-negativity: `(Σ s_i)²` -/
def logNegArg (s : List Rat) : Rat := sumQ s * sumQ s

/-- two-qubit concurrence `2·s₀·s₁` -/
def concurrenceClosed (s0 s1 : Rat) : Rat := 2 * s0 * s1

/-- squared Schmidt coefficients (the probability vector whose entropy is the entanglement of formation) -/
def schmidtProbs (s : List Rat) : List Rat := s.map fun x => x * x

/-- squared S(k) vector norm: the sum of the `k` largest squared Schmidt coefficients `p` -/
def skVecNormSq (p : List Rat) (k : Nat) : Rat :=
  sumQ ((p.mergeSort fun a b => decide (b ≤ a)).take k)

/-- Schmidt rank from the coefficients: number of non-zero entries -/
def supportSize (s : List Rat) : Nat := (s.filter fun x => x != 0).length

/-! ## the dimension argument (`dim` omitted / a single integer / a pair) -/

/-- `int(np.round(np.sqrt(N)))` for a natural number `N`: `⌊√N⌋` when `N ≤ ⌊√N⌋² + ⌊√N⌋` (i.e. `√N < ⌊√N⌋ + 1/2`), else `⌊√N⌋ + 1` -/
def roundSqrt (N : Nat) : Nat :=
  let s := Nat.sqrt N
  if N - s * s ≤ s then s else s + 1

/-- the raw `dim` argument of the library functions -/
inductive DimArg where
  /-- `dim=None` -/
  | omitted
  /-- `dim=d`, a single integer -/
  | scalar (d : Nat)
  /-- `dim=[dA, dB]` (list or array) -/
  | pair (dA dB : Nat)
deriving Repr, DecidableEq

/-- mirror of the argument normalisation of `schmidt_rank` (both branches): `None` → `d = round(sqrt(N))` and then, as for an integer `d`,
    `np.array([d, N / d], dtype=int)` (truncation); a pair is taken as it is.  `none` for `d = 0` (NumPy divides by zero). -/
def resolveDim (N : Nat) : DimArg → Option (Nat × Nat)
  | .omitted => let d := roundSqrt N; if d = 0 then none else some (d, N / d)
  | .scalar d => if d = 0 then none else some (d, N / d)
  | .pair a b => some (a, b)

/-- `schmidt_rank(psi, dim)` for a vector of length `N` and the raw argument `dim`, mirror -/
def schmidtRankArg (N : Nat) (arg : DimArg) (ψ : Nat → QI) : Option Nat :=
  (resolveDim N arg).map fun d => schmidtRankVec d.1 d.2 ψ

/-- `schmidt_rank(rho, dim)` for an `N × N` operator and the raw argument `dim` (1-D forms), mirror -/
def schmidtRankOpArg (N : Nat) (arg : DimArg) (ρ : Nat → Nat → QI) : Option Nat :=
  (resolveDim N arg).map fun d => schmidtRankOp d.1 d.2 ρ

end Toq.Entangle
