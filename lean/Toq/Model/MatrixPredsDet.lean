import Toq.Model.MatrixPreds
/-!
# Verified exact determinant / inverse and the two deciders that rest on them  (no Mathlib)

`Toq/Model/MatrixPreds.lean` decides `is_totally_positive` and `is_pseudo_hermitian` with an elimination
determinant (`det`) and a Gauss–Jordan inverse (`inverse`) that carry no correctness theorem.  This file
gives replacements whose every ingredient is proved in `Toq/Proofs/MatrixOpsDet.lean`:

* `detL`  — determinant by Laplace expansion along the first row (`detL_eq_det`: it is Mathlib's
            `Matrix.det` of the denoted complex matrix);
* `invL`  — inverse by the cofactor formula `adj / det` (`fnToM_invL`: it is Mathlib's `⁻¹`);
* `totallyPositiveVL`, `pseudoHermitianVL` — the deciders, of the same shape, enumeration order and verdict
  rule as `totallyPositiveV`, `pseudoHermitianV`.

Sizes at run time are at most 6, so the `n!` cost of the expansions is irrelevant.
-/

namespace Toq.MatrixPreds
open Toq.MatrixOps

/-! ## determinant and inverse on function matrices -/

/-- the function matrix with row `i` and column `j` deleted -/
def delFn (f : Nat → Nat → QI) (i j : Nat) : Nat → Nat → QI :=
  fun a b => f (if a < i then a else a + 1) (if b < j then b else b + 1)

/-- the function matrix with row `0` and column `j` deleted -/
def minorFn (f : Nat → Nat → QI) (j : Nat) : Nat → Nat → QI :=
  fun a b => f (a + 1) (if b < j then b else b + 1)

/-- determinant of the leading `n × n` block by Laplace expansion along the first row:
    `det f = Σ_j (-1)^j f 0 j · det (f without row 0 and column j)` -/
def detL : Nat → (Nat → Nat → QI) → QI
  | 0, _ => 1
  | n + 1, f => sumN (n + 1) (fun j => (if j % 2 = 0 then f 0 j else -(f 0 j)) * detL n (minorFn f j))

/-- the adjugate (transposed cofactor matrix) of the leading `n × n` block:
    entry `(i, j)` is `(-1)^(i+j)` times the minor without row `j` and column `i` -/
def adjL (n : Nat) (f : Nat → Nat → QI) : Nat → Nat → QI :=
  fun i j =>
    let d := detL (n - 1) (delFn f j i)
    if (j + i) % 2 = 0 then d else -d

/-- the inverse of the leading `n × n` block by the cofactor formula `adj / det`
    (`qinv 0 = 0`, so a singular block gives the zero matrix, as Mathlib's `⁻¹` does) -/
def invL (n : Nat) (f : Nat → Nat → QI) : Nat → Nat → QI :=
  let d := qinv (detL n f)
  fun i j => d * adjL n f i j

/-! ## `is_totally_positive` -/

/-- the sizes of minors considered: `sub_sizes`, default `range(1, min(dims) + 1)` -/
def tpSizes (A : Mat QI) (subSizes : Option (List Nat)) : List Nat :=
  match subSizes with
  | some l => l
  | none => (List.range (min A.r A.c)).map (· + 1)

/-- the sub-matrix `mat[np.ix_(kr, kc)]` as a function matrix -/
def subFn (A : Mat QI) (kr kc : List Nat) : Nat → Nat → QI := fun a b => A.f (kr.getD a 0) (kc.getD b 0)

/-- every minor of the sizes considered, in the order of the code (`minors` with the verified determinant) -/
def minorsL (A : Mat QI) (subSizes : Option (List Nat)) : List QI :=
  (tpSizes A subSizes).flatMap fun j =>
    (combinations A.r j).flatMap fun kr =>
      (combinations A.c j).map fun kc => detL j (subFn A kr kc)

/-- the verdict on one minor: `yes` real and `≥ margin`; `no` real part `≤ -margin` or `|im| ≥ margin` -/
def minorVerdict (m : Rat) (d : QI) : Verdict :=
  if d.im = 0 ∧ m ≤ d.re then Verdict.yes
  else if d.re ≤ -m ∨ m ≤ d.im ∨ d.im ≤ -m then Verdict.no
  else Verdict.unknown

/-- `is_totally_positive` with the verified determinant: the same enumeration and verdict rule as
    `totallyPositiveV` -/
def totallyPositiveVL (A : Mat QI) (subSizes : Option (List Nat)) (m : Rat) : Verdict :=
  let A := force A
  Verdict.all ((minorsL A subSizes).map (minorVerdict m))

/-! ## `is_pseudo_hermitian` -/

/-- `is_pseudo_hermitian(mat, signature)` with verified ingredients:
```
if not is_hermitian(signature): raise ValueError
if np.linalg.matrix_rank(signature) != signature.shape[0]: raise ValueError
if not is_square(mat) or not has_same_dimension([mat, signature]): return False
return np.allclose(signature @ mat @ np.linalg.inv(signature), mat.conj().T)
```
`rank` is the proved exact rank, the inverse is the proved cofactor inverse `invL` -/
def pseudoHermitianVL (H η : Mat QI) (m : Rat) : Except String Verdict :=
  if hermitianV η m != .yes then .error "SignatureNotHermitian"
  else if rank η.r η.c (QMat.ofMat η) != η.r then .error "SignatureNotInvertible"
  else if !isSquare H || H.r * H.c != η.r * η.c then .ok .no
  else
    let ηinv : Mat QI := force ⟨η.r, η.c, invL η.r (force η).f⟩
    .ok (eqV (mul (mul η H) ηinv) (ctranspose H) m)

end Toq.MatrixPreds
