import Toq.Model.Discrim
/-!
# `state_distinguishability` before and around the solver call (C10) — executable, no Mathlib

Mirror of the Python lines of `toqito/state_opt/state_distinguishability.py` (and of the helpers it calls) that decide
*which* semidefinite program is handed to the solver:

```
if not has_same_dimension(vectors): raise ValueError(…)          -- sdHasSameDimension
n = len(vectors)
probs = [1 / n] * n if probs is None else probs                     -- sdDefaultProbs
dim = calculate_vector_matrix_dimension(vectors[0])                 -- SdShape.vecMatDim
if strategy == "min_error":                                         -- sdDispatch
    if primal_dual == "primal": return _min_error_primal(…)
    return _min_error_dual(…)
if primal_dual == "primal": return _unambiguous_primal(…)
return _unambiguous_dual(…)
```

the data of the four programs (`to_density_matrix` → `SdState.density`, `vectors_to_gram_matrix` → `sdGram`), the operators
and numbers each program constrains (the `…Slack` / `…Residual` functions, in the order of the code's constraints), and what
`is_distinguishable` does with the value (`np.isclose(opt_val, 1)` → `sdDistTest`).
-/

namespace Toq.Discrim
open EMat

variable {d k : Nat}

/-! ## Shapes: `has_same_dimension`, `calculate_vector_matrix_dimension` -/

/-- shape of the NumPy array given for one state: 1-D of length `n`, or 2-D with `r` rows and `c` columns -/
inductive SdShape where
  | d1 (n : Nat)
  | d2 (r c : Nat)
  deriving Repr, DecidableEq

/-- the number `has_same_dimension` compares: `len(item) * len(item[0])` when `item[0]` is an array (2-D input),
`len(item)` otherwise -/
def SdShape.cmpDim : SdShape → Nat
  | .d1 n => n
  | .d2 r c => r * c

/-- `has_same_dimension(items)`; `none` = `ValueError("The list is empty.")` -/
def sdHasSameDimension : List SdShape → Option Bool
  | [] => none
  | s :: rest => some (rest.all fun t => t.cmpDim == s.cmpDim)

/-- `calculate_vector_matrix_dimension(item)`; `none` = `ValueError` (2-D, neither a row/column nor square) -/
def SdShape.vecMatDim : SdShape → Option Nat
  | .d1 n => some n
  | .d2 r c => if r = 1 ∨ c = 1 then some (max r c) else if r = c then some r else none

/-- the four programs -/
inductive SdForm where
  | mePrimal | meDual | uaPrimal | uaDual
  deriving Repr, DecidableEq

def SdForm.name : SdForm → String
  | .mePrimal => "me_primal"
  | .meDual => "me_dual"
  | .uaPrimal => "ua_primal"
  | .uaDual => "ua_dual"

/-- default values of the keyword arguments `strategy`, `primal_dual`, `solver` -/
def sdDefaultStrategy : String := "min_error"
def sdDefaultPrimalDual : String := "dual"
def sdDefaultSolver : String := "cvxopt"

/-- the dispatch at the end of `state_distinguishability`: every strategy other than `"min_error"` is treated as
`"unambiguous"`, every `primal_dual` other than `"primal"` as `"dual"` -/
def sdDispatch (strategy primalDual : String) : SdForm :=
  if strategy == "min_error" then
    if primalDual == "primal" then .mePrimal else .meDual
  else
    if primalDual == "primal" then .uaPrimal else .uaDual

/-- `probs = [1 / n] * n if probs is None else probs` -/
def sdDefaultProbs (n : Nat) (probs : Option (List Rat)) : List Rat :=
  match probs with
  | none => List.replicate n (1 / (n : Rat))
  | some p => p

/-- the two Gram-form programs -/
def SdForm.isUnamb : SdForm → Bool
  | .uaPrimal => true
  | .uaDual => true
  | _ => false

/-- the check at the top of `vectors_to_gram_matrix` (called first thing by `_unambiguous_primal` / `_unambiguous_dual`):
`all(v.shape == vectors[0].shape for v in vectors)`, else `ValueError("All vectors must be of the same length.")` -/
def sdSameShape : List SdShape → Bool
  | [] => true
  | s :: rest => rest.all fun t => t == s

/-- what `state_distinguishability` has decided when it calls one of its four workers -/
structure SdFront where
  n : Nat
  probs : List Rat
  dim : Nat
  form : SdForm

/-- the lines of `state_distinguishability` before a picos problem is set up (including the shape check of
`vectors_to_gram_matrix` in the two Gram-form workers); `none` = `ValueError` -/
def sdFront (shapes : List SdShape) (probs : Option (List Rat)) (strategy primalDual : String) :
    Option SdFront :=
  match sdHasSameDimension shapes with
  | some true =>
    match shapes.head? with
    | some s =>
      match s.vecMatDim with
      | some dim =>
        if (sdDispatch strategy primalDual).isUnamb && !sdSameShape shapes then none
        else some ⟨shapes.length, sdDefaultProbs shapes.length probs, dim, sdDispatch strategy primalDual⟩
      | none => none
    | none => none
  | _ => none

/-! ## Data of the programs: `to_density_matrix`, `vectors_to_gram_matrix` -/

/-- `to_density_matrix` on a vector (1-D, row or column array): `np.outer(v, conj v)` -/
def sdToDensityVec (v : EMat d 1) : EMat d d := v.mul v.ct

/-- a state argument: a vector (any of the three vector layouts) or a square matrix, which `to_density_matrix`
returns unchanged -/
inductive SdState (d : Nat) where
  | vec (v : EMat d 1)
  | dm (ρ : EMat d d)

/-- `to_density_matrix` -/
def SdState.density : SdState d → EMat d d
  | .vec v => sdToDensityVec v
  | .dm ρ => ρ

/-- the ensemble `_min_error_primal` / `_min_error_dual` work with: `dms = [to_density_matrix(v) …]`, `probs` -/
def sdPrepare (states : List (SdState d)) (probs : Option (List Rat)) : Ensemble d :=
  ⟨states.map SdState.density, sdDefaultProbs states.length probs⟩

/-- `np.column_stack(vectors)`: the vectors as the columns of a `d × k` matrix -/
def sdStackFn (k : Nat) (vs : Fin k → EMat d 1) : EMat d k := ofFn fun a j => (vs j).get a 0

/-- `vectors_to_gram_matrix`: `np.dot(stacked.conj().T, stacked)` -/
def sdGramFn (k : Nat) (vs : Fin k → EMat d 1) : EMat k k := (sdStackFn k vs).ct.mul (sdStackFn k vs)

/-- the vector of a state argument (zero vector for a density-matrix argument: `_unambiguous_*` are only modelled on
vector arguments) -/
def SdState.vector : SdState d → EMat d 1
  | .vec v => v
  | .dm _ => zero

def SdState.isVec : SdState d → Bool
  | .vec _ => true
  | .dm _ => false

/-- `vectors_to_gram_matrix(vectors)` for list arguments -/
def sdGram (states : List (SdState d)) : EMat states.length states.length :=
  sdGramFn states.length fun i => (states.get i).vector

/-! ## The constrained operators of the four programs, as the code writes them -/

/-- `_min_error_primal`: residual of `picos.sum(measurements) == picos.I(dim)` -/
def mePrimalEqResidual (k : Nat) (M : Fin k → EMat d d) : EMat d d := sumMats k M - one

/-- `_min_error_dual`: slack of the `i`-th constraint `y_var >> probs[i] * to_density_matrix(vector)` -/
def meDualSlack {k : Nat} (ρ : Fin k → EMat d d) (p : Fin k → Rat) (Y : EMat d d) (i : Fin k) : EMat d d :=
  Y - smul (p i) (ρ i)

/-- `_unambiguous_primal`: slack of `gram - picos.diag(success_probabilities) >> 0` -/
def uaPrimalSlack (G : EMat k k) (q : Fin k → Rat) : EMat k k := G - diagQ q

/-- `_unambiguous_dual`: slack of the `i`-th constraint `Z[i, i].real >= probs[i]` -/
def uaDualDiagSlack (p : Fin k → Rat) (Z : EMat k k) (i : Fin k) : Rat := (Z.get i i).re - p i

/-! ## `is_distinguishable`: `np.isclose(opt_val, 1)` -/

/-- `|q|` -/
def sdRatAbs (q : Rat) : Rat := if q < 0 then -q else q

/-- `np.isclose(a, b)` with the default tolerances: `|a − b| ≤ atol + rtol · |b|`, `atol = 1e-8`, `rtol = 1e-5` -/
def sdIsclose (a b : Rat) : Bool := decide (sdRatAbs (a - b) ≤ 1 / 100000000 + 1 / 100000 * sdRatAbs b)

/-- `is_distinguishable`: `np.isclose(opt_val, 1)` on the value of the default (min-error, dual) call -/
def sdDistTest (optVal : Rat) : Bool := sdIsclose optVal 1

end Toq.Discrim
