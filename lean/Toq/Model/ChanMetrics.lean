import Toq.Core.EMat
/-!
# Certificate checkers for channel distance measures (C20) — executable, no Mathlib

A linear map `Φ : L(X) → L(Y)` is given by its Choi matrix `J = Σ_ab E_ab ⊗ Φ(E_ab)` on `X ⊗ Y`
(toqito's convention, `kraus_to_choi`): row/column index `x·dY + y`.

**Completely bounded trace norm** (Watrous, "Simpler semidefinite programs for completely bounded
norms", the program solved by `completely_bounded_trace_norm`):

* primal: maximise `Re tr(Jᴴ X)` subject to `[[ρ0 ⊗ 1_Y, X],[Xᴴ, ρ1 ⊗ 1_Y]] ⪰ 0`, `ρ0, ρ1` density operators on `X`;
* dual:   minimise `½(c0 + c1)` subject to `[[Y0, −J],[−Jᴴ, Y1]] ⪰ 0`, `c_i·1 − Tr_Y Y_i ⪰ 0`
  (i.e. `c_i ≥ ‖Tr_Y Y_i‖_∞`; toqito writes `SpectralNorm(y_i.partial_trace(1))`).

**Channel (root) fidelity** (Katariya–Wilde Prop. 50, the program of `channel_fidelity` read with the Loewner
order on the Hermitian part):

* primal: maximise `λ ≥ 0` subject to `[[J1, Qᴴ],[Q, J2]] ⪰ 0`, `½(Tr_Y Q + (Tr_Y Q)ᴴ) − λ·1 ⪰ 0`;
* dual:   minimise `½ Re(tr(J1 W0) + tr(J2 W1))` subject to `[[W0, −ρ ⊗ 1],[−ρ ⊗ 1, W1]] ⪰ 0`, `ρ` a density operator on `X`.

A checker returns the exact objective value if every constraint is verified exactly (`EMat.psdCert` witnesses),
`none` otherwise; the named Boolean conditions are reused by the driver to word a rejection.
-/

namespace Toq.ChanMetrics
open EMat

variable {dX dY n : Nat}

/-! ## Index bookkeeping for `X ⊗ Y` (index `x·dY + y`) -/

theorem pair_lt {a y : Nat} (ha : a < dX) (hy : y < dY) : a * dY + y < dX * dY :=
  calc a * dY + y < a * dY + dY := Nat.add_lt_add_left hy _
    _ = (a + 1) * dY := (Nat.succ_mul a dY).symm
    _ ≤ dX * dY := Nat.mul_le_mul_right _ ha

/-- the index `x·dY + y` of the pair `(x, y)` -/
def pairIdx (a : Fin dX) (y : Fin dY) : Fin (dX * dY) := ⟨a.val * dY + y.val, pair_lt a.isLt y.isLt⟩

theorem dY_pos_of (i : Fin (dX * dY)) : 0 < dY := by
  cases dY with
  | zero => exact absurd i.isLt (by simp)
  | succ k => exact Nat.succ_pos k

/-- `x` of the index `x·dY + y` -/
def fstIdx (i : Fin (dX * dY)) : Fin dX :=
  ⟨i.val / dY, Nat.div_lt_of_lt_mul (Nat.mul_comm dX dY ▸ i.isLt)⟩

/-- `y` of the index `x·dY + y` -/
def sndIdx (i : Fin (dX * dY)) : Fin dY := ⟨i.val % dY, Nat.mod_lt _ (dY_pos_of i)⟩

/-! ## Building blocks -/

/-- `ρ ⊗ 1_Y` on `X ⊗ Y` -/
def kronI (dY : Nat) (ρ : EMat dX dX) : EMat (dX * dY) (dX * dY) :=
  ofFn fun i j => if sndIdx i = sndIdx j then ρ.get (fstIdx i) (fstIdx j) else 0

/-- partial trace over the second factor: `(Tr_Y A)_{ab} = Σ_y A_{(a,y),(b,y)}` -/
def ptrY (dX dY : Nat) (A : EMat (dX * dY) (dX * dY)) : EMat dX dX :=
  ofFn fun a b => sumFin dY fun y => A.get (pairIdx a y) (pairIdx b y)

/-- the `2n × 2n` block matrix `[[A, B],[C, D]]` -/
def blk (A B C D : EMat n n) : EMat (n + n) (n + n) :=
  ofFn fun i j =>
    if hi : i.val < n then
      if hj : j.val < n then A.get ⟨i.val, hi⟩ ⟨j.val, hj⟩
      else B.get ⟨i.val, hi⟩ ⟨j.val - n, by omega⟩
    else
      if hj : j.val < n then C.get ⟨i.val - n, by omega⟩ ⟨j.val, hj⟩
      else D.get ⟨i.val - n, by omega⟩ ⟨j.val - n, by omega⟩

/-- `tr ρ = 1` exactly -/
def traceIsOne (ρ : EMat n n) : Bool := ρ.trace == 1

/-- `ρ` carries a PSD witness and has trace exactly one -/
def densityOk (ρ L : EMat n n) : Bool := psdCert ρ L && traceIsOne ρ

/-- Hermitian part `½(A + Aᴴ)` -/
def hermPart (A : EMat n n) : EMat n n := smul (1 / 2) (A + A.ct)

/-! ## Completely bounded trace norm -/

/-- objective `Re tr(Jᴴ X)` (= `½⟨J,X⟩ + ½⟨X,J⟩`) -/
def cbValue (J X : EMat n n) : Rat := (J.ct.mul X).trace.re

/-- `[[ρ0 ⊗ 1, X],[Xᴴ, ρ1 ⊗ 1]]` -/
def cbPrimalBlock (dX dY : Nat) (ρ0 ρ1 : EMat dX dX) (X : EMat (dX * dY) (dX * dY)) :
    EMat (dX * dY + dX * dY) (dX * dY + dX * dY) :=
  blk (kronI dY ρ0) X X.ct (kronI dY ρ1)

/-- `some (Re tr(Jᴴ X))` iff `ρ0`, `ρ1` have PSD witnesses and trace exactly 1 and the primal block has the PSD
    witness `Lblock`: the returned number is the value of a feasible point, a LOWER bound of the cb trace norm -/
def checkCbPrimal (dX dY : Nat) (J : EMat (dX * dY) (dX * dY)) (ρ0 ρ1 : EMat dX dX)
    (X : EMat (dX * dY) (dX * dY)) (Lblock : EMat (dX * dY + dX * dY) (dX * dY + dX * dY))
    (Lρ0 Lρ1 : EMat dX dX) : Option Rat :=
  if densityOk ρ0 Lρ0 && densityOk ρ1 Lρ1 && psdCert (cbPrimalBlock dX dY ρ0 ρ1 X) Lblock then
    some (cbValue J X)
  else none

/-- `[[Y0, −J],[−Jᴴ, Y1]]` -/
def cbDualBlock (J Y0 Y1 : EMat n n) : EMat (n + n) (n + n) := blk Y0 (-J) (-J.ct) Y1

/-- `c·1 − Tr_Y Y` has the PSD witness `L` (so `c ≥ λ_max(Tr_Y Y) = ‖Tr_Y Y‖_∞`) -/
def normBoundOk (dX dY : Nat) (Y : EMat (dX * dY) (dX * dY)) (c : Rat) (L : EMat dX dX) : Bool :=
  psdCert (scalar c - ptrY dX dY Y) L

/-- `some (½(c0 + c1))` iff the dual block has the PSD witness `Lblock` and `c_i·1 − Tr_Y Y_i` the witnesses `L_i`:
    the returned number is an UPPER bound of the cb trace norm -/
def checkCbDual (dX dY : Nat) (J Y0 Y1 : EMat (dX * dY) (dX * dY)) (c0 c1 : Rat)
    (Lblock : EMat (dX * dY + dX * dY) (dX * dY + dX * dY)) (L0 L1 : EMat dX dX) : Option Rat :=
  if psdCert (cbDualBlock J Y0 Y1) Lblock && normBoundOk dX dY Y0 c0 L0 && normBoundOk dX dY Y1 c1 L1 then
    some ((c0 + c1) / 2)
  else none

/-! ## Channel fidelity -/

/-- `[[J1, Qᴴ],[Q, J2]]` -/
def cfPrimalBlock (J1 J2 Q : EMat n n) : EMat (n + n) (n + n) := blk J1 Q.ct Q J2

/-- `½(Tr_Y Q + (Tr_Y Q)ᴴ) − λ·1` has the PSD witness `L` -/
def cfLoewnerOk (dX dY : Nat) (Q : EMat (dX * dY) (dX * dY)) (lam : Rat) (L : EMat dX dX) : Bool :=
  psdCert (hermPart (ptrY dX dY Q) - scalar lam) L

/-- `some λ` iff `λ ≥ 0`, the block `[[J1, Qᴴ],[Q, J2]]` has the PSD witness `Lblock` and
    `Herm(Tr_Y Q) − λ·1` the witness `Lc`: a LOWER bound of the channel fidelity -/
def checkCfPrimal (dX dY : Nat) (J1 J2 Q : EMat (dX * dY) (dX * dY)) (lam : Rat)
    (Lblock : EMat (dX * dY + dX * dY) (dX * dY + dX * dY)) (Lc : EMat dX dX) : Option Rat :=
  if decide (0 ≤ lam) && psdCert (cfPrimalBlock J1 J2 Q) Lblock && cfLoewnerOk dX dY Q lam Lc then some lam
  else none

/-- `[[W0, −ρ ⊗ 1],[−ρ ⊗ 1, W1]]` -/
def cfDualBlock (dX dY : Nat) (ρ : EMat dX dX) (W0 W1 : EMat (dX * dY) (dX * dY)) :
    EMat (dX * dY + dX * dY) (dX * dY + dX * dY) :=
  blk W0 (-(kronI dY ρ)) (-(kronI dY ρ)) W1

/-- `½ Re(tr(J1 W0) + tr(J2 W1))` -/
def cfDualValue (J1 J2 W0 W1 : EMat n n) : Rat := ((J1.mul W0).trace.re + (J2.mul W1).trace.re) / 2

/-- `some (½ Re(tr(J1 W0) + tr(J2 W1)))` iff `ρ` has a PSD witness and trace exactly 1 and the dual block has the
    PSD witness `Lblock`: an UPPER bound of the channel fidelity -/
def checkCfDual (dX dY : Nat) (J1 J2 : EMat (dX * dY) (dX * dY)) (ρ : EMat dX dX)
    (W0 W1 : EMat (dX * dY) (dX * dY)) (Lρ : EMat dX dX)
    (Lblock : EMat (dX * dY + dX * dY) (dX * dY + dX * dY)) : Option Rat :=
  if densityOk ρ Lρ && psdCert (cfDualBlock dX dY ρ W0 W1) Lblock then some (cfDualValue J1 J2 W0 W1)
  else none

end Toq.ChanMetrics
