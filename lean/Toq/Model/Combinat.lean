import Toq.Model.Perms
/-!
# Mirror models of `toqito/perms/perm_sign.py`, `unique_perms.py`, `perfect_matchings.py`,
`symmetric_projection.py`, `antisymmetric_projection.py` (no Mathlib)

Everything here is executable and linked into the driver.  The last section contains *executable
reference definitions* (`inversions`, `signInv`, `antisymRefN`): they are the Mathlib-free counterparts of the
mathematical specification in `Toq/Spec/Combinat.lean` (proved equal to it in `Toq/Properties/C18.lean`), so that the
harness can obtain the mathematically right projector from the driver as well.  `symForm` / `antisymForm` mirror the control flow of
the two projector functions including the `partial` flag (early returns, shapes; `orth` itself is LAPACK and is not modelled), `binom` is the
rank the isometry forms must have (`Toq.C18.partial_shape`, `symSpec_rank`, `antiSpec_rank`).
-/

namespace Toq.Combinat
open Toq.Perms

/-! ## `perm_sign`:  `linalg.det(np.eye(len(perm))[:, np.array(perm) - 1])` -/

/-- NumPy's normalisation of an integer index on an axis of length `n`: `0 ≤ k < n` is itself,
    `-n ≤ k < 0` wraps to `k + n`, anything else is an `IndexError` -/
def wrapIdx (n : Nat) (k : Int) : Option Nat :=
  if 0 ≤ k ∧ k < (n : Int) then some k.toNat
  else if -(n : Int) ≤ k ∧ k < 0 then some (k + n).toNat
  else none

/-- determinant by Laplace expansion along row 0 (the value LAPACK's LU returns exactly on the 0/1
    matrices that occur here) -/
def detLaplace : (n : Nat) → (Nat → Nat → Int) → Int
  | 0, _ => 1
  | n + 1, M =>
    sumN (n + 1) (fun j => (-1) ^ j * M 0 j * detLaplace n (fun i k => M (i + 1) (if k < j then k else k + 1)))

/-- `np.eye(n)[:, np.array(perm) - 1]`: column `j` is the unit vector number `wrap(perm[j] - 1)` -/
def selMatrix (n : Nat) (perm : Nat → Int) : Nat → Nat → Int :=
  fun i j => if wrapIdx n (perm j - 1) = some i then 1 else 0

/-- all fancy indices `perm[j] - 1` are accepted by NumPy -/
def selValid (n : Nat) (perm : Nat → Int) : Bool :=
  allBelow n (fun j => (wrapIdx n (perm j - 1)).isSome)

/-- `perm_sign(perm)` for a list of length `n` (valid when `selValid`; otherwise NumPy raises `IndexError`) -/
def permSign (n : Nat) (perm : Nat → Int) : Int := detLaplace n (selMatrix n perm)

/-! ## `itertools.permutations(np.arange(p))` -/

/-- every element of the pool together with the remaining pool, in pool order -/
def picks : List α → List (α × List α)
  | [] => []
  | a :: t => (a, t) :: (picks t).map (fun (b, r) => (b, a :: r))

/-- `itertools.permutations(pool)` for a pool of length `k`: lexicographic in pool positions -/
def permsAux : Nat → List α → List (List α)
  | 0, _ => [[]]
  | k + 1, l => (picks l).flatMap (fun (a, r) => (permsAux k r).map (fun t => a :: t))

/-- `list(permutations(np.arange(p)))` -/
def permsList (p : Nat) : List (List Nat) := permsAux p (List.range p)

/-! ## `unique_perms` -/

/-- the admissible iterations of `for i in list_unique: if i.occurrences > 0:` — the chosen value and the
    counter list after `i.occurrences -= 1`, in list order -/
def choices : List (α × Nat) → List (α × List (α × Nat))
  | [] => []
  | (v, c) :: t =>
    (if c > 0 then [(v, (v, c - 1) :: t)] else []) ++ (choices t).map (fun (w, t') => (w, (v, c) :: t'))

/-- `perm_unique_helper(list_unique, result_list, elem_d)` with `d = elem_d + 1` positions still to fill;
    `acc = result_list[elem_d+1:]` are the positions already written (the code fills from the back) -/
def uniqueHelper : Nat → List (α × Nat) → List α → List (List α)
  | 0, _, acc => [acc]
  | d + 1, cs, acc => (choices cs).flatMap (fun (v, cs') => uniqueHelper d cs' (v :: acc))

/-- `list(unique_perms(elements))`; `uniq` is `list(set(elements))` in the interpreter's iteration order
    (implementation-defined, supplied by the caller) -/
def uniquePerms [BEq α] (uniq : List α) (elements : List α) : List (List α) :=
  uniqueHelper elements.length (uniq.map (fun v => (v, elements.count v))) []

/-! ## `perfect_matchings` -/

/-- `perfect_matchings(num)` for a list of distinct objects; one row per matching, the pairs are
    `(row[0],row[1]), (row[2],row[3]), …`.  The length-2 base case returns the 1-D array `num` in Python (one row
    here); the empty list makes the Python recurse forever (`RecursionError`) and is rejected by the driver. -/
def perfectMatchings [BEq α] : List α → List (List α)
  | [] => []
  | [_] => []
  | [a, b] => [[a, b]]
  | a :: b :: c :: rest =>
    if (c :: rest).length % 2 == 1 then [] else
    let lower := perfectMatchings (c :: rest)          -- `lower_fac = perfect_matchings(num[2:])`
    (b :: c :: rest).flatMap (fun x =>                 -- `for j in range(1, len_num)`, `x = num[j]`
      lower.map (fun row =>                            -- `tlower_fac[tlower_fac == num[j]] = num[1]`
        a :: x :: row.map (fun y => if y == x then b else y)))

/-- `perfect_matchings(n)` for an `int` argument: `if isinstance(num, int): num = np.arange(num)` -/
def perfectMatchingsInt (n : Nat) : List (List Nat) := perfectMatchings (List.range n)

/-! ## `symmetric_projection`, `antisymmetric_projection` (dense, `partial=False`), scaled by `p!` -/

/-- `dim * np.ones(p)` -/
def constDims (d : Nat) : Nat → Nat := fun _ => d

/-- `p! · symmetric_projection(d, p)`: the loop `sym_proj += permutation_operator(dim*ones(p), perm, False, True)`
    before the division by `p_fac` -/
def symProjN (d p : Nat) : Nat → Nat → Int :=
  if p = 1 then fun i j => if i = j then 1 else 0          -- `return np.eye(dim)`
  else fun i j => List.sum ((permsList p).map (fun s => permOp (α := Int) p (fnOfList s) (constDims d) false i j))

/-- `p! · antisymmetric_projection(d, p)`: `perm_sign(p_list[j, :] + 1)` — the rows of `p_list` are 0-indexed,
    `perm_sign` wants 1-indexed (without the `+ 1` index `-1` wraps around and the sign is off by `(-1)^(p-1)`:
    `Toq.C18.permSign_zero_indexed`) -/
def antisymProjN (d p : Nat) : Nat → Nat → Int :=
  if p = 1 then fun i j => if i = j then 1 else 0          -- `return np.eye(dim)`
  else if d < p then fun _ _ => 0                           -- `return np.zeros((dimp, dimp))`
  else fun i j => List.sum ((permsList p).map (fun s =>
    permSign p (fun k => ((fnOfList s) k : Int) + 1) * permOp (α := Int) p (fnOfList s) (constDims d) false i j))

/-! ## the `partial=True` forms, as far as they are determined without LAPACK

`symmetric_projection(d, p, True)` / `antisymmetric_projection(d, p, True)` return `scipy.linalg.orth(P)`: *some* matrix with
orthonormal columns spanning the range of `P` (which one is LAPACK's business).  The early returns happen before `partial` is looked
at; the number of columns `orth` must deliver is the rank of `P`, which is a binomial coefficient (`Toq.C18.partial_shape`). -/

/-- binomial coefficient by Pascal's rule (Mathlib-free; `= Nat.choose`: `Toq.Combinat.binom_eq_choose`) -/
def binom : Nat → Nat → Nat
  | _, 0 => 1
  | 0, _ + 1 => 0
  | n + 1, k + 1 => binom n k + binom n (k + 1)

/-- what a `partial`-aware call returns -/
inductive PartialForm where
  /-- literally `np.eye(n)` (`if p == 1: return np.eye(dim)`) -/
  | eye (n : Nat)
  /-- literally `np.zeros((rows, cols))` -/
  | zeros (rows cols : Nat)
  /-- the `p!`-scaled integer projector of the dense model (`partial` false) -/
  | full (rows : Nat)
  /-- `orth(P)`: orthonormal columns spanning the range of the `rows × rows` projector; `cols` of them -/
  | orth (rows cols : Nat)
  deriving Repr, DecidableEq

def PartialForm.shape : PartialForm → Nat × Nat
  | .eye n => (n, n)
  | .zeros r c => (r, c)
  | .full r => (r, r)
  | .orth r c => (r, c)

/-- control flow of `symmetric_projection(dim, p_val, partial)` (after the two `ValueError` guards) -/
def symForm (d p : Nat) (part : Bool) : PartialForm :=
  if p = 1 then .eye d                                       -- `if p_val == 1: return np.eye(dim)`
  else if part then .orth (d ^ p) (binom (d + p - 1) p)      -- `sym_proj = orth(sym_proj)`
  else .full (d ^ p)

/-- control flow of `antisymmetric_projection(dim, p_param, partial)` -/
def antisymForm (d p : Nat) (part : Bool) : PartialForm :=
  if p = 1 then .eye d                                       -- `if p_param == 1: return np.eye(dim)`
  else if d < p then .zeros (d ^ p) (d ^ p * (1 - (if part then 1 else 0)))   -- `np.zeros((dimp, dimp * (1 - partial)))`
  else if part then .orth (d ^ p) (binom d p)                -- `anti_proj = orth(anti_proj)`
  else .full (d ^ p)

/-! ## executable reference definitions (the specification, Mathlib-free) -/

/-- number of inversions `i < j`, `f i > f j` of the first `n` values -/
def inversions (n : Nat) (f : Nat → Int) : Nat :=
  sumN n (fun j => sumN j (fun i => if f j < f i then 1 else 0))

/-- `(-1)^inversions` -/
def signInv (n : Nat) (f : Nat → Int) : Int := (-1) ^ inversions n f

/-- `Σ_σ W_σ` over all permutations of `p` subsystems of dimension `d` -/
def symRefN (d p : Nat) : Nat → Nat → Int :=
  fun i j => List.sum ((permsList p).map (fun s => permOp (α := Int) p (fnOfList s) (constDims d) false i j))

/-- `Σ_σ sgn(σ) W_σ` with the inversion sign -/
def antisymRefN (d p : Nat) : Nat → Nat → Int :=
  fun i j => List.sum ((permsList p).map (fun s =>
    signInv p (fun k => ((fnOfList s) k : Int)) * permOp (α := Int) p (fnOfList s) (constDims d) false i j))

/-- trace of an `N × N` matrix -/
def traceN (N : Nat) (M : Nat → Nat → Int) : Int := sumN N (fun i => M i i)

/-! ## row-wise evaluation used by the driver

Entry `(i, j)` of `Σ_s c_s W_s` is `Σ_s c_s [permIndex_s i = j]`, so a whole row needs each `permIndex_s i` only once.
`Toq/Proofs/Combinat.lean` (`symProjRow_get` etc.) proves that these rows are the rows of the models above. -/

/-- `(c_s, permIndex_s i)` for all `s` -/
def coefRow (coef : List Nat → Int) (d p i : Nat) : List (Int × Nat) :=
  (permsList p).map (fun s => (coef s, permIndex p (fnOfList s) (constDims d) false i))

/-- row `i` (first `N` columns) of `Σ_s c_s W_s` -/
def projRow (coef : List Nat → Int) (d p N i : Nat) : List Int :=
  let row := coefRow coef d p i
  (List.range N).map (fun j => List.sum (row.map (fun ct => if ct.2 = j then ct.1 else 0)))

def eyeRow (N i : Nat) : List Int := (List.range N).map (fun j => if i = j then 1 else 0)

def symProjRow (d p N i : Nat) : List Int :=
  if p = 1 then eyeRow N i else projRow (fun _ => 1) d p N i

def antisymProjRow (d p N i : Nat) : List Int :=
  if p = 1 then eyeRow N i
  else if d < p then (List.range N).map (fun _ => 0)
  else projRow (fun s => permSign p (fun k => ((fnOfList s) k : Int) + 1)) d p N i

def symRefRow (d p N i : Nat) : List Int := projRow (fun _ => 1) d p N i

def antisymRefRow (d p N i : Nat) : List Int :=
  projRow (fun s => signInv p (fun k => ((fnOfList s) k : Int))) d p N i

end Toq.Combinat
