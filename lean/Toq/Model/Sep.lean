import Toq.Core.EMat
/-!
# Exact model for C15 (PPT / separability verdicts) — executable, no Mathlib

* bipartite index arithmetic: a row/column index of an operator on `ℂ^dA ⊗ ℂ^dB` is the flat index
  `a * dB + b` (toqito / NumPy `kron` convention);
* exact partial transposes `ptA`, `ptB`, `pt sys` (`sys` is toqito's 1-based party number) and the
  exchange of the two parties `swapAB`, local conjugation `localConj`;
* certificates that enclose the smallest eigenvalue of a Hermitian matrix:
  `checkLamMinLower A c L` (PSD witness for `A − c·1`) and `checkLamMinUpper A v` (Rayleigh quotient of a
  non-zero vector), and the verdict `pptVerdict` they determine for a tolerance `tol`;
* the Gurvits–Barnum separable-ball test, once as a line-by-line mirror of `in_separable_ball.py`
  (`inSepBallMirror`) and once as the plain rational inequality `(d − 1)·‖M‖_F² ≤ (tr M)²` (`inSepBall`);
* the exact realignment `realignE`, marginals `ptrBE`/`ptrAE` and the partial application `choiApplyB`/`choiApplyA` of a map given
  by its Choi matrix: the operators on which the necessary criteria of `is_separable` (realignment, Zhang et al., positive maps) are
  evaluated.
-/

namespace Toq.Sep
open EMat

/-! ## Bipartite indices -/

theorem pair_lt {dA dB a b : Nat} (ha : a < dA) (hb : b < dB) : a * dB + b < dA * dB := by
  have h1 : a * dB + b < (a + 1) * dB := by rw [Nat.add_mul, Nat.one_mul]; omega
  exact Nat.lt_of_lt_of_le h1 (Nat.mul_le_mul_right _ ha)

theorem fst_lt {dA dB i : Nat} (h : i < dA * dB) : i / dB < dA :=
  Nat.div_lt_of_lt_mul (by rw [Nat.mul_comm]; exact h)

theorem snd_lt {dA dB i : Nat} (h : i < dA * dB) : i % dB < dB := by
  apply Nat.mod_lt
  rcases Nat.eq_zero_or_pos dB with h0 | h0
  · subst h0; simp at h
  · exact h0

variable {dA dB n k : Nat}

/-- flat index `a * dB + b` of the basis vector `|a⟩ ⊗ |b⟩` -/
def pair (a : Fin dA) (b : Fin dB) : Fin (dA * dB) := ⟨a.val * dB + b.val, pair_lt a.isLt b.isLt⟩
/-- index of the first party: `i / dB` -/
def fstI (i : Fin (dA * dB)) : Fin dA := ⟨i.val / dB, fst_lt i.isLt⟩
/-- index of the second party: `i % dB` -/
def sndI (i : Fin (dA * dB)) : Fin dB := ⟨i.val % dB, snd_lt i.isLt⟩

/-! ## Partial transposes, exchange of the parties, local conjugation -/

/-- transpose the second party: entry `((a,b),(a',b'))` becomes `X((a,b'),(a',b))` -/
def ptB (X : EMat (dA * dB) (dA * dB)) : EMat (dA * dB) (dA * dB) :=
  ofFn fun i j => X.get (pair (fstI i) (sndI j)) (pair (fstI j) (sndI i))

/-- transpose the first party: entry `((a,b),(a',b'))` becomes `X((a',b),(a,b'))` -/
def ptA (X : EMat (dA * dB) (dA * dB)) : EMat (dA * dB) (dA * dB) :=
  ofFn fun i j => X.get (pair (fstI j) (sndI i)) (pair (fstI i) (sndI j))

/-- `is_ppt(mat, sys, [dA, dB])` transposes party `sys` (1 = first, anything else = second; toqito's
default is 2) -/
def pt (sys : Nat) (X : EMat (dA * dB) (dA * dB)) : EMat (dA * dB) (dA * dB) :=
  if sys = 1 then ptA X else ptB X

/-- exchange the parties: the operator on `ℂ^dB ⊗ ℂ^dA` with entry `((b,a),(b',a')) = X((a,b),(a',b'))` -/
def swapAB (X : EMat (dA * dB) (dA * dB)) : EMat (dB * dA) (dB * dA) :=
  ofFn fun i j => X.get (pair (sndI i) (fstI i)) (pair (sndI j) (fstI j))

/-- Kronecker product of two square matrices in the flat index convention -/
def kron (U : EMat dA dA) (V : EMat dB dB) : EMat (dA * dB) (dA * dB) :=
  ofFn fun i j => U.get (fstI i) (fstI j) * V.get (sndI i) (sndI j)

/-- `(U ⊗ V) X (U ⊗ V)ᴴ` -/
def localConj (U : EMat dA dA) (V : EMat dB dB) (X : EMat (dA * dB) (dA * dB)) :
    EMat (dA * dB) (dA * dB) :=
  ((kron U V).mul X).mul (kron U V).ct

/-- the rank-one projector-like matrix `v vᴴ` of a column -/
def outer (v : EMat n 1) : EMat n n := v.mul v.ct

/-- `Σ_k w_k (a_k a_kᴴ) ⊗ (b_k b_kᴴ)` for lists of weights and (unnormalised) local vectors; terms beyond
the shortest list are ignored -/
def sepMix : List Rat → List (EMat dA 1) → List (EMat dB 1) → EMat (dA * dB) (dA * dB)
  | w :: ws, a :: as, b :: bs => smul w (kron (outer a) (outer b)) + sepMix ws as bs
  | _, _, _ => zero

/-! ## Certified enclosure of the smallest eigenvalue -/

/-- squared Euclidean norm of a column -/
def normSqV (v : EMat n 1) : Rat := ((v.ct.mul v).get 0 0).re

/-- real part of the quadratic form `vᴴ A v` -/
def quadForm (A : EMat n n) (v : EMat n 1) : Rat := ((v.ct.mul (A.mul v)).get 0 0).re

/-- `some c` iff `L` is a valid PSD witness of `A − c·1` (then every eigenvalue of `A` is `≥ c`) -/
def checkLamMinLower (A : EMat n n) (c : Rat) (L : EMat n k) : Option Rat :=
  if psdCert (A - scalar c) L then some c else none

/-- `some (vᴴAv / vᴴv)` iff `v ≠ 0` (then the smallest eigenvalue of `A` is `≤` that number) -/
def checkLamMinUpper (A : EMat n n) (v : EMat n 1) : Option Rat :=
  if 0 < normSqV v then some (quadForm A v / normSqV v) else none

/-- Verdict on "`λ_min(A) ≥ −tol`" from a lower certificate `(c, L)` and an upper certificate `v`:
`some true` when the certified lower bound is `≥ −tol`, `some false` when the certified upper bound is
`< −tol`, `none` when the certificates do not decide. -/
def lamMinVerdict (A : EMat n n) (tol : Rat) (c : Rat) (L : EMat n k) (v : EMat n 1) : Option Bool :=
  match checkLamMinLower A c L with
  | some lo => if -tol ≤ lo then some true else
      match checkLamMinUpper A v with
      | some hi => if hi < -tol then some false else none
      | none => none
  | none =>
      match checkLamMinUpper A v with
      | some hi => if hi < -tol then some false else none
      | none => none

/-- the PPT verdict for party `sys` and tolerance `tol`, decided by certificates for `pt sys X` -/
def pptVerdict (sys : Nat) (X : EMat (dA * dB) (dA * dB)) (tol : Rat) (c : Rat)
    (L : EMat (dA * dB) k) (v : EMat (dA * dB) 1) : Option Bool :=
  lamMinVerdict (pt sys X) tol c L v

/-! ## The Gurvits–Barnum ball -/

/-- squared Frobenius norm `Σ |m_ij|²` -/
def frob2 {r c : Nat} (M : EMat r c) : Rat :=
  sumFinQ r fun i => sumFinQ c fun j => (M.get i j).re * (M.get i j).re + (M.get i j).im * (M.get i j).im

/-- real part of the trace -/
def trRe (M : EMat n n) : Rat := M.trace.re

/-- **Mirror of `in_separable_ball`** for a square matrix whose trace is real; `thr` stands for
`max_dim * eps`.  Python:
```
if np.trace(mat) < max_dim * eps: return False
mat = mat / np.trace(mat)
return norm(mat / norm(mat, "fro")**2 - eye(max_dim), "fro") <= 1
```
(the last comparison is between non-negative numbers, so it is the comparison of the squares) -/
def inSepBallMirror (thr : Rat) (M : EMat n n) : Bool :=
  if trRe M < thr then false
  else
    let ρ := smul (1 / trRe M) M
    let s := frob2 ρ
    decide (frob2 (smul (1 / s) ρ - one) ≤ 1)

/-- the same test as a single rational inequality: `thr ≤ tr M` and `(n − 1)·‖M‖_F² ≤ (tr M)²` -/
def inSepBall (thr : Rat) (M : EMat n n) : Bool :=
  decide (thr ≤ trRe M) && decide (((n : Rat) - 1) * frob2 M ≤ trRe M * trRe M)

/-- vector form of `in_separable_ball` (the argument is the list of eigenvalues): the test on `diag λ` -/
def inSepBallEig (thr : Rat) (lam : List Rat) : Bool :=
  inSepBall (n := lam.length) thr (ofFn fun i j => if i = j then QI.ofRat (lam.getD i.val 0) else 0)

/-! ## Realignment, partial traces, partial application of a map given by its Choi matrix

(the quantities evaluated by the necessary criteria of `is_separable` after the PPT test) -/

/-- `realignment(X, [dA, dB])`: the `dA² × dB²` matrix with entry `(a·dA + a', b·dB + b') = X[a·dB + b, a'·dB + b']` -/
def realignE (X : EMat (dA * dB) (dA * dB)) : EMat (dA * dA) (dB * dB) :=
  ofFn fun i j => X.get (pair (fstI i) (fstI j)) (pair (sndI i) (sndI j))

/-- `partial_trace(X, [1], [dA, dB])`: trace out the second party -/
def ptrBE (X : EMat (dA * dB) (dA * dB)) : EMat dA dA :=
  ofFn fun a a' => sumFin dB fun b => X.get (pair a b) (pair a' b)

/-- `partial_trace(X, [0], [dA, dB])`: trace out the first party -/
def ptrAE (X : EMat (dA * dB) (dA * dB)) : EMat dB dB :=
  ofFn fun b b' => sumFin dA fun a => X.get (pair a b) (pair a b')

/-- `partial_channel(X, J, 2, [dA, dB])` for a Choi matrix `J = Σ_kl E_kl ⊗ Φ(E_kl)` of a map from `dB × dB` to
`dO × dO` matrices: `(id ⊗ Φ)(X)[a·dO + o, a'·dO + o'] = Σ_kl X[a·dB + k, a'·dB + l] · J[k·dO + o, l·dO + o']` -/
def choiApplyB {dO : Nat} (J : EMat (dB * dO) (dB * dO)) (X : EMat (dA * dB) (dA * dB)) :
    EMat (dA * dO) (dA * dO) :=
  ofFn fun i j => sumFin dB fun k => sumFin dB fun l =>
    X.get (pair (fstI i) k) (pair (fstI j) l) * J.get (pair k (sndI i)) (pair l (sndI j))

/-- `partial_channel(X, J, 1, [dA, dB])`: `(Φ ⊗ id)(X)[o·dB + b, o'·dB + b'] = Σ_kl X[k·dB + b, l·dB + b'] · J[k·dO + o, l·dO + o']` -/
def choiApplyA {dO : Nat} (J : EMat (dA * dO) (dA * dO)) (X : EMat (dA * dB) (dA * dB)) :
    EMat (dO * dB) (dO * dB) :=
  ofFn fun i j => sumFin dA fun k => sumFin dA fun l =>
    X.get (pair k (sndI i)) (pair l (sndI j)) * J.get (pair k (fstI i)) (pair l (fstI j))

end Toq.Sep
