import Toq.Model.Discrim
/-!
# Certificate checkers for quantum state exclusion (C11) — executable, no Mathlib

Minimum-error (conclusive) exclusion of an ensemble `{(p_i, ρ_i)}` (toqito `state_exclusion`,
`_min_error_primal` / `_min_error_dual`):

* primal: minimise `Σ_i p_i tr(ρ_i M_i)` over POVMs `M`;
* dual:   maximise `tr Y` subject to `Y ⪯ p_i ρ_i` for every `i`, `Y` Hermitian.

A checker takes a candidate point together with PSD witnesses (`EMat.psdCert`) and returns the exact
rational objective value if every constraint is verified exactly, `none` otherwise.  An accepted primal
certificate gives an UPPER bound of the minimum, an accepted dual certificate a LOWER bound.
The helpers `Ensemble`, `matAt`, `sumMats`, `povmPsdOk`, `povmSumOk`, `minErrValueFn`, `lens3Ok` are shared
with `Toq.Model.Discrim` (the primal feasible set – POVMs – and the objective are those of state
discrimination; only the direction of optimisation and the dual differ).
-/

namespace Toq.Excl
open EMat Toq.Discrim

variable {d : Nat}

/-! ## Function-indexed core checkers -/

/-- `Σ_i p_i · Re tr(ρ_i M_i)`: probability that the excluded state is the one that was prepared -/
def exclValueFn (k : Nat) (ρ : Fin k → EMat d d) (p : Fin k → Rat) (M : Fin k → EMat d d) : Rat :=
  minErrValueFn k ρ p M

/-- `some (Σ_i p_i Re tr(ρ_i M_i))` iff every `M_i` has a valid PSD witness and `Σ_i M_i = 1` exactly -/
def checkExclPrimalFn (k : Nat) (ρ : Fin k → EMat d d) (p : Fin k → Rat) (M LM : Fin k → EMat d d) :
    Option Rat :=
  if povmPsdOk k M LM && povmSumOk k M then some (exclValueFn k ρ p M) else none

/-- slack `p_i ρ_i − Y` of the `i`-th constraint `y_var << probs[i] * ρ_i` of `_min_error_dual` -/
def exclDualSlack {k : Nat} (ρ : Fin k → EMat d d) (p : Fin k → Rat) (Y : EMat d d) (i : Fin k) : EMat d d :=
  smul (p i) (ρ i) - Y

/-- every `p_i ρ_i − Y` carries a valid PSD witness -/
def exclDualPsdOk (k : Nat) (ρ : Fin k → EMat d d) (p : Fin k → Rat) (Y : EMat d d)
    (LY : Fin k → EMat d d) : Bool :=
  allFin k fun i => psdCert (exclDualSlack ρ p Y i) (LY i)

/-- `some (Re tr Y)` iff `Y` is Hermitian and every `p_i ρ_i − Y` has a valid PSD witness -/
def checkExclDualFn (k : Nat) (ρ : Fin k → EMat d d) (p : Fin k → Rat) (Y : EMat d d)
    (LY : Fin k → EMat d d) : Option Rat :=
  if Y.isHermitian && exclDualPsdOk k ρ p Y LY then some Y.trace.re else none

/-! ## List-based interface -/

/-- `Σ_i p_i · Re tr(ρ_i M_i)` for list arguments -/
def exclValue (ens : Ensemble d) (M : List (EMat d d)) : Rat :=
  exclValueFn ens.size (fun i => ens.state i) (fun i => ens.prob i) (fun i => matAt M i)

/-- `some (Σ_i p_i Re tr(ρ_i M_i))` iff the lists `probs`, `M`, `LM` have as many elements as there are
    states, every `M_i` has `psdCert M_i LM_i = true` and `Σ_i M_i = 1` entrywise exactly -/
def checkExclPrimal (ens : Ensemble d) (M LM : List (EMat d d)) : Option Rat :=
  if lens3Ok ens.size ens.probs.length M.length LM.length then
    checkExclPrimalFn ens.size (fun i => ens.state i) (fun i => ens.prob i)
      (fun i => matAt M i) (fun i => matAt LM i)
  else none

/-- `some (Re tr Y)` iff `Y` is Hermitian, lengths agree and every `p_i ρ_i − Y` has the valid PSD
    witness `LY_i` -/
def checkExclDual (ens : Ensemble d) (Y : EMat d d) (LY : List (EMat d d)) : Option Rat :=
  if lens3Ok ens.size ens.probs.length LY.length ens.size then
    checkExclDualFn ens.size (fun i => ens.state i) (fun i => ens.prob i) Y (fun i => matAt LY i)
  else none

/-! ## The programs `state_exclusion` builds, evaluated at a point

Every constraint of the four picos programs has a *slack*: the operator that must be PSD, or the residual that
must vanish.  The checkers below accept exactly when each slack passes its exact test, and the driver hands the
same slacks to the harness, which compares them entry by entry with the slacks of the *captured* picos
problem at the same point (stream `embedding`). -/

/-- `Σ_i p_i ρ_i` (`sums_of_unnormalized_dms` in `_unambiguous_primal` / `_unambiguous_dual`) -/
def sumStates (k : Nat) (ρ : Fin k → EMat d d) (p : Fin k → Rat) : EMat d d :=
  sumMats k fun i => smul (p i) (ρ i)

/-- residual of `picos.sum(measurements) == picos.I(dim)` in `_min_error_primal` -/
def exclPrimalEqResidual (k : Nat) (M : Fin k → EMat d d) : EMat d d := sumMats k M - one

/-- `inconclusive_measurement = I − Σ_i M_i` of `_unambiguous_primal` -/
def unambRest (k : Nat) (M : Fin k → EMat d d) : EMat d d := one - sumMats k M

/-- left side of the `i`-th constraint `(m | rho).real == 0` of `_unambiguous_primal` (`rho = p_i ρ_i`) -/
def unambZeroLhs {k : Nat} (ρ : Fin k → EMat d d) (p : Fin k → Rat) (M : Fin k → EMat d d) (i : Fin k) : Rat :=
  ((smul (p i) (ρ i)).mul (M i)).trace.re

/-- objective `Re tr(Σ_i p_i ρ_i · (I − Σ_i M_i))` of `_unambiguous_primal` -/
def unambExclValueFn (k : Nat) (ρ : Fin k → EMat d d) (p : Fin k → Rat) (M : Fin k → EMat d d) : Rat :=
  ((sumStates k ρ p).mul (unambRest k M)).trace.re

/-- slack of the `i`-th constraint `N + a[i] * p_i ρ_i >> Σ_j p_j ρ_j` of `_unambiguous_dual` -/
def unambDualSlack (k : Nat) (ρ : Fin k → EMat d d) (p : Fin k → Rat) (N : EMat d d) (a : Fin k → Rat)
    (i : Fin k) : EMat d d :=
  N + smul (a i) (smul (p i) (ρ i)) - sumStates k ρ p

/-- the objective `1 − tr N` that `_unambiguous_dual` hands to the solver -/
def unambDualCodeObjective (N : EMat d d) : Rat := 1 - N.trace.re

/-- the bound that weak duality gives for a dual-feasible `(N, a)`: `Re tr(Σ_i p_i ρ_i) − Re tr N`
(equal to the code's objective exactly when `Re tr(Σ_i p_i ρ_i) = 1`) -/
def unambDualBound (k : Nat) (ρ : Fin k → EMat d d) (p : Fin k → Rat) (N : EMat d d) : Rat :=
  (sumStates k ρ p).trace.re - N.trace.re

/-- `some (Re tr(S (1 − Σ M_i)))` iff every `M_i` and `1 − Σ_i M_i` has a valid PSD witness and
`Re tr(p_i ρ_i M_i) = 0` exactly for every `i` -/
def checkUnambExclPrimalFn (k : Nat) (ρ : Fin k → EMat d d) (p : Fin k → Rat) (M LM : Fin k → EMat d d)
    (LR : EMat d d) : Option Rat :=
  if povmPsdOk k M LM && psdCert (unambRest k M) LR && allFin k (fun i => decide (unambZeroLhs ρ p M i = 0))
  then some (unambExclValueFn k ρ p M) else none

/-- `some (Re tr S − Re tr N)` iff `N` and every `N + a_i p_i ρ_i − S` has a valid PSD witness -/
def checkUnambExclDualFn (k : Nat) (ρ : Fin k → EMat d d) (p : Fin k → Rat) (N : EMat d d) (a : Fin k → Rat)
    (LN : EMat d d) (LD : Fin k → EMat d d) : Option Rat :=
  if psdCert N LN && allFin k (fun i => psdCert (unambDualSlack k ρ p N a i) (LD i))
  then some (unambDualBound k ρ p N) else none

/-- list interface of `checkUnambExclPrimalFn` (lengths of `probs`, `M`, `LM` must equal the number of states) -/
def checkUnambExclPrimal (ens : Ensemble d) (M LM : List (EMat d d)) (LR : EMat d d) : Option Rat :=
  if lens3Ok ens.size ens.probs.length M.length LM.length then
    checkUnambExclPrimalFn ens.size (fun i => ens.state i) (fun i => ens.prob i)
      (fun i => matAt M i) (fun i => matAt LM i) LR
  else none

/-- list interface of `checkUnambExclDualFn` (lengths of `probs`, `a`, `LD` must equal the number of states) -/
def checkUnambExclDual (ens : Ensemble d) (N : EMat d d) (a : List Rat) (LN : EMat d d)
    (LD : List (EMat d d)) : Option Rat :=
  if lens3Ok ens.size ens.probs.length a.length LD.length then
    checkUnambExclDualFn ens.size (fun i => ens.state i) (fun i => ens.prob i) N (fun i => ratAt a i) LN
      (fun i => matAt LD i)
  else none

/-! ## Argument normalisation of `state_exclusion` -/

/-- `to_density_matrix` on a vector (1-D, row or column array): `np.outer(v, conj v)` -/
def toDensityVec (v : EMat d 1) : EMat d d := v.mul v.ct

/-- a state argument: a vector (any of the three vector layouts) or a square matrix, which
`to_density_matrix` returns unchanged -/
inductive StateArg (d : Nat) where
  | vec (v : EMat d 1)
  | dm (ρ : EMat d d)

/-- `to_density_matrix` -/
def StateArg.density : StateArg d → EMat d d
  | .vec v => toDensityVec v
  | .dm ρ => ρ

/-- `probs = [1 / n] * n if probs is None else probs` -/
def defaultProbs (n : Nat) (probs : Option (List Rat)) : List Rat :=
  match probs with
  | none => List.replicate n (1 / (n : Rat))
  | some p => p

/-- the ensemble the four programs are built from -/
def prepare (states : List (StateArg d)) (probs : Option (List Rat)) : Ensemble d :=
  ⟨states.map StateArg.density, defaultProbs states.length probs⟩

/-! ## What `is_antidistinguishable` and `common_quantum_overlap` do with the solver's value -/

/-- `|q|` -/
def ratAbs (q : Rat) : Rat := if q < 0 then -q else q

/-- NumPy's default absolute tolerance of `isclose` -/
def npAtol : Rat := 1 / 100000000
/-- NumPy's default relative tolerance of `isclose` -/
def npRtol : Rat := 1 / 100000

/-- `np.isclose(a, b)` with the default tolerances: `|a − b| ≤ atol + rtol · |b|` -/
def isclose (a b : Rat) : Bool := decide (ratAbs (a - b) ≤ npAtol + npRtol * ratAbs b)

/-- the weights `[1] * len(states)` both functions pass as `probs` -/
def onesProbs (n : Nat) : List Rat := List.replicate n 1

/-- `is_antidistinguishable`: `np.isclose(opt_val, 0)` -/
def antidistTest (optVal : Rat) : Bool := isclose optVal 0

/-- `common_quantum_overlap`: `n * (1 - (1 - opt_val / n))` -/
def cqoPost (n : Nat) (optVal : Rat) : Rat := (n : Rat) * (1 - (1 - optVal / (n : Rat)))

/-! ## The named families: `trine()` and `pusey_barrett_rudolph(n, theta)`

The constructors are polynomial in a few irrational numbers (`√3`; `cos(θ/2)`, `sin(θ/2)`); the model takes those
numbers as parameters of an arbitrary scalar type, so the same definition runs on exact rationals in the driver and
is instantiated at `ℂ` in the proofs. -/

section Families
variable {α : Type} [Add α] [Sub α] [Mul α] [Neg α] [Zero α] [One α]

/-- `np.kron` of two vectors -/
def kronVec (u v : List α) : List α := u.flatMap fun x => v.map fun y => x * y

/-- `tensor([v_0, …, v_{m-1}])` for a non-empty list: left fold of `np.kron` starting from `v_0` -/
def tensorVecs : List (List α) → List α
  | [] => []
  | v :: vs => vs.foldl kronVec v

/-- `itertools.product([0, 1], repeat=n)` in its order (last position varies fastest) -/
def binaryStrings : Nat → List (List Nat)
  | 0 => [[]]
  | n + 1 => (binaryStrings n).flatMap fun b => [b ++ [0], b ++ [1]]

/-- `psi = [cos(θ/2) e_0 + sin(θ/2) e_1, cos(θ/2) e_0 − sin(θ/2) e_1]` with `c = cos(θ/2)`, `s = sin(θ/2)` -/
def pbrPsi (c s : α) (b : Nat) : List α := if b = 0 then [c, s] else [c, -s]

/-- `pusey_barrett_rudolph(n, theta)` as a list of `2^n` vectors of length `2^n` -/
def pbrStates (n : Nat) (c s : α) : List (List α) :=
  (binaryStrings n).map fun b => tensorVecs (b.map (pbrPsi c s))

/-- `trine()`: `e_0`, `−½(e_0 + √3 e_1)`, `−½(e_0 − √3 e_1)` with `h = ½`, `r = √3` -/
def trineStates (h r : α) : List (List α) :=
  [[1, 0], [-h * (1 + r * 0), -h * (0 + r * 1)], [-h * (1 - r * 0), -h * (0 - r * 1)]]

end Families

end Toq.Excl
