import Toq.Model.Discrim
/-!
# Certificate checkers for quantum state exclusion (C11) — executable, no Mathlib

Minimum-error (conclusive) exclusion of an ensemble `{(p_i, ρ_i)}` (toqito `state_exclusion`,
`_min_error_primal` / `_min_error_dual`):

* primal: minimise `Σ_i p_i tr(ρ_i M_i)` over POVMs `M`;
* dual:   maximise `tr Y` subject to `Y ⪯ p_i ρ_i` for every `i`, `Y` Hermitian.

A checker takes a candidate point together with PSD witnesses (`EMat.psdCert`) and returns the exact
rational objective value if every constraint is verified exactly, `none` otherwise.  An accepted primal
certificate gives an UPPER bound of the minimum, an accepted dual certificate a LOWER bound.
The helpers `Ensemble`, `matAt`, `sumMats`, `povmPsdOk`, `povmSumOk`, `minErrValueFn`, `lens3Ok` are shared
with `Toq.Model.Discrim` (the primal feasible set – POVMs – and the objective are those of state
discrimination; only the direction of optimisation and the dual differ).
-/

namespace Toq.Excl
open EMat Toq.Discrim

variable {d : Nat}

/-! ## Function-indexed core checkers -/

/-- `Σ_i p_i · Re tr(ρ_i M_i)`: probability that the excluded state is the one that was prepared -/
def exclValueFn (k : Nat) (ρ : Fin k → EMat d d) (p : Fin k → Rat) (M : Fin k → EMat d d) : Rat :=
  minErrValueFn k ρ p M

/-- `some (Σ_i p_i Re tr(ρ_i M_i))` iff every `M_i` has a valid PSD witness and `Σ_i M_i = 1` exactly -/
def checkExclPrimalFn (k : Nat) (ρ : Fin k → EMat d d) (p : Fin k → Rat) (M LM : Fin k → EMat d d) :
    Option Rat :=
  if povmPsdOk k M LM && povmSumOk k M then some (exclValueFn k ρ p M) else none

/-- every `p_i ρ_i − Y` carries a valid PSD witness -/
def exclDualPsdOk (k : Nat) (ρ : Fin k → EMat d d) (p : Fin k → Rat) (Y : EMat d d)
    (LY : Fin k → EMat d d) : Bool :=
  allFin k fun i => psdCert (smul (p i) (ρ i) - Y) (LY i)

/-- `some (Re tr Y)` iff `Y` is Hermitian and every `p_i ρ_i − Y` has a valid PSD witness -/
def checkExclDualFn (k : Nat) (ρ : Fin k → EMat d d) (p : Fin k → Rat) (Y : EMat d d)
    (LY : Fin k → EMat d d) : Option Rat :=
  if Y.isHermitian && exclDualPsdOk k ρ p Y LY then some Y.trace.re else none

/-! ## List-based interface -/

/-- `Σ_i p_i · Re tr(ρ_i M_i)` for list arguments -/
def exclValue (ens : Ensemble d) (M : List (EMat d d)) : Rat :=
  exclValueFn ens.size (fun i => ens.state i) (fun i => ens.prob i) (fun i => matAt M i)

/-- `some (Σ_i p_i Re tr(ρ_i M_i))` iff the lists `probs`, `M`, `LM` have as many elements as there are
    states, every `M_i` has `psdCert M_i LM_i = true` and `Σ_i M_i = 1` entrywise exactly -/
def checkExclPrimal (ens : Ensemble d) (M LM : List (EMat d d)) : Option Rat :=
  if lens3Ok ens.size ens.probs.length M.length LM.length then
    checkExclPrimalFn ens.size (fun i => ens.state i) (fun i => ens.prob i)
      (fun i => matAt M i) (fun i => matAt LM i)
  else none

/-- `some (Re tr Y)` iff `Y` is Hermitian, lengths agree and every `p_i ρ_i − Y` has the valid PSD
    witness `LY_i` -/
def checkExclDual (ens : Ensemble d) (Y : EMat d d) (LY : List (EMat d d)) : Option Rat :=
  if lens3Ok ens.size ens.probs.length LY.length ens.size then
    checkExclDualFn ens.size (fun i => ens.state i) (fun i => ens.prob i) Y (fun i => matAt LY i)
  else none

end Toq.Excl
