import Toq.Model.States
/-!
# Further closed-form models of `toqito/states/*.py` (no Mathlib): mutually unbiased bases

`mutually_unbiased_basis(dim)` (prime `dim`) returns the standard basis followed by the eigenvectors, as computed by LAPACK, of
`pauli_x @ pauli_z ** j` for `j = dim, dim-1, …, 1` (`**` is NumPy's *elementwise* power, which for the diagonal
clock matrix and `j ≥ 1` coincides with the matrix power).  LAPACK fixes neither the order nor the phase of the
eigenvectors, so the model is the closed form of the eigenvectors (`mubE`, exponent model, odd `dim`; `mub2`, Gaussian-integer
table, `dim = 2`) and the theorems say: they are eigenvectors of the mirrored matrix, every eigenvector of that matrix is a
multiple of one of them, and the bases are orthonormal and mutually unbiased.
-/
namespace Toq.States
open Toq.Matrices

/-- triangular numbers `T(x) = x(x-1)/2` (division-free recursion) -/
def tri : Nat → Nat
  | 0 => 0
  | x + 1 => tri x + x

/-- exponent model of the `m`-th eigenvector (eigenvalue `ω^{-m}`) of `X Z^j` for odd `d`:
    component `x` is `ω^{j·T(x) + m·x} / √d` -/
def mubE (d j m : Nat) : Nat → RU := fun x => some ((j * tri x + m * x) % d)

/-- valued model of the same vector (numerators) -/
def mubVec [HPow α Nat α] (ω : α) (j m : Nat) : Nat → α := fun x => ω ^ (j * tri x + m * x)

/-- the matrix handed to `np.linalg.eig`: `gen_pauli(1, 0, d) @ gen_pauli(0, 1, d) ** j` with the elementwise power -/
def mubMatMirror [Add α] [Mul α] [Zero α] [HPow α Nat α] (ω : α) (d j : Nat) : Nat → Nat → α :=
  matMul d (genPauli ω d 1 0) (fun i k => (genPauli ω d 0 1 i k) ^ j)

/-- the index `j` of the matrix `X Z^j` whose eigenvectors form the `g`-th returned basis (`g = 1..d`; `g = 0` is the
    standard basis): the loop runs `j = d, d-1, …, 1` -/
def mubLoopJ (d g : Nat) : Nat := d + 1 - g

/-- `dim = 2`: numerators (Gaussian integers) of the six vectors, basis `g`, vector `m`;
    `g = 0`: `e_m` (`den2 = 1`); `g = 1`: eigenvectors `(1, ±1)/√2` of `X Z² = X`; `g = 2`: eigenvectors `(1, ∓i)/√2` of
    `X Z = [[0,-1],[1,0]]` (eigenvalues `±i`) -/
def mub2 (g m : Nat) : Nat → GI := fun x =>
  match g, m, x with
  | 0, 0, 0 => 1 | 0, 1, 1 => 1
  | 1, _, 0 => 1 | 1, 0, 1 => 1 | 1, 1, 1 => ⟨-1, 0⟩
  | 2, _, 0 => 1 | 2, 0, 1 => ⟨0, -1⟩ | 2, 1, 1 => ⟨0, 1⟩
  | _, _, _ => 0

def mub2Den2 (g : Nat) : Nat := if g = 0 then 1 else 2

/-- eigenvalue (Gaussian integer) of `mub2 g m` for the matrix `mub2Mat g` -/
def mub2Eig (g m : Nat) : GI :=
  match g, m with
  | 1, 0 => 1 | 1, _ => ⟨-1, 0⟩
  | 2, 0 => ⟨0, 1⟩ | 2, _ => ⟨0, -1⟩
  | _, _ => 1

/-- `pauli_x @ pauli_z ** j` for `dim = 2` (`j = 3 - g`), over the Gaussian integers -/
def mub2Mat (g : Nat) : Nat → Nat → GI :=
  matMul 2 (pauli 1) (fun i k => (List.range (3 - g)).foldl (fun acc _ => acc * pauli 3 i k) 1)

end Toq.States

namespace Toq.States

/-! ### the dimension guard of `mutually_unbiased_basis` -/

/-- `sympy.isprime(n)` by trial division -/
def isPrimeB (n : Nat) : Bool := decide (2 ≤ n) && (List.range (n - 2)).all (fun k => n % (k + 2) != 0)

/-- `int(n ** 0.5)` (exact for the small `n` in scope) -/
def isqrt (n : Nat) : Nat := (List.range (n + 1)).foldl (fun acc k => if k * k ≤ n then k else acc) 0

/-- `while n % p == 0: n //= p` -/
def stripFactor : Nat → Nat → Nat → Nat
  | 0, n, _ => n
  | fuel + 1, n, p => if n % p == 0 then stripFactor fuel (n / p) p else n

/-- `_is_prime_power(n)` -/
def isPrimePowerB (n : Nat) : Bool :=
  if n == 1 then false else
  match ((List.range (isqrt n + 1 - 2)).map (· + 2)).find? (fun p => isPrimeB p && n % p == 0) with
  | some p => stripFactor n n p == 1
  | none => isPrimeB n

/-- the branch taken by `mutually_unbiased_basis(dim)`: `0` = prime (bases are built), `1` = `ValueError` "prime power but
    not prime", `2` = `ValueError` "No general construction" -/
def mubGuard (d : Nat) : Nat := if isPrimeB d then 0 else if isPrimePowerB d then 1 else 2

end Toq.States

/-!
# Constructors without a parameter-free closed form: `bb84`, `trine`, `gisin`, `pusey_barrett_rudolph`, `breuer`, `brauer`,
`chessboard`

Trigonometric parameters enter the models through `s = sin`, `c = cos` of the relevant angle (the harness passes rational
Pythagorean pairs and calls toqito with the angle `atan2(s, c)`); the theorems assume only `c² + s² = 1`.
-/
namespace Toq.States
open Toq.Matrices

/-- `bb84()[b][m]`: numerators; `b = 0` computational basis (`den2 = 1`), `b = 1` the `|±⟩` basis (`den2 = 2`) -/
def bb84S (b m : Nat) : Nat → Int := fun x =>
  match b, m, x with
  | 0, 0, 0 => 1 | 0, 1, 1 => 1
  | 1, _, 0 => 1 | 1, 0, 1 => 1 | 1, 1, 1 => -1
  | _, _, _ => 0

def bb84Den2 (b : Nat) : Nat := if b = 0 then 1 else 2

/-- `trine()[k]`: component `x` is `(p + q√3)/2` for the pair `(p, q)`:
    `e_0`, `-(e_0 + √3 e_1)/2`, `-(e_0 - √3 e_1)/2` -/
def trineS (k : Nat) : Nat → Int × Int := fun x =>
  match k, x with
  | 0, 0 => (2, 0)
  | 1, 0 => (-1, 0) | 1, 1 => (0, -1)
  | 2, 0 => (-1, 0) | 2, 1 => (0, 1)
  | _, _ => (0, 0)

/-- multiplication in `ℤ[√3]` -/
def mulR3 (a b : Int × Int) : Int × Int := (a.1 * b.1 + 3 * a.2 * b.2, a.1 * b.2 + a.2 * b.1)

def addR3 (a b : Int × Int) : Int × Int := (a.1 + b.1, a.2 + b.2)

section field2
variable {α : Type} [Add α] [Sub α] [Mul α] [Div α] [Zero α] [One α] [NatCast α]

/-- `gisin(λ, θ)` with `s = sin θ`, `c = cos θ`: `λ ρ_θ + (1-λ)(|00⟩⟨00| + |11⟩⟨11|)/2`,
    `ρ_θ = [[s², -sin(2θ)/2], [-sin(2θ)/2, c²]]` on `span{|01⟩, |10⟩}` (`sin 2θ = 2 s c`) -/
def gisin (lam s c : α) : Nat → Nat → α := fun i j =>
  let rt : α :=
    if i = 1 ∧ j = 1 then s * s
    else if (i = 1 ∧ j = 2) ∨ (i = 2 ∧ j = 1) then (0 - ((2 : Nat) : α) * s * c) / ((2 : Nat) : α)
    else if i = 2 ∧ j = 2 then c * c
    else 0
  let uudd : α := if i = j ∧ (i = 0 ∨ i = 3) then 1 else 0
  lam * rt + (1 - lam) * uudd / ((2 : Nat) : α)

/-- the pure state `|ψ_θ⟩ = s|01⟩ - c|10⟩` with `ρ_θ = |ψ_θ⟩⟨ψ_θ|` -/
def gisinPsi (s c : α) : Nat → α := fun i => if i = 1 then s else if i = 2 then 0 - c else 0

/-- component `x ∈ {0,1}` of `ψ_b`, `ψ_0 = c e_0 + s e_1`, `ψ_1 = c e_0 - s e_1` (`c = cos(θ/2)`, `s = sin(θ/2)`) -/
def pbrAmp (c s : α) (b x : Nat) : α := if x = 0 then c else if b = 0 then s else 0 - s

/-- `pusey_barrett_rudolph(n, θ)[t]`, component `x`: the tensor product `ψ_{b_0} ⊗ … ⊗ ψ_{b_{n-1}}` for the bit string
    `b = itertools.product([0,1], repeat=n)[t]` (first bit most significant, in `t` and in `x`) -/
def pbrVec (c s : α) : Nat → Nat → Nat → α
  | 0, _, _ => 1
  | n + 1, t, x => pbrVec c s n (t / 2) (x / 2) * pbrAmp c s (t % 2) (x % 2)

/-- the Gram matrix of the PBR states in product form -/
def pbrGram (c s : α) : Nat → Nat → Nat → α
  | 0, _, _ => 1
  | n + 1, t, t' => pbrGram c s n (t / 2) (t' / 2) * (if t % 2 = t' % 2 then c * c + s * s else c * c - s * s)

/-- numerators of `√d · (I ⊗ V) max_entangled(d)`, `V = fliplr(diag((-1)^{(k+1) mod 2}))`: closed form
    `ψ[i·d + j] = [j = d-1-i]·(-1)^{j+1}` -/
def breuerPsi (d : Nat) : Nat → Int := fun r =>
  if r % d + r / d + 1 = d then (if (r % d) % 2 = 0 then -1 else 1) else 0

/-- `np.fliplr(np.diag((-1) ** np.mod(np.arange(1, dim + 1), 2)))` -/
def breuerV (d : Nat) : Nat → Nat → Int := fun i j =>
  if i + j + 1 = d then (if (i + 1) % 2 = 0 then 1 else -1) else 0

/-- mirror: `np.kron(np.identity(dim), v_mat) @ max_entangled(dim)` (numerators, `den2 = d`) -/
def breuerPsiMirror (d : Nat) : Nat → Int := fun r =>
  sumN (d * d) (fun c => kron d d (matId (α := Int)) (breuerV d) r c * maxEntS d c)

/-- `breuer(d, λ) = λ |ψ⟩⟨ψ| + (1-λ)·2·P_sym/(d(d+1))`, `P_sym = (I + SWAP)/2` -/
def breuer [IntCast α] (d : Nat) (psi : Nat → Int) (lam : α) : Nat → Nat → α := fun r c =>
  lam * (((psi r : Int) : α) * ((psi c : Int) : α)) / (d : α)
    + (1 - lam) * ((2 : Nat) : α) * ((delta r c + swapOp d r c) / ((2 : Nat) : α)) / ((d : α) * ((d : α) + 1))

end field2

/-- `tensor(max_entangled(d, False, False), p)`: the `p`-fold Kronecker power of `Σ_i |ii⟩` -/
def brauerPhi (d : Nat) : Nat → Nat → Int
  | 0, _ => 1
  | p + 1, r => brauerPhi d p (r / (d * d)) * maxEntS d (r % (d * d))

/-- column of `brauer(d, p)` for the matching (row of `perfect_matchings(2p)`) `mt`:
    `permute_systems(phi, mt, [d]*2p)` -/
def brauerCol (d p : Nat) (mt : List Nat) : Nat → Int :=
  Toq.Perms.permuteVec (brauerPhi d p) (2 * p) (fnOfList mt) (fun _ => d) false

section conj
variable {α : Type} [Add α] [Sub α] [Mul α] [Div α] [Zero α] [One α] [HasConj α]

/-- the four vectors of `chessboard(mat_params, s, t)`; `pr k = mat_params[k]` -/
def chessVec (pr : Nat → α) (s t : α) (k : Nat) : Nat → α := fun x =>
  let cj := HasConj.conj (α := α)
  match k, x with
  | 0, 0 => pr 4 | 0, 2 => s | 0, 4 => pr 5
  | 1, 1 => pr 0 | 1, 3 => pr 1 | 1, 5 => pr 2
  | 2, 0 => cj (pr 5) | 2, 4 => 0 - cj (pr 4) | 2, 6 => t
  | 3, 1 => cj (pr 1) | 3, 3 => 0 - cj (pr 0) | 3, 7 => pr 3
  | _, _ => 0

/-- default `s_param = conj(c)/conj(f)` -/
def chessS (pr : Nat → α) : α := HasConj.conj (pr 2) / HasConj.conj (pr 5)
/-- default `t_param = a d / e` -/
def chessT (pr : Nat → α) : α := pr 0 * pr 3 / pr 4

/-- `Σ_k v_k† v_k` -/
def chessNum (pr : Nat → α) (s t : α) : Nat → Nat → α := fun i j =>
  sumN 4 (fun k => HasConj.conj (chessVec pr s t k i) * chessVec pr s t k j)

/-- `rho / np.trace(rho)` -/
def chessboard (pr : Nat → α) (s t : α) : Nat → Nat → α := fun i j =>
  chessNum pr s t i j / trace 9 (chessNum pr s t)

end conj

end Toq.States

namespace Toq.States
open Toq.Matrices

/-! ### `werner`: the loop that recovers the number of parties from `len(alpha)`; `bell` as written in the code -/

/-- the loop `for i in range(2, n_fac): n_var //= i; if n_var == i + 1: break; if n_var < i: raise` -/
def wernerLoop (nfac : Nat) : Nat → Nat → Nat → Option Nat
  | 0, _, nv => some nv
  | fuel + 1, i, nv =>
    if nfac ≤ i then some nv
    else
      let nv' := nv / i
      if nv' = i + 1 then some nv' else if nv' < i then none else wernerLoop nfac fuel (i + 1) nv'

/-- `n_var` for an `alpha` list of length `len` (`none` = `ValueError` "InvalidAlpha") -/
def wernerNVar (len : Nat) : Option Nat := wernerLoop (len + 1) (len + 1) 2 (len + 1)

/-- `p!` -/
def fact : Nat → Nat
  | 0 => 1
  | n + 1 => (n + 1) * fact n

/-- the parties `p` of an accepted list: the loop accepts and the later `sorted_perms[i]` for `i < n_fac` stays inside the
    `p!` rows (otherwise the code dies with an `IndexError`) -/
def wernerParties (len : Nat) : Option Nat :=
  match wernerNVar len with
  | none => none
  | some p => if len + 1 ≤ fact p then some p else none

/-- `bell(idx)` as written: `(kron(e_a, e_b) ± kron(e_c, e_d))` (numerators, `den2 = 2`) -/
def bellMirror (idx : Nat) : Nat → Int := fun k =>
  match idx with
  | 0 => kronV 2 (basisS 0) (basisS 0) k + kronV 2 (basisS 1) (basisS 1) k
  | 1 => kronV 2 (basisS 0) (basisS 0) k - kronV 2 (basisS 1) (basisS 1) k
  | 2 => kronV 2 (basisS 0) (basisS 1) k + kronV 2 (basisS 1) (basisS 0) k
  | _ => kronV 2 (basisS 0) (basisS 1) k - kronV 2 (basisS 1) (basisS 0) k

end Toq.States
