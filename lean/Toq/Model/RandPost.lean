import Toq.Model.Rand
import Toq.Core.Scalar
/-!
# Exact post-processing of the generators, PGM / PBM and `measure` (no Mathlib)

The part of each function between the random draws / LAPACK factors and the returned arrays, written over an arbitrary
scalar type (`cj` is complex conjugation), so that it runs on Gaussian integers / rationals in the driver (the doubles the
real code saw, read exactly) and is a statement about `Matrix _ _ ℂ` in the proofs (`Toq/Proofs/RandPost.lean`).
Matrices are functions `Nat → Nat → α` with sizes passed explicitly.  Irrational final steps (division by a norm, by
`√(sᵢsⱼ)`) are left to the caller: the models return the exact numerators.
-/

namespace Toq.Rand

section generic
variable {α : Type} [Add α] [Mul α] [Zero α]

/-- `A @ B` with inner dimension `m` -/
def mmul (m : Nat) (A B : Nat → Nat → α) : Nat → Nat → α := fun i j => sumN m (fun l => A i l * B l j)

/-- `A.conj().T` -/
def ctr (cj : α → α) (A : Nat → Nat → α) : Nat → Nat → α := fun i j => cj (A j i)

/-- `np.trace` of the leading `n×n` block -/
def trc (n : Nat) (A : Nat → Nat → α) : α := sumN n (fun i => A i i)

/-- sum of a family of `k` matrices -/
def msum (k : Nat) (F : Nat → Nat → Nat → α) : Nat → Nat → α := fun i j => sumN k (fun y => F y i j)

/-- `np.diag(v)` -/
def mdiag (v : Nat → α) : Nat → Nat → α := fun i j => if i = j then v i else 0

/-- `random_density_matrix`, Haar branch: numerator `G Gᴴ` (`G : d×k`); the code returns it divided by its trace -/
def densityNum (cj : α → α) (k : Nat) (G : Nat → Nat → α) : Nat → Nat → α := mmul k G (ctr cj G)

/-- the factor of the Bures branch **as written**: `random_unitary(dim) + np.identity(dim) @ gin` with NumPy broadcasting of
`(d,d) + (d,k)` (`k = d`, or `k = 1`: the single column is added to every column of `U`, or `d = 1`) -/
def buresFactor (d k : Nat) (U G : Nat → Nat → α) : Nat → Nat → α :=
  fun i j => U i (if d = 1 then 0 else j) + G i (if k = 1 then 0 else j)

/-- `random_unitary`: `Uᴴ G` for the returned `U` and the Ginibre draw `G` — upper triangular with positive diagonal exactly
when `U` is the phase-fixed QR factor (`qr_posdiag_unique`) -/
def unitaryRel (cj : α → α) (d : Nat) (U G : Nat → Nat → α) : Nat → Nat → α := mmul d (ctr cj U) G

/-- `Uᴴ U` -/
def gramOf (cj : α → α) (d : Nat) (U : Nat → Nat → α) : Nat → Nat → α := mmul d (ctr cj U) U

/-- `random_psd_operator`: twice the Hermitised draw, `Rᴴ + R` (the code divides by 2) -/
def hermTwice (cj : α → α) (R : Nat → Nat → α) : Nat → Nat → α := fun i j => cj (R j i) + R i j

/-- `random_povm`: the normaliser `Σ_y A_yᴴ A_y` of one input setting (`A y` the `d×d` blocks) -/
def povmNormaliser (cj : α → α) (d no : Nat) (A : Nat → Nat → Nat → α) : Nat → Nat → α :=
  msum no (fun y => mmul d (ctr cj (A y)) (A y))

/-- `random_povm`: `(A_y U)ᴴ (A_y U)`; the returned operator is this matrix with entry `(i,j)` divided by `√(sᵢ sⱼ)` -/
def povmCore (cj : α → α) (d : Nat) (Ay U : Nat → Nat → α) : Nat → Nat → α :=
  mmul d (ctr cj (mmul d Ay U)) (mmul d Ay U)

/-- `U diag(s) Uᴴ`: what the SVD of the (Hermitian positive definite) normaliser must reproduce -/
def eigRecon (cj : α → α) (d : Nat) (U : Nat → Nat → α) (s : Nat → α) : Nat → Nat → α :=
  mmul d (mmul d U (mdiag s)) (ctr cj U)

/-- pretty good measurement: `S (pᵢρᵢ) S` for the inverse square root `S` the code obtained and `A = pᵢρᵢ` -/
def pgmElem (d : Nat) (S A : Nat → Nat → α) : Nat → Nat → α := mmul d (mmul d S A) S

/-- `measure`: `K ρ Kᴴ` (`K : m×d`) -/
def measResult (cj : α → α) (d : Nat) (K ρ : Nat → Nat → α) : Nat → Nat → α := mmul d (mmul d K ρ) (ctr cj K)

/-- `measure`: `Σ Kᵢᴴ Kᵢ` (`Kᵢ : m×d`) -/
def measCompleteness (cj : α → α) (m k : Nat) (K : Nat → Nat → Nat → α) : Nat → Nat → α :=
  msum k (fun i => mmul m (ctr cj (K i)) (K i))

end generic

/-! ## `measure` on exact rationals, with its branch logic

```
result = K @ state @ K.conj().T ; prob = np.trace(result).real
post_state = result / prob if prob > tol else np.zeros_like(state)
...
if state_update and all(p > tol for p in probs):
    if not np.allclose(sum(op.T.conj() @ op), np.eye(d), atol=tol): raise ValueError
```
`np.allclose(a, b, atol=tol)` is `|a − b| ≤ tol + 1e-5·|b|` entrywise with `b` the identity.  Float comparisons that are
within a factor `1 ± 10⁻³` of their threshold are reported as borderline (`none`) — the harness does not generate them. -/

/-- three-valued `x > t` -/
def gtMargin (x t : Rat) : Option Bool :=
  if x > t * (1001 / 1000) then some true else if x < t * (999 / 1000) then some false
  else if t = 0 then some (decide (x > 0)) else none

structure MeasOutcome where
  prob : Rat
  /-- `some true`: `prob > tol`, post state `result / prob`; `some false`: zeros; `none`: borderline -/
  positive : Option Bool
  /-- side length of the returned post-measurement state: `m` (rows of `K`) when `prob > tol`, else that of `np.zeros_like(state)` -/
  postDim : Nat
  post : Nat → Nat → QI

def normSqQ (z : QI) : Rat := z.re * z.re + z.im * z.im

/-- one operator (`K : m×d`) -/
def measureOne (d : Nat) (tol : Rat) (K ρ : Nat → Nat → QI) (m : Nat) : MeasOutcome :=
  let res := measResult QI.conj d K ρ
  let p := (trc m res).re
  let pos := gtMargin p tol
  { prob := p, positive := pos, postDim := if pos = some true then m else d,
    post := if pos = some true then (fun i j => QI.smul (1 / p) (res i j)) else fun _ _ => 0 }

/-- three-valued `np.allclose(C, np.eye(d), atol=tol)` -/
def allcloseEye (d : Nat) (tol : Rat) (C : Nat → Nat → QI) : Option Bool :=
  let thr : Nat → Nat → Rat := fun i j => tol + (if i = j then (1 / 100000 : Rat) else 0)
  let dev : Nat → Nat → Rat := fun i j => normSqQ (C i j - (if i = j then 1 else 0))
  let idx := (List.range d).flatMap fun i => (List.range d).map fun j => (i, j)
  let strict := idx.all fun (i, j) => decide (dev i j ≤ (thr i j * (999 / 1000)) ^ 2)
  let loose := idx.all fun (i, j) => decide (dev i j ≤ (thr i j * (1001 / 1000)) ^ 2)
  if strict then some true else if !loose then some false else none

/-- does the list form raise?  (`none`: borderline) -/
def measureRaises (d m k : Nat) (tol : Rat) (stateUpdate : Bool) (K : Nat → Nat → Nat → QI) (outs : List MeasOutcome) :
    Option Bool :=
  if !stateUpdate then some false
  else if outs.any (fun o => o.positive = some false) then some false
  else if outs.any (fun o => o.positive = none) then none
  else (allcloseEye d tol (measCompleteness QI.conj m k K)).map (!·)

end Toq.Rand
