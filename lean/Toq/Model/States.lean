import Toq.Model.Perms
import Toq.Model.Matrices
/-!
# Closed-form models of `toqito/states/*.py` (no Mathlib)

State vectors whose amplitudes are `integer / √den2` are modelled by the integer numerators (`…S`,
"scaled") and the driver reports `den2`.  Density operators with rational parameters are modelled over a
generic field-like scalar type (run with `Rat`).  Indices of bipartite objects are `r = i * d + j`
(`i` = first factor), toqito's Kronecker convention.
-/
namespace Toq.States
open Toq.Matrices

/-! ### vectors with integer numerators -/

/-- `basis(dim, pos)` -/
def basisS (pos : Nat) : Nat → Int := fun k => if k = pos then 1 else 0

/-- Kronecker product of a vector with a vector of length `m` -/
def kronV [Mul α] (m : Nat) (u v : Nat → α) : Nat → α := fun k => u (k / m) * v (k % m)

/-- `√2 · bell(idx)`: `|00⟩+|11⟩, |00⟩-|11⟩, |01⟩+|10⟩, |01⟩-|10⟩` -/
def bellS (idx : Nat) : Nat → Int := fun k =>
  match idx, k with
  | 0, 0 => 1 | 0, 3 => 1
  | 1, 0 => 1 | 1, 3 => -1
  | 2, 1 => 1 | 2, 2 => 1
  | 3, 1 => 1 | 3, 2 => -1
  | _, _ => 0

/-- `max_entangled(d, is_normalized=False)`: the identity reshaped (C order) to a column:
    entry `k = i * d + j` is `δ_ij` -/
def maxEntS (d : Nat) : Nat → Int := fun k => if k / d = k % d ∧ k < d * d then 1 else 0

/-- `sum(i * dim**k for k in range(num_qubits))` -/
def ghzIdx (d n i : Nat) : Nat := sumN n (fun k => i * d ^ k)

/-- `ghz(dim, n, coeff)` before normalisation: `state[ghzIdx i] = coeff[i]` for `i < dim` (later `i` win) -/
def ghzGen (d n : Nat) (c : Nat → Int) : Nat → Int :=
  fun j => (List.range d).foldl (fun acc i => if ghzIdx d n i = j then c i else acc) 0

/-- `√d · ghz(d, n)` -/
def ghzS (d n : Nat) : Nat → Int := ghzGen d n (fun _ => 1)

/-- `w_state(n, coeff)` before normalisation and rounding: `ret[2**i] = coeff[n - i - 1]` -/
def wGen (n : Nat) (c : Nat → Int) : Nat → Int :=
  fun j => (List.range n).foldl (fun acc i => if 2 ^ i = j then c (n - i - 1) else acc) 0

/-- `√n · w_state(n)` as documented (`|10…0⟩ + |01…0⟩ + … + |0…01⟩`) -/
def wS (n : Nat) : Nat → Int := wGen n (fun _ => 1)

/-- number of set bits among the low `n` bits -/
def popcount (n j : Nat) : Nat := sumN n (fun b => if j.testBit b then 1 else 0)

/-- `√C(n,k) · dicke(n, k)`: 1 exactly at the indices `Σ_{i ∈ pos} 2^i`, `pos` a `k`-subset of `range(n)`,
    i.e. at the `j < 2^n` with `k` set bits -/
def dickeS (n k : Nat) : Nat → Int := fun j => if j < 2 ^ n ∧ popcount n j = k then 1 else 0

/-- binomial coefficient (the `den2` of `dicke`) -/
def choose : Nat → Nat → Nat
  | _, 0 => 1
  | 0, _ + 1 => 0
  | n + 1, k + 1 => choose n k + choose n (k + 1)

/-- length-3 integer vectors used by `tile`/`domino`: `e_a`, `e_a + e_b`, `e_a - e_b` -/
def e3 (a : Nat) : Nat → Int := basisS a
def e3p (a b : Nat) : Nat → Int := fun k => e3 a k + e3 b k
def e3m (a b : Nat) : Nat → Int := fun k => e3 a k - e3 b k

/-- numerators of `tile(idx)`; `tileDen2` is the squared normalisation -/
def tileS (idx : Nat) : Nat → Int :=
  match idx with
  | 0 => kronV 3 (e3 0) (e3m 0 1)
  | 1 => kronV 3 (e3m 0 1) (e3 2)
  | 2 => kronV 3 (e3 2) (e3m 1 2)
  | 3 => kronV 3 (e3m 1 2) (e3 0)
  | _ => kronV 3 (fun _ => 1) (fun _ => 1)

def tileDen2 (idx : Nat) : Nat := if idx < 4 then 2 else 9

/-- numerators of `domino(idx)` -/
def dominoS (idx : Nat) : Nat → Int :=
  match idx with
  | 0 => kronV 3 (e3 1) (e3 1)
  | 1 => kronV 3 (e3 0) (e3p 0 1)
  | 2 => kronV 3 (e3 0) (e3m 0 1)
  | 3 => kronV 3 (e3 2) (e3p 1 2)
  | 4 => kronV 3 (e3 2) (e3m 1 2)
  | 5 => kronV 3 (e3p 1 2) (e3 0)
  | 6 => kronV 3 (e3m 1 2) (e3 0)
  | 7 => kronV 3 (e3p 0 1) (e3 2)
  | _ => kronV 3 (e3m 0 1) (e3 2)

def dominoDen2 (idx : Nat) : Nat := if idx = 0 then 1 else 2

/-! ### generalised Bell states (exponent model) -/

/-- `vec(W)` (column stacking): entry `k` is `W[k % d, k / d]` -/
def vecF (d : Nat) (W : Nat → Nat → α) : Nat → α := fun k => W (k % d) (k / d)

/-- `gen_bell(a, b, d) = vec(W) vec(W)† / d` with `W = gen_pauli(a, b, d)`:
    entry `(r, c)` is `0` or `ω^e / d` with `e = e_r - e_c (mod d)` -/
def genBellE (d a b : Nat) : Nat → Nat → RU := fun r c =>
  match vecF d (genPauliE d a b) r, vecF d (genPauliE d a b) c with
  | some x, some y => some ((x + d - y % d) % d)
  | _, _ => none

/-! ### density operators with a rational parameter -/

section field
variable {α : Type} [Add α] [Sub α] [Mul α] [Div α] [Zero α] [One α] [NatCast α]

/-- Kronecker delta as a scalar -/
def delta (i j : Nat) : α := if i = j then 1 else 0

/-- the swap operator on `C^d ⊗ C^d`: `⟨ij| S |kl⟩ = δ_il δ_jk` -/
def swapOp (d : Nat) : Nat → Nat → α :=
  fun r c => if r / d = c % d ∧ r % d = c / d then 1 else 0

/-- `|Ω⟩⟨Ω|` for the unnormalised `Ω = Σ_i |ii⟩`: `⟨ij|ΩΩ†|kl⟩ = δ_ij δ_kl` -/
def omegaProj (d : Nat) : Nat → Nat → α :=
  fun r c => if r / d = r % d ∧ c / d = c % d then 1 else 0

/-- `werner(dim, alpha)` (scalar form): `(I - α S) / (d (d - α))` -/
def werner (d : Nat) (a : α) : Nat → Nat → α :=
  fun r c => (delta r c - a * swapOp d r c) / ((d : α) * ((d : α) - a))

/-- `isotropic(dim, alpha)`: `(1-α) I / d² + α ΩΩ† / d` -/
def isotropic (d : Nat) (a : α) : Nat → Nat → α :=
  fun r c => (1 - a) * delta r c / ((d : α) * (d : α)) + a * omegaProj d r c / (d : α)

/-- `max_mixed(dim)` -/
def maxMixed (d : Nat) : Nat → Nat → α := fun r c => delta r c / (d : α)

/-- `singlet(dim) = (I - S) / (d² - d)` -/
def singlet (d : Nat) : Nat → Nat → α :=
  fun r c => (delta r c - swapOp d r c) / ((d : α) * (d : α) - (d : α))

/-- partial transpose on the second factor of a `d² × d²` matrix: `⟨ij|X^Γ|kl⟩ = ⟨il|X|kj⟩` -/
def pT2 (d : Nat) (X : Nat → Nat → α) : Nat → Nat → α :=
  fun r c => X ((r / d) * d + c % d) ((c / d) * d + r % d)

/-- closed form of the least eigenvalue of the partial transpose of `werner d a` (for `a < d`):
    the spectrum of `(I - a ΩΩ†)/(d(d-a))` is `{1, 1 - a d} / (d (d - a))` -/
def wernerPTEigs (d : Nat) (a : α) : α × α :=
  (1 / ((d : α) * ((d : α) - a)), (1 - a * (d : α)) / ((d : α) * ((d : α) - a)))

/-- the two eigenvalues of the partial transpose of `isotropic d a`:
    `(1-a)/d² ± a/d` (multiplicities `d(d+1)/2`, `d(d-1)/2`) -/
def isotropicPTEigs (d : Nat) (a : α) : α × α :=
  ((1 - a) / ((d : α) * (d : α)) + a / (d : α), (1 - a) / ((d : α) * (d : α)) - a / (d : α))

end field

/-- permutations of a list in lexicographic order of positions (`itertools.permutations`) -/
def lexPerms : Nat → List Nat → List (List Nat)
  | 0, _ => [[]]
  | fuel + 1, l =>
    if l.isEmpty then [[]]
    else l.flatMap (fun x => (lexPerms fuel (l.erase x)).map (fun t => x :: t))

/-- `np.argsort(perm)` of a permutation given as a list -/
def argsortL (p : List Nat) : List Nat := listOfFn p.length (invPerm p.length (fnOfList p))

/-- the `p` with `p! = m` for `2 ≤ p ≤ 6`, if any (`len(alpha) + 1 = p!`) -/
def factInv (m : Nat) : Option Nat :=
  [2, 3, 4, 5, 6].find? (fun p => (List.range p).foldl (fun acc k => acc * (k + 1)) 1 == m)

section wlist
variable {α : Type} [Add α] [Sub α] [Mul α] [Div α] [Zero α] [One α] [NatCast α]

/-- numerator of the list form of `werner` **as documented**: `I - Σ_{k=1}^{p!-1} alpha[k-1] · P(σ_k)`,
    `σ_k` the `k`-th permutation of `range(p)` in lexicographic order and `P(σ)` toqito's
    `permutation_operator(dim, σ)` (`argsort = true`: of `argsort(σ) = σ⁻¹`, which is what the code passes) -/
def wernerListNum (d p : Nat) (alphas : List α) (argsort : Bool) : Nat → Nat → α :=
  let perms := (lexPerms p (List.range p)).drop 1
  let terms := perms.zip alphas
  fun r c =>
    terms.foldl (fun acc (t : List Nat × α) =>
      let σ := if argsort then argsortL t.1 else t.1
      acc - t.2 * Toq.Perms.permOp p (fnOfList σ) (fun _ => d) false r c) (delta r c)

/-- `rho / np.trace(rho)` -/
def wernerList (d p : Nat) (alphas : List α) (argsort : Bool) : Nat → Nat → α :=
  let num := wernerListNum d p alphas argsort
  let tr := trace (d ^ p) num
  fun r c => num r c / tr

/-- `horodecki(a, [3,3])` with `c = √(1-a²)/2` passed in (the driver checks `4c² = 1 - a²`) -/
def horodecki33 (a c : α) : Nat → Nat → α := fun i j =>
  let n : α := 1 / (((8 : Nat) : α) * a + 1)
  let b : α := (1 + a) / ((2 : Nat) : α)
  let e : α :=
    if i = j then (if i = 6 ∨ i = 8 then b else a)
    else if (i = 0 ∨ i = 4 ∨ i = 8) ∧ (j = 0 ∨ j = 4 ∨ j = 8) then a
    else if (i = 6 ∧ j = 8) ∨ (i = 8 ∧ j = 6) then c
    else 0
  n * e

/-- `horodecki(a, [2,4])` -/
def horodecki24 (a c : α) : Nat → Nat → α := fun i j =>
  let n : α := 1 / (((7 : Nat) : α) * a + 1)
  let b : α := (1 + a) / ((2 : Nat) : α)
  let e : α :=
    if i = j then (if i = 4 ∨ i = 7 then b else a)
    else if (i + 5 = j ∧ i < 3) ∨ (j + 5 = i ∧ j < 3) then a
    else if (i = 4 ∧ j = 7) ∨ (i = 7 ∧ j = 4) then c
    else 0
  n * e

end wlist

end Toq.States
