import Toq.Model.MatrixPreds
import Toq.Model.MatrixPredsDet
/-!
# Tolerance-level mirrors of the predicates of `toqito/matrix_props/is_*.py` and `toqito/state_props`  (no Mathlib)

`Toq/Model/MatrixPreds.lean` decides each predicate *three-valued* (definition holds exactly / violated by a margin).
This file mirrors the **decision logic of the Python code itself, including its tolerance arithmetic**, exactly over `ℚ[i]`:

`np.isclose(a, b, rtol, atol)` is `|a − b| ≤ atol + rtol·|b|` (asymmetric in `a`, `b`; for complex numbers `|·|` is the modulus).
For `a, b ∈ ℚ[i]` and rational `rtol, atol ≥ 0` this comparison of square roots is decided exactly by `closeQ`
(`Toq.C16.closeQ_iff`: it is the NumPy formula over the reals).  `np.allclose(A, B, rtol, atol)` is `allcloseQ A B rtol atol`
(first argument `A`, reference `B`), and every equation-type predicate is the same two sides, in the same order, with the same
shape guards as the Python function (compare each definition with its `…V` sibling in `MatrixPreds.lean`).

The harness runs these mirrors and the real functions on the same exact dyadic inputs whose verdict does not change when the
tolerances are scaled by `1 ± 10⁻³` (so that float rounding inside toqito cannot matter): entries moved by a quarter of / four
times the tolerance, default and explicit `rtol` / `atol` arguments.
-/

namespace Toq.MatrixPreds
open Toq.MatrixOps

def absRat (q : Rat) : Rat := if q < 0 then -q else q

/-- default `rtol = 1e-05` of the toqito predicates and of `np.allclose` -/
def rtolDefault : Rat := 1 / 100000
/-- default `atol = 1e-08` -/
def atolDefault : Rat := 1 / 100000000

/-- `np.isclose(a, b, rtol, atol)`, i.e. `|a − b| ≤ atol + rtol·|b|`, decided exactly for `rtol, atol ≥ 0`:
    with `x = |a−b|²`, `y = |b|²`, `c = x − atol² − rtol²·y` the inequality `√x ≤ atol + rtol·√y` holds iff
    `c ≤ 0` or `c² ≤ 4·atol²·rtol²·y` -/
def closeQ (a b : QI) (rtol atol : Rat) : Bool :=
  let x := normSq (a - b)
  let y := normSq b
  let c := x - atol * atol - rtol * rtol * y
  decide (c ≤ 0) || decide (c * c ≤ 4 * (atol * atol) * (rtol * rtol) * y)

/-- `np.allclose(L, R, rtol, atol)` for two matrices of the shape of `L` (`R` is the reference side) -/
def allcloseQ (L R : Mat QI) (rtol atol : Rat) : Bool :=
  allBelow L.r (fun i => allBelow L.c (fun j => closeQ (L.f i j) (R.f i j) rtol atol))

/-- `np.allclose` after storing both sides (as `eqV` does) -/
def allcloseF (L R : Mat QI) (rtol atol : Rat) : Bool := allcloseQ (force L) (force R) rtol atol

/-! ## equation-type predicates, line by line -/

/-- `is_hermitian(mat, rtol, atol)`: `if not is_square(mat): return False; return np.allclose(mat, mat.conj().T, rtol, atol)` -/
def hermitianT (A : Mat QI) (rtol atol : Rat) : Bool :=
  if !isSquare A then false else allcloseF A (ctranspose A) rtol atol

/-- `is_anti_hermitian(mat, rtol, atol) = is_hermitian(mat * 1j, rtol, atol)` -/
def antiHermitianT (A : Mat QI) (rtol atol : Rat) : Bool := hermitianT (scalarMul ⟨0, 1⟩ A) rtol atol

/-- `is_symmetric`: `np.allclose(mat, mat.T, rtol, atol)` -/
def symmetricT (A : Mat QI) (rtol atol : Rat) : Bool :=
  if !isSquare A then false else allcloseF A (transpose A) rtol atol

/-- `is_normal`: `np.allclose(mat @ mat.conj().T, mat.conj().T @ mat, rtol, atol)` -/
def normalT (A : Mat QI) (rtol atol : Rat) : Bool :=
  if !isSquare A then false else allcloseF (mul A (ctranspose A)) (mul (ctranspose A) A) rtol atol

/-- `is_unitary`: `allclose(U* U, I) and allclose(U U*, I)` -/
def unitaryT (A : Mat QI) (rtol atol : Rat) : Bool :=
  if !isSquare A then false
  else allcloseF (mul (ctranspose A) A) (eye A.r) rtol atol && allcloseF (mul A (ctranspose A)) (eye A.r) rtol atol

/-- `is_pseudo_unitary(mat, p, q, rtol, atol)`; `p`, `q` are Python ints: negative values raise `ValueError` -/
def pseudoUnitaryT (A : Mat QI) (p q : Int) (rtol atol : Rat) : Except String Bool :=
  if p < 0 || q < 0 then .error "NegativeSignature"
  else if !isSquare A then .ok false
  else if p.toNat + q.toNat != A.r then .ok false
  else .ok (allcloseF (mul (mul (ctranspose A) (signature p.toNat q.toNat)) A) (signature p.toNat q.toNat) rtol atol)

/-- `is_identity`: `np.allclose(mat, np.eye(len(mat)), rtol, atol)` -/
def identityT (A : Mat QI) (rtol atol : Rat) : Bool :=
  if !isSquare A then false else allcloseF A (eye A.r) rtol atol

/-- `is_idempotent`: `np.allclose(mat, mat @ mat, rtol, atol)` (reference side: the square) -/
def idempotentT (A : Mat QI) (rtol atol : Rat) : Bool :=
  if !isSquare A then false else allcloseF A (mul A A) rtol atol

/-- `is_projection`: `np.allclose(np.linalg.matrix_power(mat, 2), mat, rtol, atol)` (reference side: the matrix) -/
def projectionT (A : Mat QI) (rtol atol : Rat) : Bool :=
  if !isSquare A then false else allcloseF (mul A A) A rtol atol

/-- `is_circulant` (no tolerance arguments: the defaults of `np.allclose`; the mirrors of the
    functions without tolerance arguments are written with explicit tolerances `…Tol` and instantiated at the defaults `…T`):
    `for i in range(n - 1): if not np.allclose(mat[i + 1], np.roll(mat[i], 1)): return False` -/
def circulantTol (A : Mat QI) (rtol atol : Rat) : Bool :=
  if !isSquare A then false
  else
    let n := A.r
    allcloseF ⟨n - 1, n, fun i j => A.f (i + 1) j⟩ ⟨n - 1, n, fun i j => A.f i ((j + n - 1) % n)⟩ rtol atol

def circulantT (A : Mat QI) : Bool := circulantTol A rtolDefault atolDefault

/-- `is_commuting`: `np.allclose(mat_1 @ mat_2 - mat_2 @ mat_1, 0)` (reference `0`: only `atol` counts) -/
def commutingTol (A B : Mat QI) (rtol atol : Rat) : Bool :=
  allcloseF (sub (mul A B) (mul B A)) (zeroMat A.r A.c) rtol atol

def commutingT (A B : Mat QI) : Bool := commutingTol A B rtolDefault atolDefault

/-- `is_pseudo_hermitian(mat, signature, rtol, atol)`; the guards use the default tolerances (`is_hermitian(signature)`) and the
    proved exact rank, the inverse of the signature is the proved cofactor inverse `invL` -/
def pseudoHermitianT (H η : Mat QI) (rtol atol : Rat) : Except String Bool :=
  if !hermitianT η rtolDefault atolDefault then .error "SignatureNotHermitian"
  else if rank η.r η.c (QMat.ofMat η) != η.r then .error "SignatureNotInvertible"
  else if !isSquare H || H.r * H.c != η.r * η.c then .ok false
  else
    let ηinv : Mat QI := force ⟨η.r, η.c, invL η.r (force η).f⟩
    .ok (allcloseF (mul (mul η H) ηinv) (ctranspose H) rtol atol)

/-! ## definiteness-type predicates (the `LDLᴴ` elimination `isPSDExact` of `MatrixPreds.lean`; the harness confirms every
definiteness verdict it uses by a certificate accepted by a proved checker) -/

/-- `is_positive_semidefinite(mat, rtol, atol)`:
    `if not is_hermitian(mat, rtol, atol): return False; return all(x >= -abs(atol) for x in eigvalsh(mat))`;
    "every eigenvalue `≥ −|atol|`" is "`A + |atol|·I` is positive semidefinite" (`Toq.C16.psd_shift_iff_eigenvalues`),
    decided on the Hermitian part of the stored matrix -/
def psdT (A : Mat QI) (rtol atol : Rat) : Bool :=
  if !hermitianT A rtol atol then false
  else
    let A := force A
    -- `eigvalsh` reads one triangle only: the Hermitian matrix with the lower triangle of `A`
    let Hl : Mat QI := ⟨A.r, A.c, fun i j => if j ≤ i then (if i = j then ⟨(A.f i i).re, 0⟩ else A.f i j) else (A.f j i).conj⟩
    isPSDExact A.r (QMat.ofMat (addScalarDiag Hl (absRat atol)))

/-- `np.isclose(x, 1)` for a scalar with the default tolerances -/
def closeOne (x : QI) (rtol atol : Rat) : Bool := closeQ x 1 rtol atol

/-- `is_density`: `is_positive_semidefinite(mat) and np.isclose(np.trace(mat), 1)` -/
def densityTol (A : Mat QI) (rtol atol : Rat) : Bool := psdT A rtol atol && closeOne (traceQ A) rtol atol

def densityT (A : Mat QI) : Bool := densityTol A rtolDefault atolDefault

/-- `is_ensemble`: every state PSD (checked in the order of the list, before the trace test) and `np.allclose(trace_sum, 1)` -/
def ensembleTol (ρs : List (Mat QI)) (rtol atol : Rat) : Bool :=
  ρs.all (fun ρ => psdT ρ rtol atol) && closeOne (ρs.foldl (fun acc ρ => acc + traceQ ρ) 0) rtol atol

def ensembleT (ρs : List (Mat QI)) : Bool := ensembleTol ρs rtolDefault atolDefault

/-! ## entrywise predicates -/

/-- `np.all(mat >= 0)` on a real matrix -/
def nonnegT (A : Mat QI) : Bool := allBelow A.r (fun i => allBelow A.c (fun j => decide (0 ≤ (A.f i j).re)))

/-- `is_nonnegative(mat, mat_type)`: 0 = `"nonnegative"`, 1 = `"doubly"`, anything else raises `TypeError` -/
def nonnegativeTol (A : Mat QI) (matType : Nat) (rtol atol : Rat) : Except String Bool :=
  if matType = 0 then .ok (nonnegT A)
  else if matType = 1 then .ok (nonnegT A && psdT A rtol atol)
  else .error "TypeError"

def nonnegativeT (A : Mat QI) (matType : Nat) : Except String Bool := nonnegativeTol A matType rtolDefault atolDefault

/-- `is_stochastic(mat, mat_type)`: 0 = left, 1 = right, 2 = doubly, anything else raises `TypeError` (before any other test) -/
def stochasticTol (A : Mat QI) (matType : Nat) (rtol atol : Rat) : Except String Bool :=
  if matType > 2 then .error "TypeError"
  else if !(isSquare A && nonnegT A) then .ok false
  else
    let ones : Mat QI := ⟨1, A.r, fun _ _ => 1⟩
    let colSums : Mat QI := ⟨1, A.c, fun _ j => sumN A.r (fun i => A.f i j)⟩
    let rowSums : Mat QI := ⟨1, A.r, fun _ i => sumN A.c (fun j => A.f i j)⟩
    let left := if matType == 0 || matType == 2 then allcloseF colSums ones rtol atol else true
    let right := if matType == 1 || matType == 2 then allcloseF rowSums ones rtol atol else true
    .ok (left && right)

def stochasticT (A : Mat QI) (matType : Nat) : Except String Bool := stochasticTol A matType rtolDefault atolDefault

/-! ## `is_totally_positive(mat, tol, sub_sizes)` (real matrices) -/

/-- ```
if mat.size == 0: raise ValueError
for j in sub_sizes:                      # default range(1, min(dims) + 1)
    if j == 1:  if any(minimum(real(mat), -abs(imag(mat))) < -tol): return False
    else:       for kr, kc in combinations: d = det(mat[ix_(kr, kc)]); if d < tol or abs(imag(d)) > tol: return False
return True
```
    with the proved determinant `detL`; note the asymmetry: entries may be as small as `-tol`, larger minors must be `≥ tol` -/
def totallyPositiveT (A : Mat QI) (tol : Rat) (subSizes : Option (List Nat)) : Except String Bool :=
  if A.r * A.c = 0 then .error "Empty"
  else
    let A := force A
    .ok ((tpSizes A subSizes).all fun j =>
      if j = 1 then
        allBelow A.r (fun i => allBelow A.c (fun k =>
          let z := A.f i k
          !decide (min z.re (-(absRat z.im)) < -tol)))
      else
        (combinations A.r j).all fun kr => (combinations A.c j).all fun kc =>
          let d := detL j (subFn A kr kc)
          !(decide (d.re < tol) || decide (absRat d.im > tol)))

/-! ## `is_diagonal` line by line -/

/-- ```
if not is_square(mat): return False
i, j = mat.shape
test = mat.reshape(-1)[:-1].reshape(i - 1, j + 1)
return ~np.any(test[:, 1:])
```
the first `n² − 1` entries in row-major order, cut into `n − 1` rows of length `n + 1`; entry `(a, b)` of `test` is the flat entry
`a·(n+1) + b`, i.e. `mat[k / n, k % n]`; the columns `b = 1 … n` must be all zero (`Toq.C16.diagonal_reshape_trick`: these are
exactly the off-diagonal entries) -/
def diagonalTrick (A : Mat QI) : Bool :=
  if !isSquare A then false
  else
    let n := A.r
    allBelow (n - 1) (fun a => allBelow n (fun b' =>
      let k := a * (n + 1) + (b' + 1)
      A.f (k / n) (k % n) == 0))

/-! ## sets of vectors -/

/-- `is_mutually_orthogonal`: `np.allclose(inner_product_matrix with zeroed diagonal, 0)`; `ValueError` for fewer than two vectors -/
def mutuallyOrthogonalTol (d n : Nat) (vs : Nat → Nat → QI) (rtol atol : Rat) : Except String Bool :=
  if n ≤ 1 then .error "TooFewVectors" else .ok (allcloseF (gramOffDiag d n vs) (zeroMat n n) rtol atol)

def mutuallyOrthogonalT (d n : Nat) (vs : Nat → Nat → QI) : Except String Bool :=
  mutuallyOrthogonalTol d n vs rtolDefault atolDefault

/-- `is_orthonormal`: `is_mutually_orthogonal(vectors) and np.allclose(vectors @ vectors.conj().T, np.eye(n))` -/
def orthonormalTol (d n : Nat) (vs : Nat → Nat → QI) (rtol atol : Rat) : Except String Bool := do
  let mo ← mutuallyOrthogonalTol d n vs rtol atol
  let V : Mat QI := ⟨n, d, fun k a => vs k a⟩
  return mo && allcloseF (mul V (ctranspose V)) (eye n) rtol atol

def orthonormalT (d n : Nat) (vs : Nat → Nat → QI) : Except String Bool := orthonormalTol d n vs rtolDefault atolDefault

end Toq.MatrixPreds
