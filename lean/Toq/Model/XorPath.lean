import Toq.Model.Xor
import Toq.Model.Games
/-!
# `XORGame.classical_value` as the code computes it: through the converted `NonlocalGame` (no Mathlib)

`XORGame.classical_value` is `self.to_nonlocal_game().classical_value()`; `to_nonlocal_game` returns
`NonlocalGame(self.prob_mat, nlg_pred_mat, reps=self.reps)`.  The pieces are mirrored in `Toq.Model.Xor` (`nlgPred`) and
`Toq.Model.Games` (constructor with its `reps` branch: `productProb`, `productPred`; `classical_value`:
`classicalValueFixed`); here they are composed in the order of the code.
-/

namespace Toq.Xor
open Toq.Games

/-- `XORGame(prob, pred, reps=1).classical_value()` -/
def xorClassicalPath (m n : Nat) (prob : Nat → Nat → Rat) (pred : Nat → Nat → Nat) : Option Rat :=
  classicalValueFixed 2 2 m n prob (nlgPred pred)

/-- `XORGame(prob, pred, reps).classical_value()` through the `else` branch of `NonlocalGame.__init__`: the product game
    (`tensor(prob_mat, reps)`, odometer loop for the predicate) is built before `classical_value` runs -/
def xorClassicalPathReps (m n reps : Nat) (prob : Nat → Nat → Rat) (pred : Nat → Nat → Nat) : Option Rat :=
  classicalValueFixed (2 ^ reps) (2 ^ reps) (m ^ reps) (n ^ reps) (productProb m n reps prob)
    (productPred 2 2 m n reps (nlgPred pred))

/-- the call as a whole: `if reps == 1: …  else: …` of `NonlocalGame.__init__` -/
def xorClassicalCall (m n reps : Nat) (prob : Nat → Nat → Rat) (pred : Nat → Nat → Nat) : Option Rat :=
  if reps = 1 then xorClassicalPath m n prob pred else xorClassicalPathReps m n reps prob pred

end Toq.Xor
