import Toq.Core.EMat
import Toq.Model.Sep
/-!
# Certificate checkers for the S(k) operator norm (C14) — executable, no Mathlib

For a Hermitian operator `X` on `ℂ^dA ⊗ ℂ^dB` (flat index `a·dB + b`) the quantity bracketed by
`sk_operator_norm(X, k)` is `sup { ⟨v|X|v⟩ : ‖v‖ = 1, Schmidt rank of v ≤ k }`.

* **upper certificates** (dual feasible points of the two relaxations that the routine itself solves, obtained by the harness from an
  independent solver and repaired to exact feasibility):
  - `checkSkUpperPPT X Y LY lam LS` (k = 1): `Y ⪰ 0` and `lam·1 − X − Y^{T_B} ⪰ 0`;
  - `checkSkUpperRed k X Y LY lam LS` (any k): `Y ⪰ 0` and `lam·1 − X − (k·(tr_B Y) ⊗ 1 − Y) ⪰ 0`;
  both return `some lam`, and then **every** unit vector of Schmidt rank `≤ k` has `⟨v|X|v⟩ ≤ lam`
  (`Toq.C14.checkSkUpperPPT_sound`, `checkSkUpperRed_sound`).
* **lower certificate** `checkSkLower X Xs Ys`: the columns of `Xs` (`dA × k`) and `Ys` (`dB × k`) are the factors of `k` product terms,
  the columns of `Ys` are pairwise orthogonal (checked exactly), `v = Σ_i x_i ⊗ y_i ≠ 0`; returns the Rayleigh quotient `⟨v|X|v⟩/⟨v|v⟩`,
  a value attained by a unit vector of Schmidt rank `≤ k` (`Toq.C14.checkSkLower_sound`).

PSD-ness is certified with `EMat.psdCert` (a factor `L` with `A − L·Lᴴ` diagonally dominant), as in C10 / C20.  The partial transpose `ptB`,
the marginal `ptrBE`, the Kronecker product `kron` and the index maps `pair`/`fstI`/`sndI` are the exact operations of `Toq.Model.Sep`.
-/

namespace Toq.Entangle
open EMat Toq.Sep

variable {dA dB p q k : Nat}

/-- `k·(tr_B Y) ⊗ 1_B − Y`: the (k-positive) reduction-type map applied to the first party's marginal -/
def redKE (k : Nat) (Y : EMat (dA * dB) (dA * dB)) : EMat (dA * dB) (dA * dB) :=
  smul (k : Rat) (kron (ptrBE Y) (one : EMat dB dB)) - Y

/-- slack of the PPT dual: `lam·1 − X − Y^{T_B}` -/
def slackPPT (X Y : EMat (dA * dB) (dA * dB)) (lam : Rat) : EMat (dA * dB) (dA * dB) :=
  (scalar lam - X) - ptB Y

/-- slack of the reduction-map dual: `lam·1 − X − (k·(tr_B Y) ⊗ 1 − Y)` -/
def slackRed (k : Nat) (X Y : EMat (dA * dB) (dA * dB)) (lam : Rat) : EMat (dA * dB) (dA * dB) :=
  (scalar lam - X) - redKE k Y

/-- `some lam` iff `Y` has the PSD witness `LY` and `lam·1 − X − Y^{T_B}` has the PSD witness `LS` -/
def checkSkUpperPPT (X Y : EMat (dA * dB) (dA * dB)) (LY : EMat (dA * dB) p) (lam : Rat)
    (LS : EMat (dA * dB) q) : Option Rat :=
  if psdCert Y LY && psdCert (slackPPT X Y lam) LS then some lam else none

/-- `some lam` iff `Y` has the PSD witness `LY` and `lam·1 − X − (k·(tr_B Y) ⊗ 1 − Y)` has the PSD witness `LS` -/
def checkSkUpperRed (k : Nat) (X Y : EMat (dA * dB) (dA * dB)) (LY : EMat (dA * dB) p) (lam : Rat)
    (LS : EMat (dA * dB) q) : Option Rat :=
  if psdCert Y LY && psdCert (slackRed k X Y lam) LS then some lam else none

/-- amplitude matrix `Σ_i x_i y_iᵀ` of the vector `Σ_i x_i ⊗ y_i` (columns of `Xs`, `Ys`) -/
def ampOfFactors (Xs : EMat dA k) (Ys : EMat dB k) : EMat dA dB := Xs.mul Ys.transpose

/-- the flat vector (`a·dB + b`) with amplitude matrix `A` -/
def vecOfAmpE (A : EMat dA dB) : EMat (dA * dB) 1 := ofFn fun i _ => A.get (fstI i) (sndI i)

/-- all off-diagonal entries vanish exactly -/
def offDiagZero (G : EMat k k) : Bool := allFin k fun i => allFin k fun j => i == j || G.get i j == 0

/-- the columns of `Ys` are pairwise orthogonal -/
def colsOrthogonal (Ys : EMat dB k) : Bool := offDiagZero (Ys.ct.mul Ys)

/-- the vector `Σ_i x_i ⊗ y_i` -/
def skVector (Xs : EMat dA k) (Ys : EMat dB k) : EMat (dA * dB) 1 := vecOfAmpE (ampOfFactors Xs Ys)

/-- `some (⟨v|X|v⟩/⟨v|v⟩)` for `v = Σ_i x_i ⊗ y_i` iff the `y_i` are pairwise orthogonal and `v ≠ 0` -/
def checkSkLower (X : EMat (dA * dB) (dA * dB)) (Xs : EMat dA k) (Ys : EMat dB k) : Option Rat :=
  if colsOrthogonal Ys && decide (0 < normSqV (skVector Xs Ys)) then
    some (quadForm X (skVector Xs Ys) / normSqV (skVector Xs Ys))
  else none

end Toq.Entangle
