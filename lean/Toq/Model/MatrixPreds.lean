import Toq.Model.MatrixOps
import Toq.Core.EMat
/-!
# Exact three-valued deciders of the matrix and state-set predicates of `toqito/matrix_props/is_*.py`
and `toqito/state_props/is_{pure,mixed,ensemble,mutually_orthogonal,mutually_unbiased_basis,
unextendible_product_basis}.py` over `ℚ[i]`  (no Mathlib)

Every decider returns a `Verdict`:

* `yes`  — the defining relation of the predicate (as documented by toqito) holds **exactly**
           (for inequality-type predicates with no boundary allowance: holds with the margin);
* `no`   — it is violated by at least `margin·(1 + scale)` in some entry (`scale` = largest `|re|+|im|`
           of the two sides), far above the library tolerances (`rtol = 1e-5`, `atol = 1e-8`);
* `unknown` — neither (closer to the boundary than the margin); the harness never generates such inputs.

Equation-type predicates are all instances of `eqV` (entrywise comparison of two exactly computed
sides, the same two sides `np.allclose` receives in the Python code); the order of the two sides and the
shape guards follow each Python function.
-/

namespace Toq.MatrixPreds
open Toq.MatrixOps

inductive Verdict where
  | yes
  | no
  | unknown
deriving DecidableEq, Repr, Inhabited

namespace Verdict
def and : Verdict → Verdict → Verdict
  | .no, _ => .no
  | _, .no => .no
  | .yes, .yes => .yes
  | _, _ => .unknown
def not : Verdict → Verdict
  | .yes => .no
  | .no => .yes
  | .unknown => .unknown
def ofBool (b : Bool) : Verdict := if b then .yes else .no
def all (l : List Verdict) : Verdict := l.foldl Verdict.and .yes
def str : Verdict → String
  | .yes => "yes"
  | .no => "no"
  | .unknown => "unknown"
end Verdict

/-! ## basic exact matrix helpers -/

def maxRat (a b : Rat) : Rat := if a < b then b else a

/-- largest `|re| + |im|` of the entries -/
def maxAbs1 (A : Mat QI) : Rat :=
  (List.range A.r).foldl (fun acc i => (List.range A.c).foldl (fun acc j => maxRat acc (A.f i j).abs1) acc) 0

/-- store the entries (so that nested products are not recomputed on every access) -/
def force (A : Mat QI) : Mat QI :=
  let M := QMat.ofMat A
  ⟨A.r, A.c, fun i j => M.get i j⟩

def isSquare (A : Mat QI) : Bool := A.r == A.c

def scalarMul (t : QI) (A : Mat QI) : Mat QI := ⟨A.r, A.c, fun i j => t * A.f i j⟩
def addScalarDiag (A : Mat QI) (t : Rat) : Mat QI := ⟨A.r, A.c, fun i j => if i = j then A.f i j + ⟨t, 0⟩ else A.f i j⟩
def zeroMat (r c : Nat) : Mat QI := ⟨r, c, fun _ _ => 0⟩
def traceQ (A : Mat QI) : QI := sumN A.r (fun i => A.f i i)

/-- entrywise exact equality of two matrices of the shape of `L` -/
def eqExact (L R : Mat QI) : Bool := allBelow L.r (fun i => allBelow L.c (fun j => L.f i j == R.f i j))

/-- some entry differs by at least `margin·(1 + scale)` in `|re| + |im|` -/
def farApart (L R : Mat QI) (margin : Rat) : Bool :=
  let scale := maxRat (maxAbs1 L) (maxAbs1 R)
  anyBelow L.r (fun i => anyBelow L.c (fun j => decide (margin * (1 + scale) ≤ (L.f i j - R.f i j).abs1)))

/-- the generic equation decider: the two sides `np.allclose(L, R)` receives -/
def eqV (L R : Mat QI) (margin : Rat) : Verdict :=
  let L := force L
  let R := force R
  if eqExact L R then .yes else if farApart L R margin then .no else .unknown

/-! ## matrix predicates (equation type) -/

/-- `is_hermitian`: square and `allclose(mat, mat.conj().T)` -/
def hermitianV (A : Mat QI) (m : Rat) : Verdict :=
  if !isSquare A then .no else eqV A (ctranspose A) m

/-- `is_anti_hermitian(mat) = is_hermitian(mat * 1j)` -/
def antiHermitianV (A : Mat QI) (m : Rat) : Verdict := hermitianV (scalarMul ⟨0, 1⟩ A) m

/-- `is_symmetric`: square and `allclose(mat, mat.T)` -/
def symmetricV (A : Mat QI) (m : Rat) : Verdict :=
  if !isSquare A then .no else eqV A (transpose A) m

/-- `is_normal`: square and `allclose(mat @ mat.conj().T, mat.conj().T @ mat)` -/
def normalV (A : Mat QI) (m : Rat) : Verdict :=
  if !isSquare A then .no else eqV (mul A (ctranspose A)) (mul (ctranspose A) A) m

/-- `is_unitary`: square, `allclose(U* U, I)` and `allclose(U U*, I)` -/
def unitaryV (A : Mat QI) (m : Rat) : Verdict :=
  if !isSquare A then .no
  else (eqV (mul (ctranspose A) A) (eye A.r) m).and (eqV (mul A (ctranspose A)) (eye A.r) m)

/-- `np.diag(np.hstack((np.ones(p), -np.ones(q))))` -/
def signature (p q : Nat) : Mat QI := ⟨p + q, p + q, fun i j => if i = j then (if i < p then 1 else -1) else 0⟩

/-- `is_pseudo_unitary(mat, p, q)`: square, `p + q = n`, `allclose(A* J A, J)` -/
def pseudoUnitaryV (A : Mat QI) (p q : Nat) (m : Rat) : Verdict :=
  if !isSquare A then .no
  else if p + q != A.r then .no
  else eqV (mul (mul (ctranspose A) (signature p q)) A) (signature p q) m

/-- `is_identity`: square and `allclose(mat, eye)` -/
def identityV (A : Mat QI) (m : Rat) : Verdict :=
  if !isSquare A then .no else eqV A (eye A.r) m

/-- `is_idempotent`: square and `allclose(mat, mat @ mat)` -/
def idempotentV (A : Mat QI) (m : Rat) : Verdict :=
  if !isSquare A then .no else eqV A (mul A A) m

/-- `is_projection` **as implemented and as its own docstring example shows** (`[[0,1],[0,1]]` is
    accepted): square and `allclose(matrix_power(mat, 2), mat)`; Hermiticity is *not* part of it -/
def projectionV (A : Mat QI) (m : Rat) : Verdict :=
  if !isSquare A then .no else eqV (mul A A) A m

/-- `is_diagonal`: square and every off-diagonal entry is exactly zero (the code has no tolerance) -/
def diagonalV (A : Mat QI) : Verdict :=
  if !isSquare A then .no
  else .ofBool (allBelow A.r (fun i => allBelow A.c (fun j => i == j || A.f i j == 0)))

/-- `is_circulant`: square and `allclose(mat[i+1], np.roll(mat[i], 1))` for all `i < n-1` -/
def circulantV (A : Mat QI) (m : Rat) : Verdict :=
  if !isSquare A then .no
  else
    let n := A.r
    eqV ⟨n - 1, n, fun i j => A.f (i + 1) j⟩ ⟨n - 1, n, fun i j => A.f i ((j + n - 1) % n)⟩ m

/-- `is_commuting`: `allclose(A @ B - B @ A, 0)` -/
def commutingV (A B : Mat QI) (m : Rat) : Verdict :=
  eqV (sub (mul A B) (mul B A)) (zeroMat A.r A.c) m

/-! ## exact elimination: inverse, determinant, definiteness -/

def QMat.identity (n : Nat) : QMat :=
  (Array.range n).map fun i => (Array.range n).map fun j => if i = j then (1 : QI) else 0

/-- Gauss–Jordan inverse over `ℚ[i]`; `none` iff singular -/
def inverse (n : Nat) (M : QMat) : Option QMat := Id.run do
  let mut A := M
  let mut B := QMat.identity n
  for c in [0:n] do
    match findPivot A n c c with
    | none => return none
    | some p =>
      A := A.swapIfInBounds c p
      B := B.swapIfInBounds c p
      let inv := qinv (A.get c c)
      A := A.modify c (fun row => row.map (fun x => x * inv))
      B := B.modify c (fun row => row.map (fun x => x * inv))
      for i in [0:n] do
        if i != c then
          let t := A.get i c
          if t != 0 then
            let rb := B[c]!
            A := rowSubMul A i c t
            B := B.modify i (fun ri => ri.mapIdx fun j x => x - t * rb[j]!)
  return some B

/-- exact determinant by elimination (row swaps flip the sign) -/
def det (n : Nat) (M : QMat) : QI := Id.run do
  let mut A := M
  let mut d : QI := 1
  for c in [0:n] do
    match findPivot A n c c with
    | none => return 0
    | some p =>
      if p != c then
        A := A.swapIfInBounds c p
        d := -d
      let piv := A.get c c
      d := d * piv
      let inv := qinv piv
      for i in [c + 1:n] do
        let t := A.get i c * inv
        if t != 0 then A := rowSubMul A i c t
  return d

/-- result of the exact `LDLᴴ` elimination: the unit lower triangular factor built so far, the pivots, the eliminated matrix at the
    point where the run stopped, and where it failed: `(k, k)` = pivot `k` is not real or negative; `(k, j)` with `j > k` = pivot `k`
    is zero but the entry `(k, j)` of the eliminated matrix is not -/
structure LDL where
  L : QMat
  D : Array Rat
  U : QMat
  fail : Option (Nat × Nat)

/-- exact `LDLᴴ` elimination of a Hermitian matrix by row operations (the trailing block of the eliminated matrix is the Schur
    complement): every pivot must be real and `≥ 0`, and a zero pivot must have a zero row to its right -/
def ldlRun (n : Nat) (M : QMat) : LDL := Id.run do
  let mut A := M
  let mut L := QMat.identity n
  let mut D : Array Rat := Array.replicate n 0
  for k in [0:n] do
    let d := A.get k k
    if d.im != 0 || d.re < 0 then return ⟨L, D, A, some (k, k)⟩
    if d.re == 0 then
      for j in [k + 1:n] do
        if A.get k j != 0 then return ⟨L, D, A, some (k, j)⟩
    else
      D := D.setIfInBounds k d.re
      let inv := qinv d
      for i in [k + 1:n] do
        let t := A.get i k * inv
        if t != 0 then
          L := L.modify i (fun row => row.setIfInBounds k t)
          A := rowSubMul A i k t
  return ⟨L, D, A, none⟩

/-- exact `LDLᴴ` test of positive semidefiniteness of a Hermitian matrix: the elimination runs through -/
def isPSDExact (n : Nat) (M : QMat) : Bool := (ldlRun n M).fail.isNone

/-- solve `Lᴴ x = y` for a unit lower triangular `L` -/
def backSubst (n : Nat) (L : QMat) (y : Array QI) : Array QI := Id.run do
  let mut x := y
  for r in [0:n] do
    let i := n - 1 - r
    let mut acc := y[i]!
    for l in [i + 1:n] do
      acc := acc - (L.get l i).conj * x[l]!
    x := x.setIfInBounds i acc
  return x

/-- a direction `x` with `xᴴ M x < 0` read off a failed elimination: in the eliminated coordinates `y = e_k` for a negative pivot,
    `y = s·e_k + e_j` with `conj(s)·b = -(c+1)/2` for a zero pivot with `b = U[k,j] ≠ 0`, `c = U[j,j]` (value `-1`); then `x = L⁻ᴴ y`.
    (Nothing is claimed about this search: the result is only used after the proved checker `npsdCert` has accepted it.) -/
def psdWitness (n : Nat) (r : LDL) (k j : Nat) : Array QI :=
  let y0 : Array QI := Array.replicate n 0
  let y :=
    if j = k then y0.setIfInBounds k 1
    else
      let b := r.U.get k j
      let c := (r.U.get j j).re
      let s : QI := QI.smul (-((c + 1) / 2) / (b.re * b.re + b.im * b.im)) b
      (y0.setIfInBounds k s).setIfInBounds j 1
  backSubst n r.L y

/-- exact test of positive definiteness of a Hermitian matrix: every pivot is real and `> 0` -/
def isPDExact (n : Nat) (M : QMat) : Bool := Id.run do
  let mut A := M
  for k in [0:n] do
    let d := A.get k k
    if d.im != 0 || d.re ≤ 0 then return false
    let inv := qinv d
    for i in [k + 1:n] do
      let t := A.get i k * inv
      if t != 0 then A := rowSubMul A i k t
  return true

/-! ## verified certificates for the definiteness verdicts

The eliminations above carry no correctness theorem of their own.  The definiteness deciders below therefore answer only after one
of these proved checkers (`Toq.C16.psd_certificate_sound`, `Toq.C16.not_psd_certificate_sound`) has accepted a certificate that the
model computes itself from the elimination (`isPSDCertified`, `notPSDShift`), which makes their verdicts theorems
(`Toq.C16.psd_yes_sound`, `psd_no_sound`, `pd_yes_sound`, `pd_no_sound`); the harness sends independent certificates as well.
`det`, `inverse`, `minors`, `totallyPositiveV`, `pseudoHermitianV` and `isPDExact` are superseded by the proved `detL`, `invL`,
`totallyPositiveVL`, `pseudoHermitianVL` of `Toq/Model/MatrixPredsDet.lean` (which the driver uses) and are kept as cross-checks. -/

/-- the entries of a `Mat QI` as an `EMat` -/
def toEMat (A : Mat QI) (n m : Nat) : EMat n m := EMat.ofFn fun i j => A.f i.val j.val

/-- diagonal matrix with rational entries -/
def diagE {n : Nat} (D : Fin n → Rat) : EMat n n := EMat.ofFn fun i j => if i = j then QI.ofRat (D i) else 0

/-- verified PSD certificate: `A = L·diag(D)·Lᴴ` exactly with `D ≥ 0` -/
def psdCertLDL {n : Nat} (A L : EMat n n) (D : Fin n → Rat) : Bool :=
  EMat.allFin n (fun i => decide (0 ≤ D i)) && A.beq (L.mul ((diagE D).mul L.ct))

/-- verified certificate that `A + μ·I` is not PSD (`λ_min(A) < -μ`): a vector with `xᴴ (A + μ I) x < 0` -/
def npsdCert {n : Nat} (A : EMat n n) (x : EMat n 1) (μ : Rat) : Bool :=
  decide (((x.ct.mul ((A + EMat.scalar μ).mul x)).get ⟨0, by omega⟩ ⟨0, by omega⟩).re < 0)

/-- verified certificate of linear independence of the columns of `V` (`d × n`): a left inverse -/
def linIndepCert {d n : Nat} (V : EMat d n) (W : EMat n d) : Bool := (W.mul V).beq EMat.one

/-- verified certificate of linear dependence of the columns: `V c = 0` with `c ≠ 0` -/
def linDepCert {d n : Nat} (V : EMat d n) (c : EMat n 1) : Bool :=
  !(c.beq EMat.zero) && (V.mul c).beq EMat.zero

/-- verified rank certificate for `S` (`R × C`): `P S Q = I_r` (rank ≥ r), and `S N = 0`, `M N = I_k`
    (nullity ≥ k), with `r + k = C` -/
def rankCert {R C r k : Nat} (S : EMat R C) (P : EMat r R) (Q : EMat C r) (N : EMat C k) (M : EMat k C) : Bool :=
  decide (r + k = C) && ((P.mul (S.mul Q)).beq EMat.one) && ((S.mul N).beq EMat.zero) && ((M.mul N).beq EMat.one)

/-- exact rows as an `EMat` -/
def qmatToEMat (M : QMat) (n m : Nat) : EMat n m := EMat.ofFn fun i j => M.get i.val j.val

/-! ## definiteness-type predicates -/

def vecToEMat (x : Array QI) (n : Nat) : EMat n 1 := EMat.ofFn fun i _ => x[i.val]!

/-- `A + μ·I` is not positive semidefinite, established by a direction found in the failed elimination and accepted by the proved
    checker `npsdCert` -/
def notPSDShift (A : Mat QI) (μ : Rat) : Bool :=
  let n := A.r
  let rb := ldlRun n (QMat.ofMat (addScalarDiag A μ))
  match rb.fail with
  | none => false
  | some (k, j) => npsdCert (toEMat A n n) (vecToEMat (psdWitness n rb k j) n) μ

/-- `A` is positive semidefinite, established by the factorisation `A = L·diag(D)·Lᴴ` of the elimination and accepted by the proved
    checker `psdCertLDL` -/
def isPSDCertified (A : Mat QI) : Bool :=
  let n := A.r
  let r := ldlRun n (QMat.ofMat A)
  r.fail.isNone && psdCertLDL (toEMat A n n) (qmatToEMat r.L n n) (fun i => r.D[i.val]!)

/-- `is_positive_semidefinite`: `is_hermitian` and `eigvalsh ≥ -atol`.
    `yes`: Hermitian and PSD exactly (with a checked `LDLᴴ` certificate); `no`: not Hermitian by the margin, or `A + μ I` is not PSD
    (`λ_min < -μ`, `μ = margin·(1+scale)`, with a checked negative direction) -/
def psdV (A : Mat QI) (m : Rat) : Verdict :=
  match hermitianV A m with
  | .no => .no
  | .unknown => .unknown
  | .yes =>
    let A := force A
    if isPSDCertified A then .yes
    else if notPSDShift A (m * (1 + maxAbs1 A)) then .no
    else .unknown

/-- `is_positive_definite`: `np.array_equal(mat, mat.conj().T)` (exact) and Cholesky succeeds.
    `yes`: exactly Hermitian and `A - μ I` positive semidefinite (so `λ_min ≥ μ > 0`); `no`: not exactly Hermitian or `A + μ I`
    not PSD -/
def pdV (A : Mat QI) (m : Rat) : Verdict :=
  if !isSquare A then .no
  else
    let A := force A
    if !eqExact A (ctranspose A) then .no
    else
      let μ := m * (1 + maxAbs1 A)
      if isPSDCertified (force (addScalarDiag A (-μ))) then .yes
      else if notPSDShift A μ then .no
      else .unknown

/-- `is_density`: `is_positive_semidefinite(mat) and np.isclose(np.trace(mat), 1)` -/
def densityV (A : Mat QI) (m : Rat) : Verdict :=
  if !isSquare A then .no
  else (psdV A m).and (eqV ⟨1, 1, fun _ _ => traceQ A⟩ (eye 1) m)

/-- `is_pseudo_hermitian(mat, signature)`; the guards on the signature are `ValueError`s.
    `allclose(η H η⁻¹, H*)` with the exact inverse -/
def pseudoHermitianV (H η : Mat QI) (m : Rat) : Except String Verdict :=
  if hermitianV η m != .yes then .error "SignatureNotHermitian"
  else
    match inverse η.r (QMat.ofMat η) with
    | none => .error "SignatureNotInvertible"
    | some inv =>
      if !isSquare H || H.r * H.c != η.r * η.c then .ok .no
      else
        let ηinv : Mat QI := ⟨η.r, η.c, fun i j => inv.get i j⟩
        .ok (eqV (mul (mul η H) ηinv) (ctranspose H) m)

/-! ## entrywise real predicates -/

def isRealMat (A : Mat QI) : Bool := allBelow A.r (fun i => allBelow A.c (fun j => (A.f i j).im == 0))

/-- `is_nonnegative(mat, "nonnegative")`: `np.all(mat >= 0)` (exact comparison; real matrices) -/
def nonnegativeV (A : Mat QI) : Verdict :=
  if !isRealMat A then .unknown
  else .ofBool (allBelow A.r (fun i => allBelow A.c (fun j => decide (0 ≤ (A.f i j).re))))

/-- `is_nonnegative(mat, "doubly")`: entrywise non-negative and positive semidefinite -/
def doublyNonnegativeV (A : Mat QI) (m : Rat) : Verdict := (nonnegativeV A).and (psdV A m)

/-- `is_positive`: `np.all(mat > 0)` -/
def positiveV (A : Mat QI) : Verdict :=
  if !isRealMat A then .unknown
  else .ofBool (allBelow A.r (fun i => allBelow A.c (fun j => decide (0 < (A.f i j).re))))

/-- `is_stochastic(mat, mat_type)`: square, non-negative, column sums (`left`), row sums (`right`) or
    both (`doubly`) `allclose` to 1; `mat_type`: 0 = left, 1 = right, 2 = doubly -/
def stochasticV (A : Mat QI) (matType : Nat) (m : Rat) : Verdict :=
  if !isSquare A then .no
  else
    let ones : Mat QI := ⟨1, A.r, fun _ _ => 1⟩
    let colSums : Mat QI := ⟨1, A.c, fun _ j => sumN A.r (fun i => A.f i j)⟩
    let rowSums : Mat QI := ⟨1, A.r, fun _ i => sumN A.c (fun j => A.f i j)⟩
    let left := if matType == 0 || matType == 2 then eqV colSums ones m else .yes
    let right := if matType == 1 || matType == 2 then eqV rowSums ones m else .yes
    (nonnegativeV A).and (left.and right)

/-- `is_permutation`: every entry is exactly 0 or 1, every row and every column sums to 1 -/
def permutationV (A : Mat QI) : Verdict :=
  let zeroOne := allBelow A.r (fun i => allBelow A.c (fun j => A.f i j == 0 || A.f i j == 1))
  let rows := allBelow A.r (fun i => sumN A.c (fun j => A.f i j) == 1)
  let cols := allBelow A.c (fun j => sumN A.r (fun i => A.f i j) == 1)
  .ofBool (zeroOne && rows && cols)

/-! ### moduli: exact when the squared modulus is a rational square, otherwise a tight enclosure -/

/-- `⌊√(num/den)·2^k⌋ / 2^k` and that plus `2^-k`: an enclosure of `√q` for `q ≥ 0` -/
def sqrtEnclosure (q : Rat) : Rat × Rat :=
  if q ≤ 0 then (0, 0)
  else
    let k : Nat := 60
    -- √(n/d) = √(n·d)/d ;  scaled by 2^k : √(n·d·4^k) / (d·2^k)
    let nd : Nat := q.num.toNat * q.den
    let s := Nat.sqrt (nd * 4 ^ k)
    let dn : Rat := ((q.den * 2 ^ k : Nat) : Rat)
    if s * s = nd * 4 ^ k then ((s : Rat) / dn, (s : Rat) / dn)
    else ((s : Rat) / dn, ((s + 1 : Nat) : Rat) / dn)

/-- enclosure `[lo, hi]` of `|a|` -/
def absEnclosure (a : QI) : Rat × Rat := sqrtEnclosure (a.re * a.re + a.im * a.im)

/-- `is_diagonally_dominant(mat, is_strict)`: square and for every row `|a_ii| > Σ_{j≠i} |a_ij|`
    (`≥` when not strict).  The gap of each row is enclosed exactly; `yes`: every row gap `≥ μ`
    (or, non-strict, some gaps exactly `0` with exactly known moduli); `no`: some row gap `≤ -μ`
    (or, strict, exactly `0` with exactly known moduli) -/
def diagDominantV (A : Mat QI) (strict : Bool) (m : Rat) : Verdict :=
  if !isSquare A then .no
  else
    let μ := m * (1 + maxAbs1 A)
    let rows := (List.range A.r).map fun i =>
      let d := absEnclosure (A.f i i)
      let off := (List.range A.c).foldl (fun (acc : Rat × Rat) j =>
        if j = i then acc else let e := absEnclosure (A.f i j); (acc.1 + e.1, acc.2 + e.2)) (0, 0)
      -- gap ∈ [d.lo - off.hi, d.hi - off.lo]
      let lo := d.1 - off.2
      let hi := d.2 - off.1
      if lo = hi ∧ lo = 0 then (if strict then Verdict.no else Verdict.yes)   -- exact tie
      else if μ ≤ lo then Verdict.yes
      else if hi ≤ -μ then Verdict.no
      else Verdict.unknown
    Verdict.all rows

/-! ## sets of vectors -/

/-- exact rank of the `d × n` matrix whose columns are the vectors -/
def rankOfColumns (d n : Nat) (vs : Nat → Nat → QI) : Nat :=
  rank d n (QMat.ofMat ⟨d, n, fun a k => vs k a⟩)

/-- `is_linearly_independent`: `matrix_rank(column_stack(vectors)) == len(vectors)` -/
def linIndepV (d n : Nat) (vs : Nat → Nat → QI) : Verdict := .ofBool (rankOfColumns d n vs == n)

/-- Gram matrix with the diagonal set to zero (`np.fill_diagonal(·, 0)`) -/
def gramOffDiag (d n : Nat) (vs : Nat → Nat → QI) : Mat QI :=
  let G := gram d n vs
  ⟨n, n, fun i j => if i = j then 0 else G.f i j⟩

/-- `is_mutually_orthogonal`: off-diagonal inner products `allclose` to 0 (`ValueError` for `< 2` vectors) -/
def mutuallyOrthogonalV (d n : Nat) (vs : Nat → Nat → QI) (m : Rat) : Except String Verdict :=
  if n ≤ 1 then .error "TooFewVectors" else .ok (eqV (gramOffDiag d n vs) (zeroMat n n) m)

/-- `is_orthonormal`: mutually orthogonal and `allclose(V V*, I)` for the matrix `V` of row vectors -/
def orthonormalV (d n : Nat) (vs : Nat → Nat → QI) (m : Rat) : Except String Verdict := do
  let mo ← mutuallyOrthogonalV d n vs m
  let V : Mat QI := ⟨n, d, fun k a => vs k a⟩
  return mo.and (eqV (mul V (ctranspose V)) (eye n) m)

/-! ### totally positive -/

def subMatrix (A : Mat QI) (rows cols : List Nat) : QMat :=
  (rows.map fun i => (cols.map fun j => A.f i j).toArray).toArray

/-- every minor of the sizes considered (`sub_sizes`, default `1..min(r,c)`), in the order of the code -/
def minors (A : Mat QI) (subSizes : Option (List Nat)) : List QI :=
  let sizes := match subSizes with
    | some l => l
    | none => (List.range (min A.r A.c)).map (· + 1)
  sizes.flatMap fun j =>
    (combinations A.r j).flatMap fun kr =>
      (combinations A.c j).map fun kc => det j (subMatrix A kr kc)

/-- `is_totally_positive`: every minor (of the sizes considered) is real and positive.
    `yes`: every minor real and `≥ margin`; `no`: some minor has real part `≤ -margin` or
    `|im| ≥ margin`; zero / tiny minors are `unknown` (the code treats 1×1 and larger minors
    differently exactly there) -/
def totallyPositiveV (A : Mat QI) (subSizes : Option (List Nat)) (m : Rat) : Verdict :=
  let A := force A
  Verdict.all ((minors A subSizes).map fun d =>
    if d.im = 0 ∧ m ≤ d.re then Verdict.yes
    else if d.re ≤ -m ∨ m ≤ d.im ∨ d.im ≤ -m then Verdict.no
    else Verdict.unknown)

/-! ## state-set predicates -/

/-- `is_pure(ρ)` for a density matrix: `yes` iff `ρ` is exactly a density matrix with `Tr ρ² = 1`
    (rank one); `no` iff it is exactly a density matrix with `Tr ρ² ≤ 1 - 2·margin`
    (largest eigenvalue `≤ 1 - margin`); anything that is not exactly a density matrix is `unknown`
    (outside the documented domain) -/
def pureV (ρ : Mat QI) (m : Rat) : Verdict :=
  if densityV ρ m != .yes then .unknown
  else
    let ρ := force ρ
    let p := (traceQ (mul ρ ρ)).re
    if p = 1 then .yes else if p ≤ 1 - 2 * m then .no else .unknown

/-- list form of `is_pure` -/
def pureListV (ρs : List (Mat QI)) (m : Rat) : Verdict := Verdict.all (ρs.map (pureV · m))

/-- `is_mixed = not is_pure` -/
def mixedV (ρ : Mat QI) (m : Rat) : Verdict := (pureV ρ m).not

/-- `is_ensemble`: every operator positive semidefinite and the traces sum to 1 -/
def ensembleV (ρs : List (Mat QI)) (m : Rat) : Verdict :=
  let tr : QI := ρs.foldl (fun acc ρ => acc + traceQ ρ) 0
  (Verdict.all (ρs.map (psdV · m))).and (eqV ⟨1, 1, fun _ _ => tr⟩ (eye 1) m)

/-- inner product `⟨u, v⟩ = Σ conj(u_k) v_k` (`np.vdot`) -/
def vdot (d : Nat) (u v : Nat → QI) : QI := sumN d (fun k => (u k).conj * v k)

def normSq (a : QI) : Rat := a.re * a.re + a.im * a.im

/-- rational comparison `x ≈ target` with the margin -/
def ratV (x target : Rat) (m : Rat) : Verdict :=
  if x = target then .yes
  else if m ≤ x - target ∨ m ≤ target - x then .no else .unknown

/-- `is_mutually_unbiased_basis`.  The `k`-th vector is `w k / √(s k)` with `w k ∈ ℚ[i]^d`, `s k > 0`
    rational (so that `1/√2` etc. are representable exactly); `n` vectors, listed basis after basis.

    Documented definition (`defn = true`): `n` is a multiple of `d`, every block of `d` consecutive
    vectors is an orthonormal basis, and `|⟨u, v⟩|² = 1/d` for vectors of different blocks.
    `defn = false` gives what the Python loop evaluates (cross-block overlaps only). -/
def mubV (d n : Nat) (w : Nat → Nat → QI) (s : Nat → Rat) (defn : Bool) (m : Rat) : Verdict :=
  if d = 0 then .unknown
  else if n % d != 0 then .no
  else
    let nb := n / d
    let ov := fun a b => normSq (vdot d (w a) (w b)) / (s a * s b)      -- |⟨v_a, v_b⟩|²
    let cross := Verdict.all <| (List.range nb).flatMap fun i => (List.range nb).flatMap fun j =>
      if i < j then (List.range d).flatMap fun k => (List.range d).map fun l =>
        ratV (ov (i * d + k) (j * d + l)) (1 / (d : Rat)) m
      else []
    let within := Verdict.all <| (List.range nb).flatMap fun i => (List.range d).flatMap fun k =>
      (List.range d).map fun l =>
        ratV (ov (i * d + k) (i * d + l)) (if k = l then 1 else 0) m
    if defn then within.and cross else cross

/-! ### unextendible product bases -/

/-- digits of `j` for the radices `dims` (list form) -/
def digits (dims : List Nat) (j : Nat) : List Nat :=
  let n := dims.length
  (List.range n).map (fun k => dec (fnOfList dims 1) n j k)

def undigits (dims : List Nat) (x : List Nat) : Nat :=
  enc (fnOfList dims 1) (fnOfList x) dims.length

/-- local factors of a product vector `v` (up to scalars): with `p0` the first position of a non-zero
    entry, factor `i` is the slice of `v` through `p0` along axis `i`; the zero vector has zero factors -/
def localFactors (dims : List Nat) (v : Nat → QI) : List (List QI) :=
  let D := dims.foldl (· * ·) 1
  match (List.range D).find? (fun j => v j != 0) with
  | none => dims.map (fun di => List.replicate di 0)
  | some p0 =>
    let x0 := digits dims p0
    (List.range dims.length).map fun i =>
      (List.range (dims.getD i 1)).map fun t => v (undigits dims (x0.set i t))

/-- `v` is exactly a product vector: `v[j]·v[p0]^{m-1} = Π_i a_i[j_i]` for its slices `a_i` -/
def isProductExact (dims : List Nat) (v : Nat → QI) : Bool :=
  let D := dims.foldl (· * ·) 1
  match (List.range D).find? (fun j => v j != 0) with
  | none => true
  | some p0 =>
    let facs := localFactors dims v
    let c := v p0
    let cpow := (List.range (dims.length - 1)).foldl (fun acc _ => acc * c) (1 : QI)
    (List.range D).all fun j =>
      let xs := digits dims j
      let prod := (List.range dims.length).foldl (fun acc i => acc * ((facs.getD i []).getD (xs.getD i 0) 0)) (1 : QI)
      v j * cpow == prod

/-- all functions `0..n-1 → 0..m-1` as lists -/
def assignments (n m : Nat) : List (List Nat) :=
  match n with
  | 0 => [[]]
  | n + 1 => (assignments n m).flatMap fun t => (List.range m).map fun a => a :: t

/-- `is_unextendible_product_basis(vecs, dims)[0]` decided exactly.  The vectors must be exactly
    product vectors (otherwise the Python code raises `ValueError`), mutually orthogonal (otherwise the
    set is not a product basis: `unknown`).  Not a UPB iff the vectors can be distributed over the
    parties such that party `i` has a local vector orthogonal to all local factors it received
    (`rank < d_i`); the Python code searches the distributions with non-empty parts (after padding
    with zero vectors when there are fewer vectors than parties), `surjOnly` restricts to those. -/
def upbV (dims : List Nat) (n : Nat) (vs : Nat → Nat → QI) (surjOnly : Bool) (m : Rat) :
    Except String Verdict :=
  let D := dims.foldl (· * ·) 1
  let np := dims.length
  if !(List.range n).all (fun k => isProductExact dims (vs k)) then .error "NotProduct"
  else if n ≥ 2 ∧ eqV (gramOffDiag D n vs) (zeroMat n n) m != .yes then .ok .unknown
  else
    let n' := max n np                                -- padded with zero vectors
    let facs : List (List (List QI)) := (List.range n').map fun k =>
      if k < n then localFactors dims (vs k) else dims.map (fun di => List.replicate di 0)
    let witness := (assignments n' np).any fun asg =>
      (!surjOnly || (List.range np).all (fun i => asg.contains i)) &&
      (List.range np).all fun i =>
        let mine := (List.range n').filter (fun k => asg.getD k 0 == i)
        let di := dims.getD i 1
        let M : QMat := (mine.map fun k => (((facs.getD k []).getD i []).toArray)).toArray
        rank mine.length di M < di
    .ok (.ofBool (!witness))

end Toq.MatrixPreds
