import Toq.Model.DiscrimArgs
/-!
# How a call of `state_distinguishability` binds its option arguments (C10) — executable, no Mathlib

The public signature is

```
def state_distinguishability(vectors, probs=None, strategy="min_error", solver="cvxopt", primal_dual="dual", **kwargs)
```

so a caller may hand the three options over by keyword, by position (in this order, after `vectors` and `probs`), or
mixed.  `sdBind` is Python's binding rule for the part of the call after `probs`: positional values fill `strategy`,
`solver`, `primal_dual` from the left; a keyword fills the parameter of that name; a parameter named by a keyword that
a positional value has already filled, or a fourth positional value (`**kwargs` takes keywords only), is a `TypeError`;
keywords with other names travel on to the solver (`**kwargs`) and do not take part in the dispatch.
`sdFrontCall` is `sdFront` (Model/DiscrimArgs.lean) behind that binding.
-/

namespace Toq.Discrim

/-- the option parameters after `vectors, probs`, in the order of the signature -/
def sdOptNames : List String := ["strategy", "solver", "primal_dual"]

/-- the three bound options of one call -/
structure SdOpts where
  strategy : String
  solver : String
  primalDual : String
  deriving Repr, DecidableEq

/-- value of the `i`-th option parameter (named `name`, default `dflt`): the `i`-th positional value, else the keyword of
that name, else the default -/
def sdOptValue (pos : List String) (kw : List (String × String)) (i : Nat) (name dflt : String) : String :=
  match pos[i]? with
  | some v => v
  | none => (kw.lookup name).getD dflt

/-- Python's binding of `state_distinguishability(vectors, probs, *pos, **kw)`; `none` = `TypeError` (more than three
positional options, or an option given both by position and by keyword) -/
def sdBind (pos : List String) (kw : List (String × String)) : Option SdOpts :=
  if 3 < pos.length then none
  else if (sdOptNames.take pos.length).any (fun n => kw.any fun e => e.1 == n) then none
  else some ⟨sdOptValue pos kw 0 "strategy" sdDefaultStrategy, sdOptValue pos kw 1 "solver" sdDefaultSolver,
    sdOptValue pos kw 2 "primal_dual" sdDefaultPrimalDual⟩

/-- outcome of the lines of `state_distinguishability` before a picos problem is set up, for a call in any form -/
inductive SdCallResult where
  | typeError
  | valueError
  | built (f : SdFront) (solver : String)

/-- `state_distinguishability(vectors, probs, *pos, **kw)` up to the worker call -/
def sdFrontCall (shapes : List SdShape) (probs : Option (List Rat)) (pos : List String) (kw : List (String × String)) :
    SdCallResult :=
  match sdBind pos kw with
  | none => .typeError
  | some o =>
    match sdFront shapes probs o.strategy o.primalDual with
    | none => .valueError
    | some f => .built f o.solver

end Toq.Discrim
