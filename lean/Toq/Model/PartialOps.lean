import Toq.Model.Perms
/-!
# Mirror models of `toqito/channels/partial_trace.py`, `partial_transpose.py`, `realignment.py`
(no Mathlib).  Subsystem lists are Lean lists (`sys` is 0-indexed in these functions); matrices are
functions `Nat → Nat → α` with sizes passed explicitly.
-/
namespace Toq.PartialOps
open Toq.Perms

/-- `list(set(range(n)) - set(sys))` (small-int sets iterate in increasing order) -/
def setDiff (n : Nat) (sys : List Nat) : List Nat := (List.range n).filter (fun k => !sys.contains k)

def prodList (dims : Nat → Nat) (l : List Nat) : Nat := l.foldl (fun acc k => acc * dims k) 1

/-- a matrix read as a flat vector in `order="F"` -/
def matFlatF (X : Nat → Nat → α) (rows : Nat) : Nat → α := fun f => X (f % rows) (f / rows)

/-- a flat `order="F"` vector read as a matrix with `rows` rows -/
def matOfFlatF (v : Nat → α) (rows : Nat) : Nat → Nat → α := fun i j => v (i + rows * j)

/-- `partial_trace(X, sys, dim)` after argument normalisation (`sys` a list, `dim` a list of length `n`) -/
def partialTrace [Add α] [Zero α] (X : Nat → Nat → α) (n : Nat) (dims : Nat → Nat) (sys : List Nat) :
    Nat → Nat → α :=
  let N := prodN dims n
  let T := prodList dims sys                       -- prod_dim_sys = sub_sys_vec[0]
  let K := N / T                                   -- sub_prod
  let perm := fnOfList (setDiff n sys ++ sys)
  let a := permuteMat X n perm dims dims false false
  -- np.reshape(a_mat, [T, K, T, K], order="F")
  let r4 := ND.ofFlatF (matFlatF a N) 4 (fnOfList [T, K, T, K])
  -- .transpose((1, 3, 0, 2))
  let p4 := r4.transpose (fnOfList [1, 3, 0, 2])
  -- np.reshape(…, [K, K, T*T], order="F")
  let r3 := ND.ofFlatF p4.vecF 3 (fnOfList [K, K, T * T])
  -- [:, :, range(0, T*T, T+1)] then sum(axis=2)
  fun i j => sumN T (fun t => r3.get (fnOfList [i, j, t * (T + 1)]))

/-- `partial_transpose(rho, sys, dim)` after normalisation: `rd`, `cd` row/column dims of length `n` -/
def partialTranspose (X : Nat → Nat → α) (n : Nat) (rd cd : Nat → Nat) (sys : List Nat) : Nat → Nat → α :=
  let R := prodN rd n
  let C := prodN cd n
  let sr := prodList rd sys                        -- sub_prod_r
  let sc := prodList cd sys                        -- sub_prod_c
  let vr := R / sr                                 -- sub_sys_vec_r[0]
  let vc := C / sc
  let permL := sys ++ setDiff n sys
  let perm := fnOfList permL
  let a := permuteMat X n perm rd cd false false
  let x4 := ND.ofFlatF (matFlatF a R) 4 (fnOfList [vr, sr, vc, sc])
  let y4 := x4.transpose (fnOfList [0, 3, 2, 1])
  let z := matOfFlatF y4.vecF (vr * sc)
  -- dim[:, sys] = flipud(dim[:, sys]); dim = dim[:, perm]
  let rd' := fun k => if sys.contains k then cd k else rd k
  let cd' := fun k => if sys.contains k then rd k else cd k
  let rd'' := fun k => rd' (perm k)
  let cd'' := fun k => cd' (perm k)
  permuteMat z n perm rd'' cd'' false true

/-- `realignment(X, dim)` with `dim = [[r0, r1], [c0, c1]]` (row dims, column dims) -/
def realignment (X : Nat → Nat → α) (r0 r1 c0 c1 : Nat) : Nat → Nat → α :=
  let sw := swapPerm 0 1
  -- x_tmp = swap(X, [1,2], dim, row_only=True)
  let x := permuteMat X 2 sw (fnOfList [r0, r1]) (fnOfList [c0, c1]) true false
  -- dim_x = [[r1, r0],[c0, c1]] ; y_tmp = partial_transpose(x_tmp, [0], dim_x)
  let y := partialTranspose x 2 (fnOfList [r1, r0]) (fnOfList [c0, c1]) [0]
  -- dim_y = [[c0, r0],[r1, c1]] ; swap(y_tmp, [1,2], dim_y, row_only=True)
  permuteMat y 2 sw (fnOfList [c0, r0]) (fnOfList [r1, c1]) true false

end Toq.PartialOps
