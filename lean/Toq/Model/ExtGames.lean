import Toq.Core.EMat
import Toq.Core.Idx
/-!
# Extended nonlocal games, quantum hedging, optimal cloning (C09) — executable, no Mathlib

## Part 1 — extended nonlocal games (`toqito/nonlocal_games/extended_nonlocal_game.py`)

`pred a b x y` is the referee operator `pred_mat[:, :, a, b, x, y]` (a `d × d` matrix), `prob x y` is
`prob_mat[x, y]`.  For answer functions `f : X → A`, `g : Y → B` the question-averaged operator is
`avgOperator G f g = Σ_{x,y} prob x y · pred (f x) (g y) x y`.

* **spec**: the unentangled value is the maximum over *all* pairs of answer functions of
  `λ_max(avgOperator G f g)`; `checkUnentLower` / `checkUnentUpper` certify a lower / an upper bound of it;
* **mirror of the code as it is**: `unentangled_value` loops over pairs of *constant* answers `(a, b)` only
  (`constOperator`), solving `max Re tr(p_winᴴ ρ), tr ρ = 1, ρ ⪰ 0` (= `λ_max(p_win)`) for each;
  `checkUnentConstLower` / `checkUnentConstUpper` certify bounds of the number the code computes.

`λ_max` of an exact Hermitian matrix is enclosed by two certificates: a PSD witness for `c·1 − A`
(upper bound `c`) and the Rayleigh quotient of an explicit non-zero rational vector (lower bound).

## Part 2/3 — hedging and cloning (`quantum_hedging.py`, `state_opt/optimal_clone.py`)

Both are instances of one pair of programs on `ℂ^a ⊗ ℂ^b` (first factor = output systems that are traced
out, second factor = input systems; flat index `i·b + j`):

* primal: maximise / minimise `Re tr(Q X)` subject to `Tr_1 X = 1_b`, `X ⪰ 0`;
* dual:   minimise `tr Y` s.t. `1_a ⊗ Y ⪰ Q`  /  maximise `tr Y` s.t. `1_a ⊗ Y ⪯ Q`, `Y` Hermitian.

Hedging with one repetition is `a = b = 2` (`partial_trace(X, [0], [2, 2])`, `kron(eye(2), Y)`), cloning
with one repetition is `a = 4, b = 2` (`partial_trace(X, [0, 1], [2, 2, 2])`, `kron(kron(eye 2, eye 2), Y)`).
With two repetitions toqito orders the systems `Y₁ X₁ Y₂ X₂` (hedging) resp. `Y₁ Z₁ X₁ Y₂ Z₂ X₂` (cloning);
`reindex σ` brings an operator to the order (outputs, inputs) so that the same checkers apply
(`hedgeSigma2`, `cloneSigma2`).
-/

namespace Toq.ExtGames
open EMat

/-! ## λ_max enclosure -/

section LamMax
variable {n k : Nat}

/-- `c` is an upper bound of `λ_max(A)`: PSD witness `L` for `c·1 − A` -/
def checkLamMaxUpper (A : EMat n n) (c : Rat) (L : EMat n k) : Bool := psdCert (scalar c - A) L

/-- `vᴴ v` (a non-negative rational) -/
def normSq (v : EMat n 1) : Rat := (v.ct.mul v).trace.re

/-- `Re vᴴ A v` -/
def quadForm (A : EMat n n) (v : EMat n 1) : Rat := (v.ct.mul (A.mul v)).trace.re

/-- Rayleigh quotient `vᴴ A v / vᴴ v` of a non-zero vector: a lower bound of `λ_max(A)` for Hermitian `A` -/
def checkLamMaxLower (A : EMat n n) (v : EMat n 1) : Option Rat :=
  if A.isHermitian && decide (0 < normSq v) then some (quadForm A v / normSq v) else none

end LamMax

/-! ## Extended games -/

/-- an extended nonlocal game with referee dimension `d` over exact scalars -/
structure Game (d : Nat) where
  /-- number of Alice's answers -/
  nA : Nat
  /-- number of Bob's answers -/
  nB : Nat
  /-- number of Alice's questions -/
  nX : Nat
  /-- number of Bob's questions -/
  nY : Nat
  /-- `prob_mat[x, y]` -/
  prob : Nat → Nat → Rat
  /-- `pred_mat[:, :, a, b, x, y]` -/
  pred : Nat → Nat → Nat → Nat → EMat d d

variable {d : Nat}

/-- question-averaged referee operator `Σ_{x<nX} Σ_{y<nY} prob x y · pred (f x) (g y) x y` -/
def avgOperator (G : Game d) (f g : Nat → Nat) : EMat d d :=
  ofFn fun i j => sumFin G.nX fun x => sumFin G.nY fun y =>
    QI.smul (G.prob x.val y.val) ((G.pred (f x.val) (g y.val) x.val y.val).get i j)

/-- the operator `p_win` that `unentangled_value` accumulates for the fixed answers `(a_out, b_out)`:
```
for x_in in range(alice_in):
    for y_in in range(bob_in):
        p_win += self.prob_mat[x_in, y_in] * self.pred_mat[:, :, a_out, b_out, x_in, y_in]
``` -/
def constOperator (G : Game d) (a b : Nat) : EMat d d := avgOperator G (fun _ => a) (fun _ => b)

/-- number of functions from a `k`-set to an `n`-set, `n ^ k` -/
def numFns (n k : Nat) : Nat := prodN (fun _ => n) k

/-- the `i`-th function `{0..k-1} → {0..n-1}` in lexicographic order (`itertools.product(range(n), repeat=k)`) -/
def fnOfIdx (n k i : Nat) : Nat → Nat := dec (fun _ => n) k i

/-- `f x < n` for all `x < k` -/
def fnValid (n k : Nat) (f : Nat → Nat) : Bool := allBelow k fun x => decide (f x < n)

/-- Lower bound of the unentangled value: answer functions (as lists of length `nX`, `nY` with valid
    answers) and a non-zero vector `v`; returns the Rayleigh quotient of `avgOperator G f g` at `v`. -/
def checkUnentLower (G : Game d) (f g : List Nat) (v : EMat d 1) : Option Rat :=
  if f.length == G.nX && g.length == G.nY && fnValid G.nA G.nX (fnOfList f) && fnValid G.nB G.nY (fnOfList g) then
    checkLamMaxLower (avgOperator G (fnOfList f) (fnOfList g)) v
  else none

/-- Upper bound `c` of the unentangled value: for *every* pair of answer functions (enumerated by
    `fnOfIdx`) a PSD witness for `c·1 − avgOperator G f g`; witness of the pair `(i, j)` is
    `Ls (i * nB^nY + j)`. -/
def checkUnentUpper (G : Game d) (c : Rat) (Ls : Nat → EMat d d) : Bool :=
  allBelow (numFns G.nA G.nX) fun i => allBelow (numFns G.nB G.nY) fun j =>
    checkLamMaxUpper (avgOperator G (fnOfIdx G.nA G.nX i) (fnOfIdx G.nB G.nY j)) c
      (Ls (i * numFns G.nB G.nY + j))

/-- Lower bound of the number computed by the code: constant answers `a < nA`, `b < nB` -/
def checkUnentConstLower (G : Game d) (a b : Nat) (v : EMat d 1) : Option Rat :=
  if decide (a < G.nA) && decide (b < G.nB) then checkLamMaxLower (constOperator G a b) v else none

/-- Upper bound of the number computed by the code: a PSD witness `Ls (a * nB + b)` for
    `c·1 − constOperator G a b` for every pair of constant answers -/
def checkUnentConstUpper (G : Game d) (c : Rat) (Ls : Nat → EMat d d) : Bool :=
  allBelow G.nA fun a => allBelow G.nB fun b =>
    checkLamMaxUpper (constOperator G a b) c (Ls (a * G.nB + b))

/-! ## Hedging / cloning programs on `ℂ^a ⊗ ℂ^b` -/

section Hedge
variable {a b k : Nat}

theorem pair_lt (i : Fin a) (j : Fin b) : j.val + b * i.val < a * b :=
  calc j.val + b * i.val < b + b * i.val := Nat.add_lt_add_right j.isLt _
    _ = b * (i.val + 1) := by rw [Nat.mul_add, Nat.mul_one, Nat.add_comm]
    _ ≤ b * a := Nat.mul_le_mul_left _ i.isLt
    _ = a * b := Nat.mul_comm _ _

/-- flat index of `|i⟩ ⊗ |j⟩` (`i` on the first factor): `i·b + j` -/
def pair (i : Fin a) (j : Fin b) : Fin (a * b) := ⟨j.val + b * i.val, pair_lt i j⟩

theorem snd_pos (p : Fin (a * b)) : 0 < b := by
  rcases Nat.eq_zero_or_pos b with h | h
  · subst h; exact absurd p.isLt (by simp)
  · exact h

/-- label on the first factor, `p / b` -/
def fstIdx (p : Fin (a * b)) : Fin a :=
  ⟨p.val / b, Nat.div_lt_of_lt_mul (Nat.mul_comm a b ▸ p.isLt)⟩

/-- label on the second factor, `p % b` -/
def sndIdx (p : Fin (a * b)) : Fin b := ⟨p.val % b, Nat.mod_lt _ (snd_pos p)⟩

/-- partial trace over the first factor: `(Tr_1 X) j j' = Σ_i X (i,j) (i,j')` -/
def ptr1 (a b : Nat) (X : EMat (a * b) (a * b)) : EMat b b :=
  ofFn fun j j' => sumFin a fun i => X.get (pair i j) (pair i j')

/-- `1_a ⊗ Y` -/
def kronIY (a : Nat) {b : Nat} (Y : EMat b b) : EMat (a * b) (a * b) :=
  ofFn fun p q => if fstIdx p = fstIdx q then Y.get (sndIdx p) (sndIdx q) else 0

/-- primal-feasible point: `X ⪰ 0` (witness `L`), `Tr_1 X = 1`; `Q` Hermitian.
    Returns `Re tr(Q X)` — a lower bound of the maximum and an upper bound of the minimum. -/
def checkHedgePrimal (a b : Nat) (Q X : EMat (a * b) (a * b)) (L : EMat (a * b) k) : Option Rat :=
  if Q.isHermitian && psdCert X L && (ptr1 a b X).beq one then some (Q.mul X).trace.re else none

/-- `max_prob_outcome_a_primal`, `primal_problem` (cloning): feasible point, value is a lower bound -/
def checkHedgeMaxPrimal (a b : Nat) (Q X : EMat (a * b) (a * b)) (L : EMat (a * b) k) : Option Rat :=
  checkHedgePrimal a b Q X L

/-- `min_prob_outcome_a_primal`: feasible point, value is an upper bound of the minimum -/
def checkHedgeMinPrimal (a b : Nat) (Q X : EMat (a * b) (a * b)) (L : EMat (a * b) k) : Option Rat :=
  checkHedgePrimal a b Q X L

/-- `max_prob_outcome_a_dual`, `dual_problem` (cloning): `Y` Hermitian, `1 ⊗ Y − Q ⪰ 0` (witness `L`);
    returns `tr Y`, an upper bound of the maximum -/
def checkHedgeMaxDual (a b : Nat) (Q : EMat (a * b) (a * b)) (Y : EMat b b) (L : EMat (a * b) k) :
    Option Rat :=
  if Y.isHermitian && psdCert (kronIY a Y - Q) L then some Y.trace.re else none

/-- `min_prob_outcome_a_dual`: `Y` Hermitian, `Q − 1 ⊗ Y ⪰ 0`; returns `tr Y`, a lower bound of the minimum -/
def checkHedgeMinDual (a b : Nat) (Q : EMat (a * b) (a * b)) (Y : EMat b b) (L : EMat (a * b) k) :
    Option Rat :=
  if Y.isHermitian && psdCert (Q - kronIY a Y) L then some Y.trace.re else none

end Hedge

/-! ## Reordering of tensor factors for two repetitions -/

/-- `(reindex σ A) p q = A (σ p) (σ q)` -/
def reindex {N : Nat} (σ : Fin N → Fin N) (A : EMat N N) : EMat N N := ofFn fun p q => A.get (σ p) (σ q)

/-- every index has a preimage: with `Fin N` finite this makes `σ` a bijection -/
def isSurj {N : Nat} (σ : Fin N → Fin N) : Bool := allFin N fun q => (List.finRange N).any fun p => σ p == q

/-- binary digit `k` (0 = most significant) of a `w`-bit index -/
def bit (w p k : Nat) : Nat := (p / 2 ^ (w - 1 - k)) % 2

/-- hedging, two repetitions: position `(y₁ y₂ x₁ x₂)` (outputs first) ↦ position `(y₁ x₁ y₂ x₂)` (toqito's order) -/
def hedgeSigma2 (p : Fin (4 * 4)) : Fin (4 * 4) :=
  ⟨(8 * bit 4 p.val 0 + 4 * bit 4 p.val 2 + 2 * bit 4 p.val 1 + bit 4 p.val 3) % 16, Nat.mod_lt _ (by decide)⟩

/-- cloning, two repetitions: position `(y₁ y₂ z₁ z₂ x₁ x₂)` (the order produced by the code's
    `permutation_operator(2, [0, 3, 1, 4, 2, 5])`; outputs first) ↦ position `(y₁ z₁ x₁ y₂ z₂ x₂)` (the order of
    `Q ⊗ Q`).  The dual program works in the first order.  The primal program of the code takes its objective operator in the
    first order but traces the positions `[0, 1, 3, 4]` of its variable — the correct program with `Z₁` and `X₁` exchanged, which
    has the same optimum for the real ensembles the function accepts (`cloneQ_exchange_invariant_real`). -/
def cloneSigma2 (p : Fin (16 * 4)) : Fin (16 * 4) :=
  ⟨(32 * bit 6 p.val 0 + 16 * bit 6 p.val 2 + 8 * bit 6 p.val 4 + 4 * bit 6 p.val 1 + 2 * bit 6 p.val 3
      + bit 6 p.val 5) % 64, Nat.mod_lt _ (by decide)⟩

/-! ## The operator of the counterfeiting attack -/

/-- entry `(i₁ i₂ i₃)` of `ψ ⊗ ψ ⊗ conj ψ` for a qubit-or-larger state of dimension `m` -/
def cloneVec {m : Nat} (ψ : EMat m 1) (p : Fin (m * m * m)) : QI :=
  let z : Fin 1 := ⟨0, Nat.one_pos⟩
  let i12 : Fin (m * m) := fstIdx p
  ψ.get (fstIdx i12) z * ψ.get (sndIdx i12) z * (ψ.get (sndIdx p) z).conj

/-- `Q = Σ_k p_k |ψ_k ψ_k ψ̄_k⟩⟨ψ_k ψ_k ψ̄_k|` as built by `optimal_clone` -/
def cloneQ {m : Nat} (states : List (EMat m 1)) (probs : List Rat) : EMat (m * m * m) (m * m * m) :=
  ofFn fun p q => sumFin states.length fun k =>
    QI.smul (probs.getD k.val 0) (cloneVec (states.getD k.val zero) p * (cloneVec (states.getD k.val zero) q).conj)

/-! ## Index lists built by `QuantumHedging.__init__` and `optimal_clone` for `n` repetitions -/

/-- `self._sys = list(range(0, 2 * n - 1, 2))`: the systems `Y₁ … Yₙ` in the order `Y₁X₁ … YₙXₙ` -/
def hedgeSys (n : Nat) : List Nat := (List.range n).map (2 * ·)

/-- `self._dim = [2] * (2 n)` -/
def hedgeDim (n : Nat) : List Nat := List.replicate (2 * n) 2

/-- `perm = [*sum(zip(l_1, l_2), ())]` with `l_1 = range(n)`, `l_2 = range(n, n²)`: `zip` stops at the shorter list
    (`min n (n² − n)` pairs `(k, n + k)`) -/
def hedgePerm (n : Nat) : List Nat := (List.range (min n (n * n - n))).flatMap fun k => [k, n + k]

/-- `sys = [e - 1 for e in range(1, 3 n) if e % 3 != 0]`: the systems `Y_k, Z_k` in the order `Y₁Z₁X₁ … YₙZₙXₙ` -/
def cloneSys (n : Nat) : List Nat := ((List.range (3 * n)).filter fun e => decide (1 ≤ e) && decide (e % 3 ≠ 0)).map (· - 1)

/-- `perm`: for `i` in `0..2` the systems `i, i + 3, …, i + 3 (n − 1)` (`Y₁…Yₙ Z₁…Zₙ X₁…Xₙ`) -/
def clonePerm (n : Nat) : List Nat := (List.range 3).flatMap fun i => (List.range n).map fun j => i + 3 * j

/-! ## Kronecker products: `tensor(q_a, num_reps)`, `np.kron(Q₁, Q₂)` -/

/-- `np.kron(A, B)` of two square exact matrices: `(A ⊗ B)[p, q] = A[p / N₂, q / N₂] · B[p % N₂, q % N₂]` -/
def kronE {N₁ N₂ : Nat} (A : EMat N₁ N₁) (B : EMat N₂ N₂) : EMat (N₁ * N₂) (N₁ * N₂) :=
  ofFn fun p q => A.get (fstIdx p) (fstIdx q) * B.get (sndIdx p) (sndIdx q)

/-! ## Parallel repetition of an extended game (`ExtendedNonlocalGame.__init__`, branch `reps > 1`)

```
self.prob_mat = tensor(prob_mat, reps)
for i in range(num_alice_in**reps):
    for j in range(num_bob_in**reps):
        for k in range(reps - 1, -1, -1):
            to_tensor[k] = pred_mat[:, :, :, :, i_ind[k], j_ind[k]]
        pred_mat2[:, :, :, :, i, j] = tensor(to_tensor)          # np.kron of the 4-axis arrays
        j_ind = update_odometer(j_ind, num_bob_in * np.ones(reps))
    i_ind = update_odometer(i_ind, num_alice_in * np.ones(reps))
```
`i_ind` / `j_ind` are the big-endian digits of `i` / `j` (the odometer increments the last digit first), `np.kron` on
4-axis arrays is the Kronecker product on every axis: with `a = a₁·|A| + a₂`, `b = b₁·|B| + b₂`, `x = x₁·|X| + x₂`,
`y = y₁·|Y| + y₂` the operator `pred_mat2[:, :, a, b, x, y]` is `pred[:, :, a₁, b₁, x₁, y₁] ⊗ pred[:, :, a₂, b₂, x₂, y₂]`. -/

/-- product of two extended games (first game = most significant digit of every label) -/
def tensorGame {d d' : Nat} (G : Game d) (H : Game d') : Game (d * d') where
  nA := G.nA * H.nA
  nB := G.nB * H.nB
  nX := G.nX * H.nX
  nY := G.nY * H.nY
  prob := fun x y => G.prob (x / H.nX) (y / H.nY) * H.prob (x % H.nX) (y % H.nY)
  pred := fun a b x y =>
    kronE (G.pred (a / H.nA) (b / H.nB) (x / H.nX) (y / H.nY)) (H.pred (a % H.nA) (b % H.nB) (x % H.nX) (y % H.nY))

/-- the game stored by `ExtendedNonlocalGame(prob_mat, pred_mat, reps)` for `reps = m + 1` (with its referee dimension) -/
def repGame {d : Nat} (G : Game d) : Nat → (D : Nat) × Game D
  | 0 => ⟨d, G⟩
  | m + 1 => ⟨(repGame G m).1 * d, tensorGame (repGame G m).2 G⟩

/-- answer function of the product strategy: `x = x₁·nX₂ + x₂ ↦ f₁ x₁ · nA₂ + f₂ x₂` -/
def prodFn (nIn₂ nOut₂ : Nat) (f₁ f₂ : Nat → Nat) : Nat → Nat := fun x => f₁ (x / nIn₂) * nOut₂ + f₂ (x % nIn₂)

end Toq.ExtGames
