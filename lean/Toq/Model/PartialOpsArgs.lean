import Toq.Model.PartialOps
/-!
# Argument decoding and the cvxpy-`Variable` branch of `partial_trace`, `partial_transpose`,
`realignment` (no Mathlib)

`Toq/Model/PartialOps.lean` mirrors the numerical core of the three functions *after* argument
normalisation.  This file mirrors what comes before it, line by line:

* the accepted forms of `sys` (`None`, a bare integer, a list / array of integers — possibly negative,
  out of range or with repetitions) and of `dim` (`None`, a bare integer, a list, a 2-row list of
  row / column dimensions), the expansion of a scalar `d` to `[d, N/d]` with its divisibility guard,
  the square-root default, and the error guards (`IndexError` from `dim[idx]`, `InvalidPerm` and
  `InvalidDim` from `permute_systems`);
* the `isinstance(input_mat, Variable)` branch: `expr_as_np_array` unpacks the variable into an object
  array of index atoms `V[i, j]`, the same code runs on that array (so `np.sum` builds sums of
  atoms), and `np_array_as_expr` packs the result with `bmat` — modelled by running the *same*
  polymorphic mirror model on the free expression type `CvxExpr`.

The driver (`Toq/Driver/C02.lean`) is a JSON shell around the functions `partialTraceArgs`,
`partialTransposeArgs`, `realignmentArgs` defined here; the theorems about them are in
`Toq/Properties/C02.lean` / `C03.lean` (sections "argument forms").

## Floating-point trust (stated once, used nowhere else)
The Python computes the defaults in float64: `np.round(np.sqrt(N))` (and the exact integer test
`int(r) ** 2 != N` on it), `N / d`, the guard
`abs(q - round(q)) >= 2*N*eps`, `prod_dim / prod_dim_sys`.  The model computes the same quantities in
exact integer arithmetic (`roundSqrt`, `N % d = 0`, `N / d`).  They agree whenever `N < 2^50` (any
matrix that fits in memory): `np.sqrt` is correctly rounded, `√N` is never a half-integer and is at
distance `≥ 1/(8√N)` from one, so rounding the float gives the integer nearest to `√N`; for `d ∣ N`
the float quotient is exact, for `d ∤ N` its distance to the nearest integer is `≥ 1/d - 2^-52·N/d`
which exceeds the guard `2·N·2^-52` as soon as `N·d < 2^50`.
-/
namespace Toq.PartialOps
open Toq.Perms

/-- the ways the three functions reject a call (`ValueError("Invalid…")` raised directly or by
    `permute_systems`, and NumPy's `IndexError` from `dim[idx]`) -/
inductive Rej where
  | InvalidDim | InvalidPerm | IndexError
  deriving DecidableEq, Repr

def Rej.name : Rej → String
  | .InvalidDim => "InvalidDim" | .InvalidPerm => "InvalidPerm" | .IndexError => "IndexError"

/-- `int(np.round(np.sqrt(N)))`: the integer nearest to `√N` (`√N` is never a half-integer), computed
    as the least `r` with `N ≤ r² + r`, i.e. `√N < r + ½` (structural recursion only, so that closed
    instances can be evaluated by `decide`) -/
def roundSqrt (N : Nat) : Nat :=
  ((List.range (N + 1)).find? (fun r => N ≤ r * r + r)).getD 0

/-- the `sys` argument: `None`, a bare `int`, or a list / array of ints -/
inductive SysArg where
  | omitted | int (s : Int) | list (l : List Int)

/-- `if sys is None: sys = [1]`; `if isinstance(sys, int): sys = np.array([sys])` -/
def SysArg.toList : SysArg → List Int
  | .omitted => [1]
  | .int s => [s]
  | .list l => l

/-- the `dim` argument of `partial_trace`: `None`, a bare `int`, or a list -/
inductive DimArg where
  | omitted | scalar (d : Nat) | list (l : List Nat)

/-- `if dim is None: dim = np.array([np.round(np.sqrt(len(input_mat)))])`, rejected
    (`ValueError("Invalid: If `dim` is not given, `len(input_mat)` must be a perfect square.")`) when
    `int(dim[0]) ** 2 != len(input_mat)`;
    `if isinstance(dim, int): dim = np.array([dim])`; `if isinstance(dim, list): dim = np.array(dim)` -/
def DimArg.toList (N : Nat) : DimArg → Except Rej (List Nat)
  | .omitted => if roundSqrt N * roundSqrt N = N then .ok [roundSqrt N] else .error .InvalidDim
  | .scalar d => .ok [d]
  | .list l => .ok l

/-- `if len(dim) == 1: dim = [dim[0], N / dim[0]]`, rejected unless the quotient is an integer -/
def expandDim (N : Nat) : List Nat → Except Rej (List Nat)
  | [d] => if d ≠ 0 ∧ N % d = 0 then .ok [d, N / d] else .error .InvalidDim
  | l => .ok l

/-- the whole normalisation block for `dim`: the form, then the one-element expansion -/
def decodeDim (N : Nat) (dim : DimArg) : Except Rej (List Nat) := do
  let l ← dim.toList N
  expandDim N l

/-- What happens to the subsystem list between the entry of the function and the body of
    `permute_systems`, given the other subsystems are put first (`front = false`: `partial_trace`,
    `perm = set_diff + sys`) or last (`front = true`: `partial_transpose`, `perm = sys + set_diff`):
    * `dim[idx]` raises `IndexError` unless `-n ≤ idx < n`;
    * a negative index is accepted by `dim[idx]` but stays negative inside `perm`, and a repeated
      index makes `perm` longer than `n`: both fail `sorted(perm) == list(range(len(perm)))`. -/
def checkSys (n : Nat) (sys : List Int) (front : Bool) : Except Rej (List Nat) :=
  if sys.any (fun s => decide ((n : Int) ≤ s) || decide (s < -(n : Int))) then .error .IndexError
  else if sys.any (fun s => decide (s < 0)) then .error .InvalidPerm
  else
    let S := sys.map Int.toNat
    let perm := if front then S ++ setDiff n S else setDiff n S ++ S
    if isPerm perm.length (fnOfList perm) then .ok S else .error .InvalidPerm

/-- **`partial_trace(X, sys, dim)` for a numeric `N × N` array**, all argument forms.  Returns the
    side `K` of the result and the result. -/
def partialTraceArgs [Add α] [Zero α] (X : Nat → Nat → α) (N : Nat) (sys : SysArg) (dim : DimArg) :
    Except Rej (Nat × (Nat → Nat → α)) := do
  let dl ← decodeDim N dim
  let n := dl.length
  let dims := fnOfList dl
  let S ← checkSys n sys.toList false
  -- permute_systems: `input_mat_dims[0] != prod_dim_r`
  if prodN dims n ≠ N then throw .InvalidDim
  return (N / prodList dims S, partialTrace X n dims S)

/-! ### `partial_transpose` -/

/-- the `dim` argument of `partial_transpose`: `None`, a bare number, a list, or a 2-row list
    `[row dims, column dims]` -/
inductive PTDimArg where
  | omitted | scalar (d : Nat) | list (l : List Nat) | two (r c : List Nat)

/-- scalar `d` on an operator with `R` rows: `dim = [[d], [R/d]]` (guarded), then, because
    `min(dim.shape) == 1`, `dim.T.flatten()` = `[d, R/d]` used for rows and columns -/
def ptScalar (R d : Nat) : Except Rej (List Nat × List Nat) :=
  if d ≠ 0 ∧ R % d = 0 then .ok ([d, R / d], [d, R / d]) else .error .InvalidDim

/-- row and column dimension lists after the normalisation block of `partial_transpose` -/
def ptDecodeDim (R C : Nat) : PTDimArg → Except Rej (List Nat × List Nat)
  | .omitted => .ok ([roundSqrt R, roundSqrt R], [roundSqrt C, roundSqrt C])
  | .scalar d => ptScalar R d
  | .list [d] => ptScalar R d
  | .list l => .ok (l, l)
  -- a 2 × 1 array has `min(dim.shape) == 1`: it is flattened to the vector `[r, c]` of a square operator
  | .two [r] [c] => .ok ([r, c], [r, c])
  -- rows of different lengths: `np.array` refuses the inhomogeneous list
  | .two r c => if r.length = c.length then .ok (r, c) else .error .InvalidDim

/-- **`partial_transpose(X, sys, dim)` for a numeric `R × C` array**, all argument forms.  Returns
    the shape of the result and the result. -/
def partialTransposeArgs (X : Nat → Nat → α) (R C : Nat) (sys : SysArg) (dim : PTDimArg) :
    Except Rej (Nat × Nat × (Nat → Nat → α)) := do
  let (rl, cl) ← ptDecodeDim R C dim
  let n := rl.length
  let rd := fnOfList rl
  let cd := fnOfList cl
  let S ← checkSys n sys.toList true
  if prodN rd n ≠ R ∨ prodN cd n ≠ C then throw .InvalidDim
  let sr := prodList rd S
  let sc := prodList cd S
  return ((R / sr) * sc, (C / sc) * sr, partialTranspose X n rd cd S)

/-! ### `realignment` -/

/-- the `dim` argument of `realignment`: `None`, a bare `int`, a list `[a, b]`, or
    `[[r0, r1], [c0, c1]]` (lists of other lengths are not modelled) -/
inductive RDimArg where
  | omitted | scalar (d : Nat) | pair (a b : Nat) | two (r0 r1 c0 c1 : Nat)

/-- `((r0, r1), (c0, c1))` after the normalisation block of `realignment`:
    * `None`: `np.transpose([[√R, √C]])` is a 2 × 1 column, `min(dim.shape) == 1` turns it into the vector
      `[√R, √C]` used for rows and columns (so the default only fits square operators);
    * `int d`: `[d, int(R / d)]` — no divisibility guard here, a wrong quotient fails the size check;
    * `[a, b]`: used for rows and columns. -/
def realignDecodeDim (R C : Nat) : RDimArg → Except Rej ((Nat × Nat) × (Nat × Nat))
  | .omitted => .ok ((roundSqrt R, roundSqrt C), (roundSqrt R, roundSqrt C))
  | .scalar d => if d = 0 then .error .InvalidDim else .ok ((d, R / d), (d, R / d))
  | .pair a b => .ok ((a, b), (a, b))
  | .two r0 r1 c0 c1 => .ok ((r0, r1), (c0, c1))

/-- **`realignment(X, dim)` for a numeric `R × C` array**, all modelled argument forms.  The size
    checks are those of the inner `permute_systems` calls (`swap(…, row_only=True)` checks the rows,
    `partial_transpose` rows and columns). -/
def realignmentArgs (X : Nat → Nat → α) (R C : Nat) (dim : RDimArg) :
    Except Rej (Nat × Nat × (Nat → Nat → α)) := do
  let ((r0, r1), (c0, c1)) ← realignDecodeDim R C dim
  if r0 * r1 ≠ R ∨ c0 * c1 ≠ C then throw .InvalidDim
  return (r0 * c0, r1 * c1, realignment X r0 r1 c0 c1)

/-! ### the cvxpy `Variable` branch -/

/-- A scalar cvxpy expression as the `Variable` branch builds them: index atoms `V[i, j]`
    (`expr_as_np_array`), sums of them (`np.sum(…, axis=2)` on an object array folds `+` from the
    left), and the `0` the model's fold starts from (NumPy starts from the first summand instead; the
    two have the same value in every additive monoid). -/
inductive CvxExpr where
  | zero
  | index (i j : Nat)
  | add (a b : CvxExpr)
  deriving Repr, DecidableEq

instance : Add CvxExpr := ⟨CvxExpr.add⟩
instance : Zero CvxExpr := ⟨CvxExpr.zero⟩
instance : Inhabited CvxExpr := ⟨CvxExpr.zero⟩

/-- `.value` of an expression when the variable holds `val` -/
def CvxExpr.eval [Add β] [Zero β] (val : Nat → Nat → β) : CvxExpr → β
  | .zero => 0
  | .index i j => val i j
  | .add a b => a.eval val + b.eval val

/-- the index atoms of an expression, left to right (with repetitions): the expression is their sum -/
def CvxExpr.leaves : CvxExpr → List (Nat × Nat)
  | .zero => []
  | .index i j => [(i, j)]
  | .add a b => a.leaves ++ b.leaves

/-- `expr_as_np_array(V)`: the object array `[[V[i, j] for j in …] for i in …]` -/
def exprAsNpArray : Nat → Nat → CvxExpr := CvxExpr.index

/-- `partial_trace(V, sys, dim)` for a cvxpy `Variable` of shape `N × N`:
    `np_array_as_expr(partial_trace(expr_as_np_array(V), sys, dim))`; `bmat` keeps every entry in its
    place, so the result is described by its matrix of scalar expressions -/
def partialTraceCvx (N : Nat) (sys : SysArg) (dim : DimArg) : Except Rej (Nat × (Nat → Nat → CvxExpr)) :=
  partialTraceArgs exprAsNpArray N sys dim

/-- `partial_transpose(V, sys, dim)` for a cvxpy `Variable` of shape `R × C` -/
def partialTransposeCvx (R C : Nat) (sys : SysArg) (dim : PTDimArg) :
    Except Rej (Nat × Nat × (Nat → Nat → CvxExpr)) :=
  partialTransposeArgs exprAsNpArray R C sys dim

end Toq.PartialOps
