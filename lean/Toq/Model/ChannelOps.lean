import Toq.Core.Scalar
import Toq.Model.Perms
/-!
# Mirror models of `toqito/channel_ops/{apply_channel, kraus_to_choi, partial_channel,
natural_representation, dual_channel, complementary_channel}.py` and `toqito/helper/channel_dim.py`
(no Mathlib)

A NumPy 2-d array is a `Mat α = (r, c, e)`: shape and entry function (entries outside the shape are
never read by the models).  The scalar type only needs core classes, so the same definitions run on
Gaussian integers `GI` in the driver and are reasoned about over commutative star-semirings in
`Toq/Proofs/ChannelOps.lean`.

The argument `phi_op` of the Python functions is one of
* a Python list whose first element is an `ndarray`             → `KrausArg.flat`
* a Python list whose first element is a list                   → `KrausArg.nested`
* an `ndarray` (Choi matrix)                                    → a `Mat`
and the `isinstance` / `len` cascade that decides what a nested list means is `KrausArg.split`.
-/
namespace Toq.ChannelOps
open Toq.Perms

/-- a 2-d array: `shape = (r, c)`, entries `e i j` -/
structure Mat (α : Type) where
  r : Nat
  c : Nat
  e : Nat → Nat → α

namespace Mat
variable {α : Type}

instance [Zero α] : Inhabited (Mat α) := ⟨⟨0, 0, fun _ _ => 0⟩⟩

/-- `m.T` -/
def T (m : Mat α) : Mat α := ⟨m.c, m.r, fun i j => m.e j i⟩

/-- `m.conj()` -/
def conj [HasConj α] (m : Mat α) : Mat α := ⟨m.r, m.c, fun i j => HasConj.conj (m.e i j)⟩

/-- `m.conj().T` -/
def ct [HasConj α] (m : Mat α) : Mat α := m.conj.T

/-- `a @ b` (NumPy requires `a.c = b.r`; the contraction length is taken from `a`) -/
def mul [Add α] [Mul α] [Zero α] (a b : Mat α) : Mat α :=
  ⟨a.r, b.c, fun i j => sumN a.c (fun k => a.e i k * b.e k j)⟩

/-- `np.kron(a, b)` for 2-d arrays -/
def kron [Mul α] (a b : Mat α) : Mat α :=
  ⟨a.r * b.r, a.c * b.c, fun i j => a.e (i / b.r) (j / b.c) * b.e (i % b.r) (j % b.c)⟩

/-- `np.identity(n)` -/
def identity [Zero α] [One α] (n : Nat) : Mat α := ⟨n, n, fun i j => if i = j then 1 else 0⟩

/-- `np.concatenate(l, axis=1)` (all arrays have the row count of the first one) -/
def hcat [Zero α] : List (Mat α) → Mat α
  | [] => ⟨0, 0, fun _ _ => 0⟩
  | m :: ms =>
    let t := hcat ms
    ⟨m.r, m.c + t.c, fun i j => if j < m.c then m.e i j else t.e i (j - m.c)⟩

/-- `np.concatenate(l, axis=0)` -/
def vcat [Zero α] : List (Mat α) → Mat α
  | [] => ⟨0, 0, fun _ _ => 0⟩
  | m :: ms =>
    let t := vcat ms
    ⟨m.r + t.r, m.c, fun i j => if i < m.r then m.e i j else t.e (i - m.r) j⟩

/-- `vec(m).T[0]`: the 1-d array `m.reshape(-1, order="F")` -/
def vecF (m : Mat α) : Nat → α := fun f => m.e (f % m.r) (f / m.r)

/-- a 1-d array of length `n` used where NumPy promotes it to shape `(1, n)` (`np.kron`) -/
def row (n : Nat) (v : Nat → α) : Mat α := ⟨1, n, fun _ j => v j⟩

/-- `np.reshape(m, (r', c'), order="F")` -/
def reshapeF (m : Mat α) (r' c' : Nat) : Mat α :=
  ⟨r', c', fun p q => m.e ((p + r' * q) % m.r) ((p + r' * q) / m.r)⟩

/-- `swap(m, [1, 2], [[rd0, rd1], [cd0, cd1]], row_only)` for a matrix that is not vector-shaped -/
def swap2 (m : Mat α) (rd cd : Nat → Nat) (rowOnly : Bool) : Mat α :=
  ⟨m.r, m.c, permuteMat m.e 2 (swapPerm 0 1) rd cd rowOnly false⟩

/-- `permute_systems(m, perm, [rd, cd])` for a matrix that is not vector-shaped -/
def permute (m : Mat α) (n : Nat) (perm rd cd : Nat → Nat) : Mat α :=
  ⟨m.r, m.c, permuteMat m.e n perm rd cd false false⟩

/-- `max_entangled(d, False, False)`: `np.reshape(np.identity(d), (d**2, 1))` -/
def maxEnt [Zero α] [One α] (d : Nat) : Mat α :=
  ⟨d * d, 1, fun f _ => (identity (α := α) d).e (f / d) (f % d)⟩

/-- all listed arrays have shape `(r, c)` -/
def allShape (l : List (Mat α)) (r c : Nat) : Bool := l.all (fun m => m.r == r && m.c == c)

end Mat

open Mat

/-! ## `apply_channel` -/

/-- `phi_op` when it is a Python list -/
inductive KrausArg (α : Type) where
  /-- `[K1, …, Kr]`: `isinstance(phi_op[0], np.ndarray)` -/
  | flat (ops : List (Mat α))
  /-- a list of lists of arrays -/
  | nested (ops : List (List (Mat α)))

/-- the documented list forms -/
def KrausArg.column (ks : List (Mat α)) : KrausArg α := .nested (ks.map (fun k => [k]))     -- `[[K1], …, [Kr]]`
def KrausArg.row (ks : List (Mat α)) : KrausArg α := .nested [ks]                            -- `[[K1, …, Kr]]`, `r > 2`
def KrausArg.pairs (as bs : List (Mat α)) : KrausArg α :=                                     -- `[[A1, B1], …, [Ar, Br]]`
  .nested ((as.zip bs).map (fun ab => [ab.1, ab.2]))

/-- the completely-positive test of the cascade for nested lists:
    `s_phi_op[1] == 1 or (s_phi_op[0] == 1 and s_phi_op[1] > 2)` with `s_phi_op = [len(phi_op), len(phi_op[0])]` -/
def nestedIsCP (ll : List (List (Mat α))) : Bool :=
  let s0 := ll.length
  let s1 := (ll.headD []).length
  s1 == 1 || (s0 == 1 && s1 > 2)

/-- The cascade of `apply_channel`: the left operators `phi_0_list` and the operators whose conjugate
    transposes form `phi_1_list`.
```
if isinstance(phi_op[0], np.ndarray):  phi_0_list = phi_op
elif s[1] == 1 or (s[0] == 1 and s[1] > 2):  phi_0_list = list(itertools.chain(*phi_op))
else:  phi_0_list = [k[0] for k in phi_op];  phi_1_list = [k[1].conj().T for k in phi_op]
if not phi_1_list:  phi_1_list = [k.conj().T for k in phi_0_list]
```
    `none` where Python raises (`phi_op[0]` of an empty list, `k[1]` of a one-element list). -/
def KrausArg.split : KrausArg α → Option (List (Mat α) × List (Mat α))
  | .flat ops => if ops.isEmpty then none else some (ops, ops)
  | .nested ll =>
    if ll.isEmpty then none
    else if nestedIsCP ll then some (ll.flatten, ll.flatten)
    else do
      let a ← ll.mapM (fun k => k[0]?)
      let b ← ll.mapM (fun k => k[1]?)
      some (a, b)

/-- is the list read as a completely positive map (one operator list used on both sides)? -/
def KrausArg.isCP : KrausArg α → Bool
  | .flat _ => true
  | .nested ll => nestedIsCP ll

/-- the Kraus evaluation `k_1 @ np.kron(np.identity(len(phi_0_list)), mat) @ k_2` with
    `k_1 = np.concatenate(phi_0_list, axis=1)`, `k_2 = np.concatenate(phi_1_list, axis=0)`,
    `phi_1_list = [B.conj().T for B in bs]` -/
def applyKrausLists [Add α] [Mul α] [Zero α] [One α] [HasConj α] (X : Mat α) (as bs : List (Mat α)) : Mat α :=
  let k1 := hcat as
  let k2 := vcat (bs.map Mat.ct)
  let a := kron (identity as.length) X
  (k1.mul a).mul k2

/-- shapes for which NumPy evaluates the Kraus form and the result is `Σ A X Bᴴ`: every left operator
    `do0 × X.r`, every right operator `do1 × X.c`, as many left as right operators -/
def krausShapesOk (X : Mat α) (as bs : List (Mat α)) (do0 do1 : Nat) : Bool :=
  allShape as do0 X.r && allShape bs do1 X.c && as.length == bs.length && !as.isEmpty

/-- `apply_channel(mat, phi_op)` for a list `phi_op` -/
def applyKraus [Add α] [Mul α] [Zero α] [One α] [HasConj α] (X : Mat α) (phi : KrausArg α) : Option (Mat α) :=
  phi.split.map (fun ab => applyKrausLists X ab.1 ab.2)

/-- `apply_channel(mat, phi_op)` for an `ndarray` `phi_op` (Choi matrix):
```
mat_size = mat.shape;  phi_size = phi_op.shape / mat_size
a_mat = np.kron(vec(mat).T[0], np.identity(phi_size[0]))
b_mat = np.reshape(swap(phi_op.T, [1, 2], [[mat_size[1], phi_size[1]], [mat_size[0], phi_size[0]]], True).T,
                   (phi_size[0] * prod(mat_size), phi_size[1]), order="F")
return a_mat @ b_mat
``` -/
def applyChoi [Add α] [Mul α] [Zero α] [One α] (X J : Mat α) : Mat α :=
  let p0 := J.r / X.r
  let p1 := J.c / X.c
  let a := kron (row (X.r * X.c) X.vecF) (identity p0)
  let s := swap2 J.T (fnOfList [X.c, p1]) (fnOfList [X.r, p0]) true
  let b := reshapeF s.T (p0 * (X.r * X.c)) p1
  a.mul b

/-- the Choi branch is meaningful when the input shape divides the Choi shape -/
def choiShapesOk (X J : Mat α) : Bool :=
  X.r != 0 && X.c != 0 && J.r % X.r == 0 && J.c % X.c == 0

/-! ## `channel_dim` -/

/-- the optional `dim` argument: `None`, an `int`, a 2-vector, a 2×2 matrix; anything else -/
inductive DimArg where
  | none
  | int (d : Nat)
  | vec (m n : Nat)
  | mat (a b c d : Nat)          -- `[[a, b], [c, d]]`
  | bad

/-- `_expand_dim`: the 2×2 array `[[r, x], [c, y]]` as `(r, x, c, y)` -/
def expandDim : DimArg → Option (Nat × Nat × Nat × Nat)
  | .int d => some (d, d, d, d)
  | .mat a b c d => some (a, b, c, d)
  | .vec m n => some (m, n, m, n)
  | _ => Option.none

inductive DimErr where
  | notSquare | dimMismatch | krausSize | choiDim | expandDim | badList
deriving Repr, DecidableEq

def DimErr.name : DimErr → String
  | .notSquare => "NotSquare" | .dimMismatch => "DimMismatch" | .krausSize => "KrausSize"
  | .choiDim => "ChoiDim" | .expandDim => "ExpandDim" | .badList => "BadList"

/-- result of `channel_dim`: `dim_in = (in0, in1)`, `dim_out = (out0, out1)` (row and column
    dimensions of the input and output spaces), `dim_e` (number of Kraus operators; `none` for a Choi
    matrix, where the code computes a floating-point rank) -/
structure ChanDim where
  in0 : Nat
  in1 : Nat
  out0 : Nat
  out1 : Nat
  env : Option Nat
deriving Repr, DecidableEq

/-- the part of `channel_dim` after `dim_in`, `dim_out` have been read off the first operator:
```
if dim is None: dim = np.vstack([dim_in, dim_out]).T
dim = _expand_dim(dim)
if (dim_in[0] != dim_in[1] or dim_out[0] != dim_out[1]) and not allow_rect: raise
if np.any(dim != np.vstack([dim_in, dim_out]).T): raise
```
    returns `dim = [[d00, d01], [d10, d11]]` -/
def checkDims (i0 i1 o0 o1 : Nat) (allowRect : Bool) (dim : DimArg) : Except DimErr (Nat × Nat × Nat × Nat) :=
  let d : Option (Nat × Nat × Nat × Nat) :=
    match dim with
    | .none => some (i0, o0, i1, o1)
    | d => expandDim d
  match d with
  | Option.none => .error DimErr.expandDim
  | some (d00, d01, d10, d11) =>
    if (i0 != i1 || o0 != o1) && !allowRect then .error DimErr.notSquare
    else if d00 != i0 || d01 != o0 || d10 != i1 || d11 != o1 then .error DimErr.dimMismatch
    else .ok (d00, d01, d10, d11)

/-- `dim_in`, `dim_out` from `dim`: vectors when `allow_rect`, else the scalars `dim[0,0]`, `dim[0,1]` -/
def packDims (allowRect : Bool) (d : Nat × Nat × Nat × Nat) (env : Option Nat) : ChanDim :=
  if allowRect then ⟨d.1, d.2.2.1, d.2.1, d.2.2.2, env⟩ else ⟨d.1, d.1, d.2.1, d.2.1, env⟩

/-- one operator list used on both sides: `dim_out[0], dim_in[0] = phi[0].shape`, square spaces -/
def channelDimCP (ops : List (Mat α)) (allowRect : Bool) (dim : DimArg) : Except DimErr ChanDim :=
  match ops with
  | [] => .error DimErr.badList
  | k :: _ =>
    match checkDims k.c k.c k.r k.r allowRect dim with
    | .error e => .error e
    | .ok d =>
      if !(allShape ops d.2.1 d.1) then .error DimErr.krausSize
      else .ok (packDims allowRect d (some ops.length))

/-- the shape test of a left/right pair against `dim` -/
def pairShapeOk (d : Nat × Nat × Nat × Nat) (p : List (Mat α)) : Bool :=
  match p[0]?, p[1]? with
  | some a, some b => a.r == d.2.1 && a.c == d.1 && b.r == d.2.2.2 && b.c == d.2.2.1
  | _, _ => false

/-- left/right pairs: `dim_out[0], dim_in[0] = phi[0][0].shape; dim_out[1], dim_in[1] = phi[0][1].shape` -/
def channelDimPairs (ll : List (List (Mat α))) (allowRect : Bool) (dim : DimArg) : Except DimErr ChanDim :=
  match ll with
  | [] => .error DimErr.badList
  | p :: _ =>
    match p[0]?, p[1]? with
    | some a, some b =>
      match checkDims a.c b.c a.r b.r allowRect dim with
      | .error e => .error e
      | .ok d =>
        if !(ll.all (pairShapeOk d)) then .error DimErr.krausSize
        else .ok (packDims allowRect d (some ll.length))
    | _, _ => .error DimErr.badList

/-- `channel_dim(phi, allow_rect, dim)` for a list `phi`: nested lists that pass the completely-positive
    test are flattened first (`phi = list(itertools.chain(*phi))`) -/
def channelDimKraus (phi : KrausArg α) (allowRect : Bool) (dim : DimArg) : Except DimErr ChanDim :=
  match phi with
  | .flat l => channelDimCP l allowRect dim
  | .nested ll => if nestedIsCP ll then channelDimCP ll.flatten allowRect dim else channelDimPairs ll allowRect dim

/-- `channel_dim(phi, allow_rect, dim, compute_env_dim=False)` for a Choi matrix `phi` of shape
    `rows × cols`.  `round(sqrt(·))` is the exact square root when it exists; when it does not, the
    guessed dimensions cannot multiply to the shape, which the size check below rejects just the same. -/
def channelDimChoi (rows cols : Nat) (allowRect : Bool) (dim : DimArg) : Except DimErr ChanDim :=
  let g0 := Nat.sqrt rows
  let g1 := Nat.sqrt cols
  let d : Option (Nat × Nat × Nat × Nat) :=
    match dim with
    | .none => some (g0, g0, g1, g1)
    | d => expandDim d
  match d with
  | Option.none => .error DimErr.expandDim
  | some (d00, d01, d10, d11) =>
    if d00 * d01 != rows || d10 * d11 != cols then .error DimErr.choiDim
    else if (d00 != d10 || d01 != d11) && !allowRect then .error DimErr.notSquare
    else .ok (packDims allowRect (d00, d01, d10, d11) Option.none)

/-! ## `partial_channel` -/

/-- `np.kron(np.kron(np.identity(pre), m), np.identity(post))` -/
def embed [Mul α] [Zero α] [One α] (pre post : Nat) (m : Mat α) : Mat α :=
  kron (kron (identity pre) m) (identity post)

/-- `prod(dim[:sys-1])` and `prod(dim[sys:])` for a dimension row of length `n` (`sys` 1-indexed) -/
def prodBefore (d : Nat → Nat) (sys : Nat) : Nat := prodN d (sys - 1)
def prodAfter (d : Nat → Nat) (n sys : Nat) : Nat := prodN (fun k => d (sys + k)) (n - sys)

/-- the list that `partial_channel(rho, phi_map, sys, dim)` hands to `apply_channel` when `phi_map` is a
    list; `rd`, `cd` are the two rows of the normalised `dim` array (length `n`), `sys` is 1-indexed.
```
if isinstance(phi_map[0], np.ndarray): phi_list = phi_map
elif s2 == 1 or s1 == 1 and s2 > 2:    phi_list = list(itertools.chain(*phi_map))
if phi_list:  apply_channel(rho, [kron(kron(I(r1), m), I(r2)) for m in phi_list])
else:         apply_channel(rho, [[kron(kron(I(r1), m[0]), I(r2)), kron(kron(I(c1), m[1]), I(c2))] for m in phi_map])
``` -/
def embedArg [Mul α] [Zero α] [One α] (phi : KrausArg α) (sys n : Nat) (rd cd : Nat → Nat) :
    Option (KrausArg α) :=
  let r1 := prodBefore rd sys
  let c1 := prodBefore cd sys
  let r2 := prodAfter rd n sys
  let c2 := prodAfter cd n sys
  match phi with
  | .flat l => if l.isEmpty then none else some (.flat (l.map (embed r1 r2)))
  | .nested ll =>
    if ll.isEmpty then none
    else if nestedIsCP ll then some (.flat (ll.flatten.map (embed r1 r2)))
    else do
      let p1 ← ll.mapM (fun m => (m[0]?).map (embed r1 r2))
      let p2 ← ll.mapM (fun m => (m[1]?).map (embed c1 c2))
      some (.nested ((p1.zip p2).map (fun ab => [ab.1, ab.2])))

/-- `partial_channel(rho, phi_map, sys, dim)` for a list `phi_map` -/
def partialChannelKraus [Add α] [Mul α] [Zero α] [One α] [HasConj α] (rho : Mat α) (phi : KrausArg α)
    (sys n : Nat) (rd cd : Nat → Nat) : Option (Mat α) :=
  (embedArg phi sys n rd cd).bind (applyKraus rho)

/-- the Choi matrix of `id ⊗ Φ ⊗ id` that the Choi branch of `partial_channel` builds from `phi_map`:
    the 6-factor array `dim`, `kron(kron(ψ_r1 ψ_c1ᴴ, phi_map), ψ_r2 ψ_c2ᴴ)` permuted by `[0,2,4,1,3,5]` -/
def embedChoi [Add α] [Mul α] [Zero α] [One α] [HasConj α] (J : Mat α)
    (sys n : Nat) (rd cd : Nat → Nat) : Mat α :=
  let r1 := prodBefore rd sys
  let c1 := prodBefore cd sys
  let r2 := prodAfter rd n sys
  let c2 := prodAfter cd n sys
  let dr := fnOfList [r1, r1, rd (sys - 1), J.r / rd (sys - 1), r2, r2]
  let dc := fnOfList [c1, c1, cd (sys - 1), J.c / cd (sys - 1), c2, c2]
  let big := kron (kron ((maxEnt r1).mul (maxEnt c1).ct) J) ((maxEnt r2).mul (maxEnt c2).ct)
  big.permute 6 (fnOfList [0, 2, 4, 1, 3, 5]) dr dc

/-- `partial_channel(rho, phi_map, sys, dim)` for an `ndarray` `phi_map`: `apply_channel` with the embedded Choi matrix -/
def partialChannelChoi [Add α] [Mul α] [Zero α] [One α] [HasConj α] (rho J : Mat α)
    (sys n : Nat) (rd cd : Nat → Nat) : Mat α :=
  applyChoi rho (embedChoi J sys n rd cd)

/-- `dim is None`: `np.round(np.sqrt(list(rho.shape))).reshape(-1, 1) * np.ones((1, 2))` is the 2×2 array
    `[[√rows, √rows], [√cols, √cols]]`: two subsystems with row dimensions `√rows` and column dimensions `√cols`
    (returned as the pair of its rows) -/
def defaultDim (rho : Mat α) : List Nat × List Nat :=
  ([Nat.sqrt rho.r, Nat.sqrt rho.r], [Nat.sqrt rho.c, Nat.sqrt rho.c])

/-! ## `kraus_to_choi` -/

/-- `kraus_to_choi(kraus_ops, sys)`:
```
dim_in, _, _ = channel_dim(kraus_ops);  d1, d2 = dim_in
partial_channel(max_entangled(d1, False, False) @ max_entangled(d2, False, False).conj().T,
                kraus_ops, sys, np.array([[d1, d1], [d2, d2]]))
``` -/
def krausToChoi [Add α] [Mul α] [Zero α] [One α] [HasConj α] (phi : KrausArg α) (sys : Nat := 2) :
    Option (Mat α) :=
  match channelDimKraus phi true .none with
  | .error _ => none
  | .ok cd =>
    let d1 := cd.in0
    let d2 := cd.in1
    partialChannelKraus ((maxEnt d1).mul (maxEnt d2).ct) phi sys 2 (fnOfList [d1, d1]) (fnOfList [d2, d2])

/-! ## `natural_representation` -/

/-- `np.sum([np.kron(k, np.conjugate(k)) for k in kraus_ops], axis=0)`; `none` when the shapes differ
    (the function raises) or the list is empty (`kraus_ops[0]` raises) -/
def naturalRep [Add α] [Mul α] [Zero α] [HasConj α] (ops : List (Mat α)) : Option (Mat α) :=
  match ops with
  | [] => none
  | k0 :: _ =>
    if !(allShape ops k0.r k0.c) then none
    else some ⟨k0.r * k0.r, k0.c * k0.c,
      fun i j => (ops.map (fun k => (kron k k.conj).e i j)).foldl (· + ·) 0⟩

/-! ## `dual_channel` -/

/-- `dual_channel(phi_op)` for a list: `[a.conj().T for a in phi_op]` or
    `[[a.conj().T for a in x] for x in phi_op]` (the nesting is kept) -/
def dualKraus [HasConj α] : KrausArg α → KrausArg α
  | .flat l => .flat (l.map Mat.ct)
  | .nested ll => .nested (ll.map (fun x => x.map Mat.ct))

/-- `dual_channel(phi_op, dims)` for a 2-d `ndarray`:
```
d_in, d_out, _ = channel_dim(phi_op, dim=dims, compute_env_dim=False)
swap(phi_op.conj(), dim=[[d_in[0], d_out[0]], [d_in[1], d_out[1]]])
``` -/
def dualChoi [HasConj α] (J : Mat α) (dims : DimArg) : Except DimErr (Mat α) := do
  let cd ← channelDimChoi J.r J.c true dims
  pure (swap2 J.conj (fnOfList [cd.in0, cd.out0]) (fnOfList [cd.in1, cd.out1]) false)

/-! ## `complementary_channel` -/

inductive ComplErr where
  | empty | notSquare | notEqualSize | notComplete
deriving Repr, DecidableEq

def ComplErr.name : ComplErr → String
  | .empty => "Empty" | .notSquare => "NotSquare" | .notEqualSize => "NotEqualSize"
  | .notComplete => "NotComplete"

/-- `sum(k.T.conj() @ k for k in kraus_ops)` -/
def sumKdK [Add α] [Mul α] [Zero α] [HasConj α] (ops : List (Mat α)) (d : Nat) : Mat α :=
  ⟨d, d, fun i j => (ops.map (fun k => (k.ct.mul k).e i j)).foldl (· + ·) 0⟩

/-- `complementary_channel(kraus_ops)`.  The completeness guard `np.allclose(Σ Kᴴ K, I)` is modelled
    exactly, relative to a scale: the family passed to the model is `scale · K` with integer entries and
    the guard demands `Σ (sK)ᴴ (sK) = scale² · I` (exactly complete families pass, families that are off
    by a margin fail; nothing in between is generated).
```
for row in range(op_dim):
    comp_kraus_ops.append(np.vstack([kraus_ops[i][row, :] for i in range(num_kraus)]))
``` -/
def complementary [Add α] [Mul α] [Zero α] [HasConj α] [DecidableEq α] (ops : List (Mat α)) (scale2 : α) :
    Except ComplErr (List (Mat α)) :=
  match ops with
  | [] => throw .empty
  | k0 :: _ =>
    let d := k0.r
    if ops.any (fun k => k.r != k.c) then throw .notSquare
    else if ops.any (fun k => k.r != d) then throw .notEqualSize
    else
      let s := sumKdK ops d
      if !(allBelow d (fun i => allBelow d (fun j => decide (s.e i j = if i = j then scale2 else 0)))) then
        throw .notComplete
      else
        pure ((List.range d).map (fun row =>
          (⟨ops.length, d, fun i c => (ops.getD i default).e row c⟩ : Mat α)))

/-- the stacking step alone (no guard), as a family: `K^c_row [i, c] = K_i [row, c]` -/
def complStack (K : Nat → Nat → Nat → α) : Nat → Nat → Nat → α := fun row i c => K i row c

end Toq.ChannelOps
