import Toq.Model.Perms
/-!
# Argument normalisation of `permute_systems` / `swap` / `swap_operator` (no Mathlib)

Small executable pieces shared by the driver (`Toq/Driver/C01.lean`) and the property theorems
(`Toq/Properties/C01.lean`):

* `iroot` — the exact integer root used for the omitted-`dim` form of `permute_systems`
  (`np.round(rows ** (1 / num_sys))`, then the size check `prod(dim) == rows`);
* `swapPermList` — `swap.py`: `perm = np.array(range(num_sys)); perm[sys] = perm[sys[::-1]]`;
* `swapSysVec` / `swapSysMat` — `swap.py`: `return permute_systems(rho, perm, dim, row_only)`;
* `swapOperator` — `swap_operator.py`: `return swap(identity(prod(dim)), [1, 2], dim, True)`.
-/

namespace Toq.Perms

/-- exact integer `k`-th root if it exists (the repaired `dim=None` branch rounds the float root;
    a non-perfect power then fails the size check) -/
def iroot (N k : Nat) : Option Nat :=
  (List.range (N + 2)).find? (fun r => r ^ k == N)

/-- `perm = np.array(range(n)); perm[sys] = perm[sys[::-1]]` with 0-indexed `sys = [s1, s2]`:
    the right-hand side is evaluated first (`[s2, s1]`), then assigned position by position -/
def swapPermList (n s1 s2 : Nat) : List Nat := ((List.range n).set s1 s2).set s2 s1

/-- `swap(v, [s1+1, s2+1], dims)` on a vector -/
def swapSysVec (v : Nat → α) (n s1 s2 : Nat) (dims : Nat → Nat) : Nat → α :=
  permuteVec v n (fnOfList (swapPermList n s1 s2)) dims false

/-- `swap(X, [s1+1, s2+1], [rd, cd], row_only)` on a matrix -/
def swapSysMat (X : Nat → Nat → α) (n s1 s2 : Nat) (rd cd : Nat → Nat) (rowOnly : Bool) : Nat → Nat → α :=
  permuteMat X n (fnOfList (swapPermList n s1 s2)) rd cd rowOnly false

/-- `swap_operator(dims)`: rows of the identity swapped (`sys = [1, 2]`, `row_only = True`) -/
def swapOperator [Zero α] [One α] (n : Nat) (dims : Nat → Nat) : Nat → Nat → α :=
  swapSysMat (fun i j => if i = j then 1 else 0) n 0 1 dims dims true

end Toq.Perms
