import Toq.Core.EMat
/-!
# Certificate checkers for quantum state discrimination (C10) — executable, no Mathlib

Minimum-error discrimination of an ensemble `{(p_i, ρ_i)}`:

* primal: maximise `Σ_i p_i tr(ρ_i M_i)` over POVMs `M`;
* dual:   minimise `tr Y` subject to `Y ⪰ p_i ρ_i` for every `i`.

Unambiguous discrimination in Gram form (toqito's formulation), `G` the Gram matrix:

* primal: maximise `Σ_i p_i q_i` subject to `q ≥ 0`, `G − diag q ⪰ 0`;
* dual:   minimise `tr(G Z)` subject to `Z ⪰ 0`, `Z_ii ≥ p_i`.

A checker takes a candidate point together with PSD witnesses (`EMat.psdCert`) and returns the exact
rational objective value if every constraint is verified exactly, `none` otherwise.  Each checker is
`if <named Boolean conditions> then some <value> else none`; the named conditions are reused by the
driver to report which constraint failed.
-/

namespace Toq.Discrim
open EMat

variable {d k : Nat}

/-- real diagonal matrix `diag q` -/
def diagQ (q : Fin k → Rat) : EMat k k := ofFn fun i j => if i = j then QI.ofRat (q i) else 0

/-- entrywise sum `Σ_i M_i` -/
def sumMats (k : Nat) (M : Fin k → EMat d d) : EMat d d :=
  ofFn fun a b => sumFin k fun i => (M i).get a b

/-! ## Function-indexed core checkers -/

/-- `Σ_i p_i · Re tr(ρ_i M_i)` -/
def minErrValueFn (k : Nat) (ρ : Fin k → EMat d d) (p : Fin k → Rat) (M : Fin k → EMat d d) : Rat :=
  sumFinQ k fun i => p i * ((ρ i).mul (M i)).trace.re

/-- every `M_i` carries a valid PSD witness -/
def povmPsdOk (k : Nat) (M LM : Fin k → EMat d d) : Bool := allFin k fun i => psdCert (M i) (LM i)

/-- `Σ_i M_i = 1` exactly -/
def povmSumOk (k : Nat) (M : Fin k → EMat d d) : Bool := (sumMats k M).beq one

def checkMinErrPrimalFn (k : Nat) (ρ : Fin k → EMat d d) (p : Fin k → Rat) (M LM : Fin k → EMat d d) :
    Option Rat :=
  if povmPsdOk k M LM && povmSumOk k M then some (minErrValueFn k ρ p M) else none

/-- every `Y − p_i ρ_i` carries a valid PSD witness -/
def dualPsdOk (k : Nat) (ρ : Fin k → EMat d d) (p : Fin k → Rat) (Y : EMat d d) (LY : Fin k → EMat d d) :
    Bool :=
  allFin k fun i => psdCert (Y - smul (p i) (ρ i)) (LY i)

def checkMinErrDualFn (k : Nat) (ρ : Fin k → EMat d d) (p : Fin k → Rat) (Y : EMat d d)
    (LY : Fin k → EMat d d) : Option Rat :=
  if Y.isHermitian && dualPsdOk k ρ p Y LY then some Y.trace.re else none

/-- `Σ_i p_i q_i` -/
def unambValueFn (k : Nat) (p q : Fin k → Rat) : Rat := sumFinQ k fun i => p i * q i

def qNonnegOk (k : Nat) (q : Fin k → Rat) : Bool := allFin k fun i => decide (0 ≤ q i)

def checkUnambPrimalFn (G : EMat k k) (p q : Fin k → Rat) (L : EMat k k) : Option Rat :=
  if qNonnegOk k q && psdCert (G - diagQ q) L then some (unambValueFn k p q) else none

/-- `Re Z_ii ≥ p_i` -/
def zDiagOk (k : Nat) (p : Fin k → Rat) (Z : EMat k k) : Bool :=
  allFin k fun i => decide (p i ≤ (Z.get i i).re)

def checkUnambDualFn (G : EMat k k) (p : Fin k → Rat) (Z LZ : EMat k k) : Option Rat :=
  if psdCert Z LZ && zDiagOk k p Z then some (G.mul Z).trace.re else none

/-! ## List-based interface -/

structure Ensemble (d : Nat) where
  states : List (EMat d d)
  probs : List Rat

namespace Ensemble
/-- number of states -/
def size (ens : Ensemble d) : Nat := ens.states.length
/-- `ρ_i` (zero matrix out of range) -/
def state (ens : Ensemble d) (i : Nat) : EMat d d := ens.states.getD i zero
/-- `p_i` (zero out of range) -/
def prob (ens : Ensemble d) (i : Nat) : Rat := ens.probs.getD i 0
end Ensemble

/-- `i`-th matrix of a list (zero matrix out of range) -/
def matAt (M : List (EMat d d)) (i : Nat) : EMat d d := M.getD i zero
/-- `i`-th rational of a list (zero out of range) -/
def ratAt (p : List Rat) (i : Nat) : Rat := p.getD i 0

/-- `Σ_i p_i · Re tr(ρ_i M_i)` -/
def minErrValue (ens : Ensemble d) (M : List (EMat d d)) : Rat :=
  minErrValueFn ens.size (fun i => ens.state i) (fun i => ens.prob i) (fun i => matAt M i)

/-- the three lists `probs`, `M`, `LM` have as many elements as there are states -/
def lens3Ok (k a b c : Nat) : Bool := a == k && b == k && c == k

/-- `some (Σ_i p_i Re tr(ρ_i M_i))` iff lengths agree, every `M_i` has `psdCert M_i LM_i = true`
    and `Σ_i M_i = 1` entrywise exactly -/
def checkMinErrPrimal (ens : Ensemble d) (M LM : List (EMat d d)) : Option Rat :=
  if lens3Ok ens.size ens.probs.length M.length LM.length then
    checkMinErrPrimalFn ens.size (fun i => ens.state i) (fun i => ens.prob i)
      (fun i => matAt M i) (fun i => matAt LM i)
  else none

/-- `some (Re tr Y)` iff `Y` is Hermitian, lengths agree and every `Y − p_i ρ_i` has a valid PSD
    witness `LY_i` -/
def checkMinErrDual (ens : Ensemble d) (Y : EMat d d) (LY : List (EMat d d)) : Option Rat :=
  if lens3Ok ens.size ens.probs.length LY.length ens.size then
    checkMinErrDualFn ens.size (fun i => ens.state i) (fun i => ens.prob i) Y (fun i => matAt LY i)
  else none

/-- `some (Σ_i p_i q_i)` iff `p`, `q` have length `k`, `q ≥ 0` and `G − diag q` has the PSD witness `L` -/
def checkUnambPrimal (G : EMat k k) (p q : List Rat) (L : EMat k k) : Option Rat :=
  if lens3Ok k p.length q.length k then
    checkUnambPrimalFn G (fun i => ratAt p i) (fun i => ratAt q i) L
  else none

/-- `some (Re tr(G Z))` iff `p` has length `k`, `Z` has the PSD witness `LZ` and `Re Z_ii ≥ p_i` -/
def checkUnambDual (G : EMat k k) (p : List Rat) (Z LZ : EMat k k) : Option Rat :=
  if lens3Ok k p.length k k then
    checkUnambDualFn G (fun i => ratAt p i) Z LZ
  else none

end Toq.Discrim
