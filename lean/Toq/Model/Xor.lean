import Toq.Core.Idx
import Toq.Core.EMat
/-!
# XOR games (`toqito/nonlocal_games/xor_game.py`) and two-outcome Bell expressions
(`toqito/state_opt/bell_inequality_max.py`) — executable model and certificate checkers, no Mathlib

An XOR game has `m` questions for Alice, `n` for Bob, a distribution `prob x y` (= `prob_mat[x, y]`)
and a predicate `pred x y ∈ {0, 1}` (= `pred_mat[x, y]`); the players answer bits `a`, `b` and win iff
`a ⊕ b = pred x y`.

Mirror part (line by line):

* `dMat`      — `d_mat[x, y] = prob_mat[x, y] * (-1) ** pred_mat[x, y]` (`XORGame.quantum_value`);
* `xorDualMat`— the block matrix `[[diag(u), -D], [-Dᵀ, diag(v)]]` of the constraint `>> 0`;
* `xorValue`  — `(problem.value / 4 + 1 / 2) ** reps` where `problem.value = min Σu + Σv`;
* `nlgPred`   — `nlg_pred_mat[a, b, x, y] = (xor_pred_mat[x, y] == a ^ b)` (`XORGame.to_nonlocal_game`).

Specification part (executable by enumeration):

* `detWin`, `xorClassicalValue` — winning probability of a pair of answer functions in the converted
  game and its maximum over all `2^(m+n)` pairs (what `classical_value` has to return);
* `signBias`, `xorClassicalBias` — `Σ D[x,y] s_x t_y` and its maximum over sign vectors.

Certificate checkers (exact rationals, PSD witnesses through `EMat.psdCert`):

* `checkXorPrimal D Γ L`  — `Γ` Hermitian PSD with unit diagonal ⇒ `Σ D[x,y] Re Γ[x, m+y]`;
* `checkXorDual D a b L`  — `[[diag a, -D], [-Dᵀ, diag b]]` PSD ⇒ `(Σa + Σb)/2`;
* `checkBellDual J a b t u v L` — Tsirelson dual certificate of the extended coefficient matrix
  `[[t, bᵀ], [a, J]]` ⇒ `(Σu + Σv)/2 − t` (Bell expressions with marginal terms);
* `checkBellStrategy …`   — an explicit quantum strategy (density matrix, commuting ±1 observables)
  ⇒ the value of the Bell expression on it.
-/

namespace Toq.Xor
open EMat

/-! ## Game data -/

/-- `(-1) ** k` for a non-negative integer `k` -/
def negOnePow (k : Nat) : Rat := if k % 2 = 0 then 1 else -1

/-- `d_mat[x, y] = prob_mat[x, y] * (-1) ** pred_mat[x, y]` -/
def dMat (prob : Nat → Nat → Rat) (pred : Nat → Nat → Nat) : Nat → Nat → Rat :=
  fun x y => prob x y * negOnePow (pred x y)

/-- `nlg_pred_mat[a, b, x, y] = (xor_pred_mat[x, y] == a ^ b)` (Python `^` is bitwise xor) -/
def nlgPred (pred : Nat → Nat → Nat) : Nat → Nat → Nat → Nat → Rat :=
  fun a b x y => if pred x y = a ^^^ b then 1 else 0

/-- `x ** r` by repeated multiplication -/
def powN (x : Rat) : Nat → Rat
  | 0 => 1
  | r + 1 => powN x r * x

/-- what `quantum_value` returns when the solver reports the optimal value `s` of
    `minimise Σu + Σv`:  `(s / 4 + 1 / 2) ** reps`  (for `reps == 1` literally `s / 4 + 1 / 2`) -/
def xorValue (s : Rat) (reps : Nat) : Rat := powN (s / 4 + 1 / 2) reps

/-! ## Classical value: enumeration of deterministic strategies -/

/-- winning probability `Σ_{x,y} prob x y · V(α x, β y | x, y)` of the answer functions `α`, `β` in the
    converted game -/
def detWin (m n : Nat) (prob : Nat → Nat → Rat) (pred : Nat → Nat → Nat) (α β : Nat → Nat) : Rat :=
  sumN m fun x => sumN n fun y => prob x y * nlgPred pred (α x) (β y) x y

/-- `Σ_{x,y} D[x,y] s_x t_y` -/
def signBias (m n : Nat) (D : Nat → Nat → Rat) (s t : Nat → Rat) : Rat :=
  sumN m fun x => sumN n fun y => D x y * s x * t y

/-- constant radix 2 -/
def two : Nat → Nat := fun _ => 2

/-- bit `i` (big-endian among `N` bits) of `k` -/
def bits (N k : Nat) : Nat → Nat := dec two N k

/-- `max` of two rationals, spelled out -/
def rmax (a b : Rat) : Rat := if a ≤ b then b else a

/-- `max (f 0, …, f K)` -/
def maxUpTo : Nat → (Nat → Rat) → Rat
  | 0, f => f 0
  | K + 1, f => rmax (maxUpTo K f) (f (K + 1))

/-- Alice's answer function number `k` (bits `0 … m-1` of `k`) -/
def aliceOf (m n k : Nat) : Nat → Nat := fun x => bits (m + n) k x
/-- Bob's answer function number `k` (bits `m … m+n-1` of `k`) -/
def bobOf (m n k : Nat) : Nat → Nat := fun y => bits (m + n) k (m + y)

/-- classical value: the largest winning probability over all `2^(m+n)` pairs of answer functions -/
def xorClassicalValue (m n : Nat) (prob : Nat → Nat → Rat) (pred : Nat → Nat → Nat) : Rat :=
  maxUpTo (2 ^ (m + n) - 1) fun k => detWin m n prob pred (aliceOf m n k) (bobOf m n k)

/-- classical bias: `max_{s ∈ {±1}^m, t ∈ {±1}^n} Σ D[x,y] s_x t_y` -/
def xorClassicalBias (m n : Nat) (D : Nat → Nat → Rat) : Rat :=
  maxUpTo (2 ^ (m + n) - 1) fun k =>
    signBias m n D (fun x => negOnePow (aliceOf m n k x)) (fun y => negOnePow (bobOf m n k y))

/-- `Σ_{x,y} prob x y` -/
def totalProb (m n : Nat) (prob : Nat → Nat → Rat) : Rat := sumN m fun x => sumN n fun y => prob x y

/-! ## Fast exact classical value: enumerate ONE player's sign vectors, best response of the other

This is also how `NonlocalGame.classical_value` proceeds (`process_iteration`: one player's answer functions are enumerated, the other
player's best answer is taken question by question): `2^m · m · n` operations instead of `2^(m+n) · m · n`. -/

/-- `|q|` -/
def rabs (a : Rat) : Rat := if a < 0 then -a else a

/-- for Alice's sign vector number `k` (bits of `k`, `m` bits): `Σ_y |Σ_x s_x D[x,y]|`, the bias against Bob's best response -/
def bestResponse (m n : Nat) (D : Nat → Nat → Rat) (k : Nat) : Rat :=
  sumN n fun y => rabs (sumN m fun x => negOnePow (bits m k x) * D x y)

/-- classical bias by one-sided enumeration: `max_{s ∈ {±1}^m} Σ_y |Σ_x s_x D[x,y]|` -/
def xorClassicalBiasBR (m n : Nat) (D : Nat → Nat → Rat) : Rat :=
  maxUpTo (2 ^ m - 1) fun k => bestResponse m n D k

/-- classical value of the XOR game (0/1 predicate) through the fast bias: `Σπ/2 + bias/2` -/
def xorClassicalValueBR (m n : Nat) (prob : Nat → Nat → Rat) (pred : Nat → Nat → Nat) : Rat :=
  totalProb m n prob / 2 + xorClassicalBiasBR m n (dMat prob pred) / 2

/-! ## `XORGame.__init__`: default tolerance and the three guards -/

/-- `np.finfo(float).eps = 2⁻⁵²` -/
def floatEps : Rat := 1 / 4503599627370496

/-- `self.tol`: `np.finfo(float).eps * q_0**2 * q_1**2` when `tol is None`, else the given value -/
def xorTol (q0 q1 : Nat) : Option Rat → Rat
  | none => floatEps * ((q0 : Rat) * q0) * ((q1 : Rat) * q1)
  | some t => t

/-- `-np.min(np.min(prob_mat))` = the largest entry of `-prob_mat` (entries in C order; both sizes positive) -/
def negMin (q0 q1 : Nat) (prob : Nat → Nat → Rat) : Rat :=
  maxUpTo (q0 * q1 - 1) fun k => -prob (k / q1) (k % q1)

/-- outcome of the constructor -/
inductive XorInit where
  /-- accepted; carries `self.tol` -/
  | ok (tol : Rat)
  /-- "`prob_mat` and `pred_mat` must be matrices of the same size" -/
  | sizeMismatch
  /-- "its entries must be non-negative" -/
  | negative
  /-- "its entries must sum to 1" -/
  | notNormalised
deriving DecidableEq, Repr

/-- the guards of `XORGame.__init__` in the order of the code: `prob_mat` is `q0 × q1`, `pred_mat` is `p0 × p1`
```
if (q_0, q_1) != self.pred_mat.shape: raise …
if -np.min(np.min(self.prob_mat)) > self.tol: raise …
if np.abs(np.sum(np.sum(self.prob_mat)) - 1) > self.tol: raise …
``` -/
def xorInit (q0 q1 p0 p1 : Nat) (prob : Nat → Nat → Rat) (tol : Option Rat) : XorInit :=
  let t := xorTol q0 q1 tol
  if (q0, q1) ≠ (p0, p1) then .sizeMismatch
  else if negMin q0 q1 prob > t then .negative
  else
    let d := totalProb q0 q1 prob - 1
    if (if d < 0 then -d else d) > t then .notNormalised else .ok t

/-! ## Certificate checkers for the Tsirelson semidefinite program -/

variable {N k : Nat}

/-- every diagonal entry is exactly `1` -/
def diagOne (Γ : EMat N N) : Bool := allFin N fun i => Γ.get i i == 1

/-- `Σ_{x<m, y<n} D[x,y] · Re Γ[x, m+y]` -/
def xorObj (m n : Nat) (D : Nat → Nat → Rat) (Γ : EMat (m + n) (m + n)) : Rat :=
  sumFinQ m fun x => sumFinQ n fun y => D x.val y.val * (Γ.get (Fin.castAdd n x) (Fin.natAdd m y)).re

/-- primal certificate: `Γ` (the Gram matrix of Alice's and Bob's unit vectors) is Hermitian PSD
    (witness `L`) with unit diagonal; returns the bias it achieves — a lower bound of the optimum -/
def checkXorPrimal (m n : Nat) (D : Nat → Nat → Rat) (Γ : EMat (m + n) (m + n)) (L : EMat (m + n) k) :
    Option Rat :=
  if psdCert Γ L && diagOne Γ then some (xorObj m n D Γ) else none

/-- the block matrix `[[diag(a), -D], [-Dᵀ, diag(b)]]` of `quantum_value` -/
def xorDualMat (m n : Nat) (D : Nat → Nat → Rat) (a b : Nat → Rat) : EMat (m + n) (m + n) :=
  ofFn fun i j =>
    if i.val < m then
      if j.val < m then (if i.val = j.val then QI.ofRat (a i.val) else 0)
      else QI.ofRat (-(D i.val (j.val - m)))
    else
      if j.val < m then QI.ofRat (-(D j.val (i.val - m)))
      else (if i.val = j.val then QI.ofRat (b (i.val - m)) else 0)

/-- `Σ_{k<n} f k` over `Nat`-indexed rationals, through `sumFinQ` -/
def sumQ (n : Nat) (f : Nat → Rat) : Rat := sumFinQ n fun i => f i.val

/-- dual certificate: the block matrix is PSD (witness `L`); returns `(Σa + Σb)/2` — an upper bound of
    the bias of every strategy -/
def checkXorDual (m n : Nat) (D : Nat → Nat → Rat) (a b : Nat → Rat) (L : EMat (m + n) k) : Option Rat :=
  if psdCert (xorDualMat m n D a b) L then some ((sumQ m a + sumQ n b) / 2) else none

/-! ## Bell expressions with marginal terms -/

/-- The Bell expression `Σ J[x,y]⟨A_x B_y⟩ + Σ a_x⟨A_x⟩ + Σ b_y⟨B_y⟩` as a pure correlation expression
    with one extra setting per party whose observable is the identity (index `0`; old settings are
    shifted by one): coefficient matrix `[[t, bᵀ], [a, J]]`.  On a strategy extended by `A_* = B_* = 1`
    it evaluates to `t +` the Bell value, for every `t` (`t` is the multiplier of `⟨A_* B_*⟩ = 1`). -/
def bellExt (J : Nat → Nat → Rat) (a b : Nat → Rat) (t : Rat) : Nat → Nat → Rat :=
  fun x y =>
    if x = 0 then (if y = 0 then t else b (y - 1))
    else if y = 0 then a (x - 1) else J (x - 1) (y - 1)

/-- dual certificate for a Bell expression with marginals: a Tsirelson dual certificate `(u, v)` of the
    extended coefficient matrix with corner `t`; returns `(Σu + Σv)/2 − t`, an upper bound of the value
    of every quantum strategy -/
def checkBellDual (m n : Nat) (J : Nat → Nat → Rat) (a b : Nat → Rat) (t : Rat) (u v : Nat → Rat)
    (L : EMat (m + 1 + (n + 1)) k) : Option Rat :=
  match checkXorDual (m + 1) (n + 1) (bellExt J a b t) u v L with
  | some h => some (h - t)
  | none => none

/-- Coefficients after substituting `A_x = ca + da·S_x`, `B_y = cb + db·T_y`: returns `(J', a', b', const)`
    with `Σ J⟨A B⟩ + Σ a⟨A⟩ + Σ b⟨B⟩ = const + Σ J'⟨S T⟩ + Σ a'⟨S⟩ + Σ b'⟨T⟩`. -/
def bellAffineC (m n : Nat) (J : Nat → Nat → Rat) (a b : Nat → Rat) (ca da cb db : Rat) :
    (Nat → Nat → Rat) × (Nat → Rat) × (Nat → Rat) × Rat :=
  (fun x y => J x y * da * db,
   fun x => da * (a x + cb * sumN n fun y => J x y),
   fun y => db * (b y + ca * sumN m fun x => J x y),
   ca * cb * (sumN m fun x => sumN n fun y => J x y) + ca * (sumN m fun x => a x) + cb * (sumN n fun y => b y))

/-- Affine change of outcome labels: if Alice's observable takes the values `α0, α1` (for outcomes 0, 1)
    then `A_x = ca + da·S_x` with a ±1 observable `S_x`, `ca = (α0+α1)/2`, `da = (α0−α1)/2` (same for Bob). -/
def bellAffine (m n : Nat) (J : Nat → Nat → Rat) (a b : Nat → Rat) (α0 α1 β0 β1 : Rat) :
    (Nat → Nat → Rat) × (Nat → Rat) × (Nat → Rat) × Rat :=
  bellAffineC m n J a b ((α0 + α1) / 2) ((α0 - α1) / 2) ((β0 + β1) / 2) ((β0 - β1) / 2)

/-! ## Explicit quantum strategies -/

/-- Hermitian and `A·A = 1`: a ±1-valued observable -/
def isInvolution (A : EMat N N) : Bool := A.isHermitian && (A.mul A).beq one

/-- `A B = B A` -/
def commutes (A B : EMat N N) : Bool := (A.mul B).beq (B.mul A)

/-- `Re tr(ρ M)` -/
def expect (ρ M : EMat N N) : Rat := (ρ.mul M).trace.re

/-- value of the Bell expression `Σ J[x,y]⟨A_x B_y⟩ + Σ a_x⟨A_x⟩ + Σ b_y⟨B_y⟩` in the state `ρ` -/
def bellValue (m n : Nat) (J : Nat → Nat → Rat) (a b : Nat → Rat) (ρ : EMat N N)
    (A : Fin m → EMat N N) (B : Fin n → EMat N N) : Rat :=
  (sumFinQ m fun x => sumFinQ n fun y => J x.val y.val * expect ρ ((A x).mul (B y)))
    + (sumFinQ m fun x => a x.val * expect ρ (A x)) + (sumFinQ n fun y => b y.val * expect ρ (B y))

/-- `ρ` is a density matrix (PSD witness `Lρ`, trace exactly 1) -/
def isDensity (ρ : EMat N N) (Lρ : EMat N k) : Bool := psdCert ρ Lρ && ρ.trace == 1

/-- all observables are involutions and Alice's commute with Bob's -/
def observablesOk (m n : Nat) (A : Fin m → EMat N N) (B : Fin n → EMat N N) : Bool :=
  (allFin m fun x => isInvolution (A x)) && (allFin n fun y => isInvolution (B y))
    && allFin m fun x => allFin n fun y => commutes (A x) (B y)

/-- an explicit strategy: returns the value it achieves — a lower bound of the quantum maximum -/
def checkBellStrategy (m n : Nat) (J : Nat → Nat → Rat) (a b : Nat → Rat) (ρ : EMat N N) (Lρ : EMat N k)
    (A : Fin m → EMat N N) (B : Fin n → EMat N N) : Option Rat :=
  if isDensity ρ Lρ && observablesOk m n A B then some (bellValue m n J a b ρ A B) else none

/-- best deterministic value `max_{s,t ∈ ±1} Σ J s t + Σ a s + Σ b t` by enumeration -/
def bellDetMax (m n : Nat) (J : Nat → Nat → Rat) (a b : Nat → Rat) : Rat :=
  maxUpTo (2 ^ (m + n) - 1) fun k =>
    let s : Nat → Rat := fun x => negOnePow (aliceOf m n k x)
    let t : Nat → Rat := fun y => negOnePow (bobOf m n k y)
    signBias m n J s t + (sumN m fun x => a x * s x) + (sumN n fun y => b y * t y)

end Toq.Xor
