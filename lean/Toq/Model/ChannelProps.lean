import Toq.Core.EMat
import Toq.Core.Rank
import Toq.Model.ChannelOps
/-!
# Exact deciders of the channel predicates (`toqito/channel_props/*.py`) and closed-form models of the
built-in channels (`toqito/channels/*.py`)  — executable, no Mathlib

## Deciders

A map `Φ : M_{di} → M_{dO}` is handed over as its exact Choi matrix `J` over `ℚ[i]`
(`EMat (di*dO) (di*dO)`, big-endian pairing `(i, a) ↦ i·dO + a`: `J[(i,a),(j,b)] = Φ(E_ij)[a,b]`), or as
one of toqito's Kraus list forms, which `choiOfArg` turns into `J` by the definition
`J[(i,a),(j,b)] = Σ_k A_k[a,i]·conj(B_k[b,j])` (= what `kraus_to_choi` computes, `Toq.C04.krausToChoi_eq_spec`).

Every decider is three-valued (`Verdict`):
* `yes` — the defining relation holds exactly on the rational input (for positive semidefiniteness: is
  certified by `EMat.psdCert` with a supplied factor);
* `no`  — it is violated by at least `tolOf scale = 100·(atol + rtol·scale)` in some entry (for positive
  semidefiniteness: an explicit vector `v` with `vᴴJv ≤ -tolOf(scale)·vᴴv` is supplied and checked);
* `unknown` — neither; the harness never generates such inputs.

The meaning of the deciders is given by the theorems of `Toq/Properties/C06.lean`
(`tpDecide_iff`, `unitalDecide_iff`, `hpDecide_iff`, `psdYes_sound`, `negWitness_sound`, `extremalDecide_correct`, …);
the tolerance tests themselves (`np.allclose` with arbitrary `rtol`, `atol`) are mirrored exactly in `Toq/Model/ChannelPropsTol.lean`.

## Closed forms

Each constructor is mirrored on the entry level, polymorphic in the scalar type (run on `Rat`/`QI`, reasoned
about over `ℂ`).  Square roots enter as explicit arguments (`s² = γ`, `c² = 1 - γ`, …).
-/
namespace Toq.ChannelProps
open Toq.ChannelOps

/-! ## three-valued verdicts -/

inductive Verdict where
  | yes
  | no
  | unknown
deriving DecidableEq, Repr, Inhabited

namespace Verdict
def and : Verdict → Verdict → Verdict
  | .no, _ => .no
  | _, .no => .no
  | .yes, .yes => .yes
  | _, _ => .unknown
def str : Verdict → String
  | .yes => "yes"
  | .no => "no"
  | .unknown => "unknown"
end Verdict

/-- `100·(atol + rtol·scale)` with toqito's defaults `atol = 1e-8`, `rtol = 1e-5` -/
def tolOf (scale : Rat) : Rat := 100 * ((1 : Rat) / 100000000 + scale / 100000)

def maxRat (a b : Rat) : Rat := if a < b then b else a

/-! ## exact matrices of a fixed size -/

section Exact
variable {n m : Nat}

/-- largest `|re| + |im|` of the entries -/
def maxAbs1 (A : EMat n m) : Rat :=
  (List.finRange n).foldl (fun acc i => (List.finRange m).foldl (fun acc j => maxRat acc (A.get i j).abs1) acc) 0

/-- some entry of `A - B` is at least `tolOf (scale)` in `|re| + |im|` -/
def farApart (A B : EMat n m) : Bool :=
  let t := tolOf (maxRat (maxAbs1 A) (maxAbs1 B))
  (List.finRange n).any fun i => (List.finRange m).any fun j => decide (t ≤ (A.get i j - B.get i j).abs1)

/-- the two sides of an `np.allclose` test, decided exactly -/
def eqV (A B : EMat n m) : Verdict :=
  if A.beq B then .yes else if farApart A B then .no else .unknown

end Exact

/-! ## the defining relations on the Choi matrix -/

section Choi
variable {di dO : Nat}

/-- position of the pair `(i, a)` in the tensor-product index: `i·dO + a` -/
def pairIdx (i : Fin di) (a : Fin dO) : Fin (di * dO) :=
  ⟨i.val * dO + a.val,
    Nat.lt_of_lt_of_le (Nat.add_lt_add_left a.isLt _)
      (by rw [← Nat.succ_mul]; exact Nat.mul_le_mul_right _ i.isLt)⟩

/-- `Tr_out J` -/
def ptraceOut (J : EMat (di * dO) (di * dO)) : EMat di di :=
  EMat.ofFn fun i j => EMat.sumFin dO fun a => J.get (pairIdx i a) (pairIdx j a)

/-- `Tr_in J = Φ(1)` -/
def ptraceIn (J : EMat (di * dO) (di * dO)) : EMat dO dO :=
  EMat.ofFn fun a b => EMat.sumFin di fun i => J.get (pairIdx i a) (pairIdx i b)

/-- trace preserving, exactly: `Tr_out J = 1` -/
def tpDecide (J : EMat (di * dO) (di * dO)) : Bool := (ptraceOut J).beq EMat.one

/-- unital, exactly: `Tr_in J = 1` -/
def unitalDecide (J : EMat (di * dO) (di * dO)) : Bool := (ptraceIn J).beq EMat.one

/-- Hermiticity preserving, exactly: `J = Jᴴ` -/
def hpDecide (J : EMat (di * dO) (di * dO)) : Bool := J.isHermitian

def tpV (J : EMat (di * dO) (di * dO)) : Verdict := eqV (ptraceOut J) EMat.one
def unitalV (J : EMat (di * dO) (di * dO)) : Verdict := eqV (ptraceIn J) EMat.one
def hpV (J : EMat (di * dO) (di * dO)) : Verdict := eqV J J.ct

end Choi

/-! ## positive semidefiniteness: certificates both ways -/

section Psd
variable {n k : Nat}

/-- `vᴴ A v` -/
def quadForm (A : EMat n n) (v : EMat n 1) : QI := (v.ct.mul (A.mul v)).trace

/-- `vᴴ v` -/
def normSq (v : EMat n 1) : QI := (v.ct.mul v).trace

/-- positive certificate: `A` Hermitian and `A - L Lᴴ` diagonally dominant (`EMat.psdCert`) -/
def psdYes (A : EMat n n) (L : EMat n k) : Bool := EMat.psdCert A L

/-- negative certificate with margin `μ ≥ 0`: `Re vᴴ A v ≤ -μ·vᴴv` and `vᴴ A v < 0`.
    Such a `v` refutes `A + c·1 ⪰ 0` for every `c < μ` (`Toq.C06.negWitness_sound`). -/
def negWitness (A : EMat n n) (v : EMat n 1) (μ : Rat) : Bool :=
  decide ((quadForm A v).re < 0) && decide ((quadForm A v).re + μ * (normSq v).re ≤ 0) && decide (0 ≤ μ)

/-- `is_positive_semidefinite`-type verdict from the two certificates -/
def psdV (A : EMat n n) (L : Option (EMat n k)) (v : Option (EMat n 1)) : Verdict :=
  match eqV A A.ct with
  | .no => .no
  | .unknown => .unknown
  | .yes =>
    if (match L with | some L => psdYes A L | none => false) then .yes
    else if (match v with | some v => negWitness A v (tolOf (maxAbs1 A)) | none => false) then .no
    else .unknown

end Psd

/-! ## exact elimination over `ℚ[i]`: rank, pivot columns -/

abbrev QM := Array (Array QI)

def qinv (a : QI) : QI :=
  let s := a.re * a.re + a.im * a.im
  ⟨a.re / s, -a.im / s⟩

def QM.get (M : QM) (i j : Nat) : QI := (M[i]!)[j]!

def QM.ofFn (r c : Nat) (f : Nat → Nat → QI) : QM :=
  (Array.range r).map fun i => (Array.range c).map fun j => f i j

/-- pivot columns of the `r × c` block of `M` (the lexicographically first maximal independent set of columns) by
    Gaussian elimination over `ℚ[i]`: the shared, proved routine `Toq.Rank.pivotsFn` (`Toq/Core/Rank.lean`);
    they are linearly independent and there are `rank M` of them (`Toq.C06.pivotCols_length`,
    `Toq.C06.pivotCols_linearIndependent`) -/
def pivotCols (r c : Nat) (M : QM) : List Nat := Toq.Rank.pivotsFn r c M.get

/-- exact rank: the shared, proved routine `Toq.Rank.rankFn`; equal to Mathlib's `Matrix.rank` of the denoted
    complex matrix (`Toq.C06.rankQ_eq_rank`) -/
def rankQ (r c : Nat) (M : QM) : Nat := Toq.Rank.rankFn r c M.get

/-! ## Choi rank, unitarity, extremality by definition -/

/-- the `dO × di` operator whose column-stacking vector is column `q` of `J`:  `W[a, i] = J[(i,a), q]` -/
def unvecCol (_di dO : Nat) (J : QM) (q : Nat) : Nat → Nat → QI := fun a i => J.get (i * dO + a) q

/-- `Wᴴ W'` flattened (row-major, NumPy `.flatten()`): entry `f` is `(Wᴴ W')[f / di, f % di]` -/
def adjMulEntry (di dO : Nat) (W W' : Nat → Nat → QI) (f : Nat) : QI :=
  sumN dO fun a => (W a (f / di)).conj * W' a (f % di)

/-- the `r² × di²` array whose row `t = k·r + l` is the flattened product `W_kᴴ W_l`
    (`[np.dot(A.conj().T, B).flatten() for A in kraus_ops for B in kraus_ops]`, one product per row) -/
def prodRows (di dO : Nat) (Ws : List (Nat → Nat → QI)) : QM :=
  let r := Ws.length
  QM.ofFn (r * r) (di * di) fun t f =>
    adjMulEntry di dO (Ws.getD (t / r) fun _ _ => 0) (Ws.getD (t % r) fun _ _ => 0) f

/-- Extremality of a channel with Choi matrix `J` by Choi's criterion: with `W_1 … W_r` a basis of `span {K_i}`
    (= the operators of `r = rank J` independent columns of `J`), the `r²` operators `W_kᴴ W_l` are linearly
    independent.  Correct for every channel: `Toq.C06.extremalDecide_correct` (the answer is `true` exactly when the
    channel is an extreme point of the convex set of channels). -/
def extremalDecide (di dO : Nat) (J : QM) : Bool :=
  let N := di * dO
  let piv := pivotCols N N J
  let r := piv.length
  let Ws := piv.map (unvecCol di dO J)
  -- rows = the r² flattened operators
  rankQ (r * r) (di * di) (prodRows di dO Ws) == r * r

/-- the procedure of `is_extremal.py` on a Kraus list as given (no reduction to an independent family):
    `matrix_rank(column_stack([A_iᴴ A_j])) == r²`, `True` for a single operator.  Correct when the list is linearly
    independent (`Toq.C06.extremalAsCoded_correct`); `false` on every linearly dependent list of two or more operators
    (`Toq.C06.extremalAsCoded_dependent`). -/
def extremalAsCoded (di dO : Nat) (Ks : List (Nat → Nat → QI)) : Bool :=
  let r := Ks.length
  if r == 1 then true
  else rankQ (r * r) (di * di) (prodRows di dO Ks) == r * r

/-! ## from toqito's argument forms to the Choi matrix -/

/-- `J[(i,a),(j,b)] = Σ_k A_k[a,i]·conj(B_k[b,j])` (`Toq.ChannelSpec.choiSpec` evaluated on matrix units) -/
def choiOfPairs (as bs : List (Mat QI)) (dO0 dO1 : Nat) : Nat → Nat → QI := fun p q =>
  ((as.zip bs).map fun ab => ab.1.e (p % dO0) (p / dO0) * (ab.2.e (q % dO1) (q / dO1)).conj).foldl (· + ·) 0

/-- a map in canonical form: dimensions and exact Choi matrix -/
structure ChoiForm where
  di : Nat
  dO : Nat
  J : EMat (di * dO) (di * dO)

def ChoiForm.toQM (c : ChoiForm) : QM :=
  QM.ofFn (c.di * c.dO) (c.di * c.dO) fun p q =>
    if h : p < c.di * c.dO ∧ q < c.di * c.dO then c.J.get ⟨p, h.1⟩ ⟨q, h.2⟩ else 0

/-- The list forms `[K…]`, `[[K]…]`, `[[K…]]`, `[[A,B]…]` through the cascade of `apply_channel` /
    `channel_dim` (`KrausArg.split`); square input and output spaces only (`A_k`, `B_k` of one shape). -/
def choiOfArg (phi : KrausArg QI) : Option ChoiForm :=
  match phi.split with
  | none => none
  | some (as, bs) =>
    match as with
    | [] => none
    | a :: _ =>
      let dO := a.r
      let di := a.c
      if as.length != bs.length || !(Mat.allShape as dO di) || !(Mat.allShape bs dO di) then none
      else
        let f := choiOfPairs as bs dO dO
        some ⟨di, dO, EMat.ofFn fun p q => f p.val q.val⟩

/-- all verdicts about one map -/
structure Report where
  hp : Verdict
  psd : Verdict
  tp : Verdict
  unital : Verdict
  rank : Nat
  unitary : Verdict
  extremal : Bool

/-- Unitary channel by definition, decided on the Choi matrix: equal dimensions, `J` Hermitian of rank one
    with positive trace (so `J = vec(U) vec(U)ᴴ`) and trace preserving (`UᴴU = 1`, hence `U` unitary).
    `no` when the dimensions differ, the rank is not one (generated maps of rank `≥ 2` have their second
    eigenvalue far above `choi_to_kraus`' threshold `1e-9`), or one of the relations fails by the margin. -/
def unitaryV (c : ChoiForm) (rank : Nat) : Verdict :=
  if c.di != c.dO then .no
  else if rank != 1 then .no
  else
    match hpV c.J with
    | .no => .no
    | .unknown => .unknown
    | .yes => if (c.J.trace).re ≤ 0 then .no else tpV c.J

def report {k : Nat} (c : ChoiForm) (L : Option (EMat (c.di * c.dO) k)) (v : Option (EMat (c.di * c.dO) 1)) : Report :=
  let Q := c.toQM
  let rk := rankQ (c.di * c.dO) (c.di * c.dO) Q
  { hp := hpV c.J, psd := psdV c.J L v, tp := tpV c.J, unital := unitalV c.J, rank := rk,
    unitary := unitaryV c rk, extremal := extremalDecide c.di c.dO Q }

/-- `is_trace_preserving` on a paired list as coded: `(Σ A_kᴴ B_k) = 1` — as a matrix for `eqV` -/
def sumAdjMul (as bs : List (Mat QI)) (di : Nat) : EMat di di :=
  EMat.ofFn fun i j =>
    ((as.zip bs).map fun ab => sumN ab.1.r fun a => (ab.1.e a i.val).conj * ab.2.e a j.val).foldl (· + ·) 0

/-- single-operator unitary test `UᴴU = 1 ∧ UUᴴ = 1`, exactly -/
def unitaryMatDecide {d : Nat} (U : EMat d d) : Bool := (U.ct.mul U).beq EMat.one && (U.mul U.ct).beq EMat.one

/-! ## closed forms of the built-in channels -/

section Closed
variable {α : Type} [Zero α] [One α] [Add α] [Sub α] [Mul α]

/-- `max_entangled(d, False, False)[p]` for `p = i·d + a`: `δ_ia` -/
def psi (d p : Nat) : α := if p / d = p % d then 1 else 0

def delta (i j : Nat) : α := if i = j then 1 else 0

/-- `depolarizing(dim, param_p)`:
    `(1 - param_p) * np.identity(dim**2) / dim + param_p * (psi @ psi.conj().T)` -/
def depolChoi [Div α] [NatCast α] (d : Nat) (p : α) : Nat → Nat → α := fun P Q =>
  (1 - p) * delta P Q / (d : α) + p * (psi d P * psi d Q)

/-- `dephasing(dim, param_p)`:
    `(1 - param_p) * np.diag(np.diag(psi @ psi.conj().T)) + param_p * (psi @ psi.conj().T)` -/
def dephChoi (d : Nat) (p : α) : Nat → Nat → α := fun P Q =>
  (1 - p) * (if P = Q then psi d P * psi d P else 0) + p * (psi d P * psi d Q)

/-- `reduction(dim, k)`: `k * identity(dim**2) - psi @ psi.conj().T` -/
def reductionChoi (d : Nat) (k : α) : Nat → Nat → α := fun P Q =>
  k * delta P Q - psi d P * psi d Q

/-- the diagonal of `choi(a, b, c)`: `[a+1, c, b, b, a+1, c, c, b, a+1]` -/
def choiDiag (a b c : α) (P : Nat) : α :=
  match P with
  | 0 => a + 1 | 1 => c | 2 => b | 3 => b | 4 => a + 1 | 5 => c | 6 => c | 7 => b | 8 => a + 1
  | _ => 0

/-- `choi(a_var, b_var, c_var)`: `np.diag([...]) - psi @ psi.conj().T` with `psi = max_entangled(3, False, False)` -/
def choiMapChoi (a b c : α) : Nat → Nat → α := fun P Q =>
  (if P = Q then choiDiag a b c P else 0) - psi 3 P * psi 3 Q

/-- a `2 × 2` array from its four entries -/
def m22 (x00 x01 x10 x11 : α) : Nat → Nat → α := fun i j =>
  match i, j with
  | 0, 0 => x00 | 0, 1 => x01 | 1, 0 => x10 | 1, 1 => x11
  | _, _ => 0

/-- `amplitude_damping(None, gamma, prob)` with `sp = √prob`, `cp = √(1-prob)`, `sg = √gamma`, `cg = √(1-gamma)`:
```
k0 = sqrt(prob) * [[1, 0], [0, sqrt(1 - gamma)]]
k1 = sqrt(prob) * sqrt(gamma) * [[0, 1], [0, 0]]
k2 = sqrt(1 - prob) * [[sqrt(1 - gamma), 0], [0, 1]]
k3 = sqrt(1 - prob) * sqrt(gamma) * [[0, 0], [1, 0]]
``` -/
def adKraus (sp cp sg cg : α) : List (Nat → Nat → α) :=
  [m22 sp 0 0 (sp * cg), m22 0 (sp * sg) 0 0, m22 (cp * cg) 0 0 cp, m22 0 0 (cp * sg) 0]

/-- `phase_damping(None, gamma)`: `k0 = diag([1, sqrt(1-gamma)])`, `k1 = diag([0, sqrt(gamma)])` -/
def pdKraus (sg cg : α) : List (Nat → Nat → α) := [m22 1 0 0 cg, m22 0 0 0 sg]

/-- `bitflip(None, prob)`: `k0 = sqrt(1-prob) * eye(2)`, `k1 = sqrt(prob) * [[0,1],[1,0]]` -/
def bfKraus (s c : α) : List (Nat → Nat → α) := [m22 c 0 0 c, m22 0 s s 0]

/-- `k0 @ X @ k0.conj().T + …` for real `2 × 2` Kraus operators (entrywise, index order of NumPy) -/
def applyReal2 (Ks : List (Nat → Nat → α)) (X : Nat → Nat → α) : Nat → Nat → α := fun a b =>
  (Ks.map fun K => sumN 2 fun i => sumN 2 fun j => K a i * X i j * K b j).foldl (· + ·) 0

/-- the four Pauli matrices, `iu` the imaginary unit: `pauli(0..3)` = `I, X, Y, Z` -/
def pauli1 (iu : α) (s : Nat) : Nat → Nat → α :=
  match s with
  | 0 => m22 1 0 0 1
  | 1 => m22 0 1 1 0
  | 2 => m22 0 (0 - iu) iu 0
  | _ => m22 1 0 0 (0 - 1)

/-- digit `t` (0 = most significant) of `j` in base 4 with `q` digits: the odometer of `pauli_channel`
    (`update_odometer` advances the last position first) -/
def pauliDigit (q j t : Nat) : Nat := (j / 4 ^ (q - 1 - t)) % 4

/-- `pauli([i_0, …, i_{q-1}])`: the tensor product `σ_{i_0} ⊗ … ⊗ σ_{i_{q-1}}`, entry `(a, b)` = product over
    the positions of the single-qubit entries at the binary digits of `a`, `b` -/
def pauliString (iu : α) (q j : Nat) : Nat → Nat → α := fun a b =>
  prodFn q fun t => pauli1 iu (pauliDigit q j t) ((a / 2 ^ (q - 1 - t)) % 2) ((b / 2 ^ (q - 1 - t)) % 2)

/-- the Choi matrix accumulated by `pauli_channel`:
    `Phi += prob[j] * kraus_to_choi([[pauli_op, pauli_op.conj().T]])`, i.e. the map `X ↦ Σ_j p_j P_j X (P_jᴴ)ᴴ`;
    entry `((i,a),(j,b))` of the `j`-th term is `P[a,i]·conj(Pᴴ[b,j]) = P[a,i]·P[j,b]` -/
def pauliChoi (iu : α) (q : Nat) (p : Nat → α) : Nat → Nat → α := fun P Q =>
  let d := 2 ^ q
  sumN (4 ^ q) fun j => p j * (pauliString iu q j (P % d) (P / d) * pauliString iu q j (Q / d) (Q % d))

end Closed

/-! ## textbook actions (entry level), for comparison with the direct-application forms -/

section Actions
variable {α : Type} [Zero α] [One α] [Add α] [Sub α] [Mul α]

/-- trace of a `d × d` matrix -/
def trN (d : Nat) (X : Nat → Nat → α) : α := sumN d fun a => X a a

/-- `X ↦ (1-p)·tr(X)·1/d + p·X` -/
def depolAct [Div α] [NatCast α] (d : Nat) (p : α) (X : Nat → Nat → α) : Nat → Nat → α := fun a b =>
  (1 - p) * trN d X / (d : α) * delta a b + p * X a b

/-- `X ↦ (1-p)·diag(X) + p·X` -/
def dephAct (p : α) (X : Nat → Nat → α) : Nat → Nat → α := fun a b =>
  (1 - p) * (if a = b then X a a else 0) + p * X a b

/-- `X ↦ k·tr(X)·1 - X` -/
def reductionAct (d : Nat) (k : α) (X : Nat → Nat → α) : Nat → Nat → α := fun a b =>
  k * trN d X * delta a b - X a b

/-- the generalised Choi map on 3×3 matrices -/
def choiMapAct (a b c : α) (X : Nat → Nat → α) : Nat → Nat → α := fun s t =>
  (if s = t then (a + 1) * X s s + b * X ((s + 1) % 3) ((s + 1) % 3) + c * X ((s + 2) % 3) ((s + 2) % 3) else 0) - X s t

/-- evaluation of a map from its Choi matrix: `Φ(X)[a,b] = Σ_ij X[i,j]·J[(i,a),(j,b)]` -/
def actOfChoi (J : Nat → Nat → α) (di dO : Nat) (X : Nat → Nat → α) : Nat → Nat → α := fun a b =>
  sumN di fun i => sumN di fun j => X i j * J (i * dO + a) (j * dO + b)

end Actions

/-! ## argument guards of the constructors (documented `ValueError`s) -/

inductive Guard where
  | ok
  | probRange       -- "Probability must be between 0 and 1."
  | gammaRange      -- "Gamma … must be between 0 and 1."
  | inputShape      -- "Input matrix must be 2x2 …"
  | probVector      -- "Probabilities must be non-negative and sum to 1."
  | probLength      -- "The length of the probability vector must be 4^q …"
  | unknown         -- closer to a boundary of an `isclose` test than the margin
deriving DecidableEq, Repr

def Guard.name : Guard → String
  | .ok => "ok" | .probRange => "ProbRange" | .gammaRange => "GammaRange" | .inputShape => "InputShape"
  | .probVector => "ProbVector" | .probLength => "ProbLength" | .unknown => "unknown"

def inUnit (x : Rat) : Bool := decide (0 ≤ x) && decide (x ≤ 1)

/-- `amplitude_damping(input_mat, gamma, prob)`: the `prob` test comes first, then `gamma`, then the shape -/
def adGuard (gamma prob : Rat) (shape : Option (Nat × Nat)) : Guard :=
  if !inUnit prob then .probRange
  else if !inUnit gamma then .gammaRange
  else match shape with
    | some s => if s != (2, 2) then .inputShape else .ok
    | none => .ok

/-- `phase_damping(input_mat, gamma)` -/
def pdGuard (gamma : Rat) (shape : Option (Nat × Nat)) : Guard :=
  if !inUnit gamma then .gammaRange
  else match shape with
    | some s => if s != (2, 2) then .inputShape else .ok
    | none => .ok

/-- `bitflip(input_mat, prob)` -/
def bfGuard (prob : Rat) (shape : Option (Nat × Nat)) : Guard :=
  if !inUnit prob then .probRange
  else match shape with
    | some s => if s != (2, 2) then .inputShape else .ok
    | none => .ok

/-- integer `q` with `4^q = n`, if any -/
def log4? (n : Nat) : Option Nat := (List.range 12).find? fun q => 4 ^ q == n

/-- `pauli_channel(prob)` for a probability vector:
    `np.any(prob < 0) or not np.isclose(np.sum(prob), 1)` first, then `len(prob) != 4**q` -/
def pauliGuard (p : List Rat) : Guard :=
  let s := p.foldl (· + ·) 0
  let dev := if s < 1 then 1 - s else s - 1
  if p.any (· < 0) then .probVector
  else if tolOf 1 ≤ dev then .probVector
  else if dev != 0 then .unknown
  else match log4? p.length with
    | none => .probLength
    | some _ => .ok

end Toq.ChannelProps
