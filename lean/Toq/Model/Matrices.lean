import Toq.Core.Idx
import Toq.Core.Scalar
/-!
# Closed-form models of `toqito/matrices/*.py` (no Mathlib)

Entries of the clock / shift / generalised Pauli / Fourier matrices are `0` or `d`-th roots of unity
`ω^k`, `ω = exp(2πi/d)`.  They are modelled twice:

* **exponent model** (`…E`, run by the driver): an entry is `none` (zero) or `some k` (`ω^k`, `k < d`);
  the harness turns `some k` into `exp(2πik/d)`;
* **valued model** (generic in the scalar type, used by the theorems): the same matrices over any
  type with `0`, `1`, `*`, `^` and a chosen element `ω`.

`Toq.States`/`Toq.C17` prove that the exponent model evaluates to the valued model and that the valued
model satisfies the algebra for every `d`.

Integer-structured matrices (Pauli, Gell-Mann, Hadamard, CNOT, cyclic shift, standard basis) are modelled
over `Int`/`GI` together with the square of the common real normalisation (`den2`: the matrix is
`M / √den2`).
-/
namespace Toq.Matrices

/-! ### generic dense helpers on `Nat → Nat → α` -/

/-- `(A @ B)[i, j]` for an inner dimension `n` -/
def matMul [Add α] [Mul α] [Zero α] (n : Nat) (A B : Nat → Nat → α) : Nat → Nat → α :=
  fun i j => sumN n (fun k => A i k * B k j)

/-- identity -/
def matId [Zero α] [One α] : Nat → Nat → α := fun i j => if i = j then 1 else 0

/-- `np.linalg.matrix_power(A, k)` for `k ≥ 0` (as the `k`-fold product) -/
def matPow [Add α] [Mul α] [Zero α] [One α] (n : Nat) (A : Nat → Nat → α) : Nat → Nat → Nat → α
  | 0 => matId
  | k + 1 => matMul n (matPow n A k) A

/-- trace of the leading `n × n` block -/
def trace [Add α] [Zero α] (n : Nat) (A : Nat → Nat → α) : α := sumN n (fun i => A i i)

/-- conjugate transpose -/
def dagger [HasConj α] (A : Nat → Nat → α) : Nat → Nat → α := fun i j => HasConj.conj (A j i)

/-- Kronecker product of an `? × ?` matrix with a matrix with `rb` rows and `cb` columns -/
def kron [Mul α] (rb cb : Nat) (A B : Nat → Nat → α) : Nat → Nat → α :=
  fun i j => A (i / rb) (j / cb) * B (i % rb) (j % cb)

/-! ### exponent model -/

/-- `none` = 0, `some k` = `ω^k` -/
abbrev RU := Option Nat

/-- value of an exponent entry for a chosen `ω` -/
def RU.eval [Zero α] [HPow α Nat α] (ω : α) : RU → α
  | none => 0
  | some k => ω ^ k

/-- `gen_pauli_x(dim) = np.roll(np.identity(dim), -1, axis=1)`: column `j` of the result is column
    `j+1 (mod d)` of the identity, i.e. entry `(i, j)` is 1 iff `i = j + 1 (mod d)` -/
def shiftE (d : Nat) : Nat → Nat → RU := fun i j => if i = (j + 1) % d then some 0 else none

/-- `gen_pauli_z(dim) = diag(ω^0, …, ω^{d-1})` -/
def clockE (d : Nat) : Nat → Nat → RU := fun i j => if i = j then some (i % d) else none

/-- `gen_pauli(k_1, k_2, dim) = X^{k_1} Z^{k_2}`: entry `(i, j)` is `ω^{k_2 j}` iff `i = j + k_1 (mod d)` -/
def genPauliE (d a b : Nat) : Nat → Nat → RU :=
  fun i j => if i = (j + a) % d then some ((b * j) % d) else none

/-- `fourier(dim)`: `ω^{ij} / √d` (the driver reports `den2 = d`) -/
def fourierE (d : Nat) : Nat → Nat → RU := fun i j => some ((i * j) % d)

/-! ### valued model -/

/-- shift `X` -/
def shiftX [Zero α] [One α] (d : Nat) : Nat → Nat → α := fun i j => if i = (j + 1) % d then 1 else 0

/-- clock `Z` -/
def clockZ [Zero α] [HPow α Nat α] (ω : α) : Nat → Nat → α := fun i j => if i = j then ω ^ i else 0

/-- closed form of `X^a Z^b` -/
def genPauli [Zero α] [HPow α Nat α] (ω : α) (d a b : Nat) : Nat → Nat → α :=
  fun i j => if i = (j + a) % d then ω ^ (b * j) else 0

/-- the code: `matrix_power(X, a) @ matrix_power(Z, b)` -/
def genPauliMirror [Add α] [Mul α] [Zero α] [One α] [HPow α Nat α] (ω : α) (d a b : Nat) : Nat → Nat → α :=
  matMul d (matPow d (shiftX d) a) (matPow d (clockZ ω) b)

/-- unnormalised Fourier matrix `√d · F` -/
def fourierU [HPow α Nat α] (ω : α) : Nat → Nat → α := fun i j => ω ^ (i * j)

/-- `cyclic_permutation_matrix(n, k)`: `P[i+1, i] = 1`, `P[0, n-1] = 1`, raised to the `k`-th power -/
def cyclicPerm (n k : Nat) : Nat → Nat → Int := fun i j => if i = (j + k) % n then 1 else 0

/-- the code of `cyclic_permutation_matrix` -/
def cyclicPermMirror (n k : Nat) : Nat → Nat → Int := matPow n (shiftX n) k

/-! ### Pauli -/

/-- `pauli(ind)` for `ind ∈ {0,1,2,3}` (every other integer gives the identity, as in the code) -/
def pauli (ind : Nat) : Nat → Nat → GI := fun i j =>
  match ind, i, j with
  | 1, 0, 1 => ⟨1, 0⟩
  | 1, 1, 0 => ⟨1, 0⟩
  | 1, _, _ => 0
  | 2, 0, 1 => ⟨0, -1⟩
  | 2, 1, 0 => ⟨0, 1⟩
  | 2, _, _ => 0
  | 3, 0, 0 => ⟨1, 0⟩
  | 3, 1, 1 => ⟨-1, 0⟩
  | 3, _, _ => 0
  | _, 0, 0 => 1
  | _, 1, 1 => 1
  | _, _, _ => 0

/-- `pauli([i_1, …, i_n]) = σ_{i_1} ⊗ … ⊗ σ_{i_n}` -/
def pauliList : List Nat → Nat → Nat → GI
  | [] => fun _ _ => 1
  | [a] => pauli a
  | a :: rest => kron (2 ^ rest.length) (2 ^ rest.length) (pauli a) (pauliList rest)

/-! ### Gell-Mann -/

/-- numerator of `gell_mann(ind)`; `λ_8` is this matrix divided by `√3` (`gellMannDen2`) -/
def gellMann (ind : Nat) : Nat → Nat → GI := fun i j =>
  match ind, i, j with
  | 0, 0, 0 => 1 | 0, 1, 1 => 1 | 0, 2, 2 => 1
  | 1, 0, 1 => 1 | 1, 1, 0 => 1
  | 2, 0, 1 => ⟨0, -1⟩ | 2, 1, 0 => ⟨0, 1⟩
  | 3, 0, 0 => 1 | 3, 1, 1 => ⟨-1, 0⟩
  | 4, 0, 2 => 1 | 4, 2, 0 => 1
  | 5, 0, 2 => ⟨0, -1⟩ | 5, 2, 0 => ⟨0, 1⟩
  | 6, 1, 2 => 1 | 6, 2, 1 => 1
  | 7, 1, 2 => ⟨0, -1⟩ | 7, 2, 1 => ⟨0, 1⟩
  | 8, 0, 0 => 1 | 8, 1, 1 => 1 | 8, 2, 2 => ⟨-2, 0⟩
  | _, _, _ => 0

/-- square of the real normalisation: `gell_mann(ind) = gellMann ind / √(gellMannDen2 ind)` -/
def gellMannDen2 (ind : Nat) : Nat := if ind = 8 then 3 else 1

/-- numerator of `gen_gell_mann(a, b, dim)`:
    `a = b = 0`: identity; `a = b = k ≥ 1`: `diag(1,…,1,-k,0,…,0)` (to be divided by `√(k(k+1)/2)`);
    `a < b`: `E_ab + E_ba`; `a > b`: `i E_ab - i E_ba` -/
def genGellMann (a b : Nat) : Nat → Nat → GI := fun i j =>
  if a = b then
    if i = j then
      if a = 0 then 1
      else if i < a then 1 else if i = a then ⟨-(a : Int), 0⟩ else 0
    else 0
  else if a < b then
    if (i = a ∧ j = b) ∨ (i = b ∧ j = a) then 1 else 0
  else
    if i = a ∧ j = b then ⟨0, 1⟩ else if i = b ∧ j = a then ⟨0, -1⟩ else 0

/-- `gen_gell_mann(a, b, d) = genGellMann a b / √(genGellMannDen2 a b)`; `k(k+1)/2` is an integer -/
def genGellMannDen2 (a b : Nat) : Nat := if a = b ∧ a ≠ 0 then a * (a + 1) / 2 else 1

/-! ### Hadamard, CNOT, standard basis -/

/-- `(-1)^{popcount(i & j)}` over the low `n` bits: the numerator of `hadamard(n)` (`den2 = 2^n`) -/
def hadamardS (n : Nat) : Nat → Nat → Int :=
  fun i j => prodFn n (fun b => if i.testBit b && j.testBit b then -1 else 1)

/-- `_hamming_distance(x)`: number of set bits, Kernighan's loop `x &= x - 1` -/
def hammingLoop : Nat → Nat → Nat
  | 0, _ => 0
  | fuel + 1, x => if x = 0 then 0 else 1 + hammingLoop fuel (x &&& (x - 1))

/-- the code of `hadamard`: `(-1) ** _hamming_distance(i & j)` -/
def hadamardMirror (n : Nat) : Nat → Nat → Int :=
  fun i j => if hammingLoop (n + 1) (i &&& j) % 2 = 0 then 1 else -1

/-- `cnot()` -/
def cnot : Nat → Nat → Int := fun i j =>
  match i, j with
  | 0, 0 => 1 | 1, 1 => 1 | 2, 3 => 1 | 3, 2 => 1
  | _, _ => 0

/-- `standard_basis(dim)[j][i] = first[i - j]` (Python negative indices wrap): `δ_{ij}` -/
def standardBasis (d : Nat) : Nat → Nat → Int := fun j i => if (i + d - j) % d = 0 then 1 else 0

end Toq.Matrices
